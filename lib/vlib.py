"""Common machinery for the /verif checks (see DESIGN.md section 2).

A check module (checks/<id>.py) defines `run(cx)` and uses the Ctx helpers:
  cx.go_build(name)            build harness/cmd/<name> from /repo's working tree (-tags verif)
  cx.tlc(spec, cfg, env=...)   run TLC in the scratch dir, return TLCResult
  cx.violation(desc, payload)  record a (reproduced) violation -> replays/<id>-*.json
  cx.known(id)                 known-finding lookup
  cx.cover[...]                coverage keys for the evidence file
Verdicts: exit 0 = held, exit 1 = VIOLATION (real-code disagreement), exit 2 = inconclusive.
"""
import json
import os
import re
import shutil
import subprocess
import sys
import time

VERIF = os.path.dirname(os.path.dirname(os.path.abspath(__file__)))
REPO = os.environ.get("VERIF_REPO", "/repo")
SPECS = os.path.join(VERIF, "specs")
HARNESS = os.path.join(VERIF, "harness")
TLA_JAR = "/opt/veriftools/tla/tla2tools.jar"
TLA_CP = TLA_JAR + ":/opt/veriftools/tla/CommunityModules-deps.jar"
NCPU = os.cpu_count() or 4


def mem_available_gb():
    try:
        for ln in open("/proc/meminfo"):
            if ln.startswith("MemAvailable:"):
                return int(ln.split()[1]) / 1048576.0
    except (OSError, ValueError):
        pass
    return 1e9


def wait_for_memory(need_gb, patience=900):
    """Block until `need_gb` of memory is available (at most `patience` seconds, then go ahead anyway)."""
    t0 = time.time()
    while mem_available_gb() < need_gb and time.time() - t0 < patience:
        time.sleep(2 + (os.getpid() % 7) * 0.3)


class Inconclusive(Exception):
    pass


def goenv():
    e = dict(os.environ)
    e.update({
        "GOFLAGS": "-mod=mod", "GOPROXY": "off", "GOSUMDB": "off",
        "GOTOOLCHAIN": "local", "GOWORK": "off", "CGO_ENABLED": e.get("CGO_ENABLED", "0"),
    })
    return e


class TLCResult:
    def __init__(self, rc, out, wall):
        self.rc = rc
        self.out = out
        self.wall = wall
        self.states_generated = 0
        self.distinct = 0
        m = None
        for m in re.finditer(r"(\d+) states generated, (\d+) distinct states found", out):
            pass
        if m:
            self.states_generated = int(m.group(1))
            self.distinct = int(m.group(2))
        self.ok = (rc == 0 and "Model checking completed. No error has been found." in out) or \
                  (rc == 0 and "Finished in" in out and "Error:" not in out)
        self.invariant_violated = re.findall(r"Invariant (\S+) is violated", out)
        self.property_violated = ("Temporal properties were violated" in out) or \
                                 bool(re.search(r"Temporal property \S+ was violated", out)) or \
                                 bool(re.search(r"Action property \S+ is violated", out))
        self.lines = out.splitlines()

    def printed(self, prefix):
        """Lines PrintT'ed by the spec that start with prefix (TLC wraps strings in quotes)."""
        res = []
        for ln in self.lines:
            s = ln.strip()
            if s.startswith('"') and s.endswith('"'):
                s = s[1:-1]
            if s.startswith(prefix):
                res.append(s)
        return res

    def tuples(self, tag):
        """Lines of the form <<"TAG", "payload">> printed with PrintT(<<tag, ToJson(x)>>)."""
        res = []
        pat = re.compile(r'^<<"' + re.escape(tag) + r'", "(.*)">>$')
        for ln in self.lines:
            m = pat.match(ln.strip())
            if m:
                s = m.group(1)
                # TLC escapes inner quotes and backslashes
                s = s.replace('\\"', '"').replace('\\\\', '\\')
                res.append(s)
        return res


class Ctx:
    def __init__(self, pid, tier, seed, replay=None):
        self.pid = pid
        self.tier = tier
        self.seed = seed
        self.replay = replay
        self.t0 = time.time()
        self.work = os.path.join(VERIF, ".work", "%s.%d" % (pid, os.getpid()))
        os.makedirs(self.work, exist_ok=True)
        self.cover = {}
        self.assumptions = []
        self.violations = []
        self.known_printed = []
        self.level = "model_checking"
        self._known = None
        self.samples = []
        self.tlc_states = 0
        self.tlc_distinct = 0
        self.notes = []

    # ---------------------------------------------------------------- util
    def log(self, *a):
        print("[%s %6.1fs]" % (self.pid, time.time() - self.t0), *a, flush=True)

    def quick(self):
        return self.tier == "quick"

    def path(self, *p):
        return os.path.join(self.work, *p)

    def cleanup(self):
        shutil.rmtree(self.work, ignore_errors=True)
        try:
            os.rmdir(os.path.join(VERIF, ".work"))
        except OSError:
            pass

    def sample(self, x, limit=6):
        if len(self.samples) < limit:
            self.samples.append(x)

    # ---------------------------------------------------------------- go
    def go_build(self, name, race=False, tags="verif", out=None):
        """Build harness/cmd/<name> against /repo's current working tree."""
        src_sum = os.path.join(REPO, "go.sum")
        dst_sum = os.path.join(HARNESS, "go.sum")
        try:
            a = open(src_sum, "rb").read()
            b = open(dst_sum, "rb").read() if os.path.exists(dst_sum) else b""
            if a != b:
                tmp = dst_sum + ".%d" % os.getpid()
                with open(tmp, "wb") as f:
                    f.write(a)
                os.replace(tmp, dst_sum)
        except OSError as e:
            raise Inconclusive("go.sum copy failed: %s" % e)
        out = out or self.path("bin_" + name + ("_race" if race else ""))
        cmd = ["go", "build", "-tags", tags, "-o", out]
        if REPO != "/repo":
            # development aid: build against another checkout (a scratch worktree) through an alternative go.mod
            mf = self.path("alt.go.mod")
            with open(os.path.join(HARNESS, "go.mod")) as f:
                txt = f.read().replace("=> /repo", "=> " + REPO)
            with open(mf, "w") as f:
                f.write(txt)
            shutil.copy(src_sum, self.path("alt.go.sum"))
            cmd += ["-modfile", mf]
        env = goenv()
        if race:
            cmd.insert(2, "-race")
            env["CGO_ENABLED"] = "1"
        cmd.append("./cmd/" + name)
        t = time.time()
        p = subprocess.run(cmd, cwd=HARNESS, env=env, stdout=subprocess.PIPE, stderr=subprocess.STDOUT, text=True)
        if p.returncode != 0:
            raise Inconclusive("harness build failed (%s):\n%s" % (name, p.stdout[-4000:]))
        self.log("built %s in %.1fs" % (name, time.time() - t))
        return out

    def run(self, argv, stdin=None, timeout=1200, env=None, cwd=None, check=True, stdout_path=None):
        e = goenv()
        if env:
            e.update(env)
        so = open(stdout_path, "wb") if stdout_path else subprocess.PIPE
        try:
            p = subprocess.run(argv, input=stdin, stdout=so, stderr=subprocess.PIPE,
                               timeout=timeout, env=e, cwd=cwd or self.work)
        except subprocess.TimeoutExpired:
            raise Inconclusive("timeout running %s" % argv[0])
        finally:
            if stdout_path:
                so.close()
        if check and p.returncode != 0:
            raise Inconclusive("driver %s exited %d: %s" % (
                os.path.basename(argv[0]), p.returncode, p.stderr.decode("utf8", "replace")[-3000:]))
        return p

    # ---------------------------------------------------------------- tlc
    def tlc(self, spec, cfg=None, env=None, workers=None, timeout=1500, simulate=None, depth=None,
            extra=None, deadlock=False, heap=None, cfg_text=None, name=None, coverage=False):
        """Run TLC on specs/<spec>.tla with specs/<cfg> in a private scratch directory."""
        name = name or (spec + "_" + str(len(os.listdir(self.work))))
        d = self.path("tlc_" + name)
        os.makedirs(d, exist_ok=True)
        for f in os.listdir(SPECS):
            if f.endswith(".tla"):
                shutil.copy(os.path.join(SPECS, f), d)
        cfgname = spec + ".cfg"
        if cfg_text is not None:
            with open(os.path.join(d, cfgname), "w") as f:
                f.write(cfg_text)
        else:
            shutil.copy(os.path.join(SPECS, cfg or cfgname), os.path.join(d, cfgname))
        workers = workers or min(NCPU, 8)
        cmd = ["java", "-XX:+UseParallelGC", "-Xss512m"]
        if heap:
            cmd.append("-Xmx" + heap)
        cmd += ["-cp", TLA_CP, "tlc2.TLC", "-workers", str(workers), "-metadir", os.path.join(d, "meta"),
                "-config", cfgname, "-noGenerateSpecTE"]
        if not deadlock:
            cmd.append("-deadlock")  # -deadlock DISABLES deadlock checking
        if simulate:
            cmd += ["-simulate", simulate]
            if depth:
                cmd += ["-depth", str(depth)]
            cmd += ["-seed", str(self.seed)]
        if coverage:
            cmd += ["-coverage", "1"]
        if extra:
            cmd += extra
        cmd.append(spec + ".tla")
        e = dict(os.environ)
        if env:
            e.update({k: str(v) for k, v in env.items()})
        t = time.time()
        for attempt in (1, 2, 3):
            # a JVM may grow to its heap limit: start it only when that much memory is free (other checks, or other
            # TLC processes of this one, may be running), and start it again if the kernel killed it for memory
            wait_for_memory(float(heap.rstrip("g")) + 1.0 if heap and heap.endswith("g") else 4.0)
            try:
                p = subprocess.run(cmd, cwd=d, env=e, stdout=subprocess.PIPE, stderr=subprocess.STDOUT,
                                   timeout=timeout)
            except subprocess.TimeoutExpired:
                subprocess.run(["pkill", "-f", d], check=False)
                raise Inconclusive("TLC timeout on %s" % spec)
            if p.returncode not in (-9, 137) or attempt == 3:
                break
            self.log("tlc %s: killed (rc=%d), attempt %d; starting it again" % (name, p.returncode, attempt))
            shutil.rmtree(os.path.join(d, "meta"), ignore_errors=True)
            time.sleep(5 * attempt)
        out = p.stdout.decode("utf8", "replace")
        r = TLCResult(p.returncode, out, time.time() - t)
        with open(os.path.join(d, "tlc.out"), "w") as f:
            f.write(out)
        self.tlc_states += r.states_generated
        self.tlc_distinct += r.distinct
        self.log("tlc %s: rc=%d generated=%d distinct=%d %.1fs" % (name, r.rc, r.states_generated, r.distinct, r.wall))
        return r

    # ---------------------------------------------------------------- tlapm
    def tlapm(self, proof, timeout=900):
        """Check specs/proofs/<proof>.tla with the TLA+ proof system; returns the number of proved obligations.

        A failed or incomplete proof is Inconclusive: it concerns the specification, not the code."""
        d = self.path("tlapm_" + proof)
        os.makedirs(d, exist_ok=True)
        for f in os.listdir(SPECS):
            if f.endswith(".tla"):
                shutil.copy(os.path.join(SPECS, f), d)
        shutil.copy(os.path.join(SPECS, "proofs", proof + ".tla"), d)
        t = time.time()
        try:
            p = subprocess.run(["tlapm", "--threads", str(min(NCPU, 16)), proof + ".tla"], cwd=d, stdout=subprocess.PIPE,
                               stderr=subprocess.STDOUT, timeout=timeout)
        except subprocess.TimeoutExpired:
            raise Inconclusive("tlapm timeout on %s" % proof)
        out = p.stdout.decode("utf8", "replace")
        with open(os.path.join(d, "tlapm.out"), "w") as f:
            f.write(out)
        m = re.search(r"All (\d+) obligations? proved", out)
        if p.returncode != 0 or not m:
            raise Inconclusive("tlapm did not prove %s:\n%s" % (proof, out[-1500:]))
        self.log("tlapm %s: %s obligations proved %.1fs" % (proof, m.group(1), time.time() - t))
        return int(m.group(1))

    def alive(self, bad, total, what):
        """A driver that cannot perform its cases decides nothing: more than 5 (and 5%) failed cases is Inconclusive."""
        if total <= 0 or bad > max(5, total // 20):
            raise Inconclusive("%s: the driver failed on %d of %d cases (see notes)" % (what, bad, total))

    def tlc_must_pass(self, r, what):
        """The spec itself must be error free (a spec error is inconclusive, not a violation)."""
        if not r.ok:
            tail = "\n".join(r.lines[-40:])
            raise Inconclusive("TLC did not complete cleanly for %s (rc=%d):\n%s" % (what, r.rc, tail))

    # ---------------------------------------------------------------- findings
    def known_findings(self):
        if self._known is None:
            p = os.path.join(VERIF, "known_findings.json")
            self._known = json.load(open(p)) if os.path.exists(p) else {"findings": [], "fixed": []}
        return [f for f in self._known.get("findings", []) if f["property"] == self.pid]

    def report_known(self, finding, what=None):
        line = "KNOWN-FINDING: property=%s %s" % (self.pid, what or finding["what"])
        if line not in self.known_printed:
            self.known_printed.append(line)
            print(line, flush=True)

    def violation(self, desc, payload):
        os.makedirs(os.path.join(VERIF, "replays"), exist_ok=True)
        n = len(self.violations)
        path = os.path.join(VERIF, "replays", "%s-%s-%d-%d.json" % (self.pid, self.tier, self.seed, min(n, 49)))
        if n < 50:   # at most 50 replay files per run; further violations are counted only
            with open(path, "w") as f:
                json.dump({"property": self.pid, "desc": desc, "case": payload}, f, indent=1, default=str)
        self.violations.append((desc, path))
        if n < 20:
            print("VIOLATION property=%s replay=%s" % (self.pid, path), flush=True)
            print("  detail: %s" % desc[:600], flush=True)

    # ---------------------------------------------------------------- evidence
    def write_evidence(self, status):
        cov = dict(self.cover)
        if self.samples and "samples" not in cov:
            cov["samples"] = self.samples
        if self.tlc_states and "states" not in cov:
            cov["states"] = self.tlc_distinct
            cov["transitions"] = self.tlc_states
        ev = {
            "property_id": self.pid,
            "tier": self.tier,
            "seed": self.seed,
            "level": self.level,
            "coverage": cov,
            "assumptions": self.assumptions,
            "wall_s": round(time.time() - self.t0, 2),
            "violations": len(self.violations),
            "status": status,
            "known_findings_reported": self.known_printed,
            "notes": self.notes,
        }
        # runs against a scratch tree (VERIF_REPO, seeded changes) keep their evidence apart
        evdir = os.environ.get("VERIF_EVIDENCE_DIR") or os.path.join(VERIF, "evidence")
        os.makedirs(evdir, exist_ok=True)
        p = os.path.join(evdir, self.pid + ".json")
        tmp = p + ".tmp%d" % os.getpid()
        with open(tmp, "w") as f:
            json.dump(ev, f, indent=1, default=str)
        os.replace(tmp, p)


def read_ndjson(path):
    out = []
    with open(path) as f:
        for ln in f:
            ln = ln.strip()
            if ln:
                out.append(json.loads(ln))
    return out


def write_ndjson(path, rows):
    with open(path, "w") as f:
        for r in rows:
            f.write(json.dumps(r, separators=(",", ":")) + "\n")


def main(argv):
    import argparse
    import importlib
    ap = argparse.ArgumentParser()
    ap.add_argument("pid")
    ap.add_argument("--tier", default=os.environ.get("VERIF_TIER", "quick"))
    ap.add_argument("--replay", default=None)
    ap.add_argument("--keep", action="store_true")
    a = ap.parse_args(argv)
    if a.tier not in ("quick", "thorough"):
        a.tier = "quick"
    try:
        seed = int(os.environ.get("VERIF_SEED", "1"))
    except ValueError:
        seed = 1
    sys.path.insert(0, os.path.join(VERIF, "checks"))
    cx = Ctx(a.pid, a.tier, seed, a.replay)
    status = "ok"
    rc = 0
    try:
        mod = importlib.import_module(a.pid.lower())
        mod.run(cx)
        if cx.violations:
            status, rc = "violation", 1
    except Inconclusive as e:
        print("INCONCLUSIVE property=%s: %s" % (a.pid, e), flush=True)
        status, rc = "inconclusive", 2
        if cx.violations:
            status, rc = "violation", 1
    except Exception:
        import traceback
        traceback.print_exc()
        print("INCONCLUSIVE property=%s: internal error in check" % a.pid, flush=True)
        status, rc = "inconclusive", 2
        if cx.violations:
            status, rc = "violation", 1
    try:
        cx.write_evidence(status)
    finally:
        if not a.keep:
            cx.cleanup()
    print("RESULT property=%s tier=%s seed=%d status=%s violations=%d wall=%.1fs" % (
        a.pid, a.tier, seed, status, len(cx.violations), time.time() - cx.t0), flush=True)
    return rc
