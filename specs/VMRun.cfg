SPECIFICATION Spec
CONSTANTS Faithful = FALSE
 MaxRuns = 3
 Steps = 2
 MaxClones = 2
INVARIANT TypeOK
INVARIANT NoCut
INVARIANT OwnContextOnly
PROPERTY CancelStopsRun
PROPERTY CancelStopsClones
CHECK_DEADLOCK FALSE
