----------------------------- MODULE LangCheck -----------------------------
(* Conformance of the real pipeline with Lang.tla, one recorded case per TLC state.   *)
(* Each line of VERIF_CASES is {id, hoist, ast, obs}: the AST that was rendered to    *)
(* source text and the outcome observed from lexer+parser+compiler+VM.  The trace     *)
(* action consumes one case; the (always true) invariant prints a MISMATCH line for   *)
(* every case whose observation is not the one the specification assigns.             *)
EXTENDS Lang, Json, IOUtils
Cases == ndJsonDeserialize(IOEnv.VERIF_CASES)
VARIABLE i
Init == i = 1
Next == i <= Len(Cases) /\ i' = i + 1
Check == i <= Len(Cases) =>
   LET c == Cases[i]
       spec == RunProgram(c)
   \* a program whose real run did not finish within the harness limit is not evaluated (an endless loop that grows
   \* its data costs the model minutes): it is outside the comparison, and the check counts such programs
   IN IF c.obs.k = "timeout" THEN PrintT(<<"UNKNOWN", c.id>>)
      ELSE IF spec.k = "unknown" THEN PrintT(<<"UNKNOWN", c.id>>)
      ELSE IF Conforms(spec, c.obs) THEN TRUE
      ELSE PrintT(<<"MISMATCH", c.id, ToJson(spec)>>)
=============================================================================
