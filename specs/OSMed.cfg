CONSTANTS
  MaxDepth = 3
  CloneCopiesOS = TRUE
  InitInstalls = TRUE
INIT PInit
NEXT PNext
INVARIANT TypeOK
INVARIANT Mediated
INVARIANT ExportNestings
CHECK_DEADLOCK FALSE
