------------------------------ MODULE Boundary ------------------------------
(* C08 - Go values cross the host/script boundary faithfully or are rejected cleanly. *)
(*                                                                                    *)
(* TYPE ALGEBRA.  A Go type is a CHAIN: a sequence of constructors ending in a leaf,  *)
(*   <<"slice","ptr","int8">> = []*int8.   Constructors: ptr, slice, arr1, arr2       *)
(*   ([1]T, [2]T), map (map[string]T), s1 (struct{A T}), s2 (struct{A string; B T}),  *)
(*   iface (static type any holding a value whose dynamic type is the rest of the     *)
(*   chain).  Leaves: the supported kinds, time.Time, and a fixed pool of NAMED types *)
(*   (MyInt int, MyStr string, MyFloat float64, MyBool bool, Duration int64, MyU64, MyU8, MyI8, MyF32,          *)
(*   MyList []int, MyMap map[string]string, Rec struct{A string; B int64} with        *)
(*   methods).  Unsupported on purpose: complex128, chan, func, imap (map[int]T).     *)
(* VALUE CLASSES.  zero, min, max, typ select the leaf value (symbolic: the decimal   *)
(*   TEXT of the extreme, TLC integers are 32 bit); nilK / emptyK put a nil / an      *)
(*   empty container at constructor depth K (leaves are then typ).  Containers hold   *)
(*   <<class value, typ value>> so a nil sits next to an ordinary sibling.            *)
(* TREES.  Both Go values and script values are uniform nodes [t, s, k, c] (tag,      *)
(*   text, keys, kids).  In Go trees pointers and interfaces are transparent and      *)
(*   every integer kind has tag "int": the static types are guaranteed by Go itself   *)
(*   wherever the value lands in a typed field or parameter.                          *)
EXTENDS Integers, Sequences, FiniteSets, TLC

Node(tag, text, keys, kids) == [t |-> tag, s |-> text, k |-> keys, c |-> kids]
Leaf(tag, text) == Node(tag, text, <<>>, <<>>)
NilNode == Leaf("nil", "")

Ctors == {"ptr", "slice", "arr1", "arr2", "map", "s1", "s2", "iface"}
Scalars == {"bool", "int8", "int16", "int32", "int64", "int", "uint8", "uint16", "uint32", "uint64",
            "uint", "float32", "float64", "string", "time"}
NamedScalars == {"MyInt", "MyStr", "MyFloat", "MyBool", "Duration", "MyU64", "MyU8", "MyI8", "MyF32"}
NamedComposites == {"MyList", "MyMap", "Rec", "Hid", "MyStrs"}   \* Hid: the exported shape of Rec with unexported fields around it
Leaves == Scalars \cup NamedScalars \cup NamedComposites
UnsupportedLeaves == {"complex128", "chan", "func"}

\* "named T -> as its underlying T"
Kind(leaf) == CASE leaf = "MyInt" -> "int" [] leaf = "MyStr" -> "string" [] leaf = "MyFloat" -> "float64"
                [] leaf = "MyBool" -> "bool" [] leaf = "Duration" -> "int64" [] leaf = "MyU64" -> "uint64"
                [] leaf = "MyU8" -> "uint8" [] leaf = "MyI8" -> "int8" [] leaf = "MyF32" -> "float32" [] OTHER -> leaf
Under(leaf) == CASE leaf = "MyList" -> <<"slice", "int">> [] leaf = "MyStrs" -> <<"slice", "string">> [] leaf = "MyMap" -> <<"map", "string">>
                 [] leaf \in {"Rec", "Hid"} -> <<"s2", "int64">> [] OTHER -> <<leaf>>
Last(s) == s[Len(s)]
Front(s) == SubSeq(s, 1, Len(s) - 1)
\* value structure of a chain: a named composite leaf is replaced by its underlying chain
Expand(t) == Front(t) \o Under(Last(t))
CtorDepth(t) == Len(t) - 1 + (IF Last(t) \in NamedScalars \cup NamedComposites THEN 1 ELSE 0)

IntKinds == {"int8", "int16", "int32", "int64", "int", "uint8", "uint16", "uint32", "uint64", "uint"}
FloatKinds == {"float32", "float64"}
GoTag(kind) == IF kind \in IntKinds THEN "int" ELSE IF kind \in FloatKinds THEN "float"
               ELSE IF kind = "string" THEN "str" ELSE kind
\* ints -> int, uint8 -> byte, floats -> float
ScriptTag(kind) == IF kind = "uint8" THEN "byte" ELSE GoTag(kind)

-----------------------------------------------------------------------------
(* Symbolic leaf values: index 1..4 = zero, min, max, typ *)
ClsIx(c) == CASE c = "zero" -> 1 [] c = "min" -> 2 [] c = "max" -> 3 [] OTHER -> 4
LeafTexts(kind) ==
  CASE kind = "bool"    -> <<"false", "false", "true", "true">>
    [] kind = "int8"    -> <<"0", "-128", "127", "42">>
    [] kind = "int16"   -> <<"0", "-32768", "32767", "4242">>
    [] kind = "int32"   -> <<"0", "-2147483648", "2147483647", "424242">>
    [] kind = "int64"   -> <<"0", "-9223372036854775808", "9223372036854775807", "4242424242">>
    [] kind = "int"     -> <<"0", "-9223372036854775808", "9223372036854775807", "-4242">>
    [] kind = "uint8"   -> <<"0", "0", "255", "200">>
    [] kind = "uint16"  -> <<"0", "0", "65535", "40000">>
    [] kind = "uint32"  -> <<"0", "0", "4294967295", "3000000000">>
    [] kind = "uint64"  -> <<"0", "0", "18446744073709551615", "9000000000">>
    [] kind = "uint"    -> <<"0", "0", "18446744073709551615", "77">>
    [] kind = "float32" -> <<"0", "-3.4028234663852886e+38", "3.4028234663852886e+38", "1.5">>
    [] kind = "float64" -> <<"0", "-1.7976931348623157e+308", "1.7976931348623157e+308", "-2.25">>
    [] kind = "string"  -> <<"", "", "~~~~ long-ish text with spaces ~~~~", "hi">>
    [] kind = "time"    -> <<"0001-01-01T00:00:00Z", "0001-01-01T00:00:00.000000001Z",
                             "9999-12-31T23:59:59Z", "2023-11-14T22:13:20.000000123Z">>
    [] OTHER            -> <<"?", "?", "?", "?">>
LeafText(kind, c) == LeafTexts(kind)[ClsIx(c)]

\* Numeric order of every integer text of the universe (ranks instead of 64-bit arithmetic).
IntOrder == <<"-9223372036854775809", "-9223372036854775808", "-2147483649", "-2147483648", "-32769", "-32768",
              "-4242", "-129", "-128", "-1", "0", "7", "42", "77", "127", "128", "200", "255", "256", "4242",
              "32767", "32768", "40000", "65535", "65536", "424242", "2147483647", "2147483648", "3000000000",
              "4242424242", "4294967295", "4294967296", "9000000000", "9223372036854775807",
              "9223372036854775808", "18446744073709551615", "18446744073709551616">>
Rank(text) == IF \E i \in 1..Len(IntOrder) : IntOrder[i] = text
              THEN CHOOSE i \in 1..Len(IntOrder) : IntOrder[i] = text ELSE 0
InRange(kind, text) == /\ Rank(text) > 0
                       /\ Rank(LeafText(kind, "min")) <= Rank(text)
                       /\ Rank(text) <= Rank(LeafText(kind, "max"))
\* the script integer is an int64
ScriptIntOK(text) == InRange("int64", text)
F32Texts == {"0", "-3.4028234663852886e+38", "3.4028234663852886e+38", "1.5", "-2.25"}

-----------------------------------------------------------------------------
(* Classes *)
NilAt(c) == CASE c = "nil0" -> 0 [] c = "nil1" -> 1 [] c = "nil2" -> 2 [] c = "nil3" -> 3 [] c = "nil4" -> 4
              [] c = "nil5" -> 5 [] c = "nil6" -> 6 [] c = "nil7" -> 7 [] OTHER -> -1
EmptyAt(c) == CASE c = "empty0" -> 0 [] c = "empty1" -> 1 [] c = "empty2" -> 2 [] c = "empty3" -> 3
                [] c = "empty4" -> 4 [] c = "empty5" -> 5 [] c = "empty6" -> 6 [] c = "empty7" -> 7 [] OTHER -> -1
NilName == <<"nil0", "nil1", "nil2", "nil3", "nil4", "nil5", "nil6", "nil7">>
EmptyName == <<"empty0", "empty1", "empty2", "empty3", "empty4", "empty5", "empty6", "empty7">>
BaseClasses == {"zero", "min", "max", "typ"}
Base(c) == IF c \in BaseClasses THEN c ELSE "typ"
Other(c) == IF c = "typ" THEN "zero" ELSE "typ"
Classes(t) == LET x == Expand(t) IN
   BaseClasses
   \cup {NilName[i] : i \in {j \in 1..(Len(x) - 1) : x[j] \in {"ptr", "slice", "map", "iface"}}}
   \cup {EmptyName[i] : i \in {j \in 1..(Len(x) - 1) : x[j] \in {"slice", "map"}}}

-----------------------------------------------------------------------------
(* The Go value of class c of the (expanded) chain ch at constructor depth d *)
RECURSIVE GoTree(_, _, _)
GoTree(ch, d, c) ==
  LET h == ch[1] IN
  IF NilAt(c) = d THEN (IF h = "slice" THEN Leaf("nilseq", "") ELSE IF h = "map" THEN Leaf("nilmap", "") ELSE NilNode)
  ELSE IF EmptyAt(c) = d THEN (IF h = "slice" THEN Node("seq", "", <<>>, <<>>) ELSE Node("map", "", <<>>, <<>>))
  ELSE IF Len(ch) = 1 THEN Leaf(GoTag(Kind(h)), LeafText(Kind(h), Base(c)))
  ELSE LET r == Tail(ch) IN
    CASE h \in {"ptr", "iface"} -> GoTree(r, d + 1, c)
      [] h \in {"slice", "arr2"} -> Node("seq", "", <<>>, <<GoTree(r, d + 1, c), GoTree(r, d + 1, "typ")>>)
      [] h = "arr1" -> Node("seq", "", <<>>, <<GoTree(r, d + 1, c)>>)
      [] h \in {"map", "imap"} -> Node("map", "", <<"a", "b">>, <<GoTree(r, d + 1, c), GoTree(r, d + 1, "typ")>>)
      [] h = "s1" -> Node("struct", "", <<"A">>, <<GoTree(r, d + 1, c)>>)
      [] h = "s2" -> Node("struct", "", <<"A", "B">>, <<Leaf("str", "tag"), GoTree(r, d + 1, c)>>)
GoVal(t, c) == GoTree(Expand(t), 0, c)

\* Equality of Go values at the abstraction of the property: a nil slice/map equals an empty one
\* (the script has one empty list / map), pointers and interfaces are transparent.
RECURSIVE Canon(_)
Canon(v) == IF v.t = "nilseq" THEN Node("seq", "", <<>>, <<>>)
            ELSE IF v.t = "nilmap" THEN Node("map", "", <<>>, <<>>)
            ELSE Node(v.t, v.s, v.k, [i \in 1..Len(v.c) |-> Canon(v.c[i])])

-----------------------------------------------------------------------------
(* ToScript(ch, v): the script value that represents Go value v of type ch *)
RECURSIVE ToScript(_, _)
ToScript(ch, v) ==
  LET h == ch[1] IN
  IF Len(ch) = 1 THEN Leaf(ScriptTag(Kind(h)), v.s)
  ELSE LET r == Tail(ch)
           kids == [i \in 1..Len(v.c) |-> ToScript(r, v.c[i])]
    IN CASE h = "ptr" -> IF v.t = "nil" THEN NilNode
                         ELSE IF r = <<"time">> THEN Leaf("proxy", v.s)   \* *time.Time: opaque proxy of a struct pointer
                         ELSE ToScript(r, v)                            \* pointer -> pointee
         [] h = "iface" -> IF v.t = "nil" THEN NilNode ELSE ToScript(r, v)
         [] h = "slice" -> Node(IF r = <<"uint8">> THEN "byte_slice" ELSE IF r = <<"float64">> THEN "float_slice" ELSE "list",
                                "", <<>>, kids)
         [] h \in {"arr1", "arr2"} -> Node("list", "", <<>>, kids)
         [] h = "map" -> Node("map", "", v.k, kids)
         [] h = "s1" -> Node("proxy", "", <<"A">>, <<ToScript(r, v.c[1])>>)
         [] h = "s2" -> Node("proxy", "", <<"A", "B">>, <<ToScript(<<"string">>, v.c[1]), ToScript(r, v.c[2])>>)
Script(t, c) == ToScript(Expand(t), GoVal(t, c))

\* A script value exists only if every integer in it fits the script's int64.
RECURSIVE ScriptOK(_)
ScriptOK(w) == /\ (w.t = "int" => ScriptIntOK(w.s))
               /\ \A i \in 1..Len(w.c) : ScriptOK(w.c[i])

HasUnsupported(t) == \E i \in 1..Len(t) : t[i] \in UnsupportedLeaves \cup {"imap"}
\* The explicit set of pairs that cannot be represented and therefore must be rejected with an error.
Rejected(t, c) == \/ HasUnsupported(t)
                  \/ (Base(c) = "max" /\ c \in BaseClasses /\ Kind(Last(t)) \in {"uint64", "uint"})

-----------------------------------------------------------------------------
(* ToGo(ch, w): what Go receives when script value w is handed to a slot of type ch; [ok, v] *)
Ok(v) == [ok |-> TRUE, v |-> v]
Err == [ok |-> FALSE, v |-> Leaf("err", "")]
AllOk(rs) == \A i \in 1..Len(rs) : rs[i].ok
Vals(rs) == [i \in 1..Len(rs) |-> rs[i].v]

\* dynamically typed slot: the script value widened to Go (int64, float64, []any, map[string]any, ...)
RECURSIVE Widen(_)
Widen(w) == CASE w.t \in {"int", "byte"} -> Leaf("int", w.s)
              [] w.t \in {"list", "byte_slice", "float_slice"} -> Node("seq", "", <<>>, [i \in 1..Len(w.c) |-> Widen(w.c[i])])
              [] w.t = "map" -> Node("map", "", w.k, [i \in 1..Len(w.c) |-> Widen(w.c[i])])
              [] w.t = "proxy" -> IF w.s # "" THEN Leaf("time", w.s)
                                  ELSE Node("struct", "", w.k, [i \in 1..Len(w.c) |-> Widen(w.c[i])])
              [] OTHER -> w

LeafToGo(kind, w) ==
  CASE kind \in IntKinds -> IF w.t \in {"int", "byte"} /\ InRange(kind, w.s) THEN Ok(Leaf("int", w.s)) ELSE Err
    [] kind = "float64" -> IF w.t = "float" THEN Ok(w) ELSE Err
    [] kind = "float32" -> IF w.t = "float" /\ w.s \in F32Texts THEN Ok(w) ELSE Err
    [] kind = "string" -> IF w.t = "str" THEN Ok(w) ELSE Err
    [] kind = "bool" -> IF w.t = "bool" THEN Ok(w) ELSE Err
    [] kind = "time" -> IF w.t = "time" THEN Ok(w) ELSE Err
    [] OTHER -> Err

RECURSIVE ToGo(_, _)
ToGo(ch, w) ==
  LET h == ch[1] IN
  IF Len(ch) = 1 THEN LeafToGo(Kind(h), w)
  ELSE LET r == Tail(ch)
           rs == [i \in 1..Len(w.c) |-> ToGo(r, w.c[i])]
    IN CASE h = "ptr" -> IF w.t = "nil" THEN Ok(NilNode)
                         ELSE IF r = <<"time">> THEN (IF w.t = "proxy" /\ w.s # "" THEN Ok(Leaf("time", w.s)) ELSE Err)
                         ELSE ToGo(r, w)
         [] h = "iface" -> Ok(Widen(w))
         [] h = "slice" -> IF w.t = "nil" THEN Ok(Leaf("nilseq", ""))
                           ELSE IF w.t \in {"list", "byte_slice", "float_slice"} /\ AllOk(rs) THEN Ok(Node("seq", "", <<>>, Vals(rs)))
                           ELSE Err
         [] h \in {"arr1", "arr2"} -> IF w.t = "list" /\ Len(w.c) = (IF h = "arr1" THEN 1 ELSE 2) /\ AllOk(rs)
                                      THEN Ok(Node("seq", "", <<>>, Vals(rs))) ELSE Err
         [] h = "map" -> IF w.t = "nil" THEN Ok(Leaf("nilmap", ""))
                         ELSE IF w.t = "map" /\ AllOk(rs) THEN Ok(Node("map", "", w.k, Vals(rs))) ELSE Err
         [] h = "s1" -> IF w.t = "proxy" /\ w.k = <<"A">> /\ ToGo(r, w.c[1]).ok
                        THEN Ok(Node("struct", "", <<"A">>, <<ToGo(r, w.c[1]).v>>)) ELSE Err
         [] h = "s2" -> IF w.t = "proxy" /\ w.k = <<"A", "B">> /\ w.c[1].t = "str" /\ ToGo(r, w.c[2]).ok
                        THEN Ok(Node("struct", "", <<"A", "B">>, <<w.c[1], ToGo(r, w.c[2]).v>>)) ELSE Err
Representable(t, w) == ToGo(Expand(t), w).ok

-----------------------------------------------------------------------------
(* The algebra *)
RECURSIVE Prefixes(_)
Prefixes(n) == IF n = 0 THEN {<<>>}
               ELSE LET P == Prefixes(n - 1) IN P \cup {<<k>> \o p : k \in Ctors, p \in {q \in P : Len(q) = n - 1}}
Types(d) == {p \o <<l>> : p \in Prefixes(d), l \in Leaves}
\* the algebra is split by leaf so that several TLC processes can enumerate it in parallel
LeafSeq == <<"bool", "int8", "int16", "int32", "int64", "int", "uint8", "uint16", "uint32", "uint64", "uint",
             "float32", "float64", "string", "time", "MyInt", "MyStr", "MyFloat", "MyBool", "Duration",
             "MyList", "MyMap", "Rec", "MyU64", "MyU8", "MyI8", "MyF32", "Hid", "MyStrs">>
ShardLeaves(k, n) == {LeafSeq[i] : i \in {j \in 1..Len(LeafSeq) : j % n = k}}
ShardTypes(d, k, n) == {p \o <<l>> : p \in Prefixes(d), l \in ShardLeaves(k, n)}
UnsupportedTypes == {p \o <<l>> : p \in Prefixes(1), l \in UnsupportedLeaves} \cup {<<"imap", "int">>, <<"imap", "string">>}

\* Routes.  A top-level interface global is its dynamic value (WithGlobal takes an any), except the untyped nil.
\* field_write (dst.F = src.F) and method_arg (b.Put3(b.V, 7, b.W)) need the script value of the pair, which
\* does not exist for a Rejected pair.
MethodRoutes == {"method_arg", "method_result", "method_result_val"}
Routes(t, c, mdepth) ==
   ((IF t[1] = "iface" THEN (IF c = "nil0" /\ t = <<"iface", "bool">> THEN {"global"} ELSE {}) ELSE {"global", "global_ov", "global_again"})
    \cup {"field_read", "field_write"}
    \* global_again: one VM evaluates twice and is handed the same Go value under the same name both times; the
    \* second evaluation must see what the first saw
    \* a struct-valued field is written THROUGH: dst.F.A = src.F.A (dst.F.B for s2) must reach the Go struct
    \cup (IF t[1] \in {"s1", "s2"} THEN {"nested_write"} ELSE {})
    \cup (IF Len(t) - 1 <= mdepth THEN MethodRoutes ELSE {}))
   \ (IF Rejected(t, c) THEN {"field_write", "nested_write", "method_arg"} ELSE {})

NoLit == Leaf("na", "")
CasesOf(T, mdepth) == {[t |-> t, c |-> c, r |-> r, w |-> NoLit] : <<t, c, r>> \in
       UNION {UNION {{<<t, c, r>> : r \in Routes(t, c, mdepth)} : c \in Classes(t)} : t \in T}}
UnsupportedCases == {[t |-> t, c |-> c, r |-> r, w |-> NoLit] : <<t, c, r>> \in
       UNION {UNION {{<<t, c, r>> : r \in Routes(t, c, 1)} : c \in {"zero", "typ"}} : t \in UnsupportedTypes}}

\* Script-originated values (route write_lit: dst.F = <literal>; dst.F): integers around every boundary, a float,
\* a string and nil written into integer slots under at most one constructor, and lists of the wrong length
\* written into arrays.  Representable(t, w) decides whether Go may accept the write.
LitLeaves == IntKinds \cup {"MyInt", "Duration", "MyU64", "MyI8"}
LitScalars == {Leaf("int", IntOrder[i]) : i \in {j \in 1..Len(IntOrder) : ScriptIntOK(IntOrder[j])}}
              \cup {Leaf("float", "1.5"), Leaf("str", "hi"), NilNode}
Seven == Leaf("int", "7")
LitWrap(p, x) == CASE p = <<>> -> x
                   [] p = <<"ptr">> -> x
                   [] p = <<"iface">> -> x
                   [] p = <<"slice">> -> Node("list", "", <<>>, <<x, Seven>>)
                   [] p = <<"arr2">> -> Node("list", "", <<>>, <<Seven, x>>)
                   [] p = <<"map">> -> Node("map", "", <<"a", "b">>, <<x, Seven>>)
LitPrefixes == {<<>>, <<"ptr">>, <<"iface">>, <<"slice">>, <<"arr2">>, <<"map">>}
ListOf(n) == Node("list", "", <<>>, [i \in 1..n |-> Seven])
LitCases == {[t |-> p \o <<l>>, c |-> "lit", r |-> "write_lit", w |-> LitWrap(p, x)] : p \in LitPrefixes, l \in LitLeaves, x \in LitScalars}
            \cup {[t |-> <<a, l>>, c |-> "lit", r |-> "write_lit", w |-> ListOf(n)] : a \in {"arr1", "arr2"}, l \in {"int", "uint8", "MyInt"}, n \in 0..3}


\* The pre-declared named struct Rec{A string; B int64} with value- and pointer-receiver methods over named types:
\*   [r.Scale(d, 3), r.Tag("x"), r.Both(1.5, true), r.SetB(41) then r.B]   with r = Rec{"tag", 7}, d = Duration typ
\* handed to the script as a pointer (rec_methods: SetB is visible in Go) or as a struct value (rec_methods_val:
\* the script works on its own copy, Go keeps B = 7).
RecCases == {[t |-> <<"Rec">>, c |-> "typ", r |-> r, w |-> NoLit] : r \in {"rec_methods", "rec_methods_val"}}
RecScript == Node("list", "", <<>>, <<Leaf("int", "12727272726"), Leaf("str", "tagx"), Leaf("float", "3"), Leaf("int", "41")>>)
RecBack(r) == Node("struct", "", <<"A", "B">>, <<Leaf("str", "tag"), Leaf("int", IF r = "rec_methods" THEN "41" ELSE "7")>>)

FixedCases == UnsupportedCases \cup LitCases \cup RecCases
AllCases(depth, mdepth) == CasesOf(Types(depth), mdepth) \cup FixedCases
ShardCases(depth, mdepth, k, n) == CasesOf(ShardTypes(depth, k, n), mdepth) \cup (IF k = 0 THEN FixedCases ELSE {})

-----------------------------------------------------------------------------
(* LAWS (leg M): checked by TLC for every (t, c) of the algebra *)

\* L1  either the value round-trips with equal contents, or the pair is in Rejected; and Rejected is exactly
\*     "has no script representation" (no representable value may be refused by the specification itself).
RoundTripOrRejected(t, c) ==
   IF Rejected(t, c) THEN HasUnsupported(t) \/ ~ScriptOK(Script(t, c))
   ELSE /\ ScriptOK(Script(t, c))
        /\ Representable(t, Script(t, c))
        /\ Canon(ToGo(Expand(t), Script(t, c)).v) = Canon(GoVal(t, c))

\* L2  a field written from a script reads back as the value written, from the script and from Go.
\*     A struct is a record of Go trees; a write stores ToGo, a read returns ToScript.
WriteField(ch, h, w) == LET g == ToGo(ch, w) IN IF g.ok THEN [ok |-> TRUE, h |-> [h EXCEPT !.F = g.v]] ELSE [ok |-> FALSE, h |-> h]
FieldWriteReadsBack(t, c) ==
   Rejected(t, c) \/
   LET ch == Expand(t)
       w == Script(t, c)
       h0 == [F |-> GoVal(t, Other(c))]
       res == WriteField(ch, h0, w)
   IN /\ res.ok
      /\ Canon(res.h.F) = Canon(GoVal(t, c))              \* read from Go
      /\ ToScript(ch, Canon(res.h.F)) = w                 \* read from the script

\* L3  a Go method receives exactly the arguments the script passed when representable in the parameter types.
CallMethod(params, args) == [i \in 1..Len(params) |-> ToGo(params[i], args[i])]
MethodReceivesArgs(t, c) ==
   Rejected(t, c) \/
   LET ch == Expand(t)
       args == <<Script(t, c), Leaf("int", "7"), Script(t, Other(c))>>
       got == CallMethod(<<ch, <<"int">>, ch>>, args)
   IN /\ AllOk(got)
      /\ Canon(got[1].v) = Canon(GoVal(t, c))
      /\ got[2].v = Leaf("int", "7")
      /\ Canon(got[3].v) = Canon(GoVal(t, Other(c)))

\* L5  a literal accepted by a slot reads back as the literal written (script side, up to the byte/int tag of uint8
\*     and the list flavour byte_slice / float_slice): accepted writes never alter the value.
RECURSIVE AsInt(_)
AsInt(w) == Node(IF w.t = "byte" THEN "int" ELSE IF w.t \in {"byte_slice", "float_slice"} THEN "list" ELSE w.t,
                 w.s, w.k, [j \in 1..Len(w.c) |-> AsInt(w.c[j])])
\* what the script reads after an accepted write of literal w (a dynamically typed slot keeps the value's own type)
LitReadback(t, w, v) == IF t[1] = "iface" THEN w ELSE ToScript(Expand(t), v)
LiteralReadsBack(t, w) ==
   LET g == ToGo(Expand(t), w) IN g.ok => AsInt(LitReadback(t, w, g.v)) = AsInt(w)

\* L4  what is not representable in a slot is never accepted (so it can never be silently altered)
NarrowingRefused == /\ ~Representable(<<"int8">>, Leaf("int", "128"))
                    /\ ~Representable(<<"uint8">>, Leaf("int", "-1"))
                    /\ ~Representable(<<"uint32">>, Leaf("int", "4294967296"))
                    /\ ~Representable(<<"arr2", "int">>, Node("list", "", <<>>, <<Leaf("int", "7")>>))
                    /\ ~Representable(<<"float32">>, Leaf("float", "1.7976931348623157e+308"))
                    /\ Representable(<<"int8">>, Leaf("byte", "127"))
                    /\ Representable(<<"slice", "ptr", "int16">>, Node("list", "", <<>>, <<NilNode, Leaf("int", "-32768")>>))

=============================================================================
