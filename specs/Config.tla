------------------------------- MODULE Config -------------------------------
(* C11, leg M: the configuration machine over the REAL default object graph.          *)
(*                                                                                    *)
(* State: env (Name -> object), heap (the objects' attribute tables: module members,  *)
(* __module__, __name__), denyLeft / ovLeft (edits not yet applied).  One behaviour   *)
(* builds one configuration: ApplyDefaults, then every Deny(n) in ANY order, then     *)
(* every Override(n, x) in ANY order that applies a name after its prefixes (the code *)
(* keeps both edit lists in Go maps), then a second, default configuration is built.  *)
(* Checked when the edits are done, for every single-name configuration (enumerated   *)
(* here from the registrable names of G0) and the sampled subsets of VERIF_EXTRA:     *)
(*   OrderFree     the result equals the declarative Expected(G0, deny, ov)           *)
(*   NothingLeaks  no object of a removed registration is reachable (identifier,      *)
(*                 import, attribute, getattr, __module__) unless it still has a name *)
(*   Replaced      the overridden name and every path ending in it yield the          *)
(*                 replacement                                                        *)
(*   Independent   the second configuration's graph equals G0 - holds in the model     *)
(*                 because every Config gets fresh objects (SharedDefaults = FALSE);   *)
(*                 with TRUE the in-place edits show through and TLC reports it.  On  *)
(*                 the code this is an obligation, checked by leg G on real graphs.   *)
(* Every initial state prints a CASE line: the configuration and the spec's access    *)
(* path set for it; the Go driver replays them on the real risor.Config (leg G).      *)
(* The invariants stay TRUE and print SPECFAIL lines so that all failures are listed. *)
EXTENDS ConfigGraph

Extra == ndJsonDeserialize(IOEnv.VERIF_EXTRA)      \* sampled configurations (seeded, from checks/c11.py)
AllOv == IOEnv.VERIF_ALL_OV = "1"
DenySingles == [k \in DOMAIN RegNames |-> [nodefaults |-> FALSE, deny |-> <<RegNames[k]>>, ov |-> <<>>]]
OvSinglesOf(kind) == [k \in DOMAIN RegNames |->
                        [nodefaults |-> FALSE, deny |-> <<>>, ov |-> <<[name |-> RegNames[k], kind |-> kind]>>]]
OvSingles == IF AllOv THEN OvSinglesOf("fn") \o OvSinglesOf("mod") ELSE <<>>
ExtraCfgs == [k \in DOMAIN Extra |-> [nodefaults |-> Extra[k].nodefaults, deny |-> Extra[k].deny, ov |-> Extra[k].ov]]
Configs == DenySingles \o OvSingles \o ExtraCfgs

\* ---- the spec's path set: every attribute path of at most MaxLen names in the base graph
MaxLen == 4
RECURSIVE PathsUpTo(_)
PathsUpTo(k) ==       \* records [p, i]: path and node reached in U0
  IF k = 1 THEN {[p |-> <<n>>, i |-> U0.env[n]] : n \in DOMAIN U0.env}
  ELSE LET prev == PathsUpTo(k - 1)
       IN prev \cup UNION {{[p |-> Append(x.p, a), i |-> U0.nodes[x.i].a[a]] : a \in DOMAIN U0.nodes[x.i].a}
                           : x \in {y \in prev : Len(y.p) = k - 1}}
P0 == PathsUpTo(MaxLen)
\* labels of objects that wrap the same Go function as a removed object (capability aliases)
ReachU0 == Reach(U0)
SameFn(c) == LET fns == {U0.nodes[i].fn : i \in RemovedObjs(c)} \ {""}
             IN {i \in ReachU0 : U0.nodes[i].fn \in fns}
\* access paths tried for configuration c: every path (<= MaxLen names) that reaches a removed
\* object or a same-function alias of it in the base graph - aliases, other members' __module__
\* back-references - and the removed names themselves extended by at most one more attribute
\* (below a removed name there is nothing but absence or the replacement's own attributes to see)
Attempts(c) ==
  LET tgt == RemovedObjs(c) \cup SameFn(c)
      names == Removed(c)
      below(y) == \E n \in names : IsPrefixEq(n, y.p) /\ Len(y.p) <= Len(n) + 1
  IN {x.p : x \in {y \in P0 : y.i \in tgt \/ below(y)}} \cup names
\* non-trivial: the removed object is reachable by at least two paths, or the name is dotted
NonTrivial(c) ==
  \E n \in Removed(c) : Len(n) >= 2 \/
     LET i == Registered(Base(c), n) IN i # 0 /\ Cardinality({y \in P0 : y.i = i}) >= 2

VARIABLES ci, phase, env, heap, denyLeft, ovLeft, env2, heap2
vars == <<ci, phase, env, heap, denyLeft, ovLeft, env2, heap2>>
C == Configs[ci]
Cur == [env |-> env, nodes |-> heap]

Init == /\ ci \in DOMAIN Configs
        /\ phase = "new"
        /\ env = [n \in {} |-> 0] /\ heap = U0.nodes        \* DefaultGlobals builds fresh objects per Config
        /\ denyLeft = DenySet(Configs[ci]) /\ ovLeft = OvSet(Configs[ci])
        /\ env2 = [n \in {} |-> 0] /\ heap2 = <<>>

ApplyDefaults == /\ phase = "new"
                 /\ env' = BaseEnv(C) /\ phase' = "deny"
                 /\ UNCHANGED <<ci, heap, denyLeft, ovLeft, env2, heap2>>
DenyStep(n) == /\ phase = "deny" /\ n \in denyLeft
               /\ LET G == Deny(Cur, n) IN env' = G.env /\ heap' = G.nodes
               /\ denyLeft' = denyLeft \ {n}
               /\ UNCHANGED <<ci, phase, ovLeft, env2, heap2>>
DenyDone == /\ phase = "deny" /\ denyLeft = {} /\ phase' = "override"
            /\ UNCHANGED <<ci, env, heap, denyLeft, ovLeft, env2, heap2>>
OverrideStep(o) == /\ phase = "override" /\ o \in ovLeft
                   /\ \A q \in ovLeft : q # o => ~IsPrefixEq(q.name, o.name)    \* prefixes first
                   /\ LET G == Override(Cur, o.name, ReplRoot(o.kind)) IN env' = G.env /\ heap' = G.nodes
                   /\ ovLeft' = ovLeft \ {o}
                   /\ UNCHANGED <<ci, phase, denyLeft, env2, heap2>>
OverrideDone == /\ phase = "override" /\ ovLeft = {} /\ phase' = "done"
                /\ UNCHANGED <<ci, env, heap, denyLeft, ovLeft, env2, heap2>>
\* a second, default configuration: its own fresh objects, nothing shared with the first
SharedDefaults == FALSE
SecondConfig == /\ phase = "done" /\ phase' = "second"
                /\ env2' = U0.env /\ heap2' = IF SharedDefaults THEN heap ELSE U0.nodes
                /\ UNCHANGED <<ci, env, heap, denyLeft, ovLeft>>
Next == \/ ApplyDefaults \/ DenyDone \/ OverrideDone \/ SecondConfig
        \/ \E n \in denyLeft : DenyStep(n)
        \/ \E o \in ovLeft : OverrideStep(o)

Final == phase = "done"
Fail(kind, x) == PrintT(<<"SPECFAIL", ci, kind, ToJson(x)>>)

WellFormedInput == phase = "new" => (WellFormed(C) \/ Fail("ill-formed configuration", C))
OrderFree == Final => (Canon(Cur) = Canon(Expected(C)) \/ Fail("order-dependent result", CanonDiff(Canon(Cur), Canon(Expected(C)))))
NothingLeaks == Final => (Leaked(C, Cur) = {} \/ Fail("removed object still reachable", Leaked(C, Cur)))
\* every path of the base graph whose last step is an overridden registration yields the replacement (or nothing)
EndsInOverride(o, x) ==
  LET B == Base(C) n == o.name IN
  IF Len(n) = 1 THEN x.p = n
  ELSE LET r == Reg(B, n) IN r[1] # 0 /\ Len(x.p) >= 2 /\ x.p[Len(x.p)] = r[2] /\ WalkRaw(B, Front(x.p)) = r[1]
Replaced == Final =>
  /\ NotReplaced(C, Cur) = {} \/ Fail("override not observed", NotReplaced(C, Cur))
  /\ \A o \in OvSet(C) : \A x \in {y \in P0 : y.i = Registered(Base(C), o.name)} :
        EndsInOverride(o, x) =>
          (LabelOf(Cur, WalkRaw(Cur, x.p)) \in {"-", U0.nodes[ReplRoot(o.kind)].l} \/ Fail("path misses the override", x.p))
Independent == phase = "second" =>
  (Canon([env |-> env2, nodes |-> heap2]) = Canon(U0) \/ Fail("second configuration differs", ci))

\* the configuration and its access paths, for the Go driver
Emit == phase = "new" =>
  PrintT(<<"CASE", ToJson([id |-> ci, nodefaults |-> C.nodefaults, deny |-> C.deny, ov |-> C.ov,
                           nontrivial |-> NonTrivial(C), paths |-> SetToSeq(Attempts(C))])>>)
=============================================================================
