--------------------------- MODULE BytecodeValues ---------------------------
(* Value-level trace validation of the stack VM (C04 leg V2, C01's anchors vm/vm.go and      *)
(* vm/frame.go).  VERIF_VSTEPS: one executed program per line {id, steps}; a step is the     *)
(* record the VerifStep hook takes BEFORE an instruction is dispatched:                       *)
(*   c activation, i ip, o opcode, a / b operands, p stack pointer, k kind of the callee     *)
(*   (Call only), t = <<slot sp, slot sp-1, slot sp-2>> each projected to [t, v, s]:          *)
(*   t kind (i int, b bool, n nil, s short string, S long string, l list, m map, e set,      *)
(*   f float, fn function, bi builtin, o other, I big int, z empty / out of range),          *)
(*   v the int / 0-1 / length, s the code points of a short string.                          *)
(* For consecutive steps prev, cur of one activation the instruction of prev must explain    *)
(* what cur sees:                                                                             *)
(*   - constants of the machine: Nil / True / False push that value;                          *)
(*   - data movement: PopTop, Copy, Swap, every push and every store leave the slots they    *)
(*     do not name untouched and move exactly the named slot;                                 *)
(*   - arithmetic and comparison of ints, concatenation and equality of short strings,       *)
(*     negation, logical not: the result the source-level meaning gives (Lang.tla BinOp);     *)
(*   - conditional jumps go where the truthiness of the popped value says;                    *)
(*   - a local or global slot read back (LoadFast / LoadGlobal) holds the immutable value     *)
(*     last stored there (StoreFast / StoreGlobal) - knowledge of locals is dropped at every  *)
(*     StoreFree, which may write a captured local through a cell;                            *)
(*   - a directly called compiled function hands its caller the value its ReturnValue saw;    *)
(*   - BuildList n builds a list of n items, BuildMap / BuildSet n a map / set of 1..n        *)
(*     entries, Length pushes the length the projection shows.                               *)
(* Unknown is never a finding: a rule speaks only when every value it needs was observed.     *)
EXTENDS Bytecode, TLC, Json, IOUtils
Progs == ndJsonDeserialize(IOEnv.VERIF_VSTEPS)
VARIABLES pi, l, last, locals, globals, ret, caller, pending, bad
vars == <<pi, l, last, locals, globals, ret, caller, pending, bad>>
Steps == Progs[pi].steps
Z == [t |-> "z", v |-> 0, s |-> <<>>]
Imm == {"i", "b", "n", "s"}                    \* kinds whose projection is the whole value
IntV(n) == [t |-> "i", v |-> n, s |-> <<>>]
BoolV(b) == [t |-> "b", v |-> IF b THEN 1 ELSE 0, s |-> <<>>]
Abs(n) == IF n < 0 THEN -n ELSE n
Small(x) == Abs(x.v) <= 30000
Fits(n) == n > -1073741824 /\ n < 1073741824
\* truthiness where the projection decides it
TruthKnown(x) == x.t \in {"i", "b", "n", "s", "S", "l", "m", "e"}
Truthy(x) == CASE x.t = "n" -> FALSE [] x.t = "b" -> x.v = 1 [] OTHER -> x.v # 0
\* Go's integer division and remainder (truncate towards zero, remainder has the sign of the dividend)
Quot(x, y) == LET q == Abs(x) \div Abs(y) IN IF (x < 0) = (y < 0) THEN q ELSE -q
Rem(x, y) == x - y * Quot(x, y)

\* result of a binary operation on observed operands: [known, v]
BinResult(opr, x, y) ==
  IF x.t = "i" /\ y.t = "i" THEN
     (CASE opr = 1 -> [known |-> TRUE, v |-> IntV(x.v + y.v)]
        [] opr = 2 -> [known |-> TRUE, v |-> IntV(x.v - y.v)]
        [] opr = 3 /\ Small(x) /\ Small(y) -> [known |-> TRUE, v |-> IntV(x.v * y.v)]
        [] opr = 4 /\ y.v # 0 -> [known |-> TRUE, v |-> IntV(Quot(x.v, y.v))]
        [] opr = 5 /\ y.v # 0 -> [known |-> TRUE, v |-> IntV(Rem(x.v, y.v))]
        [] OTHER -> [known |-> FALSE])
  ELSE IF x.t = "s" /\ y.t = "s" /\ opr = 1 /\ x.v + y.v <= 12
       THEN [known |-> TRUE, v |-> [t |-> "s", v |-> x.v + y.v, s |-> x.s \o y.s]]
  ELSE [known |-> FALSE]
CmpResult(opr, x, y) ==
  IF x.t = "i" /\ y.t = "i" THEN
     [known |-> opr \in 1..6,
      v |-> BoolV(CASE opr = 1 -> x.v < y.v [] opr = 2 -> x.v <= y.v [] opr = 3 -> x.v = y.v
                    [] opr = 4 -> x.v # y.v [] opr = 5 -> x.v > y.v [] opr = 6 -> x.v >= y.v [] OTHER -> FALSE)]
  ELSE IF x.t \in {"s", "b", "n"} /\ y.t = x.t /\ opr \in {3, 4}
       THEN [known |-> TRUE, v |-> BoolV((x = y) = (opr = 3))]
  ELSE [known |-> FALSE]
\* a computed int that leaves the projected range shows as a big int
SameOrBig(want, got) == IF want.t = "i" /\ ~Fits(want.v) THEN got.t = "I" ELSE got = want

\* findings for cur given the previous step prev of the same activation
Findings(prev, cur) ==
  LET o == prev.o  a == prev.a  tp == prev.t  tc == cur.t
      nx == prev.i + 1 + NOps(o)
      F(cond, what) == IF cond THEN {} ELSE {what}
  IN
  CASE o = Nil -> F(tc[1].t = "n" /\ tc[2] = tp[1] /\ tc[3] = tp[2], "nil-push")
    [] o = True -> F(tc[1] = BoolV(TRUE) /\ tc[2] = tp[1], "true-push")
    [] o = False -> F(tc[1] = BoolV(FALSE) /\ tc[2] = tp[1], "false-push")
    [] o = PopTop -> F(tc[1] = tp[2] /\ tc[2] = tp[3], "pop-top")
    [] o = Copy /\ a <= 2 -> F(tc[1] = tp[a + 1] /\ tc[2] = tp[1] /\ tc[3] = tp[2], "copy")
    [] o = Swap /\ a <= 2 -> F(tc[1] = tp[a + 1] /\ tc[a + 1] = tp[1] /\ (a # 2 \/ tc[2] = tp[2]), "swap")
    [] o \in {StoreFast, StoreGlobal, StoreFree} -> F(tc[1] = tp[2] /\ tc[2] = tp[3], "store-moves-other-slots")
    [] o \in {LoadConst, LoadFree, LoadAttr} ->
          IF o = LoadAttr THEN F(tc[2] = tp[2] /\ tc[3] = tp[3], "load-attr-moves-other-slots")
          ELSE F(tc[2] = tp[1] /\ tc[3] = tp[2], "push-moves-other-slots")
    [] o = LoadFast ->
          F(tc[2] = tp[1] /\ tc[3] = tp[2], "push-moves-other-slots") \cup
          (IF cur.c \in DOMAIN locals /\ a \in DOMAIN locals[cur.c] /\ locals[cur.c][a].t \in Imm
           THEN F(tc[1] = locals[cur.c][a], "local-read-differs-from-last-store") ELSE {})
    [] o = LoadGlobal ->
          F(tc[2] = tp[1] /\ tc[3] = tp[2], "push-moves-other-slots") \cup
          (IF a \in DOMAIN globals /\ globals[a].t \in Imm
           THEN F(tc[1] = globals[a], "global-read-differs-from-last-store") ELSE {})
    [] o = BinaryOp -> LET r == BinResult(a, tp[2], tp[1]) IN
          F(tc[2] = tp[3], "binary-op-moves-other-slots") \cup
          (IF r.known THEN F(SameOrBig(r.v, tc[1]), "binary-op-result") ELSE {})
    [] o = CompareOp -> LET r == CmpResult(a, tp[2], tp[1]) IN
          F(tc[2] = tp[3], "compare-op-moves-other-slots") \cup
          (IF r.known THEN F(tc[1] = r.v, "compare-op-result") ELSE {})
    [] o = UnaryNegative -> IF tp[1].t = "i" THEN F(tc[1] = IntV(-tp[1].v) /\ tc[2] = tp[2], "negation") ELSE {}
    [] o = UnaryNot -> IF TruthKnown(tp[1]) THEN F(tc[1] = BoolV(~Truthy(tp[1])) /\ tc[2] = tp[2], "logical-not") ELSE {}
    [] o \in {PopJumpForwardIfFalse, PopJumpForwardIfTrue} ->
          F(tc[1] = tp[2] /\ tc[2] = tp[3], "jump-moves-other-slots") \cup
          (IF TruthKnown(tp[1])
           THEN LET jump == (o = PopJumpForwardIfTrue) = Truthy(tp[1])
                IN F(cur.i = IF jump THEN nx + a - 2 ELSE nx, "conditional-jump-direction")
           ELSE {})
    [] o = BuildList -> F(tc[1].t = "l" /\ tc[1].v = a, "build-list")
    [] o = BuildMap -> F(tc[1].t = "m" /\ tc[1].v <= a /\ (a = 0 \/ tc[1].v >= 1), "build-map")
    [] o = BuildSet -> F(tc[1].t = "e" /\ tc[1].v <= a /\ (a = 0 \/ tc[1].v >= 1), "build-set")
    [] o = Length -> IF tp[1].t \in {"s", "S", "l", "m", "e"} THEN F(tc[1] = IntV(tp[1].v) /\ tc[2] = tp[2], "length") ELSE {}
    [] o = Call /\ prev.k = "fn" ->
          IF cur.c \in DOMAIN ret THEN F(tc[1] = ret[cur.c], "returned-value-differs-from-callee-result") ELSE {}
    [] OTHER -> {}

Init == pi = 1 /\ l = 0 /\ last = <<>> /\ locals = <<>> /\ globals = <<>> /\ ret = <<>> /\ caller = <<>>
        /\ pending = 0 /\ bad = {}
Without(f, k) == [x \in DOMAIN f \ {k} |-> f[x]]
\* consume the next recorded step
TStep ==
  /\ pi <= Len(Progs) /\ l < Len(Steps)
  /\ l' = l + 1 /\ pi' = pi
  /\ LET e == Steps[l + 1]
         fresh == e.c \notin DOMAIN last
         prev == IF fresh THEN [c |-> 0] ELSE last[e.c]
     IN /\ last' = (e.c :> e) @@ last
        /\ bad' = IF fresh THEN {} ELSE Findings(prev, e)
        \* a new activation entered right after a direct call of a compiled function: remember its caller
        /\ caller' = IF fresh /\ pending # 0 /\ e.i = 0 THEN (e.c :> pending) @@ caller ELSE caller
        /\ pending' = IF e.o = Call /\ e.k = "fn" THEN e.c ELSE 0
        /\ locals' = IF e.o = StoreFree THEN <<>>
                     ELSE IF e.o = StoreFast
                          THEN (e.c :> ((e.a :> e.t[1]) @@ (IF e.c \in DOMAIN locals THEN locals[e.c] ELSE <<>>))) @@ locals
                          ELSE locals
        /\ globals' = IF e.o = StoreGlobal THEN (e.a :> e.t[1]) @@ globals ELSE globals
        /\ ret' = IF e.o = ReturnValue /\ e.c \in DOMAIN caller THEN (caller[e.c] :> e.t[1]) @@ ret
                  ELSE IF e.o = Call THEN Without(ret, e.c)
                  ELSE ret
TReset == /\ pi <= Len(Progs) /\ l = Len(Steps)
          /\ pi' = pi + 1 /\ l' = 0 /\ last' = <<>> /\ locals' = <<>> /\ globals' = <<>> /\ ret' = <<>> /\ caller' = <<>>
          /\ pending' = 0 /\ bad' = {}
Next == TStep \/ TReset
Spec == Init /\ [][Next]_vars
\* one line per finding: program id, position of the step that was not explained, what
Explained == bad = {} \/ PrintT(<<"BADVALUE", Progs[pi].id, l, bad>>)
=============================================================================
