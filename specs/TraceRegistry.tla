---------------------------- MODULE TraceRegistry ----------------------------
(* Lockset trace validation for C09: the VerifSync hook logs, with the goroutine id and  *)
(* one atomic sequence number, every lock / unlock of goTypeMutex and every read / write *)
(* of the registries it protects, while 2..16 evaluations run concurrently.  The trace   *)
(* is replayed in sequence order; held[g] is maintained and every access must happen     *)
(* with the lock of the accessed object held by the accessing goroutine (deterministic:  *)
(* independent of whether two racing goroutines actually met in this run).               *)
EXTENDS Integers, Sequences, FiniteSets, TLC, Json, IOUtils
Traces == ndJsonDeserialize(IOEnv.VERIF_CASES)
LockOf(x) == "goTypeMutex"
VARIABLES ti, l, held, owner
Ev == Traces[ti].events
E == Ev[l + 1]
TInit == ti = 1 /\ l = 0 /\ held = <<>> /\ owner = 0
HeldBy(g) == IF g \in DOMAIN held THEN held[g] ELSE {}
Consume == ti <= Len(Traces) /\ l < Len(Ev) /\ l' = l + 1 /\ ti' = ti
TLock == Consume /\ E.ev = "lock" /\ owner = 0 /\ owner' = E.g /\ held' = (E.g :> (HeldBy(E.g) \cup {E.name})) @@ held
TUnlock == Consume /\ E.ev = "unlock" /\ owner = E.g /\ owner' = 0 /\ held' = (E.g :> (HeldBy(E.g) \ {E.name})) @@ held
\* an access is accepted only under the lock of the accessed object
TAccess == Consume /\ E.ev \in {"read", "write"} /\ LockOf(E.name) \in HeldBy(E.g) /\ UNCHANGED <<held, owner>>
TReset == ti <= Len(Traces) /\ l = Len(Ev) /\ ti' = ti + 1 /\ l' = 0 /\ held' = <<>> /\ owner' = 0
TNext == TLock \/ TUnlock \/ TAccess \/ TReset
Stuck == (ti <= Len(Traces) /\ l < Len(Ev) /\ ~ENABLED TNext) => PrintT(<<"REJECTED", Traces[ti].id, l + 1, ToJson(E)>>)
=============================================================================
