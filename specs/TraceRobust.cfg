INIT Init
NEXT Next
INVARIANT Accepted
CHECK_DEADLOCK FALSE
