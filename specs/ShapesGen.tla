----------------------------- MODULE ShapesGen -----------------------------
(* Emits one family of Shapes.tla as JSON lines: every program text is an initial state. *)
EXTENDS Shapes, Json
CONSTANT Family
Progs(u) == CASE Family = "consts" -> Consts(u) [] Family = "scale" -> Scale(u) [] Family = "errors" -> Errors(u) [] Family = "order" -> Order(u) [] Family = "names" -> Names(u)
VARIABLE src
Init == src \in Progs(0)
Next == UNCHANGED src
Emit == PrintT(<<"SRC", ToJson([src |-> src])>>)
=============================================================================
