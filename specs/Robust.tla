------------------------------- MODULE Robust -------------------------------
(* C03: an embedding API call (parse, compile, Eval, and the message formatting of the  *)
(* errors they return) is the two-step behaviour Call -> Return(value | error); there   *)
(* is no other way out: no Go panic reaches the caller, the process is not terminated.  *)
(* TraceRobust validates recorded call/return events against this lifecycle.            *)
EXTENDS Naturals, Sequences, TLC
CONSTANT Calls                 \* identifiers of API calls
VARIABLES phase, outcome
vars == <<phase, outcome>>
Kinds == {"value", "error"}
Init == phase = [c \in Calls |-> "idle"] /\ outcome = [c \in Calls |-> "none"]
Call(c) == phase[c] = "idle" /\ phase' = [phase EXCEPT ![c] = "called"] /\ UNCHANGED outcome
Return(c, k) == phase[c] = "called" /\ k \in Kinds
                /\ phase' = [phase EXCEPT ![c] = "returned"] /\ outcome' = [outcome EXCEPT ![c] = k]
Next == \E c \in Calls: Call(c) \/ \E k \in Kinds: Return(c, k)
Spec == Init /\ [][Next]_vars /\ WF_vars(Next)
TypeOK == phase \in [Calls -> {"idle", "called", "returned"}] /\ outcome \in [Calls -> Kinds \cup {"none"}]
ReturnsNormally == \A c \in Calls: phase[c] = "returned" => outcome[c] \in Kinds
EveryCallReturns == \A c \in Calls: (phase[c] = "called") ~> (phase[c] = "returned")
=============================================================================
