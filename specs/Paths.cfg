INIT PathInit
NEXT PathNext
CONSTANT MaxSegs = 4
CONSTANT Emit = TRUE
INVARIANT Confined
INVARIANT ResolveIsWalk
INVARIANT CleanIdempotent
INVARIANT ServedByLongestPrefix
INVARIANT RefuseOutsideMounts
INVARIANT SeparatorsIrrelevant
INVARIANT EmitPath
CHECK_DEADLOCK FALSE
