SPECIFICATION Spec
CONSTANTS NS = 2
 NR = 2
 Msgs = 2
 Cap = 1
INVARIANT AtMostOnce
INVARIANT OnlyAnnounced
INVARIANT PerSenderFIFO
INVARIANT NilOnlyAfterDrain
INVARIANT Quiescent
PROPERTY EventuallyAllDelivered
CHECK_DEADLOCK FALSE
PROPERTY AbsSpec
