----------------------------- MODULE GrammarGen -----------------------------
(* Emits one program family of Grammar.tla as JSON lines (leg G).  Every program is *)
(* an initial state; the always-true invariant prints it.                           *)
EXTENDS Grammar, Json
CONSTANTS Family, D
Progs(u) == CASE Family = "pairs" -> Pairs(0)
           [] Family = "triples" -> Triples(0)
           [] Family = "skeletons" -> Skeletons(D)
           [] Family = "maplits" -> MapLits(D)
           [] Family = "closures" -> Closures(D)
           [] Family = "blockclosures" -> BlockClosures(0) \cup MultiAssigns(0) \cup CallbackClosures(0)
           [] Family = "updates" -> Updates(0) \cup StrProgs(0) \cup IterMuts(0) \cup DeferProgs(0)
           [] Family = "itermuts" -> IterMuts(0) \cup StrProgs(0)
VARIABLE prog
Init == prog \in Progs(0)
Next == UNCHANGED prog
Emit == PrintT(<<"AST", ToJson(prog)>>)
=============================================================================
