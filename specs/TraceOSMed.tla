---------------------------- MODULE TraceOSMed ----------------------------
(* Trace validation for C12 (leg V): recorded executions of the real code against OSMed.  *)
(* VERIF_TRACE: one call per line {id, fn, v, ev}; ev is the event log of one member       *)
(* called in one execution context with a recording host OS:                               *)
(*   start(k = OS source)  vmclone  enter(k = context kind)...  call  os(m, f)...           *)
(*   real_effect(k)...  end(k = status)                                                     *)
(* plus one line fn = "<scan>" whose events are direct_ref(a = package, m = identifier,     *)
(* k = func|var|errvar|const|type, f = file) from the source inventory.                     *)
(* Events are consumed one per state; the context events drive the propagation machine of  *)
(* OSMed (its own actions), the os events are checked against Delegates.  Invariants stay    *)
(* TRUE and print one BAD line per disagreement.                                             *)
EXTENDS OSMed, IOUtils

Calls == ndJsonDeserialize(IOEnv.VERIF_TRACE)

VARIABLES ci,      \* current call
          l,       \* events of the current call consumed so far
          seen,    \* OS / File methods observed since the call event
          nos,     \* number of os events
          shape    \* the context events were enabled actions of OSMed
tvars == <<ci, l, seen, nos, shape>>

Ev   == Calls[ci].ev
Fn   == Calls[ci].fn
Var  == Calls[ci].v
Covered == Fn \in DOMAIN Delegates

TInit == /\ ci = 1 /\ l = 0 /\ seen = {} /\ nos = 0 /\ shape = TRUE
         /\ src = "withos" /\ stack = <<>> /\ pending = FALSE /\ observed = None

Bad == UNCHANGED pvars /\ shape' = FALSE
Ok(A) == A /\ shape' = shape

TStep ==
  /\ ci <= Len(Calls) /\ l < Len(Ev)
  /\ l' = l + 1 /\ ci' = ci
  /\ LET e == Ev[l + 1] IN
     CASE e.e = "start"   -> /\ IF CanStart /\ e.k \in Sources THEN Ok(StartWith(e.k)) ELSE Bad
                             /\ UNCHANGED <<seen, nos>>
       [] e.e = "vmclone" -> /\ IF CanVMClone THEN Ok(VMClone) ELSE Bad
                             /\ UNCHANGED <<seen, nos>>
       [] e.e = "enter"   -> /\ IF CanSpawn(e.k) THEN Ok(Spawn(e.k))
                                ELSE IF CanHostClone(e.k) THEN Ok(HostClone(e.k))
                                ELSE IF CanCloneCall(e.k) THEN Ok(CloneCall(e.k))
                                ELSE IF CanImport(e.k) THEN Ok(Import(e.k))
                                ELSE Bad
                             /\ UNCHANGED <<seen, nos>>
       [] e.e = "call"    -> /\ IF CanCall THEN Ok(Call) ELSE Bad
                             /\ UNCHANGED <<seen, nos>>
       [] e.e = "os"      -> /\ seen' = seen \cup {e.m} /\ nos' = nos + 1
                             /\ UNCHANGED pvars /\ shape' = shape
       [] OTHER           -> UNCHANGED <<pvars, seen, nos, shape>>

\* TraceReset: next recorded call
TReset == /\ ci <= Len(Calls) /\ l = Len(Ev)
          /\ ci' = ci + 1 /\ l' = 0 /\ seen' = {} /\ nos' = 0 /\ shape' = TRUE
          /\ src' = "withos" /\ stack' = <<>> /\ pending' = FALSE /\ observed' = None

TNext == TStep \/ TReset

Report(kind, e)  == PrintT(<<"BAD", ToJson([id |-> Calls[ci].id, fn |-> Fn, kind |-> kind, ev |-> e])>>)
Note(tag, extra) == PrintT(<<tag, ToJson([id |-> Calls[ci].id, fn |-> Fn, x |-> extra])>>)

\* a File event must concern the file the member is entitled to (stdout / the wrapped file)
FileOK(e) == e.f = "" \/ e.m \in Tolerated \/ e.f = Delegates[Fn].file

\* the event just consumed is acceptable
EvConforms ==
  (ci <= Len(Calls) /\ l >= 1) =>
    LET e == Ev[l] IN
    CASE e.e = "os" ->
           (~Covered) \/ (e.m \in Allowed(Fn) /\ FileOK(e)) \/ Report("not-allowed", e)
      [] e.e = "real_effect" -> Report("real-effect", e)          \* never accepted
      [] e.e = "direct_ref"  -> RefAccepted(e.a, e.m, e.k) \/ Report("direct-ref", e)
      [] e.e = "call" ->
           \* the propagation machine (with the code's constants) predicts the host's OS here
           (observed = Host) \/ Note("SPECPRED", observed)
      [] e.e = "end" ->
           /\ shape \/ Note("BADTRACE", Path)
           /\ Covered \/ Note("UNCOVERED", e.k)
           /\ (Covered /\ e.k = "ok") => (Required(Fn, Var) \subseteq seen \/ Report("required-missing", e))
           /\ (e.k # "ok" /\ nos = 0) => Note("NOTEX", e.k)
      [] OTHER -> TRUE
=============================================================================
