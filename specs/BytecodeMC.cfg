INIT Init
NEXT Next
INVARIANT UniqueHeights
INVARIANT HeightBounded
INVARIANT OperandsPresent
INVARIANT EndsWithOne
INVARIANT JumpsLand
INVARIANT KnownOpcode
CHECK_DEADLOCK FALSE
