------------------------------ MODULE TraceDiag ------------------------------
(* C20 leg G(iii): every parse / compile error of a mutated program is an event          *)
(* {src, stage, haspos, line, col, quoted, friendly}.  Using Lexer!Lines as the meaning  *)
(* of "line" and "column": the reported position exists in the source text, the quoted   *)
(* line is that line verbatim, and rendering the message returned (no panic).            *)
EXTENDS Lexer, Json, IOUtils
Events == ndJsonDeserialize(IOEnv.VERIF_CASES)
VARIABLE i
Init == i = 1
Next == i <= Len(Events) /\ i' = i + 1
\* a line may be quoted with or without a trailing carriage return (CRLF sources)
StripCR(l) == IF Len(l) > 0 /\ l[Len(l)] = CR THEN SubSeq(l, 1, Len(l) - 1) ELSE l
Check == i <= Len(Events) =>
  LET e == Events[i] ls == Lines(e.src) IN
  /\ e.stage # "panic" \/ PrintT(<<"BADDIAG", e.id, "panic while parsing, compiling or rendering the error">>)
  /\ (e.stage = "panic" \/ ~e.haspos) \/
       ((/\ e.line >= 1 /\ e.line <= Len(ls)
         /\ e.col >= 1 /\ e.col <= Len(ls[e.line]) + 1)
        \/ PrintT(<<"BADDIAG", e.id, "position outside the source text">>))
  /\ (e.stage # "parse" \/ ~e.haspos \/ e.line < 1 \/ e.line > Len(ls)) \/
       (e.quoted = ls[e.line] \/ StripCR(e.quoted) = StripCR(ls[e.line])
        \/ PrintT(<<"BADDIAG", e.id, "quoted line is not the source line">>))
  /\ (e.stage = "panic" \/ "friendly" \notin DOMAIN e \/ e.friendly) \/ PrintT(<<"BADDIAG", e.id, "empty friendly message">>)
  \* a lexical error (a character no token starts with, written by the driver at a known place) is reported THERE
  /\ ("want_line" \notin DOMAIN e \/ ~e.haspos \/ (e.line = e.want_line /\ e.col = e.want_col))
       \/ PrintT(<<"BADDIAG", e.id, "the lexical error is reported somewhere else">>)
  \* the message is rendered from the source text as it is (no "%!" marker of a misused format string)
  /\ ("garbled" \notin DOMAIN e \/ ~e.garbled) \/ PrintT(<<"BADDIAG", e.id, "message garbled by a format directive in the source">>)
  \* a construct that must be refused (an if / switch without condition) was accepted
  /\ e.stage # "accepted" \/ PrintT(<<"BADDIAG", e.id, "a program with a missing condition was accepted">>)
=============================================================================
