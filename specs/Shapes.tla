------------------------------- MODULE Shapes -------------------------------
(***************************************************************************)
(* Program families that stress the SHAPE of compiled code rather than its *)
(* control flow (legs G of C17, C05, C04): TLC enumerates them as source   *)
(* text.                                                                   *)
(*   Consts   every constant class (integers at the 8/16/31/32/53/63-bit    *)
(*            boundaries, floats, strings with escapes and multi-byte      *)
(*            runes, booleans, nil) in every position a constant can take: *)
(*            top-level operand, default parameter, constant of a nested   *)
(*            function, list element, map value, switch case, and pairs of *)
(*            constants in one pool                                        *)
(*   Scale    n sibling functions / blocks / closures, n distinct          *)
(*            constants, n locals, n globals, n parameters, n captured     *)
(*            variables, n attribute names, nesting depth n - for n around  *)
(*            the decimal (9/10/11, 99/100/101) and binary (255/256/257)   *)
(*            boundaries of identifiers and operands                       *)
(* The programs lie outside the integer range of TLC, so Lang.tla does not *)
(* evaluate them: the checks compare the original with the reloaded /      *)
(* recompiled code (C17, C05) and check the bytecode itself (C04).          *)
(***************************************************************************)
EXTENDS Integers, Sequences, FiniteSets, TLC

NL == "\n"
RECURSIVE Cat(_)
Cat(ss) == IF Len(ss) = 0 THEN "" ELSE Head(ss) \o Cat(Tail(ss))
RECURSIVE Rep(_, _, _)
\* f(lo) f(lo+1) .. f(hi) joined by sep; f is a sequence of strings indexed lo..hi
Join(ss, sep) == IF Len(ss) = 0 THEN "" ELSE
                 LET RECURSIVE J(_)
                     J(k) == IF k = Len(ss) THEN ss[k] ELSE ss[k] \o sep \o J(k + 1)
                 IN J(1)
Rep(n, f(_), sep) == Join([i \in 1..n |-> f(i - 1)], sep)
N(i) == ToString(i)

IntTexts == <<"0", "1", "-1", "127", "128", "255", "256", "65535", "65536", "2147483647", "2147483648", "4294967295",
              "4294967296", "9007199254740991", "9007199254740992", "9007199254740993", "-9007199254740993",
              "1234567890123456789", "9223372036854775806", "9223372036854775807", "-9223372036854775807", "0x7fffffffffffffff", "0xff", "017">>
FloatTexts == <<"0.0", "0.5", "1.5", "-2.25", "0.1", "0.30000000000000004", "123456789.125", "9007199254740993.0", "1000000000000000.0",
               "1000000000000000000000.0", "100.0", "0.000001", "179769313486231570000000000000000000000.0">>
StrTexts == <<"\"\"", "\"a\"", "\"a b\"", "\"\\n\\t\\\\\"", "\"\\\"q\\\"\"", "\"\\u00e9\"", "\"\\U0001F600 x\"", "'single'", "`raw\\n`", "\"{}\"", "'{1 + 1}'", "\"0\"", "\"nil\"", "\"true\"",
              \* characters that text encodings treat specially: ESC, NUL, BEL / VT, DEL, a tag character of plane 14, C1 controls
              "\"\\x1b[1mbold\\x1b[0m\"", "\"a\\x00b\"", "\"\\a\\v\"", "\"\\x7f\"", "\"\\U000E0067\"", "\"\\u0085\\u2028\"",
              \* octal escapes: single BYTES, the string is not valid UTF-8 (the serialised form must still carry it)
              "\"\\377\"", "\"a\\200b\\101\"">>
OtherTexts == <<"true", "false", "nil">>
ConstTexts == IntTexts \o FloatTexts \o StrTexts \o OtherTexts
Numeric(k) == k <= Len(IntTexts) + Len(FloatTexts)

ConstContexts(c) == <<
   Cat(<<"x := ", c, NL, "print(x, type(x))", NL, "x">>),
   Cat(<<"func f(a=", c, ") {", NL, "return a", NL, "}", NL, "print(f(), type(f()))", NL, "f()">>),
   Cat(<<"func f(a, b=", c, ", c=", c, ") {", NL, "return [a, b, c]", NL, "}", NL, "print(f(1), f(1, 2))", NL, "f(0)">>),
   Cat(<<"func f() {", NL, "return func() {", NL, "return func() {", NL, "return ", c, NL, "}", NL, "}", NL, "}", NL, "print(f()()())", NL, "f()()()">>),
   Cat(<<"l := [", c, ", ", c, "]", NL, "print(l, l[0] == l[1])", NL, "l">>),
   Cat(<<"m := {\"k\": ", c, "}", NL, "print(m[\"k\"], m)", NL, "m[\"k\"]">>),
   Cat(<<"switch ", c, " {", NL, "case 1:", NL, "print(\"one\")", NL, "case ", c, ":", NL, "print(\"hit\")", NL, "default:", NL, "print(\"miss\")", NL, "}">>),
   Cat(<<"f := func(x=", c, ") {", NL, "return func(y=", c, ") {", NL, "return [x, y]", NL, "}", NL, "}", NL, "print(f()())", NL, "f()()">>)
 >>
NumericContexts(c) == <<
   Cat(<<"x := ", c, NL, "print(x % 10, x - 1, x + 1, x * 1, -x)", NL, "x == ", c>>),
   Cat(<<"x := ", c, NL, "print(x < ", c, ", x <= ", c, ", x == x + 0)", NL, "string(x)">>),
   Cat(<<"func f(a=", c, ") {", NL, "return a % 7", NL, "}", NL, "print(f())", NL, "f()">>)
 >>
PairProgram(c, d) == Cat(<<"print([", c, ", ", d, "], ", c, " == ", d, ")", NL, "[", d, ", ", c, "]">>)

Consts(u) == UNION {{ConstContexts(ConstTexts[k])[j] : j \in 1..8} : k \in 1..Len(ConstTexts)}
             \cup UNION {{NumericContexts(ConstTexts[k])[j] : j \in 1..3} : k \in {k \in 1..Len(ConstTexts) : Numeric(k)}}
             \cup {PairProgram(ConstTexts[k], ConstTexts[j]) : k \in 1..Len(ConstTexts), j \in 1..Len(ConstTexts)}

\* ---------------------------------------------------------------- errors
\* programs with several faults at once, or whose error text renders a container: which fault is reported, and the
\* text of the report, must not depend on hash-map iteration order (C05: "same result, error, printed output")
Errors(u) == {
   Cat(<<"func f(a=x1, b=y1, c=z1) {", NL, "return a", NL, "}", NL, "f()">>),
   Cat(<<"func f(a=[1], b={}, c=len) {", NL, "return a", NL, "}", NL, "f()">>),
   "print(u1, u2, u3)",
   "m := {\"a\": u1, \"b\": u2, \"c\": u3}",
   "s := {u1, u2, u3}",
   "l := [u1, u2, u3]",
   Cat(<<"x := 1", NL, "y := 2", NL, "func g() {", NL, "y := u1", NL, "x := u2", NL, "}">>),
   Cat(<<"m := {\"b\": 1, \"a\": 2, \"c\": 3, \"d\": 4}", NL, "m.nope">>),
   Cat(<<"m := {\"b\": 1, \"a\": 2, \"c\": 3, \"d\": 4}", NL, "m + 1">>),
   Cat(<<"m := {\"b\": 1, \"a\": 2, \"c\": 3, \"d\": 4}", NL, "error(string(m))">>),
   Cat(<<"s := {4, 3, 2, 1, 10, 20}", NL, "s + 1">>),
   Cat(<<"s := {4, 3, 2, 1, 10, 20}", NL, "error(string(s))">>),
   Cat(<<"s := {\"d\", \"b\", \"a\", \"c\"}", NL, "s.nope()">>),
   Cat(<<"m := {\"b\": 1, \"a\": 2, \"c\": 3}", NL, "for k, v := range m {", NL, "error(k)", NL, "}">>),
   Cat(<<"s := {3, 1, 2}", NL, "for x := range s {", NL, "error(string(x))", NL, "}">>),
   Cat(<<"m := {\"b\": [], \"a\": nil, \"c\": 3}", NL, "for k, v := range m {", NL, "v.append(1)", NL, "}">>),
   "import math\nmath.nope",
   "import strings\nstrings.nope(1)",
   "from math import nope1, nope2, nope3",
   Cat(<<"func f(a, b, c) {", NL, "return a", NL, "}", NL, "f(u1, u2)">>),
   Cat(<<"func f(a, b, c) {", NL, "return a", NL, "}", NL, "f(1)">>),
   "keys({\"b\": 1, \"a\": 2}).nope",
   "[{\"b\": 1, \"a\": 2, \"c\": 3}][0][5]",
   "sorted({\"b\": 1, \"a\": 2, \"c\": 3}, 1, 2)",
   "try(func() { error({\"b\": 1, \"a\": 2, \"c\": 3}) })",
   "1 + {\"b\": 1, \"a\": 2, \"c\": 3}",
   "{\"b\": 1, \"a\": 2, \"c\": 3}[{\"y\": 1, \"x\": 2}]",
   \* near misses: a failed lookup next to SEVERAL entries that resemble the missing name (case, blanks, one letter) -
   \* whatever the report says about them must be the same in every evaluation
   Cat(<<"m := {\"content-type\": 1, \"Content-Type\": 2, \"CONTENT-type\": 3, \" content-type \": 4, \"content-typ\": 5}", NL, "m[\"CONTENT-TYPE\"]">>),
   Cat(<<"m := {\"content-type\": 1, \"Content-Type\": 2, \"CONTENT-type\": 3, \" content-type \": 4, \"content-typ\": 5}", NL, "try(func() { m[\"content-Type\"] }, func(e) { string(e) })">>),
   Cat(<<"m := {\"alpha\": 1, \"Alpha\": 2, \"ALPHA\": 3, \"alphA\": 4}", NL, "m.aLpha">>),
   Cat(<<"m := {\"alpha\": 1, \"Alpha\": 2, \"ALPHA\": 3, \"alphA\": 4}", NL, "delete(m, \"aLPHA\")", NL, "m[\"aLPHA\"] += 1">>),
   "import math\nmath.Abs(1) + math.SQRT(2)",
   "import strings\nstrings.To_Upper(\"a\")",
   Cat(<<"value1 := 1", NL, "valueA := 2", NL, "Value := 3", NL, "vAlue := 4", NL, "print(value)">>),
   Cat(<<"l := [1]", NL, "l.appnd(2)">>),
   Cat(<<"s := \"x\"", NL, "s.To_upper()">>),
   "from math import Abs, aBs, abS",
   \* values whose Go representation holds pointers, as the operand an error message talks about
   Cat(<<"c := chan(1)", NL, "c[0]">>), Cat(<<"c := chan(1)", NL, "1 in c">>), Cat(<<"c := chan(1)", NL, "a, b := c">>),
   Cat(<<"c := chan(1)", NL, "c[0] = 1">>), Cat(<<"c := chan(1)", NL, "c[1:2]">>), Cat(<<"c := chan(1)", NL, "c + 1">>),
   Cat(<<"f := func() {", NL, "}", NL, "f[0]">>), Cat(<<"f := func() {", NL, "}", NL, "f + 1">>), Cat(<<"f := func() {", NL, "}", NL, "a, b := f">>),
   Cat(<<"t := spawn(func() {", NL, "})", NL, "t[0]">>), Cat(<<"t := spawn(func() {", NL, "})", NL, "t + 1">>),
   "import os\nos.stdout[0]", "import os\n1 in os.stdout", "import time\ntime.now()[0]", "error(chan(1))", "error(\"%v\", chan(2))",
   "[chan(1)][0] + 1", "{\"k\": chan(1)}.k.nope"
 }

\* ---------------------------------------------------------------- order
\* sets and maps whose members lie outside Lang.tla (floats, bytes, mixed types, many members): every way of
\* showing their order must give the same text in every evaluation and every process
Members == <<"0.5, 1.5, 2.5, 3.5, 4.5, 5.5, 6.5, 7.5, 8.5, 9.5",
             "1, 2.5, \"a\", true, nil, 3, 0.25, \"b\", false, 10",
             "100, 20, 3, 44, 5, 61, 7, 8, 9, 10, 11, 12, 13",
             "\"k9\", \"k1\", \"k5\", \"k3\", \"k7\", \"k2\", \"k8\", \"k4\", \"k6\", \"k0\"",
             "byte(3), byte(1), byte(2), 1, 2, 3, 1.0, 2.0",
             "-0.5, 0.5, -1, 1, 0, -2.5, 2.5, 0.0",
             \* values that no order relation places: not-a-number (twice: it is not equal to itself) and the infinities
             "0.125, 6, 0.0 / 0, 2.5, 0.0 / 0, 1.0 / 0, -1.0 / 0, 3">>
OrderViews(m) == <<
   Cat(<<"s := {", m, "}", NL, "print(s)", NL, "s">>),
   Cat(<<"s := {", m, "}", NL, "print(list(s), string(s))", NL, "list(s)">>),
   Cat(<<"s := {", m, "}", NL, "for x := range s {", NL, "print(x)", NL, "}", NL, "keys(s)">>),
   Cat(<<"s := {", m, "}", NL, "for i, x := range s {", NL, "print(i, x)", NL, "}", NL, "sorted(list(s).map(func(x) { return string(x) }))">>),
   Cat(<<"s := set([", m, "])", NL, "t := set([", m, "])", NL, "print(s.union(t), s.intersection(t))", NL, "s == t">>),
   Cat(<<"l := [", m, "]", NL, "m := {}", NL, "for i, x := range l {", NL, "m[string(x) + \"_\" + string(i)] = x", NL, "}", NL, "print(m, keys(m))", NL, "for k, v := range m {", NL, "print(k, v)", NL, "}", NL, "m">>),
   Cat(<<"import json", NL, "s := {", m, "}", NL, "print(try(func() { return string(json.marshal(list(s))) }, func(e) { return string(e) }))", NL, "'{s}'">>)
 >>
\* map literals written over several lines with the keys aligned in one column, effectful values and duplicate
\* keys; maps pruned while they are iterated
Effect == Cat(<<"func f(x) {", NL, "print(x)", NL, "return x", NL, "}", NL>>)
MultiLine(entries) == Cat(<<Effect, "m := {", NL, Join(entries, "," \o NL), ",", NL, "}", NL, "print(m)", NL, "m">>)
EntrySets == << <<"\"a\": f(1)", "\"b\": f(2)", "\"c\": f(3)", "\"d\": f(4)", "\"e\": f(5)", "\"f\": f(6)">>,
                <<"\"a\": f(1)", "\"b\": f(2)", "\"a\": f(3)", "\"c\": f(4)", "\"b\": f(5)", "\"a\": f(6)">>,
                <<"\"k9\": f(1)", "\"k1\": f(2)", "\"k5\": f(3)", "\"k3\": f(4)", "\"k7\": f(5)", "\"k2\": f(6)", "\"k8\": f(7)", "\"k4\": f(8)">>,
                <<"  \"a\": f(1)", "  \"b\": [f(2), f(3)]", "  \"c\": {\"x\": f(4)}", "  \"d\": f(5)">> >>
Prune(del, when) == Cat(<<"m := {\"a\": 1, \"b\": 2, \"c\": 3, \"d\": 4, \"e\": 5, \"f\": 6, \"g\": 7, \"h\": 8}", NL,
                          "seen := []", NL, "for k, v := range m {", NL, "seen.append(k)", NL, "if k == \"", when, "\" {", NL,
                          "delete(m, \"", del, "\")", NL, "}", NL, "}", NL, "print(seen, m)", NL, "seen">>)
Order(u) == UNION {{OrderViews(Members[k])[j] : j \in 1..7} : k \in 1..Len(Members)}
            \cup {MultiLine(EntrySets[k]) : k \in 1..Len(EntrySets)}
            \cup {Prune(d, w) : d \in {"a", "b", "c"}, w \in {"b", "c", "d"}}

\* ---------------------------------------------------------------- names
\* the same NAME used for different things in different scopes: named functions (nested, siblings, three levels),
\* parameters, locals, a function named like a variable elsewhere - whatever links code to names must keep them apart
Names(u) == {
   \* names that the implementation uses for its own objects: the main code is called "__main__", codes have ids like
   \* "__main__.0", functions ids like "1"
   Cat(<<"func __main__(n) {", NL, "if n == 0 {", NL, "return 0", NL, "}", NL, "return __main__(n - 1) + 1", NL, "}", NL, "print(__main__(3))", NL, "__main__(2)">>),
   Cat(<<"func outer() {", NL, "func __main__() {", NL, "return 5", NL, "}", NL, "return __main__() + 1", NL, "}", NL, "print(outer())", NL, "outer()">>),
   Cat(<<"__main__ := 3", NL, "func f(__main__) {", NL, "return __main__ * 2", NL, "}", NL, "print(f(4), __main__)", NL, "f(__main__)">>),
   Cat(<<"func helper() {", NL, "return 1", NL, "}", NL, "func outer() {", NL, "func helper() {", NL, "return 10", NL, "}", NL,
         "return helper() + 1", NL, "}", NL, "print(helper(), outer())", NL, "[helper(), outer()]">>),
   Cat(<<"func a() {", NL, "func step() {", NL, "return 1", NL, "}", NL, "return step()", NL, "}", NL,
         "func b() {", NL, "func step() {", NL, "return 2", NL, "}", NL, "return step() * 10", NL, "}", NL, "print(a(), b())", NL, "[a(), b()]">>),
   Cat(<<"func f() {", NL, "func f() {", NL, "func f() {", NL, "return 3", NL, "}", NL, "return f() + 20", NL, "}", NL, "return f() + 100", NL, "}", NL,
         "print(f())", NL, "f()">>),
   Cat(<<"func run(n) {", NL, "func run(n) {", NL, "return n * 2", NL, "}", NL, "if n > 0 {", NL, "return run(n) + 1", NL, "}", NL, "return 0", NL, "}", NL,
         "print(run(3), run(0))", NL, "run(4)">>),
   Cat(<<"func mk() {", NL, "return func inner() {", NL, "return 1", NL, "}", NL, "}", NL, "func mk2() {", NL, "return func inner() {", NL, "return 2", NL, "}", NL, "}", NL,
         "print(mk()(), mk2()())", NL, "[mk()(), mk2()()]">>),
   Cat(<<"x := 5", NL, "func g(x) {", NL, "func x2(x) {", NL, "return x + 1", NL, "}", NL, "return x2(x) * 2", NL, "}", NL, "func h() {", NL, "x := 7", NL,
         "func x2() {", NL, "return x", NL, "}", NL, "return x2()", NL, "}", NL, "print(g(1), h(), x)", NL, "[g(x), h()]">>),
   Cat(<<"func cb() {", NL, "return \"top\"", NL, "}", NL, "l := [1, 2].map(func cb(v) {", NL, "return v * 2", NL, "})", NL, "print(cb(), l)", NL, "l">>),
   Cat(<<"func t() {", NL, "return 1", NL, "}", NL, "r := try(func() {", NL, "func t() {", NL, "return 2", NL, "}", NL, "return t()", NL, "})", NL, "print(t(), r)", NL, "[t(), r]">>),
   Cat(<<"func a(v=1) {", NL, "return v", NL, "}", NL, "func b() {", NL, "func a(v=\"x\") {", NL, "return v", NL, "}", NL, "return a()", NL, "}", NL, "print(a(), b())", NL, "[a(), b()]">>),
   Cat(<<"func a() {", NL, "func a() {", NL, "return 1", NL, "}", NL, "return a", NL, "}", NL, "func b() {", NL, "func a() {", NL, "return 2", NL, "}", NL, "return a", NL, "}", NL,
         "print(a()(), b()())", NL, "[a()(), b()()]">>)
 }

\* ---------------------------------------------------------------- scale
Sizes == {1, 2, 3, 9, 10, 11, 12, 16, 17, 33, 64, 99, 100, 101, 128, 129, 255, 256, 257, 300}
DepthSizes == {1, 2, 3, 5, 8, 10, 11, 12, 16}

Fn(i) == Cat(<<"func f", N(i), "() {", NL, "return ", N(i), NL, "}">>)
SiblingFuncs(n) == Cat(<<Rep(n, Fn, NL), NL, "print(f0(), f", N(n - 1), "())", NL,
                         "[", Rep(n, LAMBDA i: "f" \o N(i) \o "()", ", "), "]">>)
IfBlock(i) == Cat(<<"if true {", NL, "b", N(i), " := ", N(i), NL, "}">>)
BlocksThenFunc(n) == Cat(<<Rep(n, IfBlock, NL), NL, "func g(p) {", NL, "q := p + 1", NL, "return func() {", NL, "return q", NL, "}", NL, "}", NL,
                           "print(g(1)())", NL, "g(2)()">>)
Clo(i) == Cat(<<"fs.append(func() {", NL, "return base + ", N(i), NL, "})">>)
ClosuresInBody(n) == Cat(<<"func mk(base) {", NL, "fs := []", NL, Rep(n, Clo, NL), NL, "return fs", NL, "}", NL,
                           "t := 0", NL, "for _, f := range mk(1000) {", NL, "t += f()", NL, "}", NL, "print(t)", NL, "mk(1)[", N(n - 1), "]()">>)
ManyConsts(n) == Cat(<<"l := [", Rep(n, LAMBDA i: N(1000 + i), ", "), "]", NL, "print(len(l), l[0], l[", N(n - 1), "])", NL,
                       "s := [", Rep(n, LAMBDA i: "\"s" \o N(i) \o "\"", ", "), "]", NL, "print(s[", N(n - 1), "])", NL, "l[", N(n - 1), "]">>)
ManyLocals(n) == Cat(<<"func f() {", NL, Rep(n, LAMBDA i: "v" \o N(i) \o " := " \o N(i), NL), NL,
                       "return v0 + v", N(n - 1), NL, "}", NL, "print(f())", NL, "f()">>)
ManyGlobals(n) == Cat(<<Rep(n, LAMBDA i: "g" \o N(i) \o " := " \o N(i), NL), NL, "func h() {", NL, "return g0 + g", N(n - 1), NL, "}", NL,
                        "print(h())", NL, "g", N(n - 1)>>)
ManyParams(n) == Cat(<<"func f(", Rep(n, LAMBDA i: "p" \o N(i) \o "=" \o N(i), ", "), ") {", NL, "return p0 + p", N(n - 1), NL, "}", NL,
                       "print(f(), f(5))", NL, "f()">>)
ManyFree(n) == Cat(<<"func outer() {", NL, Rep(n, LAMBDA i: "c" \o N(i) \o " := " \o N(i), NL), NL, "return func() {", NL,
                     "return ", Rep(n, LAMBDA i: "c" \o N(i), " + "), NL, "}", NL, "}", NL, "print(outer()())", NL, "outer()()">>)
ManyNames(n) == Cat(<<"m := {", Rep(n, LAMBDA i: "\"k" \o N(i) \o "\": " \o N(i), ", "), "}", NL,
                      "print(", Rep(n, LAMBDA i: "m.k" \o N(i), " + "), ")", NL, "m.k", N(n - 1)>>)
ManyCases(n) == Cat(<<"func pick(x) {", NL, "switch x {", NL, Rep(n, LAMBDA i: Cat(<<"case ", N(i), ":", NL, "return ", N(i * 2)>>), NL), NL,
                      "default:", NL, "return -1", NL, "}", NL, "}", NL, "print(pick(0), pick(", N(n - 1), "), pick(", N(n), "))", NL, "pick(", N(n - 1), ")">>)
LongJump(n) == Cat(<<"x := 0", NL, "for i := 0; i < 3; i++ {", NL, "if i == 1 {", NL, "continue", NL, "}", NL,
                     Rep(n, LAMBDA i: "x += " \o N(i), NL), NL, "}", NL, "print(x)", NL, "x">>)
RECURSIVE NestFn(_, _)
NestFn(i, d) == IF i = d THEN Cat(<<"return ", Rep(d, LAMBDA j: "a" \o N(j), " + ")>>)
                ELSE Cat(<<"a", N(i), " := ", N(i + 1), NL, "return func() {", NL, NestFn(i + 1, d), NL, "}">>)
Nested(d) == Cat(<<"func top() {", NL, NestFn(0, d), NL, "}", NL, "r := top()", NL, Rep(d, LAMBDA i: "r = r()", NL), NL, "print(r)", NL, "r">>)
RECURSIVE NestBlock(_, _)
NestBlock(i, d) == IF i = d THEN Cat(<<"print(", Rep(d, LAMBDA j: "w" \o N(j), " + "), ")">>)
                   ELSE Cat(<<"w", N(i), " := ", N(i), NL, "if w", N(i), " >= 0 {", NL, NestBlock(i + 1, d), NL, "}">>)
NestedBlocks(d) == Cat(<<"func nb() {", NL, NestBlock(0, d), NL, "}", NL, "nb()">>)

Scale(u) == UNION {{SiblingFuncs(n), BlocksThenFunc(n), ClosuresInBody(n), ManyConsts(n), ManyLocals(n), ManyGlobals(n),
                    ManyFree(n), ManyNames(n), ManyCases(n), LongJump(n)} : n \in Sizes}
            \cup {ManyParams(n) : n \in {k \in Sizes : k <= 130}}
            \cup {Nested(d) : d \in DepthSizes} \cup {NestedBlocks(d) : d \in DepthSizes}
=============================================================================
