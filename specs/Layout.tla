------------------------------- MODULE Layout -------------------------------
(* C20 leg G(ii): which layout insertion is permitted in which token gap.  The renderer  *)
(* classifies every gap of a rendered program; TLC enumerates the permitted pairs, the   *)
(* driver applies each of them at every gap of every program and the real parser and    *)
(* compiler must produce the same syntax tree and bytecode as for the original text.     *)
EXTENDS TLC, Json
\* "any": between any two tokens; "nl": the grammar accepts a line break here (after a comma in a list, map, set or
\* argument list, after a binary operator, after a pipe); "stmt": a statement boundary (already a line end)
GapClasses == {"any", "nl", "stmt"}
\* insertion kinds of the property: blanks, block comments (also two adjacent, also spanning lines), line break,
\* line comment (both spellings) at a line end, blank line between statements
\* blockstars / blockdoc / blockslash: block comments whose text is made of the delimiter characters themselves
\* ("/**/", "/** d **/", "/*/ x /*/", "/*/ note */"): the comment ends at the first "*/" AFTER its opener (Lexer!CommentEnd)
Kinds == {"space", "tab", "block", "block2", "blockml", "blockstars", "blockdoc", "blockslash", "blockslash2", "newline", "linecomment", "hashcomment", "blankline",
          "crlf", "crlfcomment"}   \* the line-break kinds once more with a carriage return before the line feed
Permitted(cls, kind) ==
  CASE kind \in {"space", "tab", "block", "block2", "blockml", "blockstars", "blockdoc", "blockslash", "blockslash2"} -> TRUE
    [] kind \in {"newline", "crlf"} -> cls \in {"nl", "stmt"}
    [] kind \in {"linecomment", "hashcomment", "blankline", "crlfcomment"} -> cls = "stmt"
Table == [cls \in GapClasses |-> {k \in Kinds : Permitted(cls, k)}]
VARIABLE cls
Init == cls \in GapClasses
Next == UNCHANGED cls
Emit == PrintT(<<"PERMITTED", cls, ToJson(Table[cls])>>)
=============================================================================
