------------------------------ MODULE Registry ------------------------------
(***************************************************************************)
(* Package-level shared state of the object package and the lock that      *)
(* protects it (property C09).  Evaluations on separate VMs meet only      *)
(* here: typeConverters, goTypeRegistry and each GoType's cached           *)
(* converter, all protected by goTypeMutex.  Each process performs the     *)
(* first-use paths the code has, one action per lock / unlock / access:    *)
(*   NewTypeConverter, NewGoType, SetTypeConverter  (entry points: lock)   *)
(*   GetConverter -> getConverter -> getTypeConverter -> new{Slice,Map,    *)
(*   Pointer,Array}Converter -> createTypeConverter                        *)
(* An access is a begin/end pair so that overlap is representable.         *)
(* Faithful = TRUE is the pinned code: GetConverter runs its path without  *)
(* taking the lock; Faithful = FALSE is the repaired code.                 *)
(***************************************************************************)
EXTENDS Integers, Sequences, FiniteSets, TLC
CONSTANTS Procs, Faithful
Shared == {"typeConverters", "goTypeRegistry", "GoType.converter"}
LockOf(x) == "goTypeMutex"
\* the operations a process can run: entry point and the accesses it performs, in order
Ops == [NewTypeConverter |-> <<[v |-> "typeConverters", w |-> FALSE], [v |-> "typeConverters", w |-> TRUE]>>,
        NewGoType |-> <<[v |-> "goTypeRegistry", w |-> FALSE], [v |-> "typeConverters", w |-> FALSE],
                        [v |-> "GoType.converter", w |-> TRUE], [v |-> "goTypeRegistry", w |-> TRUE]>>,
        GetConverter |-> <<[v |-> "GoType.converter", w |-> FALSE], [v |-> "typeConverters", w |-> FALSE],
                           [v |-> "typeConverters", w |-> TRUE], [v |-> "GoType.converter", w |-> TRUE]>>]
OpNames == DOMAIN Ops
Locks(op) == IF op = "GetConverter" /\ Faithful THEN FALSE ELSE TRUE
VARIABLES pc,      \* pc[p] \in {"idle", "locking", "run", "in", "unlocking", "done"}
          op,      \* op[p]: the operation p runs
          idx,     \* idx[p]: position in Ops[op[p]]
          holder   \* the process holding goTypeMutex, or 0
vars == <<pc, op, idx, holder>>
Init == /\ pc = [p \in Procs |-> "idle"] /\ op \in [Procs -> OpNames] /\ idx = [p \in Procs |-> 1] /\ holder = 0
Begin(p) == /\ pc[p] = "idle"
            /\ pc' = [pc EXCEPT ![p] = IF Locks(op[p]) THEN "locking" ELSE "run"]
            /\ UNCHANGED <<op, idx, holder>>
Lock(p) == /\ pc[p] = "locking" /\ holder = 0 /\ holder' = p /\ pc' = [pc EXCEPT ![p] = "run"] /\ UNCHANGED <<op, idx>>
AccessBegin(p) == /\ pc[p] = "run" /\ idx[p] <= Len(Ops[op[p]]) /\ pc' = [pc EXCEPT ![p] = "in"] /\ UNCHANGED <<op, idx, holder>>
AccessEnd(p) == /\ pc[p] = "in" /\ pc' = [pc EXCEPT ![p] = "run"] /\ idx' = [idx EXCEPT ![p] = @ + 1] /\ UNCHANGED <<op, holder>>
Finish(p) == /\ pc[p] = "run" /\ idx[p] > Len(Ops[op[p]])
             /\ pc' = [pc EXCEPT ![p] = "done"] /\ holder' = (IF holder = p THEN 0 ELSE holder) /\ UNCHANGED <<op, idx>>
Next == \E p \in Procs: Begin(p) \/ Lock(p) \/ AccessBegin(p) \/ AccessEnd(p) \/ Finish(p)
Spec == Init /\ [][Next]_vars /\ WF_vars(Next)
Cur(p) == Ops[op[p]][idx[p]]
\* no two processes are inside accesses to the same object with at least one write
NoRace == \A p, q \in Procs: (p # q /\ pc[p] = "in" /\ pc[q] = "in" /\ Cur(p).v = Cur(q).v) => (~Cur(p).w /\ ~Cur(q).w)
\* every access happens with the object's lock held
LockDiscipline == \A p \in Procs: pc[p] = "in" => holder = p
AllFinish == <>(\A p \in Procs: pc[p] = "done")
=============================================================================
