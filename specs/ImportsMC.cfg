INIT Init
NEXT Next
CONSTANTS
 LM = 2
 LB = 1
 MB = 0
 STYLE = "full"
 WITHC = FALSE
 EMIT = TRUE
INVARIANT InvRunOnce
INVARIANT InvNoReentry
INVARIANT InvSameState
INVARIANT InvConfined
INVARIANT InvNoOutsideRun
INVARIANT Emit
PROPERTY OwnCells
PROPERTY MainX
CHECK_DEADLOCK FALSE
