INIT Init
NEXT Next
INVARIANT Explained
CHECK_DEADLOCK FALSE
