INIT Init
NEXT Next
CONSTANT MaxSegs = 6
CONSTANT Emit = FALSE
INVARIANT RPCheck
INVARIANT VOSCheck
INVARIANT MTCheck
INVARIANT VOS2Check
INVARIANT FSCheck
INVARIANT Confined
INVARIANT ResolveIsWalk
INVARIANT CleanIdempotent
INVARIANT ServedByLongestPrefix
INVARIANT RefuseOutsideMounts
INVARIANT SeparatorsIrrelevant
CHECK_DEADLOCK FALSE
