------------------------------ MODULE Bytecode ------------------------------
(***************************************************************************)
(* Operand-stack discipline of risor bytecode (property C04).              *)
(*                                                                         *)
(* The opcode table: operand counts and the stack effect of every opcode   *)
(* as a function of its operands, and the successor relation of an         *)
(* abstract token (ip, h) = (instruction pointer, stack height relative to *)
(* the activation's base) that follows BOTH edges of every conditional     *)
(* jump and of ForIter.  BytecodeMC explores real compiler output with it; *)
(* BytecodeTrace validates the table against recorded VM steps.            *)
(***************************************************************************)
EXTENDS Integers, Sequences, FiniteSets

\* opcodes (op/op.go)
Nop == 1  Halt == 2  Call == 3  ReturnValue == 4  Defer == 5  Go == 6
JumpBackward == 10  JumpForward == 11  PopJumpForwardIfFalse == 12  PopJumpForwardIfTrue == 13
LoadAttr == 20  LoadFast == 21  LoadFree == 22  LoadGlobal == 23  LoadConst == 24
StoreAttr == 30  StoreFast == 31  StoreFree == 32  StoreGlobal == 33
BinaryOp == 40  CompareOp == 41  UnaryNegative == 42  UnaryNot == 43
BuildList == 50  BuildMap == 51  BuildSet == 52  BuildString == 53
BinarySubscr == 60  StoreSubscr == 61  ContainsOp == 62  Length == 63  Slice == 64  Unpack == 65
Swap == 70  Copy == 71  PopTop == 72
Nil == 80  False == 81  True == 82
ForIter == 90  GetIter == 91  Range == 92
FromImport == 100  Import == 101
Receive == 110  Send == 111
LoadClosure == 120  MakeCell == 121
Partial == 130

Known == {1,2,3,4,5,6,10,11,12,13,20,21,22,23,24,30,31,32,33,40,41,42,43,50,51,52,53,
          60,61,62,63,64,65,70,71,72,80,81,82,90,91,92,100,101,110,111,120,121,130}
Opc2 == {ForIter, FromImport, LoadClosure, MakeCell}
Opc1 == {Call, JumpBackward, JumpForward, PopJumpForwardIfFalse, PopJumpForwardIfTrue,
         LoadAttr, LoadFast, LoadFree, LoadGlobal, LoadConst, StoreAttr, StoreFast, StoreFree, StoreGlobal,
         BinaryOp, CompareOp, BuildList, BuildMap, BuildSet, BuildString, ContainsOp, Unpack,
         Swap, Copy, Partial}
NOps(o) == IF o \in Opc2 THEN 2 ELSE IF o \in Opc1 THEN 1 ELSE 0

\* stack effect of the non-branching opcodes given operands a, b
Delta(o, a, b) ==
  CASE o = Call -> -a                  \* pops argc arguments and the callee, pushes the result
    [] o \in {Defer, Go} -> -1
    [] o \in {LoadFast, LoadFree, LoadGlobal, LoadConst} -> 1
    [] o = StoreAttr -> -2
    [] o \in {StoreFast, StoreFree, StoreGlobal} -> -1
    [] o \in {BinaryOp, CompareOp} -> -1
    [] o = BuildList -> 1 - a
    [] o = BuildMap -> 1 - 2 * a
    [] o = BuildSet -> 1 - a
    [] o = BuildString -> 1 - a
    [] o = BinarySubscr -> -1
    [] o = StoreSubscr -> -3
    [] o = ContainsOp -> -1
    [] o = Slice -> -2
    [] o = Unpack -> a - 1
    [] o = Copy -> 1
    [] o = PopTop -> -1
    [] o \in {Nil, False, True} -> 1
    [] o = FromImport -> -a            \* pops parents and names, pushes one value per name
    [] o = Send -> -2
    [] o = LoadClosure -> 1 - b
    [] o = MakeCell -> 1
    [] o = Partial -> -a
    [] OTHER -> 0   \* Nop LoadAttr Unary* Swap Length GetIter Range Import Receive
\* values that must be on the stack for the opcode to execute
Needs(o, a, b) ==
  CASE o = Call -> a + 1  [] o = Partial -> a + 1  [] o \in {Defer, Go} -> 1
    [] o = StoreAttr -> 2 [] o \in {StoreFast, StoreFree, StoreGlobal} -> 1
    [] o \in {BinaryOp, CompareOp, BinarySubscr, ContainsOp, Send} -> 2
    [] o = StoreSubscr -> 3 [] o = Slice -> 3
    [] o \in {BuildList, BuildSet, BuildString} -> a [] o = BuildMap -> 2 * a
    [] o \in {LoadAttr, UnaryNegative, UnaryNot, Length, Unpack, PopTop, GetIter, Range, Import, Receive,
              PopJumpForwardIfFalse, PopJumpForwardIfTrue, ForIter, ReturnValue} -> 1
    [] o = Swap -> a + 1 [] o = Copy -> a + 1
    [] o = FromImport -> a + b [] o = LoadClosure -> b
    [] OTHER -> 0
IterPush(k) == CASE k = 1 -> 1 [] k = 2 -> 2 [] k = 3 -> 1 [] OTHER -> 0

\* successors of token (ip, h) for opcode o with operands a, b at ip (ip 0-based as in the VM)
SuccOp(o, a, b, ip, h) ==
  LET nx == ip + 1 + NOps(o)
  IN CASE o \in {Halt, ReturnValue} -> {}
       [] o = JumpForward -> {<<ip + a, h>>}
       [] o = JumpBackward -> {<<ip - a, h>>}
       [] o \in {PopJumpForwardIfFalse, PopJumpForwardIfTrue} -> {<<nx, h-1>>, <<nx + a - 2, h-1>>}
       [] o = ForIter -> {<<ip + a, h-1>>, <<nx, h + IterPush(b)>>}
       [] OTHER -> {<<nx, h + Delta(o, a, b)>>}
\* the same for the instruction sequence ins (1-based)
Succ(ins, ip, h) ==
  LET o == ins[ip+1]  n == NOps(o)
      a == IF n >= 1 THEN ins[ip+2] ELSE 0   b == IF n >= 2 THEN ins[ip+3] ELSE 0
  IN SuccOp(o, a, b, ip, h)

\* instruction boundaries of a code object
RECURSIVE BoundsFrom(_,_)
BoundsFrom(ins, ip) == IF ip >= Len(ins) THEN {ip} ELSE {ip} \cup BoundsFrom(ins, ip + 1 + NOps(ins[ip+1]))
Boundaries(ins) == BoundsFrom(ins, 0)
=============================================================================
