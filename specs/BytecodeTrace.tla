---------------------------- MODULE BytecodeTrace ----------------------------
(* Trace validation of the opcode effect table against the real VM (C04, leg V).      *)
(* VERIF_STEPS: one executed program per line {id, steps, final_sp, k}; a step is     *)
(* <<activation, ip, opcode, a, b, sp, codelen>> recorded by the VerifStep hook       *)
(* before the instruction is dispatched.  For two consecutive steps of the same       *)
(* activation the pair (ip', sp' - sp) must be a successor Bytecode!SuccOp allows;    *)
(* a program that ran to completion must leave exactly one value (sp = 0).            *)
EXTENDS Bytecode, TLC, Json, IOUtils
Progs == ndJsonDeserialize(IOEnv.VERIF_STEPS)
VARIABLES pi, l, last, prev   \* last: activation -> its latest step; prev: the step before the one just consumed
vars == <<pi, l, last, prev>>
None == [act |-> 0]
Steps == Progs[pi].steps
Ev(k) == LET e == Steps[k] IN [act |-> e[1], ip |-> e[2], op |-> e[3], a |-> e[4], b |-> e[5], sp |-> e[6], len |-> e[7]]
Init == pi = 1 /\ l = 0 /\ last = <<>> /\ prev = None
\* consume the next recorded step of the current program
TStep == /\ pi <= Len(Progs) /\ l < Len(Steps)
         /\ l' = l + 1 /\ pi' = pi
         /\ LET e == Ev(l + 1) IN /\ last' = (e.act :> e) @@ last
                                  /\ prev' = IF e.act \in DOMAIN last THEN last[e.act] ELSE None
\* TraceReset: move to the next recorded program
TReset == /\ pi <= Len(Progs) /\ l = Len(Steps)
          /\ pi' = pi + 1 /\ l' = 0 /\ last' = <<>> /\ prev' = None
Next == TStep \/ TReset

\* one line per finding (TLC wraps long values over several lines): id, kind, position in the step list
Report(kind, e) == PrintT(<<"BADSTEP", Progs[pi].id, kind, l>>)
\* the step just consumed is explained by the table
StepConforms ==
  (pi <= Len(Progs) /\ l >= 1) =>
    LET e == Ev(l)
    IN IF prev.act = 0 THEN (e.op \in Known \/ Report("unknown-opcode", e))
       ELSE (<<e.ip, e.sp - prev.sp>> \in SuccOp(prev.op, prev.a, prev.b, prev.ip, 0)) \/ Report("bad-successor", <<prev, e>>)
\* a finished evaluation leaves exactly its result
FinalSP == (pi <= Len(Progs) /\ l = Len(Steps) /\ Progs[pi].k = "ok" /\ ~Progs[pi].truncated) =>
              /\ (Progs[pi].final_sp = 0 \/ Report("final-sp", Progs[pi].final_sp))
              \* also when the VM that ran it evaluates the code again (twice more): again_sp = -9 when not applicable
              /\ (Progs[pi].again_sp \in {0, -9} \/ Report("final-sp-on-reused-vm", Progs[pi].again_sp))
=============================================================================
