----------------------------- MODULE ValuesCheck -----------------------------
(* C15, leg G: conformance of the real code with Values.tla, one recorded case per    *)
(* TLC state.  VERIF_CASES (ndjson, written by `values eval`): {id, k, a, b, xs, api, *)
(* scr} - what the public object API ("api") and scripts ("scr") answered for         *)
(*   k = "pair": the ordered pair (a, b) of universe values                           *)
(*   k = "un":   the value a                                                          *)
(*   k = "seq":  the list xs of universe values as sort / set / list input            *)
(* The expectation is re-computed from Values.tla; every differing field prints a     *)
(* MISMATCH line.  For "seq" cases the laws of the property are also evaluated        *)
(* directly on the observed results, using the observed pair relations of VERIF_OBS   *)
(* (SEQLAW lines).  Invariants stay TRUE so that every disagreement is listed.        *)
EXTENDS Values
Cases == ndJsonDeserialize(IOEnv.VERIF_CASES)
Obs == JsonDeserialize(IOEnv.VERIF_OBS)
VARIABLE i
Init == i = 1
Next == i <= Len(Cases) /\ i' = i + 1

Srcs == {"api", "scr"}
Differ(id, s, names, exp, obs) ==
   \A f \in names: exp[f] = obs[f] \/ PrintT(<<"MISMATCH", id, s, f, exp[f], obs[f]>>)

\* ---------------------------------------------------------------- pairs
OpCode(x, y, c) == IF ~HasCompare(x) \/ ~Compare(x, y).ok THEN 2 ELSE B2I(c)
ExpPair(x, y, s) ==
  LET eq == B2I(Equals(x, y))
      r == Compare(x, y)
      both == Hashable(x) /\ Hashable(y)
      same == both /\ HashKey(x) = HashKey(y)
      isin == IF IsContainer(x) THEN B2I(Contains(x, y)) ELSE IF s = "api" THEN 3 ELSE 2
  IN [eq |-> eq, eq2 |-> eq, ceq |-> eq, ne |-> 1 - eq,
      cmp |-> IF ~HasCompare(x) THEN 8 ELSE IF r.ok THEN r.c ELSE 9,
      lt |-> OpCode(x, y, r.c < 0), le |-> OpCode(x, y, r.c <= 0),
      gt |-> OpCode(x, y, r.c > 0), ge |-> OpCode(x, y, r.c >= 0),
      in |-> isin, nin |-> IF isin \in {0, 1} THEN 1 - isin ELSE isin,
      hk |-> IF both THEN B2I(same) ELSE 3,
      set2 |-> IF both THEN (IF same THEN 1 ELSE 2) ELSE 9]
PairFields(s) == IF s = "api" THEN {"eq", "eq2", "ceq", "ne", "cmp", "lt", "le", "gt", "ge", "in", "hk", "set2"}
                 ELSE {"eq", "ne", "lt", "le", "gt", "ge", "in", "nin", "set2"}
CheckPair(c) == \A s \in Srcs: Differ(c.id, s, PairFields(s), ExpPair(U[c.a], U[c.b], s), c[s])

\* ---------------------------------------------------------------- single values
ExpUn(x) ==
  LET t == B2I(Truthy(x)) IN
  [truthy |-> t, not |-> 1 - t, cond |-> t, len |-> IF IsContainer(x) THEN Length(x) ELSE -1,
   hashable |-> B2I(Hashable(x)), comparable |-> B2I(HasCompare(x))]
UnFields(s) == IF s = "api" THEN {"truthy", "len", "hashable", "comparable"} ELSE {"truthy", "not", "cond", "len"}
CheckUn(c) == \A s \in Srcs: Differ(c.id, s, UnFields(s), ExpUn(U[c.a]), c[s])

\* ---------------------------------------------------------------- sort / set / list inputs
Mem(v, inside(_)) == [k \in 1..Len(Sub) |-> B2I(inside(U[Sub[k]]))]
SeqDiffer(id, s, f, exp, obs) == exp = obs \/ PrintT(<<"MISMATCHSEQ", id, s, f, ToJson(exp)>>)
\* project an observed container record onto the compared fields
ContObs(o) == IF o.ok = 1 THEN <<1, o.n, o.truthy, o.mem>> ELSE <<0, 0, 0, <<>> >>
SortObs(o) == IF o.ok = 1 THEN <<1, o.v>> ELSE <<0, <<>> >>
CheckSeq(c) ==
  LET xs == c.xs
      n == Len(xs)
      v == [k \in 1..n |-> U[xs[k]]]
      r == Sorted(v)
      expSorted == <<1, [k \in 1..n |-> xs[r.perm[k]]]>>
      st == SetOf(v)
      InS(x) == InSetOf(v, x)
      InL(x) == Contains(ListOf(v), x)
      expSet == IF st.ok THEN <<1, Cardinality(st.keys), B2I(st.keys # {}), Mem(v, InS)>> ELSE <<0, 0, 0, <<>> >>
      expList == <<1, n, B2I(n # 0), Mem(v, InL)>>
  IN \A s \in Srcs:
       /\ IF r.ok THEN /\ SeqDiffer(c.id, s, "sorted", expSorted, SortObs(c[s].sorted))
                       /\ SeqDiffer(c.id, s, "sorted2", expSorted, SortObs(c[s].sorted2))
          ELSE (s = "scr" \/ PrintT(<<"UNSPEC", c.id>>))     \* not mutually comparable: outside the property
       /\ SeqDiffer(c.id, s, "set", expSet, ContObs(c[s].set))
       /\ SeqDiffer(c.id, s, "list", expList, ContObs(c[s].list))

\* the laws on the observed results, by the observed relations
RECURSIVE Count(_, _)
Count(q, x) == IF Len(q) = 0 THEN 0 ELSE B2I(Head(q) = x) + Count(Tail(q), x)
Range(q) == {q[k] : k \in 1..Len(q)}
SeqLaws(c) ==
  LET xs == c.xs
      n == Len(xs)
  IN \A s \in Srcs:
     LET R == Obs[s]
         Ty(x) == U[x].t
         Lt(x, y) == R.lt[x][y] = 1
         Equiv(x, y) == R.lt[x][y] = 0 /\ R.lt[y][x] = 0
         Eq(x, y) == R.eq[x][y] = 1
         Rep(law) == PrintT(<<"SEQLAW", c.id, s, law>>)
         so == c[s].sorted
         comparable == \A k, l \in 1..n: k # l => R.lt[xs[k]][xs[l]] \in {0, 1}
         seto == c[s].set
         listo == c[s].list
         FirstOfClass(k) == \A l \in 1..(k - 1): ~(Ty(xs[l]) = Ty(xs[k]) /\ Eq(xs[l], xs[k]))
     IN /\ (comparable => so.ok = 1) \/ Rep("sorted-accepts-comparable-input")
        /\ so.ok = 1 =>
             LET ys == so.v IN
             /\ (Len(ys) = n /\ \A x \in Range(xs) \cup Range(ys): Count(xs, x) = Count(ys, x)) \/ Rep("sorted-permutation")
             /\ (\A k, l \in 1..Len(ys): (k < l /\ ys[k] # 0 /\ ys[l] # 0) => ~Lt(ys[l], ys[k])) \/ Rep("sorted-ordered")
             /\ (0 \notin Range(ys) =>
                   \A x \in Range(ys):
                      SelectSeq(ys, LAMBDA y: Equiv(x, y)) = SelectSeq(xs, LAMBDA y: Equiv(x, y))) \/ Rep("sorted-stable")
             /\ (c[s].sorted2.ok = 1 /\ c[s].sorted2.v = ys) \/ Rep("sorted-idempotent")
        /\ seto.ok = 1 =>
             /\ (seto.n = Cardinality({k \in 1..n: FirstOfClass(k)})) \/ Rep("set-one-slot-per-equal-value")
             /\ (\A k \in 1..Len(Sub): (seto.mem[k] = 1) <=> \E l \in 1..n: Ty(xs[l]) = Ty(Sub[k]) /\ Eq(xs[l], Sub[k]))
                \/ Rep("set-membership")
             /\ ((seto.truthy = 1) <=> (seto.n # 0)) \/ Rep("set-truthy")
        /\ listo.ok = 1 =>
             /\ (\A k \in 1..Len(Sub): (listo.mem[k] = 1) <=> \E l \in 1..n: Eq(xs[l], Sub[k])) \/ Rep("list-membership")
             /\ (listo.n = n /\ ((listo.truthy = 1) <=> (n # 0))) \/ Rep("list-truthy")

Check == i <= Len(Cases) =>
   LET c == Cases[i] IN
   CASE c.k = "pair" -> CheckPair(c)
     [] c.k = "un" -> CheckUn(c)
     [] c.k = "seq" -> CheckSeq(c) /\ SeqLaws(c)
=============================================================================
