INIT Init
NEXT Next
INVARIANT StepConforms
INVARIANT FinalSP
CHECK_DEADLOCK FALSE
