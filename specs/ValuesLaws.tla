----------------------------- MODULE ValuesLaws -----------------------------
(* C15 - the algebraic laws of the property, stated once over index relations on the  *)
(* universe and checked for every ordered pair (a, b) and every triple (a, b, c).     *)
(*                                                                                    *)
(* Mode = "spec": the relations are computed by Values.tla (leg M: the specification  *)
(*                satisfies the laws; with Rounded = TRUE the pre-fix int/float       *)
(*                comparison is shown to break them - negative self-test).            *)
(* Mode = "obs":  the relations are the ones OBSERVED on the real code by the driver  *)
(*                (VERIF_OBS: matrices per source, "api" = public object API, "scr" = *)
(*                scripts); a violated law is a LAW line naming the pair / triple.    *)
(* Codes: 0/1 truth values, 2 error, 3 not applicable, 6 panic; cmp -1/0/1, 8 no      *)
(* Compare method, 9 error.  Invariants stay TRUE so that every violation is listed.  *)
EXTENDS Values
CONSTANT Mode

Obs == JsonDeserialize(IOEnv.VERIF_OBS)

VARIABLES src, a, b
vars == <<src, a, b>>
Sources == IF Mode = "obs" THEN {"api", "scr"} ELSE {"spec"}
Init == src \in Sources /\ a \in 1..NVals /\ b = 0
Next == b = 0 /\ b' \in 1..NVals /\ UNCHANGED <<src, a>>

Ty(x) == U[x].t
SpecOp(x, y, pick(_)) == LET r == Compare(U[x], U[y]) IN
                         IF ~HasCompare(U[x]) \/ ~r.ok THEN 2 ELSE B2I(pick(r.c))
IsLt(c) == c < 0
IsLe(c) == c <= 0
IsGt(c) == c > 0
IsGe(c) == c >= 0
SameKey(x, y) == HashKey(U[x]) = HashKey(U[y])
BothHashable(x, y) == Hashable(U[x]) /\ Hashable(U[y])

EqV(x, y) == IF Mode = "obs" THEN Obs[src].eq[x][y] ELSE B2I(Equals(U[x], U[y]))
NeV(x, y) == IF Mode = "obs" THEN Obs[src].ne[x][y] ELSE 1 - B2I(Equals(U[x], U[y]))
LtV(x, y) == IF Mode = "obs" THEN Obs[src].lt[x][y] ELSE SpecOp(x, y, IsLt)
LeV(x, y) == IF Mode = "obs" THEN Obs[src].le[x][y] ELSE SpecOp(x, y, IsLe)
GtV(x, y) == IF Mode = "obs" THEN Obs[src].gt[x][y] ELSE SpecOp(x, y, IsGt)
GeV(x, y) == IF Mode = "obs" THEN Obs[src].ge[x][y] ELSE SpecOp(x, y, IsGe)
HkV(x, y) == IF Mode = "obs" THEN (IF src = "api" THEN Obs.api.hk[x][y] ELSE 3)
             ELSE IF BothHashable(x, y) THEN B2I(SameKey(x, y)) ELSE 3
Set2V(x, y) == IF Mode = "obs" THEN Obs[src].set2[x][y]
               ELSE IF BothHashable(x, y) THEN (IF SameKey(x, y) THEN 1 ELSE 2) ELSE 9
InV(c, x) == IF Mode = "obs" THEN Obs[src]["in"][c][x]
             ELSE IF IsContainer(U[c]) THEN B2I(Contains(U[c], U[x])) ELSE 3
TruthyV(x) == IF Mode = "obs" THEN Obs[src].truthy[x] ELSE B2I(Truthy(U[x]))
LenV(x) == IF Mode = "obs" THEN Obs[src].len[x] ELSE IF IsContainer(U[x]) THEN Length(U[x]) ELSE -1

Report(law, c) == PrintT(<<"LAW", src, law, a, b, c>>)
Bool01(v) == v \in {0, 1}
Pair == b # 0
SameType == Pair /\ Ty(a) = Ty(b)
OrdOk(x, y) == Bool01(LtV(x, y)) /\ Bool01(LeV(x, y)) /\ Bool01(GtV(x, y)) /\ Bool01(GeV(x, y))
OrdErr(x, y) == LtV(x, y) = 2 /\ LeV(x, y) = 2 /\ GtV(x, y) = 2 /\ GeV(x, y) = 2
SameOrdered == SameType /\ Ty(a) \in OrderedTypes
BothOk == SameOrdered /\ OrdOk(a, b) /\ OrdOk(b, a)

\* ---- == is reflexive and symmetric, transitive within a type; != is its exact negation
EqReflexive == (Pair /\ a = b) => (EqV(a, a) = 1 \/ Report("eq-reflexive", 0))
EqSymmetric == Pair => ((Bool01(EqV(a, b)) /\ EqV(a, b) = EqV(b, a)) \/ Report("eq-symmetric", 0))
NeNegation == Pair => ((Bool01(NeV(a, b)) /\ Bool01(EqV(a, b)) /\ NeV(a, b) = 1 - EqV(a, b)) \/ Report("ne-negation", 0))
EqTransitive == (SameType /\ EqV(a, b) = 1) =>
   \A c \in 1..NVals: (Ty(c) = Ty(a) /\ EqV(b, c) = 1) => (EqV(a, c) = 1 \/ Report("eq-transitive", c))

\* ---- within int, float, byte, string, bool, list: <, <=, >, >= form a total preorder agreeing with ==
\* scalars are always ordered; two lists are either ordered by all four operators in both
\* directions or by none (elements that are not comparable)
OrderDefined == SameOrdered =>
   ((IF Ty(a) = "list" THEN (OrdOk(a, b) \/ OrdErr(a, b)) /\ (OrdOk(a, b) <=> OrdOk(b, a)) ELSE OrdOk(a, b))
    \/ Report("order-defined", 0))
OrderTotal == BothOk => (LeV(a, b) = 1 \/ LeV(b, a) = 1 \/ Report("order-total", 0))
OrderOperators == BothOk =>
   (((LtV(a, b) = 1) <=> (LeV(a, b) = 1 /\ LeV(b, a) = 0)) /\ GtV(a, b) = LtV(b, a) /\ GeV(a, b) = LeV(b, a))
   \/ Report("order-operators", 0)
OrderAgreesEq == BothOk => (((EqV(a, b) = 1) <=> (LeV(a, b) = 1 /\ LeV(b, a) = 1)) \/ Report("order-agrees-eq", 0))
OrderTransitive == (BothOk /\ LeV(a, b) = 1) =>
   \A c \in 1..NVals: (Ty(c) = Ty(a) /\ OrdOk(b, c) /\ LeV(b, c) = 1 /\ OrdOk(a, c)) =>
        (LeV(a, c) = 1 \/ Report("order-transitive", c))

\* ---- across numeric types never both a < b and b < a
CrossNumeric == (Pair /\ Numeric(U[a]) /\ Numeric(U[b])) =>
   (~(LtV(a, b) = 1 /\ LtV(b, a) = 1) \/ Report("numeric-antisymmetric", 0))

\* ---- values of one type that are == occupy a single slot in a set (and only those)
HashAgrees == (SameType /\ Hashable(U[a])) =>
   (((HkV(a, b) = 3 \/ HkV(a, b) = EqV(a, b)) /\ Set2V(a, b) = (IF EqV(a, b) = 1 THEN 1 ELSE 2))
    \/ Report("hash-agrees-eq", 0))

\* ---- a container is truthy exactly when its length is non-zero
ContainerTruthy == (Pair /\ a = b /\ IsContainer(U[a])) =>
   ((LenV(a) >= 0 /\ Bool01(TruthyV(a)) /\ ((TruthyV(a) = 1) <=> (LenV(a) # 0))) \/ Report("container-truthy", 0))

\* ---- `b in a` agrees with iterating a and comparing (sets: members of b's own type)
Elems(c) == {U[c].elems[k] : k \in 1..Len(U[c].elems)}
Hit(c, e, x) == IF Ty(c) = "set" THEN Ty(e) = Ty(x) /\ EqV(e, x) = 1 ELSE EqV(e, x) = 1
Membership == (Pair /\ Ty(a) \in {"list", "set", "map"}) =>
   ((Bool01(InV(a, b)) /\ ((InV(a, b) = 1) <=> \E e \in Elems(a): Hit(a, e, b))) \/ Report("membership", 0))

\* ---- the forms of one question agree (observed relations only)
ApiForms == (Pair /\ Mode = "obs" /\ src = "api") =>
   LET o == Obs.api  c == o.cmp[a][b] IN
   ((/\ o.eq2[a][b] = o.eq[a][b] /\ o.ceq[a][b] = o.eq[a][b]
     /\ (c \in {-1, 0, 1} => /\ o.lt[a][b] = B2I(c = -1) /\ o.le[a][b] = B2I(c # 1)
                             /\ o.gt[a][b] = B2I(c = 1) /\ o.ge[a][b] = B2I(c # -1))
     /\ (c \notin {-1, 0, 1} => c \in {8, 9} /\ OrdErr(a, b)))
    \/ Report("api-forms", 0))
ScriptForms == (Pair /\ Mode = "obs" /\ src = "scr") =>
   LET o == Obs.scr IN
   ((/\ (Bool01(o["in"][a][b]) => o.nin[a][b] = 1 - o["in"][a][b])
     /\ (o["in"][a][b] = 2 <=> o.nin[a][b] = 2)
     /\ (a = b /\ IsContainer(U[a]) => o["not"][a] = 1 - o.truthy[a] /\ o.cond[a] = o.truthy[a]))
    \/ Report("script-forms", 0))
=============================================================================
