------------------------------ MODULE ChanAbs ------------------------------
(* The abstract view of a channel used for validating long recorded traces (C10): how many *)
(* values each sender has announced, which values have been received (by anybody), the     *)
(* latest value each receiver has from each sender, whether the channel is closed, which   *)
(* receivers got nil.  Chan.tla (queue with capacity, rendezvous) refines it; the sizes    *)
(* live in the variable cfg so that one TLC run can validate traces of many topologies.    *)
(* The state is kept incremental (no recomputation over histories): validating a trace of  *)
(* 10^4 messages is 2 x 10^4 TLC states of size O(messages).                                *)
EXTENDS Integers, Sequences, FiniteSets
VARIABLES cfg,        \* [ns, nr, msgs]
          nextSend,   \* nextSend[s]: index of the next value sender s announces (1..nextSend[s]-1 are announced)
          got,        \* set of <<s, i>> received so far
          lastFrom,   \* lastFrom[r][s]: index of the latest value receiver r has from sender s (0: none)
          closed, gotNil
avars == <<cfg, nextSend, got, lastFrom, closed, gotNil>>
ASenders == 1..cfg.ns
AReceivers == 1..cfg.nr
AInit(c) == /\ cfg = c /\ nextSend = [s \in 1..c.ns |-> 1] /\ got = {}
            /\ lastFrom = [r \in 1..c.nr |-> [s \in 1..c.ns |-> 0]]
            /\ closed = FALSE /\ gotNil = [r \in 1..c.nr |-> FALSE]
Announced(s, i) == i >= 1 /\ i < nextSend[s]
RECURSIVE SumTo(_, _)
SumTo(f, n) == IF n = 0 THEN 0 ELSE f[n] + SumTo(f, n - 1)
NAnnounced == SumTo([s \in ASenders |-> nextSend[s] - 1], cfg.ns)
\* a sender announces exactly its next value, never after close
ASend(s, i) == /\ s \in ASenders /\ ~closed /\ i = nextSend[s] /\ i <= cfg.msgs
               /\ nextSend' = [nextSend EXCEPT ![s] = @ + 1]
               /\ UNCHANGED <<cfg, got, lastFrom, closed, gotNil>>
\* a receiver announces a value that was announced by its sender, that nobody has received yet,
\* and that is later in its sender's order than anything this receiver already has from that sender
ARecv(r, s, i) == /\ r \in AReceivers /\ s \in ASenders /\ Announced(s, i) /\ <<s, i>> \notin got
                  /\ i > lastFrom[r][s] /\ ~gotNil[r]
                  /\ got' = got \cup {<<s, i>>}
                  /\ lastFrom' = [lastFrom EXCEPT ![r][s] = i]
                  /\ UNCHANGED <<cfg, nextSend, closed, gotNil>>
AClose == /\ ~closed /\ \A s \in ASenders: nextSend[s] > cfg.msgs /\ closed' = TRUE
          /\ UNCHANGED <<cfg, nextSend, got, lastFrom, gotNil>>
\* nil only from a closed channel; values taken by other receivers may still be unannounced (at most one each)
ANil(r) == /\ r \in AReceivers /\ closed /\ ~gotNil[r]
           /\ NAnnounced - Cardinality(got) <= Cardinality({q \in AReceivers : q # r /\ ~gotNil[q]})
           /\ gotNil' = [gotNil EXCEPT ![r] = TRUE]
           /\ UNCHANGED <<cfg, nextSend, got, lastFrom, closed>>
ANext == \/ \E s \in ASenders, i \in 1..cfg.msgs: ASend(s, i)
         \/ \E r \in AReceivers, s \in ASenders, i \in 1..cfg.msgs: ARecv(r, s, i)
         \/ AClose \/ \E r \in AReceivers: ANil(r)
ADone == (\A r \in AReceivers: gotNil[r]) /\ Cardinality(got) = cfg.ns * cfg.msgs
=============================================================================
