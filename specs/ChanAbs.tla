------------------------------ MODULE ChanAbs ------------------------------
(* The abstract view of a channel used for validating long recorded traces (C10): the set  *)
(* of announced values, what each receiver has announced, whether the channel is closed,   *)
(* which receivers got nil.  Chan.tla (queue with capacity, rendezvous) refines it; the    *)
(* sizes live in the variable cfg so that one TLC run can validate traces of many          *)
(* topologies.                                                                              *)
EXTENDS Integers, Sequences, FiniteSets
VARIABLES cfg,        \* [ns, nr, msgs]
          announced, nextSend, received, closed, gotNil
avars == <<cfg, announced, nextSend, received, closed, gotNil>>
ASenders == 1..cfg.ns
AReceivers == 1..cfg.nr
AInit(c) == /\ cfg = c /\ announced = {} /\ nextSend = [s \in 1..c.ns |-> 1]
            /\ received = [r \in 1..c.nr |-> <<>>] /\ closed = FALSE /\ gotNil = [r \in 1..c.nr |-> FALSE]
AAllReceived == UNION {{received[r][k] : k \in 1..Len(received[r])} : r \in AReceivers}
\* a sender announces exactly its next value, never after close
ASend(s, i) == /\ s \in ASenders /\ ~closed /\ i = nextSend[s] /\ i <= cfg.msgs
               /\ announced' = announced \cup {<<s, i>>} /\ nextSend' = [nextSend EXCEPT ![s] = @ + 1]
               /\ UNCHANGED <<cfg, received, closed, gotNil>>
LastFrom(r, s) == LET idx == {k \in 1..Len(received[r]) : received[r][k][1] = s} IN
                  IF idx = {} THEN 0 ELSE received[r][CHOOSE k \in idx : \A j \in idx : j <= k][2]
\* a receiver announces a value that was announced by its sender, that nobody has received yet,
\* and that is later in its sender's order than anything this receiver already has from that sender
ARecv(r, s, i) == /\ r \in AReceivers /\ <<s, i>> \in announced /\ <<s, i>> \notin AAllReceived
                  /\ i > LastFrom(r, s) /\ ~gotNil[r]
                  /\ received' = [received EXCEPT ![r] = Append(@, <<s, i>>)]
                  /\ UNCHANGED <<cfg, announced, nextSend, closed, gotNil>>
AClose == /\ ~closed /\ \A s \in ASenders: nextSend[s] > cfg.msgs /\ closed' = TRUE
          /\ UNCHANGED <<cfg, announced, nextSend, received, gotNil>>
\* nil only from a closed channel; values taken by other receivers may still be unannounced (at most one each)
ANil(r) == /\ r \in AReceivers /\ closed /\ ~gotNil[r]
           /\ Cardinality(announced \ AAllReceived) <= Cardinality({q \in AReceivers : q # r /\ ~gotNil[q]})
           /\ gotNil' = [gotNil EXCEPT ![r] = TRUE]
           /\ UNCHANGED <<cfg, announced, nextSend, received, closed>>
ANext == \/ \E s \in ASenders, i \in 1..cfg.msgs: ASend(s, i)
         \/ \E r \in AReceivers, s \in ASenders, i \in 1..cfg.msgs: ARecv(r, s, i)
         \/ AClose \/ \E r \in AReceivers: ANil(r)
ADone == (\A r \in AReceivers: gotNil[r]) /\ AAllReceived = {<<s, i>> : s \in ASenders, i \in 1..cfg.msgs}
=============================================================================
