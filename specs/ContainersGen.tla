---------------------------- MODULE ContainersGen ----------------------------
(***************************************************************************)
(* Behaviours of Containers.tla: every behaviour is an operation HISTORY.  *)
(*                                                                         *)
(* Mode "mc"   leg M: all histories of length <= MaxLen over the alphabet  *)
(*             Alphabet(heap, env) from each start configuration, states   *)
(*             identified modulo the history (VIEW MCView); the action     *)
(*             properties below hold on every transition.                  *)
(* Mode "enum" leg G, exhaustive part: the same histories kept apart (no   *)
(*             view); every maximal one is printed as a JSON line with the *)
(*             expected result and projection delta of every step.         *)
(* Mode "sim"  leg G, random part (tlc -simulate): type directed random    *)
(*             steps, indices drawn from [-len-2, len+2], aliasing through *)
(*             bind / slice / copy / nesting.  All randomness flows        *)
(*             through the variable rnd (a tuple of integers drawn once    *)
(*             per transition), because TLC re-evaluates RandomElement at  *)
(*             every reference.                                            *)
(* Printed (mode sim): <<"HIST", json>>, json = [{st, r, k, ch, tr}...],   *)
(* one entry per step: the step, its flattened result ([0, value..] or [1] *)
(* = raised), the error kind, the names whose projection changed with the  *)
(* new projection, tr = the history is truncated here.  Mode enum prints   *)
(* <<"PRE", json>> per start configuration and <<"SUF", key, json>> per    *)
(* maximal history (the entries after the start configuration).            *)
(* Constants: ENames = receivers of the enumerated alphabet, EIdxOff = its *)
(* indices shifted by 4, Salt = offset of the random numbers (simulation   *)
(* processes started with one seed draw identical numbers).                *)
(***************************************************************************)
EXTENDS Containers, Json

CONSTANTS Mode, MaxLen, ENames, Salt, EIdxOff     \* EIdxOff: the index alphabet of modes mc / enum, shifted by 4 (cfg files have no negative numbers)
EIdx == {o - 4 : o \in EIdxOff}
VARIABLES heap, env, hist, rnd, done, last, view    \* view = View(heap, env), kept to avoid recomputing it
vars == <<heap, env, hist, rnd, done, last, view>>

NRND == 14
\* operators WITH a parameter: TLC evaluates nullary constant definitions once and for all
\* Salt: TLC's simulation workers / processes started with one seed draw the same numbers
RE(k) == (RandomElement(0..(9999 + 0 * k)) + 1237 * Salt) % 10000
Fresh(k) == <<RE(k), RE(k), RE(k), RE(k), RE(k), RE(k), RE(k), RE(k), RE(k), RE(k), RE(k), RE(k), RE(k), RE(k)>>   \* an explicit tuple: every component drawn once
NoLast == [op |-> "", k |-> "", x |-> VNil, a |-> VNil, res |-> VNil, trunc |-> FALSE, xn |-> "", dst |-> ""]

\* one history entry: the step, its flattened result, error kind, projection delta; tr = history truncated here
Entry(st, ap, v0, v1) ==
  [st |-> st, r |-> RFlat(ap.r), k |-> ap.r.kind, ch |-> Changed(v0, v1), tr |-> ap.r.trunc]

\* ---------- folding a prefix of steps (start configurations) ----------
RECURSIVE RunFrom(_,_,_,_)
RunFrom(steps, h, e, acc) ==
  IF Len(steps) = 0 THEN [h |-> h, env |-> e, hist |-> acc]
  ELSE LET ap == Apply(Head(steps), h, e) IN
       RunFrom(Tail(steps), ap.r.h, ap.env, Append(acc, Entry(Head(steps), ap, View(h, e), View(ap.r.h, ap.env))))

I(n) == LitArg(VInt(n))
S(cps) == LitArg(VStr(cps))
\* start configurations: aliased list, list nested in a list, map holding a list, sets, a string
Prefixes == <<
  << StepL("mklist", "a", <<I(0), I(1), I(2)>>, <<>>), Step("bind", "b", NameArg("a"), NoArg, NoArg) >>,
  << StepL("mklist", "b", <<I(1), I(0)>>, <<>>), StepL("mklist", "a", <<NameArg("b"), I(2), NameArg("b")>>, <<>>) >>,
  << StepL("mklist", "b", <<I(1)>>, <<>>), StepL("mkmap", "a", <<I(0), NameArg("b")>>, << <<107, 49>>, <<107, 50>> >>) >>,
  << StepL("mkset", "a", <<I(0), I(1), S(<<97>>)>>, <<>>), StepL("mkset", "b", <<I(1), LitArg(VFlt(2))>>, <<>>) >>,
  << Step("bind", "a", S(<<97, 233, 98>>), NoArg, NoArg), StepL("mklist", "b", <<S(<<98>>), S(<<97>>), S(<<233>>)>>, <<>>) >>
>>

\* ---------- the enumerated alphabet ----------
\* ENames (receivers) is a constant of the model
EVals == <<I(1), S(<<97>>), NameArg("b")>>
EKeys == <<S(<<107, 49>>), S(<<107, 51>>), I(0), LitArg(VFor("byte_slice", <<107, 49>>)), LitArg(VFor("buffer", <<107, 49>>))>>
Ops0 == <<"reverse", "sort", "clear", "copy", "keys", "values", "items", "len", "sorted", "sortedby", "reversed", "iter">>
Ops1V == <<"append", "remove", "count", "index", "in", "sadd", "extend", "plus", "update", "union", "intersection", "difference">>
Ops1S == <<"get", "pop", "delete", "mget">>
Ops2S == <<"set", "cset", "insert", "setdefault">>
ResultName(op) == IF op \in FreshOps \cup SelfOps \cup {"get", "pop", "mget", "setdefault"} THEN "c" ELSE ""
\* subscripts for a receiver: indices for sequences, keys for maps, members for sets
Subs(xv) == IF xv.t = "map" THEN EKeys
            ELSE IF xv.t = "set" THEN <<I(0), I(7), S(<<97>>), NameArg("b")>>
            ELSE LET ix == SortSetKeys({<<"int", i, <<>>>> : i \in EIdx}) IN [j \in 1..Len(ix) |-> I(ix[j][2])] \o <<S(<<97>>)>>
OptIdx == LET ix == SortSetKeys({<<"int", i, <<>>>> : i \in EIdx}) IN <<NoArg>> \o [j \in 1..Len(ix) |-> I(ix[j][2])]

Alphabet(h, e) ==
  LET F(xn) ==
        LET x == NameArg(xn) xv == e[xn] subs == Subs(xv) IN
          [i \in 1..Len(Ops0) |-> Step(Ops0[i], ResultName(Ops0[i]), x, NoArg, NoArg)]
       \o [i \in 1..(Len(Ops1V) * Len(EVals)) |->
             LET op == Ops1V[((i - 1) \div Len(EVals)) + 1] IN Step(op, ResultName(op), x, EVals[((i - 1) % Len(EVals)) + 1], NoArg)]
       \o [i \in 1..(Len(Ops1S) * Len(subs)) |->
             LET op == Ops1S[((i - 1) \div Len(subs)) + 1] IN Step(op, ResultName(op), x, subs[((i - 1) % Len(subs)) + 1], NoArg)]
       \o [i \in 1..(Len(Ops2S) * Len(subs) * 2) |->
             LET op == Ops2S[((i - 1) \div (2 * Len(subs))) + 1]
                 sb == subs[(((i - 1) \div 2) % Len(subs)) + 1]
             IN Step(op, ResultName(op), x, sb, EVals[((i - 1) % 2) + 1 + (IF op = "cset" THEN 0 ELSE 1)])]
       \o (IF xv.t \in {"list", "str"} THEN
             [i \in 1..(Len(OptIdx) * Len(OptIdx)) |->
                Step("slice", "c", x, OptIdx[((i - 1) \div Len(OptIdx)) + 1], OptIdx[((i - 1) % Len(OptIdx)) + 1])]
           ELSE <<Step("slice", "c", x, I(0), I(1))>>)
       \o << StepC("map", "c", x, NoArg, "id"), StepC("map", "c", x, NoArg, "iv"), StepC("map", "c", x, NoArg, "i"),
             StepC("filter", "c", x, NoArg, "id"), StepC("each", "", x, NameArg("b"), "acc"),
             Step("bind", "c", x, NoArg, NoArg),
             StepL("mklist", "c", <<x, I(1)>>, <<>>), StepL("mkset", "c", <<I(1), x>>, <<>>),
             StepL("mkmap", "c", <<x>>, << <<107, 49>> >>),
             [Step("attr", "c", x, NoArg, NoArg) EXCEPT !.keys = << <<107, 49>> >>],
             [Step("setattr", "", x, I(1), NoArg) EXCEPT !.keys = << <<107, 51>> >>] >>
  IN (IF "a" \in ENames THEN F("a") ELSE <<>>) \o (IF "b" \in ENames THEN F("b") ELSE <<>>)

\* ---------- random steps (mode sim); z = rnd ----------
Sel(sq, r) == sq[(r % Len(sq)) + 1]
ScalarSeq == << VInt(0), VInt(1), VInt(2), VInt(-1), VInt(7), VInt(1), VStr(<<97>>), VStr(<<233>>), VStr(<<98, 233, 8364>>),
                VStr(<<>>), VBool(TRUE), VBool(FALSE), VNil, VFlt(2), VFlt(3), VFlt(-1) >>
KeySeq == << <<107, 49>>, <<107, 50>>, <<107, 51>>, <<233>>, <<>> >>
ListOpsR == <<"get", "get", "slice", "slice", "slice", "slice", "slice", "set", "set", "cset", "append", "append", "insert", "insert", "pop", "pop",
              "remove", "extend", "reverse", "sort", "clear", "copy", "copy", "count", "index", "in", "len", "delete", "plus",
              "sorted", "sortedby", "reversed", "iter", "map", "map", "filter", "each", "bind", "bind">>
MapOpsR == <<"get", "get", "set", "set", "cset", "in", "len", "delete", "keys", "values", "items", "mget", "mget", "pop", "pop",
             "setdefault", "update", "clear", "copy", "copy", "attr", "setattr", "sorted", "iter", "bind", "bind">>
SetOpsR == <<"get", "in", "len", "delete", "sadd", "sadd", "sadd", "remove", "remove", "union", "intersection", "difference",
             "clear", "sorted", "iter", "bind">>
StrOpsR == <<"get", "get", "get", "slice", "slice", "slice", "in", "len", "plus", "sorted", "reversed", "iter">>
AllOpsR == <<"get", "slice", "set", "cset", "append", "insert", "pop", "remove", "extend", "reverse", "sort", "clear", "copy", "in",
             "len", "delete", "plus", "sorted", "reversed", "iter", "map", "filter", "each", "keys", "values", "items", "mget",
             "setdefault", "update", "attr", "setattr", "sadd", "union", "intersection", "difference">>

RName(r) == Sel(NameSeq, r)
RVal(r1, r2) == IF r1 % 3 = 0 THEN NameArg(RName(r2)) ELSE LitArg(Sel(ScalarSeq, r2))
RIdx(n, r1, r2) == IF r1 % 14 = 0 THEN LitArg(Sel(ScalarSeq, r2)) ELSE I((r2 % (2 * n + 5)) - n - 2)    \* [-n-2, n+2]
ROptIdx(n, r1, r2) == IF r1 % 4 = 0 THEN NoArg ELSE RIdx(n, r1 + 1, r2)
RKey(xv, h, r1, r2) ==
  IF r1 % 14 = 0 THEN LitArg(Sel(ScalarSeq, r2))
  ELSE IF xv.t = "map" /\ DOMAIN MapOf(xv, h) # {} /\ r1 % 3 # 0 THEN S(Sel(MapKeys(xv, h), r2))
  ELSE S(Sel(KeySeq, r2))
RDst(p, r1, r2) == IF r1 % 10 < p THEN RName(r2) ELSE ""
\* a name bound to a value of type t (mostly), else any name
RNameOf(t, e, r1, r2) ==
  LET c == SelectSeq(NameSeq, LAMBDA n: e[n].t = t) IN
  IF Len(c) > 0 /\ r1 % 8 # 0 THEN Sel(c, r2) ELSE RName(r2)

RCreate(dst, z) ==
  LET kind == z[4] % 8 IN
  IF kind <= 3 THEN StepL("mklist", dst, [i \in 1..(z[5] % 6) |-> RVal(z[5 + i], z[6 + i])], <<>>)
  ELSE IF kind <= 5 THEN
     LET n == z[5] % 4 off == z[6] % Len(KeySeq) IN
     StepL("mkmap", dst, [i \in 1..n |-> RVal(z[6 + i], z[7 + i])], [i \in 1..n |-> KeySeq[((off + i) % Len(KeySeq)) + 1]])
  ELSE IF kind = 6 THEN
     StepL("mkset", dst, [i \in 1..(z[5] % 5) |-> IF z[6 + i] % 25 = 0 THEN NameArg(RName(z[7 + i])) ELSE LitArg(Sel(ScalarSeq, z[7 + i]))], <<>>)
  ELSE Step("bind", dst, LitArg(Sel(<<VStr(<<97, 233, 98>>), VStr(<<233>>), VStr(<<>>), VStr(<<98, 8364, 97, 97>>)>>, z[5])), NoArg, NoArg)

ListMutR == <<"set", "set", "cset", "append", "insert", "pop", "remove", "extend", "reverse", "sort", "clear", "delete">>
MapMutR == <<"set", "set", "cset", "pop", "delete", "setdefault", "update", "clear", "setattr">>
SetMutR == <<"sadd", "sadd", "remove", "delete", "clear">>
\* lst = the previous step: after a copying operation (slice, copy, sorted, +, union, ...) every second step
\* mutates the source or the copy in place (slice-then-mutate, copy-then-mutate)
GenStep(h, e, z, lst) ==
  LET follow == lst.op \in FreshOps /\ lst.k = "ok" /\ lst.dst # "" /\ lst.xn # "" /\ z[12] % 2 = 0
      cn == SelectSeq(NameSeq, LAMBDA nm: IsRef(e[nm]) \/ e[nm].t = "str")
      xn == IF follow THEN (IF z[13] % 2 = 0 THEN lst.dst ELSE lst.xn)
            ELSE IF Len(cn) > 0 /\ z[11] % 4 # 0 THEN Sel(cn, z[1]) ELSE RName(z[1])      \* mostly a name bound to a container
      xv == e[xn] x == NameArg(xn) n == SizeOf(xv, h) IN
  IF ~(IsRef(xv) \/ xv.t = "str") THEN RCreate(xn, z)
  ELSE IF z[2] % 9 = 0 /\ ~follow THEN RCreate(RName(z[3]), z)
  ELSE
  LET ops == IF follow /\ IsRef(xv) THEN (CASE xv.t = "list" -> ListMutR [] xv.t = "map" -> MapMutR [] OTHER -> SetMutR)
             ELSE IF z[2] % 12 = 1 THEN AllOpsR
             ELSE CASE xv.t = "list" -> ListOpsR [] xv.t = "map" -> MapOpsR [] xv.t = "set" -> SetOpsR [] OTHER -> StrOpsR
      op == Sel(ops, z[3])
      sub == IF xv.t = "map" THEN RKey(xv, h, z[4], z[5])
             ELSE IF xv.t = "set" THEN RVal(z[4], z[5]) ELSE RIdx(n, z[4], z[5])
  IN CASE op = "bind" -> Step(op, RName(z[4]), x, NoArg, NoArg)
       [] op = "get" -> Step(op, RDst(6, z[6], z[7]), x, sub, NoArg)
       [] op = "slice" -> IF z[10] % 2 = 0 /\ n > 0
                          THEN Step(op, RDst(8, z[6], z[7]), x, IF z[4] % 3 = 0 THEN NoArg ELSE I(z[5] % n),     \* a slice that exists
                                    Sel(<<NoArg, I(n), I(n - 1), I(-1)>>, z[9]))
                          ELSE Step(op, RDst(7, z[6], z[7]), x, ROptIdx(n, z[4], z[5]), ROptIdx(n, z[8], z[9]))
       [] op = "set" -> Step(op, "", x, sub, RVal(z[6], z[7]))
       [] op = "cset" -> Step(op, "", x, sub, IF z[6] % 2 = 0 THEN I(z[7] % 5) ELSE RVal(z[8], z[7]))
       [] op = "delete" -> Step(op, "", x, sub, NoArg)
       [] op \in {"in", "count", "index", "remove", "append", "sadd"} -> Step(op, RDst(3, z[6], z[7]), x, RVal(z[4], z[5]), NoArg)
       [] op = "insert" -> Step(op, RDst(2, z[6], z[7]), x, RIdx(n, z[4], z[5]), RVal(z[8], z[9]))
       [] op = "pop" -> IF xv.t = "map" THEN Step(op, RDst(6, z[6], z[7]), x, sub, IF z[8] % 2 = 0 THEN RVal(z[9], z[10]) ELSE NoArg)
                        ELSE Step(op, RDst(6, z[6], z[7]), x, RIdx(n, z[4], z[5]), NoArg)
       [] op \in {"extend", "plus"} -> IF xv.t = "str" /\ z[4] % 6 # 0 THEN Step(op, RDst(7, z[6], z[7]), x, S(Sel(KeySeq, z[5])), NoArg)
                                       ELSE Step(op, RDst(5, z[6], z[7]), x, NameArg(RNameOf("list", e, z[4], z[5])), NoArg)
       [] op = "update" -> Step(op, RDst(2, z[6], z[7]), x, NameArg(RNameOf("map", e, z[4], z[5])), NoArg)
       [] op \in {"union", "intersection", "difference"} -> Step(op, RDst(8, z[6], z[7]), x, NameArg(RNameOf("set", e, z[4], z[5])), NoArg)
       [] op \in {"reverse", "sort", "clear", "len"} -> Step(op, RDst(2, z[6], z[7]), x, NoArg, NoArg)
       [] op \in {"copy", "keys", "values", "items", "sorted", "sortedby", "reversed", "iter"} -> Step(op, RDst(8, z[6], z[7]), x, NoArg, NoArg)
       [] op = "mget" -> Step(op, RDst(5, z[6], z[7]), x, sub, IF z[8] % 2 = 0 THEN RVal(z[9], z[10]) ELSE NoArg)
       [] op = "setdefault" -> Step(op, RDst(4, z[6], z[7]), x, sub, RVal(z[8], z[9]))
       [] op = "attr" -> [Step(op, RDst(6, z[6], z[7]), x, NoArg, NoArg) EXCEPT !.keys = <<Sel(SubSeq(KeySeq, 1, 3), z[5])>>]
       [] op = "setattr" -> [Step(op, "", x, RVal(z[6], z[7]), NoArg) EXCEPT !.keys = <<Sel(SubSeq(KeySeq, 1, 3), z[5])>>]
       [] op = "map" -> StepC(op, RDst(8, z[6], z[7]), x, NoArg, Sel(<<"id", "iv", "iv", "i">>, z[5]))
       [] op = "filter" -> StepC(op, RDst(8, z[6], z[7]), x, NoArg, "id")
       [] op = "each" -> StepC(op, "", x, NameArg(RNameOf("list", e, z[4], z[5])), "acc")

\* ---------- behaviours ----------
Init ==
  /\ rnd = Fresh(0) /\ done = FALSE /\ last = NoLast
  /\ IF Mode = "sim" THEN heap = <<>> /\ env = EmptyEnv /\ hist = <<>> /\ view = View(<<>>, EmptyEnv)
     ELSE \E i \in 1..Len(Prefixes): \E s \in {RunFrom(Prefixes[i], <<>>, EmptyEnv, <<>>)}:
             heap = s.h /\ env = s.env /\ hist = s.hist /\ view = View(s.h, s.env)

TakeWith(st, ap) ==
    /\ ap.r.k # "unknown"
    /\ heap' = ap.r.h /\ env' = ap.env
    /\ IF Mode = "mc" THEN view' = view /\ hist' = Append(hist, 0)        \* leg M needs the length only
       ELSE \E v1 \in {StepView(st, ap, view)}: view' = v1 /\ hist' = Append(hist, Entry(st, ap, view, v1))
    /\ done' = ap.r.trunc
    /\ last' = [op |-> st.op, k |-> ap.r.k, x |-> ArgV(st.x, env), a |-> ArgV(st.a, env), res |-> ap.r.v, trunc |-> ap.r.trunc,
                 xn |-> IF st.x.k = "n" THEN st.x.n ELSE "", dst |-> st.dst]
Take(st) == \E ap \in {Apply(st, heap, env)}: TakeWith(st, ap)

Budget == IF Mode = "sim" THEN MaxLen ELSE MaxLen + 2     \* start configurations are two steps long
NextEnum == /\ ~done /\ Len(hist) < Budget /\ rnd' = rnd
            /\ \E al \in {Alphabet(heap, env)}: \E i \in 1..Len(al): Take(al[i])     \* bound once (a LET would be re-evaluated per use)
NextSim == /\ ~done /\ Len(hist) < Budget /\ rnd' = Fresh(Len(hist))
           /\ \E st \in {GenStep(heap, env, rnd, last)}: \E ap \in {Apply(st, heap, env)}:
                IF ap.r.k # "unknown" THEN TakeWith(st, ap)
                ELSE Take(Step("len", "", NameArg(RName(rnd[1])), NoArg, NoArg))
Next == IF Mode = "sim" THEN NextSim ELSE NextEnum

MCView == <<heap, env, Len(hist)>>

\* ---------- output (legs G) ----------
\* mode sim: the whole history; mode enum: the start configuration once ("PRE") and every maximal history as
\* the entries after its start configuration ("SUF", first step of the configuration to tell them apart)
Emit == CASE Mode = "sim" -> (done \/ Len(hist) = Budget) => PrintT(<<"HIST", ToJson(hist)>>)
          [] Mode = "enum" -> /\ Len(hist) = 2 => PrintT(<<"PRE", ToJson(hist)>>)
                              /\ (Len(hist) > 2 /\ (done \/ Len(hist) = Budget)) =>
                                     PrintT(<<"SUF", hist[1].st.op \o hist[1].st.dst \o hist[2].st.op \o hist[2].st.dst, ToJson(SubSeq(hist, 3, Len(hist)))>>)
          [] OTHER -> TRUE

\* ================= leg M: properties of the model =================
\* read-only operations leave every existing cell unchanged (they may allocate)
ActReadOnly == last'.op \in ReadOnlyOps => SubSeq(heap', 1, Len(heap)) = heap
\* an operation that raises has no effect at all (except the unspecified failed in-place sort)
ActErrorNoEffect == (last'.k = "raise" /\ ~last'.trunc) => (heap' = heap /\ env' = env)
\* slices, copies, sorted, +, union, ... return a cell that did not exist before: it shares no cell with its source,
\* no other name and no existing cell refers to it
ActFresh == (last'.k = "ok" /\ last'.op \in FreshOps /\ IsRef(last'.res)) =>
               /\ last'.res.a > Len(heap) /\ last'.res.a = Len(heap')
               /\ \A a \in 1..Len(heap): last'.res.a \notin Children(heap'[a])
\* mutators return the receiver itself (same address)
ActSelf == (last'.k = "ok" /\ last'.op \in SelfOps) => last'.res = last'.x
\* a mutation changes only the cell it is applied to (each: the accumulator's cell)
ActFrame == (last'.k = "ok" /\ last'.op \notin ReadOnlyOps) =>
               LET target == IF last'.op = "each" THEN last'.a ELSE last'.x IN
               \A a \in 1..Len(heap): (IsRef(target) /\ a = target.a) \/ heap'[a] = heap[a]
\* out-of-range or wrongly typed subscripts are errors, never data
ActRange == (last'.op \in {"get", "set", "cset", "pop", "delete"} /\ last'.x.t \in {"list", "str"}) =>
               LET n == SizeOf(last'.x, heap) i == last'.a IN
               /\ (i.t # "int" \/ i.v < -n \/ i.v > n - 1) => last'.k = "raise"
               /\ (last'.op = "get" /\ last'.k = "ok" /\ last'.x.t = "list") => \E j \in 1..n: Items(last'.x, heap)[j] = last'.res
ActKeyType == /\ (last'.op \in {"get", "set", "cset", "delete"} /\ last'.x.t = "map" /\ last'.a.t # "str") => last'.k = "raise"
              /\ (last'.op \in {"mget", "setdefault"} /\ last'.x.t = "map" /\ last'.a.t \notin {"str", "foreign"}) => last'.k = "raise"
PropReadOnly == [][ActReadOnly]_vars
PropErrorNoEffect == [][ActErrorNoEffect]_vars
PropFresh == [][ActFresh]_vars
PropSelf == [][ActSelf]_vars
PropFrame == [][ActFrame]_vars
PropRange == [][ActRange]_vars
PropKeyType == [][ActKeyType]_vars

\* len equals the abstract length, however it is counted
LenAgrees ==
  \A n \in Names: LET v == env[n] IN (IsRef(v) \/ v.t = "str") =>
     LET sz == LenOf(v, heap).v.v IN
     /\ sz = Len(IterPairs(v, heap))
     /\ sz = Flat(v, heap)[2]
     /\ v.t \in {"list", "str"} =>
          /\ Cardinality({i \in (-sz - 2)..(sz + 2): GetItem(v, VInt(i), heap).k = "ok"}) = 2 * sz
          /\ \A i \in 0..(sz - 1): GetItem(v, VInt(i), heap).v = GetItem(v, VInt(i - sz), heap).v
     /\ v.t = "map" => sz = Len(Items(MapKeysL(v, heap).v, MapKeysL(v, heap).h))
\* the heap stays well formed: references point to cells of the right kind, no cycles
WellFormed ==
  /\ \A n \in Names: IsRef(env[n]) => (env[n].a \in 1..Len(heap) /\ heap[env[n].a].t = env[n].t)
  /\ Sane(heap)
=============================================================================
