INIT Init
NEXT Next
CONSTANTS
 MAXSEG = 3
 ENCS = {"plain", "hexdots"}
 EMIT = TRUE
INVARIANT AcceptedIsConfined
INVARIANT EscapingIsRejected
INVARIANT Emit
CHECK_DEADLOCK FALSE
