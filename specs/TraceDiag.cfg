INIT Init
NEXT Next
INVARIANT Check
CHECK_DEADLOCK FALSE
