-------------------------------- MODULE Chan --------------------------------
(***************************************************************************)
(* Channels and threads between goroutines started by a script (C10).      *)
(* Senders 1..NS each send the values <<s, 1>>, <<s, 2>>, ..; receivers    *)
(* take values until they get nil from the closed and drained channel.     *)
(* The channel is a FIFO queue of capacity Cap (Cap = 0: rendezvous).      *)
(* Observable events (what the host builtins of the driver record):        *)
(*   SendBegin(s)  a sender announces its next value, then sends it        *)
(*   RecvEnd(r)    a receiver has received a value and announces it        *)
(*   Close         all senders are done, the channel is closed             *)
(*   RecvNil(r)    a receiver got nil                                      *)
(* The abstract state ChanAbs used for trace validation is the bag of      *)
(* announced-but-not-yet-received values plus per-(sender, receiver)       *)
(* order; the queue refines it.                                            *)
(***************************************************************************)
EXTENDS Integers, Sequences, FiniteSets, TLC
CONSTANTS NS, NR, Msgs, Cap
Senders == 1..NS
Receivers == 1..NR
VARIABLES queue,      \* the channel buffer: sequence of <<s, i>>
          handoff,    \* values a sender is blocked on / a receiver has taken but not announced
          nextSend,   \* nextSend[s]: index of the next value sender s will announce
          announced,  \* set of <<s, i>> announced by SendBegin
          received,   \* received[r]: sequence of values receiver r has announced
          taken,      \* taken[r]: value receiver r took from the channel and has not announced yet ("none")
          closed, gotNil
vars == <<queue, handoff, nextSend, announced, received, taken, closed, gotNil>>
None == <<0, 0>>
Init == /\ queue = <<>> /\ handoff = [s \in Senders |-> None] /\ nextSend = [s \in Senders |-> 1]
        /\ announced = {} /\ received = [r \in Receivers |-> <<>>] /\ taken = [r \in Receivers |-> None]
        /\ closed = FALSE /\ gotNil = [r \in Receivers |-> FALSE]
\* a sender announces its next value and is then committed to sending it
SendBegin(s) == /\ ~closed /\ nextSend[s] <= Msgs /\ handoff[s] = None
                /\ handoff' = [handoff EXCEPT ![s] = <<s, nextSend[s]>>]
                /\ announced' = announced \cup {<<s, nextSend[s]>>}
                /\ nextSend' = [nextSend EXCEPT ![s] = @ + 1]
                /\ UNCHANGED <<queue, received, taken, closed, gotNil>>
\* the send completes: into the buffer if there is room, ...
SendBuffered(s) == /\ handoff[s] # None /\ Len(queue) < Cap
                   /\ queue' = Append(queue, handoff[s]) /\ handoff' = [handoff EXCEPT ![s] = None]
                   /\ UNCHANGED <<nextSend, announced, received, taken, closed, gotNil>>
\* ... or directly to a waiting receiver (rendezvous, only when the buffer is empty)
SendDirect(s, r) == /\ handoff[s] # None /\ queue = <<>> /\ taken[r] = None /\ ~gotNil[r]
                    /\ taken' = [taken EXCEPT ![r] = handoff[s]] /\ handoff' = [handoff EXCEPT ![s] = None]
                    /\ UNCHANGED <<queue, nextSend, announced, received, closed, gotNil>>
RecvTake(r) == /\ taken[r] = None /\ ~gotNil[r] /\ queue # <<>>
               /\ taken' = [taken EXCEPT ![r] = Head(queue)] /\ queue' = Tail(queue)
               /\ UNCHANGED <<handoff, nextSend, announced, received, closed, gotNil>>
RecvEnd(r) == /\ taken[r] # None
              /\ received' = [received EXCEPT ![r] = Append(@, taken[r])] /\ taken' = [taken EXCEPT ![r] = None]
              /\ UNCHANGED <<queue, handoff, nextSend, announced, closed, gotNil>>
\* the script closes the channel after every sender thread has been waited for
\* a send on a closed channel is refused with an error in every form (statement, .send(), spawned .send): it hands
\* nothing over and is not announced - a stuttering step of this specification
SendRefused(s) == closed /\ UNCHANGED vars
Close == /\ ~closed /\ \A s \in Senders: nextSend[s] > Msgs /\ handoff[s] = None
         /\ closed' = TRUE
         /\ UNCHANGED <<queue, handoff, nextSend, announced, received, taken, gotNil>>
RecvNil(r) == /\ closed /\ queue = <<>> /\ taken[r] = None /\ ~gotNil[r]
              /\ gotNil' = [gotNil EXCEPT ![r] = TRUE]
              /\ UNCHANGED <<queue, handoff, nextSend, announced, received, taken, closed>>
Next == \/ \E s \in Senders: SendBegin(s) \/ SendBuffered(s) \/ \E r \in Receivers: SendDirect(s, r)
        \/ \E r \in Receivers: RecvTake(r) \/ RecvEnd(r) \/ RecvNil(r)
        \/ Close
Spec == Init /\ [][Next]_vars /\ WF_vars(Next)

AllReceived == UNION {{received[r][k] : k \in 1..Len(received[r])} : r \in Receivers}
Holding == {taken[r] : r \in Receivers} \ {None}
InFlight == announced \ (AllReceived \cup Holding)
\* every value is received at most once (exactly once at quiescence, see Quiescent)
AtMostOnce == /\ \A r \in Receivers: \A i, j \in 1..Len(received[r]): i # j => received[r][i] # received[r][j]
              /\ \A r1, r2 \in Receivers: r1 # r2 => \A i \in 1..Len(received[r1]): \A j \in 1..Len(received[r2]): received[r1][i] # received[r2][j]
OnlyAnnounced == AllReceived \subseteq announced
\* values of one sender arrive at one receiver in the order they were sent
PerSenderFIFO == \A r \in Receivers: \A i, j \in 1..Len(received[r]):
                    (i < j /\ received[r][i][1] = received[r][j][1]) => received[r][i][2] < received[r][j][2]
\* nil is received only from a closed and drained channel
NilOnlyAfterDrain == \A r \in Receivers: gotNil[r] => closed /\ queue = <<>>
\* refinement: the queue model implements the abstract view used for trace validation
\* the latest value receiver r has announced from sender s
LastFromOf(r, s) == LET idx == {k \in 1..Len(received[r]) : received[r][k][1] = s} IN
                    IF idx = {} THEN 0 ELSE received[r][CHOOSE k \in idx : \A j \in idx : j <= k][2]
Abs == INSTANCE ChanAbs WITH cfg <- [ns |-> NS, nr |-> NR, msgs |-> Msgs], nextSend <- nextSend,
                              got <- AllReceived, lastFrom <- [r \in Receivers |-> [s \in Senders |-> LastFromOf(r, s)]],
                              closed <- closed, gotNil <- gotNil
AbsSpec == Abs!AInit([ns |-> NS, nr |-> NR, msgs |-> Msgs]) /\ [][Abs!ANext]_(Abs!avars)
Quiescent == (\A r \in Receivers: gotNil[r]) => (AllReceived = {<<s, i>> : s \in Senders, i \in 1..Msgs})
EventuallyAllDelivered == <>(\A r \in Receivers: gotNil[r])
=============================================================================
