------------------------------- MODULE Values -------------------------------
(* C15 - equality, ordering, hashing, truthiness, membership and sorting of script   *)
(* values, as the source-level semantics the per-type Equals / Compare / HashKey      *)
(* methods document (object/*.go), stated over tagged records.                        *)
(*                                                                                    *)
(* The value universe comes from the driver (harness/cmd/values universe) as JSON:    *)
(*   vals[i]  tagged record of value i                                                *)
(*     int   [t, rank, frank]   float [t, rank]   byte [t, rank]                      *)
(*     str   [t, v: code points]   bool [t, v]   nil [t]                              *)
(*     list  [t, v: records]   set [t, v: member records]                             *)
(*     map   [t, v: <<[k: code points, v: record]>> sorted by key]                    *)
(*     error [t, v: code points of the message, raised]                               *)
(*     plus elems: indices (into vals) of the elements / members / keys               *)
(*   S        indices of the sub-universe used for sort and set inputs, K max length  *)
(*   zero     rank of the number 0                                                    *)
(* TLC has 32-bit integers and no floats: a numeric scalar is its RANK in the exact   *)
(* merged real-number order of all numbers of the universe (equal ranks <=> equal     *)
(* numbers; -0.0 and 0.0 share a rank), computed by the driver with math/big -        *)
(* an arithmetic oracle that does not go through risor.  frank is the rank of the     *)
(* float64 an int rounds to (IEEE round-to-nearest-even).                             *)
(*                                                                                    *)
(* Rounded = TRUE selects the comparison of an int with a float through float64(int)  *)
(* (what object/int.go did before the C15 fix).  It breaks the laws of the property   *)
(* (see ValuesLaws) and is kept as the negative self-test of the law modules; the     *)
(* specification proper is Rounded = FALSE: numbers compare by their exact value.     *)
EXTENDS Integers, Sequences, FiniteSets, TLC, Json, IOUtils

CONSTANT Rounded

Univ == JsonDeserialize(IOEnv.VERIF_U)
U == Univ.vals
NVals == Len(U)
Sub == Univ.S
MaxLen == Univ.K
ZeroRank == Univ.zero

Numeric(v) == v.t \in {"int", "float", "byte"}
Hashable(v) == v.t \in {"int", "float", "byte", "str", "bool", "nil"}
HasCompare(v) == v.t \in {"int", "float", "byte", "str", "bool", "nil", "list", "error"}
IsContainer(v) == v.t \in {"list", "map", "set", "str"}
\* the types for which the property promises a total preorder
OrderedTypes == {"int", "float", "byte", "str", "bool", "list"}

Sign(x, y) == IF x = y THEN 0 ELSE IF x < y THEN -1 ELSE 1
B2I(b) == IF b THEN 1 ELSE 0
OkC(c) == [ok |-> TRUE, c |-> c]
CmpErr == [ok |-> FALSE, c |-> 0]

\* lexicographic order of code-point sequences (= byte order of valid UTF-8)
RECURSIVE LexCmp(_, _)
LexCmp(x, y) ==
  IF Len(x) = 0 THEN (IF Len(y) = 0 THEN 0 ELSE -1)
  ELSE IF Len(y) = 0 THEN 1
  ELSE IF Head(x) # Head(y) THEN Sign(Head(x), Head(y))
  ELSE LexCmp(Tail(x), Tail(y))

\* numbers of any two numeric types compare by value
NumCmp(a, b) ==
  IF Rounded /\ a.t = "int" /\ b.t = "float" THEN Sign(a.frank, b.rank)
  ELSE IF Rounded /\ a.t = "float" /\ b.t = "int" THEN Sign(a.rank, b.frank)
  ELSE Sign(a.rank, b.rank)

\* identity of a value inside a set: (type, value); +0.0 and -0.0 are one float
HashKey(a) ==
  CASE Numeric(a) -> <<a.t, a.rank, <<>> >>
    [] a.t = "str" -> <<"str", 0, a.v>>
    [] a.t = "bool" -> <<"bool", B2I(a.v), <<>> >>
    [] a.t = "nil" -> <<"nil", 0, <<>> >>

RECURSIVE Equals(_, _)
Equals(a, b) ==
  IF Numeric(a) /\ Numeric(b) THEN NumCmp(a, b) = 0
  ELSE IF a.t # b.t THEN FALSE
  ELSE CASE a.t = "str" -> a.v = b.v
         [] a.t = "bool" -> a.v = b.v
         [] a.t = "nil" -> TRUE
         [] a.t = "list" -> Len(a.v) = Len(b.v) /\ \A i \in 1..Len(a.v): Equals(a.v[i], b.v[i])
         [] a.t = "map" -> Len(a.v) = Len(b.v) /\
                           \A i \in 1..Len(a.v): a.v[i].k = b.v[i].k /\ Equals(a.v[i].v, b.v[i].v)
         [] a.t = "set" -> Len(a.v) = Len(b.v) /\
                           \A i \in 1..Len(a.v): \E j \in 1..Len(b.v):
                               HashKey(a.v[i]) = HashKey(b.v[j]) /\ Equals(a.v[i], b.v[j])
         [] a.t = "error" -> a.v = b.v /\ a.raised = b.raised

\* Compare: [ok, c]; ok = FALSE is the type error of an unordered pair
RECURSIVE Compare(_, _)
RECURSIVE ListCmp(_, _, _)
ListCmp(x, y, i) ==
  IF i > Len(x) THEN OkC(0)
  ELSE IF ~HasCompare(x[i]) THEN CmpErr
  ELSE LET r == Compare(x[i], y[i]) IN IF ~r.ok \/ r.c # 0 THEN r ELSE ListCmp(x, y, i + 1)
Compare(a, b) ==
  IF Numeric(a) /\ Numeric(b) THEN OkC(NumCmp(a, b))
  ELSE IF a.t # b.t THEN CmpErr
  ELSE CASE a.t = "str" -> OkC(LexCmp(a.v, b.v))
         [] a.t = "bool" -> OkC(Sign(B2I(a.v), B2I(b.v)))
         [] a.t = "nil" -> OkC(0)
         [] a.t = "list" -> IF Len(a.v) # Len(b.v) THEN OkC(Sign(Len(a.v), Len(b.v)))   \* shorter lists first
                            ELSE ListCmp(a.v, b.v, 1)
         [] a.t = "error" -> LET m == LexCmp(a.v, b.v) IN
                             OkC(IF m # 0 THEN m ELSE Sign(B2I(a.raised), B2I(b.raised)))
         [] OTHER -> CmpErr          \* maps and sets are not ordered

Length(a) == Len(a.v)                \* containers only
Truthy(a) ==
  CASE Numeric(a) -> a.rank # ZeroRank
    [] a.t = "bool" -> a.v
    [] a.t = "nil" -> FALSE
    [] a.t \in {"str", "list", "map", "set"} -> Len(a.v) # 0
    [] a.t = "error" -> TRUE

\* s occurs in t as a contiguous subsequence
IsSub(s, t) == \E k \in 0..(Len(t) - Len(s)): \A i \in 1..Len(s): t[k + i] = s[i]

\* `x in c`
Contains(c, x) ==
  CASE c.t = "list" -> \E i \in 1..Len(c.v): Equals(c.v[i], x)
    [] c.t = "set" -> Hashable(x) /\ \E i \in 1..Len(c.v): HashKey(c.v[i]) = HashKey(x)
    [] c.t = "map" -> x.t = "str" /\ \E i \in 1..Len(c.v): c.v[i].k = x.v
    [] c.t = "str" -> x.t = "str" /\ IsSub(x.v, c.v)

ListOf(xs) == [t |-> "list", v |-> xs]

\* every two elements at different positions are ordered
MutuallyComparable(xs) ==
  \A i, j \in 1..Len(xs): i # j => HasCompare(xs[i]) /\ Compare(xs[i], xs[j]).ok

\* stable sort as a sequence of positions of xs: insertion from the left, an element goes
\* after everything that is not greater than it
RECURSIVE InsertPos(_, _, _)
InsertPos(xs, p, sorted) ==
  IF Len(sorted) = 0 THEN <<p>>
  ELSE IF Compare(xs[p], xs[Head(sorted)]).c < 0 THEN <<p>> \o sorted
  ELSE <<Head(sorted)>> \o InsertPos(xs, p, Tail(sorted))
RECURSIVE SortPos(_, _)
SortPos(xs, n) == IF n = 0 THEN <<>> ELSE InsertPos(xs, n, SortPos(xs, n - 1))
\* Sorted: [ok, perm]; ok = FALSE: the input is not mutually comparable (outside the property)
Sorted(xs) == IF MutuallyComparable(xs) THEN [ok |-> TRUE, perm |-> SortPos(xs, Len(xs))]
              ELSE [ok |-> FALSE, perm |-> <<>>]

\* a set built from xs: one slot per hash key; [ok, keys]
SetOf(xs) == IF \A i \in 1..Len(xs): Hashable(xs[i])
             THEN [ok |-> TRUE, keys |-> {HashKey(xs[i]): i \in 1..Len(xs)}]
             ELSE [ok |-> FALSE, keys |-> {}]
InSetOf(xs, x) == Hashable(x) /\ HashKey(x) \in SetOf(xs).keys
=============================================================================
