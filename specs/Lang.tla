------------------------------- MODULE Lang -------------------------------
(***************************************************************************)
(* Definitional interpreter for the core of the risor language: the        *)
(* source-level meaning that lexing, parsing, compilation and execution    *)
(* must preserve (properties C01, C02, C05, C17, C18; DESIGN.md 5, App. A).*)
(*                                                                         *)
(* Programs are JSON ASTs (harness/ast).  A machine state is               *)
(*   s = [store  : Seq(Val)        cells (variable bindings), by address   *)
(*        heap   : Seq(Container)  mutable lists / maps / sets, by address *)
(*        out    : Seq(Nat)        printed text as code points             *)
(*        nfn    : Nat             function identity counter               *)
(*        depth  : Nat             call depth                              *)
(*        dstack : Seq(Seq(..))    pending deferred calls per active call] *)
(* An environment is a stack of scopes, each a function name -> address.   *)
(* Every evaluation result is a tagged record [k, v, s]:                   *)
(*   k = "ok" | "raise" | "break" | "continue" | "return" | "unknown".     *)
(* "unknown" = the program left the modelled domain (never a verdict).     *)
(***************************************************************************)
EXTENDS Integers, Sequences, FiniteSets, TLC

BIG == 1000000          \* ints are kept far below TLC's 32-bit limit
MAXDEPTH == 24
FUEL == 80

\* ================= values =================
VNil == [t |-> "nil"]
VBool(b) == [t |-> "bool", v |-> b]
VInt(n) == [t |-> "int", v |-> n]
VStr(s) == [t |-> "str", v |-> s]
VList(a) == [t |-> "list", a |-> a]
VMap(a) == [t |-> "map", a |-> a]
VSet(a) == [t |-> "set", a |-> a]
VBuiltin(n) == [t |-> "builtin", n |-> n]
VMeth(n, self) == [t |-> "method", n |-> n, self |-> self]
VErr(msg, raised) == [t |-> "error", v |-> msg, raised |-> raised]
VUnset == [t |-> "unset"]
\* floats: the dyadic rationals n/8 with |n| <= FBIG (every +, -, *, / whose exact result is again such a number is
\* exact in IEEE arithmetic too); anything else - inexact quotients, infinities, NaN, negative zero, ** - is Unknown
VFloat(n) == [t |-> "float", n |-> n]
FBIG == 32768
Num(v) == v.t \in {"int", "float"}
F8(v) == IF v.t = "int" THEN 8 * v.v ELSE v.n       \* eight times the numeric value

Ok(v, s) == [k |-> "ok", v |-> v, s |-> s]
\* kind: "type error", "index error", "key error", "slice error", "args error", "value error",
\*       "eval error", "panic" (recovered Go panic: kind not compared), "user" (error(msg): v = msg cps)
Fatal(kind) == kind \in {"eval error", "args error", "panic"}
Raise(kind, s) == [k |-> "raise", v |-> [kind |-> kind, msg |-> <<>>, fatal |-> Fatal(kind)], s |-> s]
RaiseMsg(kind, msg, s) == [k |-> "raise", v |-> [kind |-> kind, msg |-> msg, fatal |-> Fatal(kind)], s |-> s]
\* an error that crossed a builtin callback boundary (list.map/filter/each) is re-raised as a plain error:
\* same text (hence kind), but no longer fatal for try(); a recovered Go panic stays a panic
Demote(r) == IF r.v.kind = "panic" THEN r ELSE [r EXCEPT !.v.fatal = FALSE]
Sig(k, v, s) == [k |-> k, v |-> v, s |-> s]
Unknown(s) == [k |-> "unknown", v |-> VNil, s |-> s]

\* ---------- code point helpers ----------
Cp(str) == CASE str = "true" -> <<116,114,117,101>> [] str = "false" -> <<102,97,108,115,101>>
             [] str = "nil" -> <<110,105,108>> [] str = "int" -> <<105,110,116>>
             [] str = "bool" -> <<98,111,111,108>> [] str = "string" -> <<115,116,114,105,110,103>>
             [] str = "list" -> <<108,105,115,116>> [] str = "map" -> <<109,97,112>>
             [] str = "set" -> <<115,101,116>> [] str = "function" -> <<102,117,110,99,116,105,111,110>>
             [] str = "builtin" -> <<98,117,105,108,116,105,110>> [] str = "error" -> <<101,114,114,111,114>>
             [] str = ", " -> <<44,32>> [] str = ": " -> <<58,32>>
             [] str = "error(" -> <<101,114,114,111,114,40>>
             [] str = "float" -> <<102,108,111,97,116>>
RECURSIVE LexLess(_,_)
LexLess(a, b) == IF Len(b) = 0 THEN FALSE ELSE IF Len(a) = 0 THEN TRUE
                 ELSE IF a[1] < b[1] THEN TRUE ELSE IF a[1] > b[1] THEN FALSE
                 ELSE LexLess(Tail(a), Tail(b))
RECURSIVE SortKeys(_)
SortKeys(ks) == IF ks = {} THEN <<>> ELSE
   LET m == CHOOSE x \in ks: \A y \in ks: x = y \/ LexLess(x, y) IN <<m>> \o SortKeys(ks \ {m})
IsPrefixOf(a, b) == Len(a) <= Len(b) /\ SubSeq(b, 1, Len(a)) = a
RECURSIVE IsSub(_,_)
IsSub(a, b) == IF Len(a) > Len(b) THEN FALSE ELSE IsPrefixOf(a, b) \/ IsSub(a, Tail(b))
RECURSIVE Digits(_)
Digits(n) == IF n < 10 THEN <<48 + n>> ELSE Digits(n \div 10) \o <<48 + (n % 10)>>
IntText(n) == IF n < 0 THEN <<45>> \o Digits(-n) ELSE Digits(n)
\* shortest decimal text of n/8 (magnitude below 10^6: no exponent form)
FracText(r) == CASE r = 0 -> <<>> [] r = 1 -> <<46,49,50,53>> [] r = 2 -> <<46,50,53>> [] r = 3 -> <<46,51,55,53>>
                 [] r = 4 -> <<46,53>> [] r = 5 -> <<46,54,50,53>> [] r = 6 -> <<46,55,53>> [] r = 7 -> <<46,56,55,53>>
FloatText(n) == LET m == IF n < 0 THEN -n ELSE n IN
                (IF n < 0 THEN <<45>> ELSE <<>>) \o Digits(m \div 8) \o FracText(m % 8)
RECURSIVE Rev(_)
Rev(sq) == IF Len(sq) = 0 THEN <<>> ELSE Rev(Tail(sq)) \o <<Head(sq)>>
\* strings whose Go %q form is not simply "…": outside the modelled domain
Plain(cps) == \A i \in 1..Len(cps): cps[i] >= 32 /\ cps[i] # 34 /\ cps[i] # 92 /\ cps[i] # 127
Upper(c) == IF c >= 97 /\ c <= 122 THEN c - 32 ELSE c
Lower(c) == IF c >= 65 /\ c <= 90 THEN c + 32 ELSE c
Ascii(cps) == \A i \in 1..Len(cps): cps[i] < 128

Items(v, s) == s.heap[v.a].items
MapOf(v, s) == s.heap[v.a].m

\* set members are keyed; key order = (type name, int value, string value)
SetKey(v) == CASE v.t = "int" -> <<"int", v.v, <<>>>> [] v.t = "str" -> <<"string", 0, v.v>>
               [] v.t = "bool" -> <<"bool", IF v.v THEN 1 ELSE 0, <<>>>> [] v.t = "nil" -> <<"nil", 0, <<>>>>
               [] OTHER -> <<"?", 0, <<>>>>
Hashable(v) == v.t \in {"int", "str", "bool", "nil"}
TypeOrd(t) == CASE t = "bool" -> 1 [] t = "int" -> 2 [] t = "nil" -> 3 [] t = "string" -> 4 [] OTHER -> 5
KeyLess(a, b) == IF a[1] # b[1] THEN TypeOrd(a[1]) < TypeOrd(b[1])
                 ELSE IF a[2] # b[2] THEN a[2] < b[2] ELSE LexLess(a[3], b[3])
RECURSIVE SortSetKeys(_)
SortSetKeys(ks) == IF ks = {} THEN <<>> ELSE
   LET m == CHOOSE x \in ks: \A y \in ks: x = y \/ KeyLess(x, y) IN <<m>> \o SortSetKeys(ks \ {m})
KeyVal(k) == CASE k[1] = "int" -> VInt(k[2]) [] k[1] = "string" -> VStr(k[3])
               [] k[1] = "bool" -> VBool(k[2] = 1) [] OTHER -> VNil
SetItems(v, s) == LET ks == SortSetKeys(s.heap[v.a].keys) IN [i \in 1..Len(ks) |-> KeyVal(ks[i])]

Truthy(v, s) ==
  CASE v.t = "int" -> v.v # 0
    [] v.t = "bool" -> v.v
    [] v.t = "nil" -> FALSE
    [] v.t = "float" -> v.n # 0
    [] v.t = "str" -> Len(v.v) > 0
    [] v.t = "list" -> Len(Items(v, s)) > 0
    [] v.t = "map" -> DOMAIN MapOf(v, s) # {}
    [] v.t = "set" -> s.heap[v.a].keys # {}
    [] OTHER -> TRUE

RECURSIVE VEq(_,_,_)
RECURSIVE SeqEq(_,_,_)
SeqEq(x, y, s) == IF Len(x) # Len(y) THEN FALSE ELSE IF Len(x) = 0 THEN TRUE
                  ELSE VEq(Head(x), Head(y), s) /\ SeqEq(Tail(x), Tail(y), s)
VEq(a, b, s) ==
  IF Num(a) /\ Num(b) /\ (a.t = "float" \/ b.t = "float") THEN F8(a) = F8(b)   \* 1 == 1.0
  ELSE IF a.t # b.t THEN FALSE
  ELSE CASE a.t \in {"int","bool","str"} -> a.v = b.v
         [] a.t = "nil" -> TRUE
         [] a.t = "list" -> SeqEq(Items(a, s), Items(b, s), s)
         [] a.t = "map" -> LET ma == MapOf(a, s) mb == MapOf(b, s) IN
               DOMAIN ma = DOMAIN mb /\ \A k \in DOMAIN ma: VEq(ma[k], mb[k], s)
         [] a.t = "set" -> s.heap[a.a].keys = s.heap[b.a].keys
         [] a.t = "fn" -> a.id = b.id
         [] a.t = "builtin" -> a.n = b.n
         [] a.t = "error" -> a.v = b.v /\ a.raised = b.raised
         [] OTHER -> FALSE
\* equality on values whose identity the model does not track is outside the domain
Opaque(v) == v.t = "error" /\ "opaque" \in DOMAIN v
EqKnown(a, b) == ~(a.t = b.t /\ a.t \in {"method"}) /\ ~Opaque(a) /\ ~Opaque(b)

\* compare: [ok, c]; ok = FALSE means "type error"
RECURSIVE VCmp(_,_,_)
RECURSIVE SeqCmp(_,_,_)
CmpInt(x, y) == IF x = y THEN 0 ELSE IF x < y THEN -1 ELSE 1
SeqCmp(x, y, s) == IF Len(x) = 0 THEN [ok |-> TRUE, c |-> 0] ELSE
    LET r == VCmp(Head(x), Head(y), s) IN IF ~r.ok \/ r.c # 0 THEN r ELSE SeqCmp(Tail(x), Tail(y), s)
VCmp(a, b, s) ==
  CASE a.t = "int" /\ b.t = "int" -> [ok |-> TRUE, c |-> CmpInt(a.v, b.v)]
    [] Num(a) /\ Num(b) -> [ok |-> TRUE, c |-> CmpInt(F8(a), F8(b))]
    [] a.t = "str" /\ b.t = "str" -> [ok |-> TRUE, c |-> IF a.v = b.v THEN 0 ELSE IF LexLess(a.v, b.v) THEN -1 ELSE 1]
    [] a.t = "bool" /\ b.t = "bool" -> [ok |-> TRUE, c |-> IF a.v = b.v THEN 0 ELSE IF a.v THEN 1 ELSE -1]
    [] a.t = "nil" /\ b.t = "nil" -> [ok |-> TRUE, c |-> 0]
    [] a.t = "list" /\ b.t = "list" -> LET x == Items(a, s) y == Items(b, s) IN
          IF Len(x) # Len(y) THEN [ok |-> TRUE, c |-> CmpInt(Len(x), Len(y))] ELSE SeqCmp(x, y, s)
    \* errors order by message, then not-raised before raised (object/error.go:Compare)
    [] a.t = "error" /\ b.t = "error" ->
          [ok |-> TRUE, c |-> IF a.v = b.v THEN (IF a.raised = b.raised THEN 0 ELSE IF a.raised THEN 1 ELSE -1)
                              ELSE IF LexLess(a.v, b.v) THEN -1 ELSE 1]
    [] OTHER -> [ok |-> FALSE, c |-> 0]
Comparable(v) == v.t \in {"int", "float", "str", "bool", "nil", "list"}
\* no error value inside v (to nesting depth d): comparisons that meet an error value below the top level, or an
\* error whose message is outside the model, are left to the implementation (Unknown)
RECURSIVE ErrFree(_,_,_)
ErrFree(v, s, d) == IF v.t = "error" THEN FALSE
                    ELSE IF v.t = "list" THEN (d > 0 /\ \A i \in 1..Len(Items(v, s)): ErrFree(Items(v, s)[i], s, d - 1))
                    ELSE TRUE

Abs(n) == IF n < 0 THEN -n ELSE n
Small(n) == Abs(n) <= BIG
TruncDiv(a, b) == LET q == Abs(a) \div Abs(b) IN IF (a < 0) = (b < 0) THEN q ELSE -q
TruncMod(a, b) == a - b * TruncDiv(a, b)
RECURSIVE Pow(_,_)
Pow(a, n) == IF n = 0 THEN 1 ELSE a * Pow(a, n - 1)
RECURSIVE Pow2(_)
Pow2(n) == IF n = 0 THEN 1 ELSE 2 * Pow2(n - 1)
RECURSIVE BitAnd(_,_)
BitAnd(a, b) == IF a = 0 \/ b = 0 THEN 0 ELSE (a % 2) * (b % 2) + 2 * BitAnd(a \div 2, b \div 2)
FloorDiv(a, b) == IF a >= 0 THEN a \div b ELSE -((-a + b - 1) \div b)

AllocH(s, c) == [s EXCEPT !.heap = Append(s.heap, c)]
NewList(items, s) == LET s2 == AllocH(s, [t |-> "list", items |-> items]) IN Ok(VList(Len(s2.heap)), s2)
NewMap(m, s) == LET s2 == AllocH(s, [t |-> "map", m |-> m]) IN Ok(VMap(Len(s2.heap)), s2)
NewSet(keys, s) == LET s2 == AllocH(s, [t |-> "set", keys |-> keys]) IN Ok(VSet(Len(s2.heap)), s2)

\* arithmetic with at least one float operand (the other one may be an int)
FloatOp(op, a, b, s) ==
  IF (a.t = "int" /\ Abs(a.v) > 4096) \/ (b.t = "int" /\ Abs(b.v) > 4096) THEN Unknown(s)
  ELSE LET x == F8(a)  y == F8(b)
           fin(n) == IF Abs(n) <= FBIG THEN Ok(VFloat(n), s) ELSE Unknown(s)
       IN CASE op = "+" -> fin(x + y)
            [] op = "-" -> fin(x - y)
            [] op = "*" -> IF (x * y) % 8 # 0 THEN Unknown(s)
                           ELSE IF x * y = 0 /\ (x < 0 \/ y < 0) THEN Unknown(s)      \* negative zero
                           ELSE fin((x * y) \div 8)
            [] op = "/" -> IF y = 0 THEN Unknown(s)                                   \* infinity / NaN
                           ELSE IF (8 * Abs(x)) % Abs(y) # 0 THEN Unknown(s)          \* inexact quotient
                           ELSE IF x = 0 /\ y < 0 THEN Unknown(s)                     \* negative zero
                           ELSE fin(TruncDiv(8 * x, y))
            [] op \in {"%", "&", "<<", ">>"} -> Raise("type error", s)
            [] OTHER -> Unknown(s)

BinOp(op, a, b, s) ==
  IF op = "==" THEN (IF EqKnown(a, b) THEN Ok(VBool(VEq(a, b, s)), s) ELSE Unknown(s))
  ELSE IF op = "!=" THEN (IF EqKnown(a, b) THEN Ok(VBool(~VEq(a, b, s)), s) ELSE Unknown(s))
  ELSE IF op \in {"<", "<=", ">", ">="} THEN
     IF a.t = "error" THEN
        (IF b.t # "error" THEN Raise("type error", s)
         ELSE IF Opaque(a) \/ Opaque(b) THEN Unknown(s)
         ELSE LET r == VCmp(a, b, s) IN
              Ok(VBool(CASE op = "<" -> r.c < 0 [] op = "<=" -> r.c <= 0 [] op = ">" -> r.c > 0 [] op = ">=" -> r.c >= 0), s))
     ELSE IF ~Comparable(a) THEN (IF a.t \in {"map", "set", "fn", "builtin", "method"} THEN Raise("type error", s) ELSE Unknown(s))
     ELSE IF ~ErrFree(a, s, 6) \/ ~ErrFree(b, s, 6) THEN Unknown(s)
     ELSE LET r == VCmp(a, b, s) IN
     IF ~r.ok THEN Raise("type error", s)
     ELSE Ok(VBool(CASE op = "<" -> r.c < 0 [] op = "<=" -> r.c <= 0 [] op = ">" -> r.c > 0 [] op = ">=" -> r.c >= 0), s)
  ELSE IF Num(a) /\ Num(b) /\ (a.t = "float" \/ b.t = "float") THEN FloatOp(op, a, b, s)
  ELSE IF a.t = "int" /\ b.t = "int" THEN
     IF ~Small(a.v) \/ ~Small(b.v) THEN Unknown(s)
     ELSE CASE op = "+" -> Ok(VInt(a.v + b.v), s)
            [] op = "-" -> Ok(VInt(a.v - b.v), s)
            [] op = "*" -> IF Abs(a.v) > 1000 /\ Abs(b.v) > 1000 THEN Unknown(s) ELSE Ok(VInt(a.v * b.v), s)
            [] op = "/" -> IF b.v = 0 THEN Raise("panic", s) ELSE Ok(VInt(TruncDiv(a.v, b.v)), s)
            [] op = "%" -> IF b.v = 0 THEN Raise("panic", s) ELSE Ok(VInt(TruncMod(a.v, b.v)), s)
            [] op = "**" -> IF b.v < 0 \/ b.v > 6 \/ Abs(a.v) > 20 THEN Unknown(s) ELSE Ok(VInt(Pow(a.v, b.v)), s)
            [] op = "<<" -> IF b.v < 0 \/ b.v > 8 \/ Abs(a.v) > 10000 THEN Unknown(s) ELSE Ok(VInt(a.v * Pow2(b.v)), s)
            [] op = ">>" -> IF b.v < 0 \/ b.v > 30 THEN Unknown(s) ELSE Ok(VInt(FloorDiv(a.v, Pow2(b.v))), s)
            [] op = "&" -> IF a.v < 0 \/ b.v < 0 THEN Unknown(s) ELSE Ok(VInt(BitAnd(a.v, b.v)), s)
            [] OTHER -> Unknown(s)
  ELSE IF a.t = "str" /\ b.t = "str" THEN
     IF op = "+" THEN Ok(VStr(a.v \o b.v), s) ELSE Raise("type error", s)
  ELSE IF a.t = "list" /\ b.t = "list" THEN
     IF op = "+" THEN NewList(Items(a, s) \o Items(b, s), s) ELSE Raise("type error", s)
  ELSE IF a.t \in {"int", "float", "str", "list", "bool", "nil", "map", "fn", "builtin", "method"}
          /\ b.t \in {"int", "float", "str", "list", "bool", "nil", "map", "fn", "builtin", "set", "error", "method"}
          /\ ~(a.t = "str" /\ b.t = "int" /\ op = "*") /\ ~(a.t = "list" /\ b.t = "int" /\ op = "*")
       THEN Raise("type error", s)
  ELSE Unknown(s)

\* container membership: `x in c`
RECURSIVE SeqHas(_,_,_)
SeqHas(items, x, s) == IF Len(items) = 0 THEN FALSE ELSE VEq(Head(items), x, s) \/ SeqHas(Tail(items), x, s)
Contains(c, x, s) ==
  CASE c.t = "list" -> Ok(VBool(SeqHas(Items(c, s), x, s)), s)
    [] c.t = "str" -> Ok(VBool(x.t = "str" /\ IsSub(x.v, c.v)), s)
    [] c.t = "map" -> Ok(VBool(x.t = "str" /\ x.v \in DOMAIN MapOf(c, s)), s)
    [] c.t = "set" -> IF Hashable(x) THEN Ok(VBool(SetKey(x) \in s.heap[c.a].keys), s) ELSE Ok(VBool(FALSE), s)
    [] c.t \in {"int", "float", "bool", "nil", "fn", "builtin", "method", "error"} -> Raise("type error", s)
    [] OTHER -> Unknown(s)

ResolveIdx(i, n) == LET j == IF i < 0 THEN i + n ELSE i IN IF j < 0 \/ j >= n THEN -1 ELSE j

GetItem(c, i, s) ==
  CASE c.t = "list" -> IF i.t # "int" THEN Raise("type error", s) ELSE
         LET items == Items(c, s) j == ResolveIdx(i.v, Len(items)) IN
         IF j < 0 THEN Raise("index error", s) ELSE Ok(items[j+1], s)
    [] c.t = "str" -> IF i.t # "int" THEN Raise("type error", s) ELSE
         LET j == ResolveIdx(i.v, Len(c.v)) IN
         IF j < 0 THEN Raise("index error", s) ELSE Ok(VStr(<<c.v[j+1]>>), s)
    [] c.t = "map" -> IF i.t # "str" THEN Raise("type error", s) ELSE
         LET m == MapOf(c, s) IN IF i.v \in DOMAIN m THEN Ok(m[i.v], s) ELSE Raise("key error", s)
    [] c.t \in {"int", "float", "bool", "nil", "fn", "builtin", "method", "error"} -> Raise("type error", s)
    [] OTHER -> Unknown(s)

\* slice: lo/hi are [has, v]
SliceBounds(lo, hi, n, s) ==
  IF (lo.has /\ lo.v.t # "int") \/ (hi.has /\ hi.v.t # "int") THEN [ok |-> FALSE, kind |-> "type error"]
  ELSE LET st0 == IF lo.has THEN lo.v.v ELSE 0
           sp0 == IF hi.has THEN hi.v.v ELSE n
           st == IF st0 < 0 THEN n + st0 ELSE st0
           sp == IF sp0 < 0 THEN n + sp0 ELSE sp0
       IN IF st < 0 \/ sp < 0 \/ st > sp \/ st > n - 1 \/ sp > n THEN [ok |-> FALSE, kind |-> "slice error"]
          ELSE [ok |-> TRUE, a |-> st, b |-> sp]
GetSlice(c, lo, hi, s) ==
  CASE c.t = "list" -> LET b == SliceBounds(lo, hi, Len(Items(c, s)), s) IN
          IF ~b.ok THEN Raise(b.kind, s) ELSE NewList(SubSeq(Items(c, s), b.a + 1, b.b), s)
    [] c.t = "str" -> LET b == SliceBounds(lo, hi, Len(c.v), s) IN
          IF ~b.ok THEN Raise(b.kind, s) ELSE Ok(VStr(SubSeq(c.v, b.a + 1, b.b)), s)
    [] c.t \in {"int", "float", "bool", "nil", "fn", "builtin", "method", "error"} -> Raise("type error", s)
    [] OTHER -> Unknown(s)

SetItem(c, i, v, s) ==
  CASE c.t = "list" -> IF i.t # "int" THEN Raise("type error", s) ELSE
         LET items == Items(c, s) j == ResolveIdx(i.v, Len(items)) IN
         IF j < 0 THEN Raise("index error", s)
         ELSE Ok(VNil, [s EXCEPT !.heap[c.a].items[j+1] = v])
    [] c.t = "map" -> IF i.t # "str" THEN Raise("type error", s) ELSE
         Ok(VNil, [s EXCEPT !.heap[c.a].m = (i.v :> v) @@ @])
    [] c.t \in {"int", "float", "bool", "nil", "fn", "builtin", "method", "error"} -> Raise("type error", s)
    [] OTHER -> Unknown(s)

\* ================= text =================
RECURSIVE Show(_,_,_,_)
RECURSIVE ShowSeq(_,_,_)
RECURSIVE ShowPairs(_,_,_,_)
\* returns [ok, t]: ok = FALSE when the printed form is outside the model
Quote(cps) == <<34>> \o cps \o <<34>>
ShowSeq(xs, s, d) == IF Len(xs) = 0 THEN [ok |-> TRUE, t |-> <<>>] ELSE
   LET h == Show(Head(xs), s, FALSE, d) r == ShowSeq(Tail(xs), s, d) IN
   IF ~h.ok \/ ~r.ok THEN [ok |-> FALSE, t |-> <<>>]
   ELSE [ok |-> TRUE, t |-> IF Len(xs) = 1 THEN h.t ELSE h.t \o Cp(", ") \o r.t]
ShowPairs(ks, m, s, d) == IF Len(ks) = 0 THEN [ok |-> TRUE, t |-> <<>>] ELSE
   LET h == Show(m[Head(ks)], s, FALSE, d) r == ShowPairs(Tail(ks), m, s, d) IN
   IF ~h.ok \/ ~r.ok \/ ~Plain(Head(ks)) THEN [ok |-> FALSE, t |-> <<>>]
   ELSE [ok |-> TRUE, t |-> Quote(Head(ks)) \o Cp(": ") \o h.t \o (IF Len(ks) = 1 THEN <<>> ELSE Cp(", ") \o r.t)]
Show(v, s, top, d) ==
  IF d = 0 THEN [ok |-> FALSE, t |-> <<>>] ELSE
  CASE v.t = "int" -> [ok |-> TRUE, t |-> IntText(v.v)]
    [] v.t = "float" -> [ok |-> TRUE, t |-> FloatText(v.n)]
    [] v.t = "bool" -> [ok |-> TRUE, t |-> IF v.v THEN Cp("true") ELSE Cp("false")]
    [] v.t = "nil" -> [ok |-> TRUE, t |-> Cp("nil")]
    [] v.t = "str" -> IF top THEN [ok |-> TRUE, t |-> v.v] ELSE [ok |-> Plain(v.v), t |-> Quote(v.v)]
    [] v.t = "list" -> LET r == ShowSeq(Items(v, s), s, d - 1) IN [ok |-> r.ok, t |-> <<91>> \o r.t \o <<93>>]
    [] v.t = "set" -> LET r == ShowSeq(SetItems(v, s), s, d - 1) IN [ok |-> r.ok, t |-> <<123>> \o r.t \o <<125>>]
    [] v.t = "map" -> LET r == ShowPairs(SortKeys(DOMAIN MapOf(v, s)), MapOf(v, s), s, d - 1) IN
                       [ok |-> r.ok, t |-> <<123>> \o r.t \o <<125>>]
    [] v.t = "error" -> IF Opaque(v) THEN [ok |-> FALSE, t |-> <<>>] ELSE IF top THEN [ok |-> TRUE, t |-> v.v]
                        ELSE [ok |-> Plain(v.v), t |-> Cp("error(") \o Quote(v.v) \o <<41>>]
    [] OTHER -> [ok |-> FALSE, t |-> <<>>]

TypeName(v) == CASE v.t = "int" -> Cp("int") [] v.t = "float" -> Cp("float") [] v.t = "bool" -> Cp("bool") [] v.t = "nil" -> Cp("nil")
   [] v.t = "str" -> Cp("string") [] v.t = "list" -> Cp("list") [] v.t = "map" -> Cp("map") [] v.t = "set" -> Cp("set")
   [] v.t = "fn" -> Cp("function") [] v.t \in {"builtin", "method"} -> Cp("builtin") [] v.t = "error" -> Cp("error")
   [] OTHER -> <<63>>

\* ================= environment =================
Lookup(env, n) ==
  LET idxs == {i \in 1..Len(env): n \in DOMAIN env[i]}
  IN IF idxs = {} THEN 0 ELSE env[CHOOSE i \in idxs: \A j \in idxs: j <= i][n]
Declare(env, n, a) == [env EXCEPT ![Len(env)] = (n :> a) @@ env[Len(env)]]
Alloc(s, v) == [s EXCEPT !.store = Append(s.store, v)]
PushScope(env) == Append(env, <<>>)
Builtins == {"print", "len", "keys", "type", "string", "sorted", "reversed", "int", "bool", "list",
             "error", "try", "set", "float", "delete"}

\* ================= evaluator =================
RECURSIVE EvalE(_,_,_)
RECURSIVE EvalList(_,_,_,_)
RECURSIVE Exec(_,_,_)
RECURSIVE ExecSeq(_,_,_,_)
RECURSIVE LoopC(_,_,_,_)
RECURSIVE LoopR(_,_,_,_,_)
RECURSIVE BindParams(_,_,_,_,_)
RECURSIVE CallFn(_,_,_)
RECURSIVE SwitchCases(_,_,_,_,_)
RECURSIVE CaseExprs(_,_,_,_)
RECURSIVE BuildMap(_,_,_,_,_)
RECURSIVE RunDefers(_,_)
RECURSIVE TryArgs(_,_,_,_)
RECURSIVE MapCB(_,_,_,_,_,_,_)
RECURSIVE PipeStages(_,_,_,_)
RECURSIVE TmplParts(_,_,_,_)
RECURSIVE InsertSorted(_,_,_)
RECURSIVE SortVals(_,_)

WithEnv(r, env) == [k |-> r.k, v |-> r.v, s |-> r.s, env |-> env]

EvalList(es, env, s, acc) ==
  IF Len(es) = 0 THEN Ok(acc, s)
  ELSE LET r == EvalE(Head(es), env, s)
       IN IF r.k # "ok" THEN r ELSE EvalList(Tail(es), env, r.s, Append(acc, r.v))

\* map literal: keys and values evaluated in source order; the FIRST entry of a
\* duplicated key is the one kept (BuildMap inserts from the top of the stack down).
BuildMap(ks, vs, env, s, m) ==
  IF Len(ks) = 0 THEN NewMap(m, s)
  ELSE LET rk == EvalE(Head(ks), env, s) IN
       IF rk.k # "ok" THEN rk ELSE IF rk.v.t # "str" THEN Unknown(rk.s) ELSE
       LET r == EvalE(Head(vs), env, rk.s)
       IN IF r.k # "ok" THEN r ELSE BuildMap(Tail(ks), Tail(vs), env, r.s, m @@ (rk.v.v :> r.v))

ExecSeq(sts, env, s, last) ==
  IF Len(sts) = 0 THEN [k |-> "ok", v |-> last, s |-> s, env |-> env]
  ELSE LET r == Exec(Head(sts), env, s)
       IN IF r.k # "ok" THEN r ELSE ExecSeq(Tail(sts), r.env, r.s, r.v)

Block(sts, env, s) ==
  LET r == ExecSeq(sts, PushScope(env), s, VNil) IN [k |-> r.k, v |-> r.v, s |-> r.s]

\* params: sequence of [n, hasdef, def]; missing trailing args are filled from defaults
BindParams(ps, args, env, s, i) ==
  IF i > Len(ps) THEN [env |-> env, s |-> s]
  ELSE LET v == IF i <= Len(args) THEN args[i] ELSE ps[i].def
           s2 == Alloc(s, v)
       IN BindParams(ps, args, Declare(env, ps[i].n, Len(s2.store)), s2, i + 1)

Required(ps) == Cardinality({i \in 1..Len(ps): ~ps[i].hasdef})
LitVal(d) == CASE d.k = "int" -> VInt(d.v) [] d.k = "bool" -> VBool(d.v) [] d.k = "str" -> VStr(d.v) [] OTHER -> VNil

\* insertion sort = stable sort by VCmp; returns [ok, v]
InsertSorted(x, sorted, s) ==
  IF Len(sorted) = 0 THEN [ok |-> TRUE, v |-> <<x>>]
  ELSE LET c == VCmp(x, Head(sorted), s) IN
       IF ~c.ok THEN [ok |-> FALSE, v |-> <<>>]
       ELSE IF c.c < 0 THEN [ok |-> TRUE, v |-> <<x>> \o sorted]
       ELSE LET r == InsertSorted(x, Tail(sorted), s) IN [ok |-> r.ok, v |-> <<Head(sorted)>> \o r.v]
SortVals(xs, s) ==   \* stable: the last element goes after all elements <= it
  IF Len(xs) = 0 THEN [ok |-> TRUE, v |-> <<>>]
  ELSE LET r == SortVals(SubSeq(xs, 1, Len(xs) - 1), s) IN
       IF ~r.ok THEN r ELSE InsertSorted(xs[Len(xs)], r.v, s)

SameTypeAll(xs) == \A i \in 1..Len(xs): xs[i].t = xs[1].t

StrOfVal(v, s) ==   \* string(x)
  IF v.t = "str" THEN [ok |-> TRUE, t |-> v.v] ELSE Show(v, s, TRUE, 6)

CallBuiltin(n, args, s) ==
  CASE n = "print" ->
          LET RECURSIVE Parts(_)
              Parts(xs) == IF Len(xs) = 0 THEN [ok |-> TRUE, t |-> <<>>] ELSE
                 LET h == Show(Head(xs), s, TRUE, 6) r == Parts(Tail(xs)) IN
                 IF ~h.ok \/ ~r.ok THEN [ok |-> FALSE, t |-> <<>>]
                 ELSE [ok |-> TRUE, t |-> IF Len(xs) = 1 THEN h.t ELSE h.t \o <<32>> \o r.t]
              p == Parts(args)
          IN IF ~p.ok THEN Unknown(s) ELSE Ok(VNil, [s EXCEPT !.out = @ \o p.t \o <<10>>])
    \* delete(m, key): removes the entry if there is one; only maps are modelled (lists: outside the model)
    [] n = "delete" -> IF Len(args) # 2 THEN Raise("args error", s)
                       ELSE IF args[1].t = "map" THEN
                              (IF args[2].t # "str" THEN Raise("type error", s)
                               ELSE LET m == MapOf(args[1], s) IN
                                    Ok(VNil, [s EXCEPT !.heap[args[1].a].m = [q \in DOMAIN m \ {args[2].v} |-> m[q]]]))
                       ELSE IF args[1].t \in {"int", "bool", "nil", "str", "float", "fn", "builtin", "error"} THEN Raise("type error", s)
                       ELSE Unknown(s)
    [] n = "len" -> IF Len(args) # 1 THEN Raise("args error", s)
                    ELSE CASE args[1].t = "list" -> Ok(VInt(Len(Items(args[1], s))), s)
                           [] args[1].t = "str" -> Ok(VInt(Len(args[1].v)), s)
                           [] args[1].t = "map" -> Ok(VInt(Cardinality(DOMAIN MapOf(args[1], s))), s)
                           [] args[1].t = "set" -> Ok(VInt(Cardinality(s.heap[args[1].a].keys)), s)
                           [] args[1].t \in {"int", "float", "bool", "nil", "fn", "builtin", "method", "error"} -> Raise("type error", s)
                           [] OTHER -> Unknown(s)
    [] n = "keys" -> IF Len(args) # 1 THEN Raise("args error", s)
                     ELSE CASE args[1].t = "map" -> LET ks == SortKeys(DOMAIN MapOf(args[1], s)) IN
                                     NewList([i \in 1..Len(ks) |-> VStr(ks[i])], s)
                            [] args[1].t = "list" -> NewList([i \in 1..Len(Items(args[1], s)) |-> VInt(i-1)], s)
                            [] args[1].t = "set" -> NewList(SetItems(args[1], s), s)
                            [] args[1].t \in {"float", "bool", "nil", "fn", "builtin", "method", "error"} -> Raise("type error", s)
                            [] OTHER -> Unknown(s)
    [] n = "type" -> IF Len(args) # 1 THEN Raise("args error", s) ELSE Ok(VStr(TypeName(args[1])), s)
    [] n = "string" -> IF Len(args) > 1 THEN Raise("args error", s)
                       ELSE IF Len(args) = 0 THEN Ok(VStr(<<>>), s)
                       ELSE LET r == StrOfVal(args[1], s) IN IF r.ok THEN Ok(VStr(r.t), s) ELSE Unknown(s)
    [] n = "bool" -> IF Len(args) > 1 THEN Raise("args error", s)
                     ELSE IF Len(args) = 0 THEN Ok(VBool(FALSE), s) ELSE Ok(VBool(Truthy(args[1], s)), s)
    [] n = "int" -> IF Len(args) > 1 THEN Raise("args error", s)
                    ELSE IF Len(args) = 0 THEN Ok(VInt(0), s)
                    ELSE IF args[1].t = "int" THEN Ok(args[1], s)
                    ELSE IF args[1].t = "float" THEN Ok(VInt(TruncDiv(args[1].n, 8)), s)   \* towards zero
                    ELSE IF args[1].t \in {"bool", "nil", "list", "map", "set", "fn", "builtin", "method", "error"} THEN Raise("type error", s)
                    ELSE Unknown(s)
    [] n = "float" -> IF Len(args) > 1 THEN Raise("args error", s)
                      ELSE IF Len(args) = 0 THEN Ok(VFloat(0), s)
                      ELSE IF args[1].t = "float" THEN Ok(args[1], s)
                      ELSE IF args[1].t = "int" THEN (IF Abs(args[1].v) <= 4096 THEN Ok(VFloat(8 * args[1].v), s) ELSE Unknown(s))
                      ELSE IF args[1].t \in {"bool", "nil", "list", "map", "set", "fn", "builtin", "method", "error"} THEN Raise("type error", s)
                      ELSE Unknown(s)
    [] n = "list" -> IF Len(args) > 1 THEN Raise("args error", s)
                     ELSE IF Len(args) = 0 THEN NewList(<<>>, s)
                     ELSE CASE args[1].t = "list" -> NewList(Items(args[1], s), s)
                            [] args[1].t = "set" -> NewList(SetItems(args[1], s), s)
                            [] args[1].t = "int" -> IF args[1].v < 0 THEN Raise("value error", s)
                                                    ELSE IF args[1].v > 20 THEN Unknown(s)
                                                    ELSE NewList([i \in 1..args[1].v |-> VNil], s)
                            [] args[1].t \in {"float", "bool", "nil", "fn", "builtin", "method", "error"} -> Raise("type error", s)
                            [] OTHER -> Unknown(s)
    [] n = "sorted" -> IF Len(args) < 1 \/ Len(args) > 2 THEN Raise("args error", s)
                       ELSE IF Len(args) = 2 THEN
                            \* comparator form: modelled for lists of at most two elements (exactly one comparison,
                            \* less(second, first)); which pairs a longer sort compares is the library's choice
                            IF args[1].t # "list" \/ args[2].t # "fn" \/ Len(Items(args[1], s)) > 2 THEN Unknown(s)
                            ELSE LET xs == Items(args[1], s) IN
                                 IF Len(xs) < 2 THEN NewList(xs, s)
                                 ELSE LET r == CallFn(args[2], <<xs[2], xs[1]>>, s) IN
                                      IF r.k = "raise" THEN Demote(r)
                                      ELSE IF r.k # "ok" THEN Unknown(r.s)
                                      ELSE NewList(IF Truthy(r.v, r.s) THEN <<xs[2], xs[1]>> ELSE xs, r.s)
                       ELSE CASE args[1].t \in {"list", "set"} ->
                                   LET xs == IF args[1].t = "list" THEN Items(args[1], s) ELSE SetItems(args[1], s) IN
                                   IF \E i \in 1..Len(xs): ~ErrFree(xs[i], s, 6) THEN Unknown(s)
                                   ELSE IF \E i \in 1..Len(xs): ~Comparable(xs[i]) THEN (IF Len(xs) < 2 THEN NewList(xs, s) ELSE Raise("anyerror", s))
                                   ELSE LET r == SortVals(xs, s) IN IF r.ok THEN NewList(r.v, s) ELSE Raise("anyerror", s)
                              [] args[1].t = "map" -> LET ks == SortKeys(DOMAIN MapOf(args[1], s)) IN
                                     NewList([i \in 1..Len(ks) |-> VStr(ks[i])], s)
                              [] args[1].t = "str" -> LET r == SortVals([i \in 1..Len(args[1].v) |-> VStr(<<args[1].v[i]>>)], s) IN NewList(r.v, s)
                              [] args[1].t \in {"int", "float", "bool", "nil", "fn", "builtin", "method", "error"} -> Raise("type error", s)
                              [] OTHER -> Unknown(s)
    [] n = "reversed" -> IF Len(args) # 1 THEN Raise("args error", s)
                         ELSE CASE args[1].t = "list" -> NewList(Rev(Items(args[1], s)), s)
                                [] args[1].t = "str" -> Ok(VStr(Rev(args[1].v)), s)
                                [] args[1].t \in {"int", "float", "bool", "nil", "fn", "builtin", "method", "error", "map", "set"} -> Raise("type error", s)
                                [] OTHER -> Unknown(s)
    [] n = "error" -> IF Len(args) < 1 THEN Raise("args error", s)
                      ELSE IF args[1].t = "str" THEN
                           (IF Len(args) > 1 \/ \E i \in 1..Len(args[1].v): args[1].v[i] = 37 THEN Unknown(s)
                            ELSE RaiseMsg("user", args[1].v, s))
                      ELSE IF args[1].t = "error" THEN RaiseMsg("user", args[1].v, s)
                      ELSE Raise("type error", s)
    [] n = "set" -> IF Len(args) > 1 THEN Raise("args error", s)
                    ELSE IF Len(args) = 0 THEN NewSet({}, s)
                    ELSE IF args[1].t = "list" /\ \A i \in 1..Len(Items(args[1], s)): Hashable(Items(args[1], s)[i])
                         THEN NewSet({SetKey(Items(args[1], s)[i]): i \in 1..Len(Items(args[1], s))}, s)
                    ELSE Unknown(s)
    [] OTHER -> Unknown(s)

\* list.map / filter / each: callback receives (value) or (index, value).  The builtin walks the list's storage as it
\* was when the call began (`for i, value := range ls.items`): as many steps as the list had items then (n), each item
\* READ when its step comes - a callback that assigns to an element not yet reached is seen; a callback that changes
\* the LENGTH of the list may move it to other storage, which is outside the model
MapCB(kind, f, self, n, i, s, acc) ==
  IF i > n THEN
     (IF kind = "each" THEN Ok(VNil, s) ELSE NewList(acc, s))
  ELSE LET items == Items(self, s) IN
       IF Len(items) # n THEN Unknown(s)
  ELSE LET np == Len(f.params)
           \* only map passes (index, value) to a two-parameter callback
           cargs == IF kind = "map" /\ np = 2 THEN <<VInt(i - 1), items[i]>> ELSE <<items[i]>>
           r == CallFn(f, cargs, s) IN
       IF r.k = "unknown" THEN r
       ELSE IF r.k # "ok" THEN (IF r.k = "raise" THEN Demote(r) ELSE Unknown(r.s))
       ELSE IF r.v.t = "error" THEN Unknown(r.s)
       ELSE MapCB(kind, f, self, n, i + 1, r.s,
                  IF kind = "map" THEN Append(acc, r.v)
                  ELSE IF kind = "filter" /\ Truthy(r.v, r.s) THEN Append(acc, items[i]) ELSE acc)

CallMethod(m, args, s) ==
  LET self == m.self IN
  IF self.t = "list" THEN
    LET items == Items(self, s) IN
    CASE m.n = "append" -> IF Len(args) # 1 THEN Raise("args error", s)
                           ELSE Ok(self, [s EXCEPT !.heap[self.a].items = Append(@, args[1])])
      [] m.n = "pop" -> IF Len(args) # 1 THEN Raise("args error", s)
                        ELSE IF args[1].t # "int" THEN Raise("type error", s)
                        ELSE LET j == ResolveIdx(args[1].v, Len(items)) IN
                             IF j < 0 THEN Raise("anyerror", s)
                             ELSE Ok(items[j+1], [s EXCEPT !.heap[self.a].items = SubSeq(items, 1, j) \o SubSeq(items, j+2, Len(items))])
      [] m.n = "extend" -> IF Len(args) # 1 THEN Raise("args error", s)
                           ELSE IF args[1].t # "list" THEN Raise("type error", s)
                           ELSE Ok(self, [s EXCEPT !.heap[self.a].items = @ \o Items(args[1], s)])
      [] m.n = "reverse" -> IF Len(args) # 0 THEN Raise("args error", s)
                            ELSE Ok(self, [s EXCEPT !.heap[self.a].items = Rev(@)])
      [] m.n = "index" -> IF Len(args) # 1 THEN Raise("args error", s)
                          ELSE LET hits == {i \in 1..Len(items): VEq(items[i], args[1], s)} IN
                               IF hits = {} THEN Ok(VInt(-1), s) ELSE Ok(VInt((CHOOSE i \in hits: \A j \in hits: i <= j) - 1), s)
      [] m.n \in {"map", "filter", "each"} ->
            IF Len(args) # 1 THEN Raise("args error", s)
            ELSE IF args[1].t # "fn" THEN (IF args[1].t \in {"builtin", "method"} THEN Unknown(s) ELSE Raise("type error", s))
            ELSE IF m.n = "map" /\ (Len(args[1].params) < 1 \/ Len(args[1].params) > 2) THEN Raise("type error", s)
            ELSE MapCB(m.n, args[1], self, Len(items), 1, s, <<>>)
      [] OTHER -> Unknown(s)
  ELSE IF self.t = "map" THEN
    LET mm == MapOf(self, s) IN
    CASE m.n = "keys" -> IF Len(args) # 0 THEN Raise("args error", s)
                         ELSE LET ks == SortKeys(DOMAIN mm) IN NewList([i \in 1..Len(ks) |-> VStr(ks[i])], s)
      [] m.n = "values" -> IF Len(args) # 0 THEN Raise("args error", s)
                           ELSE LET ks == SortKeys(DOMAIN mm) IN NewList([i \in 1..Len(ks) |-> mm[ks[i]]], s)
      [] m.n = "copy" -> IF Len(args) # 0 THEN Raise("args error", s) ELSE NewMap(mm, s)
      [] m.n = "get" -> IF Len(args) < 1 \/ Len(args) > 2 THEN Raise("args error", s)
                        ELSE IF args[1].t # "str" THEN Raise("type error", s)
                        ELSE IF args[1].v \in DOMAIN mm THEN Ok(mm[args[1].v], s)
                        ELSE IF Len(args) = 2 THEN Ok(args[2], s) ELSE Ok(VNil, s)
      [] OTHER -> Unknown(s)
  ELSE IF self.t = "str" THEN
    CASE m.n = "to_upper" -> IF Len(args) # 0 THEN Raise("args error", s)
                             ELSE IF ~Ascii(self.v) THEN Unknown(s) ELSE Ok(VStr([i \in 1..Len(self.v) |-> Upper(self.v[i])]), s)
      [] m.n = "to_lower" -> IF Len(args) # 0 THEN Raise("args error", s)
                             ELSE IF ~Ascii(self.v) THEN Unknown(s) ELSE Ok(VStr([i \in 1..Len(self.v) |-> Lower(self.v[i])]), s)
      [] m.n = "contains" -> IF Len(args) # 1 THEN Raise("args error", s)
                             ELSE IF args[1].t # "str" THEN Ok(VBool(FALSE), s)
                             ELSE Ok(VBool(IsSub(args[1].v, self.v)), s)
      [] OTHER -> Unknown(s)
  ELSE Unknown(s)

\* deferred calls of the innermost active call, last registered first; an error
\* raised by a deferred call replaces the call's outcome.
RunDefers(ds, r) ==
  IF Len(ds) = 0 THEN r
  ELSE LET d == ds[Len(ds)]
           rd == CallFn(d.f, d.args, r.s) IN
       IF rd.k = "unknown" THEN Unknown(rd.s)
       \* (not when the call is ending with a recovered Go panic - integer division by zero, ... : the deferred calls
       \*  still run, with their effects, but the panic stays the outcome)
       ELSE IF rd.k = "raise" /\ r.k = "raise" /\ r.v.kind = "panic"
            THEN RunDefers(SubSeq(ds, 1, Len(ds) - 1), [k |-> r.k, v |-> r.v, s |-> rd.s])
       ELSE IF rd.k = "raise" THEN RunDefers(SubSeq(ds, 1, Len(ds) - 1), rd)
       ELSE IF rd.k # "ok" THEN Unknown(rd.s)
       ELSE RunDefers(SubSeq(ds, 1, Len(ds) - 1), [k |-> r.k, v |-> r.v, s |-> rd.s])

\* try(a1, a2, ...): first non-raising result; each function receives the previous error
\* (non-raised) if it has parameters; fatal errors propagate.
TryArgs(args, i, last, s) ==
  IF i > Len(args) THEN Ok(VNil, s)
  ELSE LET a == args[i] IN
       IF a.t = "fn" THEN
          LET cargs == IF Len(a.params) > 0 /\ last.t = "error" THEN <<last>> ELSE <<>>
              r == CallFn(a, cargs, s) IN
          IF r.k = "ok" THEN r
          ELSE IF r.k = "raise" THEN
               (IF r.v.fatal THEN r
                ELSE IF r.v.kind # "user" THEN
                     \* the error message text of built-in errors is not modelled
                     TryArgs(args, i + 1, [t |-> "error", v |-> <<63>>, raised |-> FALSE, opaque |-> TRUE], r.s)
                ELSE TryArgs(args, i + 1, VErr(r.v.msg, FALSE), r.s))
          ELSE Unknown(r.s)
       ELSE IF a.t \in {"builtin", "method"} THEN Unknown(s)
       ELSE Ok(a, s)

PipeStages(stages, i, val, sx) ==   \* sx = [env, s]
  IF i > Len(stages) THEN Ok(val, sx.s)
  ELSE LET st == stages[i] IN
       \* a stage that is a call expression f(a, b) receives the piped value as first argument
       IF st.k = "call" THEN
          LET rf == EvalE(st.f, sx.env, sx.s) IN IF rf.k # "ok" THEN rf ELSE
          LET ra == EvalList(st.args, sx.env, rf.s, <<>>) IN IF ra.k # "ok" THEN ra ELSE
          LET r == CallFn(rf.v, <<val>> \o ra.v, ra.s) IN
          IF r.k # "ok" THEN r ELSE PipeStages(stages, i + 1, r.v, [env |-> sx.env, s |-> r.s])
       ELSE
          LET rf == EvalE(st, sx.env, sx.s) IN IF rf.k # "ok" THEN rf ELSE
          LET r == CallFn(rf.v, <<val>>, rf.s) IN
          IF r.k # "ok" THEN r ELSE PipeStages(stages, i + 1, r.v, [env |-> sx.env, s |-> r.s])

TmplParts(parts, env, s, acc) ==
  IF Len(parts) = 0 THEN Ok(VStr(acc), s)
  ELSE LET p == Head(parts) IN
       IF p.k = "lit" THEN TmplParts(Tail(parts), env, s, acc \o p.v)
       ELSE IF p.e.k = "nilnode" THEN TmplParts(Tail(parts), env, s, acc)      \* the empty interpolation '{}' adds nothing
       ELSE LET r == EvalE(p.e, env, s) IN
            IF r.k # "ok" THEN r
            ELSE IF r.v.t = "error" THEN Unknown(r.s)
            ELSE LET t == Show(r.v, r.s, TRUE, 6) IN
                 IF ~t.ok THEN Unknown(r.s) ELSE TmplParts(Tail(parts), env, r.s, acc \o t.t)

CallFn(f, args, s) ==
  IF f.t = "builtin" THEN
     (IF f.n = "try" THEN (IF Len(args) < 1 THEN Raise("args error", s) ELSE TryArgs(args, 1, VNil, s))
      ELSE CallBuiltin(f.n, args, s))
  ELSE IF f.t = "method" THEN CallMethod(f, args, s)
  ELSE IF f.t # "fn" THEN (IF f.t \in {"int", "bool", "nil", "str", "list", "map", "set", "error"} THEN Raise("type error", s) ELSE Unknown(s))
  ELSE IF Len(args) > Len(f.params) \/ Len(args) < Required(f.params) THEN Raise("args error", s)
  ELSE IF s.depth > MAXDEPTH THEN Unknown(s)
  ELSE LET b0 == BindParams(f.params, args, PushScope(f.env), s, 1)
           \* named function: its own name is bound in the parameter scope
           s1 == IF f.name = "" THEN b0.s ELSE Alloc(b0.s, f)
           env1 == IF f.name = "" THEN b0.env ELSE Declare(b0.env, f.name, Len(s1.store))
           r0 == ExecSeq(f.body, PushScope(env1), [s1 EXCEPT !.depth = @ + 1, !.dstack = Append(@, <<>>)], VNil)
           ds == r0.s.dstack[Len(r0.s.dstack)]
           sPop == [r0.s EXCEPT !.depth = @ - 1, !.dstack = SubSeq(@, 1, Len(@) - 1)]
           r1 == IF r0.k \in {"return", "ok"} THEN Ok(r0.v, sPop)
                 ELSE IF r0.k \in {"raise", "unknown"} THEN [k |-> r0.k, v |-> r0.v, s |-> sPop]
                 ELSE Unknown(sPop)
       IN IF r1.k = "unknown" THEN r1 ELSE RunDefers(ds, r1)

Attr(obj, name, ncps, s) ==
  CASE obj.t = "list" -> IF name \in {"append", "pop", "extend", "reverse", "index", "map", "filter", "each"} THEN Ok(VMeth(name, obj), s) ELSE Unknown(s)
    [] obj.t = "map" -> IF ncps \in DOMAIN MapOf(obj, s) THEN Ok(MapOf(obj, s)[ncps], s)
                        ELSE IF name \in {"keys", "values", "copy", "get"} THEN Ok(VMeth(name, obj), s)
                        ELSE IF name \in {"a", "b", "c", "z"} THEN Raise("type error", s)
                        ELSE Unknown(s)
    [] obj.t = "str" -> IF name \in {"to_upper", "to_lower", "contains"} THEN Ok(VMeth(name, obj), s)
                        ELSE IF name \in {"a", "b", "c", "append", "keys"} THEN Raise("type error", s) ELSE Unknown(s)
    [] obj.t \in {"int", "bool", "nil"} -> IF name \in {"a", "b", "c", "append", "keys"} THEN Raise("type error", s) ELSE Unknown(s)
    [] OTHER -> Unknown(s)

CaseExprs(es, subj, env, s) ==   \* returns [k, v (matched BOOLEAN), s]
  IF Len(es) = 0 THEN Ok(FALSE, s)
  ELSE LET r == EvalE(Head(es), env, s) IN
       IF r.k # "ok" THEN r
       ELSE IF ~EqKnown(subj, r.v) THEN Unknown(r.s)
       ELSE IF VEq(subj, r.v, r.s) THEN Ok(TRUE, r.s) ELSE CaseExprs(Tail(es), subj, env, r.s)

\* find the first matching case: returns [k, v (index or 0), s]
SwitchCases(cases, i, subj, env, s) ==
  IF i > Len(cases) THEN Ok(0, s)
  ELSE IF cases[i].isdefault THEN SwitchCases(cases, i + 1, subj, env, s)
  ELSE LET r == CaseExprs(cases[i].exprs, subj, env, s) IN
       IF r.k # "ok" THEN r ELSE IF r.v THEN Ok(i, r.s) ELSE SwitchCases(cases, i + 1, subj, env, r.s)

CaseBody(b, env, s) == IF Len(b) = 0 THEN Ok(VNil, s) ELSE Block(b, env, s)

EvalE(e, env, s) ==
  CASE e.k = "int" -> Ok(VInt(e.v), s)
    \* a float literal carries n8 = eight times its value when that is a small integer
    [] e.k = "float" -> IF "n8" \in DOMAIN e /\ Abs(e.n8) <= FBIG THEN Ok(VFloat(e.n8), s) ELSE Unknown(s)
    [] e.k = "bool" -> Ok(VBool(e.v), s)
    [] e.k = "nil" -> Ok(VNil, s)
    [] e.k = "str" -> Ok(VStr(e.v), s)
    [] e.k = "tmpl" -> TmplParts(e.parts, env, s, <<>>)
    [] e.k = "id" -> LET a == Lookup(env, e.n) IN
          IF a = 0 THEN (IF e.n \in Builtins THEN Ok(VBuiltin(e.n), s) ELSE Unknown(s))
          \* a top-level function name read before its definition has executed holds no value yet: outside the model
          ELSE IF s.store[a].t = "unset" THEN Unknown(s) ELSE Ok(s.store[a], s)
    [] e.k = "bin" -> LET ra == EvalE(e.a, env, s) IN
          IF ra.k # "ok" THEN ra ELSE
          LET rb == EvalE(e.b, env, ra.s) IN
          IF rb.k # "ok" THEN rb ELSE BinOp(e.op, ra.v, rb.v, rb.s)
    [] e.k = "and" -> LET ra == EvalE(e.a, env, s) IN
          IF ra.k # "ok" THEN ra ELSE IF ~Truthy(ra.v, ra.s) THEN ra ELSE EvalE(e.b, env, ra.s)
    [] e.k = "or" -> LET ra == EvalE(e.a, env, s) IN
          IF ra.k # "ok" THEN ra ELSE IF Truthy(ra.v, ra.s) THEN ra ELSE EvalE(e.b, env, ra.s)
    [] e.k = "not" -> LET ra == EvalE(e.a, env, s) IN
          IF ra.k # "ok" THEN ra ELSE Ok(VBool(~Truthy(ra.v, ra.s)), ra.s)
    [] e.k = "neg" -> LET ra == EvalE(e.a, env, s) IN
          IF ra.k # "ok" THEN ra ELSE IF ra.v.t = "int" THEN Ok(VInt(-ra.v.v), ra.s)
          ELSE IF ra.v.t = "float" THEN (IF ra.v.n = 0 THEN Unknown(ra.s) ELSE Ok(VFloat(-ra.v.n), ra.s))
          ELSE Raise("type error", ra.s)
    [] e.k = "tern" -> LET rc == EvalE(e.c, env, s) IN
          IF rc.k # "ok" THEN rc ELSE IF Truthy(rc.v, rc.s) THEN EvalE(e.a, env, rc.s) ELSE EvalE(e.b, env, rc.s)
    [] e.k = "in" -> LET rc == EvalE(e.b, env, s) IN   \* container first, then item
          IF rc.k # "ok" THEN rc ELSE
          LET rx == EvalE(e.a, env, rc.s) IN
          IF rx.k # "ok" THEN rx ELSE
          LET r == Contains(rc.v, rx.v, rx.s) IN
          IF r.k # "ok" \/ ~e.neg THEN r ELSE Ok(VBool(~r.v.v), r.s)
    [] e.k = "list" -> LET r == EvalList(e.items, env, s, <<>>) IN
          IF r.k # "ok" THEN r ELSE NewList(r.v, r.s)
    [] e.k = "set" -> LET r == EvalList(e.items, env, s, <<>>) IN
          IF r.k # "ok" THEN r
          ELSE IF \E i \in 1..Len(r.v): ~Hashable(r.v[i]) THEN Unknown(r.s)
          ELSE NewSet({SetKey(r.v[i]): i \in 1..Len(r.v)}, r.s)
    [] e.k = "map" -> BuildMap(e.keys, e.vals, env, s, <<>>)
    [] e.k = "idx" -> LET ra == EvalE(e.a, env, s) IN
          IF ra.k # "ok" THEN ra ELSE
          LET rb == EvalE(e.b, env, ra.s) IN
          IF rb.k # "ok" THEN rb ELSE GetItem(ra.v, rb.v, rb.s)
    [] e.k = "slice" -> LET ra == EvalE(e.a, env, s) IN
          IF ra.k # "ok" THEN ra ELSE
          LET rl == IF e.haslo THEN EvalE(e.lo, env, ra.s) ELSE Ok(VNil, ra.s) IN
          IF rl.k # "ok" THEN rl ELSE
          LET rh == IF e.hashi THEN EvalE(e.hi, env, rl.s) ELSE Ok(VNil, rl.s) IN
          IF rh.k # "ok" THEN rh ELSE
          GetSlice(ra.v, [has |-> e.haslo, v |-> rl.v], [has |-> e.hashi, v |-> rh.v], rh.s)
    [] e.k = "attr" -> LET ra == EvalE(e.a, env, s) IN
          IF ra.k # "ok" THEN ra ELSE Attr(ra.v, e.n, e.ncps, ra.s)
    [] e.k = "call" -> LET rf == EvalE(e.f, env, s) IN
          IF rf.k # "ok" THEN rf ELSE
          LET rargs == EvalList(e.args, env, rf.s, <<>>) IN
          IF rargs.k # "ok" THEN rargs ELSE CallFn(rf.v, rargs.v, rargs.s)
    [] e.k = "pipe" -> LET r0 == EvalE(e.stages[1], env, s) IN
          IF r0.k # "ok" THEN r0 ELSE PipeStages(e.stages, 2, r0.v, [env |-> env, s |-> r0.s])
    [] e.k = "func" ->
          LET ps == [i \in 1..Len(e.params) |-> [n |-> e.params[i].n, hasdef |-> e.params[i].hasdef, def |-> LitVal(e.params[i].def)]]
              s2 == [s EXCEPT !.nfn = @ + 1]
          IN Ok([t |-> "fn", id |-> s2.nfn, params |-> ps, body |-> e.body, env |-> env, name |-> e.name], s2)
    [] e.k = "if" -> LET rc == EvalE(e.c, env, s) IN
          IF rc.k # "ok" THEN rc ELSE
          IF Truthy(rc.v, rc.s) THEN CaseBody(e.t, env, rc.s)
          ELSE IF ~e.haselse THEN Ok(VNil, rc.s) ELSE CaseBody(e.e, env, rc.s)
    [] e.k = "switch" -> LET rs == EvalE(e.subj, env, s) IN
          IF rs.k # "ok" THEN rs ELSE
          LET m == SwitchCases(e.cases, 1, rs.v, env, rs.s) IN
          IF m.k # "ok" THEN m
          ELSE IF m.v > 0 THEN CaseBody(e.cases[m.v].body, env, m.s)
          ELSE LET ds == {i \in 1..Len(e.cases): e.cases[i].isdefault} IN
               IF ds = {} THEN Ok(VNil, m.s) ELSE CaseBody(e.cases[CHOOSE i \in ds: TRUE].body, env, m.s)
    [] OTHER -> Unknown(s)

\* condition-style loop: for init; cond; post  /  for cond  /  for {}
LoopC(st, env, s, fuel) ==
  IF fuel = 0 THEN WithEnv(Unknown(s), env)
  ELSE LET rc == IF st.hascond THEN EvalE(st.cond, env, s) ELSE Ok(VBool(TRUE), s) IN
    IF rc.k # "ok" THEN WithEnv(rc, env)
    ELSE IF ~Truthy(rc.v, rc.s) THEN WithEnv(Ok(VNil, rc.s), env)
    ELSE LET rb == Block(st.body, env, rc.s) IN
      IF rb.k = "break" THEN WithEnv(Ok(VNil, rb.s), env)
      ELSE IF rb.k \in {"ok", "continue"} THEN
         LET rp == IF Len(st.post) = 0 THEN [k |-> "ok", v |-> VNil, s |-> rb.s, env |-> env]
                   ELSE Exec(st.post[1], env, rb.s)
         IN IF rp.k # "ok" THEN WithEnv(rp, env) ELSE LoopC(st, env, rp.s, fuel - 1)
      ELSE WithEnv(rb, env)

\* iteration entries: lists are live (re-read each step), maps/sets/strings iterate a snapshot
EntryAt(c, pos, snap, s) ==    \* returns [ok, key, val]; pos is 0-based
  CASE c.t = "list" -> LET items == Items(c, s) IN
          IF pos >= Len(items) THEN [ok |-> FALSE] ELSE [ok |-> TRUE, key |-> VInt(pos), val |-> items[pos+1]]
    [] c.t = "int" -> IF pos >= Abs(c.v) THEN [ok |-> FALSE]   \* a negative count runs 0, -1, ... (object.IntIter)
                     ELSE [ok |-> TRUE, key |-> VInt(pos), val |-> VInt(IF c.v < 0 THEN 0 - pos ELSE pos)]
    [] c.t = "str" -> IF pos >= Len(c.v) THEN [ok |-> FALSE] ELSE [ok |-> TRUE, key |-> VInt(pos), val |-> VStr(<<c.v[pos+1]>>)]
    [] c.t = "map" -> IF pos >= Len(snap) THEN [ok |-> FALSE]
          ELSE IF snap[pos+1] \notin DOMAIN MapOf(c, s) THEN [ok |-> TRUE, key |-> VUnset, val |-> VUnset]
          ELSE [ok |-> TRUE, key |-> VStr(snap[pos+1]), val |-> MapOf(c, s)[snap[pos+1]]]
    [] c.t = "set" -> IF pos >= Len(snap) THEN [ok |-> FALSE]
          ELSE [ok |-> TRUE, key |-> snap[pos+1], val |-> VBool(TRUE)]

LoopR(st, c, env, spos, fuel) ==   \* spos = [s, pos, snap, addrs]
  LET s == spos.s IN
  IF fuel = 0 THEN WithEnv(Unknown(s), env)
  ELSE LET en == EntryAt(c, spos.pos, spos.snap, s) IN
    IF ~en.ok THEN WithEnv(Ok(VNil, s), env)
    ELSE IF en.key.t = "unset" THEN WithEnv(Raise("panic", s), env)
    ELSE LET n == Len(st.vars)
             s1 == IF st.style = "in" THEN [s EXCEPT !.store[spos.addrs[1]] = en.val]
                   ELSE IF n = 1 THEN [s EXCEPT !.store[spos.addrs[1]] = en.key]
                   ELSE IF n = 2 THEN [s EXCEPT !.store[spos.addrs[1]] = en.key, !.store[spos.addrs[2]] = en.val]
                   ELSE s
             rb == Block(st.body, env, s1)
         IN IF rb.k = "break" THEN WithEnv(Ok(VNil, rb.s), env)
            ELSE IF rb.k \in {"ok", "continue"} THEN LoopR(st, c, env, [spos EXCEPT !.s = rb.s, !.pos = @ + 1], fuel - 1)
            ELSE WithEnv(rb, env)

AssignOp(op, old, v, s) ==
  CASE op = "=" -> Ok(v, s)
    [] op = "+=" -> BinOp("+", old, v, s)
    [] op = "-=" -> BinOp("-", old, v, s)
    [] op = "*=" -> BinOp("*", old, v, s)
    [] op = "/=" -> BinOp("/", old, v, s)

StOk(s, env) == [k |-> "ok", v |-> VNil, s |-> s, env |-> env]

Exec(st, env, s) ==
  CASE st.k \in {"var", "const"} -> LET r == EvalE(st.e, env, s) IN
          IF r.k # "ok" THEN WithEnv(r, env)
          ELSE LET s2 == Alloc(r.s, r.v) IN StOk(s2, Declare(env, st.n, Len(s2.store)))
    [] st.k = "multivar" -> LET r == EvalE(st.e, env, s) IN
          IF r.k # "ok" THEN WithEnv(r, env)
          ELSE IF r.v.t # "list" THEN
               (IF r.v.t \in {"int", "bool", "nil", "fn", "builtin", "method", "error"} THEN WithEnv(Raise("type error", r.s), env)
                ELSE WithEnv(Unknown(r.s), env))
          ELSE LET items == Items(r.v, r.s) IN
               IF Len(items) # Len(st.ns) THEN WithEnv(Raise("anyerror", r.s), env)
               ELSE IF st.decl THEN
                    LET RECURSIVE Decl(_,_,_)
                        Decl(i, e2, s2) == IF i > Len(st.ns) THEN StOk(s2, e2)
                             ELSE LET s3 == Alloc(s2, items[i]) IN Decl(i + 1, Declare(e2, st.ns[i], Len(s3.store)), s3)
                    IN Decl(1, env, r.s)
               ELSE IF \E i \in 1..Len(st.ns): Lookup(env, st.ns[i]) = 0 THEN WithEnv(Unknown(r.s), env)
               ELSE StOk([r.s EXCEPT !.store = [a \in DOMAIN @ |->
                          IF \E i \in 1..Len(st.ns): Lookup(env, st.ns[i]) = a
                          THEN items[CHOOSE i \in 1..Len(st.ns): Lookup(env, st.ns[i]) = a /\ \A j \in 1..Len(st.ns): Lookup(env, st.ns[j]) = a => j >= i]
                          ELSE @[a]]], env)
    [] st.k = "assign" ->   \* name target
          LET a == Lookup(env, st.n) IN
          IF a = 0 THEN WithEnv(Unknown(s), env) ELSE
          LET old == IF st.op = "=" THEN VNil ELSE s.store[a]   \* LHS loaded before RHS evaluated
              r == EvalE(st.e, env, s) IN
          IF r.k # "ok" THEN WithEnv(r, env) ELSE
          LET r2 == AssignOp(st.op, old, r.v, r.s) IN
          IF r2.k # "ok" THEN WithEnv(r2, env)
          ELSE StOk([r2.s EXCEPT !.store[a] = r2.v], env)
    [] st.k = "setidx" ->   \* a[i] op= e
          IF st.op = "=" THEN
            LET rv == EvalE(st.e, env, s) IN IF rv.k # "ok" THEN WithEnv(rv, env) ELSE
            LET ra == EvalE(st.a, env, rv.s) IN IF ra.k # "ok" THEN WithEnv(ra, env) ELSE
            LET ri == EvalE(st.i, env, ra.s) IN IF ri.k # "ok" THEN WithEnv(ri, env) ELSE
            WithEnv(SetItem(ra.v, ri.v, rv.v, ri.s), env)
          ELSE
            \* compound: a and i are evaluated for the read, then again for the write
            LET ra == EvalE(st.a, env, s) IN IF ra.k # "ok" THEN WithEnv(ra, env) ELSE
            LET ri == EvalE(st.i, env, ra.s) IN IF ri.k # "ok" THEN WithEnv(ri, env) ELSE
            LET rg == GetItem(ra.v, ri.v, ri.s) IN IF rg.k # "ok" THEN WithEnv(rg, env) ELSE
            LET rv == EvalE(st.e, env, rg.s) IN IF rv.k # "ok" THEN WithEnv(rv, env) ELSE
            LET r2 == AssignOp(st.op, rg.v, rv.v, rv.s) IN IF r2.k # "ok" THEN WithEnv(r2, env) ELSE
            LET ra2 == EvalE(st.a, env, r2.s) IN IF ra2.k # "ok" THEN WithEnv(ra2, env) ELSE
            LET ri2 == EvalE(st.i, env, ra2.s) IN IF ri2.k # "ok" THEN WithEnv(ri2, env) ELSE
            WithEnv(SetItem(ra2.v, ri2.v, r2.v, ri2.s), env)
    [] st.k = "setattr" ->   \* m.name op= e   (maps only)
          IF st.op = "=" THEN
            LET rv == EvalE(st.e, env, s) IN IF rv.k # "ok" THEN WithEnv(rv, env) ELSE
            LET ra == EvalE(st.a, env, rv.s) IN IF ra.k # "ok" THEN WithEnv(ra, env) ELSE
            IF ra.v.t # "map" THEN WithEnv(Unknown(ra.s), env)
            ELSE WithEnv(SetItem(ra.v, VStr(st.ncps), rv.v, ra.s), env)
          ELSE WithEnv(Unknown(s), env)
    [] st.k = "postfix" -> LET a == Lookup(env, st.n) IN
          IF a = 0 THEN WithEnv(Unknown(s), env) ELSE
          LET r2 == BinOp("+", s.store[a], VInt(IF st.op = "++" THEN 1 ELSE -1), s) IN
          IF r2.k # "ok" THEN WithEnv(r2, env)
          ELSE StOk([r2.s EXCEPT !.store[a] = r2.v], env)
    [] st.k = "expr" -> WithEnv(EvalE(st.e, env, s), env)
    [] st.k = "funcdecl" ->  \* named function statement: binds its name; the statement's value is the function
          LET rf == EvalE(st.f, env, s)
              a == Lookup(env, st.f.name) IN
          IF a # 0 /\ st.hoisted THEN [k |-> "ok", v |-> rf.v, s |-> [rf.s EXCEPT !.store[a] = rf.v], env |-> env]
          ELSE LET s2 == Alloc(rf.s, rf.v) IN
               [k |-> "ok", v |-> rf.v, s |-> s2, env |-> Declare(env, st.f.name, Len(s2.store))]
    [] st.k = "break" -> WithEnv(Sig("break", VNil, s), env)
    [] st.k = "continue" -> WithEnv(Sig("continue", VNil, s), env)
    [] st.k = "return" -> IF ~st.has THEN WithEnv(Sig("return", VNil, s), env) ELSE
          LET r == EvalE(st.e, env, s) IN
          IF r.k # "ok" THEN WithEnv(r, env) ELSE WithEnv(Sig("return", r.v, r.s), env)
    [] st.k = "defer" ->   \* callee and arguments are evaluated now, the call happens at function exit
          IF st.e.k # "call" \/ Len(s.dstack) = 0 THEN WithEnv(Unknown(s), env) ELSE
          LET rf == EvalE(st.e.f, env, s) IN IF rf.k # "ok" THEN WithEnv(rf, env) ELSE
          LET ra == EvalList(st.e.args, env, rf.s, <<>>) IN IF ra.k # "ok" THEN WithEnv(ra, env) ELSE
          StOk([ra.s EXCEPT !.dstack[Len(ra.s.dstack)] = Append(@, [f |-> rf.v, args |-> ra.v])], env)
    [] st.k = "for" ->
          LET env1 == PushScope(env)
              ri == IF Len(st.init) = 0 THEN [k |-> "ok", v |-> VNil, s |-> s, env |-> env1]
                    ELSE Exec(st.init[1], env1, s)
          IN IF ri.k # "ok" THEN WithEnv(ri, env)
             ELSE WithEnv(LoopC(st, ri.env, ri.s, FUEL), env)
    [] st.k = "range" ->
          LET rc == EvalE(st.c, env, s) IN
          IF rc.k # "ok" THEN WithEnv(rc, env)
          ELSE IF rc.v.t \in {"float", "bool", "nil", "fn", "builtin", "method", "error"} THEN WithEnv(Raise("type error", rc.s), env)
          ELSE IF rc.v.t \notin {"list", "int", "str", "map", "set"} THEN WithEnv(Unknown(rc.s), env)
          ELSE LET n == Len(st.vars)
                   s1 == IF n >= 1 THEN Alloc(rc.s, VNil) ELSE rc.s
                   e1 == IF n >= 1 THEN Declare(PushScope(env), st.vars[1], Len(s1.store)) ELSE PushScope(env)
                   s2 == IF n >= 2 THEN Alloc(s1, VNil) ELSE s1
                   e2 == IF n >= 2 THEN Declare(e1, st.vars[2], Len(s2.store)) ELSE e1
                   addrs == IF n = 0 THEN <<>> ELSE IF n = 1 THEN <<Len(s1.store)>> ELSE <<Len(s1.store), Len(s2.store)>>
                   snap == IF rc.v.t = "map" THEN SortKeys(DOMAIN MapOf(rc.v, s2))
                           ELSE IF rc.v.t = "set" THEN SetItems(rc.v, s2) ELSE <<>>
               IN WithEnv(LoopR(st, rc.v, e2, [s |-> s2, pos |-> 0, snap |-> snap, addrs |-> addrs], FUEL), env)
    [] OTHER -> WithEnv(Unknown(s), env)

\* ================= projection =================
RECURSIVE Proj(_,_,_)
RECURSIVE ProjSeq(_,_,_)
ProjSeq(xs, s, d) == IF Len(xs) = 0 THEN <<>> ELSE <<Proj(Head(xs), s, d)>> \o ProjSeq(Tail(xs), s, d)
Proj(v, s, d) ==
  CASE v.t \in {"int","bool","str"} -> [t |-> v.t, v |-> v.v]
    [] v.t = "float" -> [t |-> "float", v |-> FloatText(v.n)]
    [] v.t = "nil" -> [t |-> "nil"]
    [] v.t = "list" -> IF d = 0 THEN [t |-> "deep"] ELSE [t |-> "list", v |-> ProjSeq(Items(v, s), s, d - 1)]
    [] v.t = "set" -> IF d = 0 THEN [t |-> "deep"] ELSE [t |-> "set", v |-> ProjSeq(SetItems(v, s), s, d - 1)]
    [] v.t = "map" -> IF d = 0 THEN [t |-> "deep"] ELSE
          LET ks == SortKeys(DOMAIN MapOf(v, s)) IN
          [t |-> "map", v |-> [i \in 1..Len(ks) |-> [k |-> ks[i], v |-> Proj(MapOf(v, s)[ks[i]], s, d - 1)]]]
    [] v.t = "error" -> IF "opaque" \in DOMAIN v THEN [t |-> "error", raised |-> v.raised]
                        ELSE [t |-> "error", v |-> v.v, raised |-> v.raised]
    [] v.t = "method" -> [t |-> "builtin"]
    [] OTHER -> [t |-> v.t]

\* ================= static semantics: what the compiler rejects =================
\* The compiler resolves every name while it compiles, in source order, against a chain of
\* symbol tables: the root table (builtins and the hoisted top-level function names), one
\* table per function (parameters, then the function's own name), and one table per block
\* (function body, if/else/case body, loop header, loop body).  A program is rejected with a
\* compile error - before anything runs - when
\*   - a name is declared twice in the same table (:=, var, const, multi-declaration, loop
\*     variables, parameters, named functions at the top level),
\*   - a name that no table of the chain declares is read or assigned,
\*   - a constant (const name, named function) is the target of =, op=, ++/--, or of a
\*     multi-assignment,
\*   - break/continue appear outside the loops of the current function, return/defer outside
\*     of any function,
\*   - a parameter default is not a literal, or a parameter without default follows one with.
\* senv: sequence of tables, each a function  name -> BOOLEAN (is it a constant)
\* ctx:  [loop: inside a loop of the current function, fn: inside a function]
SLook(senv, n) ==
  LET idxs == {i \in 1..Len(senv): n \in DOMAIN senv[i]}
  IN IF idxs = {} THEN "none"
     ELSE IF senv[CHOOSE i \in idxs: \A j \in idxs: j <= i][n] THEN "const" ELSE "var"
SBad == [bad |-> TRUE, senv |-> <<>>]
SOk(senv) == [bad |-> FALSE, senv |-> senv]
SDecl(senv, n, c) == IF n \in DOMAIN senv[Len(senv)] THEN SBad
                     ELSE SOk([senv EXCEPT ![Len(senv)] = (n :> c) @@ @])
RECURSIVE SDeclAll(_,_,_)
SDeclAll(senv, ns, c) == IF Len(ns) = 0 THEN SOk(senv)
                         ELSE LET r == SDecl(senv, Head(ns), c) IN IF r.bad THEN r ELSE SDeclAll(r.senv, Tail(ns), c)
RECURSIVE SE(_,_,_)
RECURSIVE SSt(_,_,_)
RECURSIVE SSeq(_,_,_)
SEs(es, senv, ctx) == \E i \in 1..Len(es): SE(es[i], senv, ctx)
SSeq(sts, senv, ctx) == IF Len(sts) = 0 THEN SOk(senv)
                        ELSE LET r == SSt(Head(sts), senv, ctx) IN IF r.bad THEN r ELSE SSeq(Tail(sts), r.senv, ctx)
SBlock(sts, senv, ctx) == SSeq(sts, Append(senv, <<>>), ctx).bad
\* a function body is compiled up to and including its first return STATEMENT (a direct child of the body): what
\* follows is never compiled, so it cannot be a compile error either
UpToReturn(sts) == LET idx == {i \in 1..Len(sts): sts[i].k = "return"} IN
                   IF idx = {} THEN sts ELSE SubSeq(sts, 1, CHOOSE i \in idx: \A j \in idx: i <= j)
SFunc(e, senv) ==
  LET ps == e.params
      names == [i \in 1..Len(ps) |-> ps[i].n]
      badDefaults == \/ \E i \in 1..Len(ps): ps[i].hasdef /\ ps[i].def.k \notin {"int", "str", "bool", "float", "nil"}
                     \/ \E i, j \in 1..Len(ps): i < j /\ ps[i].hasdef /\ ~ps[j].hasdef
      t1 == SDeclAll(Append(senv, <<>>), names, FALSE)
      t2 == IF t1.bad \/ e.name = "" THEN t1 ELSE SDecl(t1.senv, e.name, TRUE)
  IN badDefaults \/ t2.bad \/ SBlock(UpToReturn(e.body), t2.senv, [loop |-> FALSE, fn |-> TRUE])
SE(e, senv, ctx) ==
  CASE e.k \in {"int", "float", "bool", "nil", "str", "nilnode"} -> FALSE
    [] e.k = "tmpl" -> \E i \in 1..Len(e.parts): e.parts[i].k # "lit" /\ SE(e.parts[i].e, senv, ctx)
    [] e.k = "id" -> SLook(senv, e.n) = "none"
    [] e.k \in {"bin", "and", "or", "in", "idx"} -> SE(e.a, senv, ctx) \/ SE(e.b, senv, ctx)
    [] e.k \in {"not", "neg", "attr"} -> SE(e.a, senv, ctx)
    [] e.k = "tern" -> SE(e.c, senv, ctx) \/ SE(e.a, senv, ctx) \/ SE(e.b, senv, ctx)
    [] e.k \in {"list", "set"} -> SEs(e.items, senv, ctx)
    [] e.k = "map" -> SEs(e.keys, senv, ctx) \/ SEs(e.vals, senv, ctx)
    [] e.k = "slice" -> SE(e.a, senv, ctx) \/ (e.haslo /\ SE(e.lo, senv, ctx)) \/ (e.hashi /\ SE(e.hi, senv, ctx))
    [] e.k = "call" -> SE(e.f, senv, ctx) \/ SEs(e.args, senv, ctx)
    [] e.k = "pipe" -> SEs(e.stages, senv, ctx)
    [] e.k = "func" -> SFunc(e, senv)
    [] e.k = "if" -> SE(e.c, senv, ctx) \/ SBlock(e.t, senv, ctx) \/ (e.haselse /\ SBlock(e.e, senv, ctx))
    [] e.k = "switch" -> SE(e.subj, senv, ctx) \/
          \E i \in 1..Len(e.cases): (~e.cases[i].isdefault /\ SEs(e.cases[i].exprs, senv, ctx)) \/ SBlock(e.cases[i].body, senv, ctx)
    [] OTHER -> FALSE
SSt(st, senv, ctx) ==
  CASE st.k \in {"var", "const"} -> IF SE(st.e, senv, ctx) THEN SBad ELSE SDecl(senv, st.n, st.k = "const")
    [] st.k = "multivar" ->
          IF SE(st.e, senv, ctx) THEN SBad
          ELSE IF st.decl THEN SDeclAll(senv, st.ns, FALSE)
          ELSE IF \E i \in 1..Len(st.ns): SLook(senv, st.ns[i]) # "var" THEN SBad ELSE SOk(senv)
    [] st.k = "assign" -> IF SLook(senv, st.n) # "var" \/ SE(st.e, senv, ctx) THEN SBad ELSE SOk(senv)
    [] st.k = "setidx" -> IF SE(st.e, senv, ctx) \/ SE(st.a, senv, ctx) \/ SE(st.i, senv, ctx) THEN SBad ELSE SOk(senv)
    [] st.k = "setattr" -> IF SE(st.e, senv, ctx) \/ SE(st.a, senv, ctx) THEN SBad ELSE SOk(senv)
    [] st.k = "postfix" -> IF SLook(senv, st.n) # "var" THEN SBad ELSE SOk(senv)
    [] st.k = "expr" -> IF SE(st.e, senv, ctx) THEN SBad ELSE SOk(senv)
    [] st.k = "funcdecl" ->
          IF SFunc(st.f, senv) THEN SBad
          \* a top-level function's name was entered before compilation started; elsewhere the name is
          \* entered into the current table as a constant, or an entry of that table is reused as it is
          ELSE IF st.hoisted \/ st.f.name \in DOMAIN senv[Len(senv)] THEN SOk(senv)
          ELSE SDecl(senv, st.f.name, TRUE)
    [] st.k \in {"break", "continue"} -> IF ctx.loop THEN SOk(senv) ELSE SBad
    [] st.k = "return" -> IF ~ctx.fn \/ (st.has /\ SE(st.e, senv, ctx)) THEN SBad ELSE SOk(senv)
    [] st.k = "defer" -> IF ~ctx.fn \/ SE(st.e, senv, ctx) THEN SBad ELSE SOk(senv)
    [] st.k = "for" ->
          LET r0 == IF Len(st.init) = 0 THEN SOk(Append(senv, <<>>)) ELSE SSt(st.init[1], Append(senv, <<>>), ctx)
              inner == [ctx EXCEPT !.loop = TRUE] IN
          IF r0.bad THEN SBad
          ELSE IF st.hascond /\ SE(st.cond, r0.senv, inner) THEN SBad
          ELSE IF Len(st.post) > 0 /\ SSt(st.post[1], r0.senv, inner).bad THEN SBad
          ELSE IF SBlock(st.body, r0.senv, inner) THEN SBad ELSE SOk(senv)
    [] st.k = "range" ->
          IF SE(st.c, senv, ctx) THEN SBad
          ELSE LET r0 == SDeclAll(Append(senv, <<>>), st.vars, FALSE) IN
               IF r0.bad \/ SBlock(st.body, r0.senv, [ctx EXCEPT !.loop = TRUE]) THEN SBad ELSE SOk(senv)
    [] OTHER -> SOk(senv)

\* the root table: the builtins (ordinary variables: they can be assigned) and the hoisted function names
StaticBad(c) ==
  LET hs == c.hoist
      dupl == \E i, j \in 1..Len(hs): i < j /\ hs[i] = hs[j]
      clash == \E i \in 1..Len(hs): hs[i] \in Builtins
      hset == {hs[i]: i \in 1..Len(hs)}
      root == [n \in Builtins \cup hset |-> n \in hset]
  IN dupl \/ clash \/ SSeq(c.ast, <<root>>, [loop |-> FALSE, fn |-> FALSE]).bad

S0 == [store |-> <<>>, heap |-> <<>>, out |-> <<>>, nfn |-> 0, depth |-> 0, dstack |-> <<>>]
\* hoist: top-level named functions get a cell before execution
RECURSIVE Hoist(_,_,_)
Hoist(names, env, s) == IF Len(names) = 0 THEN [env |-> env, s |-> s] ELSE
   LET s2 == Alloc(s, VUnset) IN Hoist(Tail(names), Declare(env, Head(names), Len(s2.store)), s2)

Outcome(r) ==
  IF r.k = "unknown" THEN [k |-> "unknown"]
  ELSE IF r.k = "ok" THEN [k |-> "ok", v |-> Proj(r.v, r.s, 7), out |-> r.s.out]
  ELSE IF r.k = "raise" THEN [k |-> "raise", v |-> r.v.kind, msg |-> r.v.msg, out |-> r.s.out]
  ELSE [k |-> "unknown"]   \* a stray break/continue/return is a compile error: generators do not produce it

RunProgram(c) == IF StaticBad(c) THEN [k |-> "raise", v |-> "compile error", msg |-> <<>>, out |-> <<>>]
                 ELSE LET h == Hoist(c.hoist, <<<<>>>>, S0)
                          r == ExecSeq(c.ast, h.env, h.s, VNil)
                      IN Outcome(r)

\* REPL-style evaluation (C18): pieces share environment and state; the value of
\* the run is the value of the last piece; a piece that raises keeps its effects.
RECURSIVE RunPiecesFrom(_,_,_,_,_)
RunPiecesFrom(pieces, i, env, s, acc) ==
  IF i > Len(pieces) THEN acc
  ELSE LET r == ExecSeq(pieces[i], env, s, VNil) IN
       IF r.k = "ok" THEN RunPiecesFrom(pieces, i + 1, r.env, r.s, Append(acc, Outcome(r)))
       ELSE IF r.k = "raise" THEN
            \* names declared by the failing piece stay declared (compile-time) but may be unset: outside the model
            Append(acc, Outcome(r))
       ELSE Append(acc, [k |-> "unknown"])

\* does the observed outcome (from the real pipeline) conform to the specified one?
RECURSIVE SameJ(_,_)
SameJ(a, b) ==
  IF a.t # b.t THEN FALSE
  ELSE CASE a.t \in {"int", "bool", "str"} -> a.v = b.v
         [] a.t \in {"list", "set"} -> Len(a.v) = Len(b.v) /\ \A i \in 1..Len(a.v): SameJ(a.v[i], b.v[i])
         [] a.t = "map" -> Len(a.v) = Len(b.v) /\ \A i \in 1..Len(a.v): a.v[i].k = b.v[i].k /\ SameJ(a.v[i].v, b.v[i].v)
         [] a.t = "error" -> a.raised = b.raised /\ ("v" \notin DOMAIN a \/ a.v = b.v)
         [] OTHER -> TRUE
Conforms(spec, obs) ==
  IF spec.k = "unknown" THEN TRUE
  ELSE IF obs.k \notin {"ok", "raise"} THEN FALSE
  ELSE IF spec.k # obs.k THEN FALSE
  ELSE IF spec.out # obs.out THEN FALSE
  ELSE IF spec.k = "ok" THEN SameJ(spec.v, obs.v)
  ELSE \/ spec.v \in {"anyerror", "panic"}
       \/ (spec.v = "user" /\ obs.msgcps = spec.msg)
       \/ (spec.v # "user" /\ spec.v = obs.v)
=============================================================================
