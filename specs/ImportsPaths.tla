---------------------------- MODULE ImportsPaths ----------------------------
(* C14 legs M and G over import PATH TEXTS.                                          *)
(* Texts: every sequence of 1..MAXSEG segments over the alphabet                     *)
(* {"", ".", "..", "a", "b", "..a", "a.."}, relative / with a leading slash / below   *)
(* an absolute directory outside the root, with and without a trailing slash; plus   *)
(* a list of special decoded strings (backslashes, quotes, blanks, controls, ...).   *)
(* M: the validator Accepts implies confinement of the file name the importer builds *)
(* and a canonical (injective) module name.  G: every text x spelling x escape       *)
(* encoding is printed as one PATH line with the spec's classification.              *)
EXTENDS Imports, Json

CONSTANTS MAXSEG, ENCS, EMIT

VARIABLE t
Alphabet == << <<>>, <<46>>, <<46, 46>>, <<97>>, <<98>>, <<46, 46, 97>>, <<97, 46, 46>> >>
Specials == <<
  <<97, 92, 46, 46, 92, 98>>,                 \* a\..\b
  <<46, 46, 92, 97>>,                         \* ..\a
  <<92, 97>>,                                 \* \a
  <<34, 97, 34>>,                             \* "a"   (quotes inside the text)
  <<34, 46, 46, 47, 97, 34>>,                 \* "../a"
  <<34, 47, 97>>,                             \* "/a
  <<97, 34, 47, 46, 46, 47, 46, 46, 47, 98>>, \* a"/../../b
  <<97, 32, 98>>,                             \* a b
  <<32, 97>>,                                 \* " a"
  <<97, 32>>,                                 \* "a "
  <<97, 9>>,                                  \* a<TAB>
  <<97, 10, 98>>,                             \* a<LF>b
  <<97, 0>>,                                  \* a<NUL>
  <<97, 0, 47, 46, 46, 47, 98>>,              \* a<NUL>/../b
  <<97, 46, 98>>,                             \* a.b
  <<97, 46, 114, 105, 115, 111, 114>>,        \* a.risor
  <<97, 47, 98, 46, 114, 105, 115, 111, 114>>,\* a/b.risor
  <<126, 47, 97>>,                            \* ~/a
  <<36, 72, 79, 77, 69, 47, 97>>,             \* $HOME/a
  <<97, 47, 42>>,                             \* a/*
  <<97, 58, 98>>,                             \* a:b
  <<67, 58, 92, 97>>,                         \* C:\a
  <<102, 105, 108, 101, 58, 47, 47, 47, 97>>, \* file:///a
  <<97, 45, 98>>,                             \* a-b
  <<49, 97>>,                                 \* 1a
  <<95, 97, 49>>,                             \* _a1     (accepted, no such file)
  <<65>>,                                     \* A       (accepted, no such file)
  <<97, 47, 95, 120>>,                        \* a/_x    (accepted, no such file)
  <<97, 47, 98, 47, 97, 47, 98, 47, 97>>,     \* a/b/a/b/a (accepted, no such file)
  <<233>>,                                    \* e-acute
  <<97, 47, 8230>>,                           \* a/<ellipsis>
  <<65294, 65294, 47, 97>>,                   \* fullwidth dots ../a
  <<46, 46, 8725, 97>>,                       \* .. division-slash a
  <<37, 50, 101, 37, 50, 101, 47, 97>>,       \* %2e%2e/a
  <<123, 120, 125>>,                          \* {x}
  <<46, 46, 46>>,                             \* ...
  <<46, 46, 47, 46, 46, 47, 46, 46, 47, 46, 46, 47, 46, 46, 47, 97>> \* ../../../../../a
>>
Leads == {"rel", "slash", "abs"}
Quoted == {"imp_q", "imp_q_as", "from_q", "from_q_grp"}
Spellings == Quoted \cup {"imp_raw", "from_dot"}

SegTexts == UNION {[1..n -> 1..Len(Alphabet)] : n \in 1..MAXSEG}
Shapes == [q : SegTexts, lead : Leads, trail : BOOLEAN, special : {0}]
          \cup [q : {<<>>}, lead : {"rel"}, trail : {FALSE}, special : 1..Len(Specials)]
          \cup [q : {<<>>}, lead : {"rel", "slash"}, trail : {FALSE}, special : {0}]      \* "" and "/"

RECURSIVE JoinQ(_, _)
JoinQ(q, k) == IF k > Len(q) THEN <<>>
               ELSE IF k = Len(q) THEN Alphabet[q[k]]
               ELSE Alphabet[q[k]] \o <<SLASH>> \o JoinQ(q, k + 1)
Text(sh) == IF sh.special # 0 THEN Specials[sh.special]
            ELSE (IF sh.lead = "rel" THEN <<>> ELSE <<SLASH>>) \o JoinQ(sh.q, 1)
                 \o (IF sh.trail THEN <<SLASH>> ELSE <<>>)

Init == t \in [sh : Shapes, sp : Spellings, enc : ENCS]
        /\ (t.sp \notin Quoted => t.enc = "plain" /\ t.sh.special = 0)
Next == UNCHANGED t

\* the second statement of a case whose text must be rejected: import of the module
\* the text would denote if it were accepted, to expose a second evaluation
CleanOf(cps) == LET r == CleanText(cps) IN
                IF r.up = 0 /\ r.path # <<>> /\ Accepts(JoinSegs(r.path, 1)) THEN JoinSegs(r.path, 1) ELSE <<>>

\* ---------------------------------------------------------------- leg M
\* the design theorem: an accepted text names exactly one file, and it is under the root
AcceptedIsConfined == LET x == Text(t.sh) IN Accepts(x) =>
   /\ Confined(x)
   /\ \A ext \in {ExtRisor, ExtRsr}:
        LET r == Resolve(x, ext)  segs == Split(x) IN
        /\ Len(r.path) = Len(segs)
        /\ \A k \in 1..Len(segs) - 1: r.path[k] = segs[k]
        /\ r.path[Len(segs)] = segs[Len(segs)] \o ext
\* and a text that climbs above the root is never accepted
EscapingIsRejected == LET x == Text(t.sh) IN ~Confined(x) => ~Accepts(x)

Emit == EMIT =>
  LET x == Text(t.sh)
      acc == IF t.sp = "imp_raw" THEN IsIdent(x) ELSE Accepts(x)
  IN PrintT(<<"PATH", ToJson([kind |-> "path", text |-> x, abs |-> (t.sh.lead = "abs"), sp |-> t.sp, enc |-> t.enc,
                              acc |-> acc /\ t.sh.lead # "abs", conf |-> Confined(x),
                              clean |-> IF acc \/ t.sh.lead = "abs" THEN <<>> ELSE CleanOf(x)])>>)
=============================================================================
