---------------------------- MODULE ConfigGraph ----------------------------
(* C11 - scripts can reach only the globals the host configuration allows.            *)
(* Pure operators over object graphs; Config.tla (leg M) and ConfigCheck.tla (leg G)  *)
(* extend this module.                                                                *)
(*                                                                                    *)
(* A graph G = [env, nodes]:                                                          *)
(*   env   : Name -> node index            the script's global environment            *)
(*   nodes : sequence of [l, t, fn, a, res]                                           *)
(*           l   label  "type|Inspect()|Go function"  (the identity of an object that *)
(*               is stable across Config values; unique per object - the driver       *)
(*               reports a label carried by two distinct objects as "ambiguous")      *)
(*           t   type, a : AttrName -> node index  (module members, __name__,         *)
(*               __module__),  res : node a dynamic attribute resolves to on `m.x`, 0 *)
(* The base graph G0 = risor's REAL default globals + a small host module, walked by  *)
(* the Go driver (harness/cmd/config) and read from VERIF_G0; nothing in it is        *)
(* hand-written.  The universe U0 appends the replacement objects used for overrides. *)
(*                                                                                    *)
(* READING OF THE PROPERTY (kept minimal).  A name n (top-level `x` or dotted         *)
(* `m.x`, `m.s.x`) denotes a REGISTRATION: an entry of the environment or a member    *)
(* entry of a module.  Removing n removes that registration; "the object registered   *)
(* under a removed name is unreachable" is required of the object (identity, i.e.     *)
(* label) UNLESS the same object is still registered under another, non-removed name  *)
(* (the host's `vhostfn`/`vhostfn2` alias).  Top-level `getenv`, `open`, ... and      *)
(* `os.getenv`, `os.open`, ... are DIFFERENT objects that wrap the same Go function:  *)
(* removing `os.getenv` removes only that registration, the top-level `getenv`        *)
(* stays (the property speaks of objects registered under names, not of capabilities  *)
(* - the check lists such same-function aliases in its evidence, it does not demand   *)
(* their removal).  Reachability is closure under every attribute edge, including the *)
(* `__module__` back-reference of builtins.  For an override the replacement must be  *)
(* what the name itself and every path ending in that registration yields, and the    *)
(* replaced object obeys the same unreachability rule.  When a module and one of its  *)
(* members are both overridden, the member's replacement must be observed in the new  *)
(* module (if that has such a member).  A name that is both removed and overridden,   *)
(* an override below a removed name and overrides of names that do not exist are      *)
(* outside the property's text and are never generated (WellFormed).                  *)
EXTENDS Integers, Sequences, FiniteSets, TLC, Json, IOUtils, SequencesExt

Doc0 == JsonDeserialize(IOEnv.VERIF_G0)
G0 == Doc0.graph
HostNames == {Doc0.host[k] : k \in DOMAIN Doc0.host}
RegNames == Doc0.names                      \* sequence of registrable names (sequences of parts)
Kinds == {Doc0.repl[k].kind : k \in DOMAIN Doc0.repl}

\* ---- universe: G0's nodes followed by the nodes of every replacement graph (shifted)
RECURSIVE ReplOffset(_)
ReplOffset(k) == IF k = 1 THEN Len(G0.nodes) ELSE ReplOffset(k - 1) + Len(Doc0.repl[k - 1].nodes)
Shift(node, off) ==
  [l |-> node.l, t |-> node.t, fn |-> node.fn,
   a |-> [x \in DOMAIN node.a |-> node.a[x] + off],
   res |-> IF node.res = 0 THEN 0 ELSE node.res + off]
RECURSIVE ReplNodes(_)
ReplNodes(k) ==
  IF k > Len(Doc0.repl) THEN <<>>
  ELSE [j \in DOMAIN Doc0.repl[k].nodes |-> Shift(Doc0.repl[k].nodes[j], ReplOffset(k))] \o ReplNodes(k + 1)
U0 == [env |-> G0.env, nodes |-> G0.nodes \o ReplNodes(1)]
ReplRoot(kind) == LET k == CHOOSE k \in DOMAIN Doc0.repl : Doc0.repl[k].kind = kind
                  IN ReplOffset(k) + Doc0.repl[k].root

\* ---- lookups (0 = no such object)
Start(G, n) == IF n \in DOMAIN G.env THEN G.env[n] ELSE 0
Step(G, i, a) == IF i = 0 THEN 0 ELSE IF a \in DOMAIN G.nodes[i].a THEN G.nodes[i].a[a] ELSE 0
Resolved(G, i) == IF i # 0 /\ G.nodes[i].res # 0 THEN G.nodes[i].res ELSE i
IsModule(G, i) == i # 0 /\ G.nodes[i].t = "module"
RECURSIVE WalkFrom(_, _, _, _, _)
WalkFrom(G, i, p, k, resolve) ==      \* follow p[k..] from node i
  IF k > Len(p) \/ i = 0 THEN i
  ELSE LET j == Step(G, i, p[k]) IN WalkFrom(G, IF resolve THEN Resolved(G, j) ELSE j, p, k + 1, resolve)
WalkRaw(G, p) == WalkFrom(G, Start(G, p[1]), p, 2, FALSE)
LabelOf(G, i) == IF i = 0 THEN "-" ELSE G.nodes[i].l

\* what a script observes for path p written in a given style
Styles == {"dot", "getattr", "import", "importas", "from", "fromas"}
Applicable(p, s) == s \in {"from", "fromas"} => Len(p) >= 2
\* the getattr style calls the global `getattr`: it presupposes the genuine builtin (an overridden
\* `getattr` makes the rendering meaningless - not judged; a removed one is a compile error)
GetattrJudged(G, p, s) == (s = "getattr" /\ Len(p) >= 2 /\ "getattr" \in DOMAIN G.env) =>
                             G.nodes[G.env["getattr"]].l = U0.nodes[U0.env["getattr"]].l
Observe(G, p, s) ==
  LET i == Start(G, p[1]) IN
  CASE s = "dot" -> WalkFrom(G, i, p, 2, TRUE)                     \* x.a.b : LoadAttr resolves dynamic attributes
    [] s = "getattr" ->                                            \* getattr(getattr(x, "a"), "b")
         IF Len(p) >= 2 /\ "getattr" \notin DOMAIN G.env THEN 0 ELSE WalkFrom(G, i, p, 2, FALSE)
    [] s \in {"import", "importas"} ->                             \* import x [as y] : only module globals are importable
         IF IsModule(G, i) THEN WalkFrom(G, i, p, 2, TRUE) ELSE 0
    [] s \in {"from", "fromas"} ->                                 \* from x import a [as y] : the member itself, unresolved
         IF IsModule(G, i) THEN WalkFrom(G, Step(G, i, p[2]), p, 3, TRUE) ELSE 0

\* ---- reachability
Succ(G, i) == {G.nodes[i].a[x] : x \in DOMAIN G.nodes[i].a} \cup
              (IF G.nodes[i].res = 0 THEN {} ELSE {G.nodes[i].res})
\* registrations only: module members (not __name__), no back-references
RegSucc(G, i) == IF G.nodes[i].t = "module"
                 THEN {G.nodes[i].a[x] : x \in DOMAIN G.nodes[i].a \ {"__name__"}} ELSE {}
RECURSIVE Close(_, _, _, _)
Close(G, frontier, seen, regOnly) ==
  IF frontier = {} THEN seen
  ELSE LET nxt == UNION {IF regOnly THEN RegSucc(G, i) ELSE Succ(G, i) : i \in frontier}
           new == nxt \ seen
       IN Close(G, new, seen \cup new, regOnly)
Roots(G) == {G.env[n] : n \in DOMAIN G.env}
Reach(G) == Close(G, Roots(G), Roots(G), FALSE)     \* identifier, import, attribute access, getattr, __module__
Named(G) == Close(G, Roots(G), Roots(G), TRUE)      \* objects that still have a (dotted) name
ReachL(G) == {G.nodes[i].l : i \in Reach(G)}
NamedL(G) == {G.nodes[i].l : i \in Named(G)}

\* label-level canonical form of the reachable part (node indices are local to a JSON document)
Canon(G) ==
  LET R == Reach(G) IN
  [env |-> {<<n, G.nodes[G.env[n]].l>> : n \in DOMAIN G.env},
   edges |-> UNION {{<<G.nodes[i].l, x, G.nodes[G.nodes[i].a[x]].l>> : x \in DOMAIN G.nodes[i].a} : i \in R},
   res |-> {<<G.nodes[i].l, G.nodes[G.nodes[i].res].l>> : i \in {j \in R : G.nodes[j].res # 0}}]
CanonDiff(A, B) ==      \* at most a few witnesses of each kind, for the MISMATCH line
  [env_missing |-> B.env \ A.env, env_extra |-> A.env \ B.env,
   edges_missing |-> B.edges \ A.edges, edges_extra |-> A.edges \ B.edges,
   res_diff |-> (A.res \ B.res) \cup (B.res \ A.res)]

\* ---- configurations: [nodefaults, deny : Seq(name), ov : Seq([name, kind])], name = Seq(part)
DenySet(c) == {c.deny[k] : k \in DOMAIN c.deny}
OvSet(c) == {c.ov[k] : k \in DOMAIN c.ov}
IsPrefixEq(a, b) == Len(a) <= Len(b) /\ \A k \in 1..Len(a) : a[k] = b[k]

\* ApplyDefaults: the environment before any edit
BaseEnv(c) == IF c.nodefaults THEN [n \in DOMAIN U0.env \cap HostNames |-> U0.env[n]] ELSE U0.env
Base(c) == [env |-> BaseEnv(c), nodes |-> U0.nodes]

\* the registration a dotted name denotes in graph G: <<owner module, attribute>> or <<0, "">>
\* (Front(n) = all parts but the last, from SequencesExt)
RECURSIVE ModuleAt(_, _, _, _)
ModuleAt(G, i, p, k) ==         \* follow p[k..] through MODULES only
  IF ~IsModule(G, i) THEN 0 ELSE IF k > Len(p) THEN i ELSE ModuleAt(G, Step(G, i, p[k]), p, k + 1)
Reg(G, n) ==
  LET o == ModuleAt(G, Start(G, n[1]), Front(n), 2)
      x == n[Len(n)]
  IN IF Len(n) >= 2 /\ o # 0 /\ x # "__name__" /\ x \in DOMAIN G.nodes[o].a THEN <<o, x>> ELSE <<0, "">>
\* the object registered under n in G (0 if none)
Registered(G, n) == IF Len(n) = 1 THEN Start(G, n[1]) ELSE LET r == Reg(G, n) IN Step(G, r[1], r[2])

\* configurations the property speaks about (see the header)
WellFormed(c) ==
  /\ \A o \in OvSet(c) : Registered(Base(c), o.name) # 0
  /\ \A o \in OvSet(c) : \A d \in DenySet(c) : ~IsPrefixEq(d, o.name)
  /\ \A o1 \in OvSet(c), o2 \in OvSet(c) : o1 # o2 => o1.name # o2.name
  \* harness: one replacement object per kind; a module replacement installed twice would alias
  /\ Cardinality({o \in OvSet(c) : o.kind = "mod"}) <= 1

\* Deny(n) and Override(n, x) as edits of the current graph
Deny(G, n) ==
  IF Len(n) = 1 THEN [G EXCEPT !.env = [m \in DOMAIN G.env \ {n[1]} |-> G.env[m]]]
  ELSE LET r == Reg(G, n) IN
       IF r[1] = 0 THEN G
       ELSE [G EXCEPT !.nodes[r[1]].a = [x \in DOMAIN @ \ {r[2]} |-> @[x]]]
Override(G, n, root) ==
  IF Len(n) = 1 THEN (IF n[1] \in DOMAIN G.env THEN [G EXCEPT !.env[n[1]] = root] ELSE G)
  ELSE LET r == Reg(G, n) IN
       IF r[1] = 0 THEN G ELSE [G EXCEPT !.nodes[r[1]].a[r[2]] = root]

\* Expected(G0, deny, ov).  Denied names are resolved in the BASE graph (declarative: no order).
\* Overrides follow; an override of `m.x` is applied after an override of its prefix `m`, so that
\* `m.x` observes its replacement in whatever module `m` then is - the only order in which "the
\* replacement is what every access path observes" holds for both names.
ExpectedDeny(c) ==
  LET B == Base(c)
      dTop == {d[1] : d \in {d \in DenySet(c) : Len(d) = 1}}
      dReg == {Reg(B, d) : d \in {d \in DenySet(c) : Len(d) >= 2}}
      touched == {r[1] : r \in dReg} \ {0}
      attrs(i) == LET a == B.nodes[i].a
                  IN [x \in DOMAIN a \ {r[2] : r \in {r \in dReg : r[1] = i}} |-> a[x]]
  IN [env |-> [m \in DOMAIN B.env \ dTop |-> B.env[m]],
      nodes |-> [i \in DOMAIN B.nodes |-> IF i \in touched THEN [B.nodes[i] EXCEPT !.a = attrs(i)] ELSE B.nodes[i]]]
RECURSIVE ApplyOverrides(_, _)
ApplyOverrides(G, S) ==
  IF S = {} THEN G
  ELSE LET o == CHOOSE o \in S : \A q \in S : Len(o.name) <= Len(q.name)
       IN ApplyOverrides(Override(G, o.name, ReplRoot(o.kind)), S \ {o})
Expected(c) == ApplyOverrides(ExpectedDeny(c), OvSet(c))

\* ---- the property on a graph G that claims to implement configuration c
\* WithoutDefaultGlobals removes every default (non-host) top-level name
Removed(c) == DenySet(c) \cup {o.name : o \in OvSet(c)} \cup
              (IF c.nodefaults THEN {<<n>> : n \in DOMAIN U0.env \ HostNames} ELSE {})
RemovedObjs(c) == ({Registered(Base(c), n) : n \in Removed(c)} \ {0}) \cup
                  (IF c.nodefaults THEN {U0.env[n] : n \in DOMAIN U0.env \ HostNames} ELSE {})
\* objects of removed registrations that are reachable in G although they have no name left
Leaked(c, G) ==
  LET dead == {U0.nodes[i].l : i \in RemovedObjs(c)} IN (dead \cap ReachL(G)) \ NamedL(G)
\* overrides whose own name does not yield the replacement in G
\* (an override below an overridden module is void when the new module has no such member)
NotReplaced(c, G) ==
  LET E == Expected(c) IN
  {o \in OvSet(c) : Registered(E, o.name) = ReplRoot(o.kind) /\
                    LabelOf(G, Registered(G, o.name)) # U0.nodes[ReplRoot(o.kind)].l}

=============================================================================
