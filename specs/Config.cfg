INIT Init
NEXT Next
INVARIANT WellFormedInput
INVARIANT OrderFree
INVARIANT NothingLeaks
INVARIANT Replaced
INVARIANT Independent
INVARIANT Emit
CHECK_DEADLOCK FALSE
