----------------------------- MODULE PathsCheck -----------------------------
(* C13, legs G and V: judge what the real code did with a path string.                 *)
(*                                                                                     *)
(* VERIF_CASES: one replayed path per line (harness/cmd/paths replay)                  *)
(*   {id, abs, trail, segs,                                                            *)
(*    rp:  [{ok, abs, segs}]                 os.ResolvePath for the bases of BaseSeq   *)
(*    vos: [{ms, cwd, outs: [{ok, si, m, rel, by}]}]   VirtualOS with recording mounts *)
(*    mt:  [{ok, si, m, rel}]                VirtualOS.MkdirTemp("", path as pattern)  *)
(*    vos2: [{ms, cwd, an, first, op, ok, si, m, r1, r2}]  Rename / Symlink of the path  *)
(*                                           and an anchor inside a mount               *)
(*    fs:  [{b, m, e, t, l}]}                localfs.Filesystem on a real temp tree:   *)
(*                                           method m, error e, host locations t that  *)
(*                                           were read or changed, symlink targets l   *)
(* VERIF_TREE: {dirs, files} the entries of the real temp tree below the host root.    *)
(* Locations are name sequences below the host root; a location that starts with       *)
(* "<OUT>" lies outside the host root.  One case per TLC state; the expectation is     *)
(* computed with the operators of Paths.tla; disagreements are printed as MISMATCH     *)
(* lines (the invariants stay TRUE so that all of them are listed).                    *)
EXTENDS Paths, Json, IOUtils

Cases   == ndJsonDeserialize(IOEnv.VERIF_CASES)
TreeRow == ndJsonDeserialize(IOEnv.VERIF_TREE)[1]
Range(s) == {s[k]: k \in 1..Len(s)}
D == Range(TreeRow.dirs)        \* directories of the temp tree
F == Range(TreeRow.files)       \* files of the temp tree
E == D \cup F

\* (leg R of the check roots a filesystem at the same three directories through a RELATIVE spelling - ".", "./",
\*  "a/..", "./." from inside the directory; the base of an observation is still BaseSeq[o.b])
BaseSeq     == << <<>>, <<"tmp">>, <<"tmp", "a">> >>
CwdSeq      == BaseSeq
MountSetSeq == << {<<>>}, {<<"tmp">>}, {<<"tmp", "a">>}, {<<"tmp">>, <<"tmp", "a">>}, {<<"a">>, <<"ab">>},
                 {<<>>, <<"tmp">>}, {<<>>, <<"tmp", "a">>, <<"a">>} >>
ASSUME Range(BaseSeq) = Bases /\ Range(CwdSeq) = Cwds /\ Range(MountSetSeq) = MountSets

VARIABLE i
PathOf(k) == [abs |-> Cases[k].abs, segs |-> Cases[k].segs, trail |-> Cases[k].trail]
Init == i = 1 /\ p = (IF Len(Cases) >= 1 THEN PathOf(1) ELSE [abs |-> FALSE, segs |-> <<>>, trail |-> FALSE])
Next == i < Len(Cases) /\ i' = i + 1 /\ p' = PathOf(i + 1)
C == Cases[i]
Have == i <= Len(Cases)

Report(leg, k, expected) == PrintT(<<"MISMATCH", C.id, leg, k, ToJson(expected)>>)

\* ------------------------------------------------------------------ os.ResolvePath
RPCheck == Have =>
  \A k \in 1..Len(C.rp):
    LET o == C.rp[k]  base == BaseSeq[k]  e == Resolve(base, p)
        good == IF e.ok THEN \/ o.ok /\ o.segs = e.path /\ (base # <<>> => o.abs)
                             \/ ~o.ok /\ MayRefuse(p)
                ELSE ~o.ok
    IN good \/ Report("rp", k, e)

\* ------------------------------------------------------------------ VirtualOS
\* every FS method must hand the path to the mount FindMount selects, as the location
\* relative to the mount point; refusal is required where FindMount refuses and tolerated
\* where the relative location begins with a dot-dot name (DESIGN 8.2)
VOSCheck == Have =>
  \A k \in 1..Len(C.vos):
    LET v == C.vos[k]  e == FindMount(MountSetSeq[v.ms], CwdSeq[v.cwd], p)
        good(o) == IF e.ok THEN \/ o.ok /\ o.m = e.m /\ o.rel = e.rel
                                \/ ~o.ok /\ ~o.si /\ e.rel # <<>> /\ e.rel[1] \in DDNames
                   ELSE ~o.ok /\ ~o.si
    IN (Len(v.outs) >= 1 /\ \A j \in 1..Len(v.outs): good(v.outs[j])) \/ Report("vos", k, e)

\* two-path operations (Rename, Symlink) with the script path p and an anchor path inside one of
\* the mounts, in both argument positions: the call is served - by the one mount that FindMount
\* gives for BOTH arguments, with both relative locations - only when both arguments lie in the
\* same mount; in every other case it must be refused (a mount never receives a location that
\* belongs to another mount)
VOS2Check == Have =>
  \A k \in 1..Len(C.vos2):
    LET v  == C.vos2[k]
        an == [abs |-> TRUE, segs |-> v.an, trail |-> FALSE]
        e1 == FindMount(MountSetSeq[v.ms], CwdSeq[v.cwd], IF v.first THEN an ELSE p)
        e2 == FindMount(MountSetSeq[v.ms], CwdSeq[v.cwd], IF v.first THEN p ELSE an)
        dd(r) == r # <<>> /\ r[1] \in DDNames
        good == IF e1.ok /\ e2.ok /\ e1.m = e2.m
                THEN \/ v.ok /\ v.m = e1.m /\ v.r1 = e1.rel /\ v.r2 = e2.rel
                     \/ ~v.ok /\ ~v.si /\ (dd(e1.rel) \/ dd(e2.rel))
                ELSE ~v.ok /\ ~v.si
    IN good \/ Report("vos2", k, [e1 |-> e1, e2 |-> e2])

\* VirtualOS.MkdirTemp("", pattern) with the temporary directory /tmp: the script-supplied
\* pattern must not smuggle separators or dot segments into the path handed to the mount
\* (components are abstracted to ".", ".." and "x"); mount tables {/tmp} and {/}
MTMounts == << <<"tmp">>, <<>> >>
MTCheck == Have =>
  \A k \in 1..Len(C.mt):
    LET o == C.mt[k]
        \* the directory is made UNDER the temporary directory: one component below it (seen from the mount /tmp that
        \* is the name alone, from the mount / it is tmp and the name)
        want == IF MTMounts[k] = <<>> THEN <<"x", "x">> ELSE <<"x">>
        good == IF o.ok THEN o.m = MTMounts[k] /\ NoDots(o.rel) /\ o.rel = want ELSE ~o.si
    IN good \/ Report("mt", k, [ok |-> TRUE, m |-> MTMounts[k]])

\* ------------------------------------------------------------------ localfs.Filesystem
Outside(t) == t # <<>> /\ t[1] = "<OUT>"
Under(base, t) == ~Outside(t) /\ IsPrefixC(base, t)
Parent(x) == SubSeq(x, 1, Len(x) - 1)
Creatable(x) == x \notin E /\ x # <<>> /\ Parent(x) \in D
Desc(x) == {t \in E: IsPrefixC(x, t)}
Prefixes(x) == {SubSeq(x, 1, n): n \in 0..Len(x)}
\* the string "" is not a path for MkdirTemp (Go: the default temporary directory)
EmptyString == ~p.abs /\ Full(p) \in {<<>>, <<"">>}

\* the host locations method m may read or change when its path argument denotes x
Allowed(m, base, x, t) ==
  LET zz == base \o <<"zz">>  bb == base \o <<"b">> IN
  CASE m \in {"rf", "op", "of", "st", "rd", "wf", "cr", "ow", "mk", "rm", "s2"} -> t = x
    [] m \in {"wd", "ra"} -> IsPrefixC(x, t)
    [] m = "ma" -> IsPrefixC(t, x)
    [] m = "mt" -> t = x \o <<"mt*">>
    [] m = "r1" -> IsPrefixC(x, t) \/ IsPrefixC(zz, t)        \* Rename(p, "zz")
    [] m = "r2" -> t = bb \/ IsPrefixC(x, t)                   \* Rename("b", p)
    [] m = "s1" -> t = zz                                      \* Symlink(p, "zz")
    [] OTHER -> FALSE
\* where the temp tree makes the operation possible it must succeed and act on exactly these
No == [req |-> FALSE, t |-> {}]
Yes(s) == [req |-> TRUE, t |-> s]
Must(m, base, x) ==
  LET zz == base \o <<"zz">>  bb == base \o <<"b">> IN
  CASE m \in {"rf", "op", "of"} -> IF x \in F THEN Yes({x}) ELSE No
    [] m = "st" -> IF x \in E THEN Yes({x}) ELSE No
    [] m = "rd" -> IF x \in D THEN Yes({x}) ELSE No
    [] m = "wd" -> IF x \in E THEN Yes(Desc(x)) ELSE No
    [] m \in {"wf", "cr", "ow"} -> IF x \in F \/ Creatable(x) THEN Yes({x}) ELSE No
    [] m = "mk" -> IF Creatable(x) THEN Yes({x}) ELSE No
    [] m = "ma" -> IF x \notin E /\ Prefixes(x) \cap F = {} THEN Yes(Prefixes(x) \ D) ELSE No
    [] m = "mt" -> IF x \in D THEN Yes({x \o <<"mt*">>}) ELSE No
    [] m = "rm" -> IF x \in F THEN Yes({x}) ELSE No
    [] m = "ra" -> IF x \in E THEN Yes(Desc(x)) ELSE No
    [] m = "r1" -> IF x \in F THEN Yes({x, zz}) ELSE No
    [] m = "r2" -> IF (x \in F /\ x # bb) \/ Creatable(x) THEN Yes({bb, x}) ELSE No
    [] m = "s1" -> Yes({zz})
    [] m = "s2" -> IF Creatable(x) THEN Yes({x}) ELSE No
    [] OTHER -> No
\* a symlink created by the operation points at the resolved first argument
LinksOK(m, base, x, links) ==
  CASE m = "s1" -> \A l \in links: l = x
    [] m = "s2" -> \A l \in links: l = base \o <<"b">>
    [] OTHER -> links = {}

FSCheck == Have =>
  \A k \in 1..Len(C.fs):
    LET o == C.fs[k]  base == BaseSeq[o.b]  e == Resolve(base, p)
        T == Range(o.t)  L == Range(o.l)
        confined == \A t \in T \cup L: Under(base, t)     \* nothing outside the base, ever
        good == IF ~e.ok THEN T = {} /\ L = {} /\ o.e
                ELSE LET x == e.path  must == Must(o.m, base, x) IN
                     \/ MayRefuse(p) /\ o.e /\ T = {} /\ L = {}
                     \/ /\ \A t \in T: Allowed(o.m, base, x, t)
                        /\ LinksOK(o.m, base, x, L)
                        /\ must.req => (~o.e /\ T = must.t)
    IN (confined /\ good) \/ Report("fs", k, [ok |-> e.ok, path |-> e.path, escaped |-> ~confined])
=============================================================================
