CONSTANT Calls = {c1, c2}
SPECIFICATION Spec
INVARIANT TypeOK
INVARIANT ReturnsNormally
PROPERTY EveryCallReturns
CHECK_DEADLOCK FALSE
