----------------------------- MODULE VMRunScen -----------------------------
(* C06 leg G: scenario shapes.  A scenario is a non-terminating or blocking main       *)
(* program, a tree of spawned goroutines (nesting depth, spawn form, what the spawned  *)
(* code does) and the instant at which the context is cancelled.  What VMRun's         *)
(* properties CancelStopsRun and CancelStopsClones require of every scenario: the call *)
(* returns the context's error and afterwards no script code runs (no tick advances).  *)
EXTENDS Integers, Sequences, FiniteSets, TLC, Json
CONSTANT MaxDepth
Mains == {"for", "for3", "forrange", "forcond", "recursion", "calltree", "mapcb", "eachcb", "filtercb", "sortedcb", "trycb",
          "tryhandler", "defercb", "tryfin", "sleepfin", "iterfin", "recvtryfin",   \* ...fin: the program ENDS once its last construct was cut short
          "send", "recv", "chaniter", "sleep", "wait", "sendfull", "sendmeth", "sendfullmeth", "recvmeth", "iterbuf"}
Blocking == {"sleepfin", "iterfin", "recvtryfin", "send", "recv", "chaniter", "sleep", "wait", "sendfull", "sendmeth", "sendfullmeth", "recvmeth", "iterbuf"}     \* mains that tick only a few times before blocking
SpawnForms == {"go", "spawn", "fnspawn"}
CloneBodies == {"loop", "sleepy", "recv", "sendfull", "sendthenloop", "calltree"}   \* calltree: runs without any backward jump
Instants == {"deadline", "tick3", "tick40"}
Trees == {[depth |-> 0, form |-> "none", body |-> "none"]}
         \cup [depth : 1..MaxDepth, form : SpawnForms, body : CloneBodies]
InstantsFor(m) == IF m \in Blocking THEN {"deadline", "tick3"} ELSE Instants
\* one VM used for two runs under the same context, which is done before the second run starts: cancelled while
\* the VM was idle, or during the first run (VMRun!Start arms a watcher for EVERY run, also when its context is done)
ReuseMains == {"for", "forrange", "recursion", "calltree", "eachcb", "sortedcb", "recv", "sendfull", "sleep", "wait"}
ReuseScenarios == {[main |-> m, tree |-> [depth |-> 0, form |-> "none", body |-> "none"], at |-> a] :
                     m \in ReuseMains, a \in {"reuse_idle", "reuse_during"}}
\* one VM, two invocations under DIFFERENT contexts: a thread started by a run under a context that stays live is
\* waited for by a later Call under the scenario's context, which must return when its OWN context is done
CrossScenarios == {[main |-> "crosswait", tree |-> [depth |-> 0, form |-> "none", body |-> "none"], at |-> "reuse_wait"]}
\* the main code finishes normally while goroutines it started keep running; the context is cancelled only AFTER the
\* call has returned (with no error): the goroutines must stop then
AfterScenarios == {[main |-> "finishes", tree |-> t, at |-> "afterreturn"] : t \in Trees \ {[depth |-> 0, form |-> "none", body |-> "none"]}}
\* while the run is in progress the host asks the same VM for another Call and Run (refused: VMRun!RefusedStart changes
\* nothing); the run in progress still stops when its context is cancelled
BusyScenarios == {[main |-> m, tree |-> [depth |-> 0, form |-> "none", body |-> "none"], at |-> "reuse_busy"] : m \in ReuseMains}
Scenarios == BusyScenarios \cup CrossScenarios \cup AfterScenarios \cup UNION {{[main |-> m, tree |-> t, at |-> a] : t \in Trees, a \in InstantsFor(m)} : m \in Mains} \cup ReuseScenarios
Expected(s) == [returns |-> TRUE, err |-> IF s.at = "afterreturn" THEN "nil" ELSE "ctxerr", ticks_after_return |-> 0]
VARIABLE s
Init == s \in Scenarios
Next == UNCHANGED s
Emit == PrintT(<<"SCEN", ToJson([scen |-> s, exp |-> Expected(s)])>>)
=============================================================================
