------------------------------ MODULE ValuesSeq ------------------------------
(* C15, leg M for sort and set inputs: TLC enumerates EVERY list of at most MaxLen     *)
(* values of the sub-universe and checks that the specification's Sorted / SetOf /    *)
(* Contains satisfy the laws of the property: sorted() returns a stably ordered       *)
(* permutation of mutually comparable input and is idempotent; values of one type     *)
(* that are == occupy a single slot of a set; `in` agrees with iterate-and-compare;   *)
(* a container is truthy exactly when its length is non-zero.                         *)
(* With Rounded = TRUE (pre-fix int/float comparison) the run must report violations  *)
(* (negative self-test).  Invariants stay TRUE; violations are SEQLAW lines.          *)
EXTENDS Values

VARIABLE xs          \* a sequence of universe indices
Init == xs = <<>>
Next == Len(xs) < MaxLen /\ \E s \in 1..Len(Sub): xs' = Append(xs, Sub[s])

V == [i \in 1..Len(xs) |-> U[xs[i]]]
Report(law) == PrintT(<<"SEQLAW", "spec", law, xs>>)

SortLaws ==
  LET v == V  n == Len(xs)  r == Sorted(v) IN
  r.ok =>
    LET p == r.perm
        ys == [i \in 1..n |-> v[p[i]]]
        again == Sorted(ys)
    IN /\ (Len(p) = n /\ {p[i] : i \in 1..n} = 1..n) \/ Report("sorted-permutation")
       /\ (\A i, j \in 1..n: i < j => Compare(ys[j], ys[i]).c >= 0) \/ Report("sorted-ordered")
       /\ (\A i, j \in 1..n: (i < j /\ Compare(ys[i], ys[j]).c = 0) => p[i] < p[j]) \/ Report("sorted-stable")
       /\ (again.ok /\ again.perm = [i \in 1..n |-> i]) \/ Report("sorted-idempotent")

SetLaws ==
  LET v == V  n == Len(xs)  s == SetOf(v) IN
  s.ok =>
    /\ (\A i, j \in 1..n: (HashKey(v[i]) = HashKey(v[j])) <=> (v[i].t = v[j].t /\ Equals(v[i], v[j])))
       \/ Report("set-one-slot-per-equal-value")
    /\ (\A k \in 1..Len(Sub): LET x == U[Sub[k]] IN
            InSetOf(v, x) <=> \E i \in 1..n: v[i].t = x.t /\ Equals(v[i], x))
       \/ Report("set-membership")

ListLaws ==
  LET v == V  n == Len(xs)  l == ListOf(v) IN
    /\ (\A k \in 1..Len(Sub): LET x == U[Sub[k]] IN Contains(l, x) <=> \E i \in 1..n: Equals(v[i], x))
       \/ Report("list-membership")
    /\ (Truthy(l) <=> Length(l) # 0) \/ Report("list-truthy")
=============================================================================
