----------------------------- MODULE ImportsMC -----------------------------
(* C14 legs M and G over module graphs.                                             *)
(* TLC builds every world (main program + module files) within the bounds WHILE it  *)
(* runs it: a body is extended statement by statement when the evaluation reaches   *)
(* its end (ExtendBody), closed with an epilogue of mutations/observations chosen   *)
(* from the types the spec assigns to the imported names (CloseBody), and a module  *)
(* file is created when it is first loaded (RunBody: empty-and-open, or a file      *)
(* whose only statement is an import of ../outside).  The invariants of Imports.tla *)
(* are checked in every intermediate state.  Every finished evaluation is printed   *)
(* as one CASE line (the world; ImportsCheck recomputes the expectation).           *)
EXTENDS Imports, Json

CONSTANTS LM,        \* import statements in main
          LB,        \* import statements per module body
          MB,        \* import statements in all module bodies together
          STYLE,     \* "small" | "full": menu of main statements
          WITHC,     \* a fourth module file A (next to a)
          EMIT       \* print CASE lines

VARIABLES w, s
vars == <<w, s>>

A == <<"a">>
B == <<"b">>
AB == <<"a", "b">>
C == <<"A">>                       \* differs from "a" by case only: a different file, a different module
ZZ == <<"zz">>                      \* never present
OUT == <<"..", "outside">>          \* escapes the root: must never be loaded

Files == << [name |-> A, present |-> TRUE, init |-> 10],
            [name |-> B, present |-> TRUE, init |-> 20],
            [name |-> AB, present |-> TRUE, init |-> 30] >>
         \o (IF WITHC THEN << [name |-> C, present |-> TRUE, init |-> 40] >> ELSE <<>>)
Tgts == {Files[k].name : k \in 1..Len(Files)}

Imp(T, form, alias) == [k |-> "imp", tgt |-> T, form |-> form, alias |-> alias, items |-> <<>>, grouped |-> 0]
From(P, form, items, grouped) == [k |-> "from", tgt |-> P, form |-> form, alias |-> "",
                                  items |-> items, grouped |-> grouped]
Op(k, v) == [k |-> k, var |-> v]
It(n, a) == [n |-> n, a |-> a]

\* import inside a function body (the name is a local of the function)
Fimp(T, form, alias) == [Imp(T, form, alias) EXCEPT !.k = "fimp"]
\* ... and the same function run in a spawned thread (a clone of the VM) that is waited for
Sfimp(T, form, alias) == [Imp(T, form, alias) EXCEPT !.k = "sfimp"]
ImpForms(T) == IF Len(T) = 1
               THEN {Imp(T, "ident", ""), Imp(T, "ident", "p"), Imp(T, "quoted", ""), Imp(T, "quoted", "q"),
                     Fimp(T, "ident", ""), Sfimp(T, "ident", "")}
               ELSE {Imp(T, "quoted", ""), Imp(T, "quoted", "p"), Fimp(T, "quoted", "q"), Sfimp(T, "quoted", "q")}
ItemsFull == { <<It("getx", "")>>, <<It("x", "")>>, <<It("bump", "h")>>,
               <<It("getx", ""), It("bump", "h")>>,
               <<It("bump", "g"), It("bump", "h")>>,          \* one name under two aliases
               <<It("b", "")>>,                                \* sub-module a/b, or attribute b of the module
               <<It("b", "q"), It("x", "g")>>,
               <<It("b", "p"), It("b", "q")>> }
ItemsSmall == { <<It("getx", "")>>, <<It("x", "g"), It("bump", "h")>>,
                <<It("bump", "g"), It("bump", "h")>>, <<It("b", "")>>, <<It("b", "p"), It("b", "q")>> }
Shapes == IF STYLE = "full" THEN {<<"dotted", 0>>, <<"quoted", 0>>, <<"dotted", 1>>, <<"quoted", 2>>}
          ELSE {<<"dotted", 0>>, <<"quoted", 2>>}
MainMenu ==
  UNION {ImpForms(T) : T \in Tgts \cup {ZZ}}
  \cup {From(P, sh[1], its, sh[2]) : P \in Tgts, sh \in Shapes,
                                     its \in IF STYLE = "full" THEN ItemsFull ELSE ItemsSmall}
\* what a module file may contain
ModMenu ==
  UNION {{Imp(T, IF Len(T) = 1 THEN "ident" ELSE "quoted", ""), Imp(T, "quoted", "p"),
          From(T, "dotted", <<It("bump", "h")>>, 0), From(T, "quoted", <<It("x", "")>>, 1)} : T \in Tgts}
  \cup {Imp(ZZ, "ident", ""), From(A, "dotted", <<It("b", "")>>, 0)}
Poison == <<Imp(OUT, "quoted", "")>>

World0 == [tree |-> "set", main |-> <<>>, mainclosed |-> FALSE,
           mods |-> [k \in 1..Len(Files) |->
                       [name |-> Files[k].name, present |-> Files[k].present, init |-> Files[k].init,
                        body |-> <<>>, set |-> FALSE, closed |-> FALSE]]]

NImports(body) == Cardinality({k \in 1..Len(body): body[k].k \in {"imp", "fimp", "sfimp", "from"}})
RECURSIVE SumImports(_, _)
SumImports(ww, k) == IF k > Len(ww.mods) THEN 0 ELSE NImports(ww.mods[k].body) + SumImports(ww, k + 1)

IsClosed(ww, T) == IF T = MainName THEN ww.mainclosed ELSE ww.mods[ModIdx(ww, T)].closed
SetBody(ww, T, body, closed) ==
  IF T = MainName THEN [ww EXCEPT !.main = body, !.mainclosed = closed]
  ELSE [ww EXCEPT !.mods = [@ EXCEPT ![ModIdx(ww, T)] = [@ EXCEPT !.body = body, !.set = TRUE, !.closed = closed]]]
CanExtend(ww, T) == IF T = MainName THEN Len(ww.main) < LM
                    ELSE Len(BodyOf(ww, T)) < LB /\ SumImports(ww, 1) < MB

\* the names a body binds, in binding order
RECURSIVE Bound(_, _)
Bound(body, k) ==
  IF k > Len(body) THEN <<>>
  ELSE LET st == body[k]
           vs == IF st.k = "imp" THEN <<IF st.alias # "" THEN st.alias ELSE st.tgt[Len(st.tgt)]>>
                 ELSE IF st.k = "from"
                 THEN [j \in 1..Len(st.items) |-> IF st.items[j].a # "" THEN st.items[j].a ELSE st.items[j].n]
                 ELSE <<>>
       IN vs \o Bound(body, k + 1)
RECURSIVE Dedupe(_, _, _)
Dedupe(q, k, seen) == IF k > Len(q) THEN <<>>
                      ELSE IF q[k] \in seen THEN Dedupe(q, k + 1, seen)
                      ELSE <<q[k]>> \o Dedupe(q, k + 1, seen \cup {q[k]})
\* mutate and observe through every imported name, by the type the SPEC gives it
RECURSIVE EpiFor(_, _, _, _, _)
EpiFor(st, i, vs, k, ismain) ==
  IF k > Len(vs) THEN <<>>
  ELSE LET val == Lookup(st, i, vs[k])
           ops == IF vs[k] = "x" THEN <<>>
                  ELSE IF val.t = "mod"
                  THEN IF ismain THEN <<Op("mbump", vs[k]), Op("mx", vs[k]), Op("mget", vs[k])>>
                       ELSE <<Op("mbump", vs[k])>>
                  ELSE IF val.t = "fn" THEN <<Op("call", vs[k])>>
                  ELSE IF val.t = "int" THEN <<Op("val", vs[k])>>
                  ELSE <<>>
       IN ops \o EpiFor(st, i, vs, k + 1, ismain)
Epilogue(ww, st, i) ==
  LET T == st.insts[i].name
      vs == Dedupe(Bound(BodyOf(ww, T), 1), 1, {})
  IN EpiFor(st, i, vs, 1, T = MainName) \o <<Op("own", "")>>

NeedsFile(ww, st, T) == /\ T # <<>> /\ ~OnStack(st, T) /\ T \notin st.codeCache
                        /\ ModIdx(ww, T) # 0 /\ Present(ww, T) /\ ~ww.mods[ModIdx(ww, T)].set

Init == w = World0 /\ s = InitState(World0)

\* RunBody(T): the file is created at its first load
CreateFile == LET T == Want(w, s) IN
  /\ NeedsFile(w, s, T)
  /\ \/ w' = SetBody(w, T, <<>>, FALSE)
     \/ SumImports(w, 1) < MB /\ w' = SetBody(w, T, Poison, TRUE)
  /\ s' = s
AtEnd == LET f == Top(s) IN Want(w, s) = <<>> /\ f.pc > Len(BodyOf(w, s.insts[f.o].name))
                              /\ ~IsClosed(w, s.insts[f.o].name)
ExtendBody == LET T == s.insts[Top(s).o].name IN
  /\ AtEnd /\ CanExtend(w, T)
  /\ \E st \in IF T = MainName THEN MainMenu ELSE ModMenu:
        w' = SetBody(w, T, Append(BodyOf(w, T), st), FALSE)
  /\ s' = s
CloseBody == LET T == s.insts[Top(s).o].name IN
  /\ AtEnd /\ (T = MainName => Len(w.main) >= 1)
  /\ w' = SetBody(w, T, BodyOf(w, T) \o Epilogue(w, s, Top(s).o), TRUE)
  /\ s' = s
\* ImportStmt / FromImport / RunBody / observation: one transition of the machine
Step == /\ ~NeedsFile(w, s, Want(w, s)) /\ ~AtEnd
        /\ s' = Exec(w, s) /\ w' = w
Next == s.status = "run" /\ (CreateFile \/ ExtendBody \/ CloseBody \/ Step)

\* ---------------------------------------------------------------- invariants (leg M)
InvRunOnce == RunOnce(s)
InvNoReentry == NoReentry(s)
InvSameState == SameState(s)
InvConfined == OpensConfined(s)
\* a loaded sentinel would show as a tick of a name with a ".." segment
InvNoOutsideRun == \A T \in DOMAIN s.ran: AcceptsName(T)
OwnCells == [][OneCell(s, s')]_vars
\* a module's x changes only through that module's own code (bump/own), never by an
\* assignment to x in main or in another module: checked by OneCell; main's x is touched
\* by main's statements only:
MainX == [][(s'.insts[1].env["x"] # s.insts[1].env["x"]) => Top(s).o = 1]_vars

NonTrivial(st) == \E T \in DOMAIN st.uses: st.uses[T] >= 2
Slim(st) == IF st.k \in {"imp", "fimp", "sfimp"} THEN [k |-> st.k, tgt |-> st.tgt, form |-> st.form, alias |-> st.alias]
            ELSE IF st.k = "from" THEN [k |-> "from", tgt |-> st.tgt, form |-> st.form, items |-> st.items, grouped |-> st.grouped]
            ELSE st
SlimBody(b) == [k \in 1..Len(b) |-> Slim(b[k])]
Emit == (EMIT /\ s.status # "run") =>
   PrintT(<<"CASE", ToJson([kind |-> "graph", tree |-> w.tree, main |-> SlimBody(w.main),
                            mods |-> [k \in 1..Len(w.mods) |->
                                        [name |-> w.mods[k].name, present |-> w.mods[k].present,
                                         init |-> w.mods[k].init, body |-> SlimBody(w.mods[k].body)]],
                            nt |-> NonTrivial(s), st |-> s.status])>>)
=============================================================================
