INIT TInit
NEXT TNext
INVARIANT Stuck
INVARIANT Complete
CHECK_DEADLOCK FALSE
