---------------------------- MODULE ConfigCheck ----------------------------
(* C11, leg G: the real risor.Config against Config.tla, one configuration per TLC    *)
(* state.  Each line of VERIF_CASES is {id, nodefaults, deny, ov, paths, graph, after,*)
(* att}: the configuration, the REAL object graph walked from cfg.Globals(), the real *)
(* graph of a default configuration built afterwards, and for every access path of    *)
(* the spec's path set and every style (identifier/attribute, getattr, import,        *)
(* import-as, from-import, from-import-as) the label risor.Eval produced under the    *)
(* configuration.  The (always true) invariant prints a MISMATCH line per finding.    *)
EXTENDS ConfigGraph
Cases == ndJsonDeserialize(IOEnv.VERIF_CASES)
CanonU0 == Canon(U0)
ReplRoots == {ReplRoot(k) : k \in Kinds}
KindOfRoot(i) == CHOOSE k \in Kinds : ReplRoot(k) = i
VARIABLE i
Init == i = 1
Next == i <= Len(Cases) /\ i' = i + 1

Report(id, kind, x) == PrintT(<<"MISMATCH", id, kind, ToJson(x)>>)

AttemptOK(E, paths, a) ==
  LET exp == Observe(E, paths[a.p], a.s) IN
  \* style "fwd" (x := NAME, then the script's own func NAME() {}, value x): the script reads its own function's
  \* name before the definition has run; whatever that yields, it must not be a removed object (rule "direct" below)
  IF a.s = "fwd" THEN TRUE
  ELSE IF ~GetattrJudged(E, paths[a.p], a.s) THEN TRUE
  ELSE IF exp = 0 THEN ~a.ok
  ELSE a.ok /\ a.l = E.nodes[exp].l /\ (exp \in ReplRoots => a.r = KindOfRoot(exp))
Describe(E, paths, a) ==
  [path |-> paths[a.p], style |-> a.s, got_ok |-> a.ok, got |-> a.l, got_repl |-> a.r,
   expected |-> IF a.s = "fwd" THEN "(anything but a removed object)" ELSE LabelOf(E, Observe(E, paths[a.p], a.s))]

Check == i <= Len(Cases) =>
  LET row == Cases[i]
      c == [nodefaults |-> row.nodefaults, deny |-> row.deny, ov |-> row.ov]
      E == Expected(c)
      R == [env |-> row.graph.env, nodes |-> row.graph.nodes]
      A == [env |-> row.after.env, nodes |-> row.after.nodes]
      cR == Canon(R)
      cE == Canon(E)
      bad == {k \in DOMAIN row.att : ~AttemptOK(E, row.paths, row.att[k])}
      \* independent of Expected: a successful attempt never yields a removed object that has no name left
      dead == {U0.nodes[j].l : j \in RemovedObjs(c)} \ NamedL(E)
      direct == {k \in DOMAIN row.att : row.att[k].ok /\ row.att[k].l \in dead}
  IN /\ WellFormed(c) \/ Report(row.id, "ill-formed", c)
     /\ (Len(row.graph.ambiguous) = 0 /\ Len(row.after.ambiguous) = 0) \/ Report(row.id, "ambiguous-label", row.graph.ambiguous \o row.after.ambiguous)
     /\ cR = cE \/ Report(row.id, "graph", CanonDiff(cR, cE))
     /\ Leaked(c, R) = {} \/ Report(row.id, "removed-object-reachable", Leaked(c, R))
     /\ NotReplaced(c, R) = {} \/ Report(row.id, "override-not-observed", NotReplaced(c, R))
     /\ Canon(A) = CanonU0 \/ Report(row.id, "second-configuration-differs", CanonDiff(Canon(A), CanonU0))
     /\ direct = {} \/ Report(row.id, "script-reached-removed-object", {Describe(E, row.paths, row.att[k]) : k \in direct})
     /\ bad = {} \/ Report(row.id, "attempt", {Describe(E, row.paths, row.att[k]) : k \in bad})
=============================================================================
