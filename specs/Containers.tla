----------------------------- MODULE Containers -----------------------------
(***************************************************************************)
(* Reference model of risor's lists, maps, sets and strings (property C16, *)
(* DESIGN.md 5/C16, Appendix A "Containers") with EXPLICIT ALIASING.       *)
(*                                                                         *)
(*   heap : Seq(Cell)          Addr = 1..Len(heap)                         *)
(*      Cell = [t: "list", items: Seq(Val)]                                *)
(*           | [t: "map",  m: [Key -> Val]]        Key = code point tuple  *)
(*           | [t: "set",  keys: SUBSET SetKey]    SetKey = <<type,n,cps>> *)
(*   env  : Name -> Val        name -> value bindings                      *)
(*   Val  = nil | bool | int | float (halves: h/2) | str (code points)     *)
(*        | list(a) | map(a) | set(a)     references: nesting + aliasing   *)
(*                                                                         *)
(* One operator per container operation gives its exact result / error and *)
(* its effect on the heap.  An operation returns a NEW address exactly     *)
(* where the real operation copies (slice, copy, sorted, reversed, +,      *)
(* keys/values/items, union/intersection/difference, map/filter) and the   *)
(* SAME address where it mutates in place (append, insert, extend, remove, *)
(* reverse, sort, clear, update, add, ...).                                *)
(*                                                                         *)
(* A step is a record [op, dst, x, a, b, items, keys, cb] (the JSON rows   *)
(* the Go driver harness/cmd/containers applies to the real objects);      *)
(* Apply(st, heap, env) is its meaning.  Results are tagged records        *)
(*   [k: "ok"|"raise"|"unknown", v, kind, h, trunc]                        *)
(* "unknown" = outside the modelled domain (cyclic / too deep / too long   *)
(* data, unmodelled receiver) - never a verdict.  trunc = the state after  *)
(* the step is not determined by the model (failed in-place sort: the      *)
(* list is left as some permutation); a history stops there.               *)
(***************************************************************************)
EXTENDS Integers, Sequences, FiniteSets, TLC

NameSeq == <<"a", "b", "c", "d">>
Names == {"a", "b", "c", "d"}
MAXSZ == 14      \* longest list / largest map or set kept in the model
MAXD == 5        \* deepest nesting kept in the model (run.Project is depth limited)

\* ================= values =================
VNil == [t |-> "nil"]
VBool(b) == [t |-> "bool", v |-> b]
VInt(n) == [t |-> "int", v |-> n]
VFlt(h) == [h |-> h, t |-> "float"]            \* the float h/2
VStr(s) == [t |-> "str", v |-> s]
\* a value of a type outside the model that is string-LIKE in Go (byte_slice, buffer) with the given text: as a
\* subscript it is a wrongly typed key like any other non-string, whatever text it carries
VFor(n, s) == [t |-> "foreign", n |-> n, v |-> s]
VList(a) == [a |-> a, t |-> "list"]
VMap(a) == [a |-> a, t |-> "map"]
VSet(a) == [a |-> a, t |-> "set"]
IsRef(v) == v.t \in {"list", "map", "set"}
IsNum(v) == v.t \in {"int", "float"}
Num2(v) == IF v.t = "int" THEN 2 * v.v ELSE v.h  \* twice the numeric value

R(k, v, kind, h, trunc) == [k |-> k, v |-> v, kind |-> kind, h |-> h, trunc |-> trunc]
Ok(v, h) == R("ok", v, "", h, FALSE)
Err(kind, h) == R("raise", VNil, kind, h, FALSE)
Unk(h) == R("unknown", VNil, "", h, FALSE)

ListCell(items) == [items |-> items, t |-> "list"]
MapCell(m) == [m |-> m, t |-> "map"]
SetCell(keys) == [keys |-> keys, t |-> "set"]
OkNewList(items, h) == LET h2 == Append(h, ListCell(items)) IN Ok(VList(Len(h2)), h2)
OkNewMap(m, h) == LET h2 == Append(h, MapCell(m)) IN Ok(VMap(Len(h2)), h2)
OkNewSet(keys, h) == LET h2 == Append(h, SetCell(keys)) IN Ok(VSet(Len(h2)), h2)

\* ---------- sequences of code points ----------
RECURSIVE LexLess(_,_)
LexLess(a, b) == IF Len(b) = 0 THEN FALSE ELSE IF Len(a) = 0 THEN TRUE
                 ELSE IF a[1] < b[1] THEN TRUE ELSE IF a[1] > b[1] THEN FALSE
                 ELSE LexLess(Tail(a), Tail(b))
RECURSIVE SortKeys(_)
SortKeys(ks) == IF ks = {} THEN <<>> ELSE
   LET m == CHOOSE x \in ks: \A y \in ks: x = y \/ LexLess(x, y) IN <<m>> \o SortKeys(ks \ {m})
IsPrefixOf(a, b) == Len(a) <= Len(b) /\ SubSeq(b, 1, Len(a)) = a
RECURSIVE IsSub(_,_)
IsSub(a, b) == IF Len(a) > Len(b) THEN FALSE ELSE IsPrefixOf(a, b) \/ IsSub(a, Tail(b))
RECURSIVE Rev(_)
Rev(sq) == IF Len(sq) = 0 THEN <<>> ELSE Rev(Tail(sq)) \o <<Head(sq)>>
Without(sq, j) == SubSeq(sq, 1, j - 1) \o SubSeq(sq, j + 1, Len(sq))     \* drop position j (1-based)

\* ---------- set members: one slot per (type, value); order (type name, int, string, float) ----------
Hashable(v) == v.t \in {"int", "str", "bool", "nil", "float"}
SetKey(v) == CASE v.t = "int" -> <<"int", v.v, <<>>>> [] v.t = "str" -> <<"string", 0, v.v>>
               [] v.t = "bool" -> <<"bool", IF v.v THEN 1 ELSE 0, <<>>>> [] v.t = "nil" -> <<"nil", 0, <<>>>>
               [] v.t = "float" -> <<"float", v.h, <<>>>>
TypeOrd(t) == CASE t = "bool" -> 1 [] t = "float" -> 2 [] t = "int" -> 3 [] t = "nil" -> 4 [] t = "string" -> 5
KeyLess(a, b) == IF a[1] # b[1] THEN TypeOrd(a[1]) < TypeOrd(b[1])
                 ELSE IF a[2] # b[2] THEN a[2] < b[2] ELSE LexLess(a[3], b[3])
RECURSIVE SortSetKeys(_)
SortSetKeys(ks) == IF ks = {} THEN <<>> ELSE
   LET m == CHOOSE x \in ks: \A y \in ks: x = y \/ KeyLess(x, y) IN <<m>> \o SortSetKeys(ks \ {m})
KeyVal(k) == CASE k[1] = "int" -> VInt(k[2]) [] k[1] = "string" -> VStr(k[3])
               [] k[1] = "bool" -> VBool(k[2] = 1) [] k[1] = "float" -> VFlt(k[2]) [] OTHER -> VNil
SetItemsOf(keys) == LET ks == SortSetKeys(keys) IN [i \in 1..Len(ks) |-> KeyVal(ks[i])]

Items(v, h) == h[v.a].items
MapOf(v, h) == h[v.a].m
KeysOf(v, h) == h[v.a].keys
MapKeys(v, h) == SortKeys(DOMAIN MapOf(v, h))

\* the abstract length of a container value
SizeOf(v, h) == CASE v.t = "list" -> Len(Items(v, h)) [] v.t = "str" -> Len(v.v)
                  [] v.t = "map" -> Cardinality(DOMAIN MapOf(v, h)) [] v.t = "set" -> Cardinality(KeysOf(v, h))
                  [] OTHER -> 0

Truthy(v, h) == CASE v.t = "int" -> v.v # 0 [] v.t = "float" -> v.h # 0 [] v.t = "bool" -> v.v [] v.t = "nil" -> FALSE
                  [] OTHER -> SizeOf(v, h) > 0

\* ---------- equality (Equals) and ordering (Compare) ----------
RECURSIVE VEq(_,_,_)
RECURSIVE SeqEq(_,_,_)
SeqEq(x, y, h) == IF Len(x) # Len(y) THEN FALSE ELSE IF Len(x) = 0 THEN TRUE
                  ELSE VEq(Head(x), Head(y), h) /\ SeqEq(Tail(x), Tail(y), h)
VEq(a, b, h) ==
  IF IsNum(a) /\ IsNum(b) THEN Num2(a) = Num2(b)           \* 1 == 1.0
  ELSE IF a.t # b.t THEN FALSE
  ELSE CASE a.t \in {"bool", "str"} -> a.v = b.v
         [] a.t = "nil" -> TRUE
         [] a.t = "list" -> SeqEq(Items(a, h), Items(b, h), h)
         [] a.t = "map" -> LET ma == MapOf(a, h) mb == MapOf(b, h) IN
               DOMAIN ma = DOMAIN mb /\ \A k \in DOMAIN ma: VEq(ma[k], mb[k], h)
         [] a.t = "set" -> KeysOf(a, h) = KeysOf(b, h)       \* by hash key: {1} # {1.0}
RECURSIVE SeqHas(_,_,_)
SeqHas(items, x, h) == IF Len(items) = 0 THEN FALSE ELSE VEq(Head(items), x, h) \/ SeqHas(Tail(items), x, h)
FirstIdx(items, x, h) ==   \* 1-based position of the first element equal to x, 0 if none
  LET hits == {i \in 1..Len(items): VEq(x, items[i], h)} IN
  IF hits = {} THEN 0 ELSE CHOOSE i \in hits: \A j \in hits: i <= j

CmpInt(x, y) == IF x = y THEN 0 ELSE IF x < y THEN -1 ELSE 1
RECURSIVE VCmp(_,_,_)
RECURSIVE SeqCmp(_,_,_)
SeqCmp(x, y, h) == IF Len(x) = 0 THEN [ok |-> TRUE, c |-> 0] ELSE
    LET r == VCmp(Head(x), Head(y), h) IN IF ~r.ok \/ r.c # 0 THEN r ELSE SeqCmp(Tail(x), Tail(y), h)
VCmp(a, b, h) ==     \* [ok, c]; ok = FALSE: the two values have no order (error)
  CASE IsNum(a) /\ IsNum(b) -> [ok |-> TRUE, c |-> CmpInt(Num2(a), Num2(b))]
    [] a.t = "str" /\ b.t = "str" -> [ok |-> TRUE, c |-> IF a.v = b.v THEN 0 ELSE IF LexLess(a.v, b.v) THEN -1 ELSE 1]
    [] a.t = "bool" /\ b.t = "bool" -> [ok |-> TRUE, c |-> IF a.v = b.v THEN 0 ELSE IF a.v THEN 1 ELSE -1]
    [] a.t = "nil" /\ b.t = "nil" -> [ok |-> TRUE, c |-> 0]
    [] a.t = "list" /\ b.t = "list" -> LET x == Items(a, h) y == Items(b, h) IN
          IF Len(x) # Len(y) THEN [ok |-> TRUE, c |-> CmpInt(Len(x), Len(y))] ELSE SeqCmp(x, y, h)
    [] OTHER -> [ok |-> FALSE, c |-> 0]
\* stable sort by VCmp (insertion sort); [ok, v]
RECURSIVE InsertSorted(_,_,_)
InsertSorted(x, sorted, h) ==
  IF Len(sorted) = 0 THEN [ok |-> TRUE, v |-> <<x>>]
  ELSE LET c == VCmp(x, Head(sorted), h) IN
       IF ~c.ok THEN [ok |-> FALSE, v |-> <<>>]
       ELSE IF c.c < 0 THEN [ok |-> TRUE, v |-> <<x>> \o sorted]
       ELSE LET r == InsertSorted(x, Tail(sorted), h) IN [ok |-> r.ok, v |-> <<Head(sorted)>> \o r.v]
RECURSIVE SortVals(_,_)
SortVals(xs, h) ==
  IF Len(xs) = 0 THEN [ok |-> TRUE, v |-> <<>>]
  ELSE LET r == SortVals(SubSeq(xs, 1, Len(xs) - 1), h) IN
       IF ~r.ok THEN r ELSE InsertSorted(xs[Len(xs)], r.v, h)

\* ================= index arithmetic =================
\* index -len..len-1, else index error (-1)
ResolveIdx(i, n) == LET j == IF i < 0 THEN i + n ELSE i IN IF j < 0 \/ j >= n THEN -1 ELSE j
\* slice bounds: lo/hi are [has, v]; after negative adjustment 0 <= start <= stop <= len and start <= len-1
SliceBounds(lo, hi, n) ==
  IF (lo.has /\ lo.v.t # "int") \/ (hi.has /\ hi.v.t # "int") THEN [ok |-> FALSE, kind |-> "type error"]
  ELSE LET st0 == IF lo.has THEN lo.v.v ELSE 0
           sp0 == IF hi.has THEN hi.v.v ELSE n
           st == IF st0 < 0 THEN n + st0 ELSE st0
           sp == IF sp0 < 0 THEN n + sp0 ELSE sp0
       IN IF st < 0 \/ sp < 0 \/ st > sp \/ st > n - 1 \/ sp > n THEN [ok |-> FALSE, kind |-> "slice error"]
          ELSE [ok |-> TRUE, a |-> st, b |-> sp]

\* ================= subscript, slice, membership, length =================
GetItem(c, i, h) ==                                             \* c[i]
  CASE c.t = "list" -> IF i.t # "int" THEN Err("type error", h) ELSE
         LET items == Items(c, h) j == ResolveIdx(i.v, Len(items)) IN
         IF j < 0 THEN Err("index error", h) ELSE Ok(items[j + 1], h)
    [] c.t = "str" -> IF i.t # "int" THEN Err("type error", h) ELSE
         LET j == ResolveIdx(i.v, Len(c.v)) IN
         IF j < 0 THEN Err("index error", h) ELSE Ok(VStr(<<c.v[j + 1]>>), h)     \* by code point
    [] c.t = "map" -> IF i.t # "str" THEN Err("type error", h) ELSE
         LET m == MapOf(c, h) IN IF i.v \in DOMAIN m THEN Ok(m[i.v], h) ELSE Err("key error", h)
    [] c.t = "set" -> IF ~Hashable(i) THEN Err("type error", h) ELSE Ok(VBool(SetKey(i) \in KeysOf(c, h)), h)
    [] OTHER -> Err("type error", h)

SetItem(c, i, v, h) ==                                          \* c[i] = v
  CASE c.t = "list" -> IF i.t # "int" THEN Err("type error", h) ELSE
         LET j == ResolveIdx(i.v, Len(Items(c, h))) IN
         IF j < 0 THEN Err("index error", h) ELSE Ok(VNil, [h EXCEPT ![c.a].items[j + 1] = v])
    [] c.t = "map" -> IF i.t # "str" THEN Err("type error", h) ELSE
         Ok(VNil, [h EXCEPT ![c.a].m = (i.v :> v) @@ @])
    [] OTHER -> Err("type error", h)                             \* sets, strings, scalars

GetSlice(c, lo, hi, h) ==                                       \* c[lo:hi] : a FRESH list / a string
  CASE c.t = "list" -> LET b == SliceBounds(lo, hi, Len(Items(c, h))) IN
          IF ~b.ok THEN Err(b.kind, h) ELSE OkNewList(SubSeq(Items(c, h), b.a + 1, b.b), h)
    [] c.t = "str" -> LET b == SliceBounds(lo, hi, Len(c.v)) IN
          IF ~b.ok THEN Err(b.kind, h) ELSE Ok(VStr(SubSeq(c.v, b.a + 1, b.b)), h)
    [] OTHER -> Err("type error", h)

Contains(c, x, h) ==                                            \* x in c
  CASE c.t = "list" -> Ok(VBool(SeqHas(Items(c, h), x, h)), h)
    [] c.t = "str" -> Ok(VBool(x.t = "str" /\ IsSub(x.v, c.v)), h)
    [] c.t = "map" -> Ok(VBool(x.t = "str" /\ x.v \in DOMAIN MapOf(c, h)), h)
    [] c.t = "set" -> Ok(VBool(Hashable(x) /\ SetKey(x) \in KeysOf(c, h)), h)
    [] OTHER -> Err("type error", h)

LenOf(c, h) == IF IsRef(c) \/ c.t = "str" THEN Ok(VInt(SizeOf(c, h)), h) ELSE Err("type error", h)

DelItem(c, k, h) ==                                             \* delete(c, k)
  CASE c.t = "list" -> IF k.t # "int" THEN Err("type error", h) ELSE
         LET j == ResolveIdx(k.v, Len(Items(c, h))) IN
         IF j < 0 THEN Err("index error", h) ELSE Ok(VNil, [h EXCEPT ![c.a].items = Without(@, j + 1)])
    [] c.t = "map" -> IF k.t # "str" THEN Err("type error", h) ELSE
         LET m == MapOf(c, h) IN Ok(VNil, [h EXCEPT ![c.a].m = [q \in DOMAIN m \ {k.v} |-> m[q]]])
    [] c.t = "set" -> IF ~Hashable(k) THEN Err("type error", h) ELSE
         Ok(VNil, [h EXCEPT ![c.a].keys = @ \ {SetKey(k)}])
    [] OTHER -> Err("type error", h)

\* x + y
Plus(x, y, h) ==
  CASE x.t = "int" /\ y.t = "int" -> Ok(VInt(x.v + y.v), h)
    [] IsNum(x) /\ IsNum(y) -> Ok(VFlt((Num2(x) + Num2(y))), h)
    [] x.t = "str" /\ y.t = "str" -> Ok(VStr(x.v \o y.v), h)
    [] x.t = "list" /\ y.t = "list" -> OkNewList(Items(x, h) \o Items(y, h), h)
    [] OTHER -> Err("type error", h)

\* c[i] += v : read, add, write back
CompoundSet(c, i, v, h) ==
  LET g == GetItem(c, i, h) IN IF g.k # "ok" THEN g ELSE
  LET s == Plus(g.v, v, h) IN IF s.k # "ok" THEN s ELSE SetItem(c, i, s.v, s.h)

\* ================= list methods (mutate in place, return the list) =================
ListAppend(c, v, h) == Ok(c, [h EXCEPT ![c.a].items = Append(@, v)])
ListInsert(c, i, v, h) ==
  IF i.t # "int" THEN Err("type error", h) ELSE
  LET items == Items(c, h) n == Len(items)
      j == IF i.v < 0 THEN (IF n + i.v < 0 THEN 0 ELSE n + i.v) ELSE (IF i.v > n THEN n ELSE i.v)
  IN Ok(c, [h EXCEPT ![c.a].items = SubSeq(items, 1, j) \o <<v>> \o SubSeq(items, j + 1, n)])
ListPop(c, i, h) ==
  IF i.t # "int" THEN Err("type error", h) ELSE
  LET items == Items(c, h) j == ResolveIdx(i.v, Len(items)) IN
  IF j < 0 THEN Err("index error", h) ELSE Ok(items[j + 1], [h EXCEPT ![c.a].items = Without(items, j + 1)])
ListRemove(c, v, h) ==
  LET items == Items(c, h) j == FirstIdx(items, v, h) IN
  IF j = 0 THEN Ok(c, h) ELSE Ok(c, [h EXCEPT ![c.a].items = Without(items, j)])
ListExtend(c, o, h) == IF o.t # "list" THEN Err("type error", h)
                       ELSE Ok(c, [h EXCEPT ![c.a].items = @ \o Items(o, h)])
ListReverse(c, h) == Ok(c, [h EXCEPT ![c.a].items = Rev(@)])
ListSort(c, h) == LET r == SortVals(Items(c, h), h) IN
                  IF r.ok THEN Ok(c, [h EXCEPT ![c.a].items = r.v])
                  ELSE R("raise", VNil, "anyerror", h, TRUE)      \* left as some permutation: not modelled further
ListClear(c, h) == Ok(c, [h EXCEPT ![c.a].items = <<>>])
ListCopy(c, h) == OkNewList(Items(c, h), h)
ListCount(c, v, h) == Ok(VInt(Cardinality({i \in 1..Len(Items(c, h)): VEq(v, Items(c, h)[i], h)})), h)
ListIndex(c, v, h) == Ok(VInt(FirstIdx(Items(c, h), v, h) - 1), h)

\* allocate one fresh two-element list per pair, then the list of them
RECURSIVE AllocPairs(_,_,_)
AllocPairs(pairs, h, acc) ==
  IF Len(pairs) = 0 THEN OkNewList(acc, h)
  ELSE LET h2 == Append(h, ListCell(Head(pairs))) IN AllocPairs(Tail(pairs), h2, Append(acc, VList(Len(h2))))

\* callbacks: cb = "id"  func(x) { return x }            (map, filter)
\*            cb = "iv"  func(i, x) { return [i, x] }     (map: the callback observes its index)
\*            cb = "i"   func(i, x) { return i }          (map)
\*            cb = "acc" func(x) { acc.append(x) }        (each; acc is the value of argument a)
ListMap(c, cb, h) ==
  LET items == Items(c, h) IN
  CASE cb = "id" -> OkNewList(items, h)
    [] cb = "i" -> OkNewList([i \in 1..Len(items) |-> VInt(i - 1)], h)
    [] cb = "iv" -> AllocPairs([i \in 1..Len(items) |-> <<VInt(i - 1), items[i]>>], h, <<>>)
    [] OTHER -> Unk(h)
SelectSeq2(items, h) ==   \* the truthy elements, in order
  LET RECURSIVE F(_)
      F(xs) == IF Len(xs) = 0 THEN <<>> ELSE (IF Truthy(Head(xs), h) THEN <<Head(xs)>> ELSE <<>>) \o F(Tail(xs))
  IN F(items)
ListFilter(c, cb, h) == IF cb = "id" THEN OkNewList(SelectSeq2(Items(c, h), h), h) ELSE Unk(h)
ListEach(c, cb, acc, h) ==
  IF cb # "acc" THEN Unk(h)
  ELSE IF Len(Items(c, h)) = 0 THEN Ok(VNil, h)
  ELSE IF acc.t # "list" THEN Err("type error", h)
  ELSE Ok(VNil, [h EXCEPT ![acc.a].items = @ \o Items(c, h)])    \* the callback sees the elements present at the call

\* ================= map methods =================
MapKeysL(c, h) == LET ks == MapKeys(c, h) IN OkNewList([i \in 1..Len(ks) |-> VStr(ks[i])], h)
MapValuesL(c, h) == LET ks == MapKeys(c, h) IN OkNewList([i \in 1..Len(ks) |-> MapOf(c, h)[ks[i]]], h)
MapItemsL(c, h) == LET ks == MapKeys(c, h) IN AllocPairs([i \in 1..Len(ks) |-> <<VStr(ks[i]), MapOf(c, h)[ks[i]]>>], h, <<>>)
\* Map METHODS take their key the way every builtin takes a string parameter: a string-like value (byte_slice,
\* buffer) is read as its text.  Subscripts (m[k], m[k] = v, delete, in) are strict: only a string is a key.
AsKey(k) == IF k.t = "foreign" THEN VStr(k.v) ELSE k
MapGet(c, k0, hasd, d, h) == LET k == AsKey(k0) IN IF k.t # "str" THEN Err("type error", h)
                            ELSE IF k.v \in DOMAIN MapOf(c, h) THEN Ok(MapOf(c, h)[k.v], h)
                            ELSE Ok(IF hasd THEN d ELSE VNil, h)
MapPop(c, k0, hasd, d, h) == LET k == AsKey(k0) IN IF k.t # "str" THEN Err("type error", h)
                            ELSE LET m == MapOf(c, h) IN
                                 IF k.v \in DOMAIN m THEN Ok(m[k.v], [h EXCEPT ![c.a].m = [q \in DOMAIN m \ {k.v} |-> m[q]]])
                                 ELSE Ok(IF hasd THEN d ELSE VNil, h)
MapSetDefault(c, k0, v, h) == LET k == AsKey(k0) IN IF k.t # "str" THEN Err("type error", h)
                             ELSE LET m == MapOf(c, h) IN
                                  IF k.v \in DOMAIN m THEN Ok(m[k.v], h) ELSE Ok(v, [h EXCEPT ![c.a].m = (k.v :> v) @@ @])
MapUpdate(c, o, h) == IF o.t # "map" THEN Err("type error", h) ELSE Ok(c, [h EXCEPT ![c.a].m = MapOf(o, h) @@ @])
MapClear(c, h) == Ok(c, [h EXCEPT ![c.a].m = <<>>])
MapCopy(c, h) == OkNewMap(MapOf(c, h), h)

\* ================= set methods =================
SetAdd(c, v, h) == IF ~Hashable(v) THEN Err("type error", h) ELSE Ok(c, [h EXCEPT ![c.a].keys = @ \cup {SetKey(v)}])
SetRemove(c, v, h) == IF ~Hashable(v) THEN Err("type error", h) ELSE Ok(c, [h EXCEPT ![c.a].keys = @ \ {SetKey(v)}])
SetClear(c, h) == Ok(c, [h EXCEPT ![c.a].keys = {}])
SetUnion(c, o, h) == IF o.t # "set" THEN Err("type error", h) ELSE OkNewSet(KeysOf(c, h) \cup KeysOf(o, h), h)
SetInter(c, o, h) == IF o.t # "set" THEN Err("type error", h) ELSE OkNewSet(KeysOf(c, h) \cap KeysOf(o, h), h)
SetDiff(c, o, h) == IF o.t # "set" THEN Err("type error", h) ELSE OkNewSet(KeysOf(c, h) \ KeysOf(o, h), h)

\* ================= builtins over containers =================
ElemsOf(c, h) == CASE c.t = "list" -> Items(c, h) [] c.t = "set" -> SetItemsOf(KeysOf(c, h))
                   [] c.t = "map" -> LET ks == MapKeys(c, h) IN [i \in 1..Len(ks) |-> VStr(ks[i])]
                   [] c.t = "str" -> [i \in 1..Len(c.v) |-> VStr(<<c.v[i]>>)]
Sorted(c, h) == IF ~(IsRef(c) \/ c.t = "str") THEN Err("type error", h)
                ELSE LET r == SortVals(ElemsOf(c, h), h) IN IF r.ok THEN OkNewList(r.v, h) ELSE Err("anyerror", h)
Reversed(c, h) == CASE c.t = "list" -> OkNewList(Rev(Items(c, h)), h) [] c.t = "str" -> Ok(VStr(Rev(c.v)), h)
                    [] OTHER -> Err("type error", h)
\* for k, v := range c { r.append([k, v]) } : the (key, value) pairs the container presents
IterPairs(c, h) ==
  CASE c.t = "list" -> [i \in 1..Len(Items(c, h)) |-> <<VInt(i - 1), Items(c, h)[i]>>]
    [] c.t = "str" -> [i \in 1..Len(c.v) |-> <<VInt(i - 1), VStr(<<c.v[i]>>)>>]
    [] c.t = "map" -> LET ks == MapKeys(c, h) IN [i \in 1..Len(ks) |-> <<VStr(ks[i]), MapOf(c, h)[ks[i]]>>]
    [] c.t = "set" -> LET xs == SetItemsOf(KeysOf(c, h)) IN [i \in 1..Len(xs) |-> <<xs[i], VBool(TRUE)>>]
Iterate(c, h) == IF IsRef(c) \/ c.t = "str" THEN AllocPairs(IterPairs(c, h), h, <<>>)
                 ELSE IF c.t \in {"nil", "bool"} THEN Err("type error", h) ELSE Unk(h)

\* ================= literals =================
MkList(vals, h) == OkNewList(vals, h)
RECURSIVE MapFrom(_,_,_)
MapFrom(ks, vals, m) == IF Len(ks) = 0 THEN m ELSE MapFrom(Tail(ks), Tail(vals), m @@ (Head(ks) :> Head(vals)))  \* first entry of a duplicated key wins
MkMap(ks, vals, h) == OkNewMap(MapFrom(ks, vals, <<>>), h)
MkSet(vals, h) == IF \E i \in 1..Len(vals): ~Hashable(vals[i]) THEN Err("type error", h)
                  ELSE OkNewSet({SetKey(vals[i]): i \in 1..Len(vals)}, h)

\* ================= steps =================
NoArg == [k |-> "-"]
NameArg(n) == [k |-> "n", n |-> n]
LitArg(v) == [k |-> "v", v |-> v]
Has(arg) == arg.k # "-"
ArgV(arg, env) == IF arg.k = "n" THEN env[arg.n] ELSE IF arg.k = "v" THEN arg.v ELSE VNil
Opt(arg, env) == [has |-> Has(arg), v |-> ArgV(arg, env)]
Step(op, dst, x, a, b) == [op |-> op, dst |-> dst, x |-> x, a |-> a, b |-> b, items |-> <<>>, keys |-> <<>>, cb |-> ""]
StepL(op, dst, items, keys) == [op |-> op, dst |-> dst, x |-> NoArg, a |-> NoArg, b |-> NoArg, items |-> items, keys |-> keys, cb |-> ""]
StepC(op, dst, x, a, cb) == [op |-> op, dst |-> dst, x |-> x, a |-> a, b |-> NoArg, items |-> <<>>, keys |-> <<>>, cb |-> cb]

\* operations that never change an existing cell (they may allocate a fresh one)
ReadOnlyOps == {"bind", "get", "slice", "in", "len", "count", "index", "copy", "keys", "values", "items", "mget",
                "attr", "sorted", "sortedby", "reversed", "plus", "union", "intersection", "difference", "map", "filter", "iter",
                "mklist", "mkmap", "mkset"}
\* operations whose container result is a fresh cell sharing nothing with the operand's cell
FreshOps == {"slice", "copy", "keys", "values", "items", "sorted", "sortedby", "reversed", "plus", "union", "intersection",
             "difference", "map", "filter", "iter", "mklist", "mkmap", "mkset"}
\* operations that return the receiver itself
SelfOps == {"append", "insert", "remove", "extend", "reverse", "sort", "clear", "update", "sadd"}
\* operations that may store a reference into an existing cell (cycle / depth guard)
StoreOps == {"set", "cset", "append", "insert", "extend", "setattr", "update", "setdefault", "each"}

\* method call on a receiver that has no such method: attribute error (strings have their own count / index)
NoMeth(x, op, h) == IF x.t = "str" /\ op \in {"count", "index"} THEN Unk(h) ELSE Err("type error", h)

Eval(st, h, env) ==
  LET x == ArgV(st.x, env) a == ArgV(st.a, env) b == ArgV(st.b, env) op == st.op IN
  CASE op = "bind" -> Ok(x, h)
    [] op = "mklist" -> MkList([i \in 1..Len(st.items) |-> ArgV(st.items[i], env)], h)
    [] op = "mkmap" -> MkMap(st.keys, [i \in 1..Len(st.items) |-> ArgV(st.items[i], env)], h)
    [] op = "mkset" -> MkSet([i \in 1..Len(st.items) |-> ArgV(st.items[i], env)], h)
    [] op = "get" -> GetItem(x, a, h)
    [] op = "slice" -> GetSlice(x, Opt(st.a, env), Opt(st.b, env), h)
    [] op = "set" -> SetItem(x, a, b, h)
    [] op = "cset" -> CompoundSet(x, a, b, h)
    [] op = "in" -> Contains(x, a, h)
    [] op = "len" -> LenOf(x, h)
    [] op = "delete" -> DelItem(x, a, h)
    [] op = "plus" -> Plus(x, a, h)
    [] op = "sorted" -> Sorted(x, h)
    \* sorted(x, less) with less = func(a, b) { return a < b }: for a list the same fresh, stably ascending list
    [] op = "sortedby" -> IF x.t = "list" THEN Sorted(x, h) ELSE Unk(h)
    [] op = "reversed" -> Reversed(x, h)
    [] op = "iter" -> Iterate(x, h)
    [] op = "attr" -> IF x.t = "map" THEN (IF st.keys[1] \in DOMAIN MapOf(x, h) THEN Ok(MapOf(x, h)[st.keys[1]], h) ELSE Err("type error", h))
                      ELSE Err("type error", h)
    [] op = "setattr" -> IF x.t = "map" THEN SetItem(x, VStr(st.keys[1]), a, h) ELSE Err("type error", h)
    [] op = "append" -> IF x.t = "list" THEN ListAppend(x, a, h) ELSE NoMeth(x, op, h)
    [] op = "insert" -> IF x.t = "list" THEN ListInsert(x, a, b, h) ELSE NoMeth(x, op, h)
    [] op = "pop" -> IF x.t = "list" THEN ListPop(x, a, h)
                     ELSE IF x.t = "map" THEN MapPop(x, a, Has(st.b), b, h)
                     ELSE Err("type error", h)
    [] op = "remove" -> IF x.t = "list" THEN ListRemove(x, a, h) ELSE IF x.t = "set" THEN SetRemove(x, a, h) ELSE NoMeth(x, op, h)
    [] op = "extend" -> IF x.t = "list" THEN ListExtend(x, a, h) ELSE NoMeth(x, op, h)
    [] op = "reverse" -> IF x.t = "list" THEN ListReverse(x, h) ELSE NoMeth(x, op, h)
    [] op = "sort" -> IF x.t = "list" THEN ListSort(x, h) ELSE NoMeth(x, op, h)
    [] op = "count" -> IF x.t = "list" THEN ListCount(x, a, h) ELSE NoMeth(x, op, h)
    [] op = "index" -> IF x.t = "list" THEN ListIndex(x, a, h) ELSE NoMeth(x, op, h)
    [] op = "map" -> IF x.t = "list" THEN ListMap(x, st.cb, h) ELSE NoMeth(x, op, h)
    [] op = "filter" -> IF x.t = "list" THEN ListFilter(x, st.cb, h) ELSE NoMeth(x, op, h)
    [] op = "each" -> IF x.t = "list" THEN ListEach(x, st.cb, a, h) ELSE NoMeth(x, op, h)
    [] op = "clear" -> CASE x.t = "list" -> ListClear(x, h) [] x.t = "map" -> MapClear(x, h) [] x.t = "set" -> SetClear(x, h)
                         [] OTHER -> Err("type error", h)
    [] op = "copy" -> CASE x.t = "list" -> ListCopy(x, h) [] x.t = "map" -> MapCopy(x, h)
                        [] OTHER -> Err("type error", h)
    [] op = "keys" -> IF x.t = "map" THEN MapKeysL(x, h) ELSE NoMeth(x, op, h)
    [] op = "values" -> IF x.t = "map" THEN MapValuesL(x, h) ELSE NoMeth(x, op, h)
    [] op = "items" -> IF x.t = "map" THEN MapItemsL(x, h) ELSE NoMeth(x, op, h)
    [] op = "mget" -> IF x.t = "map" THEN MapGet(x, a, Has(st.b), b, h) ELSE NoMeth(x, op, h)
    [] op = "setdefault" -> IF x.t = "map" THEN MapSetDefault(x, a, b, h) ELSE NoMeth(x, op, h)
    [] op = "update" -> IF x.t = "map" THEN MapUpdate(x, a, h) ELSE NoMeth(x, op, h)
    [] op = "sadd" -> IF x.t = "set" THEN SetAdd(x, a, h) ELSE NoMeth(x, op, h)
    [] op = "union" -> IF x.t = "set" THEN SetUnion(x, a, h) ELSE NoMeth(x, op, h)
    [] op = "intersection" -> IF x.t = "set" THEN SetInter(x, a, h) ELSE NoMeth(x, op, h)
    [] op = "difference" -> IF x.t = "set" THEN SetDiff(x, a, h) ELSE Err("type error", h)    \* Go API only (Set.Difference)
    [] OTHER -> Unk(h)

\* ---------- model limits: acyclic, nesting <= MAXD, sizes <= MAXSZ ----------
Children(cell) == CASE cell.t = "list" -> {cell.items[i].a: i \in {j \in 1..Len(cell.items): IsRef(cell.items[j])}}
                    [] cell.t = "map" -> {cell.m[k].a: k \in {q \in DOMAIN cell.m: IsRef(cell.m[q])}}
                    [] OTHER -> {}
CellSize(cell) == CASE cell.t = "list" -> Len(cell.items) [] cell.t = "map" -> Cardinality(DOMAIN cell.m)
                    [] OTHER -> Cardinality(cell.keys)
SetMax(S) == IF S = {} THEN -1 ELSE CHOOSE x \in S: \A y \in S: y <= x
RECURSIVE Heights(_,_,_)
\* k rounds of  H[a] = 1 + max H[children]  : exceeds MAXD iff too deep or cyclic
Heights(h, H, k) == IF k = 0 THEN H ELSE
   Heights(h, [a \in 1..Len(h) |-> 1 + SetMax({H[c]: c \in Children(h[a])})], k - 1)
Sane(h) == /\ \A a \in 1..Len(h): CellSize(h[a]) <= MAXSZ
           /\ LET H == Heights(h, [a \in 1..Len(h) |-> 0], MAXD + 2) IN \A a \in 1..Len(h): H[a] <= MAXD
StrOK(v) == v.t # "str" \/ Len(v.v) <= 3 * MAXSZ

\* the meaning of one step: [r, env]
Apply(st, h, env) ==
  LET r0 == Eval(st, h, env)
      risky == r0.k = "ok" /\ (st.op \in StoreOps \/ st.op \in {"mklist", "mkmap", "plus", "iter", "map", "items"})
      r == IF r0.k = "ok" /\ ~StrOK(r0.v) THEN Unk(h)
           ELSE IF risky /\ ~Sane(r0.h) THEN Unk(h) ELSE r0
  IN [r |-> r, env |-> IF r.k = "ok" /\ st.dst # "" THEN [env EXCEPT ![st.dst] = r.v] ELSE env]

\* ================= projection (what an observer sees) =================
\* flat, type-homogeneous encoding of the deep contents of a value (same encoding as the Go driver):
\* int <<1,n>>  str <<2,len,cps..>>  bool <<3,0|1>>  nil <<4>>  float <<5,h>>
\* list <<6,n,items..>>  map <<7,n,(klen,kcps..,value)..>> in key order  set <<8,n,members..>> in member order
RECURSIVE Flat(_,_)
RECURSIVE FlatSeq(_,_)
RECURSIVE FlatPairs(_,_,_)
FlatSeq(xs, h) == IF Len(xs) = 0 THEN <<>> ELSE Flat(Head(xs), h) \o FlatSeq(Tail(xs), h)
FlatPairs(ks, m, h) == IF Len(ks) = 0 THEN <<>>
                       ELSE <<Len(Head(ks))>> \o Head(ks) \o Flat(m[Head(ks)], h) \o FlatPairs(Tail(ks), m, h)
Flat(v, h) ==
  CASE v.t = "int" -> <<1, v.v>>
    [] v.t = "str" -> <<2, Len(v.v)>> \o v.v
    [] v.t = "bool" -> <<3, IF v.v THEN 1 ELSE 0>>
    [] v.t = "nil" -> <<4>>
    [] v.t = "float" -> <<5, v.h>>
    [] v.t = "list" -> <<6, Len(Items(v, h))>> \o FlatSeq(Items(v, h), h)
    [] v.t = "map" -> LET ks == MapKeys(v, h) IN <<7, Len(ks)>> \o FlatPairs(ks, MapOf(v, h), h)
    [] v.t = "set" -> LET xs == SetItemsOf(KeysOf(v, h)) IN <<8, Len(xs)>> \o FlatSeq(xs, h)
RFlat(r) == IF r.k = "ok" THEN <<0>> \o Flat(r.v, r.h) ELSE <<1>>
View(h, env) == [n \in Names |-> Flat(env[n], h)]
\* the projection after a step, computed incrementally: a failing step changes nothing and a read-only step can
\* only rebind its destination (these frame conditions are checked on the model itself in leg M)
StepView(st, ap, view) ==
  IF ap.r.k # "ok" THEN view
  ELSE IF st.op \in ReadOnlyOps THEN (IF st.dst = "" THEN view ELSE [view EXCEPT ![st.dst] = Flat(ap.r.v, ap.r.h)])
  ELSE View(ap.r.h, ap.env)
\* names whose projection changed, in NameSeq order, as [n, p] records
Changed(old, new) == LET F[i \in 0..Len(NameSeq)] ==
                           IF i = 0 THEN <<>> ELSE
                           IF old[NameSeq[i]] = new[NameSeq[i]] THEN F[i - 1]
                           ELSE Append(F[i - 1], [n |-> NameSeq[i], p |-> new[NameSeq[i]]])
                     IN F[Len(NameSeq)]

EmptyEnv == [n \in Names |-> VNil]
=============================================================================
