---------------------------- MODULE ImportsCheck ----------------------------
(* C14 conformance (legs G and V): one recorded case per TLC state.                  *)
(* VERIF_CASES: lines {id, kind, ..., obs: {local, fs, again}} - the world (or path  *)
(* text) that was materialised and what the real pipeline did with the local         *)
(* importer, with an FSImporter over a recording file system, and in a second        *)
(* evaluation with the same FSImporter.  The world is evaluated with the machine of  *)
(* Imports.tla; the always-true invariant prints                                     *)
(*   <<"MISMATCH", id, importer, kind, expected>>   a disagreement                   *)
(*   <<"TOLERATED", id, importer>>   a text the design rejects was accepted, stayed  *)
(*                                   under the root and did not split module state   *)
(*   <<"UNKNOWN", id>>               the world leaves the modelled domain            *)
EXTENDS Imports, Json, IOUtils
Cases == ndJsonDeserialize(IOEnv.VERIF_CASES)
VARIABLE i
Init == i = 1
Next == i <= Len(Cases) /\ i' = i + 1

ToSet(q) == {q[k] : k \in 1..Len(q)}
Summary(st) == [status |-> st.status, err |-> st.err, log |-> st.log, opened |-> st.opened]

\* exact agreement of one observed evaluation with a final state of the machine
AgreesBut(o, st, files) == /\ o.status = st.status
                           /\ o.log = st.log
                           /\ o.outside = <<>>
                           /\ ((files /\ o.hasopened) => ToSet(o.opened) = st.opened)
Agrees(o, st) == AgreesBut(o, st, TRUE)

\* ---------------------------------------------------------------- graph cases
GraphCheck(c) ==
  \* expectation: the pinned implementation (a spawned thread imports into a COPY of the module table); where the
  \* property's design (shared table) gives another run, the case is an instance of the known finding
  \* clone-imports-not-shared and is printed as <<"KNOWNCLONE", id>>
  LET w == [tree |-> c.tree, main |-> c.main, mods |-> c.mods, shares |-> FALSE]
      st == Run(w)
      design == Run([w EXCEPT !.shares = TRUE])
      st2 == RunFrom(w, Again(w, st))
      Kind(o) == IF o.outside # <<>> THEN "escape" ELSE "diverge"
  IN IF st.status = "unknown" \/ st2.status = "unknown" THEN PrintT(<<"UNKNOWN", c.id>>)
     ELSE /\ (Summary(design) = Summary(st) \/ ~Agrees(c.obs.local, st) \/ PrintT(<<"KNOWNCLONE", c.id>>))
          /\ (Agrees(c.obs.local, st) \/ PrintT(<<"MISMATCH", c.id, "local", Kind(c.obs.local), ToJson(Summary(st))>>))
          /\ (Agrees(c.obs.fs, st) \/ PrintT(<<"MISMATCH", c.id, "fs", Kind(c.obs.fs), ToJson(Summary(st))>>))
          /\ (Agrees(c.obs.again, st2) \/ PrintT(<<"MISMATCH", c.id, "again", Kind(c.obs.again), ToJson(Summary(st2))>>))
          \* no importer configured (working directory inside the module tree): as if no module file existed
          /\ LET none == [w EXCEPT !.mods = [k \in 1..Len(c.mods) |-> [c.mods[k] EXCEPT !.present = FALSE]]]
                 stn == Run(none)
             IN stn.status = "unknown" \/ AgreesBut(c.obs.noimp, stn, FALSE)
                \/ PrintT(<<"MISMATCH", c.id, "noimp", Kind(c.obs.noimp), ToJson(Summary(stn))>>)
          \* the same program evaluated a second time on ONE VM (risor.WithVM) with the same import root: an evaluation
          \* starts with no module loaded, whatever the VM did before
          /\ ("reused" \notin DOMAIN c.obs \/ Agrees(c.obs.reused, st)
                \/ PrintT(<<"MISMATCH", c.id, "reused", Kind(c.obs.reused), ToJson(Summary(st))>>))
          \* the main program fed statement by statement to one compiler and one VM (REPL): the same final state
          /\ (Agrees(c.obs.repl, st) \/ PrintT(<<"MISMATCH", c.id, "repl", Kind(c.obs.repl), ToJson(Summary(st))>>))

\* ---------------------------------------------------------------- path cases
NameOfSeg(seg) == IF seg = <<97>> THEN "a" ELSE IF seg = <<98>> THEN "b" ELSE "other"
PathStmt(c) ==
  LET segs == Split(c.text)
      T == [k \in 1..Len(segs) |-> NameOfSeg(segs[k])]
      x == <<[n |-> "x", a |-> ""]>>
  IN CASE c.sp = "imp_q" -> [k |-> "imp", tgt |-> T, alias |-> ""]
       [] c.sp = "imp_q_as" -> [k |-> "imp", tgt |-> T, alias |-> "p"]
       [] c.sp = "imp_raw" -> [k |-> "imp", tgt |-> T, alias |-> ""]
       [] OTHER -> [k |-> "from", tgt |-> T, items |-> x]
\* identifiers other than a and b are all mapped to one name: file names are then not compared
AllAB(c) == LET segs == Split(c.text) IN \A k \in 1..Len(segs): segs[k] \in {<<97>>, <<98>>}
AcceptsSp(c) == ~c.abs /\ (IF c.sp = "imp_raw" THEN IsIdent(c.text) ELSE Accepts(c.text))
Ticks(o) == SelectSeq(o.log, LAMBDA e: e.e = "tick")
TwiceIn(o) == \E j, k \in 1..Len(o.log): j < k /\ o.log[j].e = "tick" /\ o.log[k].e = "tick" /\ o.log[j].m = o.log[k].m

PathOne(c, o, which, st) ==
  IF o.outside # <<>> THEN PrintT(<<"MISMATCH", c.id, which, "escape", ToJson(Summary(st))>>)
  ELSE IF AcceptsSp(c)
  THEN AgreesBut(o, st, AllAB(c)) \/ PrintT(<<"MISMATCH", c.id, which, "diverge", ToJson(Summary(st))>>)
  ELSE IF o.status = "err" /\ Ticks(o) = <<>> THEN TRUE              \* rejected, nothing was loaded
  ELSE IF TwiceIn(o) THEN PrintT(<<"MISMATCH", c.id, which, "twice", ToJson(Summary(st))>>)
  ELSE IF o.status \in {"ok", "err"} THEN PrintT(<<"TOLERATED", c.id, which>>)
  ELSE PrintT(<<"MISMATCH", c.id, which, "diverge", ToJson(Summary(st))>>)

PathCheck(c) ==
  LET w == [tree |-> "ab", main |-> <<PathStmt(c)>>, mods |-> <<>>]
      acc == AcceptsSp(c)
      st == IF acc THEN Run(w) ELSE [InitState(w) EXCEPT !.status = "err", !.err = "parse", !.stack = <<>>]
      st2 == IF acc THEN RunFrom(w, Again(w, st)) ELSE st
  IN /\ PathOne(c, c.obs.local, "local", st)
     /\ PathOne(c, c.obs.fs, "fs", st)
     /\ PathOne(c, c.obs.again, "again", st2)

Check == i <= Len(Cases) =>
   LET c == Cases[i] IN IF c.kind = "path" THEN PathCheck(c) ELSE GraphCheck(c)
=============================================================================
