------------------------------ MODULE TraceChan ------------------------------
(* Trace validation for C10: events stamped by one atomic counter in host builtins        *)
(* (send announced BEFORE the send, recv announced AFTER the receive, close, nil) are      *)
(* consumed in stamp order through ChanAbs's actions: a received value must have been      *)
(* announced and not received before, per-sender order must hold at every receiver, nil    *)
(* comes only from the closed channel, and at the end everything announced was received.   *)
EXTENDS ChanAbs, TLC, Json, IOUtils
Traces == ndJsonDeserialize(IOEnv.VERIF_CASES)
VARIABLES ti, l
Ev == Traces[ti].events
E == Ev[l + 1]
Cfg(t) == [ns |-> t.ns, nr |-> t.nr, msgs |-> t.msgs]
TInit == ti = 1 /\ l = 0 /\ AInit(Cfg(Traces[1]))
Consume == ti <= Len(Traces) /\ l < Len(Ev) /\ l' = l + 1 /\ ti' = ti
TSend == Consume /\ E.ev = "send" /\ ASend(E.s, E.i)
TRecv == Consume /\ E.ev = "recv" /\ ARecv(E.r, E.s, E.i)
TClose == Consume /\ E.ev = "close" /\ AClose
TNil == Consume /\ E.ev = "nil" /\ ANil(E.r)
TReset == /\ ti <= Len(Traces) /\ l = Len(Ev) /\ ti' = ti + 1 /\ l' = 0
          /\ IF ti + 1 <= Len(Traces)
                THEN LET c == Cfg(Traces[ti + 1]) IN
                     /\ cfg' = c /\ nextSend' = [s \in 1..c.ns |-> 1] /\ got' = {}
                     /\ lastFrom' = [r \in 1..c.nr |-> [s \in 1..c.ns |-> 0]]
                     /\ closed' = FALSE /\ gotNil' = [r \in 1..c.nr |-> FALSE]
                ELSE UNCHANGED avars
TNext == TSend \/ TRecv \/ TClose \/ TNil \/ TReset
Stuck == (ti <= Len(Traces) /\ l < Len(Ev) /\ ~ENABLED TNext) => PrintT(<<"REJECTED", Traces[ti].id, l + 1, ToJson(E)>>)
Complete == (ti <= Len(Traces) /\ l = Len(Ev)) => (ADone \/ PrintT(<<"INCOMPLETE", Traces[ti].id>>))
=============================================================================
