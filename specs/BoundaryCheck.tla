---------------------------- MODULE BoundaryCheck ----------------------------
(* Leg G / V of C08: one observation of the real boundary per TLC state.                 *)
(* Each line of VERIF_OBS is what harness/cmd/boundary saw for one (type, class, route): *)
(*   k       ok | rejected | panic | crash | hang | nopool | badcase                     *)
(*   script  tree of the script value (global, field read, written field read back,      *)
(*           method result)                                                              *)
(*   back    tree of what Go received (converter .To, Go-side field after the write,     *)
(*           <<a, 7, c>> received by the method), back_k ok | rejected | na, typeok      *)
(* The always-true invariant prints MISMATCH for an observation the specification does   *)
(* not allow, SOFT for a clean rejection of a representable value (allowed by the        *)
(* property text, reported), HARNESS for a case the driver could not perform.  The third *)
(* element is a short code (TLC wraps long tuples); checks/c08.py holds the long texts.  *)
EXTENDS Boundary, Json, IOUtils
Obs == ndJsonDeserialize(IOEnv.VERIF_OBS)
VARIABLE i
Init == i = 1
Next == i <= Len(Obs) /\ i' = i + 1

\* The script number type of a uint8 (byte or int) is not part of the property: global and element
\* conversion produce a byte, struct fields and method results an int with the same value.
RECURSIVE Norm(_)
Norm(w) == Node(IF w.t = "byte" THEN "int" ELSE w.t, w.s, w.k, [j \in 1..Len(w.c) |-> Norm(w.c[j])])

Args(t, c) == Node("args", "", <<>>, <<Canon(GoVal(t, c)), Leaf("int", "7"), Canon(GoVal(t, Other(c)))>>)

\* route write_lit: the script writes literal o.w into a field of type o.t and reads it back
LitVerdict(o) ==
  LET ch == Expand(o.t)
      g == ToGo(ch, o.w)
  IN CASE o.k = "rejected" -> IF g.ok THEN <<"SOFT", "soft-lit">> ELSE <<"OK", "">>
       [] o.k = "ok" ->
            IF ~g.ok THEN <<"MISMATCH", "lit-accepted">>
            ELSE IF Canon(o.back) # Canon(g.v) THEN <<"MISMATCH", "go-field-differs">>
            ELSE IF Norm(o.script) # Norm(LitReadback(o.t, o.w, g.v)) THEN <<"MISMATCH", "readback-differs">>
            ELSE <<"OK", "">>
       [] OTHER -> <<"HARNESS", "unknown">>

Verdict(o) ==
  LET t == o.t
      c == o.c
      rej == Rejected(t, c)
  IN CASE o.k \in {"hang", "nopool", "badcase", "nostart", "badresp"} -> <<"HARNESS", o.k>>
       [] o.k = "panic" -> <<"MISMATCH", "panic">>
       [] o.k = "crash" -> <<"MISMATCH", "crash">>
       [] o.r = "write_lit" -> LitVerdict(o)
       [] o.r \in {"rec_methods", "rec_methods_val"} ->
            IF o.k # "ok" THEN <<"MISMATCH", "arg-not-delivered">>
            ELSE IF o.script # RecScript THEN <<"MISMATCH", "args-differ">>
            ELSE IF Canon(o.back) # RecBack(o.r) THEN <<"MISMATCH", "go-field-differs">>
            ELSE <<"OK", "">>
       [] o.k = "rejected" -> IF rej THEN <<"OK", "">>
                              ELSE IF o.r = "method_arg" THEN <<"MISMATCH", "arg-not-delivered">>
                              ELSE <<"SOFT", "soft-rejected">>
       [] o.k = "ok" ->
            IF rej THEN <<"MISMATCH", "unrepresentable-accepted">>
            ELSE IF o.r = "method_arg" THEN
                 (IF o.calls # 1 THEN <<"MISMATCH", "calls">>
                  ELSE IF Canon(o.back) # Args(t, c) THEN <<"MISMATCH", "args-differ">>
                  ELSE <<"OK", "">>)
            ELSE IF Norm(o.script) # Norm(Script(t, c)) THEN
                 <<"MISMATCH", IF o.r \in {"field_write", "nested_write"} THEN "readback-differs"
                               ELSE "script-differs">>
            ELSE IF o.back_k = "rejected" THEN <<"SOFT", "soft-back">>
            ELSE IF o.back_k = "na" THEN <<"OK", "">>
            ELSE IF ~o.typeok THEN <<"MISMATCH", "type-differs">>
            ELSE IF Canon(o.back) # Canon(GoVal(t, c)) THEN
                 <<"MISMATCH", IF o.r \in {"field_write", "nested_write"} THEN "go-field-differs"
                               ELSE "roundtrip-differs">>
            ELSE <<"OK", "">>
       [] OTHER -> <<"HARNESS", "unknown">>

Check == i <= Len(Obs) =>
   LET o == Obs[i]
       v == Verdict(o)
   IN IF v[1] = "OK" THEN TRUE
      ELSE PrintT(<<v[1], o.id, v[2]>>)
=============================================================================
