----------------------------- MODULE TraceVMRun -----------------------------
(* Trace validation for C06 / C07: the events recorded by the vm hooks (start, fire,    *)
(* halt_seen, stop, clone) and by the driver (cancel, return) while histories are       *)
(* replayed on the real VM are consumed one per state through the actions of VMRun      *)
(* with the REPAIRED design (Faithful = FALSE).  A recorded execution in which a run    *)
(* sees halt although no watcher of ITS OWN run could have fired, or in which a run     *)
(* returns "cut" (nil error, value missing), is not a behaviour of the spec.            *)
EXTENDS VMRun, Json, IOUtils
Traces == ndJsonDeserialize(IOEnv.VERIF_CASES)
VARIABLES ti, l
tvars == <<vars, ti, l>>
Ev == Traces[ti].events
E == Ev[l + 1]
TInit == Init /\ ti = 1 /\ l = 0
Consume == ti <= Len(Traces) /\ l < Len(Ev) /\ l' = l + 1 /\ ti' = ti
IsEv(name) == Consume /\ E.ev = name
TStart == IsEv("start") /\ Start /\ gen' = E.gen
\* cancelling a context that is already done changes nothing
TCancel == IsEv("cancel") /\ (Cancel(E.ctx) \/ (E.ctx \in ctxDone /\ UNCHANGED vars))
\* the watcher's store and its log line are not atomic with the evaluator's poll: a halt_seen may be logged
\* before the fire that caused it (then the fire is composed here and its late log line is a stutter step)
FireAndSee(w) == /\ w \in watchers /\ w.ctx \in ctxDone /\ running /\ w.g = gen /\ halt = 0
                 /\ outcomes' = Append(outcomes, [g |-> gen, r |-> IF gen \in ctxDone THEN "ctxerr" ELSE "cut"])
                 /\ running' = FALSE /\ halt' = 1 /\ watchers' = {x \in watchers : x.g # gen}
                 /\ UNCHANGED <<gen, ctxDone, left, clones>>
THaltSeen == IsEv("halt_seen") /\ (SeeHalt \/ \E w \in watchers: FireAndSee(w))
TFire == IsEv("fire") /\ ((\E w \in watchers: w.g = E.gen /\ WatcherFire(w))
                           \/ ((\A w \in watchers: w.g # E.gen) /\ UNCHANGED vars))
\* stop() closes a run that ended by itself (the halt_seen path already recorded its outcome)
TStop == IsEv("stop") /\ ((running /\ outcomes' = Append(outcomes, [g |-> gen, r |-> "complete"])
                            /\ running' = FALSE /\ watchers' = {x \in watchers : x.g # gen}
                            /\ UNCHANGED <<halt, gen, ctxDone, left, clones>>)
                          \/ (~running /\ UNCHANGED vars))
TClone == IsEv("clone") /\ UNCHANGED vars
\* the driver's view of how the invocation ended must be the outcome the spec recorded
TReturn == IsEv("return") /\ Len(outcomes) > 0 /\ outcomes[Len(outcomes)].g = E.gen
           /\ outcomes[Len(outcomes)].r = E.result /\ UNCHANGED vars
TReset == ti <= Len(Traces) /\ l = Len(Ev) /\ ti' = ti + 1 /\ l' = 0
          /\ running' = FALSE /\ halt' = 0 /\ gen' = 0 /\ watchers' = {} /\ ctxDone' = {} /\ left' = 0
          /\ outcomes' = <<>> /\ clones' = [k \in CloneIds |-> NoClone]
TNext == TStart \/ TCancel \/ THaltSeen \/ TFire \/ TStop \/ TClone \/ TReturn \/ TReset
\* an event that no action explains: report the trace and its position (the behaviour stops there)
Stuck == (ti <= Len(Traces) /\ l < Len(Ev) /\ ~ENABLED TNext) =>
            PrintT(<<"REJECTED", Traces[ti].id, l + 1, E.ev>>)
TNoCut == NoCut \/ PrintT(<<"CUT", Traces[ti].id>>)
=============================================================================
