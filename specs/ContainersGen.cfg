\* leg M (mode mc): all histories of length <= MaxLen over the enumerated alphabet
CONSTANTS
  Mode = "mc"
  MaxLen = 2
  ENames = {"a", "b"}
  Salt = 0
  EIdxOff = {1, 3, 4, 6}
INIT Init
NEXT Next
VIEW MCView
INVARIANT Emit
INVARIANT LenAgrees
INVARIANT WellFormed
PROPERTY PropReadOnly
PROPERTY PropErrorNoEffect
PROPERTY PropFresh
PROPERTY PropSelf
PROPERTY PropFrame
PROPERTY PropRange
PROPERTY PropKeyType
CHECK_DEADLOCK FALSE
