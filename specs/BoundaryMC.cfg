CONSTANT Depth = 2
CONSTANT MDepth = 1
CONSTANT Shard = 0
CONSTANT NShards = 1
INIT Init
NEXT Next
INVARIANT LawRoundTrip
INVARIANT LawFieldWrite
INVARIANT LawMethodArgs
INVARIANT LawLiteral
INVARIANT Emit
CHECK_DEADLOCK FALSE
