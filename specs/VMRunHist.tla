----------------------------- MODULE VMRunHist -----------------------------
(* C07 leg G: all histories of invocations on one reused VM.  An invocation is         *)
(*   [api  \in {"RunCode", "Call"},                                                     *)
(*    kind \in {"normal", "error", "panic", "overflow", "cancelled"},                   *)
(*    late \subseteq earlier invocations]   contexts of EARLIER invocations that are    *)
(*                                           cancelled while this one is in progress    *)
(* The specified outcome of an invocation is a function of its own kind only            *)
(* (Expected): it never depends on what earlier invocations did or on events that       *)
(* concern them.  TLC emits every history with its expected outcomes.                   *)
EXTENDS Integers, Sequences, FiniteSets, TLC, Json
CONSTANT MaxLen
Apis == {"RunCode", "Call"}
Kinds == {"normal", "error", "panic", "overflow", "cancelled"}
Expected(kind) == CASE kind = "normal" -> "value" [] kind = "error" -> "index error" [] kind = "panic" -> "panic"
                    [] kind = "overflow" -> "anyerror" [] kind = "cancelled" -> "ctxerr"
\* invocation i may cancel the context of any earlier invocation (the interesting ones: those that finished)
Inv(i) == [api : Apis, kind : Kinds, late : SUBSET (1..(i - 1))]
RECURSIVE Hist(_)
Hist(n) == IF n = 0 THEN {<<>>} ELSE {Append(h, v) : h \in Hist(n - 1), v \in Inv(n)}
Histories == UNION {Hist(n) : n \in 1..MaxLen}
\* a context is cancelled late at most once, and a "cancelled" invocation's own context is already done
WellFormed(h) == \A i \in 1..Len(h): \A j \in 1..Len(h): i # j => h[i].late \cap h[j].late = {}
VARIABLE h
Init == h \in {x \in Histories : WellFormed(x)}
Next == UNCHANGED h
Emit == PrintT(<<"HIST", ToJson([inv |-> h, exp |-> [i \in 1..Len(h) |-> Expected(h[i].kind)]])>>)
=============================================================================
