----------------------------- MODULE VMRunHist -----------------------------
(* C07 leg G: all histories of invocations on one reused VM.  An invocation is         *)
(*   [api  \in {"RunCode", "Call"},                                                     *)
(*    kind \in {"normal", "error", "panic", "overflow", "cancelled"},                   *)
(*    late \subseteq earlier invocations]   contexts of EARLIER invocations that are    *)
(*                                           cancelled while this one is in progress    *)
(* The specified outcome of an invocation is a function of its own kind only            *)
(* (Expected): it never depends on what earlier invocations did or on events that       *)
(* concern them.  TLC emits every history with its expected outcomes.                   *)
EXTENDS Integers, Sequences, FiniteSets, TLC, Json
CONSTANTS MaxLen,   \* longest history
          MaxLate,   \* at most this many late cancellations in one history
          Family     \* "base": the seven kinds below; "import": invocations that import a module
                     \* (normal, impok, imperr: the module body fails, impcancel: cancelled during the import)
\* "RisorCall" = risor.Call(ctx, code, name, args, WithVM(vm)): RunCode of the (same) code object, then Call
Apis == IF Family = "risorcall" THEN {"RisorCall", "Call"} ELSE {"RunCode", "Call"}
\* what the invocation does: finishes normally, raises a run-time error three calls deep, provokes a recovered Go
\* panic at once or 600 script frames deep, recurses until the frame stack (overflow) or the operand stack (opoverflow)
\* overflows, or is cancelled mid-run
Kinds == IF Family = "import" THEN {"impmod", "impok", "imperr", "impcancel"}
         \* deferred calls that defer again: 40 deep (completes) and 1000 deep ending in a Go panic that the API recovers
         \* toperror: an index error at top level while the items of a list literal are pending on the operand stack
         ELSE IF Family = "defer" THEN {"normal", "error", "defernest", "deferpanic", "toperror"}
         ELSE IF Family = "risorcall" THEN {"normal", "error", "cancelled", "badargs"}   \* badargs: wrong argument count
         ELSE {"normal", "error", "panic", "deeppanic", "overflow", "opoverflow", "cancelled"}
\* the context the invocation runs under: cancellable, or context.Background() (no Done channel)
CtxKinds(kind) == IF kind \in {"normal", "error", "impok", "imperr", "impmod", "badargs", "defernest", "toperror"} THEN {"cancel", "background"} ELSE {"cancel"}
Expected(kind) == CASE kind \in {"normal", "impok", "impmod", "defernest"} -> "value" [] kind = "deferpanic" -> "anyerror" [] kind \in {"imperr", "badargs"} -> "anyerror" [] kind = "impcancel" -> "ctxerr"
                    [] kind \in {"error", "toperror"} -> "index error" [] kind \in {"panic", "deeppanic"} -> "panic"
                    [] kind \in {"overflow", "opoverflow"} -> "anyerror" [] kind = "cancelled" -> "ctxerr"
\* invocation i may cancel the context of any earlier invocation (the interesting ones: those that finished)
Inv(i) == UNION {[api : Apis, kind : {k}, ctx : CtxKinds(k), late : SUBSET (1..(i - 1))] : k \in Kinds}
RECURSIVE Hist(_)
Hist(n) == IF n = 0 THEN {<<>>} ELSE {Append(h, v) : h \in Hist(n - 1), v \in Inv(n)}
Histories == UNION {Hist(n) : n \in 1..MaxLen}
RECURSIVE SumLate(_,_)
SumLate(h, i) == IF i > Len(h) THEN 0 ELSE Cardinality(h[i].late) + SumLate(h, i + 1)
\* a context is cancelled late at most once; only contexts that can be cancelled are cancelled late
WellFormed(h) == /\ \A i \in 1..Len(h): \A j \in 1..Len(h): i # j => h[i].late \cap h[j].late = {}
                 /\ \A i \in 1..Len(h): \A c \in h[i].late: h[c].ctx = "cancel"
                 /\ SumLate(h, 1) <= MaxLate
VARIABLE h
Init == h \in {x \in Histories : WellFormed(x)}
Next == UNCHANGED h
\* What an invocation leaves on the VM's operand stack (C04 through the reuse path: a finished evaluation leaves
\* exactly its result).  "result": exactly the result (stack pointer 0) after a RunCode that returned a value;
\* "same": Call gives the stack back as it found it, whatever happened inside; "atmost": nothing but possibly
\* one value (stack pointer -1 or 0) after a RunCode that failed.  risor.Call is RunCode followed by Call.
StackAfter(api, kind) == IF api = "Call" THEN "same"
                         ELSE IF Expected(kind) = "value" THEN "result" ELSE "atmost"
Emit == PrintT(<<"HIST", ToJson([inv |-> h, exp |-> [i \in 1..Len(h) |-> Expected(h[i].kind)],
                                 stack |-> [i \in 1..Len(h) |-> StackAfter(h[i].api, h[i].kind)]])>>)
=============================================================================
