------------------------------- MODULE Lexer -------------------------------
(***************************************************************************)
(* Character-level specification of risor's lexer over a class alphabet    *)
(* (property C20, also the input space of C03).  Source text is a sequence *)
(* of code points.  Tokens carry type, literal and the zero-based          *)
(* (line, column) of their first and last character.                       *)
(*                                                                         *)
(* Rules transcribed from DESIGN.md Appendix F: spaces and tabs separate   *)
(* tokens; `#...` and `//...` run to the end of the line (the line end     *)
(* still yields NEWLINE); `/* ... */` does not nest, may span lines,       *)
(* yields no token, and an unterminated one consumes the rest of the       *)
(* input; any number of comments may be adjacent; "\n", "\r\n" and a lone  *)
(* "\r" are one NEWLINE token each, only "\n" advances the line counter;   *)
(* a string must close on its line; a letter or digit directly after a     *)
(* number is an error; two-character operators are matched greedily.       *)
(***************************************************************************)
EXTENDS Integers, Sequences, FiniteSets, TLC

\* the class alphabet (one concrete character per class)
LETTER == 97  DIGIT == 49  SPACE == 32  TAB == 9  LF == 10  CR == 13  SLASH == 47  STAR == 42  HASH == 35
QUOTE == 34  PLUS == 43  EQUALS == 61  LPAREN == 40  RPAREN == 41
Alphabet == {LETTER, DIGIT, SPACE, TAB, LF, CR, SLASH, STAR, HASH, QUOTE, PLUS, EQUALS, LPAREN, RPAREN}
Strings(n) == UNION {[1..k -> Alphabet] : k \in 0..n}

At(s, i) == IF i >= 1 /\ i <= Len(s) THEN s[i] ELSE 0          \* 0 = end of input
IsIdent(c) == c \in {LETTER, DIGIT}

\* position bookkeeping: line/column of the character at 1-based index i (also for i = Len+1, the EOF position)
RECURSIVE LineOf(_,_)
LineOf(s, i) == IF i <= 1 THEN 0 ELSE LineOf(s, i - 1) + (IF At(s, i - 1) = LF THEN 1 ELSE 0)
RECURSIVE ColOf(_,_)
ColOf(s, i) == IF i <= 1 THEN 0 ELSE IF At(s, i - 1) = LF THEN 0 ELSE ColOf(s, i - 1) + 1
\* the text of line n (zero-based), without its line feed
RECURSIVE SplitLines(_,_,_)
SplitLines(s, i, cur) == IF i > Len(s) THEN <<cur>>
                         ELSE IF s[i] = LF THEN <<cur>> \o SplitLines(s, i + 1, <<>>)
                         ELSE SplitLines(s, i + 1, Append(cur, s[i]))
Lines(s) == SplitLines(s, 1, <<>>)

Tok(type, lit, s, i, j) == [type |-> type, lit |-> lit, sl |-> LineOf(s, i), sc |-> ColOf(s, i), el |-> LineOf(s, j), ec |-> ColOf(s, j)]

\* index of the first character at or after i that is not a space or tab
RECURSIVE SkipBlank(_,_)
SkipBlank(s, i) == IF At(s, i) \in {SPACE, TAB} THEN SkipBlank(s, i + 1) ELSE i
\* index of the line feed (or Len+1) ending the line comment that starts at i
RECURSIVE LineEnd(_,_)
LineEnd(s, i) == IF At(s, i) \in {LF, 0} THEN i ELSE LineEnd(s, i + 1)
\* index just after the block comment whose '/' is at i: the first "*/" found AFTER the two characters of the opener
\* (so "/*/" opens a comment and does not close it; the pinned lexer accepted the opener's own '*' as the closer's,
\* repaired), or Len+1 if there is none
RECURSIVE CommentEnd(_,_)
CommentEnd(s, k) == IF k > Len(s) THEN Len(s) + 1
                    ELSE IF At(s, k) = STAR /\ At(s, k + 1) = SLASH THEN k + 2 ELSE CommentEnd(s, k + 1)
RECURSIVE DigitsEnd(_,_)
DigitsEnd(s, i) == IF At(s, i + 1) = DIGIT THEN DigitsEnd(s, i + 1) ELSE i       \* last index of the run of digits
RECURSIVE IdentEnd(_,_)
IdentEnd(s, i) == IF IsIdent(At(s, i + 1)) THEN IdentEnd(s, i + 1) ELSE i
RECURSIVE StringEnd(_,_)
\* index of the closing quote for the string opened before i, or 0 if the line / input ends first
StringEnd(s, i) == IF At(s, i) \in {0, LF} THEN 0 ELSE IF At(s, i) = QUOTE THEN i ELSE StringEnd(s, i + 1)

\* Lex(s, i): [toks, err] from index i on
RECURSIVE Lex(_,_)
Lex(s, i0) ==
  LET i == SkipBlank(s, i0)
      c == At(s, i)
      d == At(s, i + 1)
      one(type) == LET r == Lex(s, i + 1) IN [toks |-> <<Tok(type, <<c>>, s, i, i)>> \o r.toks, err |-> r.err]
      two(type) == LET r == Lex(s, i + 2) IN [toks |-> <<Tok(type, <<c, d>>, s, i, i + 1)>> \o r.toks, err |-> r.err]
  IN CASE c = 0 -> [toks |-> <<Tok("EOF", <<>>, s, i, i)>>, err |-> FALSE]
       [] c = HASH \/ (c = SLASH /\ d = SLASH) -> Lex(s, LineEnd(s, i))
       [] c = SLASH /\ d = STAR -> Lex(s, CommentEnd(s, i + 2))
       [] c = SLASH -> IF d = EQUALS THEN two("/=") ELSE one("/")
       [] c = STAR -> IF d = STAR THEN two("**") ELSE IF d = EQUALS THEN two("*=") ELSE one("*")
       [] c = PLUS -> IF d = PLUS THEN two("++") ELSE IF d = EQUALS THEN two("+=") ELSE one("+")
       [] c = EQUALS -> IF d = EQUALS THEN two("==") ELSE one("=")
       [] c = LPAREN -> one("(")
       [] c = RPAREN -> one(")")
       [] c = LF -> one("EOL")
       [] c = CR -> IF d = LF THEN two("EOL") ELSE one("EOL")
       [] c = QUOTE -> LET e == StringEnd(s, i + 1) IN
            IF e = 0 THEN [toks |-> <<>>, err |-> TRUE]
            ELSE LET r == Lex(s, e + 1) IN [toks |-> <<Tok("STRING", SubSeq(s, i + 1, e - 1), s, i, e)>> \o r.toks, err |-> r.err]
       [] c = DIGIT -> LET e == DigitsEnd(s, i) IN
            IF At(s, e + 1) = LETTER THEN [toks |-> <<>>, err |-> TRUE]
            ELSE LET r == Lex(s, e + 1) IN [toks |-> <<Tok("INT", SubSeq(s, i, e), s, i, e)>> \o r.toks, err |-> r.err]
       [] c = LETTER -> LET e == IdentEnd(s, i) IN
            LET r == Lex(s, e + 1) IN [toks |-> <<Tok("IDENT", SubSeq(s, i, e), s, i, e)>> \o r.toks, err |-> r.err]
Tokens(s) == Lex(s, 1)

\* the layout-free view: token types and literals without positions
Bare(toks) == [k \in 1..Len(toks) |-> <<toks[k].type, toks[k].lit>>]
\* an index g is a token gap if the text splits there into two independently lexed halves
GapOK(s, g) == LET l == Lex(SubSeq(s, 1, g - 1), 1) r == Lex(SubSeq(s, g, Len(s)), 1) w == Tokens(s) IN
               ~l.err /\ ~w.err /\ Bare(w.toks) = SubSeq(Bare(l.toks), 1, Len(l.toks) - 1) \o Bare(r.toks)
\* layout insertions of the property: blanks and (space-delimited) block comments
\* (single-line forms: an index that splits the text into independently lexed halves may lie at the very end of a
\* line comment, where a line break would end the comment; multi-line comments are exercised on programs by Layout.tla)
Insertions == {<<SPACE>>, <<TAB>>, <<SPACE, SLASH, STAR, LETTER, STAR, SLASH, SPACE>>,
               <<SPACE, SLASH, STAR, STAR, SLASH, SLASH, STAR, PLUS, STAR, SLASH, SPACE>>}
InsertAt(s, g, x) == SubSeq(s, 1, g - 1) \o x \o SubSeq(s, g, Len(s))
\* lemma (leg M): layout inserted at a token gap leaves the token sequence unchanged,
\* except inside a string or comment (where it is text) - a gap never lies there
LayoutInvariant(s) == \A g \in 1..(Len(s) + 1): GapOK(s, g) =>
                         \A x \in Insertions: LET t == Tokens(InsertAt(s, g, x)) IN ~t.err /\ Bare(t.toks) = Bare(Tokens(s).toks)
\* positions are well formed: inside the text, start <= end, strictly increasing
PositionsOK(s) == LET t == Tokens(s).toks ls == Lines(s) IN
   /\ \A k \in 1..Len(t): t[k].sl <= Len(ls) - 1 /\ t[k].sc <= Len(ls[t[k].sl + 1]) /\ t[k].sl >= 0 /\ t[k].sc >= 0
                          /\ (t[k].sl < t[k].el \/ (t[k].sl = t[k].el /\ t[k].sc <= t[k].ec))
   /\ \A k \in 1..(Len(t) - 1): t[k].el < t[k+1].sl \/ (t[k].el = t[k+1].sl /\ t[k].ec < t[k+1].sc)
=============================================================================
