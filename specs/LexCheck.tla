------------------------------ MODULE LexCheck ------------------------------
(* C20 leg G(i): the real lexer's token stream for every string over the class alphabet  *)
(* (VERIF_CASES: {id, src, toks, err}) must be the one Lexer.tla specifies; and leg M:   *)
(* the layout lemma and position well-formedness hold in the specification for the same  *)
(* string.  One string per TLC state.                                                     *)
EXTENDS Lexer, Json, IOUtils
Cases == ndJsonDeserialize(IOEnv.VERIF_CASES)
VARIABLE i
Init == i = 1
Next == i <= Len(Cases) /\ i' = i + 1
\* positions of the EOF token are not compared (after an unterminated block comment the
\* implementation reports one column further; the property speaks of positions of errors in the text)
SameTok(a, b) == a.type = b.type /\ a.lit = b.lit /\ (a.type = "EOF" \/ (a.sl = b.sl /\ a.sc = b.sc /\ a.el = b.el /\ a.ec = b.ec))
Check == i <= Len(Cases) =>
  LET c == Cases[i]
      spec == Tokens(c.src)
      n == Len(spec.toks)
  IN /\ (spec.err = c.err /\ Len(c.toks) = n /\ \A k \in 1..n: SameTok(spec.toks[k], c.toks[k]))
          \/ PrintT(<<"MISMATCH", c.id, ToJson(spec)>>)
     /\ (spec.err \/ LayoutInvariant(c.src)) \/ PrintT(<<"SPECLEMMA", c.id, "layout">>)
     /\ (spec.err \/ PositionsOK(c.src)) \/ PrintT(<<"SPECLEMMA", c.id, "positions">>)
=============================================================================
