CONSTANTS Faithful = FALSE
 MaxRuns = 8
 Steps = 0
 MaxClones = 1
INIT TInit
NEXT TNext
INVARIANT Stuck
INVARIANT TNoCut
CHECK_DEADLOCK FALSE
