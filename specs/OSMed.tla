------------------------------- MODULE OSMed -------------------------------
(* C12 - a host-supplied OS mediates all file, environment, process and stdio access.   *)
(*                                                                                      *)
(* Part 1 (Delegates): for every exported member of the os, filepath and fmt modules,   *)
(* every OS-touching global builtin and every file-object method, the methods of the    *)
(* host's os.OS / os.File the member is ALLOWED to use and the subset it is REQUIRED to *)
(* use when it succeeds (DESIGN.md Appendix D, read from the module sources).           *)
(*                                                                                      *)
(* Part 2 (propagation): how the OS reference reaches a builtin.  A VM has a field os   *)
(* (risor.WithOS), a context may carry the value risor:os (os.WithOS(ctx, ..)).         *)
(* vm.initContext installs vm.getOS(ctx) into the context handed to every builtin; a    *)
(* builtin reads os.GetDefaultOS(ctx).  Spawn (go / spawn) clones the running VM and     *)
(* derives the thread's context from the builtin's context; a host-side Clone + Call     *)
(* starts from the HOST's context; an import runs the module body in the same VM and     *)
(* context.  Invariant Mediated: the OS a builtin observes is the host's, in every        *)
(* nesting of these contexts and for both ways of supplying the OS.                      *)
EXTENDS Integers, Sequences, FiniteSets, TLC, Json

CONSTANTS MaxDepth,        \* bound on the nesting of execution contexts (leg M)
          CloneCopiesOS,   \* vm.Clone copies VirtualMachine.os          (TRUE in the code)
          InitInstalls     \* vm.initContext stores getOS(ctx) in the ctx (TRUE in the code)

-----------------------------------------------------------------------------
(* Part 1: Delegates *)

One(m)    == [allowed |-> {m}, required |-> {m}, file |-> "none"]
Pure      == [allowed |-> {},  required |-> {},  file |-> "none"]
D(a, r)   == [allowed |-> a,   required |-> r,   file |-> "none"]
\* stdout writers: resolve Stdout() and write to THAT file
Printer   == [allowed |-> {"Stdout", "File.Write"}, required |-> {"Stdout", "File.Write"}, file |-> "stdout"]
\* file-object methods act only on the os.File the object wraps (label "subject")
FM(a, r)  == [allowed |-> a, required |-> r, file |-> "subject"]

OsModule ==
     "os.args"            :> One("Args")
  @@ "os.chdir"           :> One("Chdir")
  @@ "os.create"          :> One("Create")
  @@ "os.current_user"    :> One("CurrentUser")
  @@ "os.environ"         :> One("Environ")
  @@ "os.exit"            :> One("Exit")
  @@ "os.getenv"          :> One("Getenv")
  @@ "os.getpid"          :> One("Getpid")
  @@ "os.getuid"          :> One("Getuid")
  @@ "os.getwd"           :> One("Getwd")
  @@ "os.hostname"        :> One("Hostname")
  @@ "os.lookup_gid"      :> One("LookupGid")
  @@ "os.lookup_group"    :> One("LookupGroup")
  @@ "os.lookup_uid"      :> One("LookupUid")
  @@ "os.lookup_user"     :> One("LookupUser")
  @@ "os.mkdir"           :> One("Mkdir")
  @@ "os.mkdir_all"       :> One("MkdirAll")
  @@ "os.mkdir_temp"      :> One("MkdirTemp")
  @@ "os.open"            :> One("Open")
  @@ "os.read_dir"        :> D({"ReadDir", "Getwd"}, {"ReadDir"})
  @@ "os.read_file"       :> One("ReadFile")
  @@ "os.remove"          :> One("Remove")
  @@ "os.remove_all"      :> One("RemoveAll")
  @@ "os.rename"          :> One("Rename")
  @@ "os.setenv"          :> One("Setenv")
  @@ "os.stat"            :> One("Stat")
  @@ "os.symlink"         :> One("Symlink")
  @@ "os.temp_dir"        :> One("TempDir")
  @@ "os.unsetenv"        :> One("Unsetenv")
  @@ "os.user_cache_dir"  :> One("UserCacheDir")
  @@ "os.user_config_dir" :> One("UserConfigDir")
  @@ "os.user_home_dir"   :> One("UserHomeDir")
  @@ "os.write_file"      :> One("WriteFile")
  @@ "os.stdin"           :> One("Stdin")
  @@ "os.stdout"          :> One("Stdout")
  @@ "os.stderr"          :> One("Stderr")
  @@ "os.err_not_exist"   :> Pure
  @@ "os.err_exist"       :> Pure
  @@ "os.err_permission"  :> Pure
  @@ "os.err_closed"      :> Pure
  @@ "os.err_invalid"     :> Pure
  @@ "os.err_no_deadline" :> Pure
  @@ "os.err_deadline_exceeded" :> Pure

FilepathModule ==
     "filepath.abs"        :> D({"Getwd"}, {})
  @@ "filepath.base"       :> Pure
  @@ "filepath.clean"      :> Pure
  @@ "filepath.dir"        :> Pure
  @@ "filepath.ext"        :> Pure
  @@ "filepath.is_abs"     :> Pure
  @@ "filepath.join"       :> Pure
  @@ "filepath.match"      :> Pure
  @@ "filepath.rel"        :> Pure
  @@ "filepath.split"      :> Pure
  @@ "filepath.split_list" :> Pure
  @@ "filepath.walk_dir"   :> One("WalkDir")

FmtModule ==
     "fmt.printf"  :> Printer
  @@ "fmt.println" :> Printer
  @@ "fmt.errorf"  :> Pure
  @@ "fmt.sprintf" :> Pure

GlobalBuiltins ==
     "cat"      :> One("ReadFile")
  @@ "cd"       :> One("Chdir")
  @@ "cp"       :> D({"ReadFile", "WriteFile"}, {"ReadFile", "WriteFile"})
  @@ "getenv"   :> One("Getenv")
  @@ "ls"       :> D({"ReadDir", "Getwd"}, {"ReadDir"})
  @@ "setenv"   :> One("Setenv")
  @@ "unsetenv" :> One("Unsetenv")
  @@ "open"     :> One("Open")
  @@ "print"    :> Printer
  @@ "printf"   :> Printer
  @@ "errorf"   :> Pure
  @@ "sprintf"  :> Pure

FileMethods ==
     "file.name"       :> FM({}, {})
  @@ "file.stat"       :> FM({"File.Stat"}, {"File.Stat"})
  @@ "file.position"   :> FM({"File.Seek"}, {"File.Seek"})
  @@ "file.read"       :> FM({"File.Read", "File.Stat"}, {"File.Read"})
  @@ "file.write"      :> FM({"File.Write"}, {"File.Write"})
  @@ "file.close"      :> FM({"File.Close"}, {"File.Close"})
  @@ "file.seek"       :> FM({"File.Seek"}, {"File.Seek"})
  @@ "file.read_lines" :> FM({"File.Read"}, {"File.Read"})
  @@ "file.iter"       :> FM({"File.Read"}, {"File.Read"})

Delegates == OsModule @@ FilepathModule @@ FmtModule @@ GlobalBuiltins @@ FileMethods

\* argument-dependent requirements: <<member, variant>> -> required methods
ReqOverride ==
     <<"os.read_dir", "cwd">>  :> {"ReadDir", "Getwd"}
  @@ <<"ls", "cwd">>           :> {"ReadDir", "Getwd"}
  @@ <<"filepath.abs", "rel">> :> {"Getwd"}
  @@ <<"file.read", "buffer">> :> {"File.Read", "File.Stat"}

Required(fn, v) == IF <<fn, v>> \in DOMAIN ReqOverride THEN ReqOverride[<<fn, v>>] ELSE Delegates[fn].required

\* DESIGN.md 8.2: additional read-only Stat calls and the constant separators are tolerated
Tolerated == {"Stat", "File.Stat", "PathSeparator", "PathListSeparator"}
Allowed(fn) == Delegates[fn].allowed \cup Tolerated

\* every method of the os.OS interface and of os.File (sanity of the table: no typos)
OSMethods == {"Create", "Mkdir", "MkdirAll", "Open", "OpenFile", "ReadFile", "Remove", "RemoveAll", "Rename", "Stat",
              "Symlink", "WriteFile", "ReadDir", "WalkDir", "Args", "Chdir", "Environ", "Exit", "Getenv", "Getpid",
              "Getuid", "Getwd", "Hostname", "LookupEnv", "MkdirTemp", "Setenv", "TempDir", "Unsetenv", "UserCacheDir",
              "UserConfigDir", "UserHomeDir", "Stdin", "Stdout", "Stderr", "PathSeparator", "PathListSeparator",
              "CurrentUser", "LookupUser", "LookupUid", "LookupGroup", "LookupGid"}
FileMethodNames == {"File.Stat", "File.Read", "File.Write", "File.Close", "File.Seek"}
DelegatesWellFormed ==
  /\ \A fn \in DOMAIN Delegates :
        /\ Delegates[fn].required \subseteq Delegates[fn].allowed
        /\ Delegates[fn].allowed \subseteq OSMethods \cup FileMethodNames
        /\ Delegates[fn].file \in {"none", "stdout", "subject"}
  /\ \A k \in DOMAIN ReqOverride : k[1] \in DOMAIN Delegates /\ ReqOverride[k] \subseteq Delegates[k[1]].allowed

\* source inventory: a direct reference from the module sources to Go's os, io/ioutil, syscall,
\* os/user, os/exec (or fmt.Print*) is accepted when it is a constant, a type or an error
\* sentinel; functions and variables only when whitelisted: the functions below compute on
\* their arguments only (error classification, readers) and touch no operating-system state
RefWhitelist == {<<"os", "IsNotExist">>, <<"os", "IsExist">>, <<"os", "IsPermission">>, <<"os", "IsTimeout">>,
                 <<"os", "IsPathSeparator">>, <<"os", "SameFile">>, <<"os", "NewSyscallError">>,
                 <<"io/ioutil", "NopCloser">>, <<"io/ioutil", "ReadAll">>, <<"io/ioutil", "Discard">>}
RefAccepted(pkg, ident, kind) == kind \in {"const", "type", "errvar"} \/ <<pkg, ident>> \in RefWhitelist

-----------------------------------------------------------------------------
(* Part 2: propagation of the OS reference *)

Host == "host"      \* the OS the embedding application supplied
Real == "real"      \* os.NewSimpleOS: the process's real operating system
None == "none"      \* no OS recorded (nil field / no context value)

\* risor.WithOS option / os.WithOS(ctx, ..) / the same after the VM ran once with no OS at all (plain context):
\* nothing of that first run may stick to the VM; "withoswarm": the WithOS option after the VM ran under ANOTHER
\* host OS with the same parent context; "withosvm": the top-level API risor.Eval with the options WithOS and WithVM
\* (a VM the host made with vm.NewEmpty); "withosafterctx": the VM's own WithOS after an invocation whose context carried another OS;
\* "withosshared": the default globals (module objects) are shared with an earlier evaluation under another OS
\* "withosonce": the OS given once to vm.New, the script run later by RunCode without any option
Sources == {"withos", "ctx", "ctxwarm", "withoswarm", "withosvm", "ctxover", "withosafterctx", "withosonce", "withosshared"}
CtxSources == {"ctx", "ctxwarm", "ctxover"}   \* ctxover: os.WithOS on a context that already carries another OS
SpawnKinds  == {"go", "spawn"}                    \* vm.cloneCallAsync
HClonekinds == {"clone", "cclone"}                \* host: vm.Clone() + Call(hostCtx, ..) after Run / from a host callback
ImportKinds == {"import_body", "import_fn"}       \* module body at import time / function of an imported module
\* a host builtin keeps object.GetCloneCallFunc(ctx) and invokes it later with a context of its own that carries no
\* OS (modules/http handlers do, with the request's context): only the OS the VM was configured with can reach it
CloneCallKinds == {"clonecall"}
Kinds == SpawnKinds \cup HClonekinds \cup ImportKinds \cup CloneCallKinds

GetOS(vmos, ctxos)       == IF ctxos # None THEN ctxos ELSE IF vmos # None THEN vmos ELSE Real   \* vm.getOS
InitContext(vmos, ctxos) == IF InitInstalls THEN GetOS(vmos, ctxos) ELSE ctxos                    \* vm.initContext
CloneVM(vmos)            == IF CloneCopiesOS THEN vmos ELSE None                                  \* vm.Clone
BuiltinSees(ctxos)       == IF ctxos # None THEN ctxos ELSE Real                                  \* os.GetDefaultOS

VARIABLES src,       \* how the host supplied its OS
          stack,     \* execution contexts, outermost first: [kind, vmos, ctxos]
          pending,   \* a VM clone was made and has not started running yet
          observed   \* OS seen by the most recent builtin call ("none" before the first)
pvars == <<src, stack, pending, observed>>

HostCtx == IF src \in CtxSources THEN Host ELSE None
BaseVM  == IF src \in {"withos", "withoswarm", "withosvm", "withosafterctx", "withosonce", "withosshared"} THEN Host ELSE None
Top     == stack[Len(stack)]
Path    == [i \in 1..(Len(stack) - 1) |-> stack[i + 1].kind]

PInit == src \in Sources /\ stack = <<>> /\ pending = FALSE /\ observed = None

CanStart        == stack = <<>>
CanVMClone      == stack # <<>> /\ ~pending /\ Len(stack) <= MaxDepth
CanSpawn(k)     == pending /\ k \in SpawnKinds
CanHostClone(k) == pending /\ k \in HClonekinds /\ (k = "clone" => Len(stack) = 1)   \* "clone": after Run has returned
CanCloneCall(k) == pending /\ k \in CloneCallKinds /\ src \in {"withos", "withoswarm", "withosvm", "withosafterctx", "withosonce", "withosshared"}
CanImport(k)    == stack # <<>> /\ ~pending /\ k \in ImportKinds /\ Len(stack) <= MaxDepth
CanCall         == stack # <<>> /\ ~pending

\* Run(hostCtx) on the base VM
StartWith(s) == /\ CanStart
                /\ src' = s
                /\ LET bvm == IF s \in {"withos", "withoswarm", "withosvm", "withosafterctx", "withosonce", "withosshared"} THEN Host ELSE None
                       hc  == IF s \in CtxSources THEN Host ELSE None
                   IN stack' = <<[kind |-> "top", vmos |-> bvm, ctxos |-> InitContext(bvm, hc)]>>
                /\ UNCHANGED <<pending, observed>>
Start == StartWith(src)

VMClone == /\ CanVMClone
           /\ pending' = TRUE
           /\ UNCHANGED <<src, stack, observed>>

\* go f() / spawn(f): the clone of the RUNNING VM gets clone.initContext(ctx of the builtin)
Spawn(k) == /\ CanSpawn(k)
            /\ LET c == CloneVM(Top.vmos)
               IN stack' = Append(stack, [kind |-> k, vmos |-> c, ctxos |-> InitContext(c, Top.ctxos)])
            /\ pending' = FALSE
            /\ UNCHANGED <<src, observed>>

\* host: clone := vm.Clone(); clone.Call(hostCtx, fn): the clone of the BASE VM, the host's own context
HostClone(k) == /\ CanHostClone(k)
                /\ LET c == CloneVM(stack[1].vmos)
                   IN stack' = Append(stack, [kind |-> k, vmos |-> c, ctxos |-> InitContext(c, HostCtx)])
                /\ pending' = FALSE
                /\ UNCHANGED <<src, observed>>

\* clone-call with a foreign context: the clone of the RUNNING VM, a context without an OS
CloneCall(k) == /\ CanCloneCall(k)
                /\ LET c == CloneVM(Top.vmos)
                   IN stack' = Append(stack, [kind |-> k, vmos |-> c, ctxos |-> InitContext(c, None)])
                /\ pending' = FALSE
                /\ UNCHANGED <<src, observed>>

\* import: vm.importModule evaluates the module in the same VM with the same context
Import(k) == /\ CanImport(k)
             /\ stack' = Append(stack, [kind |-> k, vmos |-> Top.vmos, ctxos |-> Top.ctxos])
             /\ UNCHANGED <<src, pending, observed>>

\* a member of Delegates is called in the current context
Call == /\ CanCall
        /\ observed' = BuiltinSees(Top.ctxos)
        /\ UNCHANGED <<src, stack, pending>>

PNext == Start \/ VMClone \/ (\E k \in Kinds : Spawn(k) \/ HostClone(k) \/ CloneCall(k) \/ Import(k)) \/ Call

Mediated == observed \in {None, Host}

TypeOK == /\ src \in Sources /\ pending \in BOOLEAN /\ observed \in {None, Host, Real}
          /\ \A i \in 1..Len(stack) : stack[i].vmos \in {None, Host} /\ stack[i].ctxos \in {None, Host, Real}

\* leg G: every nesting explored by TLC is exported and executed on the real code
ExportNestings == (stack # <<>> /\ ~pending) => PrintT(<<"NEST", ToJson(Path)>>)

ASSUME DelegatesWellFormed
=============================================================================
