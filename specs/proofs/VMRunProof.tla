---------------------------- MODULE VMRunProof ----------------------------
(***************************************************************************)
(* TLAPS proof that the repaired design of VMRun.tla (Faithful = FALSE)    *)
(* satisfies the C07 invariants NoCut and OwnContextOnly for ALL values    *)
(* of MaxRuns, Steps and MaxClones - TLC decides them for the small        *)
(* constants of VMRun.cfg only.  The strengthening is                      *)
(*   - every armed watcher watches the context of its own run (ctx = g);   *)
(*   - while a run is in progress its halt flag is set only if the         *)
(*     context of THAT run is done.                                        *)
(* Checked by:  tlapm --threads 16 -I <stdlib> VMRunProof.tla              *)
(***************************************************************************)
EXTENDS VMRun, TLAPS

ASSUME Repaired == Faithful = FALSE
ASSUME ConstTypes == MaxRuns \in Nat /\ Steps \in Nat /\ MaxClones \in Nat

Outcome == [g : Nat, r : {"ctxerr", "cut", "complete"}]

Inv == /\ gen \in Nat
       /\ halt \in {0, 1}
       /\ running \in BOOLEAN
       /\ outcomes \in Seq(Outcome)
       /\ \A w \in watchers : w.ctx = w.g
       /\ (running /\ halt = 1) => gen \in ctxDone
       /\ NoCut
       /\ OwnContextOnly

THEOREM InitInv == Init => Inv
  BY DEF Init, Inv, NoCut, OwnContextOnly, Outcome

LEMMA AppendOutcome ==
  ASSUME NEW s \in Seq(Outcome), NEW e \in Outcome
  PROVE  /\ Append(s, e) \in Seq(Outcome)
         /\ Len(Append(s, e)) = Len(s) + 1
         /\ \A i \in 1..Len(s) : Append(s, e)[i] = s[i]
         /\ Append(s, e)[Len(s) + 1] = e
  OBVIOUS

THEOREM NextInv == Inv /\ [Next]_vars => Inv'
<1> SUFFICES ASSUME Inv, [Next]_vars PROVE Inv'
  OBVIOUS
<1> USE Repaired
<1>1. CASE Start
  BY <1>1 DEF Start, Inv, NoCut, OwnContextOnly
<1>2. CASE Step
  BY <1>2 DEF Step, Inv, NoCut, OwnContextOnly
<1>3. CASE SeeHalt
  <2> DEFINE e == [g |-> gen, r |-> IF gen \in ctxDone THEN "ctxerr" ELSE "cut"]
  <2>1. gen \in ctxDone /\ e \in Outcome /\ e.r = "ctxerr" /\ e.g = gen
    BY <1>3 DEF SeeHalt, Inv, Outcome
  <2>2. outcomes' = Append(outcomes, e) /\ outcomes \in Seq(Outcome)
    BY <1>3 DEF SeeHalt, Inv
  <2>3. /\ outcomes' \in Seq(Outcome) /\ Len(outcomes') = Len(outcomes) + 1
        /\ \A i \in 1..Len(outcomes) : outcomes'[i] = outcomes[i]
        /\ outcomes'[Len(outcomes) + 1] = e
    BY <2>1, <2>2, AppendOutcome
  <2>4. NoCut' /\ OwnContextOnly'
    BY <1>3, <2>1, <2>3 DEF SeeHalt, Inv, NoCut, OwnContextOnly, Outcome
  <2>5. (\A w \in watchers : w.ctx = w.g)'
    BY <1>3 DEF SeeHalt, Inv, Disarm
  <2> QED
    BY <1>3, <2>3, <2>4, <2>5 DEF SeeHalt, Inv
<1>4. CASE Finish
  <2> DEFINE e == [g |-> gen, r |-> "complete"]
  <2>1. e \in Outcome /\ e.r = "complete"
    BY DEF Inv, Outcome
  <2>2. outcomes' = Append(outcomes, e) /\ outcomes \in Seq(Outcome)
    BY <1>4 DEF Finish, Inv
  <2>3. /\ outcomes' \in Seq(Outcome) /\ Len(outcomes') = Len(outcomes) + 1
        /\ \A i \in 1..Len(outcomes) : outcomes'[i] = outcomes[i]
        /\ outcomes'[Len(outcomes) + 1] = e
    BY <2>1, <2>2, AppendOutcome
  <2>4. NoCut' /\ OwnContextOnly'
    BY <1>4, <2>1, <2>3 DEF Finish, Inv, NoCut, OwnContextOnly, Outcome
  <2>5. (\A w \in watchers : w.ctx = w.g)'
    BY <1>4 DEF Finish, Inv, Disarm
  <2> QED
    BY <1>4, <2>3, <2>4, <2>5 DEF Finish, Inv
<1>5. CASE \E c \in Ctxs : Cancel(c)
  BY <1>5 DEF Cancel, Inv, NoCut, OwnContextOnly
<1>6. CASE \E w \in watchers : WatcherFire(w)
  BY <1>6 DEF WatcherFire, Inv, NoCut, OwnContextOnly
<1>7. CASE \E k \in CloneIds : Spawn(k) \/ CloneStep(k) \/ CloneSeeHalt(k) \/ CloneWatcherFire(k)
  BY <1>7 DEF Spawn, CloneStep, CloneSeeHalt, CloneWatcherFire, Inv, NoCut, OwnContextOnly
<1>8. CASE UNCHANGED vars
  BY <1>8 DEF vars, Inv, NoCut, OwnContextOnly
<1> QED
  BY <1>1, <1>2, <1>3, <1>4, <1>5, <1>6, <1>7, <1>8 DEF Next

THEOREM Safety == Init /\ [][Next]_vars => [](NoCut /\ OwnContextOnly)
<1>1. Inv => NoCut /\ OwnContextOnly
  BY DEF Inv
<1> QED
  BY InitInv, NextInv, <1>1, PTL
=============================================================================
