--------------------------- MODULE ContainersCheck ---------------------------
(* Trace validation for C16: every line of VERIF_HISTS is one operation history applied   *)
(* to REAL risor containers, {id, steps: [step...], obs: [{r, ch}...]}: obs[i].r is the     *)
(* flattened result of step i ([0, value...] or [1] = raised) and obs[i].ch the names whose *)
(* deep projection changed, with the new projection.  TStep replays one recorded step       *)
(* through Containers!Apply and compares; TReset moves to the next history.  The (always    *)
(* true) invariant prints                                                                   *)
(*   <<"MISMATCH", id, step, json>>  the observation is not what the operation allows       *)
(*   <<"UNKNOWN", id, step>>         the history left the modelled domain at that step      *)
(* A history is followed up to its first mismatch / unknown / truncating step.              *)
EXTENDS Containers, Json, IOUtils
Hists == ndJsonDeserialize(IOEnv.VERIF_HISTS)
VARIABLES hi, l, heap, env, view, msg
vars == <<hi, l, heap, env, view, msg>>
View0 == View(<<>>, EmptyEnv)
NoMsg == [k |-> ""]
Init == hi = 1 /\ l = 0 /\ heap = <<>> /\ env = EmptyEnv /\ view = View0 /\ msg = NoMsg
NSteps == Len(Hists[hi].steps)
\* the projection an observer holds after the step: the previous one updated by the recorded changes
Updated(old, ch) == [n \in Names |-> LET hits == {i \in 1..Len(ch): ch[i].n = n} IN
                                     IF hits = {} THEN old[n] ELSE ch[CHOOSE i \in hits: TRUE].p]
TStep ==
  /\ hi <= Len(Hists) /\ l < NSteps
  /\ LET st == Hists[hi].steps[l + 1] ob == Hists[hi].obs[l + 1] IN
     \E ap \in {Apply(st, heap, env)}:
       IF ap.r.k = "unknown"
       THEN /\ msg' = [k |-> "UNKNOWN", id |-> Hists[hi].id, step |-> l]
            /\ l' = NSteps /\ UNCHANGED <<hi, heap, env, view>>
       ELSE LET exp == StepView(st, ap, view) er == RFlat(ap.r)
                good == ob.r = er /\ (ap.r.trunc \/ Updated(view, ob.ch) = exp)   \* after a failed in-place sort the contents are unspecified
            IN /\ heap' = ap.r.h /\ env' = ap.env /\ view' = exp /\ hi' = hi
               /\ l' = IF good /\ ~ap.r.trunc THEN l + 1 ELSE NSteps
               /\ msg' = IF good THEN NoMsg
                         ELSE [k |-> "MISMATCH", id |-> Hists[hi].id, step |-> l,
                               exp |-> [r |-> er, kind |-> ap.r.kind, ch |-> Changed(view, exp), tr |-> ap.r.trunc]]
\* TraceReset: next recorded history, fresh heap
TReset == /\ hi <= Len(Hists) /\ l >= NSteps
          /\ hi' = hi + 1 /\ l' = 0 /\ heap' = <<>> /\ env' = EmptyEnv /\ view' = View0 /\ msg' = NoMsg
Next == TStep \/ TReset
Report == CASE msg.k = "MISMATCH" -> PrintT(<<"MISMATCH", msg.id, msg.step, ToJson(msg.exp)>>)
            [] msg.k = "UNKNOWN" -> PrintT(<<"UNKNOWN", msg.id, msg.step>>)
            [] OTHER -> TRUE
=============================================================================
