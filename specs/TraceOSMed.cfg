CONSTANTS
  MaxDepth = 100
  CloneCopiesOS = TRUE
  InitInstalls = TRUE
INIT TInit
NEXT TNext
INVARIANT EvConforms
CHECK_DEADLOCK FALSE
