INIT TInit
NEXT TNext
INVARIANT Stuck
CHECK_DEADLOCK FALSE
