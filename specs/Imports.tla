------------------------------ MODULE Imports ------------------------------
(* C14 - imports stay inside the import root, run once, keep their own globals.      *)
(*                                                                                    *)
(* Two parts, one source of truth for the legs M (ImportsMC, ImportsPaths), G and V  *)
(* (ImportsCheck):                                                                    *)
(*  1. Path texts.  An import path is a sequence of code points (what the lexer      *)
(*     hands to the parser after decoding escapes).  Accepts(t) is the design's      *)
(*     validator (identifiers separated by single slashes); Resolve(t, ext) models   *)
(*     the importer's file name  Clean(Join(root, t + ext))  relative to the root.   *)
(*  2. The import machine.  A world is a file tree of modules (bodies = statement    *)
(*     lists) plus a main program.  The state has the per-VM cache `modules`         *)
(*     (NAME -> instance), the importer's `codeCache`, `ran[name]`, the module       *)
(*     instances with their own global cells (`insts[i].env`, instance 1 = main),    *)
(*     the set of files opened, and the observable log.  Exec is one transition      *)
(*     (ImportStmt / FromImport / RunBody / an observation) of the top frame.        *)
EXTENDS Integers, Sequences, FiniteSets, TLC

\* ===================================================================== path texts
SLASH == 47
DOT == 46
IsLetter(c) == (c >= 97 /\ c <= 122) \/ (c >= 65 /\ c <= 90) \/ c = 95
IsDigit(c) == c >= 48 /\ c <= 57
IsIdent(seg) == /\ Len(seg) >= 1
                /\ IsLetter(seg[1])
                /\ \A k \in 2..Len(seg): IsLetter(seg[k]) \/ IsDigit(seg[k])

RECURSIVE SplitR(_, _, _)
SplitR(cps, k, cur) ==
  IF k > Len(cps) THEN <<cur>>
  ELSE IF cps[k] = SLASH THEN <<cur>> \o SplitR(cps, k + 1, <<>>)
  ELSE SplitR(cps, k + 1, Append(cur, cps[k]))
Split(cps) == SplitR(cps, 1, <<>>)          \* "a//b" -> <<"a", "", "b">>, "" -> <<"">>

\* the validator of the design: one or more identifiers separated by single slashes
Accepts(cps) == LET segs == Split(cps) IN \A k \in 1..Len(segs): IsIdent(segs[k])

\* Clean(Join(root, text)) relative to the root: `up` counts the ".." that climb above it
RECURSIVE CleanR(_, _, _, _)
CleanR(segs, k, up, acc) ==
  IF k > Len(segs) THEN [up |-> up, path |-> acc]
  ELSE LET g == segs[k] IN
       IF g = <<>> \/ g = <<DOT>> THEN CleanR(segs, k + 1, up, acc)
       ELSE IF g = <<DOT, DOT>>
            THEN IF acc = <<>> THEN CleanR(segs, k + 1, up + 1, acc)
                 ELSE CleanR(segs, k + 1, up, SubSeq(acc, 1, Len(acc) - 1))
       ELSE CleanR(segs, k + 1, up, Append(acc, g))
ExtRisor == <<46, 114, 105, 115, 111, 114>>          \* ".risor"
ExtRsr == <<46, 114, 115, 114>>                       \* ".rsr"
Resolve(cps, ext) == CleanR(Split(cps \o ext), 1, 0, <<>>)
Confined(cps) == \A ext \in {ExtRisor, ExtRsr}:
                    LET r == Resolve(cps, ext) IN r.up = 0 /\ r.path # <<>>
\* the text of the module that a confined path denotes (without extension)
CleanText(cps) == LET r == CleanR(Split(cps), 1, 0, <<>>) IN r
RECURSIVE JoinSegs(_, _)
JoinSegs(segs, k) == IF k > Len(segs) THEN <<>>
                     ELSE IF k = Len(segs) THEN segs[k]
                     ELSE segs[k] \o <<SLASH>> \o JoinSegs(segs, k + 1)

\* ===================================================================== values, worlds
\* Module names are sequences of segment strings: <<"a", "b">> is the module "a/b".
MainName == <<>>
BadSegs == {"..", ".", ""}
AcceptsName(T) == Len(T) >= 1 /\ \A k \in 1..Len(T): T[k] \notin BadSegs

IntV(n) == [t |-> "int", n |-> n, f |-> ""]
ModV(i) == [t |-> "mod", n |-> i, f |-> ""]
FnV(i, f) == [t |-> "fn", n |-> i, f |-> f]

Ext(fn, k, v) == [u \in DOMAIN fn \cup {k} |-> IF u = k THEN v ELSE fn[u]]
Count(fn, k) == IF k \in DOMAIN fn THEN fn[k] ELSE 0

\* A world: [tree, main, mods].  tree = "set": mods is a sequence of
\* [name, present, init, body]; tree = "ab": every name over {"a","b"} of length 1..4
\* is a present module with an empty body (the fixed tree of the path-text cases).
ABName(T) == Len(T) \in 1..4 /\ \A k \in 1..Len(T): T[k] \in {"a", "b"}
ModIdx(w, T) == IF \E k \in 1..Len(w.mods): w.mods[k].name = T
                THEN CHOOSE k \in 1..Len(w.mods): w.mods[k].name = T ELSE 0
Present(w, T) == IF w.tree = "ab" THEN ABName(T)
                 ELSE ModIdx(w, T) # 0 /\ w.mods[ModIdx(w, T)].present
BodyOf(w, T) == IF T = MainName THEN w.main
                ELSE IF w.tree = "ab" \/ ModIdx(w, T) = 0 THEN <<>>
                ELSE w.mods[ModIdx(w, T)].body
InitX(w, T) == IF w.tree = "ab" \/ ModIdx(w, T) = 0 THEN 7 ELSE w.mods[ModIdx(w, T)].init
\* a module file that contains an import statement with an invalid path does not compile
ParseOK(body) == \A k \in 1..Len(body):
                    body[k].k \in {"imp", "fimp", "sfimp", "from"} => AcceptsName(body[k].tgt)

\* ===================================================================== machine state
\* ni: the number of module instances that existed when the frame reached its current statement
\* skip: modules the current statement asked for that are NOT AVAILABLE (no file, does not parse); bad: modules that
\* exist but whose import FAILED (their body raised, or they are being imported already: a cycle).  A from-import
\* falls back to an attribute of the parent only for the former; the latter ends the statement with the error.
Frame(i) == [o |-> i, pc |-> 1, it |-> 0, vals |-> <<>>, skip |-> {}, bad |-> {}, ni |-> i]
\* module names are sequences of segment STRINGS (CleanR works on code point tuples):
RECURSIVE CleanN(_, _, _, _)
CleanN(T, k, up, acc) ==
  IF k > Len(T) THEN [up |-> up, path |-> acc]
  ELSE IF T[k] \in {"", "."} THEN CleanN(T, k + 1, up, acc)
  ELSE IF T[k] = ".." THEN IF acc = <<>> THEN CleanN(T, k + 1, up + 1, acc)
                           ELSE CleanN(T, k + 1, up, SubSeq(acc, 1, Len(acc) - 1))
  ELSE CleanN(T, k + 1, up, Append(acc, T[k]))
FileN(T, ext) == LET r == CleanN(T, 1, 0, <<>>) IN [up |-> r.up, path |-> r.path, ext |-> ext]

InitState(w) ==
  LET ok == ParseOK(w.main) IN
  [ status |-> IF ok THEN "run" ELSE "err",
    err |-> IF ok THEN "" ELSE "parse",
    stack |-> IF ok THEN <<Frame(1)>> ELSE <<>>,
    modules |-> <<>>,                 \* NAME -> instance (per-VM cache of evaluated modules)
    \* does a spawned thread share the module table of its parent (the property: one evaluation, one module state)?
    \* FALSE is the pinned implementation: the thread's VM gets a COPY of the table, what it imports is lost
    shares |-> IF "shares" \in DOMAIN w THEN w.shares ELSE TRUE,
    codeCache |-> {},                 \* names compiled by the importer
    ran |-> <<>>,                     \* NAME -> number of body runs started
    fails |-> <<>>,                   \* NAME -> number of body runs that failed
    uses |-> <<>>,                    \* NAME -> number of import resolutions that returned it
    insts |-> << [name |-> MainName, env |-> [v \in {"x"} |-> IntV(1)]] >>,
    opened |-> {},                    \* files the importer tried to open
    log |-> <<>>,
    lasterr |-> "" ]

Top(s) == s.stack[Len(s.stack)]
SetTop(s, f) == [s EXCEPT !.stack = [@ EXCEPT ![Len(@)] = f]]
OnStack(s, T) == \E k \in 1..Len(s.stack): s.insts[s.stack[k].o].name = T
Entry(e, m, v) == [e |-> e, m |-> m, v |-> v]

ModuleEnv(w, T, i) ==
  [v \in {"x", "getx", "bump"} |->
     IF v = "x" THEN IntV(InitX(w, T)) ELSE FnV(i, v)]

\* RunBody(T): a fresh instance with its own cells; the body starts with tick(T)
Start(w, s, T) ==
  LET i == Len(s.insts) + 1 IN
  [s EXCEPT !.ran = Ext(@, T, Count(@, T) + 1),
            !.log = Append(@, Entry("tick", T, 0)),
            !.insts = Append(@, [name |-> T, env |-> ModuleEnv(w, T, i)]),
            !.stack = Append(@, Frame(i))]

Refuse(s, T, e) == LET f == Top(s) IN
  IF e = "cycle" THEN SetTop([s EXCEPT !.lasterr = e], [f EXCEPT !.bad = @ \cup {T}])
  ELSE SetTop([s EXCEPT !.lasterr = e], [f EXCEPT !.skip = @ \cup {T}])

\* importModule(T) for a module that is not cached
Attempt(w, s, T) ==
  IF OnStack(s, T) THEN Refuse(s, T, "cycle")
  ELSE IF T \in s.codeCache THEN Start(w, s, T)
  ELSE IF ~Present(w, T)
       THEN Refuse([s EXCEPT !.opened = @ \cup {FileN(T, "risor"), FileN(T, "rsr")}], T, "notfound")
  ELSE IF ~ParseOK(BodyOf(w, T))
       THEN Refuse([s EXCEPT !.opened = @ \cup {FileN(T, "risor")}], T, "parse")
  ELSE Start(w, [s EXCEPT !.opened = @ \cup {FileN(T, "risor")}, !.codeCache = @ \cup {T}], T)

\* the frame's body is complete
Finish(s) ==
  LET f == Top(s) IN
  IF f.o = 1 THEN [s EXCEPT !.status = "ok", !.stack = <<>>]
  ELSE [s EXCEPT !.stack = SubSeq(@, 1, Len(@) - 1),
                 !.modules = Ext(@, s.insts[f.o].name, f.o)]

\* the frame's body raises e: main ends the evaluation, a module is dropped (not cached)
Fail(s, e) ==
  LET f == Top(s) IN
  IF f.o = 1 THEN [s EXCEPT !.status = "err", !.err = e, !.stack = <<>>]
  ELSE LET T == s.insts[f.o].name
           s1 == [s EXCEPT !.stack = SubSeq(@, 1, Len(@) - 1),
                           !.fails = Ext(@, T, Count(@, T) + 1),
                           !.lasterr = e]
           c == Top(s1)
       IN SetTop(s1, [c EXCEPT !.bad = @ \cup {T}])

Unknown(s) == [s EXCEPT !.status = "unknown", !.stack = <<>>]

EnvOf(s, i) == s.insts[i].env
SetVar(s, i, v, val) == [s EXCEPT !.insts = [@ EXCEPT ![i] = [@ EXCEPT !.env = Ext(@, v, val)]]]
Advance(s) == LET f == Top(s) IN
  SetTop(s, [f EXCEPT !.pc = @ + 1, !.it = 0, !.vals = <<>>, !.skip = {}, !.bad = {}, !.ni = Len(s.insts)])
Used(s, T) == [s EXCEPT !.uses = Ext(@, T, Count(@, T) + 1)]

\* the module the current statement wants to load next (<<>> if none)
Want(w, s) ==
  LET f == Top(s)
      B == BodyOf(w, s.insts[f.o].name)
  IN IF f.pc > Len(B) THEN <<>>
     ELSE LET st == B[f.pc] IN
       IF st.k \in {"imp", "fimp", "sfimp"}
       THEN IF st.tgt \in DOMAIN s.modules \/ st.tgt \in f.skip \cup f.bad THEN <<>> ELSE st.tgt
       ELSE IF st.k = "from"
       THEN LET it == IF f.it = 0 THEN Len(st.items) ELSE f.it
                sub == Append(st.tgt, st.items[it].n)
            IN IF sub \in DOMAIN s.modules THEN <<>>
               ELSE IF sub \in f.bad THEN <<>>
               ELSE IF sub \notin f.skip THEN sub
               ELSE IF st.tgt \in DOMAIN s.modules \/ st.tgt \in f.skip \cup f.bad THEN <<>>
               ELSE st.tgt
       ELSE <<>>

\* ImportStmt(spelling, alias): `import T [as alias]`, T cached or refused
ExecImp(s, st) ==
  LET f == Top(s)
      var == IF st.alias # "" THEN st.alias ELSE st.tgt[Len(st.tgt)]
  IN IF st.tgt \in DOMAIN s.modules
     THEN Advance(Used(SetVar(s, f.o, var, ModV(s.modules[st.tgt])), st.tgt))
     ELSE Fail(s, s.lasterr)

\* `func() { import T [as v]; v.bump(); emit(v.x) }()`: the name is local to the function
ExecFimp(s, st) ==
  IF st.tgt \in DOMAIN s.modules
  THEN LET j == s.modules[st.tgt]
           fv == IF "bump" \in DOMAIN s.insts[j].env THEN s.insts[j].env["bump"] ELSE [t |-> "none", n |-> 0, f |-> ""]
       IN IF fv.t = "fn" /\ "x" \in DOMAIN s.insts[fv.n].env /\ s.insts[fv.n].env["x"].t = "int"
          THEN LET nv == s.insts[fv.n].env["x"].n + 1
                   s1 == [s EXCEPT !.insts = [@ EXCEPT ![fv.n] = [@ EXCEPT !.env = Ext(@, "x", IntV(nv))]],
                                   !.log = Append(@, Entry("bump", s.insts[fv.n].name, nv)),
                                   !.uses = Ext(@, st.tgt, Count(@, st.tgt) + 1)]
                   xv == s1.insts[j].env["x"]
               IN IF xv.t = "int" THEN Advance([s1 EXCEPT !.log = Append(@, Entry("obs", <<>>, xv.n))])
                  ELSE [s EXCEPT !.status = "unknown", !.stack = <<>>]
          ELSE [s EXCEPT !.status = "unknown", !.stack = <<>>]
  ELSE Fail(s, s.lasterr)

RECURSIVE BindAll(_, _, _, _, _)
BindAll(s, i, items, vals, k) ==
  IF k > Len(items) THEN s
  ELSE LET var == IF items[k].a # "" THEN items[k].a ELSE items[k].n
       IN BindAll(SetVar(s, i, var, vals[k]), i, items, vals, k + 1)

\* FromImport(path, items): items are resolved from the LAST to the first; each one is
\* the module path/name if that loads, else the attribute `name` of module path
ExecFrom(s, st) ==
  LET f == Top(s)
      n == Len(st.items)
      it == IF f.it = 0 THEN n ELSE f.it
      sub == Append(st.tgt, st.items[it].n)
      Resolved(s1, v) ==
        LET vals2 == <<v>> \o f.vals IN
        IF it = 1 THEN Advance(BindAll(s1, f.o, st.items, vals2, 1))
        ELSE SetTop(s1, [f EXCEPT !.it = it - 1, !.vals = vals2, !.skip = {}, !.bad = {}])
  IN IF sub \in DOMAIN s.modules THEN Resolved(Used(s, sub), ModV(s.modules[sub]))
     ELSE IF sub \in f.bad THEN Fail(s, s.lasterr)      \* the name IS a module, and importing it failed
     ELSE IF st.tgt \in DOMAIN s.modules
     THEN LET env == EnvOf(s, s.modules[st.tgt]) IN
          IF st.items[it].n \in DOMAIN env
          THEN LET v == env[st.items[it].n] IN
               Resolved(IF v.t = "mod" THEN Used(s, s.insts[v.n].name) ELSE s, v)
          ELSE Fail(s, "noname")
     ELSE Fail(s, s.lasterr)

Lookup(s, i, v) == IF v \in DOMAIN EnvOf(s, i) THEN EnvOf(s, i)[v] ELSE [t |-> "none", n |-> 0, f |-> ""]

\* bump() of instance j: x += 1 in ITS cell, logs the new value
Bump(s, j) ==
  LET nv == EnvOf(s, j)["x"].n + 1 IN
  [SetVar(s, j, "x", IntV(nv)) EXCEPT !.log = Append(@, Entry("bump", s.insts[j].name, nv))]
Obs(s, n) == [s EXCEPT !.log = Append(@, Entry("obs", <<>>, n))]
\* apply a function value: getx returns x of ITS module, bump increments it first
IsIntX(s, j) == "x" \in DOMAIN EnvOf(s, j) /\ EnvOf(s, j)["x"].t = "int"
Apply(s, fv) == IF fv.f = "bump" THEN Bump(s, fv.n) ELSE s
Result(s1, fv) == EnvOf(s1, fv.n)["x"].n
Attr(s, val, a) == IF val.t = "mod" THEN Lookup(s, val.n, a) ELSE [t |-> "none", n |-> 0, f |-> ""]

ExecOp(s, st) ==
  LET f == Top(s)
      val == Lookup(s, f.o, st.var)
  IN CASE st.k = "mbump" ->                      \* v.bump()
            LET fv == Attr(s, val, "bump") IN
            IF fv.t = "fn" /\ IsIntX(s, fv.n) THEN Advance(Apply(s, fv)) ELSE Unknown(s)
       [] st.k = "mx" ->                         \* emit(v.x)
            LET xv == Attr(s, val, "x") IN
            IF xv.t = "int" THEN Advance(Obs(s, xv.n)) ELSE Unknown(s)
       [] st.k = "mget" ->                       \* emit(v.getx())
            LET fv == Attr(s, val, "getx") IN
            IF fv.t = "fn" /\ IsIntX(s, fv.n)
            THEN LET s1 == Apply(s, fv) IN Advance(Obs(s1, Result(s1, fv))) ELSE Unknown(s)
       [] st.k = "call" ->                       \* emit(v())
            IF val.t = "fn" /\ IsIntX(s, val.n)
            THEN LET s1 == Apply(s, val) IN Advance(Obs(s1, Result(s1, val))) ELSE Unknown(s)
       [] st.k = "val" ->                        \* emit(v)
            IF val.t = "int" THEN Advance(Obs(s, val.n)) ELSE Unknown(s)
       [] st.k = "own" ->                        \* x += 100; emit(x)   (the frame's own cell)
            LET x == Lookup(s, f.o, "x") IN
            IF x.t = "int" THEN Advance(Obs(SetVar(s, f.o, "x", IntV(x.n + 100)), x.n + 100)) ELSE Unknown(s)
       [] OTHER -> Unknown(s)

\* the same in a spawned thread that is waited for.  With s.shares the thread shares the module table; without
\* (the pinned implementation) every module instance created since the statement began - by the thread - stays
\* alive but leaves the parent's table, so a later import of the same module runs its body again
ExecSfimp(s, st) ==
  LET f == Top(s)
      s1 == ExecFimp(s, st)
  IN IF s.shares \/ s1.status # "run" THEN s1
     ELSE [s1 EXCEPT !.modules = [T \in {T \in DOMAIN s1.modules : s1.modules[T] <= f.ni} |-> s1.modules[T]]]

\* one transition of the evaluation of world w
Exec(w, s) ==
  LET f == Top(s)
      B == BodyOf(w, s.insts[f.o].name)
      T == Want(w, s)
  IN IF T # <<>> THEN Attempt(w, s, T)
     ELSE IF f.pc > Len(B) THEN Finish(s)
     ELSE LET st == B[f.pc] IN
          IF st.k = "imp" THEN ExecImp(s, st)
          \* "sfimp": the same function literal run in a spawned thread and waited for - the thread's VM is a clone
          \* that shares the module table and every module instance of its parent
          ELSE IF st.k = "fimp" THEN ExecFimp(s, st)
          ELSE IF st.k = "sfimp" THEN ExecSfimp(s, st)
          ELSE IF st.k = "from" THEN ExecFrom(s, st)
          ELSE ExecOp(s, st)

RECURSIVE RunFrom(_, _)
RunFrom(w, s) == IF s.status # "run" THEN s ELSE RunFrom(w, Exec(w, s))
Run(w) == RunFrom(w, InitState(w))

\* a second evaluation with the same importer: fresh VM state, the code cache is kept
Again(w, s) == [InitState(w) EXCEPT !.codeCache = s.codeCache]

\* ===================================================================== properties
Names(s) == {s.insts[i].name : i \in 2..Len(s.insts)}
InstsOf(s, T) == {i \in 2..Len(s.insts): s.insts[i].name = T}

\* a module's top-level code runs at most once per evaluation (a run that failed was
\* never imported; it may be retried), and never re-entrantly
RunOnce(s) == \A T \in Names(s):
   /\ Cardinality(InstsOf(s, T)) = Count(s.ran, T)
   /\ Count(s.ran, T) <= 1 + Count(s.fails, T)
   /\ T \in DOMAIN s.modules => Count(s.ran, T) = Count(s.fails, T) + 1
NoReentry(s) == \A j, k \in 1..Len(s.stack): j # k => s.stack[j].o # s.stack[k].o
                                                   /\ s.insts[s.stack[j].o].name # s.insts[s.stack[k].o].name
\* every module value anywhere (any alias, any importer) denotes THE cached instance
SameState(s) == \A i \in 1..Len(s.insts): \A v \in DOMAIN s.insts[i].env:
   LET val == s.insts[i].env[v] IN
   val.t = "mod" => LET T == s.insts[val.n].name IN T \in DOMAIN s.modules /\ s.modules[T] = val.n
\* every file the importer touches lies under the root
OpensConfined(s) == \A f \in s.opened: f.up = 0 /\ f.path # <<>>
\* a step writes at most one cell named x (own cells: x of main, of m, of m' are distinct)
OneCell(s, t) == Cardinality({i \in 1..Len(s.insts): t.insts[i].env["x"] # s.insts[i].env["x"]}) <= 1
=============================================================================
