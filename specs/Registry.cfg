SPECIFICATION Spec
CONSTANTS Procs = {1, 2, 3}
 Faithful = FALSE
INVARIANT NoRace
INVARIANT LockDiscipline
PROPERTY AllFinish
CHECK_DEADLOCK FALSE
