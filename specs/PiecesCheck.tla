---------------------------- MODULE PiecesCheck ----------------------------
(* C18: incremental (REPL-style) evaluation equals whole-program evaluation.           *)
(* A case is {id, pieces, obs, globals, gobs}: pieces[i] is either                      *)
(*   [kind |-> "code", ast, hoist]   top-level statements fed as one input, or          *)
(*   [kind |-> "rejected"]           an input the parser or compiler must refuse,       *)
(*   [kind |-> "interrupted", mark]  an input stopped through its context;              *)
(*   [kind |-> "exhausted", mark]    an input that exhausts the VM's operand stack;     *)
(* obs[i] is what the real compiler+VM (one compiler, one VM, REPL protocol) did with   *)
(* it.  Specified meaning (Lang!ExecSeq threaded through the pieces): globals persist,  *)
(* each piece yields the value of its last statement and its own output, a rejected     *)
(* piece changes nothing, a failing piece keeps the effects it had before failing.      *)
EXTENDS Lang, Json, IOUtils
Cases == ndJsonDeserialize(IOEnv.VERIF_CASES)

RECURSIVE RunFrom(_,_,_,_,_)
\* returns the sequence of specified per-piece outcomes followed by the final [env, s]
RunFrom(pieces, i, env, s, acc) ==
  IF i > Len(pieces) THEN [res |-> acc, env |-> env, s |-> s, known |-> TRUE]
  ELSE LET p == pieces[i] IN
    IF p.kind = "rejected" THEN RunFrom(pieces, i + 1, env, s, Append(acc, [k |-> "rejected"]))
    \* an input stopped through its context (print(mark), then an endless loop): its output so far stays, the run
    \* ends with the context's error, and nothing else changes - the inputs after it run as if it had not been there
    ELSE IF p.kind = "interrupted"
    THEN RunFrom(pieces, i + 1, env, s, Append(acc, [k |-> "raise", v |-> "context deadline exceeded", msg |-> <<>>,
                                                      out |-> Digits(p.mark) \o <<10>>]))
    \* an input that exhausts the operand stack (print(mark), then a recursion local to the input or an oversized list
    \* literal): its output so far stays, the run ends with an error, nothing else changes
    ELSE IF p.kind = "exhausted"
    THEN RunFrom(pieces, i + 1, env, s, Append(acc, [k |-> "raise", v |-> "anyerror", msg |-> <<>>, out |-> Digits(p.mark) \o <<10>>]))
    ELSE LET h == Hoist(p.hoist, env, [s EXCEPT !.out = <<>>])
             r == ExecSeq(p.ast, h.env, h.s, VNil) IN
         IF r.k = "ok" THEN RunFrom(pieces, i + 1, r.env, r.s, Append(acc, Outcome(r)))
         \* a failing piece keeps the effects and the declarations it made before failing; names it would have declared
         \* later exist for the compiler but hold no value: the spec does not know them and a later use is Unknown
         ELSE IF r.k = "raise" THEN RunFrom(pieces, i + 1, r.env, r.s, Append(acc, Outcome(r)))
         ELSE [res |-> acc, env |-> env, s |-> s, known |-> FALSE]

Concat(pieces) == LET RECURSIVE C(_) C(i) == IF i > Len(pieces) THEN <<>>
                         ELSE (IF pieces[i].kind = "code" THEN pieces[i].ast ELSE <<>>) \o C(i + 1) IN C(1)
AllHoist(pieces) == LET RECURSIVE C(_) C(i) == IF i > Len(pieces) THEN <<>>
                         ELSE (IF pieces[i].kind = "code" THEN pieces[i].hoist ELSE <<>>) \o C(i + 1) IN C(1)
RECURSIVE OutCat(_,_)
OutCat(res, i) == IF i > Len(res) THEN <<>> ELSE (IF "out" \in DOMAIN res[i] THEN res[i].out ELSE <<>>) \o OutCat(res, i + 1)

PieceConforms(spec, obs) ==
  IF spec.k = "rejected" THEN obs.k = "rejected" /\ obs.out = <<>>
  ELSE Conforms(spec, obs)

VARIABLE i
Init == i = 1
Next == i <= Len(Cases) /\ i' = i + 1
Check == i <= Len(Cases) =>
  LET c == Cases[i]
      \* the host supplies one variable of its own, hostv = 10: the inputs may assign it like any global
      run == RunFrom(c.pieces, 1, Declare(<<<<>>>>, "hostv", 1), Alloc(S0, VInt(10)), <<>>)
      n == Len(run.res)
  IN /\ \A j \in 1..n: run.res[j].k = "unknown" \/ PieceConforms(run.res[j], c.obs[j])
                        \/ PrintT(<<"MISMATCH", c.id, j, ToJson(run.res[j])>>)
     /\ (~run.known \/ \E j \in 1..n: run.res[j].k = "unknown") => PrintT(<<"UNKNOWN", c.id>>)
     \* final globals (only when every piece is inside the model)
     /\ (run.known /\ \A j \in 1..n: run.res[j].k # "unknown") =>
          \A g \in 1..Len(c.globals):
             LET a == Lookup(run.env, c.globals[g].n) IN
             a = 0 \/ run.s.store[a].t = "unset" \/ ~c.globals[g].has
               \/ SameJ(Proj(run.s.store[a], run.s, 6), c.globals[g].v)
               \/ PrintT(<<"MISMATCH", c.id, 0, ToJson([global |-> c.globals[g].n, v |-> Proj(run.s.store[a], run.s, 6)])>>)
     \* spec-level lemma (leg M): when no piece is rejected or fails, the pieces mean what the whole program means
     /\ (run.known /\ \A j \in 1..n: run.res[j].k = "ok" /\ c.pieces[j].kind = "code") =>
          LET whole == RunProgram([ast |-> Concat(c.pieces), hoist |-> AllHoist(c.pieces)]) IN
          whole.k = "unknown" \/ c.forward \/ (whole.k = "ok" /\ whole.v = run.res[n].v /\ whole.out = OutCat(run.res, 1))
            \/ PrintT(<<"SPECDIFF", c.id, ToJson(whole)>>)
=============================================================================
