----------------------------- MODULE BoundaryMC -----------------------------
(* Legs M and G of C08.  Every (type, value class, route) of the algebra is one initial  *)
(* state: the laws of Boundary.tla are invariants (leg M: the representation itself is   *)
(* lossless up to Canon, or the pair is Rejected), and the always-true invariant Emit    *)
(* prints the case as a JSON line for the Go driver (leg G).  The algebra is split by    *)
(* leaf into NShards parts (TLC enumerates initial states sequentially).  The laws only  *)
(* depend on (type, class); they are evaluated on the field_read case of each pair.      *)
EXTENDS Boundary, Json
CONSTANTS Depth, MDepth, Shard, NShards
VARIABLE case
Init == case \in ShardCases(Depth, MDepth, Shard, NShards)
Next == UNCHANGED case
Law(P) == case.r = "field_read" => P
LawLiteral == case.r = "write_lit" => LiteralReadsBack(case.t, case.w)
LawRoundTrip == Law(RoundTripOrRejected(case.t, case.c))
LawFieldWrite == Law(FieldWriteReadsBack(case.t, case.c))
LawMethodArgs == Law(MethodReceivesArgs(case.t, case.c))
ASSUME LawNarrowing == NarrowingRefused
ASSUME Partition == Leaves = {LeafSeq[i] : i \in 1..Len(LeafSeq)}
Emit == PrintT(<<"CASE", ToJson(case)>>)
=============================================================================
