------------------------------ MODULE Grammar ------------------------------
(***************************************************************************)
(* Bounded program families enumerated by TLC (legs G of C01, C02, C05):   *)
(*   Pairs       every ordered pair of operators in both association       *)
(*               shapes (the precedence / associativity table below is     *)
(*               what the renderer uses to place minimal parentheses)      *)
(*   Skeletons   single-spine nests of control constructs with every legal *)
(*               placement of break / continue / return at the innermost   *)
(*               position, each basic block marked by a print              *)
(*   MapLits     map / set literals over duplicate keys with effectful     *)
(*               entries (evaluation order and duplicate handling)         *)
(*   Closures    nesting x captured binding x escape route x call order    *)
(* Every program is a JSON AST in the domain of Lang.tla.                  *)
(***************************************************************************)
EXTENDS Integers, Sequences, FiniteSets, TLC

\* ---------- AST constructors ----------
I(n) == [k |-> "int", v |-> n]
Bl(b) == [k |-> "bool", v |-> b]
Id(n) == [k |-> "id", n |-> n]
NilE == [k |-> "nil"]
Str1(c) == [k |-> "str", v |-> <<c>>]
Bin(op, a, b) == [k |-> "bin", op |-> op, a |-> a, b |-> b]
CallE(f, args) == [k |-> "call", f |-> f, args |-> args]
ListE(items) == [k |-> "list", items |-> items]
ES(e) == [k |-> "expr", e |-> e]
VarS(n, e) == [k |-> "var", n |-> n, e |-> e]
AssignS(n, op, e) == [k |-> "assign", n |-> n, op |-> op, e |-> e]
P(m) == ES(CallE(Id("print"), <<I(m)>>))
PV(m, e) == ES(CallE(Id("print"), <<I(m), e>>))
IfE(c, t) == [k |-> "if", c |-> c, t |-> t, e |-> <<>>, haselse |-> FALSE]
IfElseE(c, t, e) == [k |-> "if", c |-> c, t |-> t, e |-> e, haselse |-> TRUE]
FuncE(name, params, body) == [k |-> "func", name |-> name, params |-> params, body |-> body]
Param(n) == [n |-> n, hasdef |-> FALSE, def |-> NilE]
ParamD(n, d) == [n |-> n, hasdef |-> TRUE, def |-> d]
Ret(e) == [k |-> "return", has |-> TRUE, e |-> e]
Case(exprs, body) == [isdefault |-> FALSE, exprs |-> exprs, body |-> body]
Default(body) == [isdefault |-> TRUE, exprs |-> <<>>, body |-> body]
SwitchE(subj, cases) == [k |-> "switch", subj |-> subj, cases |-> cases]
Postfix(n, op) == [k |-> "postfix", n |-> n, op |-> op]
AttrE(a, n, cps) == [k |-> "attr", a |-> a, n |-> n, ncps |-> cps]

\* ---------- precedence / associativity table (parser/precedence.go) ----------
\* loosest -> tightest; equal power associates to the left
PLowest == 1  PPipe == 2  PCond == 3  PAssign == 4  PDeclare == 5  PTernary == 6  PEquals == 7
PLess == 8  PSum == 9  PProduct == 10  PPower == 11  PMod == 12  PPrefix == 13  PCall == 14  PIndex == 15
BinOps == {"==", "!=", "<", "<=", ">", ">=", "+", "-", "*", "/", "&", "<<", ">>", "**", "%"}
BinPrec(op) == CASE op \in {"==", "!="} -> PEquals [] op \in {"<", "<=", ">", ">="} -> PLess
                 [] op \in {"+", "-"} -> PSum [] op \in {"*", "/", "&", "<<", ">>"} -> PProduct
                 [] op = "**" -> PPower [] op = "%" -> PMod
\* binding power of the root of e
Prec(e) == CASE e.k = "bin" -> BinPrec(e.op) [] e.k \in {"and", "or"} -> PCond [] e.k = "tern" -> PTernary
             [] e.k \in {"in", "not", "neg"} -> PPrefix [] e.k = "pipe" -> PPipe [] e.k = "call" -> PCall
             [] e.k \in {"idx", "slice", "attr"} -> PIndex [] OTHER -> 16
\* an operand of binding power Prec(e) in a position that requires at least min needs parentheses iff Prec(e) < min:
\* left operand of a binary operator of power p: min = p; right operand: min = p + 1 (left associativity)
NeedsParens(e, min) == Prec(e) < min
\* operand of a prefix operator: parsed at power PREFIX, so it absorbs only tighter infix operators; a nested
\* prefix expression needs none, `in` / `not in` (power = PREFIX) does, and "--" would lex as the decrement token
PrefixOperandNeedsParens(outer, e) == Prec(e) < PPrefix \/ e.k = "in" \/ (outer = "neg" /\ e.k = "neg")

\* infix-like operators as records
InfixOps == {[kind |-> "bin", op |-> o] : o \in BinOps} \cup {[kind |-> "and"], [kind |-> "or"],
             [kind |-> "in", neg |-> FALSE], [kind |-> "in", neg |-> TRUE]}
Mk(o, x, y) == CASE o.kind = "bin" -> Bin(o.op, x, y)
                 [] o.kind = "and" -> [k |-> "and", a |-> x, b |-> y]
                 [] o.kind = "or" -> [k |-> "or", a |-> x, b |-> y]
                 [] o.kind = "in" -> [k |-> "in", a |-> x, b |-> y, neg |-> o.neg]
\* the third operand is a list variable when the outer / right operator is `in`
Third(o) == IF o.kind = "in" THEN Id("l") ELSE Id("c")
Prelude == <<VarS("a", I(7)), VarS("b", I(3)), VarS("c", I(2)), VarS("l", ListE(<<I(1), I(2), I(10)>>)),
             VarS("f", FuncE("", <<Param("x")>>, <<ES(Bin("+", Id("x"), I(1)))>>)),
             VarS("t", Bl(TRUE))>>
Prog(e) == Prelude \o <<ES(e)>>

\* all operator pairs in both association shapes (the dummy parameter u keeps TLC from evaluating
\* every family eagerly as a constant definition at start-up)
PairExprs(u) ==
  {Mk(o2, Mk(o1, Id("a"), IF o1.kind = "in" THEN Id("l") ELSE Id("b")), Third(o2)) : o1 \in InfixOps, o2 \in InfixOps}
  \cup {Mk(o1, Id("a"), Mk(o2, Id("b"), Third(o2))) : o1 \in InfixOps, o2 \in InfixOps}
\* prefix x infix, infix x postfix forms, ternary on either side
PrefixOps == {"neg", "not"}
Pre(p, x) == [k |-> p, a |-> x]
Post(kind, x) == CASE kind = "call" -> CallE(x, <<Id("b")>>)
                   [] kind = "idx" -> [k |-> "idx", a |-> x, b |-> I(0)]
                   [] kind = "slice" -> [k |-> "slice", a |-> x, haslo |-> TRUE, lo |-> I(1), hashi |-> FALSE, hi |-> NilE]
PostKinds == {"call", "idx", "slice"}
PostBase(kind) == IF kind = "call" THEN Id("f") ELSE Id("l")
MixedExprs(u) ==
  {Pre(p, Mk(o, Id("a"), Third(o))) : p \in PrefixOps, o \in InfixOps}
  \cup {Mk(o, Pre(p, Id("a")), Third(o)) : p \in PrefixOps, o \in InfixOps}
  \cup {Mk(o, Id("a"), Pre(p, Third(o))) : p \in PrefixOps, o \in InfixOps \ {[kind |-> "in", neg |-> FALSE], [kind |-> "in", neg |-> TRUE]}}
  \cup {Pre(p, Pre(q, Id("a"))) : p \in PrefixOps, q \in PrefixOps}
  \cup {Mk(o, Id("a"), Post(pk, PostBase(pk))) : o \in InfixOps \ {[kind |-> "in", neg |-> FALSE], [kind |-> "in", neg |-> TRUE]}, pk \in PostKinds}
  \cup {Mk(o, Post(pk, PostBase(pk)), Third(o)) : o \in InfixOps, pk \in PostKinds}
  \cup {Pre(p, Post(pk, PostBase(pk))) : p \in PrefixOps, pk \in PostKinds}
  \cup {Post(pk, Post("idx", ListE(<<PostBase(pk)>>))) : pk \in PostKinds}
Tern(c, x, y) == [k |-> "tern", c |-> c, a |-> x, b |-> y]
TernExprs(u) ==
  {Tern(Mk(o, Id("a"), Third(o)), Id("b"), Id("c")) : o \in InfixOps}
  \cup {Mk(o, Tern(Id("t"), Id("a"), Id("b")), Third(o)) : o \in InfixOps}
  \cup {Tern(Id("t"), Mk(o, Id("a"), Third(o)), Id("b")) : o \in InfixOps}
  \cup {Tern(Id("t"), Id("a"), Mk(o, Id("b"), Third(o))) : o \in InfixOps}
  \cup {Mk(o, Id("a"), Tern(Id("t"), Id("b"), Third(o))) : o \in InfixOps \ {[kind |-> "in", neg |-> FALSE], [kind |-> "in", neg |-> TRUE]}}
  \cup {Tern(Pre(p, Id("t")), Pre(q, Id("a")), Pre(p, Id("b"))) : p \in PrefixOps, q \in PrefixOps}
  \cup {Tern(Id("t"), Post(pk, PostBase(pk)), Post(pk, PostBase(pk))) : pk \in PostKinds}
Pairs(u) == {Prog(e) : e \in PairExprs(u) \cup MixedExprs(u) \cup TernExprs(u)}
\* triples: three infix operators in all five association shapes
TripleExprs(u) ==
  LET A == Id("a") B == Id("b") C == Id("c") D == Id("a") IN
  UNION {{Mk(o3, Mk(o2, Mk(o1, A, B), C), D), Mk(o3, Mk(o1, A, Mk(o2, B, C)), D), Mk(o2, Mk(o1, A, B), Mk(o3, C, D)),
          Mk(o1, A, Mk(o3, Mk(o2, B, C), D)), Mk(o1, A, Mk(o2, B, Mk(o3, C, D)))}
         : o1 \in {[kind |-> "bin", op |-> o] : o \in BinOps} \cup {[kind |-> "and"], [kind |-> "or"]},
           o2 \in {[kind |-> "bin", op |-> o] : o \in BinOps} \cup {[kind |-> "and"], [kind |-> "or"]},
           o3 \in {[kind |-> "bin", op |-> o] : o \in BinOps} \cup {[kind |-> "and"], [kind |-> "or"]}}
Triples(u) == {Prog(e) : e \in TripleExprs(u)}

\* ---------- control skeletons ----------
Leaf(inLoop, inFn) == {[k |-> "nop"]} \cup (IF inLoop THEN {[k |-> "break"], [k |-> "continue"]} ELSE {})
                      \cup (IF inFn THEN {[k |-> "return"]} ELSE {})
LoopForms == {"for3", "forrange1", "forrange2", "forin", "forcond", "simplefor"}
FnForms == {"fncall", "closurecall", "try", "deferfn", "mapcb"}
RECURSIVE Sk(_,_,_)
Sk(d, inLoop, inFn) ==
  IF d = 0 THEN Leaf(inLoop, inFn)
  ELSE Leaf(inLoop, inFn)
    \cup {[k |-> "if", b |-> s] : s \in Sk(d-1, inLoop, inFn)}
    \cup {[k |-> "ifelse", which |-> w, b |-> s] : w \in {1, 2}, s \in Sk(d-1, inLoop, inFn)}
    \cup {[k |-> "switch", which |-> w, b |-> s] : w \in {1, 2, 3}, s \in Sk(d-1, inLoop, inFn)}
    \cup {[k |-> f, b |-> s] : f \in LoopForms, s \in Sk(d-1, TRUE, inFn)}
    \cup {[k |-> f, b |-> s] : f \in FnForms, s \in Sk(d-1, FALSE, TRUE)}

\* statement list for a skeleton; m = marker base, lv = name of the innermost loop variable ("" if none):
\* branch conditions depend on it so that both outcomes occur across iterations
Name(prefix, m) == prefix \o ToString(m)
CondOn(lv) == IF lv = "" THEN Bl(TRUE) ELSE Bin("==", Id(lv), I(1))
NotCondOn(lv) == IF lv = "" THEN Bl(FALSE) ELSE Bin("!=", Id(lv), I(1))
RECURSIVE X(_,_,_)
X(sk, m, lv) ==
  CASE sk.k = "nop" -> <<P(m)>>
    [] sk.k = "break" -> <<P(m), [k |-> "break"]>>
    [] sk.k = "continue" -> <<P(m), [k |-> "continue"]>>
    [] sk.k = "return" -> <<P(m), Ret(I(m))>>
    [] sk.k = "if" -> <<ES(IfE(CondOn(lv), X(sk.b, 10*m + 1, lv))), P(10*m + 2)>>
    [] sk.k = "ifelse" ->
         IF sk.which = 1 THEN <<ES(IfElseE(CondOn(lv), X(sk.b, 10*m + 1, lv), <<P(10*m + 2)>>)), P(10*m + 3)>>
         ELSE <<ES(IfElseE(NotCondOn(lv), <<P(10*m + 2)>>, X(sk.b, 10*m + 1, lv))), P(10*m + 3)>>
    [] sk.k = "switch" ->
         LET subj == IF lv = "" THEN I(1) ELSE Id(lv) body == X(sk.b, 10*m + 1, lv) IN
         IF sk.which = 1 THEN <<ES(SwitchE(subj, <<Case(<<I(1)>>, body), Default(<<P(10*m + 2)>>)>>)), P(10*m + 3)>>
         ELSE IF sk.which = 2 THEN <<ES(SwitchE(subj, <<Default(body), Case(<<I(7)>>, <<P(10*m + 2)>>)>>)), P(10*m + 3)>>
         ELSE <<ES(SwitchE(subj, <<Case(<<I(0)>>, <<P(10*m + 2)>>), Case(<<I(8), I(1)>>, body), Case(<<I(9)>>, <<>>)>>)), P(10*m + 3)>>
    [] sk.k = "for3" -> LET v == Name("i", m) IN
         <<[k |-> "for", init |-> <<VarS(v, I(0))>>, hascond |-> TRUE, cond |-> Bin("<", Id(v), I(3)),
            post |-> <<Postfix(v, "++")>>, body |-> X(sk.b, 10*m + 1, v) \o <<P(10*m + 4)>>], P(10*m + 5)>>
    [] sk.k = "forrange1" -> LET v == Name("i", m) IN
         <<[k |-> "range", style |-> "range", vars |-> <<v>>, c |-> I(3), body |-> X(sk.b, 10*m + 1, v) \o <<P(10*m + 4)>>], P(10*m + 5)>>
    [] sk.k = "forrange2" -> LET v == Name("i", m) w == Name("w", m) IN
         <<VarS(Name("c", m), ListE(<<I(5), I(6), I(7)>>)),
           [k |-> "range", style |-> "range", vars |-> <<v, w>>, c |-> Id(Name("c", m)),
            body |-> X(sk.b, 10*m + 1, v) \o <<PV(10*m + 4, Id(w))>>], P(10*m + 5)>>
    [] sk.k = "forin" -> LET v == Name("i", m) IN
         <<VarS(Name("c", m), ListE(<<I(0), I(1), I(2)>>)),
           [k |-> "range", style |-> "in", vars |-> <<v>>, c |-> Id(Name("c", m)),
            body |-> X(sk.b, 10*m + 1, v) \o <<P(10*m + 4)>>], P(10*m + 5)>>
    [] sk.k = "forcond" -> LET v == Name("n", m) IN
         <<VarS(v, I(-1)),
           [k |-> "for", init |-> <<>>, hascond |-> TRUE, cond |-> Bin("<", Id(v), I(2)), post |-> <<>>,
            body |-> <<Postfix(v, "++")>> \o X(sk.b, 10*m + 1, v) \o <<P(10*m + 4)>>], P(10*m + 5)>>
    [] sk.k = "simplefor" -> LET v == Name("n", m) IN
         <<VarS(v, I(-1)),
           [k |-> "for", init |-> <<>>, hascond |-> FALSE, cond |-> NilE, post |-> <<>>,
            body |-> <<Postfix(v, "++"), ES(IfE(Bin(">", Id(v), I(2)), <<[k |-> "break"]>>))>> \o X(sk.b, 10*m + 1, v) \o <<P(10*m + 4)>>],
           P(10*m + 5)>>
    [] sk.k = "fncall" -> LET f == Name("f", m) IN
         <<[k |-> "funcdecl", f |-> FuncE(f, <<>>, X(sk.b, 10*m + 1, "") \o <<ES(I(10*m + 6))>>), hoisted |-> FALSE],
           PV(10*m + 5, CallE(Id(f), <<>>))>>
    [] sk.k = "closurecall" -> LET g == Name("g", m) IN
         <<VarS(g, FuncE("", <<ParamD(Name("p", m), I(1))>>, X(sk.b, 10*m + 1, Name("p", m)) \o <<ES(I(10*m + 6))>>)),
           PV(10*m + 5, CallE(Id(g), <<>>))>>
    [] sk.k = "try" ->
         <<PV(10*m + 5, CallE(Id("try"), <<FuncE("", <<>>, X(sk.b, 10*m + 1, "") \o <<ES(CallE(Id("error"), <<Str1(101)>>))>>), I(10*m + 7)>>))>>
    [] sk.k = "deferfn" ->
         <<PV(10*m + 5, CallE(FuncE("", <<>>, <<[k |-> "defer", e |-> CallE(Id("print"), <<I(10*m + 8)>>)]>> \o X(sk.b, 10*m + 1, "") \o <<ES(I(10*m + 6))>>), <<>>))>>
    [] sk.k = "mapcb" -> LET x == Name("x", m) IN
         <<PV(10*m + 5, CallE(AttrE(ListE(<<I(0), I(1), I(2)>>), "map", <<109, 97, 112>>),
                              <<FuncE("", <<Param(x)>>, X(sk.b, 10*m + 1, x) \o <<ES(Bin("*", Id(x), I(2)))>>)>>))>>
Skeletons(d) == {X(s, 1, "") \o <<P(0)>> : s \in Sk(d, FALSE, FALSE)}

\* ---------- map / set literals (C05) ----------
Eff(m, e) == CallE(FuncE("", <<>>, <<P(m), ES(e)>>), <<>>)
KeyS == {97, 98}
Entry == [key : KeyS, eff : BOOLEAN, val : {1, 2}]
EntrySeqs(n) == UNION {[1..k -> Entry] : k \in 0..n}
MapOfEntries(es) == [k |-> "map", keys |-> [i \in 1..Len(es) |-> Str1(es[i].key)],
                     vals |-> [i \in 1..Len(es) |-> IF es[i].eff THEN Eff(i, I(10*i + es[i].val)) ELSE I(10*i + es[i].val)]]
SetOfEntries(es) == [k |-> "set", items |-> [i \in 1..Len(es) |-> IF es[i].eff THEN Eff(i, I(es[i].val)) ELSE I(es[i].val)]]
MapLits(n) == {<<VarS("m", MapOfEntries(es)), P(0), ES(Id("m"))>> : es \in EntrySeqs(n)}
              \cup {<<VarS("m", MapOfEntries(es)),
                      [k |-> "range", style |-> "range", vars |-> <<"k", "v">>, c |-> Id("m"),
                       body |-> <<ES(CallE(Id("print"), <<Id("k"), Id("v")>>))>>],
                      ES(CallE(Id("keys"), <<Id("m")>>))>> : es \in EntrySeqs(n)}
              \cup {<<VarS("s", SetOfEntries(es)), ES(CallE(Id("print"), <<Id("s")>>)), ES(CallE(Id("len"), <<Id("s")>>))>>
                    : es \in EntrySeqs(n) \ {<<>>}}
              \* every way of listing a set's members must follow the sorted order: keys, sorted, list, iteration
              \cup {<<VarS("s", [k |-> "set", items |-> its]),
                      ES(CallE(Id("print"), <<CallE(Id("keys"), <<Id("s")>>), CallE(Id("sorted"), <<Id("s")>>), CallE(Id("list"), <<Id("s")>>)>>)),
                      [k |-> "range", style |-> "range", vars |-> <<"k">>, c |-> Id("s"), body |-> <<ES(CallE(Id("print"), <<Id("k")>>))>>],
                      ES(CallE(Id("keys"), <<Id("s")>>))>>
                    : its \in {<<I(3), I(1), I(2)>>, <<I(10), I(9), I(8), I(7)>>, <<Str1(98), Str1(97), Str1(99)>>,
                               <<I(2), Str1(97), I(1), Str1(98)>>, <<I(5), I(4), I(3), I(2), I(1), I(0)>>}}
              \* and every way of listing a map's entries: keys, values, items-like iteration
              \cup {<<VarS("m", [k |-> "map", keys |-> <<Str1(99), Str1(97), Str1(100), Str1(98)>>, vals |-> <<I(3), I(1), I(4), I(2)>>]),
                      ES(CallE(Id("print"), <<CallE(Id("keys"), <<Id("m")>>), CallE(AttrE(Id("m"), "keys", <<107, 101, 121, 115>>), <<>>),
                                             CallE(AttrE(Id("m"), "values", <<118, 97, 108, 117, 101, 115>>), <<>>), CallE(Id("sorted"), <<Id("m")>>)>>)),
                      [k |-> "range", style |-> "in", vars |-> <<"v">>, c |-> Id("m"), body |-> <<ES(CallE(Id("print"), <<Id("v")>>))>>],
                      ES(Id("m"))>>}

\* ---------- closures (C02) ----------
\* a chain of d nested function literals; level i declares variable v_i (initial value i); the innermost
\* function reads variable `rd` and writes variable `wr` (adds 10); escape route and call order vary.
Lv(i) == "v" \o ToString(i)
Pn(i) == "p" \o ToString(i)
Routes == {"returned", "list", "map", "mapcb", "try", "sorted", "fromgo"}
\* pad extra locals per function: with more than 8 local slots the VM keeps a frame's locals in separately
\* allocated storage that captured cells point into
Pad(i, pad) == [j \in 1..pad |-> VarS("q" \o ToString(i) \o "x" \o ToString(j), I(j))]
RECURSIVE Nest(_,_,_,_,_,_)
\* body of level i (1-based) of a chain of depth d; with `shadow` the innermost function, after using the captured
\* variable v_rd, declares a local of the same name and uses THAT from a nested block (the outer one keeps its value)
Nest(i, d, rd, wr, pad, shadow) ==
  IF i = d THEN Pad(i, pad) \o <<AssignS(Lv(wr), "+=", I(10))>> \o
                (IF shadow THEN <<PV(6, Id(Lv(rd))), VarS(Lv(rd), I(50)),
                                  ES(IfE(Bl(TRUE), <<AssignS(Lv(rd), "+=", I(7)), PV(7, Id(Lv(rd)))>>))>> ELSE <<>>) \o
                <<ES(Bin("+", Bin("*", Id(Lv(rd)), I(100)), Id(Lv(wr))))>>
  ELSE Pad(i, pad) \o <<VarS(Lv(i + 1), I(i + 1)), Ret(FuncE("", <<>>, Nest(i + 1, d, rd, wr, pad, shadow)))>>
\* chain(d): function taking no args, returning nested closures until depth d
Chain(d, rd, wr, pad, shadow) == FuncE("", <<>>, Nest(1, d, rd, wr, pad, shadow))
RECURSIVE Unwrap(_,_)
Unwrap(e, n) == IF n = 0 THEN e ELSE Unwrap(CallE(e, <<>>), n - 1)
ClosureProg(d, rd, wr, route, twice, pad, shadow) ==
  LET mk == <<VarS("v1", I(1)), VarS("mk", Chain(d, rd, wr, pad, shadow))>>
      inner(nm) == VarS(nm, Unwrap(Id("mk"), d - 1))       \* the innermost closure, all ancestors returned
      call(nm) == CallE(Id(nm), <<>>)
  IN CASE route = "returned" ->
            mk \o <<inner("g"), inner("h"), PV(1, call("g")), PV(2, call("h"))>> \o (IF twice THEN <<PV(3, call("g"))>> ELSE <<>>) \o <<ES(Id("v1"))>>
       [] route = "list" ->
            mk \o <<VarS("fs", ListE(<<Unwrap(Id("mk"), d - 1), Unwrap(Id("mk"), d - 1)>>)),
                    PV(1, CallE([k |-> "idx", a |-> Id("fs"), b |-> I(IF twice THEN 1 ELSE 0)], <<>>)),
                    PV(2, CallE([k |-> "idx", a |-> Id("fs"), b |-> I(0)], <<>>)), ES(Id("v1"))>>
       [] route = "map" ->
            mk \o <<VarS("fm", [k |-> "map", keys |-> <<Str1(97)>>, vals |-> <<Unwrap(Id("mk"), d - 1)>>]),
                    PV(1, CallE(AttrE(Id("fm"), "a", <<97>>), <<>>))>> \o
                  (IF twice THEN <<PV(2, CallE(AttrE(Id("fm"), "a", <<97>>), <<>>))>> ELSE <<>>) \o <<ES(Id("v1"))>>
       [] route = "mapcb" ->
            mk \o <<inner("g"),
                    PV(1, CallE(AttrE(ListE(IF twice THEN <<I(0), I(1)>> ELSE <<I(0)>>), "map", <<109, 97, 112>>),
                                <<FuncE("", <<Param("x")>>, <<ES(Bin("+", call("g"), Id("x")))>>)>>)), ES(Id("v1"))>>
       [] route = "try" ->
            mk \o <<inner("g"), PV(1, CallE(Id("try"), <<Id("g")>>))>> \o (IF twice THEN <<PV(2, CallE(Id("try"), <<Id("g"), I(0)>>))>> ELSE <<>>) \o <<ES(Id("v1"))>>
       [] route = "fromgo" ->
            \* the closures are fetched from Go (vm.Get) and invoked through the VM's Call API; the marker
            \* variable tells the driver that the calls of the last statement are to be made from Go
            <<VarS("route_fromgo", I(1))>> \o mk \o <<inner("g"), inner("h"),
              ES(ListE(IF twice THEN <<call("g"), call("h"), call("g")>> ELSE <<call("h"), call("g")>>))>>
       [] route = "sorted" ->
            mk \o <<inner("g"),
                    PV(1, CallE(Id("sorted"), <<ListE(<<I(3), I(1)>>),
                                 FuncE("", <<Param("x"), Param("y")>>, <<ES(call("g")), ES(Bin("<", Id("x"), Id("y")))>>)>>)),
                    PV(2, call("g")), ES(Id("v1"))>>
\* ---------- closures over block-scoped variables, multi-assignment to captured variables (C02) ----------
\* mk declares one variable in each of two or three sibling blocks of its body and lets a closure over it escape;
\* the closures are called after mk has returned, in both orders: each must see its own variable
AppendCps == <<97, 112, 112, 101, 110, 100>>
BlockKinds == {"if", "range", "switch"}
InBlock(kind, body) == CASE kind = "if" -> ES(IfE(Bl(TRUE), body))
                         [] kind = "range" -> [k |-> "range", style |-> "range", vars |-> <<"i">>, c |-> I(1), body |-> body]
                         [] kind = "switch" -> ES(SwitchE(I(1), <<Case(<<I(1)>>, body)>>))
Clo(v, write) == FuncE("", <<>>, IF write THEN <<AssignS(v, "+=", I(10)), ES(Id(v))>> ELSE <<ES(Id(v))>>)
Escape(v, init, write) == <<VarS(v, I(init)), ES(CallE(AttrE(Id("fs"), "append", AppendCps), <<Clo(v, write)>>))>>
FsCall(k) == CallE([k |-> "idx", a |-> Id("fs"), b |-> I(k)], <<>>)
BlockClosureProg(k1, k2, k3, w1, w2, three, order) ==
  LET body == <<VarS("fs", ListE(<<>>)), InBlock(k1, Escape("x", 1, w1)), InBlock(k2, Escape("y", 2, w2))>>
              \o (IF three THEN <<InBlock(k3, Escape("z", 3, FALSE))>> ELSE <<>>) \o <<Ret(Id("fs"))>>
      n == IF three THEN 3 ELSE 2
      calls == IF order = 0 THEN [j \in 1..n |-> FsCall(j - 1)] ELSE [j \in 1..n |-> FsCall(n - j)]
  IN <<VarS("mk", FuncE("", <<>>, body)), VarS("fs", CallE(Id("mk"), <<>>)),
       PV(1, ListE(calls)), PV(2, ListE(calls)), ES(FsCall(0))>>
BlockClosures(u) == {BlockClosureProg(k1, k2, k3, w1, w2, three, order) :
                       k1 \in BlockKinds, k2 \in BlockKinds, k3 \in {"if", "range"}, w1 \in BOOLEAN, w2 \in BOOLEAN,
                       three \in BOOLEAN, order \in {0, 1}}
\* a closure assigns two of the three variables it captured with ONE multi-assignment; the third one, read first or
\* last, shifts the positions of the captured variables among the closure's cells
MultiAssignProg(p, q, first) ==
  LET names == <<"a", "b", "c">>
      third == CHOOSE n \in {"a", "b", "c"}: n # names[p] /\ n # names[q]
      assign == [k |-> "multivar", ns |-> <<names[p], names[q]>>, decl |-> FALSE,
                 e |-> ListE(<<Bin("+", Id(names[q]), I(10)), Bin("+", Id(names[p]), I(20))>>)]
      inner == (IF first THEN <<PV(5, Id(third))>> ELSE <<>>) \o <<assign>> \o
               (IF first THEN <<>> ELSE <<PV(5, Id(third))>>) \o <<Ret(ListE(<<Id("a"), Id("b"), Id("c")>>))>>
  IN <<VarS("mk", FuncE("", <<>>, <<VarS("a", I(1)), VarS("b", I(2)), VarS("c", I(3)), Ret(FuncE("", <<>>, inner))>>)),
       VarS("g", CallE(Id("mk"), <<>>)), PV(1, CallE(Id("g"), <<>>)), PV(2, CallE(Id("g"), <<>>)), ES(CallE(Id("g"), <<>>))>>
\* a pipe stage that is a call with further arguments which are calls themselves: the piped value becomes the first
\* argument of the stage; the calls inside the arguments are evaluated as anywhere else (Lang!PipeStages)
PipeE(stages) == [k |-> "pipe", stages |-> stages]
PipeNestedProg(inFn) ==
  LET sts == <<VarS("pair", FuncE("", <<Param("a"), Param("b")>>, <<Ret(ListE(<<Id("a"), Id("b")>>))>>)),
               VarS("one", FuncE("", <<>>, <<P(7), Ret(I(1))>>)),
               PV(1, PipeE(<<I(5), CallE(Id("pair"), <<CallE(Id("one"), <<>>)>>)>>)),
               PV(2, PipeE(<<I(6), CallE(Id("pair"), <<CallE(Id("len"), <<ListE(<<I(1), I(2)>>)>>)>>), CallE(Id("pair"), <<CallE(Id("one"), <<>>)>>)>>))>>
  IN IF inFn THEN <<VarS("run", FuncE("", <<>>, sts \o <<Ret(I(3))>>)), PV(3, CallE(Id("run"), <<>>)), ES(I(0))>> ELSE sts \o <<ES(I(0))>>
\* "var a, b = [..]" DECLARES its names (like "a, b := [..]"): inside a function it shadows, it never assigns outer ones
VarMultiProg(walrus) ==
  LET d == [k |-> "multivar", ns |-> <<"a", "b">>, decl |-> TRUE, var |-> ~walrus, e |-> ListE(<<I(10), I(20)>>)]
      top == [k |-> "multivar", ns |-> <<"c", "d">>, decl |-> TRUE, var |-> ~walrus, e |-> ListE(<<I(3), I(4)>>)]
  IN <<VarS("a", I(1)), VarS("b", I(2)), VarS("f", FuncE("", <<>>, <<d, Ret(ListE(<<Id("a"), Id("b")>>))>>)),
       PV(1, CallE(Id("f"), <<>>)), PV(2, ListE(<<Id("a"), Id("b")>>)), top, PV(3, ListE(<<Id("c"), Id("d")>>)), ES(I(0))>>
\* a closure made inside a CALLBACK that a builtin invokes once per item (list.map / filter / each) captures the
\* callback's parameter of THAT invocation: every closure keeps its own binding, also when it assigns to it
MethCps(n) == CASE n = "map" -> <<109, 97, 112>> [] n = "filter" -> <<102, 105, 108, 116, 101, 114>> [] n = "each" -> <<101, 97, 99, 104>>
CbClosureProg(meth, mutate, two) ==
  LET inner == FuncE("", <<>>, (IF mutate THEN <<AssignS("x", "+=", I(10))>> ELSE <<>>) \o
                               <<Ret(IF two THEN ListE(<<Id("i"), Id("x")>>) ELSE Id("x"))>>)
      cb == FuncE("", (IF two THEN <<Param("i")>> ELSE <<>>) \o <<Param("x")>>, <<ES(CallE(AttrE(Id("fs"), "append", AppendCps), <<inner>>)), Ret(Id("x"))>>)
      at(j) == CallE([k |-> "idx", a |-> Id("fs"), b |-> I(j)], <<>>)
  IN <<VarS("fs", ListE(<<>>)),
       ES(CallE(AttrE(ListE(<<I(1), I(2), I(3)>>), meth, MethCps(meth)), <<cb>>)),
       PV(1, ListE(<<at(0), at(1), at(2), at(0)>>)), ES(I(0))>>
CallbackClosures(u) == {CbClosureProg(m, mu, FALSE) : m \in {"map", "filter", "each"}, mu \in BOOLEAN}
                       \cup {CbClosureProg("map", mu, TRUE) : mu \in BOOLEAN}
MultiAssigns(u) == ({MultiAssignProg(p, q, first) : p \in 1..3, q \in 1..3, first \in BOOLEAN} \ {MultiAssignProg(p, p, f) : p \in 1..3, f \in BOOLEAN})
                   \cup {VarMultiProg(w) : w \in BOOLEAN} \cup {PipeNestedProg(b) : b \in BOOLEAN}

\* read-modify-write statements whose right-hand side CHANGES the target while it is evaluated: x op= E reads x
\* before E runs, x = x op E and x = E op x read x when the operand is reached (left to right), a[0] op= E reads
\* the element before E runs.  The target is a global, a local, a variable captured from the enclosing function,
\* or a parameter; the effect is a call of a closure bound to a name or of a function literal written in place.
SetIdxS(a, i, op, e) == [k |-> "setidx", a |-> a, i |-> i, op |-> op, e |-> e]
UpdateProg(place, form, op, eff) ==
  LET onList == form = "idx"
      target == IF onList THEN "a" ELSE "x"
      init == IF onList THEN ListE(<<I(7)>>) ELSE I(7)
      bumpBody == <<(IF onList THEN SetIdxS(Id("a"), I(0), "=", I(10)) ELSE AssignS("x", "=", I(10))), Ret(I(3))>>
      E == IF eff = "named" THEN CallE(Id("bump"), <<>>) ELSE CallE(FuncE("", <<>>, bumpBody), <<>>)
      bumpDecl == IF eff = "named" THEN <<VarS("bump", FuncE("", <<>>, bumpBody))>> ELSE <<>>
      upd == CASE form = "assign" -> AssignS("x", op, E)
               [] form = "binleft" -> AssignS("x", "=", Bin(op, Id("x"), E))
               [] form = "binright" -> AssignS("x", "=", Bin(op, E, Id("x")))
               [] form = "idx" -> SetIdxS(Id("a"), I(0), op, E)
      obs == Id(target)
      run(params, body, args) == <<VarS("run", FuncE("", params, body)), PV(1, CallE(Id("run"), args)), ES(I(0))>>
  IN CASE place = "global" -> <<VarS(target, init)>> \o bumpDecl \o <<upd, PV(1, obs), ES(I(0))>>
       [] place = "local" -> run(<<>>, <<VarS(target, init)>> \o bumpDecl \o <<upd, Ret(obs)>>, <<>>)
       [] place = "captured" -> run(<<>>, <<VarS(target, init)>> \o bumpDecl \o
                                       <<VarS("inner", FuncE("", <<>>, <<upd, Ret(obs)>>)), Ret(CallE(Id("inner"), <<>>))>>, <<>>)
       [] place = "param" -> run(<<Param(target)>>, bumpDecl \o <<upd, Ret(obs)>>, <<init>>)
Updates(u) == {UpdateProg(place, fo[1], fo[2], eff) :
                 place \in {"global", "local", "captured", "param"}, eff \in {"named", "inplace"},
                 fo \in ({"assign", "idx"} \X {"+=", "-=", "*=", "/="}) \cup ({"binleft", "binright"} \X {"+", "-", "*"})}

\* strings index, slice, measure, iterate and test membership by CODE POINT: strings with two-, three- and
\* four-byte characters x every index, every pair of slice bounds (absent = 99), len, range, in
StrE(cps) == [k |-> "str", v |-> cps]
UniStrings == {<<104, 233, 108>>, <<26085, 26412>>, <<128512, 120>>, <<233>>}
SliceE(a, lo, hi) == [k |-> "slice", a |-> a, haslo |-> lo # 99, hashi |-> hi # 99,
                      lo |-> IF lo = 99 THEN NilE ELSE I(lo), hi |-> IF hi = 99 THEN NilE ELSE I(hi)]
RangeS(vars, c, body) == [k |-> "range", style |-> "range", vars |-> vars, c |-> c, body |-> body]
StrProgs(u) ==
  UNION {
    {<<VarS("s", StrE(cps)), PV(1, [k |-> "idx", a |-> Id("s"), b |-> I(i)]), ES(I(0))>> : i \in -Len(cps)..Len(cps)} \cup
    {<<VarS("s", StrE(cps)), PV(1, SliceE(Id("s"), lo, hi)), ES(I(0))>> :
        lo \in (-1..Len(cps)) \cup {99}, hi \in (-1..(Len(cps) + 1)) \cup {99}} \cup
    {<<VarS("s", StrE(cps)), PV(1, CallE(Id("len"), <<Id("s")>>)),
       RangeS(<<"i", "c">>, Id("s"), <<PV(2, ListE(<<Id("i"), Id("c"), [k |-> "in", a |-> Id("c"), b |-> Id("s"), neg |-> FALSE]>>))>>),
       PV(3, [k |-> "in", a |-> Id("s"), b |-> Id("s"), neg |-> FALSE]), ES(I(0))>>}
    : cps \in UniStrings}

\* a list changed by the body of the loop that iterates it: the iteration reads the list anew at every step (items
\* appended are visited, items popped are not, a write to an element not yet reached is seen), while rebinding the
\* NAME does not change what is iterated
PopCps == <<112, 111, 112>>
ExtendCps == <<101, 120, 116, 101, 110, 100>>
ReverseCps == <<114, 101, 118, 101, 114, 115, 101>>
MethodS(obj, name, cps, args) == ES(CallE(AttrE(Id(obj), name, cps), args))
IterMutProg(style, mut, at) ==
  LET vars == CASE style = "range2" -> <<"i", "v">> [] style = "range1" -> <<"i">> [] OTHER -> <<"v">>
      obs == ListE([k \in 1..Len(vars) |-> Id(vars[k])])
      m == CASE mut = "append" -> MethodS("l", "append", AppendCps, <<I(9)>>)
             [] mut = "pop" -> MethodS("l", "pop", PopCps, <<>>)
             [] mut = "extend" -> MethodS("l", "extend", ExtendCps, <<ListE(<<I(8), I(9)>>)>>)
             [] mut = "reverse" -> MethodS("l", "reverse", ReverseCps, <<>>)
             [] mut = "setlast" -> SetIdxS(Id("l"), I(3), "=", I(7))
             [] mut = "rebind" -> AssignS("l", "=", ListE(<<I(0)>>))
      body == <<PV(1, obs), AssignS("n", "+=", I(1)), ES(IfE(Bin("==", Id("n"), I(at)), <<m>>))>>
  IN <<VarS("l", ListE(<<I(1), I(2), I(3), I(4)>>)), VarS("n", I(0)),
       [k |-> "range", style |-> (IF style = "in" THEN "in" ELSE "range"), vars |-> vars, c |-> Id("l"), body |-> body],
       PV(2, ListE(<<Id("l"), Id("n")>>)), ES(I(0))>>
\* the same for a MAP: the loop visits the keys that existed when it started, in sorted order; an entry added by the
\* body is not visited, a value written to a key not yet reached is seen, deleting a key not yet reached is an error
\* when the loop gets there (Lang!EntryAt)
MapE(ks, vs) == [k |-> "map", keys |-> ks, vals |-> vs]
StrK(c) == Str1(c)
MapMutProg(style, mut, at) ==
  LET vars == IF style = "range2" THEN <<"k", "v">> ELSE <<"k">>
      obs == ListE([j \in 1..Len(vars) |-> Id(vars[j])])
      m == CASE mut = "addlow" -> SetIdxS(Id("m"), StrK(97), "=", I(9))          \* "a": sorts before every key
             [] mut = "addhigh" -> SetIdxS(Id("m"), StrK(122), "=", I(9))        \* "z": sorts after every key
             [] mut = "write" -> SetIdxS(Id("m"), StrK(101), "=", I(7))          \* the last key "e"
             [] mut = "delseen" -> ES(CallE(Id("delete"), <<Id("m"), StrK(98)>>))    \* the first key "b"
             [] mut = "dellast" -> ES(CallE(Id("delete"), <<Id("m"), StrK(101)>>))
      body == <<PV(1, obs), AssignS("n", "+=", I(1)), ES(IfE(Bin("==", Id("n"), I(at)), <<m>>))>>
  IN <<VarS("m", MapE(<<StrK(98), StrK(99), StrK(100), StrK(101)>>, <<I(1), I(2), I(3), I(4)>>)), VarS("n", I(0)),
       [k |-> "range", style |-> "range", vars |-> vars, c |-> Id("m"), body |-> body],
       PV(2, ListE(<<Id("m"), Id("n")>>)), ES(I(0))>>
MapMuts(u) == {MapMutProg(style, mut, at) : style \in {"range2", "range1"},
                 mut \in {"addlow", "addhigh", "write", "delseen", "dellast"}, at \in {1, 2}}
\* a loop over an integer count: n > 0 runs 0 .. n-1, n < 0 runs 0, -1 .. n+1 (the KEY still counts up), 0 never runs
CountLoop(style, n) ==
  LET vars == CASE style = "range2" -> <<"i", "v">> [] style = "range1" -> <<"i">> [] OTHER -> <<"v">>
      obs == ListE([k \in 1..Len(vars) |-> Id(vars[k])])
  IN <<VarS("n", I(n)),
       [k |-> "range", style |-> (IF style = "in" THEN "in" ELSE "range"), vars |-> vars, c |-> Id("n"), body |-> <<PV(1, obs)>>],
       P(2), ES(I(0))>>
\* a container that is made a member of itself is a value like any other as long as it is not printed, compared or
\* hashed: the program's value is compared down to Lang!Proj's depth
SelfProgs(u) == {<<VarS("l", ListE(<<I(1)>>)), MethodS("l", "append", AppendCps, <<Id("l")>>), PV(1, CallE(Id("len"), <<Id("l")>>)), ES(Id("l"))>>,
                 <<VarS("l", ListE(<<I(1), I(2)>>)), SetIdxS(Id("l"), I(0), "=", Id("l")), PV(1, CallE(Id("len"), <<Id("l")>>)),
                   ES([k |-> "idx", a |-> Id("l"), b |-> I(0)])>>,
                 <<VarS("m", MapE(<<StrK(98)>>, <<I(1)>>)), SetIdxS(Id("m"), StrK(99), "=", Id("m")), PV(1, CallE(Id("len"), <<Id("m")>>)), ES(Id("m"))>>}
CountLoops(u) == {CountLoop(style, n) : style \in {"range2", "range1", "in"}, n \in {-3, -1, 0, 2}}
\* the callback of list.map / filter / each assigns to an element of the list being walked: an element not yet reached
\* is passed with its new value (Lang!MapCB reads each item when its step comes)
CbMutProg(meth, at) ==
  LET cb == FuncE("", <<Param("x")>>, <<SetIdxS(Id("l"), I(at), "+=", I(6)), Ret(Id("x"))>>)
  IN <<VarS("l", ListE(<<I(3), I(4), I(0)>>)),
       VarS("r", CallE(AttrE(Id("l"), meth, MethCps(meth)), <<cb>>)),
       PV(1, ListE(<<Id("r"), Id("l")>>)), ES(I(0))>>
CbMuts(u) == {CbMutProg(m, at) : m \in {"map", "filter", "each"}, at \in {0, 1, 2, -1}}
IterMuts(u) == MapMuts(u) \cup CountLoops(u) \cup SelfProgs(u) \cup CbMuts(u) \cup {IterMutProg(style, mut, at) : style \in {"range2", "range1", "in"},
                  mut \in {"append", "pop", "extend", "reverse", "setlast", "rebind"}, at \in {1, 2, 4}}

\* several deferred calls in one function: a function literal called in place, a named script function, a builtin, in
\* every order (two and three of them); the function returns or raises.  All of them run, last registered first.
DeferS(e) == [k |-> "defer", e |-> e]
DeferOf(kind, m) == CASE kind = "closure" -> DeferS(CallE(FuncE("", <<>>, <<P(m)>>), <<>>))
                      [] kind = "named" -> DeferS(CallE(Id("lg"), <<I(m)>>))
                      [] kind = "builtin" -> DeferS(CallE(Id("print"), <<I(m)>>))
DeferKinds == {"closure", "named", "builtin"}
DeferProg(kinds, raises) ==
  LET body == [j \in 1..Len(kinds) |-> DeferOf(kinds[j], 10 * j)] \o <<P(0)>> \o
              (IF raises THEN <<ES(CallE(Id("error"), <<Str1(98)>>))>> ELSE <<Ret(I(5))>>)
  IN <<VarS("lg", FuncE("", <<Param("k")>>, <<PV(1, Id("k"))>>)),
       VarS("f", FuncE("", <<>>, body)),
       PV(2, CallE(Id("try"), <<Id("f"), FuncE("", <<Param("e")>>, <<Ret(I(9))>>)>>)), ES(I(0))>>
\* try with several fallbacks: each fallback receives the error raised by the attempt just before it (not the first one)
Raises(c) == ES(CallE(Id("error"), <<Str1(c)>>))
TryChain(n, lastRaises) ==
  LET handler(j) == FuncE("", <<Param("e")>>, <<PV(j, CallE(Id("string"), <<Id("e")>>))>> \o
                          (IF j < n \/ lastRaises THEN <<Raises(97 + j)>> ELSE <<Ret(I(100 + j))>>))
      first == FuncE("", <<>>, <<P(0), Raises(97)>>)
      args == <<first>> \o [j \in 1..n |-> handler(j)]
  IN <<PV(9, CallE(Id("try"), <<FuncE("", <<>>, <<Ret(CallE(Id("try"), args))>>), FuncE("", <<Param("e")>>, <<Ret(CallE(Id("string"), <<Id("e")>>))>>)>>)), ES(I(0))>>
TryChains(u) == {TryChain(n, r) : n \in 1..4, r \in BOOLEAN}
\* a variable assigned, through a closure and directly, a value that is EQUAL to its current one but not the same:
\* another numeric type, another container with equal contents - the binding holds the new value afterwards
FloatE(n8, text) == [k |-> "float", n8 |-> n8, text |-> text]   \* the literal text with value n8/8
EqAssignProg(kind, captured) ==
  LET set(e) == IF captured THEN <<VarS("setx", FuncE("", <<>>, <<AssignS("x", "=", e)>>)), ES(CallE(Id("setx"), <<>>))>>
                ELSE <<AssignS("x", "=", e)>>
      body == CASE kind = "float" -> <<VarS("x", I(1))>> \o set(FloatE(8, "1.0")) \o
                                     <<PV(1, ListE(<<CallE(Id("type"), <<Id("x")>>), Bin("/", Id("x"), I(2))>>))>>
                [] kind = "int" -> <<VarS("x", FloatE(16, "2.0"))>> \o set(I(2)) \o
                                   <<PV(1, ListE(<<CallE(Id("type"), <<Id("x")>>), Bin("/", Id("x"), I(4))>>))>>
                [] kind = "list" -> <<VarS("x", ListE(<<I(1)>>)), VarS("y", ListE(<<I(1)>>))>> \o set(Id("y")) \o
                                    <<MethodS("y", "append", AppendCps, <<I(2)>>), PV(1, Id("x"))>>
                [] kind = "map" -> <<VarS("x", MapE(<<StrK(107)>>, <<I(1)>>)), VarS("y", MapE(<<StrK(107)>>, <<I(1)>>))>> \o set(Id("y")) \o
                                   <<SetIdxS(Id("y"), StrK(113), "=", I(2)), PV(1, Id("x"))>>
  IN <<VarS("run", FuncE("", <<>>, body \o <<Ret(I(0))>>)), ES(CallE(Id("run"), <<>>)), ES(I(0))>>
EqAssigns(u) == {EqAssignProg(k, c) : k \in {"float", "int", "list", "map"}, c \in BOOLEAN}
\* ... and the same function called TWICE: the deferred calls of the first activation are not those of the second
DeferTwice(kinds) ==
  LET body == [j \in 1..Len(kinds) |-> DeferOf(kinds[j], 10 * j)] \o <<P(0), Ret(I(5))>>
  IN <<VarS("lg", FuncE("", <<Param("k")>>, <<PV(1, Id("k"))>>)), VarS("f", FuncE("", <<>>, body)),
       PV(2, CallE(Id("f"), <<>>)), PV(3, CallE(Id("f"), <<>>)), ES(I(0))>>
\* a three-part loop whose init clause is empty (the only clause the grammar lets a three-part header omit)
ForNoInit(inFn) ==
  LET loop == [k |-> "for", init |-> <<>>, hascond |-> TRUE, cond |-> Bin("<", Id("x"), I(3)),
               post |-> <<Postfix("x", "++")>>, body |-> <<PV(1, Id("x"))>>]
      sts == <<VarS("x", I(0)), loop, PV(2, Id("x"))>>
  IN IF inFn THEN <<VarS("run", FuncE("", <<>>, sts \o <<Ret(Id("x"))>>)), PV(3, CallE(Id("run"), <<>>)), ES(I(0))>>
     ELSE sts \o <<ES(I(0))>>
\* a three-part loop whose init (post) clause is an EXPRESSION: its value is discarded, once (every iteration); the
\* loop sits in an outer loop that runs often enough for a leftover value per run to exhaust the operand stack
ForExprClause(which, inFn) ==
  LET e == CallE(Id("len"), <<ListE(<<Id("x")>>)>>)
      inner == IF which = "init"
               THEN [k |-> "for", init |-> <<ES(e)>>, hascond |-> TRUE, cond |-> Bin("<", Id("x"), I(0)), post |-> <<Postfix("x", "++")>>, body |-> <<>>]
               ELSE [k |-> "for", init |-> <<VarS("y", I(0))>>, hascond |-> TRUE, cond |-> Bin("<", Id("y"), I(1)), post |-> <<ES(e)>>,
                     body |-> <<Postfix("y", "++")>>]
      outer == [k |-> "for", init |-> <<VarS("k", I(0))>>, hascond |-> TRUE, cond |-> Bin("<", Id("k"), I(40)), post |-> <<Postfix("k", "++")>>,
                body |-> <<inner, Postfix("x", "++")>>]
      sts == <<VarS("x", I(0)), outer, PV(2, Id("x"))>>
  IN IF inFn THEN <<VarS("run", FuncE("", <<>>, sts \o <<Ret(Id("x"))>>)), PV(3, CallE(Id("run"), <<>>)), ES(I(0))>>
     ELSE sts \o <<ES(I(0))>>
\* a call that ends with a recovered Go panic (1 / 0) still runs its deferred calls; an error raised by one of them
\* does not replace the panic (it does replace an ordinary error)
DeferUnderPanic(bodyPanics, deferRaises) ==
  LET d == DeferS(CallE(FuncE("", <<>>, <<P(7)>> \o (IF deferRaises THEN <<ES([k |-> "idx", a |-> ListE(<<I(2)>>), b |-> I(5)])>> ELSE <<>>)), <<>>))
      fail == IF bodyPanics THEN Ret(Bin("/", I(1), Id("z"))) ELSE Ret([k |-> "idx", a |-> ListE(<<>>), b |-> I(1)])
  IN <<VarS("f", FuncE("", <<Param("z")>>, <<d, P(8), fail>>)), PV(1, CallE(Id("f"), <<I(0)>>)), ES(I(0))>>
DeferProgs(u) == {DeferUnderPanic(a, b) : a \in BOOLEAN, b \in BOOLEAN} \cup {DeferTwice(ks) : ks \in (DeferKinds \X DeferKinds)} \cup {ForNoInit(b) : b \in BOOLEAN} \cup
                 {ForExprClause(w, b) : w \in {"init", "post"}, b \in BOOLEAN} \cup TryChains(0) \cup EqAssigns(0) \cup
                 {DeferProg(ks, r) : ks \in (DeferKinds \X DeferKinds) \cup (DeferKinds \X DeferKinds \X DeferKinds), r \in BOOLEAN}

\* only well-scoped scenarios: the innermost function of a chain of depth d can see v_1 .. v_d
Closures(maxd) == UNION {{ClosureProg(d, rd, wr, route, twice, ps[1], ps[2]) :
                            rd \in 1..d, wr \in 1..d, route \in Routes, twice \in BOOLEAN,
                            ps \in {<<0, FALSE>>, <<9, FALSE>>, <<0, TRUE>>}} : d \in 1..maxd}
=============================================================================
