------------------------------- MODULE VMRun -------------------------------
(***************************************************************************)
(* Run / cancel lifecycle of one risor VM and the clones it spawns         *)
(* (properties C06 and C07).  Processes: the evaluator (Start, Step,       *)
(* Spawn, SeeHalt, Finish), one watcher goroutine per Start, the           *)
(* canceller (Cancel(c)) and the spawned clones, each with its own halt    *)
(* flag.  One action per critical section of vm/vm.go:                     *)
(*   Start        start(): under runMutex, halt := 0, gen := gen + 1,      *)
(*                arm a watcher for (gen, ctx)                             *)
(*   Step         one instruction of eval (polls halt first)               *)
(*   Spawn        op.Go / spawn(): Clone + NewThread (+ clone watcher)     *)
(*   SeeHalt      eval sees halt = 1 and returns ctx.Err() of the CURRENT  *)
(*                context: nil if that context is not done ("cut")         *)
(*   Finish       eval reaches the end; stop()                             *)
(*   WatcherFire  <-ctx.Done() in the watcher goroutine, then the store    *)
(* Faithful = TRUE is the code as pinned (watchers never disarmed and      *)
(* storing unconditionally; clones never armed); Faithful = FALSE is the   *)
(* repaired design the tree now implements.                                *)
(***************************************************************************)
EXTENDS Integers, Sequences, FiniteSets, TLC
CONSTANTS Faithful,      \* TRUE: pinned (defective) behaviour, FALSE: repaired design
          MaxRuns,       \* number of invocations on the shared VM
          Steps,         \* instructions per invocation
          MaxClones      \* goroutines an invocation may spawn
Ctxs == 1..MaxRuns       \* invocation k runs under context k
CloneIds == 1..MaxClones
VARIABLES running, halt, gen, watchers, ctxDone, left, outcomes, clones
vars == <<running, halt, gen, watchers, ctxDone, left, outcomes, clones>>
NoClone == [live |-> FALSE, halt |-> 0, ctx |-> 0, armed |-> FALSE, ticks |-> 0]
Init == /\ running = FALSE /\ halt = 0 /\ gen = 0 /\ watchers = {} /\ ctxDone = {}
        /\ left = 0 /\ outcomes = <<>> /\ clones = [k \in CloneIds |-> NoClone]

Start == /\ ~running /\ gen < MaxRuns
         /\ running' = TRUE /\ halt' = 0 /\ gen' = gen + 1 /\ left' = Steps
         /\ watchers' = watchers \cup {[g |-> gen + 1, ctx |-> gen + 1]}
         /\ UNCHANGED <<ctxDone, outcomes, clones>>
\* start() on a VM that is running is refused ("vm is already running") and changes NOTHING - in particular it
\* neither clears `running` nor ends the watcher of the run in progress.  A stuttering step: [Next]_vars admits it.
RefusedStart == running /\ UNCHANGED vars
Step == /\ running /\ halt = 0 /\ left > 0
        /\ left' = left - 1
        /\ UNCHANGED <<running, halt, gen, watchers, ctxDone, outcomes, clones>>
Spawn(k) == /\ running /\ halt = 0 /\ left > 0 /\ ~clones[k].live /\ clones[k].ctx = 0
            /\ clones' = [clones EXCEPT ![k] = [live |-> TRUE, halt |-> 0, ctx |-> gen, armed |-> ~Faithful, ticks |-> 0]]
            /\ left' = left - 1
            /\ UNCHANGED <<running, halt, gen, watchers, ctxDone, outcomes>>
\* stop(): the repaired design ends the watcher of the run that is over
Disarm(ws) == IF Faithful THEN ws ELSE {w \in ws : w.g # gen}
SeeHalt == /\ running /\ halt = 1
           /\ outcomes' = Append(outcomes, [g |-> gen, r |-> IF gen \in ctxDone THEN "ctxerr" ELSE "cut"])
           /\ running' = FALSE /\ watchers' = Disarm(watchers)
           /\ UNCHANGED <<halt, gen, ctxDone, left, clones>>
Finish == /\ running /\ halt = 0 /\ left = 0
          /\ outcomes' = Append(outcomes, [g |-> gen, r |-> "complete"])
          /\ running' = FALSE /\ watchers' = Disarm(watchers)
          /\ UNCHANGED <<halt, gen, ctxDone, left, clones>>
Cancel(c) == /\ c \in 1..gen /\ c \notin ctxDone /\ ctxDone' = ctxDone \cup {c}
             /\ UNCHANGED <<running, halt, gen, watchers, left, outcomes, clones>>
WatcherFire(w) == /\ w \in watchers /\ w.ctx \in ctxDone
                  /\ watchers' = watchers \ {w}
                  /\ halt' = IF Faithful \/ (running /\ w.g = gen) THEN 1 ELSE halt
                  /\ UNCHANGED <<running, gen, ctxDone, left, outcomes, clones>>
\* a spawned clone runs script code (ticks) until it sees its own halt flag or finishes by itself
CloneStep(k) == /\ clones[k].live /\ clones[k].halt = 0 /\ clones[k].ticks < 2
                /\ clones' = [clones EXCEPT ![k].ticks = @ + 1]
                /\ UNCHANGED <<running, halt, gen, watchers, ctxDone, left, outcomes>>
CloneSeeHalt(k) == /\ clones[k].live /\ clones[k].halt = 1
                   /\ clones' = [clones EXCEPT ![k].live = FALSE]
                   /\ UNCHANGED <<running, halt, gen, watchers, ctxDone, left, outcomes>>
CloneWatcherFire(k) == /\ clones[k].live /\ clones[k].armed /\ clones[k].ctx \in ctxDone /\ clones[k].halt = 0
                       /\ clones' = [clones EXCEPT ![k].halt = 1]
                       /\ UNCHANGED <<running, halt, gen, watchers, ctxDone, left, outcomes>>
Next == Start \/ Step \/ SeeHalt \/ Finish \/ (\E c \in Ctxs: Cancel(c)) \/ (\E w \in watchers: WatcherFire(w))
        \/ (\E k \in CloneIds: Spawn(k) \/ CloneStep(k) \/ CloneSeeHalt(k) \/ CloneWatcherFire(k))
WatcherIds == [g : 1..MaxRuns, ctx : Ctxs]
Spec == Init /\ [][Next]_vars /\ WF_vars(Step) /\ WF_vars(SeeHalt) /\ WF_vars(Finish)
        /\ (\A w \in WatcherIds: WF_vars(WatcherFire(w)))
        /\ (\A k \in CloneIds: WF_vars(CloneSeeHalt(k)) /\ WF_vars(CloneWatcherFire(k)))

TypeOK == /\ running \in BOOLEAN /\ halt \in {0, 1} /\ gen \in 0..MaxRuns /\ left \in 0..Steps
          /\ watchers \subseteq WatcherIds /\ ctxDone \subseteq Ctxs
\* C07: an invocation is never cut short by an event that concerns another invocation, and
\* never returns success with a missing value
NoCut == \A i \in 1..Len(outcomes): outcomes[i].r # "cut"
OwnContextOnly == \A i \in 1..Len(outcomes): outcomes[i].r = "ctxerr" => outcomes[i].g \in ctxDone
\* an invocation whose context is never cancelled completes
UncancelledCompletes == \A i \in 1..Len(outcomes): outcomes[i].g \notin ctxDone => outcomes[i].r = "complete"
\* C06: once the context is cancelled the evaluation returns and everything it started stops
CancelStopsRun == \A c \in Ctxs: (c \in ctxDone /\ running /\ gen = c) ~> (~running \/ gen # c)
CancelStopsClones == \A k \in CloneIds: (clones[k].live /\ clones[k].ctx \in ctxDone) ~> ~clones[k].live
=============================================================================
