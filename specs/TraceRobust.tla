----------------------------- MODULE TraceRobust -----------------------------
(* Trace validation for C03: each recorded case is the event pair call / return(kind).  *)
(* The trace is accepted only if Robust!Call followed by Robust!Return(kind) explains   *)
(* it, i.e. kind is "value" or "error"; "panic" (a Go panic reached the caller),        *)
(* "crash" (the process died) and a missing return are printed as BAD lines.            *)
EXTENDS Naturals, Sequences, TLC, Json, IOUtils
Cases == ndJsonDeserialize(IOEnv.VERIF_CASES)
VARIABLES i, l, phase
Init == i = 1 /\ l = 0 /\ phase = "idle"
Ev == Cases[i].events
TCall == i <= Len(Cases) /\ l < Len(Ev) /\ Ev[l + 1].ev = "call" /\ phase = "idle"
         /\ phase' = "called" /\ l' = l + 1 /\ i' = i
TReturn == i <= Len(Cases) /\ l < Len(Ev) /\ Ev[l + 1].ev = "return" /\ phase = "called"
           /\ Ev[l + 1].ret \in {"value", "error"}
           /\ phase' = "returned" /\ l' = l + 1 /\ i' = i
TReset == i <= Len(Cases) /\ (l = Len(Ev) \/ ~ENABLED (TCall \/ TReturn)) /\ i' = i + 1 /\ l' = 0 /\ phase' = "idle"
Next == TCall \/ TReturn \/ TReset
\* a case whose events were not all consumed when the trace moves on was not explained by the lifecycle
Accepted == (i <= Len(Cases) /\ ~ENABLED (TCall \/ TReturn) /\ l < Len(Ev)) =>
               PrintT(<<"BAD", Cases[i].id, Ev[l + 1].ev, IF "ret" \in DOMAIN Ev[l + 1] THEN Ev[l + 1].ret ELSE "-">>)
=============================================================================
