----------------------------- MODULE BytecodeMC -----------------------------
(* All-paths exploration of real compiler output (C04, leg "M on artefacts").       *)
(* VERIF_CODES: one code object per line {pid, cid, root, ins}.  TLC explores every *)
(* path of every code object - executed or not - with the abstract token of         *)
(* Bytecode.tla.  Violations are reported as LEAK lines (the invariants stay TRUE   *)
(* so that every offending code object of the batch is listed).                     *)
EXTENDS Bytecode, TLC, Json, IOUtils
Codes == ndJsonDeserialize(IOEnv.VERIF_CODES)
HMAX == 1024   \* vm.MaxStackDepth: the operand stack of the real VM
VARIABLES p, ip, h, bnd    \* bnd: the instruction boundaries of code p (constant per behaviour)
vars == <<p, ip, h, bnd>>
Ins == Codes[p].ins
AtEnd == ip >= Len(Ins)
Init == p \in 1..Len(Codes) /\ ip = 0 /\ h = 0 /\ bnd = Boundaries(Codes[p].ins)
Next == /\ ~AtEnd /\ h >= 0 /\ h <= HMAX /\ ip \in bnd /\ Ins[ip+1] \in Known
        /\ LET o == Ins[ip+1] n == NOps(o)
               a == IF n >= 1 THEN Ins[ip+2] ELSE 0  b == IF n >= 2 THEN Ins[ip+3] ELSE 0
           IN h >= Needs(o, a, b)
        /\ \E s \in Succ(Ins, ip, h): ip' = s[1] /\ h' = s[2]
        /\ UNCHANGED <<p, bnd>>

\* least fixpoint of Succ from (0, 0): all reachable tokens of a code object
RECURSIVE Close(_,_,_)
Close(ins, frontier, seen) ==
  IF frontier = {} THEN seen
  ELSE LET ok(s) == s[1] < Len(ins) /\ s[2] >= 0 /\ s[2] <= HMAX /\ s[1] \in bnd /\ ins[s[1]+1] \in Known
           nxt == UNION {IF ok(s) THEN Succ(ins, s[1], s[2]) ELSE {} : s \in frontier}
           new == nxt \ seen
           all == seen \cup new
       IN \* stop at the first instruction reached with two heights (a leaking loop would climb to HMAX otherwise)
          IF \E x \in new: \E y \in all: x[1] = y[1] /\ x[2] # y[2] THEN all
          ELSE Close(ins, new, all)
Reach(ins) == Close(ins, {<<0, 0>>}, {<<0, 0>>})
Unique(ins) == LET R == Reach(ins) IN \A x \in R, y \in R: x[1] = y[1] => x[2] = y[2]

Report(kind) == PrintT(<<"LEAK", Codes[p].pid, Codes[p].cid, kind, ip, h>>)

\* one stack height per instruction (a leak shows as a second height at a loop head or join)
UniqueHeights == (ip = 0 /\ h = 0 /\ ~Unique(Ins)) => Report("two-heights")
HeightBounded == (h < 0 \/ h > HMAX) => Report("height-out-of-range")
\* every opcode finds its operands on the stack
OperandsPresent == (~AtEnd /\ h >= 0 /\ ip \in bnd /\ Ins[ip+1] \in Known) =>
   LET o == Ins[ip+1] n == NOps(o)
       a == IF n >= 1 THEN Ins[ip+2] ELSE 0  b == IF n >= 2 THEN Ins[ip+3] ELSE 0
   IN h < Needs(o, a, b) => Report("underflow")
\* falling off the end leaves exactly the result (main code), a return finds a value
EndsWithOne == (AtEnd /\ ip = Len(Ins)) => (h # 1 => Report("end-height"))
JumpsLand == (ip \notin bnd \/ ip > Len(Ins)) => Report("bad-jump-target")
KnownOpcode == (~AtEnd /\ ip \in bnd /\ Ins[ip+1] \notin Known) => Report("unknown-opcode")
=============================================================================
