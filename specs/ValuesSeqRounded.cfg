CONSTANT Rounded = TRUE
INIT Init
NEXT Next
INVARIANT SortLaws
INVARIANT SetLaws
INVARIANT ListLaws
CHECK_DEADLOCK FALSE
