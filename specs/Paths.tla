------------------------------- MODULE Paths -------------------------------
(* C13 - rooted filesystems and mounts cannot be escaped by any path string.            *)
(*                                                                                      *)
(* A path STRING is modelled as a record [abs, segs, trail]: the string is              *)
(*     (IF abs THEN "/" ELSE "") + segs[1] + "/" + ... + segs[n] + (IF trail THEN "/")  *)
(* Segments are opaque names except for "", "." and "..".  Several records denote the   *)
(* same string (an empty segment is a repeated separator); that redundancy is harmless. *)
(* Host and virtual locations are sequences of NAMES below a root (<<>> is the root).   *)
(*                                                                                      *)
(*   Resolve(base, p)            what a filesystem rooted at `base` does with p:        *)
(*                               refuse, or the location base \o c with c free of dots  *)
(*   FindMount(mounts, cwd, p)   which mount of a virtual OS serves p: the mount point  *)
(*                               that is the longest COMPONENT-WISE prefix of the       *)
(*                               location denoted by p (relative to cwd), or refusal    *)
(*                                                                                      *)
(* Leg M (Paths.cfg / PathsThorough.cfg): every path with at most MaxSegs segments over *)
(* the alphabet Segs x absolute/relative x trailing separator is a state; the           *)
(* invariants quantify over all base / mount / cwd layouts.  With Emit = TRUE each      *)
(* enumerated path is printed so that the Go driver replays it against the real code;   *)
(* PathsCheck.tla then judges the observations with the operators defined here.         *)
EXTENDS Integers, Sequences, FiniteSets, TLC

CONSTANTS MaxSegs,   \* bound on the number of segments (leg M)
          Emit       \* TRUE: print every enumerated path (generation for leg G)

Segs == {"", ".", "..", "a", "b", "..a", "a.."}
\* names that begin with the characters ".." without being "..": an implementation may
\* refuse them as the first component (DESIGN 8.2); "..nK" are the classes of leg V
DDNames == {"..a", "..n1", "..n2", "..n3", "..n4", "..n5", "..n6", "..n7", "..n8"}

\* ------------------------------------------------------------------ layouts
Bases     == {<<>>, <<"tmp">>, <<"tmp", "a">>}
\* (the root mount together with deeper ones: the longest COMPONENT-wise prefix wins, however mount points compare as
\* strings or by depth)
MountSets == { {<<>>}, {<<"tmp">>}, {<<"tmp", "a">>}, {<<"tmp">>, <<"tmp", "a">>}, {<<"a">>, <<"ab">>},
               {<<>>, <<"tmp">>}, {<<>>, <<"tmp", "a">>, <<"a">>} }
Cwds      == {<<>>, <<"tmp">>, <<"tmp", "a">>}

\* ------------------------------------------------------------------ strings as records
\* all separator-delimited pieces of the string after the optional leading "/"
\* (a trailing separator after no segment at all is the string "/": two empty pieces)
Full(p) == IF ~p.trail THEN p.segs
           ELSE IF p.segs = <<>> THEN <<"", "">> ELSE p.segs \o <<"">>
\* the string starts with "/" (a relative record whose first piece is empty does, too)
IsAbs(p) == p.abs \/ (Len(Full(p)) >= 2 /\ Full(p)[1] = "")

\* ------------------------------------------------------------------ lexical cleaning
\* acc: cleaned so far; rooted: ".." at the root stays at the root
RECURSIVE CleanSegs(_, _, _)
CleanSegs(rest, acc, rooted) ==
  IF rest = <<>> THEN acc
  ELSE LET s == Head(rest)  t == Tail(rest) IN
       IF s = "" \/ s = "." THEN CleanSegs(t, acc, rooted)
       ELSE IF s = ".." THEN
              IF acc # <<>> /\ acc[Len(acc)] # ".." THEN CleanSegs(t, SubSeq(acc, 1, Len(acc) - 1), rooted)
              ELSE IF rooted THEN CleanSegs(t, acc, rooted)
              ELSE CleanSegs(t, acc \o <<"..">>, rooted)
       ELSE CleanSegs(t, acc \o <<s>>, rooted)

Clean(p) == [abs |-> IsAbs(p), segs |-> CleanSegs(Full(p), <<>>, IsAbs(p)), trail |-> FALSE]

IsPrefixC(a, b) == Len(a) <= Len(b) /\ SubSeq(b, 1, Len(a)) = a      \* component-wise prefix
NoDots(q) == \A k \in 1..Len(q): q[k] \notin {"", ".", ".."}

\* ------------------------------------------------------------------ rooted filesystem
Reject == [ok |-> FALSE, path |-> <<>>]
Resolve(base, p) ==
  LET c == Clean(p).segs
  IN IF c # <<>> /\ c[1] = ".." THEN Reject ELSE [ok |-> TRUE, path |-> base \o c]
\* refusal that is tolerated although Resolve accepts (DESIGN 8.2)
MayRefuse(p) == LET c == Clean(p).segs IN c # <<>> /\ c[1] \in DDNames

\* the same function as a walk: a cursor below the base, one step per segment; the path
\* is refused as soon as a relative path steps above its starting point
RECURSIVE Walk(_, _, _)
Walk(rest, stack, rooted) ==
  IF rest = <<>> THEN [ok |-> TRUE, path |-> stack]
  ELSE LET s == Head(rest)  t == Tail(rest) IN
       IF s \in {"", "."} THEN Walk(t, stack, rooted)
       ELSE IF s = ".." THEN
              IF stack # <<>> THEN Walk(t, SubSeq(stack, 1, Len(stack) - 1), rooted)
              ELSE IF rooted THEN Walk(t, stack, rooted) ELSE Reject
       ELSE Walk(t, stack \o <<s>>, rooted)

\* ------------------------------------------------------------------ virtual OS
Refuse == [ok |-> FALSE, m |-> <<>>, rel |-> <<>>]
Location(cwd, p) == CleanSegs(IF IsAbs(p) THEN Full(p) ELSE cwd \o Full(p), <<>>, TRUE)
FindMount(mounts, cwd, p) ==
  LET full  == Location(cwd, p)
      cands == {m \in mounts: IsPrefixC(m, full)}
  IN IF cands = {} THEN Refuse
     ELSE LET m == CHOOSE m \in cands: \A n \in cands: Len(n) <= Len(m)
          IN [ok |-> TRUE, m |-> m, rel |-> SubSeq(full, Len(m) + 1, Len(full))]

\* ------------------------------------------------------------------ leg M
VARIABLE p
\* the states are exactly the paths with at most MaxSegs segments: a path grows by one
\* segment per step (so that TLC's workers share the enumeration)
PathInit == p \in [abs: BOOLEAN, segs: {<<>>}, trail: BOOLEAN]
PathNext == Len(p.segs) < MaxSegs /\ \E s \in Segs: p' = [p EXCEPT !.segs = @ \o <<s>>]

\* a rooted filesystem refuses or stays under its base, and never keeps a dot segment
Confined ==
  \A base \in Bases: LET r == Resolve(base, p) IN
     r.ok => IsPrefixC(base, r.path) /\ NoDots(r.path)
\* lexical cleaning and the walk are the same function
ResolveIsWalk ==
  \A base \in Bases: LET w == Walk(Full(p), <<>>, IsAbs(p)) IN
     Resolve(base, p) = (IF w.ok THEN [ok |-> TRUE, path |-> base \o w.path] ELSE Reject)
CleanIdempotent == Clean(Clean(p)) = Clean(p)
\* a served path is served by a mount of the table, at the location the path denotes,
\* below that mount, and no longer mount point is a prefix of the location
ServedByLongestPrefix ==
  \A ms \in MountSets, cwd \in Cwds: LET r == FindMount(ms, cwd, p)  full == Location(cwd, p) IN
     r.ok => /\ r.m \in ms
             /\ r.m \o r.rel = full
             /\ NoDots(r.rel)
             /\ \A n \in ms: IsPrefixC(n, full) => Len(n) <= Len(r.m)
\* refusal exactly when the location lies under no mount point
RefuseOutsideMounts ==
  \A ms \in MountSets, cwd \in Cwds: LET r == FindMount(ms, cwd, p)  full == Location(cwd, p) IN
     (~r.ok) <=> (\A m \in ms: ~IsPrefixC(m, full))
\* a trailing separator or a repeated separator never changes the outcome
SeparatorsIrrelevant ==
  LET q == [p EXCEPT !.trail = FALSE] IN
   (IsAbs(q) = IsAbs(p)) =>      \* (the string "/" itself is absolute, "" is not)
     /\ \A base \in Bases: Resolve(base, p) = Resolve(base, q)
     /\ \A ms \in MountSets, cwd \in Cwds: FindMount(ms, cwd, p) = FindMount(ms, cwd, q)

EmitPath == Emit => PrintT(<<"PATH", p.abs, p.trail, p.segs>>)
=============================================================================
