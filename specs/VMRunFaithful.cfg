SPECIFICATION Spec
CONSTANTS Faithful = TRUE
 MaxRuns = 2
 Steps = 2
 MaxClones = 1
INVARIANT NoCut
PROPERTY CancelStopsClones
CHECK_DEADLOCK FALSE
