CONSTANT Rounded = FALSE
CONSTANT Mode = "obs"
INIT Init
NEXT Next
INVARIANT EqReflexive
INVARIANT EqSymmetric
INVARIANT NeNegation
INVARIANT EqTransitive
INVARIANT OrderDefined
INVARIANT OrderTotal
INVARIANT OrderOperators
INVARIANT OrderAgreesEq
INVARIANT OrderTransitive
INVARIANT CrossNumeric
INVARIANT HashAgrees
INVARIANT ContainerTruthy
INVARIANT Membership
INVARIANT ApiForms
INVARIANT ScriptForms
CHECK_DEADLOCK FALSE
