// values: C15 driver (equality, ordering and hashing of values obey their algebraic laws).
//
//	values universe -kind U|V -seed s -n M -k K -out u.json
//	    build a value universe: the fixed boundary universe U or U's numeric scalars plus
//	    M seeded random values (V).  Numeric scalars get their RANK in the exact merged
//	    real-number order of the universe (math/big, independent of risor); ints also get
//	    the rank of their float64 rounding (IEEE round-to-nearest-even).
//	values eval -u u.json -cases cases.ndjson -obs obs.json [-nseq n] [-seed s] [-workers w]
//	    materialise every value as real objects and observe every ordered pair, every value
//	    and the sort/set inputs through the public object API and through scripts
//	values replay -u u.json -in cases.ndjson -out again.ndjson
//	    re-observe the given cases (reproduction before a verdict)
package main

import (
	"context"
	"encoding/json"
	"errors"
	"flag"
	"fmt"
	"math"
	"math/big"
	"math/rand"
	"os"
	"runtime"
	"sort"
	"strconv"
	"strings"
	"sync"
	"time"

	"github.com/risor-io/risor"
	"github.com/risor-io/risor/object"
	"github.com/risor-io/risor/op"

	"verifharness/run"
)

type N = map[string]any

// ---------------------------------------------------------------------------
// abstract values

type Val struct {
	T      string // int float byte str bool nil list map set error
	I      int64
	F      float64
	B      byte
	S      string
	Bo     bool
	Items  []*Val   // list items, set members, map values
	Keys   []string // map keys (sorted), parallel to Items
	Raised bool
	// an error that wraps another (fmt.Errorf("%s%w", prefix, base)): S is the whole message, Base the message of the
	// wrapped error; every error of one message is built around ONE Go error value, so a wrapping error and the error
	// it wraps are related by errors.Is although they are different values with different messages
	Wraps bool
	Base  string
}

var (
	baseErrMu sync.Mutex
	baseErrs  = map[string]error{}
)

func baseErr(msg string) error {
	baseErrMu.Lock()
	defer baseErrMu.Unlock()
	e, ok := baseErrs[msg]
	if !ok {
		e = errors.New(msg)
		baseErrs[msg] = e
	}
	return e
}
func vErrW(prefix, base string, raised bool) *Val {
	return &Val{T: "error", S: prefix + base, Raised: raised, Wraps: true, Base: base}
}

func vInt(i int64) *Val     { return &Val{T: "int", I: i} }
func vFloat(f float64) *Val { return &Val{T: "float", F: f} }
func vByte(b byte) *Val     { return &Val{T: "byte", B: b} }
func vStr(s string) *Val    { return &Val{T: "str", S: s} }
func vBool(b bool) *Val     { return &Val{T: "bool", Bo: b} }
func vNil() *Val            { return &Val{T: "nil"} }
func vList(xs ...*Val) *Val { return &Val{T: "list", Items: xs} }
func vErr(msg string, raised bool) *Val {
	return &Val{T: "error", S: msg, Raised: raised}
}
func vMap(kv ...any) *Val {
	m := map[string]*Val{}
	for i := 0; i+1 < len(kv); i += 2 {
		m[kv[i].(string)] = kv[i+1].(*Val)
	}
	ks := make([]string, 0, len(m))
	for k := range m {
		ks = append(ks, k)
	}
	sort.Strings(ks)
	v := &Val{T: "map", Keys: ks}
	for _, k := range ks {
		v.Items = append(v.Items, m[k])
	}
	return v
}

// hashable mirrors which script types can be set members
func (v *Val) hashable() bool {
	switch v.T {
	case "int", "float", "byte", "str", "bool", "nil":
		return true
	}
	return false
}

// slotKey: members of a set are kept per (type, value); +0.0 and -0.0 share a slot
func (v *Val) slotKey() string {
	if v.T == "float" && v.F == 0 {
		return "f:0"
	}
	return v.key()
}

func vSet(xs ...*Val) *Val {
	seen := map[string]*Val{}
	for _, x := range xs {
		if !x.hashable() {
			panic("unhashable set member in universe")
		}
		seen[x.slotKey()] = x
	}
	ks := make([]string, 0, len(seen))
	for k := range seen {
		ks = append(ks, k)
	}
	sort.Strings(ks)
	v := &Val{T: "set"}
	for _, k := range ks {
		v.Items = append(v.Items, seen[k])
	}
	return v
}

// key: canonical text of the Go-level representation (distinguishes 1, 1.0, byte(1), 0.0, -0.0)
func (v *Val) key() string {
	switch v.T {
	case "int":
		return "i:" + strconv.FormatInt(v.I, 10)
	case "float":
		return "f:" + strconv.FormatUint(math.Float64bits(v.F), 16)
	case "byte":
		return "y:" + strconv.Itoa(int(v.B))
	case "str":
		return "s:" + strconv.Quote(v.S)
	case "bool":
		return "b:" + strconv.FormatBool(v.Bo)
	case "nil":
		return "n"
	case "list":
		parts := make([]string, len(v.Items))
		for i, x := range v.Items {
			parts[i] = x.key()
		}
		return "l[" + strings.Join(parts, ",") + "]"
	case "map":
		parts := make([]string, len(v.Items))
		for i, x := range v.Items {
			parts[i] = strconv.Quote(v.Keys[i]) + "=" + x.key()
		}
		return "m{" + strings.Join(parts, ",") + "}"
	case "set":
		parts := make([]string, len(v.Items))
		for i, x := range v.Items {
			parts[i] = x.key()
		}
		sort.Strings(parts)
		return "S{" + strings.Join(parts, ",") + "}"
	case "error":
		if v.Wraps {
			return "e:" + strconv.FormatBool(v.Raised) + ":" + strconv.Quote(v.S) + ":w" + strconv.Itoa(len(v.Base))
		}
		return "e:" + strconv.FormatBool(v.Raised) + ":" + strconv.Quote(v.S)
	}
	panic("bad val")
}

// okey: the same canonical text computed from a REAL object
func okey(o object.Object) string {
	switch o := o.(type) {
	case *object.Int:
		return "i:" + strconv.FormatInt(o.Value(), 10)
	case *object.Float:
		return "f:" + strconv.FormatUint(math.Float64bits(o.Value()), 16)
	case *object.Byte:
		return "y:" + strconv.Itoa(int(o.Value()))
	case *object.String:
		return "s:" + strconv.Quote(o.Value())
	case *object.Bool:
		return "b:" + strconv.FormatBool(o.Value())
	case *object.NilType:
		return "n"
	case *object.List:
		parts := make([]string, len(o.Value()))
		for i, x := range o.Value() {
			parts[i] = okey(x)
		}
		return "l[" + strings.Join(parts, ",") + "]"
	case *object.Map:
		ks := o.SortedKeys()
		parts := make([]string, len(ks))
		for i, k := range ks {
			parts[i] = strconv.Quote(k) + "=" + okey(o.Value()[k])
		}
		return "m{" + strings.Join(parts, ",") + "}"
	case *object.Set:
		parts := []string{}
		for _, x := range o.Value() {
			parts = append(parts, okey(x))
		}
		sort.Strings(parts)
		return "S{" + strings.Join(parts, ",") + "}"
	case *object.Error:
		if inner := errors.Unwrap(o.Value()); inner != nil {
			return "e:" + strconv.FormatBool(o.IsRaised()) + ":" + strconv.Quote(o.Value().Error()) + ":w" + strconv.Itoa(len(inner.Error()))
		}
		return "e:" + strconv.FormatBool(o.IsRaised()) + ":" + strconv.Quote(o.Value().Error())
	case nil:
		return "gonil"
	}
	return "?" + string(o.Type())
}

// materialise builds a fresh real object
func (v *Val) obj() object.Object {
	switch v.T {
	case "int":
		return object.NewInt(v.I)
	case "float":
		return object.NewFloat(v.F)
	case "byte":
		return object.NewByte(v.B)
	case "str":
		return object.NewString(v.S)
	case "bool":
		return object.NewBool(v.Bo)
	case "nil":
		return object.Nil
	case "list":
		items := make([]object.Object, len(v.Items))
		for i, x := range v.Items {
			items[i] = x.obj()
		}
		return object.NewList(items)
	case "map":
		m := map[string]object.Object{}
		for i, k := range v.Keys {
			m[k] = v.Items[i].obj()
		}
		return object.NewMap(m)
	case "set":
		items := make([]object.Object, len(v.Items))
		for i, x := range v.Items {
			items[i] = x.obj()
		}
		s := object.NewSet(items)
		if _, ok := s.(*object.Set); !ok {
			panic("universe set could not be built: " + s.Inspect())
		}
		return s
	case "error":
		if v.Wraps {
			return object.NewError(fmt.Errorf("%s%w", strings.TrimSuffix(v.S, v.Base), baseErr(v.Base))).WithRaised(v.Raised)
		}
		return object.NewError(baseErr(v.S)).WithRaised(v.Raised)
	}
	panic("bad val")
}

func quoteStr(s string) string {
	var sb strings.Builder
	sb.WriteByte('"')
	for _, r := range s {
		switch r {
		case '"':
			sb.WriteString("\\\"")
		case '\\':
			sb.WriteString("\\\\")
		case '\n':
			sb.WriteString("\\n")
		case '\t':
			sb.WriteString("\\t")
		default:
			sb.WriteRune(r)
		}
	}
	sb.WriteByte('"')
	return sb.String()
}

// src: script text that denotes the value ("" if only reachable as a global)
func (v *Val) src() string {
	switch v.T {
	case "int":
		if v.I == math.MinInt64 {
			return "(-9223372036854775807 - 1)"
		}
		if v.I < 0 {
			return "(" + strconv.FormatInt(v.I, 10) + ")"
		}
		return strconv.FormatInt(v.I, 10)
	case "float":
		if math.IsInf(v.F, 1) {
			return "math.inf(1)"
		}
		if math.IsInf(v.F, -1) {
			return "math.inf(-1)"
		}
		s := strconv.FormatFloat(math.Abs(v.F), 'f', -1, 64)
		if !strings.Contains(s, ".") {
			s += ".0"
		}
		if math.Signbit(v.F) {
			return "(-" + s + ")"
		}
		return s
	case "byte":
		return "byte(" + strconv.Itoa(int(v.B)) + ")"
	case "str":
		return quoteStr(v.S)
	case "bool":
		return strconv.FormatBool(v.Bo)
	case "nil":
		return "nil"
	case "list":
		parts := make([]string, len(v.Items))
		for i, x := range v.Items {
			parts[i] = x.src()
			if parts[i] == "" {
				return ""
			}
		}
		return "[" + strings.Join(parts, ", ") + "]"
	case "map":
		if len(v.Items) == 0 {
			return "{}"
		}
		parts := make([]string, len(v.Items))
		for i, x := range v.Items {
			s := x.src()
			if s == "" {
				return ""
			}
			parts[i] = quoteStr(v.Keys[i]) + ": " + s
		}
		return "{" + strings.Join(parts, ", ") + "}"
	case "set":
		if len(v.Items) == 0 {
			return "set()"
		}
		parts := make([]string, len(v.Items))
		for i, x := range v.Items {
			parts[i] = x.src()
			if parts[i] == "" {
				return ""
			}
		}
		return "{" + strings.Join(parts, ", ") + "}"
	case "error":
		if v.Raised || v.Wraps {
			return "" // a raised error is not expressible as a script value: passed as a global
		}
		return "errors.new(" + quoteStr(v.S) + ")"
	}
	panic("bad val")
}

// ---------------------------------------------------------------------------
// exact arithmetic oracle: ranks

type num struct {
	inf int // -1, 0, +1
	r   *big.Rat
}

func numOfInt(i int64) num { return num{0, new(big.Rat).SetInt64(i)} }
func numOfFloat(f float64) num {
	if math.IsInf(f, 1) {
		return num{1, nil}
	}
	if math.IsInf(f, -1) {
		return num{-1, nil}
	}
	if math.IsNaN(f) {
		panic("NaN is outside the property")
	}
	r := new(big.Rat)
	r.SetFloat64(f) // exact
	return num{0, r}
}
func numCmp(a, b num) int {
	if a.inf != 0 || b.inf != 0 {
		switch {
		case a.inf < b.inf:
			return -1
		case a.inf > b.inf:
			return 1
		}
		return 0
	}
	return a.r.Cmp(b.r)
}

// roundToFloat: IEEE round-to-nearest-even of an int64, computed with math/big
func roundToFloat(i int64) float64 {
	f, _ := new(big.Float).SetPrec(53).SetMode(big.ToNearestEven).SetInt64(i).Float64()
	return f
}

func (v *Val) num() num {
	switch v.T {
	case "int":
		return numOfInt(v.I)
	case "float":
		return numOfFloat(v.F)
	case "byte":
		return numOfInt(int64(v.B))
	}
	panic("not numeric")
}

type ranker struct {
	sorted []num
}

func collectNums(v *Val, out *[]num) {
	switch v.T {
	case "int":
		*out = append(*out, v.num(), numOfFloat(roundToFloat(v.I)))
	case "float", "byte":
		*out = append(*out, v.num())
	case "list", "map", "set":
		for _, x := range v.Items {
			collectNums(x, out)
		}
	}
}

func newRanker(vals []*Val) *ranker {
	nums := []num{numOfInt(0)}
	for _, v := range vals {
		collectNums(v, &nums)
	}
	sort.Slice(nums, func(i, j int) bool { return numCmp(nums[i], nums[j]) < 0 })
	r := &ranker{}
	for _, n := range nums {
		if len(r.sorted) == 0 || numCmp(r.sorted[len(r.sorted)-1], n) != 0 {
			r.sorted = append(r.sorted, n)
		}
	}
	return r
}

func (r *ranker) rank(n num) int {
	i := sort.Search(len(r.sorted), func(i int) bool { return numCmp(r.sorted[i], n) >= 0 })
	if i >= len(r.sorted) || numCmp(r.sorted[i], n) != 0 {
		panic("number not in rank table")
	}
	return i + 1
}

// rec: the tagged record handed to the TLA+ specs
func (r *ranker) rec(v *Val) N {
	switch v.T {
	case "int":
		return N{"t": "int", "rank": r.rank(v.num()), "frank": r.rank(numOfFloat(roundToFloat(v.I)))}
	case "float":
		return N{"t": "float", "rank": r.rank(v.num())}
	case "byte":
		return N{"t": "byte", "rank": r.rank(v.num())}
	case "str":
		return N{"t": "str", "v": run.Cps(v.S)}
	case "bool":
		return N{"t": "bool", "v": v.Bo}
	case "nil":
		return N{"t": "nil"}
	case "list", "set":
		items := []any{}
		for _, x := range v.Items {
			items = append(items, r.rec(x))
		}
		return N{"t": v.T, "v": items}
	case "map":
		items := []any{}
		for i, x := range v.Items {
			items = append(items, N{"k": run.Cps(v.Keys[i]), "v": r.rec(x)})
		}
		return N{"t": "map", "v": items}
	case "error":
		return N{"t": "error", "v": run.Cps(v.S), "raised": v.Raised}
	}
	panic("bad val")
}

// ---------------------------------------------------------------------------
// universes

const (
	p53   = int64(1) << 53
	max64 = int64(math.MaxInt64)
	min64 = int64(math.MinInt64)
)

func scalarsU() []*Val {
	var vs []*Val
	for _, i := range []int64{min64, -p53 - 1, -p53, -1, 0, 1, 255, 256, p53, p53 + 1, max64} {
		vs = append(vs, vInt(i))
	}
	for _, f := range []float64{math.Inf(-1), -9223372036854775808.0, -9007199254740994.0, -9007199254740992.0, -1.0,
		math.Copysign(0, -1), 0.0, 0.5, 1.0, 1.5, 255.0, 256.0, 9007199254740992.0, 9007199254740994.0,
		9223372036854775808.0, math.Inf(1)} {
		vs = append(vs, vFloat(f))
	}
	for _, b := range []byte{0, 1, 255} {
		vs = append(vs, vByte(b))
	}
	return vs
}

type Universe struct {
	Vals []*Val
	S    []int // sort/set sub-universe (indices, 0-based)
	K    int
	idx  map[string]int
}

func (u *Universe) add(v *Val) int {
	if u.idx == nil {
		u.idx = map[string]int{}
	}
	k := v.key()
	if i, ok := u.idx[k]; ok {
		return i
	}
	// closure: elements first
	switch v.T {
	case "list", "set", "map":
		for _, x := range v.Items {
			u.add(x)
		}
		for _, k := range v.Keys {
			u.add(vStr(k))
		}
	}
	u.Vals = append(u.Vals, v)
	u.idx[k] = len(u.Vals) - 1
	return len(u.Vals) - 1
}

func (u *Universe) find(v *Val) int {
	i, ok := u.idx[v.key()]
	if !ok {
		panic("value not in universe: " + v.key())
	}
	return i
}

func universeU(k int, thorough bool) *Universe {
	u := &Universe{K: k}
	for _, v := range scalarsU() {
		u.add(v)
	}
	for _, s := range []string{"", "a", "ab", "b", "é", "日本", "😀"} {
		u.add(vStr(s))
	}
	u.add(vBool(false))
	u.add(vBool(true))
	u.add(vNil())
	negz := vFloat(math.Copysign(0, -1))
	lists := []*Val{
		vList(), vList(vInt(1)), vList(vFloat(1)), vList(vByte(1)),
		vList(vInt(p53)), vList(vInt(p53 + 1)), vList(vFloat(9007199254740992.0)),
		vList(vInt(0), vInt(256)), vList(vInt(255)), vList(vStr("a")), vList(vInt(1), vStr("a")),
		vList(vList()), vList(vList(vInt(1))), vList(vNil()), vList(negz), vList(vFloat(0)), vList(vBool(true)),
		vList(vMap()), vList(vInt(max64)), vList(vFloat(9223372036854775808.0)),
	}
	for _, l := range lists {
		u.add(l)
	}
	for _, m := range []*Val{
		vMap(), vMap("a", vInt(1)), vMap("a", vFloat(1)), vMap("a", vInt(256)), vMap("b", vInt(1)),
		vMap("a", vInt(1), "b", vNil()),
	} {
		u.add(m)
	}
	for _, s := range []*Val{
		vSet(), vSet(vInt(1)), vSet(vFloat(1)), vSet(vByte(1)), vSet(vInt(1), vFloat(1)), vSet(vStr("a")),
		vSet(vFloat(0)), vSet(negz), vSet(vNil()), vSet(vBool(true)),
	} {
		u.add(s)
	}
	for _, e := range []*Val{vErr("x", true), vErr("x", false), vErr("y", true), vErr("", false),
		vErrW("ctx: ", "x", true), vErrW("ctx: ", "x", false), vErr("ctx: x", false), vErrW("", "y", true), vErrW("outer: ", "ctx: x", false)} {
		u.add(e)
	}
	sub := []*Val{
		vInt(0), vInt(1), vFloat(1), vByte(1), vInt(p53), vInt(p53 + 1), vFloat(9007199254740992.0),
		negz, vFloat(0), vStr(""), vStr("a"), vList(vInt(1)), vList(vFloat(1)), vNil(),
	}
	if thorough {
		sub = append(sub, vFloat(1.5), vInt(max64), vFloat(9223372036854775808.0), vStr("é"), vList(), vBool(true))
	}
	for _, v := range sub {
		u.S = append(u.S, u.find(v))
	}
	return u
}

var runeAlphabet = []rune{'a', 'b', 'z', 'A', '0', ' ', 'é', 'ß', '日', '本', '￮', '😀', '𝄞'}

func randInt(r *rand.Rand) int64 {
	switch r.Intn(6) {
	case 0:
		return int64(r.Uint64())
	case 1: // +-2^k + d
		k := uint(r.Intn(64))
		d := int64(r.Intn(5) - 2)
		x := int64(uint64(1)<<k) + d
		if r.Intn(2) == 0 {
			x = -x
		}
		return x
	case 2: // where float64 spacing exceeds 1: a representable float +- a small delta
		e := 53 + r.Intn(10)
		m := (int64(1) << 52) | r.Int63n(int64(1)<<52)
		x := m << uint(e-52)
		if x < 0 || x>>uint(e-52) != m {
			x = max64 - int64(r.Intn(2048))
		} else {
			x += int64(r.Intn(7) - 3)
		}
		if r.Intn(2) == 0 {
			x = -x
		}
		return x
	case 3:
		return int64(r.Intn(600) - 300)
	case 4:
		return max64 - int64(r.Intn(1100))
	default:
		return min64 + int64(r.Intn(1100))
	}
}

func randFloat(r *rand.Rand, ints []int64) float64 {
	for {
		var f float64
		switch r.Intn(6) {
		case 0:
			f = math.Float64frombits(r.Uint64())
		case 1: // the float64 an existing int rounds to, or a neighbour
			if len(ints) == 0 {
				continue
			}
			f = float64(ints[r.Intn(len(ints))])
			switch r.Intn(3) {
			case 0:
				f = math.Nextafter(f, math.Inf(1))
			case 1:
				f = math.Nextafter(f, math.Inf(-1))
			}
		case 2:
			f = float64(r.Intn(4096)-2048) / 8
		case 3:
			f = math.Ldexp(float64(r.Intn(9)-4), r.Intn(140)-70)
		case 4:
			f = math.Float64frombits(uint64(r.Intn(5))) // subnormals
			if r.Intn(2) == 0 {
				f = -f
			}
		default:
			f = []float64{math.MaxFloat64, -math.MaxFloat64, math.Inf(1), math.Inf(-1), math.SmallestNonzeroFloat64}[r.Intn(5)]
		}
		if !math.IsNaN(f) {
			return f
		}
	}
}

func randStr(r *rand.Rand) string {
	n := r.Intn(5)
	rs := make([]rune, n)
	for i := range rs {
		rs[i] = runeAlphabet[r.Intn(len(runeAlphabet))]
	}
	return string(rs)
}

func universeV(seed int64, m, k int) *Universe {
	r := rand.New(rand.NewSource(seed))
	u := &Universe{K: k}
	for _, v := range scalarsU() {
		u.add(v)
	}
	var ints []int64
	pick := func(pred func(*Val) bool) *Val {
		for tries := 0; tries < 200; tries++ {
			v := u.Vals[r.Intn(len(u.Vals))]
			if pred(v) {
				return v
			}
		}
		return vInt(0)
	}
	isNum := func(v *Val) bool { return v.T == "int" || v.T == "float" || v.T == "byte" }
	anyVal := func(v *Val) bool { return true }
	hashable := func(v *Val) bool { return v.hashable() }
	isStr := func(v *Val) bool { return v.T == "str" }
	u.add(vStr(""))
	u.add(vStr("a"))
	u.add(vNil())
	u.add(vBool(true))
	u.add(vBool(false))
	for len(u.Vals) < m {
		switch x := r.Intn(100); {
		case x < 22:
			i := randInt(r)
			ints = append(ints, i)
			u.add(vInt(i))
		case x < 44:
			u.add(vFloat(randFloat(r, ints)))
		case x < 47:
			u.add(vByte(byte(r.Intn(256))))
		case x < 60:
			u.add(vStr(randStr(r)))
		case x < 82:
			n := r.Intn(4)
			items := make([]*Val, n)
			fam := r.Intn(10)
			for i := range items {
				switch {
				case fam < 6:
					items[i] = pick(isNum)
				case fam < 8:
					items[i] = pick(func(v *Val) bool { return v.T == "str" || v.T == "list" })
				default:
					items[i] = pick(anyVal)
				}
			}
			// a perturbed copy of an existing list: equal prefixes make comparisons go deep
			if r.Intn(3) == 0 {
				base := pick(func(v *Val) bool { return v.T == "list" && len(v.Items) > 0 })
				if base.T == "list" {
					items = append([]*Val{}, base.Items...)
					items[r.Intn(len(items))] = pick(isNum)
				}
			}
			u.add(vList(items...))
		case x < 88:
			n := r.Intn(3)
			kv := []any{}
			for i := 0; i < n; i++ {
				kv = append(kv, pick(isStr).S, pick(anyVal))
			}
			u.add(vMap(kv...))
		case x < 95:
			n := r.Intn(4)
			items := make([]*Val, n)
			for i := range items {
				items[i] = pick(hashable)
			}
			u.add(vSet(items...))
		default:
			if r.Intn(3) == 0 {
				u.add(vErrW(pick(isStr).S, pick(isStr).S, r.Intn(2) == 0))
			} else {
				u.add(vErr(pick(isStr).S, r.Intn(2) == 0))
			}
		}
	}
	// sub-universe for sort/set inputs: numerics, strings, lists, a few others
	// (a seeded sample of at most 48 values: S is also the probe set of every membership vector)
	var cand []int
	for i, v := range u.Vals {
		switch v.T {
		case "int", "float", "byte", "str", "list", "bool", "nil":
			cand = append(cand, i)
		}
	}
	r.Shuffle(len(cand), func(i, j int) { cand[i], cand[j] = cand[j], cand[i] })
	if len(cand) > 48 {
		cand = cand[:48]
	}
	sort.Ints(cand)
	u.S = cand
	return u
}

func (u *Universe) json() N {
	rk := newRanker(u.Vals)
	vals := []any{}
	for _, v := range u.Vals {
		rec := rk.rec(v)
		rec["key"] = v.key()
		rec["src"] = v.src()
		elems := []any{}
		switch v.T {
		case "list", "set":
			for _, x := range v.Items {
				elems = append(elems, u.find(x)+1)
			}
		case "map":
			for _, k := range v.Keys {
				elems = append(elems, u.find(vStr(k))+1)
			}
		}
		rec["elems"] = elems
		vals = append(vals, rec)
	}
	s := []any{}
	for _, i := range u.S {
		s = append(s, i+1)
	}
	return N{"n": len(u.Vals), "vals": vals, "S": s, "K": u.K, "zero": rk.rank(numOfInt(0)), "spec": u.spec()}
}

// spec: the driver-side description needed to rebuild the universe (exact ints, float bits)
func (u *Universe) spec() []any {
	var enc func(v *Val) N
	enc = func(v *Val) N {
		n := N{"t": v.T}
		switch v.T {
		case "int":
			n["i"] = strconv.FormatInt(v.I, 10)
		case "float":
			n["bits"] = strconv.FormatUint(math.Float64bits(v.F), 16)
		case "byte":
			n["b"] = int(v.B)
		case "str":
			n["s"] = v.S
		case "bool":
			n["bo"] = v.Bo
		case "error":
			n["s"] = v.S
			n["raised"] = v.Raised
			n["wraps"] = v.Wraps
			n["base"] = v.Base
		case "list", "set", "map":
			items := []any{}
			for _, x := range v.Items {
				items = append(items, enc(x))
			}
			n["items"] = items
			if v.T == "map" {
				ks := []any{}
				for _, k := range v.Keys {
					ks = append(ks, k)
				}
				n["keys"] = ks
			}
		}
		return n
	}
	out := []any{}
	for _, v := range u.Vals {
		out = append(out, enc(v))
	}
	return out
}

func decVal(n N) *Val {
	v := &Val{T: n["t"].(string)}
	switch v.T {
	case "int":
		v.I, _ = strconv.ParseInt(n["i"].(string), 10, 64)
	case "float":
		b, _ := strconv.ParseUint(n["bits"].(string), 16, 64)
		v.F = math.Float64frombits(b)
	case "byte":
		v.B = byte(n["b"].(float64))
	case "str":
		v.S = n["s"].(string)
	case "bool":
		v.Bo = n["bo"].(bool)
	case "error":
		v.S = n["s"].(string)
		v.Raised = n["raised"].(bool)
		if w, ok := n["wraps"].(bool); ok && w {
			v.Wraps, v.Base = true, n["base"].(string)
		}
	case "list", "set", "map":
		for _, x := range n["items"].([]any) {
			v.Items = append(v.Items, decVal(x.(map[string]any)))
		}
		if v.T == "map" {
			for _, k := range n["keys"].([]any) {
				v.Keys = append(v.Keys, k.(string))
			}
		}
	}
	return v
}

func loadUniverse(path string) (*Universe, error) {
	b, err := os.ReadFile(path)
	if err != nil {
		return nil, err
	}
	var j N
	if err := json.Unmarshal(b, &j); err != nil {
		return nil, err
	}
	u := &Universe{K: int(j["K"].(float64)), idx: map[string]int{}}
	for _, x := range j["spec"].([]any) {
		v := decVal(x.(map[string]any))
		u.Vals = append(u.Vals, v)
		u.idx[v.key()] = len(u.Vals) - 1
	}
	for _, x := range j["S"].([]any) {
		u.S = append(u.S, int(x.(float64))-1)
	}
	return u, nil
}

// ---------------------------------------------------------------------------
// observation on the real code

// codes: 0/1 booleans, 2 error, 3 not applicable, 6 panic/timeout/unexpected, cmp: -1/0/1 or 8 (no Compare) / 9 (error)

func b2i(b bool) int {
	if b {
		return 1
	}
	return 0
}

func guard(f func() int) (r int) {
	defer func() {
		if e := recover(); e != nil {
			r = 6
		}
	}()
	return f()
}

func boolObj(o object.Object) int {
	b, ok := o.(*object.Bool)
	if !ok {
		return 6
	}
	return b2i(b.Value())
}

func apiCompareOp(t op.CompareOpType, a, b object.Object) int {
	return guard(func() int {
		r, err := object.Compare(t, a, b)
		if err != nil {
			return 2
		}
		return boolObj(r)
	})
}

func apiPair(a, b object.Object) N {
	o := N{}
	o["eq"] = guard(func() int { return boolObj(a.Equals(b)) })
	o["eq2"] = guard(func() int { return b2i(object.Equals(a, b)) })
	o["ceq"] = apiCompareOp(op.Equal, a, b)
	o["ne"] = apiCompareOp(op.NotEqual, a, b)
	o["cmp"] = guard(func() int {
		c, ok := a.(object.Comparable)
		if !ok {
			return 8
		}
		v, err := c.Compare(b)
		if err != nil {
			return 9
		}
		if v < -1 || v > 1 {
			return 7
		}
		return v
	})
	o["lt"] = apiCompareOp(op.LessThan, a, b)
	o["le"] = apiCompareOp(op.LessThanOrEqual, a, b)
	o["gt"] = apiCompareOp(op.GreaterThan, a, b)
	o["ge"] = apiCompareOp(op.GreaterThanOrEqual, a, b)
	o["in"] = guard(func() int {
		c, ok := a.(object.Container)
		if !ok {
			return 3
		}
		return boolObj(c.Contains(b))
	})
	o["hk"] = guard(func() int {
		ha, ok1 := a.(object.Hashable)
		hb, ok2 := b.(object.Hashable)
		if !ok1 || !ok2 {
			return 3
		}
		ka, kb := ha.HashKey(), hb.HashKey()
		m := map[object.HashKey]bool{ka: true}
		_, found := m[kb]
		if found != (ka == kb) {
			return 6
		}
		// the key of a value is stable
		if ka != ha.HashKey() {
			return 6
		}
		return b2i(found)
	})
	o["set2"] = guard(func() int {
		s, ok := object.NewSet([]object.Object{a, b}).(*object.Set)
		if !ok {
			return 9
		}
		if int(s.Len().Value()) != s.Size() {
			return 6
		}
		return s.Size()
	})
	return o
}

func apiUnary(a object.Object) N {
	o := N{}
	o["truthy"] = guard(func() int { return b2i(a.IsTruthy()) })
	o["len"] = guard(func() int {
		c, ok := a.(object.Container)
		if !ok {
			return -1
		}
		return int(c.Len().Value())
	})
	_, h := a.(object.Hashable)
	o["hashable"] = b2i(h)
	_, c := a.(object.Comparable)
	o["comparable"] = b2i(c)
	return o
}

type scripter struct {
	u       *Universe
	globals map[string]any
	exprs   []string
}

func newScripter(u *Universe) *scripter {
	s := &scripter{u: u, globals: map[string]any{}}
	for i, v := range u.Vals {
		name := "g" + strconv.Itoa(i+1)
		s.globals[name] = v.obj()
		e := v.src()
		if e == "" {
			e = name
		}
		s.exprs = append(s.exprs, e)
	}
	return s
}

type sres struct {
	kind string // ok, raise, bad
	obj  object.Object
	msg  string
}

func (s *scripter) eval(src string) (res sres) {
	defer func() {
		if r := recover(); r != nil {
			res = sres{kind: "bad", msg: "gopanic: " + fmt.Sprint(r)}
		}
	}()
	ctx, cancel := context.WithTimeout(context.Background(), 5*time.Second)
	defer cancel()
	o, err := risor.Eval(ctx, src, risor.WithGlobals(s.globals))
	if err != nil {
		if ctx.Err() != nil {
			return sres{kind: "bad", msg: "timeout"}
		}
		if strings.HasPrefix(err.Error(), "panic") {
			return sres{kind: "raise", msg: err.Error()}
		}
		return sres{kind: "raise", msg: err.Error()}
	}
	return sres{kind: "ok", obj: o}
}

func (s *scripter) boolExpr(src string) int {
	r := s.eval(src)
	switch r.kind {
	case "raise":
		return 2
	case "ok":
		return boolObj(r.obj)
	}
	return 6
}

func (s *scripter) intExpr(src string, errCode int) int {
	r := s.eval(src)
	switch r.kind {
	case "raise":
		return errCode
	case "ok":
		if i, ok := r.obj.(*object.Int); ok {
			return int(i.Value())
		}
	}
	return 6
}

func (s *scripter) pair(a, b int) N {
	A, B := s.exprs[a], s.exprs[b]
	return N{
		"eq":   s.boolExpr(A + " == " + B),
		"ne":   s.boolExpr(A + " != " + B),
		"lt":   s.boolExpr(A + " < " + B),
		"le":   s.boolExpr(A + " <= " + B),
		"gt":   s.boolExpr(A + " > " + B),
		"ge":   s.boolExpr(A + " >= " + B),
		"in":   s.boolExpr(B + " in " + A),
		"nin":  s.boolExpr(B + " not in " + A),
		"set2": s.intExpr("len({"+A+", "+B+"})", 9),
	}
}

func (s *scripter) unary(a int) N {
	A := s.exprs[a]
	return N{
		"truthy": s.boolExpr("bool(" + A + ")"),
		"not":    s.boolExpr("!" + A),
		"cond":   s.boolExpr("if " + A + " { true } else { false }"),
		"len":    s.intExpr("len("+A+")", -1),
	}
}

// literal check: the script text of a value denotes exactly that value
func (s *scripter) literalOK(a int) string {
	if okey(s.u.Vals[a].obj()) != s.u.Vals[a].key() {
		return "materialised object differs: " + okey(s.u.Vals[a].obj())
	}
	if s.u.Vals[a].src() == "" {
		return ""
	}
	r := s.eval(s.exprs[a])
	if r.kind != "ok" {
		return "script text " + s.exprs[a] + " fails: " + r.msg
	}
	if okey(r.obj) != s.u.Vals[a].key() {
		return "script text " + s.exprs[a] + " denotes " + okey(r.obj) + " instead of " + s.u.Vals[a].key()
	}
	return ""
}

func (u *Universe) indicesOf(items []object.Object) []any {
	out := []any{}
	for _, it := range items {
		i, ok := u.idx[okey(it)]
		if !ok {
			out = append(out, 0)
		} else {
			out = append(out, i+1)
		}
	}
	return out
}

func sortObs(u *Universe, items []object.Object) (res N, sorted []object.Object) {
	cp := make([]object.Object, len(items))
	copy(cp, items)
	func() {
		defer func() {
			if e := recover(); e != nil {
				res = N{"ok": 0, "panic": 1}
			}
		}()
		if err := object.Sort(cp); err != nil {
			res = N{"ok": 0}
		}
	}()
	if res != nil {
		return res, nil
	}
	return N{"ok": 1, "v": u.indicesOf(cp)}, cp
}

func apiSeq(u *Universe, xs []int) N {
	items := make([]object.Object, len(xs))
	for i, x := range xs {
		items[i] = u.Vals[x].obj()
	}
	o := N{}
	s1, sorted := sortObs(u, items)
	o["sorted"] = s1
	if sorted != nil {
		o["sorted2"], _ = sortObs(u, sorted)
	} else {
		o["sorted2"] = N{"ok": 0}
	}
	// input untouched by Sort on a copy
	func() {
		defer func() {
			if e := recover(); e != nil {
				o["set"] = N{"ok": 0, "panic": 1}
			}
		}()
		so := object.NewSet(items)
		set, ok := so.(*object.Set)
		if !ok {
			o["set"] = N{"ok": 0}
			return
		}
		mem := []any{}
		for _, p := range u.S {
			mem = append(mem, boolObj(set.Contains(u.Vals[p].obj())))
		}
		o["set"] = N{"ok": 1, "n": set.Size(), "truthy": b2i(set.IsTruthy()), "mem": mem}
	}()
	func() {
		defer func() {
			if e := recover(); e != nil {
				o["list"] = N{"ok": 0, "panic": 1}
			}
		}()
		l := object.NewList(items)
		mem := []any{}
		for _, p := range u.S {
			mem = append(mem, boolObj(l.Contains(u.Vals[p].obj())))
		}
		o["list"] = N{"ok": 1, "n": int(l.Len().Value()), "truthy": b2i(l.IsTruthy()), "mem": mem}
	}()
	return o
}

func (s *scripter) seq(xs []int) N {
	parts := make([]string, len(xs))
	for i, x := range xs {
		parts[i] = s.exprs[x]
	}
	lst := "[" + strings.Join(parts, ", ") + "]"
	set := "{" + strings.Join(parts, ", ") + "}"
	if len(xs) == 0 {
		set = "set()"
	}
	o := N{}
	sorted := func(src string) N {
		r := s.eval(src)
		if r.kind == "raise" {
			return N{"ok": 0}
		}
		if r.kind == "ok" {
			if l, ok := r.obj.(*object.List); ok {
				return N{"ok": 1, "v": s.u.indicesOf(l.Value())}
			}
		}
		return N{"ok": 0, "panic": 1}
	}
	o["sorted"] = sorted("sorted(" + lst + ")")
	o["sorted2"] = sorted("sorted(sorted(" + lst + "))")
	probes := make([]string, len(s.u.S))
	for i, p := range s.u.S {
		probes[i] = s.exprs[p] + " in c"
	}
	cont := func(lit string) N {
		r := s.eval("c := " + lit + "\n[len(c), bool(c), " + strings.Join(probes, ", ") + "]")
		if r.kind == "raise" {
			return N{"ok": 0}
		}
		if r.kind == "ok" {
			if l, ok := r.obj.(*object.List); ok && len(l.Value()) == 2+len(probes) {
				n, ok1 := l.Value()[0].(*object.Int)
				if ok1 {
					mem := []any{}
					for _, x := range l.Value()[2:] {
						mem = append(mem, boolObj(x))
					}
					return N{"ok": 1, "n": int(n.Value()), "truthy": boolObj(l.Value()[1]), "mem": mem}
				}
			}
		}
		return N{"ok": 0, "panic": 1}
	}
	o["set"] = cont(set)
	o["list"] = cont(lst)
	return o
}

// ---------------------------------------------------------------------------
// worker

var (
	wOnce sync.Once
	wU    *Universe
	wS    *scripter
	wObjs []object.Object
)

func wInit(path string) {
	wOnce.Do(func() {
		u, err := loadUniverse(path)
		if err != nil {
			fmt.Fprintln(os.Stderr, "load universe:", err)
			os.Exit(3)
		}
		wU = u
		wS = newScripter(u)
		for _, v := range u.Vals {
			wObjs = append(wObjs, v.obj())
		}
	})
}

func ints(x any) []int {
	out := []int{}
	for _, v := range x.([]any) {
		out = append(out, int(v.(float64)))
	}
	return out
}

// request kinds: row {a} -> all pairs (a, b); un {a}; seqs {xs: [[...]]}; pairs {ps: [[a,b]]}
func worker(req N) N {
	wInit(req["u"].(string))
	switch req["k"].(string) {
	case "row":
		a := int(req["a"].(float64))
		api, scr := []any{}, []any{}
		for b := range wU.Vals {
			// fresh objects for a and b: no state shared between observations
			api = append(api, apiPair(wU.Vals[a].obj(), wU.Vals[b].obj()))
			scr = append(scr, wS.pair(a, b))
		}
		return N{"k": "ok", "api": api, "scr": scr, "un_api": apiUnary(wU.Vals[a].obj()), "un_scr": wS.unary(a),
			"lit": wS.literalOK(a)}
	case "pairs":
		api, scr := []any{}, []any{}
		for _, p := range req["ps"].([]any) {
			ab := ints(p)
			api = append(api, apiPair(wU.Vals[ab[0]].obj(), wU.Vals[ab[1]].obj()))
			scr = append(scr, wS.pair(ab[0], ab[1]))
		}
		return N{"k": "ok", "api": api, "scr": scr}
	case "un":
		a := int(req["a"].(float64))
		return N{"k": "ok", "un_api": apiUnary(wU.Vals[a].obj()), "un_scr": wS.unary(a)}
	case "seqs":
		api, scr := []any{}, []any{}
		for _, x := range req["xs"].([]any) {
			xs := ints(x)
			api = append(api, apiSeq(wU, xs))
			scr = append(scr, wS.seq(xs))
		}
		return N{"k": "ok", "api": api, "scr": scr}
	}
	return N{"k": "badreq"}
}

// ---------------------------------------------------------------------------
// commands

func die(f string, a ...any) {
	fmt.Fprintf(os.Stderr, f+"\n", a...)
	os.Exit(1)
}

func writeJSON(path string, v any) {
	b, err := json.Marshal(v)
	if err != nil {
		die("marshal: %v", err)
	}
	if err := os.WriteFile(path, b, 0o644); err != nil {
		die("write: %v", err)
	}
}

func cmdUniverse(args []string) {
	fs := flag.NewFlagSet("universe", flag.ExitOnError)
	kind := fs.String("kind", "U", "U or V")
	seed := fs.Int64("seed", 1, "")
	n := fs.Int("n", 120, "size of V")
	k := fs.Int("k", 3, "max length of sort/set inputs")
	thorough := fs.Bool("thorough", false, "larger sub-universe")
	out := fs.String("out", "", "")
	fs.Parse(args)
	var u *Universe
	if *kind == "U" {
		u = universeU(*k, *thorough)
	} else {
		u = universeV(*seed, *n, *k)
	}
	writeJSON(*out, u.json())
	fmt.Printf("universe %s: %d values, sub-universe %d, K=%d\n", *kind, len(u.Vals), len(u.S), u.K)
}

// allSeqs enumerates every sequence of length <= k over s in a fixed order
func allSeqs(s []int, k int) [][]int {
	out := [][]int{{}}
	level := [][]int{{}}
	for l := 1; l <= k; l++ {
		var next [][]int
		for _, p := range level {
			for _, x := range s {
				q := append(append([]int{}, p...), x)
				next = append(next, q)
			}
		}
		out = append(out, next...)
		level = next
	}
	return out
}

func randSeqs(u *Universe, r *rand.Rand, n int) [][]int {
	fam := map[string][]int{}
	for _, i := range u.S {
		t := u.Vals[i].T
		if t == "int" || t == "float" || t == "byte" {
			t = "num"
		}
		fam[t] = append(fam[t], i)
	}
	// numeric-only lists form their own family so that sorting lists is exercised too
	for _, i := range fam["list"] {
		ok := true
		for _, x := range u.Vals[i].Items {
			if x.T != "int" && x.T != "float" && x.T != "byte" {
				ok = false
			}
		}
		if ok {
			fam["numlist"] = append(fam["numlist"], i)
		}
	}
	names := []string{"num", "num", "num", "str", "numlist", "list", "any"}
	fam["any"] = u.S
	out := [][]int{}
	seen := map[string]bool{}
	for tries := 0; len(out) < n && tries < 20*n; tries++ {
		pool := fam[names[r.Intn(len(names))]]
		if len(pool) == 0 {
			continue
		}
		l := r.Intn(u.K + 1)
		// every fourth input is long (library sorts switch algorithm above a dozen elements) and drawn from
		// a handful of values, so that it is full of ties between equal but distinguishable items
		if tries%4 == 3 {
			l = 13 + r.Intn(28)
			few := make([]int, 2+r.Intn(4))
			for i := range few {
				few[i] = pool[r.Intn(len(pool))]
			}
			pool = few
		}
		xs := make([]int, l)
		for i := range xs {
			xs[i] = pool[r.Intn(len(pool))]
			// ties: repeat a value of an earlier position's numeric class now and then
		}
		k := fmt.Sprint(xs)
		if seen[k] {
			continue
		}
		seen[k] = true
		out = append(out, xs)
	}
	return out
}

func plus1(xs []int) []any {
	out := []any{}
	for _, x := range xs {
		out = append(out, x+1)
	}
	return out
}

func mapPool(reqs []N, workers int) []N {
	pool := run.NewPool("values", workers)
	resps := pool.Map(reqs, 600*time.Second)
	for i, r := range resps {
		if r["k"] != "ok" {
			b, _ := json.Marshal(r)
			die("worker failed on request %d: %s", i, string(b)[:min(len(b), 800)])
		}
	}
	return resps
}

func cmdEval(args []string) {
	fs := flag.NewFlagSet("eval", flag.ExitOnError)
	upath := fs.String("u", "", "universe json")
	casesPath := fs.String("cases", "", "ndjson of cases")
	obsPath := fs.String("obs", "", "observed relations (json)")
	nseq := fs.Int("nseq", -1, "number of random sort/set inputs (-1: all sequences of length <= K over S)")
	seed := fs.Int64("seed", 1, "")
	workers := fs.Int("workers", runtime.NumCPU(), "")
	fs.Parse(args)
	u, err := loadUniverse(*upath)
	if err != nil {
		die("universe: %v", err)
	}
	n := len(u.Vals)
	var reqs []N
	for a := 0; a < n; a++ {
		reqs = append(reqs, N{"k": "row", "u": *upath, "a": a})
	}
	var seqs [][]int
	if *nseq < 0 {
		seqs = allSeqs(u.S, u.K)
	} else {
		seqs = randSeqs(u, rand.New(rand.NewSource(*seed)), *nseq)
	}
	const block = 40
	for i := 0; i < len(seqs); i += block {
		j := min(i+block, len(seqs))
		xs := []any{}
		for _, s := range seqs[i:j] {
			x := []any{}
			for _, v := range s {
				x = append(x, v)
			}
			xs = append(xs, x)
		}
		reqs = append(reqs, N{"k": "seqs", "u": *upath, "xs": xs})
	}
	resps := mapPool(reqs, *workers)

	fields := []string{"eq", "eq2", "ceq", "ne", "cmp", "lt", "le", "gt", "ge", "in", "hk", "set2"}
	sfields := []string{"eq", "ne", "lt", "le", "gt", "ge", "in", "nin", "set2"}
	mat := func(src string, fs []string) N {
		m := N{}
		for _, f := range fs {
			rows := make([]any, n)
			for a := 0; a < n; a++ {
				row := make([]any, n)
				for b := 0; b < n; b++ {
					row[b] = resps[a][src].([]any)[b].(map[string]any)[f]
				}
				rows[a] = row
			}
			m[f] = rows
		}
		return m
	}
	api, scr := mat("api", fields), mat("scr", sfields)
	vec := func(src string, f string) []any {
		out := make([]any, n)
		for a := 0; a < n; a++ {
			out[a] = resps[a][src].(map[string]any)[f]
		}
		return out
	}
	for _, f := range []string{"truthy", "len", "hashable", "comparable"} {
		api[f] = vec("un_api", f)
	}
	for _, f := range []string{"truthy", "not", "cond", "len"} {
		scr[f] = vec("un_scr", f)
	}
	for a := 0; a < n; a++ {
		if msg := resps[a]["lit"].(string); msg != "" {
			die("value %d: %s", a+1, msg)
		}
	}
	writeJSON(*obsPath, N{"n": n, "api": api, "scr": scr})

	var cases []N
	id := 0
	for a := 0; a < n; a++ {
		for b := 0; b < n; b++ {
			id++
			cases = append(cases, N{"id": id, "k": "pair", "a": a + 1, "b": b + 1, "xs": []any{},
				"api": resps[a]["api"].([]any)[b], "scr": resps[a]["scr"].([]any)[b]})
		}
	}
	for a := 0; a < n; a++ {
		id++
		cases = append(cases, N{"id": id, "k": "un", "a": a + 1, "b": a + 1, "xs": []any{},
			"api": resps[a]["un_api"], "scr": resps[a]["un_scr"]})
	}
	ri := n
	for i := 0; i < len(seqs); i += block {
		j := min(i+block, len(seqs))
		for k, s := range seqs[i:j] {
			id++
			cases = append(cases, N{"id": id, "k": "seq", "a": 0, "b": 0, "xs": plus1(s),
				"api": resps[ri]["api"].([]any)[k], "scr": resps[ri]["scr"].([]any)[k]})
		}
		ri++
	}
	if err := run.WriteNDJSON(*casesPath, cases); err != nil {
		die("write cases: %v", err)
	}
	fmt.Printf("observed %d pairs, %d values, %d sort/set inputs\n", n*n, n, len(seqs))
}

func cmdReplay(args []string) {
	fs := flag.NewFlagSet("replay", flag.ExitOnError)
	upath := fs.String("u", "", "universe json")
	in := fs.String("in", "", "cases to re-observe")
	out := fs.String("out", "", "")
	fs.Parse(args)
	cases, err := run.ReadNDJSON(*in)
	if err != nil {
		die("read: %v", err)
	}
	var reqs []N
	for _, c := range cases {
		switch c["k"].(string) {
		case "pair":
			reqs = append(reqs, N{"k": "pairs", "u": *upath, "ps": []any{[]any{c["a"].(float64) - 1, c["b"].(float64) - 1}}})
		case "un":
			reqs = append(reqs, N{"k": "un", "u": *upath, "a": c["a"].(float64) - 1})
		case "seq":
			xs := []any{}
			for _, x := range c["xs"].([]any) {
				xs = append(xs, x.(float64)-1)
			}
			reqs = append(reqs, N{"k": "seqs", "u": *upath, "xs": []any{xs}})
		}
	}
	resps := mapPool(reqs, 4)
	var outc []N
	for i, c := range cases {
		r := resps[i]
		o := N{"id": c["id"], "k": c["k"], "a": c["a"], "b": c["b"], "xs": c["xs"]}
		if c["k"] == "un" {
			o["api"], o["scr"] = r["un_api"], r["un_scr"]
		} else {
			o["api"], o["scr"] = r["api"].([]any)[0], r["scr"].([]any)[0]
		}
		outc = append(outc, o)
	}
	if err := run.WriteNDJSON(*out, outc); err != nil {
		die("write: %v", err)
	}
}

func main() {
	run.Register("values", worker)
	run.MaybeWorker()
	if len(os.Args) < 2 {
		die("usage: values universe|eval|replay ...")
	}
	switch os.Args[1] {
	case "universe":
		cmdUniverse(os.Args[2:])
	case "eval":
		cmdEval(os.Args[2:])
	case "replay":
		cmdReplay(os.Args[2:])
	default:
		die("unknown command %s", os.Args[1])
	}
}
