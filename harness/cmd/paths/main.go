// paths: C13 driver (rooted filesystems and mounts cannot be escaped).
//
//	paths tree   -work DIR -out tree.json
//	    build the host tree once and dump the entries below the host root H
//	paths replay -in cases.ndjson -out obs.ndjson -work DIR [-fsmax N] [-j N] [-shards K]
//	    replay every path string against the real code and record what was observed:
//	      rp   os.ResolvePath(base, path) for the literal bases "/", "/tmp", "/tmp/a"
//	      vos  a VirtualOS whose mounts are recording filesystems: the (mount, relative
//	           path) every FS method hands to a mount, or refusal
//	      mt   VirtualOS.MkdirTemp("", path-as-pattern): the relative path handed to the mount
//	      fs   a real localfs.Filesystem rooted inside a temp tree with sentinel entries
//	           outside the base: per method the host paths read or changed
//	paths gen    -seed S -n K -out cases.ndjson
//	    random odd / Unicode path strings (leg V) with their segment classes
//
// A case row is {id, abs, trail, segs[, str]}: the path string is str (code points) when
// present, else ("/" if abs) + join(segs, "/") + ("/" if trail).  The driver never judges:
// PathsCheck.tla compares the observations with the expectation of Paths.tla.
package main

import (
	"bufio"
	"bytes"
	"context"
	"encoding/json"
	"flag"
	"fmt"
	"io"
	"io/fs"
	"math/rand"
	"os"
	"path/filepath"
	"regexp"
	"runtime"
	"sort"
	"strings"
	"sync"
	"syscall"

	ros "github.com/risor-io/risor/os"
	"github.com/risor-io/risor/os/localfs"

	"verifharness/run"
)

type N = map[string]any

func die(f string, a ...any) {
	fmt.Fprintf(os.Stderr, f+"\n", a...)
	os.Exit(2)
}

func segsOf(v any) []string {
	out := []string{}
	if l, ok := v.([]any); ok {
		for _, x := range l {
			out = append(out, x.(string))
		}
	}
	return out
}

func pathString(c N) string {
	if cp, ok := c["str"].([]any); ok {
		rs := make([]rune, len(cp))
		for i, x := range cp {
			rs[i] = rune(int(x.(float64)))
		}
		return string(rs)
	}
	s := strings.Join(segsOf(c["segs"]), "/")
	if c["abs"].(bool) {
		s = "/" + s
	}
	if c["trail"].(bool) {
		s += "/"
	}
	return s
}

// split a slash path into its non-empty components ("." and ".." are kept: the
// specification then sees that the implementation produced them)
func comps(s string) []string {
	out := []string{}
	for _, x := range strings.Split(s, "/") {
		if x != "" {
			out = append(out, x)
		}
	}
	return out
}

func locString(segs []string) string { return "/" + strings.Join(segs, "/") }

var baseSegs = [][]string{{}, {"tmp"}, {"tmp", "a"}}
var mountSets = [][][]string{{{}}, {{"tmp"}}, {{"tmp", "a"}}, {{"tmp"}, {"tmp", "a"}}, {{"a"}, {"ab"}},
	{{}, {"tmp"}}, {{}, {"tmp", "a"}, {"a"}}}

// ------------------------------------------------------------------ leg rp

func legResolvePath(path string) []any {
	out := []any{}
	for _, b := range baseSegs {
		r := N{"ok": false, "abs": false, "segs": []string{}}
		func() {
			defer func() {
				if x := recover(); x != nil {
					r["ok"], r["abs"], r["segs"] = true, false, []string{outTag, "panic"}
				}
			}()
			res, err := ros.ResolvePath(locString(b), path, "verif")
			if err != nil {
				return
			}
			r["ok"] = true
			r["abs"] = strings.HasPrefix(res, "/")
			r["segs"] = comps(res)
			if len(b) == 0 && res == "." { // unrooted: Clean's spelling of the empty relative path
				r["segs"] = []string{}
			}
		}()
		out = append(out, r)
	}
	return out
}

// ------------------------------------------------------------------ leg vos

type recCall struct {
	mount  string
	method string
	arg    string
	argi   int
}

type recFS struct {
	name string
	log  *[]recCall
}

func (r *recFS) rec(method string, args ...string) {
	for i, a := range args {
		*r.log = append(*r.log, recCall{r.name, method, a, i + 1})
	}
}

type eofFile struct{ ros.NilFile }

func (eofFile) Read([]byte) (int, error) { return 0, io.EOF }

func (r *recFS) Create(name string) (ros.File, error) { r.rec("cr", name); return &eofFile{}, nil }
func (r *recFS) Mkdir(name string, perm ros.FileMode) error {
	r.rec("mk", name)
	return nil
}
func (r *recFS) MkdirAll(path string, perm ros.FileMode) error { r.rec("ma", path); return nil }
func (r *recFS) Open(name string) (ros.File, error)            { r.rec("op", name); return &eofFile{}, nil }
func (r *recFS) OpenFile(name string, flag int, perm ros.FileMode) (ros.File, error) {
	r.rec("of", name)
	return &eofFile{}, nil
}
func (r *recFS) ReadFile(name string) ([]byte, error) { r.rec("rf", name); return nil, nil }
func (r *recFS) Remove(name string) error             { r.rec("rm", name); return nil }
func (r *recFS) RemoveAll(path string) error          { r.rec("ra", path); return nil }
func (r *recFS) Rename(o, n string) error             { r.rec("rn", o, n); return nil }
func (r *recFS) Stat(name string) (ros.FileInfo, error) {
	r.rec("st", name)
	return ros.NewFileInfo(ros.GenericFileInfoOpts{Name: "x"}), nil
}
func (r *recFS) Symlink(o, n string) error { r.rec("sl", o, n); return nil }
func (r *recFS) WriteFile(name string, data []byte, perm ros.FileMode) error {
	r.rec("wf", name)
	return nil
}
func (r *recFS) ReadDir(name string) ([]ros.DirEntry, error) { r.rec("rd", name); return nil, nil }
func (r *recFS) WalkDir(root string, fn ros.WalkDirFunc) error {
	r.rec("wd", root)
	return nil
}

var _ ros.FS = (*recFS)(nil)

type vosOp struct {
	code string
	call func(v *ros.VirtualOS, p string) error
}

var vosOps = []vosOp{
	{"cr", func(v *ros.VirtualOS, p string) error { _, e := v.Create(p); return e }},
	{"mk", func(v *ros.VirtualOS, p string) error { return v.Mkdir(p, 0o755) }},
	{"ma", func(v *ros.VirtualOS, p string) error { return v.MkdirAll(p, 0o755) }},
	{"op", func(v *ros.VirtualOS, p string) error { _, e := v.Open(p); return e }},
	{"of", func(v *ros.VirtualOS, p string) error { _, e := v.OpenFile(p, ros.O_RDONLY, 0); return e }},
	{"rf", func(v *ros.VirtualOS, p string) error { _, e := v.ReadFile(p); return e }},
	{"rm", func(v *ros.VirtualOS, p string) error { return v.Remove(p) }},
	{"ra", func(v *ros.VirtualOS, p string) error { return v.RemoveAll(p) }},
	{"rn", func(v *ros.VirtualOS, p string) error { return v.Rename(p, p) }},
	{"st", func(v *ros.VirtualOS, p string) error { _, e := v.Stat(p); return e }},
	{"sl", func(v *ros.VirtualOS, p string) error { return v.Symlink(p, p) }},
	{"wf", func(v *ros.VirtualOS, p string) error { return v.WriteFile(p, []byte("x"), 0o644) }},
	{"rd", func(v *ros.VirtualOS, p string) error { _, e := v.ReadDir(p); return e }},
	{"wd", func(v *ros.VirtualOS, p string) error {
		return v.WalkDir(p, func(string, fs.DirEntry, error) error { return nil })
	}},
}

// one entry per (mount table, cwd); equal observations of different methods are grouped
func legVirtualOS(path string) []any {
	out := []any{}
	for mi, ms := range mountSets {
		for ci, cwd := range baseSegs {
			var log []recCall
			mounts := map[string]*ros.Mount{}
			byName := map[string][]string{}
			for _, m := range ms {
				t := locString(m)
				mounts[t] = &ros.Mount{Source: &recFS{name: t, log: &log}, Target: t, Type: "rec"}
				byName[t] = m
			}
			v := ros.NewVirtualOS(context.Background(), ros.WithMounts(mounts), ros.WithCwd(locString(cwd)))
			if len(cwd) > 0 && (len(path)+mi)%2 == 0 {
				// the same working directory reached by a RELATIVE change of directory from its parent
				v = ros.NewVirtualOS(context.Background(), ros.WithMounts(mounts), ros.WithCwd(locString(cwd[:len(cwd)-1])))
				_ = v.Chdir(cwd[len(cwd)-1])
			}
			groups := map[string]N{}
			counts := map[string]int{}
			order := []string{}
			add := func(ok, silent bool, m []string, rel []string, code string) {
				k := fmt.Sprint(ok, silent, m, "|", strings.Join(rel, "\x00"))
				if _, seen := groups[k]; !seen {
					groups[k] = N{"ok": ok, "si": silent, "m": m, "rel": rel, "by": code}
					order = append(order, k)
				}
				counts[k]++
			}
			for _, op := range vosOps {
				log = log[:0]
				var err error
				pan := false
				func() {
					defer func() {
						if x := recover(); x != nil {
							pan = true
						}
					}()
					err = op.call(v, path)
				}()
				if pan || len(log) == 0 {
					// refusal; "si": not a proper refusal (no error reported, or a Go panic)
					add(false, pan || err == nil, []string{}, []string{}, op.code)
					continue
				}
				for _, c := range log {
					code := op.code
					if op.code == "rn" || op.code == "sl" {
						code = fmt.Sprintf("%s%d", op.code, c.argi)
					}
					add(true, false, byName[c.mount], comps(c.arg), code)
				}
			}
			outs := []any{}
			for _, k := range order {
				g := groups[k]
				g["by"] = fmt.Sprintf("%s*%d", g["by"], counts[k])
				outs = append(outs, g)
			}
			out = append(out, N{"ms": mi + 1, "cwd": ci + 1, "outs": outs})
		}
	}
	// the same with the working directory CHANGED in between: every operation is tried under cwd c1, then the
	// virtual OS moves to c2 and every operation is tried again; what the second round does is judged for c2
	// (a path text resolved once must not stay resolved for the old directory)
	if !strings.HasPrefix(path, "/") {
		for mi, ms := range mountSets {
			for c1, cwd1 := range baseSegs {
				for c2, cwd2 := range baseSegs {
					if c1 == c2 {
						continue
					}
					var log []recCall
					mounts := map[string]*ros.Mount{}
					byName := map[string][]string{}
					for _, m := range ms {
						t := locString(m)
						mounts[t] = &ros.Mount{Source: &recFS{name: t, log: &log}, Target: t, Type: "rec"}
						byName[t] = m
					}
					v := ros.NewVirtualOS(context.Background(), ros.WithMounts(mounts), ros.WithCwd(locString(cwd1)))
					for _, op := range vosOps {
						func() {
							defer func() { recover() }()
							op.call(v, path)
						}()
					}
					if err := v.Chdir(locString(cwd2)); err != nil {
						continue
					}
					outs := []any{}
					for _, op := range vosOps {
						log = log[:0]
						var err error
						pan := false
						func() {
							defer func() {
								if x := recover(); x != nil {
									pan = true
								}
							}()
							err = op.call(v, path)
						}()
						if pan || len(log) == 0 {
							outs = append(outs, N{"ok": false, "si": pan || err == nil, "m": []string{}, "rel": []string{}, "by": op.code + "@chdir"})
							continue
						}
						for _, c := range log {
							outs = append(outs, N{"ok": true, "si": false, "m": byName[c.mount], "rel": comps(c.arg), "by": op.code + "@chdir"})
						}
					}
					out = append(out, N{"ms": mi + 1, "cwd": c2 + 1, "outs": outs})
				}
			}
		}
	}
	return out
}

// two-path operations with the arguments in (possibly) different mounts: the script path is paired with
// an anchor inside each mount, in both argument positions.  One entry per (mount table, cwd, anchor,
// position, method): which mount was called and with which two relative paths.
func legVirtualOS2(path string) []any {
	out := []any{}
	type op2 struct {
		code string
		call func(v *ros.VirtualOS, a, b string) error
	}
	ops := []op2{
		{"rn", func(v *ros.VirtualOS, a, b string) error { return v.Rename(a, b) }},
		{"sl", func(v *ros.VirtualOS, a, b string) error { return v.Symlink(a, b) }},
	}
	for mi, ms := range mountSets {
		for ci, cwd := range baseSegs {
			var log []recCall
			mounts := map[string]*ros.Mount{}
			byName := map[string][]string{}
			for _, m := range ms {
				t := locString(m)
				mounts[t] = &ros.Mount{Source: &recFS{name: t, log: &log}, Target: t, Type: "rec"}
				byName[t] = m
			}
			v := ros.NewVirtualOS(context.Background(), ros.WithMounts(mounts), ros.WithCwd(locString(cwd)))
			for _, m := range ms {
				anchor := append(append([]string{}, m...), "zk")
				for _, first := range []bool{true, false} {
					for _, op := range ops {
						log = log[:0]
						var err error
						pan := false
						func() {
							defer func() {
								if x := recover(); x != nil {
									pan = true
								}
							}()
							if first {
								err = op.call(v, locString(anchor), path)
							} else {
								err = op.call(v, path, locString(anchor))
							}
						}()
						o := N{"ms": mi + 1, "cwd": ci + 1, "an": anchor, "first": first, "op": op.code,
							"ok": false, "si": false, "m": []string{}, "r1": []string{}, "r2": []string{}}
						if pan || len(log) != 2 || log[0].mount != log[1].mount {
							o["si"] = pan || err == nil || len(log) != 0
						} else {
							o["ok"] = true
							o["m"] = byName[log[0].mount]
							for _, c := range log {
								o[fmt.Sprintf("r%d", c.argi)] = comps(c.arg)
							}
						}
						out = append(out, o)
					}
				}
			}
		}
	}
	return out
}

// VirtualOS.MkdirTemp("", pattern): the script-supplied pattern becomes part of the path handed
// to the mount of the temporary directory.  Components are reported as ".", ".." or "x".
func legMkdirTemp(pattern string) []any {
	out := []any{}
	for _, ms := range [][][]string{{{"tmp"}}, {{}}} {
		var log []recCall
		mounts := map[string]*ros.Mount{}
		byName := map[string][]string{}
		for _, m := range ms {
			t := locString(m)
			mounts[t] = &ros.Mount{Source: &recFS{name: t, log: &log}, Target: t, Type: "rec"}
			byName[t] = m
		}
		v := ros.NewVirtualOS(context.Background(), ros.WithMounts(mounts), ros.WithTmp("/tmp"))
		o := N{"ok": false, "si": false, "m": []string{}, "rel": []string{}}
		func() {
			defer func() {
				if x := recover(); x != nil {
					o["si"] = true
				}
			}()
			_, err := v.MkdirTemp("", pattern)
			if len(log) == 0 {
				o["si"] = err == nil
				return
			}
			rel := comps(log[0].arg)
			for i, c := range rel {
				if c != "." && c != ".." {
					rel[i] = "x"
				}
			}
			o["ok"], o["m"], o["rel"] = true, byName[log[0].mount], rel
		}()
		out = append(out, o)
	}
	return out
}

// ------------------------------------------------------------------ leg fs: the host tree
//
//	U/                         universe: everything below is watched
//	U/o1/o2/host/              H, the host root the bases live under (bases: H, H/tmp, H/tmp/a)
//	entries outside H (and, for a deeper base, entries of H outside the base) are sentinels

const outTag = "<OUT>"

type entry struct {
	rel  string // relative to U
	dir  bool
	data string
}

type sig struct {
	mode uint32
	ino  uint64
	size int64
	mt   int64
	link string
}

type world struct {
	u       string // universe root
	h       string // host root
	hrel    string
	base    map[string]sig
	inoRel  map[uint64]string
	marker  map[string]string // marker file name -> rel of its directory
	entries map[string]entry
	fds     map[string]dirFD
	dbuf    []byte
	names   []string
}

var hostDirs = []string{"", "a", "a..", "ab", "tmp", "tmp/a", "tmp/a..", "tmp/a/a", "tmpfoo"}
var hostFileDirs = []string{"", "a", "tmp", "tmp/a", "tmp/a/a", "tmpfoo"}

func treeEntries() []entry {
	var es []entry
	nm := 0
	odir := func(rel string) { es = append(es, entry{rel: rel, dir: true}) }
	dir := func(rel string) {
		es = append(es, entry{rel: rel, dir: true})
		nm++
		es = append(es, entry{rel: filepath.Join(rel, fmt.Sprintf(".m%d", nm)), data: "M"})
	}
	file := func(rel string) { es = append(es, entry{rel: rel, data: "F:" + rel}) }
	// outside H: the same names a confined path could be tricked into reaching
	// (an unmarked directory that is listed shows up as "unknown-directory")
	file("b")
	odir("o1")
	file("o1/b")
	odir("o1/o2")
	file("o1/o2/b")
	odir("o1/o2/a")
	file("o1/o2/a/b")
	file("o1/o2/..a")
	odir("o1/o2/tmp")
	file("o1/o2/tmp/b")
	odir("o1/o2/hostx")
	file("o1/o2/hostx/b")
	for _, d := range hostDirs {
		dir(filepath.Join("o1/o2/host", d))
	}
	for _, d := range hostFileDirs {
		file(filepath.Join("o1/o2/host", d, "b"))
		file(filepath.Join("o1/o2/host", d, "..a"))
	}
	return es
}

func newWorld(u string) *world {
	w := &world{u: u, hrel: "o1/o2/host", fds: map[string]dirFD{}, dbuf: make([]byte, 16384)}
	w.h = filepath.Join(u, w.hrel)
	w.rebuild()
	return w
}

func (w *world) rebuild() {
	w.closeFDs()
	ents, _ := os.ReadDir(w.u)
	for _, e := range ents {
		os.RemoveAll(filepath.Join(w.u, e.Name()))
	}
	if err := os.MkdirAll(w.u, 0o755); err != nil {
		die("mkdir %s: %v", w.u, err)
	}
	w.marker = map[string]string{}
	w.entries = map[string]entry{}
	for _, e := range treeEntries() {
		w.entries[filepath.Clean(e.rel)] = e
		p := filepath.Join(w.u, e.rel)
		var err error
		if e.dir {
			err = os.MkdirAll(p, 0o755)
		} else {
			err = os.WriteFile(p, []byte(e.data), 0o644)
			if e.data == "M" {
				w.marker[filepath.Base(e.rel)] = filepath.Dir(e.rel)
			}
		}
		if err != nil {
			die("build tree: %v", err)
		}
	}
	w.base = w.snapshot()
	w.inoRel = map[uint64]string{}
	for rel, s := range w.base {
		w.inoRel[s.ino] = rel
	}
}

type dirFD struct {
	fd  int
	ino uint64
}

// list a directory through a cached descriptor (raw getdents: this runs after every operation)
func (w *world) list(rel, full string, ino uint64) []string {
	d, ok := w.fds[rel]
	if ok && d.ino != ino {
		syscall.Close(d.fd)
		ok = false
	}
	if !ok {
		fd, err := syscall.Open(full, syscall.O_RDONLY|syscall.O_DIRECTORY|syscall.O_CLOEXEC, 0)
		if err != nil {
			die("snapshot: open %s: %v", full, err) // an unreliable observation is never reported
		}
		d = dirFD{fd, ino}
		w.fds[rel] = d
	} else if _, err := syscall.Seek(d.fd, 0, 0); err != nil {
		die("snapshot: seek %s: %v", full, err)
	}
	names := w.names[:0]
	for {
		n, err := syscall.ReadDirent(d.fd, w.dbuf)
		if err != nil {
			die("snapshot: read %s: %v", full, err)
		}
		if n <= 0 {
			break
		}
		_, _, names = syscall.ParseDirent(w.dbuf[:n], -1, names)
	}
	w.names = names
	return names
}

func (w *world) closeFDs() {
	for k, d := range w.fds {
		syscall.Close(d.fd)
		delete(w.fds, k)
	}
}

func (w *world) snapshot() map[string]sig {
	m := make(map[string]sig, 96)
	var st syscall.Stat_t
	if err := syscall.Lstat(w.u, &st); err != nil {
		return m
	}
	m["."] = sig{mode: st.Mode & syscall.S_IFMT, ino: st.Ino}
	type item struct {
		rel string
		ino uint64
	}
	stack := []item{{"", st.Ino}}
	for len(stack) > 0 {
		it := stack[len(stack)-1]
		stack = stack[:len(stack)-1]
		dir := w.u
		if it.rel != "" {
			dir = w.u + "/" + it.rel
		}
		for _, name := range w.list(it.rel, dir, it.ino) {
			r := name
			if it.rel != "" {
				r = it.rel + "/" + name
			}
			full := dir + "/" + name
			if err := syscall.Lstat(full, &st); err != nil {
				die("snapshot: lstat %s: %v", full, err)
			}
			s := sig{mode: st.Mode & syscall.S_IFMT, ino: st.Ino}
			switch st.Mode & syscall.S_IFMT {
			case syscall.S_IFDIR: // a directory changes when an entry changes; the entry is reported
				stack = append(stack, item{r, st.Ino})
			case syscall.S_IFLNK:
				s.link, _ = os.Readlink(full)
			default:
				s.size, s.mt = st.Size, st.Mtim.Nano()
			}
			m[r] = s
		}
	}
	return m
}

var mtRe = regexp.MustCompile(`^mt[0-9]+$`)

// a host path as the specification sees it: names below H, or <OUT> + names below U
func (w *world) loc(rel string) []string {
	rel = filepath.Clean(rel)
	var segs []string
	if rel == w.hrel {
		segs = []string{}
	} else if strings.HasPrefix(rel, w.hrel+"/") {
		segs = comps(rel[len(w.hrel)+1:])
	} else {
		segs = append([]string{outTag}, comps(rel)...)
		if rel == "." {
			segs = []string{outTag}
		}
	}
	for i, s := range segs {
		if mtRe.MatchString(s) {
			segs[i] = "mt*"
		}
	}
	return segs
}

// host path string (as the implementation produced it) -> relative to U
func (w *world) relOf(host string) string {
	r, err := filepath.Rel(w.u, host)
	if err != nil {
		return "../" + host
	}
	return r
}

type fsObs struct {
	touched map[string][]string
	links   [][]string
}

func (o *fsObs) touch(w *world, rel string) {
	l := w.loc(rel)
	o.touched[strings.Join(l, "\x00")] = l
}

// changes since the baseline; rebuilds the tree when something changed
func (w *world) collect(o *fsObs) {
	now := w.snapshot()
	changed := false
	for rel, s := range now {
		b, ok := w.base[rel]
		if !ok || b != s {
			changed = true
			o.touch(w, rel)
			if s.link != "" && !ok {
				o.links = append(o.links, w.loc(w.relOf(s.link)))
			}
		}
	}
	for rel := range w.base {
		if _, ok := now[rel]; !ok {
			changed = true
			o.touch(w, rel)
		}
	}
	if changed {
		w.repair(now)
	}
}

// undo the differences between the current state and the pristine tree (a full rebuild
// only when that does not restore the pristine entry set)
func (w *world) repair(now map[string]sig) {
	var created, damaged []string
	for rel := range now {
		if _, ok := w.base[rel]; !ok {
			created = append(created, rel)
		}
	}
	for rel, b := range w.base {
		if s, ok := now[rel]; !ok || s != b {
			damaged = append(damaged, rel)
		}
	}
	for _, l := range [][]string{created, damaged} {
		for _, rel := range l {
			if d, ok := w.fds[rel]; ok {
				syscall.Close(d.fd)
				delete(w.fds, rel)
			}
		}
	}
	sort.Slice(created, func(i, j int) bool { return len(created[i]) > len(created[j]) })
	for _, rel := range created {
		os.RemoveAll(filepath.Join(w.u, rel))
	}
	sort.Strings(damaged)
	for _, rel := range damaged {
		e, ok := w.entries[rel]
		if !ok {
			continue
		}
		p := filepath.Join(w.u, rel)
		fi, err := os.Lstat(p)
		if e.dir {
			if err == nil && fi.IsDir() {
				continue
			}
			os.RemoveAll(p)
			os.Mkdir(p, 0o755)
		} else {
			if err == nil && !fi.Mode().IsRegular() {
				os.RemoveAll(p)
			}
			os.WriteFile(p, []byte(e.data), 0o644)
		}
	}
	fresh := w.snapshot()
	same := len(fresh) == len(w.base)
	for rel, b := range w.base {
		if s, ok := fresh[rel]; !ok || s.mode != b.mode {
			same = false
		}
	}
	if !same {
		w.rebuild()
		return
	}
	w.base = fresh
	w.inoRel = map[uint64]string{}
	for rel, s := range w.base {
		w.inoRel[s.ino] = rel
	}
}

func (w *world) readMarker(o *fsObs, data []byte) {
	s := string(data)
	if strings.HasPrefix(s, "F:") {
		o.touch(w, s[2:])
	} else if s != "" {
		o.touch(w, outTag+"/unknown-content")
	}
}

type fsOp struct {
	code string
	call func(w *world, f *localfs.Filesystem, p string, o *fsObs) error
}

func readAll(w *world, o *fsObs, f ros.File, err error) error {
	if err != nil {
		return err
	}
	defer f.Close()
	data, rerr := io.ReadAll(f)
	if rerr == nil {
		w.readMarker(o, data)
	}
	return nil
}

func writeTo(f ros.File, err error) error {
	if err != nil {
		return err
	}
	defer f.Close()
	_, werr := f.Write([]byte("NEW-CONTENT-WRITTEN-BY-THE-CHECK"))
	return werr
}

const newData = "NEW-CONTENT-WRITTEN-BY-THE-CHECK"

var fsOps = []fsOp{
	{"rf", func(w *world, f *localfs.Filesystem, p string, o *fsObs) error {
		data, err := f.ReadFile(p)
		if err == nil {
			w.readMarker(o, data)
		}
		return err
	}},
	{"op", func(w *world, f *localfs.Filesystem, p string, o *fsObs) error {
		fl, err := f.Open(p)
		return readAll(w, o, fl, err)
	}},
	{"of", func(w *world, f *localfs.Filesystem, p string, o *fsObs) error {
		fl, err := f.OpenFile(p, ros.O_RDONLY, 0)
		return readAll(w, o, fl, err)
	}},
	{"st", func(w *world, f *localfs.Filesystem, p string, o *fsObs) error {
		fi, err := f.Stat(p)
		if err == nil {
			if st, ok := fi.Sys().(*syscall.Stat_t); ok {
				if rel, ok := w.inoRel[st.Ino]; ok {
					o.touch(w, rel)
				} else {
					o.touch(w, outTag+"/unknown-inode")
				}
			}
		}
		return err
	}},
	{"rd", func(w *world, f *localfs.Filesystem, p string, o *fsObs) error {
		ents, err := f.ReadDir(p)
		if err == nil {
			found := false
			for _, e := range ents {
				if d, ok := w.marker[e.Name()]; ok {
					o.touch(w, d)
					found = true
				}
			}
			if !found {
				o.touch(w, outTag+"/unknown-directory")
			}
		}
		return err
	}},
	{"wd", func(w *world, f *localfs.Filesystem, p string, o *fsObs) error {
		return f.WalkDir(p, func(path string, d fs.DirEntry, err error) error {
			if err == nil {
				o.touch(w, w.relOf(path))
			}
			return nil
		})
	}},
	{"wf", func(w *world, f *localfs.Filesystem, p string, o *fsObs) error {
		return f.WriteFile(p, []byte(newData), 0o644)
	}},
	{"cr", func(w *world, f *localfs.Filesystem, p string, o *fsObs) error {
		fl, err := f.Create(p)
		return writeTo(fl, err)
	}},
	{"ow", func(w *world, f *localfs.Filesystem, p string, o *fsObs) error {
		fl, err := f.OpenFile(p, ros.O_WRONLY|ros.O_CREATE|ros.O_TRUNC, 0o644)
		return writeTo(fl, err)
	}},
	{"mk", func(w *world, f *localfs.Filesystem, p string, o *fsObs) error { return f.Mkdir(p, 0o755) }},
	{"ma", func(w *world, f *localfs.Filesystem, p string, o *fsObs) error { return f.MkdirAll(p, 0o755) }},
	{"mt", func(w *world, f *localfs.Filesystem, p string, o *fsObs) error {
		// ("" is the base of a rooted filesystem like anywhere else - not Go's "default temporary directory")
		_, err := f.MkdirTemp(p, "mt")
		return err
	}},
	{"rm", func(w *world, f *localfs.Filesystem, p string, o *fsObs) error { return f.Remove(p) }},
	{"ra", func(w *world, f *localfs.Filesystem, p string, o *fsObs) error { return f.RemoveAll(p) }},
	{"r1", func(w *world, f *localfs.Filesystem, p string, o *fsObs) error { return f.Rename(p, "zz") }},
	{"r2", func(w *world, f *localfs.Filesystem, p string, o *fsObs) error { return f.Rename("b", p) }},
	{"s1", func(w *world, f *localfs.Filesystem, p string, o *fsObs) error { return f.Symlink(p, "zz") }},
	{"s2", func(w *world, f *localfs.Filesystem, p string, o *fsObs) error { return f.Symlink("b", p) }},
}

// relBase: the bases are ALSO spelled relative to the working directory (".", "./", "a/..", "./." - all clean to "."):
// the filesystem is rooted at the same host directory, so the same judgement applies (PathsCheck!FSCheck reads the
// base from the index b). Only operations that change nothing are run this way, so the working directory stays valid.
var relBase bool
var relSpellings = []string{".", "./", "a/..", "./."}
var readOnlyOps = map[string]bool{"rf": true, "op": true, "of": true, "st": true, "rd": true}

func legLocalFS(w *world, path string) []any {
	out := []any{}
	for bi, b := range baseSegs {
		host := filepath.Join(append([]string{w.h}, b...)...)
		var systems []*localfs.Filesystem
		fsys, err := localfs.New(context.Background(), localfs.WithBase(host))
		if err != nil {
			die("localfs.New: %v", err)
		}
		systems = append(systems, fsys)
		if relBase {
			systems = append(systems, nil) // made below, from INSIDE the base directory: a relative base denotes the
			// directory it names when the filesystem is created
		}
		for si, fsys := range systems {
			if si == 1 {
				if err := os.Chdir(host); err != nil {
					die("chdir %s: %v", host, err)
				}
				rfs, err := localfs.New(context.Background(), localfs.WithBase(relSpellings[(bi+len(path))%len(relSpellings)]))
				if err != nil {
					die("localfs.New (relative base): %v", err)
				}
				fsys = rfs
			}
			for _, op := range fsOps {
				if si == 1 && !readOnlyOps[op.code] {
					continue
				}
				o := &fsObs{touched: map[string][]string{}}
				var operr error
				pan := ""
				func() {
					defer func() {
						if x := recover(); x != nil {
							pan = fmt.Sprint(x)
						}
					}()
					operr = op.call(w, fsys, path, o)
				}()
				w.collect(o)
				keys := make([]string, 0, len(o.touched))
				for k := range o.touched {
					keys = append(keys, k)
				}
				sort.Strings(keys)
				t := [][]string{}
				for _, k := range keys {
					t = append(t, o.touched[k])
				}
				links := o.links
				if links == nil {
					links = [][]string{}
				}
				r := N{"b": bi + 1, "m": op.code, "e": operr != nil || pan != "", "t": t, "l": links}
				if pan != "" {
					r["t"] = [][]string{{outTag, "panic"}}
				}
				out = append(out, r)
			}
			if si == 1 {
				if err := os.Chdir("/"); err != nil {
					die("chdir /: %v", err)
				}
			}
		}
	}
	return out
}

// ------------------------------------------------------------------ commands

func cmdTree(args []string) {
	fl := flag.NewFlagSet("tree", flag.ExitOnError)
	work := fl.String("work", "", "scratch directory")
	out := fl.String("out", "", "output json")
	fl.Parse(args)
	w := newWorld(filepath.Join(*work, "tree"))
	dirs, files := [][]string{}, [][]string{}
	rels := make([]string, 0, len(w.base))
	for rel := range w.base {
		rels = append(rels, rel)
	}
	sort.Strings(rels)
	for _, rel := range rels {
		l := w.loc(rel)
		if len(l) > 0 && l[0] == outTag {
			continue
		}
		if w.base[rel].mode == syscall.S_IFDIR {
			dirs = append(dirs, l)
		} else {
			files = append(files, l)
		}
	}
	if err := run.WriteNDJSON(*out, []N{{"dirs": dirs, "files": files}}); err != nil {
		die("%v", err)
	}
	os.RemoveAll(filepath.Join(*work, "tree"))
}

func cmdReplay(args []string) {
	fl := flag.NewFlagSet("replay", flag.ExitOnError)
	in := fl.String("in", "", "cases")
	out := fl.String("out", "", "observations")
	work := fl.String("work", "", "scratch directory")
	fsmax := fl.Int("fsmax", 99, "fs leg for paths with at most this many segments")
	j := fl.Int("j", runtime.NumCPU(), "parallelism")
	shards := fl.Int("shards", 0, "write OUT.shardK.ndjson (round robin) instead of one file")
	rel := fl.Bool("relbase", false, "also spell every base relative to the working directory (one worker: the process changes directory)")
	fl.Parse(args)
	if *rel {
		*j = 1
		relBase = true
	}
	inf, err := os.Open(*in)
	if err != nil {
		die("read cases: %v", err)
	}
	defer inf.Close()
	sc := bufio.NewScanner(inf)
	sc.Buffer(make([]byte, 1<<20), 1<<24)
	var outs []*bufio.Writer
	var files []*os.File
	nout := *shards
	if nout <= 0 {
		nout = 1
	}
	for k := 0; k < nout; k++ {
		name := *out
		if *shards > 0 {
			name = fmt.Sprintf("%s.shard%d.ndjson", *out, k)
		}
		f, err := os.Create(name)
		if err != nil {
			die("%v", err)
		}
		files = append(files, f)
		outs = append(outs, bufio.NewWriterSize(f, 1<<20))
	}
	// rows are processed in batches (bounded memory) by workers that own one temp tree each
	type job struct {
		slot int
		c    N
	}
	const batch = 4096
	res := make([][]byte, batch)
	jobs := make(chan job, 256)
	var wg sync.WaitGroup
	var pending sync.WaitGroup
	for k := 0; k < *j; k++ {
		wg.Add(1)
		go func(k int) {
			defer wg.Done()
			var w *world
			for jb := range jobs {
				c := jb.c
				p := pathString(c)
				r := N{"id": c["id"], "abs": c["abs"], "trail": c["trail"], "segs": segsOf(c["segs"])}
				cls, _ := c["cls"].(map[string]any)
				r["rp"] = legResolvePath(p)
				r["vos"] = legVirtualOS(p)
				r["mt"] = legMkdirTemp(p)
				r["vos2"] = legVirtualOS2(p)
				if len(segsOf(c["segs"])) <= *fsmax {
					if w == nil {
						w = newWorld(filepath.Join(*work, fmt.Sprintf("u%d", k)))
					}
					r["fs"] = legLocalFS(w, p)
				} else {
					r["fs"] = []any{}
				}
				if len(cls) > 0 {
					abstract(r, cls)
				}
				b, err := json.Marshal(r)
				if err != nil {
					die("marshal: %v", err)
				}
				res[jb.slot] = b
				pending.Done()
			}
			if w != nil {
				w.closeFDs()
				os.RemoveAll(w.u)
			}
		}(k)
	}
	total := 0
	for {
		n := 0
		for n < batch && sc.Scan() {
			line := bytes.TrimSpace(sc.Bytes())
			if len(line) == 0 {
				continue
			}
			var c N
			if err := json.Unmarshal(line, &c); err != nil {
				die("bad case: %v", err)
			}
			pending.Add(1)
			jobs <- job{n, c}
			n++
		}
		pending.Wait()
		for i := 0; i < n; i++ {
			w := outs[(total+i)%nout]
			w.Write(res[i])
			w.WriteByte('\n')
			res[i] = nil
		}
		total += n
		if n < batch {
			break
		}
	}
	close(jobs)
	wg.Wait()
	if err := sc.Err(); err != nil {
		die("read cases: %v", err)
	}
	for k := range outs {
		if err := outs[k].Flush(); err != nil {
			die("%v", err)
		}
		files[k].Close()
	}
}

// leg V: observed names are reported as the segment classes of the case (same mapping as the input)
func abstract(r N, cls map[string]any) {
	m := func(l []string) {
		for i, s := range l {
			if t, ok := cls[s].(string); ok {
				l[i] = t
			}
		}
	}
	for _, o := range r["rp"].([]any) {
		m(o.(N)["segs"].([]string))
	}
	for _, v := range r["vos"].([]any) {
		for _, o := range v.(N)["outs"].([]any) {
			m(o.(N)["rel"].([]string))
		}
	}
	for _, o := range r["vos2"].([]any) {
		m(o.(N)["r1"].([]string))
		m(o.(N)["r2"].([]string))
	}
	for _, o := range r["fs"].([]any) {
		for _, t := range o.(N)["t"].([][]string) {
			m(t)
		}
		for _, t := range o.(N)["l"].([][]string) {
			m(t)
		}
	}
}

// ------------------------------------------------------------------ leg V generator

var literalNames = map[string]bool{"a": true, "b": true, "..a": true, "a..": true, "tmp": true, "tmpfoo": true, "ab": true}
var oddNames = []string{
	"tmpfoo", "tmp.", "tmp ", "tmp..", "tmpa", "ab", "abc", "a.", ".a", "...", "....", ". .", ".. ", " ..", "..b", "..tmp", "....a",
	"\u00e9", "\u65e5\u672c", "a b", "\\", "a\\b", "..\\", "-", "~", "%2e%2e", "%2f", "\u2025", "\uff0e\uff0e", "\u3002", "\u202e", " ",
	"\u200b", "\t", "\n", "*", "?", "$HOME", "C:", "nul", "\uff21", "\u00e1", "a\u0301", "\U0001d482", "tmp\u200b", "a\ufeff", ":", ";",
	"'", "\"", "b..", "b.", "..\u00e9", "..\u65e5", "\u2215", "\uff0f", "a\u2215b",
}

func genSeg(r *rand.Rand) string {
	switch x := r.Intn(100); {
	case x < 12:
		return ""
	case x < 24:
		return "."
	case x < 42:
		return ".."
	case x < 62:
		return []string{"tmp", "a", "ab", "b", "..a", "a.."}[r.Intn(6)]
	case x < 85:
		return oddNames[r.Intn(len(oddNames))]
	case x < 92: // a layout name extended or prefixed by random runes
		base := []string{"tmp", "a", "ab", ".."}[r.Intn(4)]
		ext := randRunes(r, 1+r.Intn(2))
		if r.Intn(3) == 0 && base != ".." {
			return ext + base
		}
		return base + ext
	default:
		return randRunes(r, 1+r.Intn(3))
	}
}

func randRunes(r *rand.Rand, n int) string {
	ranges := [][2]int{{0x21, 0x7e}, {0xa1, 0x17f}, {0x391, 0x3c9}, {0x4e00, 0x4e80}, {0x1f600, 0x1f640}, {0x2000, 0x206f}}
	var sb strings.Builder
	for sb.Len() == 0 || n > 0 {
		g := ranges[r.Intn(len(ranges))]
		c := rune(g[0] + r.Intn(g[1]-g[0]+1))
		n--
		if c == '/' {
			continue
		}
		sb.WriteRune(c)
	}
	return sb.String()
}

func reserved(s string) bool {
	return s == "zz" || s == outTag || s == "mt*" || strings.HasPrefix(s, ".m") || mtRe.MatchString(s) || len(s) > 200
}

func cmdGen(args []string) {
	fl := flag.NewFlagSet("gen", flag.ExitOnError)
	seed := fl.Int64("seed", 1, "seed")
	n := fl.Int("n", 1000, "cases")
	out := fl.String("out", "", "output")
	fl.Parse(args)
	r := rand.New(rand.NewSource(*seed))
	rows := []N{}
	for id := 1; id <= *n; id++ {
		k := r.Intn(8)
		raw := []string{}
		for len(raw) < k {
			s := genSeg(r)
			if reserved(s) {
				continue
			}
			raw = append(raw, s)
		}
		abs, trail := r.Intn(2) == 0, r.Intn(4) == 0
		// segment classes: "", ".", ".." and the names of the layouts keep their identity, any other
		// name becomes nK (..nK when it begins with ".."); equal names get equal classes
		cls := map[string]string{}
		toks := []string{}
		over := false
		for _, s := range raw {
			if s == "" || s == "." || s == ".." || literalNames[s] {
				toks = append(toks, s)
				continue
			}
			t, ok := cls[s]
			if !ok {
				t = fmt.Sprintf("n%d", len(cls)+1)
				if strings.HasPrefix(s, "..") {
					t = ".." + t
				}
				cls[s] = t
			}
			if len(cls) > 8 {
				over = true
			}
			toks = append(toks, t)
		}
		if over {
			id--
			continue
		}
		s := strings.Join(raw, "/")
		if abs {
			s = "/" + s
		}
		if trail {
			s += "/"
		}
		rows = append(rows, N{"id": id, "abs": abs, "trail": trail, "segs": toks, "str": run.Cps(s), "text": s, "cls": cls})
	}
	if err := run.WriteNDJSON(*out, rows); err != nil {
		die("%v", err)
	}
}

func main() {
	run.MaybeWorker()
	var lim syscall.Rlimit
	if syscall.Getrlimit(syscall.RLIMIT_NOFILE, &lim) == nil && lim.Cur < lim.Max {
		lim.Cur = lim.Max
		syscall.Setrlimit(syscall.RLIMIT_NOFILE, &lim)
	}
	if len(os.Args) < 2 {
		die("usage: paths tree|replay|gen ...")
	}
	switch os.Args[1] {
	case "tree":
		cmdTree(os.Args[2:])
	case "replay":
		cmdReplay(os.Args[2:])
	case "gen":
		cmdGen(os.Args[2:])
	default:
		die("unknown command %s", os.Args[1])
	}
}
