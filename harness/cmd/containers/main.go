// containers: C16 driver - applies operation histories to REAL risor containers.
//
//	containers apply -in hist.ndjson -out obs.ndjson [-workers N]
//	    every input line {id, steps:[step...]} is applied two ways:
//	      api : directly on object.List/Map/Set/String through GetItem/SetItem/GetSlice/Contains/
//	            GetAttr+Call, builtins.Len/Delete/Sorted/Reversed, object.BinaryOp, Iter()
//	      scr : as ONE script, one statement per step, run by the real parser+compiler+VM; each
//	            statement is a closure handed to the host builtin __s, the projection of all names is
//	            taken by the host builtin __o after the step
//	    output line {id, api:[obs...], scr:[obs...]|null (null = identical to api), err}
//	    obs = {r: [0, flat value...] | [1], k: error kind, ch: [{n: name, p: flat}...], n: receiver length before}
//	    ch lists the names whose deep projection (run.Project, flattened) changed in this step.
//	containers gen -seed S -n N -len L -out hist.ndjson
//	    random histories drawn while executing them on real objects (indices in [-len-2, len+2],
//	    aliasing: bind, slice/copy then mutate, containers inside containers)
//
// A step is {op, dst, x, a, b, items, keys, cb}; x/a/b/items are arguments
// {k:"n", n:name} | {k:"v", v:{t:"int",v:..}|{t:"str",v:[cps]}|{t:"bool",v:..}|{t:"nil"}|{t:"float",h:..}} | {k:"-"}.
package main

import (
	"context"
	"flag"
	"fmt"
	"math/rand"
	"os"
	"runtime"
	"strconv"
	"strings"
	"time"

	"github.com/risor-io/risor"
	"github.com/risor-io/risor/builtins"
	"github.com/risor-io/risor/compiler"
	"github.com/risor-io/risor/object"
	"github.com/risor-io/risor/op"
	"github.com/risor-io/risor/parser"
	"github.com/risor-io/risor/vm"

	"verifharness/run"
)

type N = map[string]any

var names = []string{"a", "b", "c", "d"}

const (
	maxSz = 14
	maxD  = 5
)

// ---------------------------------------------------------------- flat projection

// flat turns run.Project's canonical JSON into the type-homogeneous integer encoding
// shared with Containers.tla (Flat). ok=false: a float that is not a multiple of 1/2,
// a depth-limited projection or a value outside the model.
func flat(p any, out *[]int) bool {
	m, isMap := p.(N)
	if !isMap {
		return false
	}
	switch m["t"] {
	case "int":
		v := m["v"].(int64)
		if v > 1<<30 || v < -(1<<30) {
			return false
		}
		*out = append(*out, 1, int(v))
	case "str":
		cps := m["v"].([]any)
		*out = append(*out, 2, len(cps))
		for _, c := range cps {
			*out = append(*out, c.(int))
		}
	case "bool":
		b := 0
		if m["v"].(bool) {
			b = 1
		}
		*out = append(*out, 3, b)
	case "nil":
		*out = append(*out, 4)
	case "float":
		var sb strings.Builder
		for _, c := range m["v"].([]any) {
			sb.WriteRune(rune(c.(int)))
		}
		f, err := strconv.ParseFloat(sb.String(), 64)
		if err != nil || f*2 != float64(int(f*2)) || f > 1e8 || f < -1e8 {
			return false
		}
		*out = append(*out, 5, int(f*2))
	case "list", "set":
		tag := 6
		if m["t"] == "set" {
			tag = 8
		}
		items := m["v"].([]any)
		*out = append(*out, tag, len(items))
		for _, it := range items {
			if !flat(it, out) {
				return false
			}
		}
	case "map":
		items := m["v"].([]any)
		*out = append(*out, 7, len(items))
		for _, it := range items {
			e := it.(N)
			k := e["k"].([]any)
			*out = append(*out, len(k))
			for _, c := range k {
				*out = append(*out, c.(int))
			}
			if !flat(e["v"], out) {
				return false
			}
		}
	case "deep":
		return false
	default:
		// a value the model has no counterpart for (error value, function, ...)
		*out = append(*out, 9)
	}
	return true
}

func flatObj(o object.Object) ([]int, bool) {
	out := []int{}
	ok := flat(run.Project(o, 8), &out)
	return out, ok
}

func sameInts(a, b []int) bool {
	if len(a) != len(b) {
		return false
	}
	for i := range a {
		if a[i] != b[i] {
			return false
		}
	}
	return true
}

// ---------------------------------------------------------------- steps

func str(m N, k string) string {
	if s, ok := m[k].(string); ok {
		return s
	}
	return ""
}

func argOf(m N, k string) N {
	if a, ok := m[k].(N); ok {
		return a
	}
	return N{"k": "-"}
}

func has(a N) bool { return a["k"] != "-" }

func num(x any) int {
	switch v := x.(type) {
	case float64:
		return int(v)
	case int:
		return v
	case int64:
		return int(v)
	}
	return 0
}

func cpsString(x any) string {
	var sb strings.Builder
	if arr, ok := x.([]any); ok {
		for _, c := range arr {
			sb.WriteRune(rune(num(c)))
		}
	}
	return sb.String()
}

func litObj(v N) object.Object {
	switch v["t"] {
	case "int":
		return object.NewInt(int64(num(v["v"])))
	case "str":
		return object.NewString(cpsString(v["v"]))
	case "bool":
		return object.NewBool(v["v"].(bool))
	case "float":
		return object.NewFloat(float64(num(v["h"])) / 2)
	case "foreign":
		if v["n"] == "buffer" {
			return object.NewBufferFromBytes([]byte(cpsString(v["v"])))
		}
		return object.NewByteSlice([]byte(cpsString(v["v"])))
	}
	return object.Nil
}

func argObj(a N, env map[string]object.Object) object.Object {
	switch a["k"] {
	case "n":
		return env[a["n"].(string)]
	case "v":
		return litObj(a["v"].(N))
	}
	return nil
}

func itemsOf(st N) []N {
	var out []N
	if arr, ok := st["items"].([]any); ok {
		for _, it := range arr {
			out = append(out, it.(N))
		}
	}
	return out
}

func keysOf(st N) []string {
	var out []string
	if arr, ok := st["keys"].([]any); ok {
		for _, it := range arr {
			out = append(out, cpsString(it))
		}
	}
	return out
}

var methodName = map[string]string{"sadd": "add", "mget": "get"}

var readOnly = map[string]bool{"bind": true, "get": true, "slice": true, "in": true, "len": true, "count": true,
	"index": true, "copy": true, "keys": true, "values": true, "items": true, "mget": true, "attr": true,
	"sorted": true, "sortedby": true, "reversed": true, "plus": true, "union": true, "intersection": true, "difference": true,
	"map": true, "filter": true, "iter": true, "mklist": true, "mkmap": true, "mkset": true}

// ---------------------------------------------------------------- API mode

type raised struct{ msg string }

func kindOf(msg string) string {
	if j := strings.Index(msg, ":"); j > 0 {
		return msg[:j]
	}
	return msg
}

// callbacks compiled once per process on a helper VM; vm.Call runs them
type cbEnv struct {
	machine *vm.VirtualMachine
	fns     map[string]*object.Function
	ctx     context.Context
}

const cbSrc = `[func(v) { return v }, func(i, v) { return [i, v] }, func(i, v) { return i }, func(acc) { return func(v) { acc.append(v) } }, func(a, b) { return a < b }]`

func newCbEnv() (*cbEnv, error) {
	ctx := context.Background()
	prog, err := parser.Parse(ctx, cbSrc)
	if err != nil {
		return nil, err
	}
	cfg := risor.NewConfig()
	code, err := compiler.Compile(prog, cfg.CompilerOpts()...)
	if err != nil {
		return nil, err
	}
	m := vm.New(code, cfg.VMOpts()...)
	if err := m.Run(ctx); err != nil {
		return nil, err
	}
	tos, ok := m.TOS()
	if !ok {
		return nil, fmt.Errorf("no callback list")
	}
	ls := tos.(*object.List).Value()
	e := &cbEnv{machine: m, fns: map[string]*object.Function{}}
	e.fns["id"] = ls[0].(*object.Function)
	e.fns["iv"] = ls[1].(*object.Function)
	e.fns["i"] = ls[2].(*object.Function)
	e.fns["mkacc"] = ls[3].(*object.Function)
	e.fns["less"] = ls[4].(*object.Function)
	e.ctx = object.WithCallFunc(ctx, func(c context.Context, fn *object.Function, args []object.Object) (object.Object, error) {
		return m.Call(c, fn, args)
	})
	return e, nil
}

var cbs *cbEnv

func callMethod(ctx context.Context, x object.Object, name string, args ...object.Object) (object.Object, *raised) {
	m, ok := x.GetAttr(name)
	if !ok {
		return nil, &raised{fmt.Sprintf("type error: attribute %q not found on %s object", name, x.Type())}
	}
	b, ok := m.(*object.Builtin)
	if !ok {
		return nil, &raised{"type error: object is not callable"}
	}
	return unwrap(b.Call(ctx, args...))
}

func unwrap(res object.Object) (object.Object, *raised) {
	if e, ok := res.(*object.Error); ok && e.IsRaised() {
		return nil, &raised{e.Value().Error()}
	}
	return res, nil
}

func apiEval(st N, env map[string]object.Object) (res object.Object, rz *raised) {
	defer func() {
		if r := recover(); r != nil {
			res, rz = nil, &raised{fmt.Sprintf("panic: %v", r)}
		}
	}()
	ctx := cbs.ctx
	o := str(st, "op")
	x := argObj(argOf(st, "x"), env)
	a := argObj(argOf(st, "a"), env)
	b := argObj(argOf(st, "b"), env)
	notContainer := func() (object.Object, *raised) {
		return nil, &raised{fmt.Sprintf("type error: object is not a container (got %s)", x.Type())}
	}
	switch o {
	case "bind":
		return x, nil
	case "mklist":
		var items []object.Object
		for _, it := range itemsOf(st) {
			items = append(items, argObj(it, env))
		}
		return object.NewList(items), nil
	case "mkmap":
		m := map[string]object.Object{}
		ks := keysOf(st)
		for i, it := range itemsOf(st) {
			if _, dup := m[ks[i]]; !dup {
				m[ks[i]] = argObj(it, env)
			}
		}
		return object.NewMap(m), nil
	case "mkset":
		var items []object.Object
		for _, it := range itemsOf(st) {
			items = append(items, argObj(it, env))
		}
		return unwrap(object.NewSet(items))
	case "get":
		c, ok := x.(object.Container)
		if !ok {
			return notContainer()
		}
		v, err := c.GetItem(a)
		if err != nil {
			return nil, &raised{err.Value().Error()}
		}
		return v, nil
	case "slice":
		c, ok := x.(object.Container)
		if !ok {
			return notContainer()
		}
		v, err := c.GetSlice(object.Slice{Start: a, Stop: b})
		if err != nil {
			return nil, &raised{err.Value().Error()}
		}
		return v, nil
	case "set":
		c, ok := x.(object.Container)
		if !ok {
			return notContainer()
		}
		if err := c.SetItem(a, b); err != nil {
			return nil, &raised{err.Value().Error()}
		}
		return object.Nil, nil
	case "cset":
		c, ok := x.(object.Container)
		if !ok {
			return notContainer()
		}
		cur, err := c.GetItem(a)
		if err != nil {
			return nil, &raised{err.Value().Error()}
		}
		sum, e2 := object.BinaryOp(op.Add, cur, b)
		if e2 != nil {
			return nil, &raised{e2.Error()}
		}
		if err := c.SetItem(a, sum); err != nil {
			return nil, &raised{err.Value().Error()}
		}
		return object.Nil, nil
	case "in":
		c, ok := x.(object.Container)
		if !ok {
			return notContainer()
		}
		return c.Contains(a), nil
	case "len":
		return unwrap(builtins.Len(ctx, x))
	case "delete":
		return unwrap(builtins.Delete(ctx, x, a))
	case "sorted":
		return unwrap(builtins.Sorted(ctx, x))
	case "sortedby":
		// sorted(x, less) with less = func(a, b) { return a < b }: the ascending stable order, x unchanged
		return unwrap(builtins.Sorted(ctx, x, cbs.fns["less"]))
	case "reversed":
		return unwrap(builtins.Reversed(ctx, x))
	case "plus":
		v, err := object.BinaryOp(op.Add, x, a)
		if err != nil {
			return nil, &raised{err.Error()}
		}
		return v, nil
	case "iter":
		var it object.Iterator
		switch xx := x.(type) {
		case object.Iterable:
			it = xx.Iter()
		case object.Iterator:
			it = xx
		default:
			return nil, &raised{fmt.Sprintf("type error: object is not iterable (got %s)", x.Type())}
		}
		var pairs []object.Object
		for {
			if _, ok := it.Next(ctx); !ok {
				break
			}
			e, _ := it.Entry()
			pairs = append(pairs, object.NewList([]object.Object{e.Key(), e.Value()}))
		}
		return object.NewList(pairs), nil
	case "attr":
		name := keysOf(st)[0]
		v, ok := x.GetAttr(name)
		if !ok {
			return nil, &raised{fmt.Sprintf("type error: attribute %q not found on %s object", name, x.Type())}
		}
		return v, nil
	case "setattr":
		if err := x.SetAttr(keysOf(st)[0], a); err != nil {
			return nil, &raised{err.Error()}
		}
		return object.Nil, nil
	case "difference":
		s1, ok1 := x.(*object.Set)
		s2, ok2 := a.(*object.Set)
		if !ok1 || !ok2 {
			return nil, &raised{"type error: expected a set"}
		}
		return s1.Difference(s2), nil
	case "map", "filter":
		return callMethod(ctx, x, o, cbs.fns[str(st, "cb")])
	case "each":
		if _, ok := x.GetAttr("each"); !ok {
			return callMethod(ctx, x, o)
		}
		fn, err := cbs.machine.Call(ctx, cbs.fns["mkacc"], []object.Object{a})
		if err != nil {
			return nil, &raised{err.Error()}
		}
		return callMethod(ctx, x, o, fn)
	}
	// plain methods
	name := o
	if n, ok := methodName[o]; ok {
		name = n
	}
	var args []object.Object
	if a != nil {
		args = append(args, a)
	}
	if b != nil {
		args = append(args, b)
	}
	return callMethod(ctx, x, name, args...)
}

type observer struct {
	prev map[string][]int
}

func newObserver() *observer {
	o := &observer{prev: map[string][]int{}}
	for _, n := range names {
		o.prev[n] = []int{4}
	}
	return o
}

// observe returns the ch list (names whose projection changed) or ok=false when a value left the model
func (ob *observer) observe(get func(string) object.Object) ([]any, bool) {
	ch := []any{}
	for _, n := range names {
		p, ok := flatObj(get(n))
		if !ok {
			return nil, false
		}
		if !sameInts(p, ob.prev[n]) {
			ch = append(ch, N{"n": n, "p": p})
			ob.prev[n] = p
		}
	}
	return ch, true
}

func sizeOf(o object.Object) int {
	switch c := o.(type) {
	case *object.List:
		return len(c.Value())
	case *object.Map:
		return len(c.Value())
	case *object.Set:
		return len(c.Value())
	case *object.String:
		return len([]rune(c.Value()))
	}
	return 0
}

func resultObs(res object.Object, rz *raised) (N, bool) {
	if rz != nil {
		return N{"r": []int{1}, "k": kindOf(rz.msg), "msg": rz.msg}, true
	}
	p, ok := flatObj(res)
	if !ok {
		return nil, false
	}
	return N{"r": append([]int{0}, p...), "k": ""}, true
}

func applyAPI(steps []N) ([]any, string) {
	env := map[string]object.Object{}
	for _, n := range names {
		env[n] = object.Nil
	}
	ob := newObserver()
	var out []any
	for _, st := range steps {
		n := sizeOf(argObj(argOf(st, "x"), env))
		res, rz := apiEval(st, env)
		if rz == nil {
			if d := str(st, "dst"); d != "" {
				env[d] = res
			}
		}
		o, ok := resultObs(res, rz)
		if !ok {
			return out, "unprojectable"
		}
		ch, ok := ob.observe(func(nm string) object.Object { return env[nm] })
		if !ok {
			return out, "unprojectable"
		}
		o["ch"] = ch
		o["n"] = n
		out = append(out, o)
	}
	return out, ""
}

// ---------------------------------------------------------------- script mode

func litSrc(v N) string {
	switch v["t"] {
	case "int":
		n := num(v["v"])
		if n < 0 {
			return "(" + strconv.Itoa(n) + ")"
		}
		return strconv.Itoa(n)
	case "str":
		s := cpsString(v["v"])
		var sb strings.Builder
		sb.WriteByte('"')
		for _, r := range s {
			switch r {
			case '"', '\\':
				sb.WriteByte('\\')
				sb.WriteRune(r)
			case '\n':
				sb.WriteString("\\n")
			default:
				sb.WriteRune(r)
			}
		}
		sb.WriteByte('"')
		return sb.String()
	case "bool":
		if v["v"].(bool) {
			return "true"
		}
		return "false"
	case "foreign":
		return v["n"].(string) + "(" + litSrc(N{"t": "str", "v": v["v"]}) + ")"
	case "float":
		f := strconv.FormatFloat(float64(num(v["h"]))/2, 'f', 1, 64)
		if strings.HasPrefix(f, "-") {
			return "(" + f + ")"
		}
		return f
	}
	return "nil"
}

func argSrc(a N) string {
	switch a["k"] {
	case "n":
		return a["n"].(string)
	case "v":
		return litSrc(a["v"].(N))
	}
	return ""
}

// recvSrc renders a receiver: names as they are, literals parenthesised
func recvSrc(a N) string {
	if a["k"] == "n" {
		return a["n"].(string)
	}
	return "(" + argSrc(a) + ")"
}

// stmtSrc renders the body of the step closure
func stmtSrc(st N) string {
	o := str(st, "op")
	x, a, b := argOf(st, "x"), argOf(st, "a"), argOf(st, "b")
	dst := str(st, "dst")
	expr := ""
	switch o {
	case "bind":
		expr = argSrc(x)
	case "mklist", "mkset":
		var parts []string
		for _, it := range itemsOf(st) {
			parts = append(parts, argSrc(it))
		}
		if o == "mklist" {
			expr = "[" + strings.Join(parts, ", ") + "]"
		} else if len(parts) == 0 {
			expr = "set()"
		} else {
			expr = "{" + strings.Join(parts, ", ") + "}"
		}
	case "mkmap":
		var parts []string
		ks := keysOf(st)
		for i, it := range itemsOf(st) {
			parts = append(parts, litSrc(N{"t": "str", "v": cpsAny(ks[i])})+": "+argSrc(it))
		}
		expr = "{" + strings.Join(parts, ", ") + "}"
	case "get":
		expr = recvSrc(x) + "[" + argSrc(a) + "]"
	case "slice":
		expr = recvSrc(x) + "[" + argSrc(a) + ":" + argSrc(b) + "]"
	case "set":
		return recvSrc(x) + "[" + argSrc(a) + "] = " + argSrc(b) + "; return nil"
	case "cset":
		return recvSrc(x) + "[" + argSrc(a) + "] += " + argSrc(b) + "; return nil"
	case "setattr":
		return recvSrc(x) + "." + keysOf(st)[0] + " = " + argSrc(a) + "; return nil"
	case "in":
		expr = "(" + argSrc(a) + " in " + recvSrc(x) + ")"
	case "len", "sorted", "reversed":
		expr = o + "(" + argSrc(x) + ")"
	case "sortedby":
		expr = "sorted(" + argSrc(x) + ", func(a, b) { return a < b })"
	case "delete":
		expr = "delete(" + argSrc(x) + ", " + argSrc(a) + ")"
	case "plus":
		expr = "(" + recvSrc(x) + " + " + argSrc(a) + ")"
	case "difference":
		expr = "__diff(" + argSrc(x) + ", " + argSrc(a) + ")"
	case "attr":
		expr = recvSrc(x) + "." + keysOf(st)[0]
	case "iter":
		body := "r := []; for k, v := range " + recvSrc(x) + " { r.append([k, v]) }; "
		if dst != "" {
			body += dst + " = r; "
		}
		return body + "return r"
	case "map":
		switch str(st, "cb") {
		case "id":
			expr = recvSrc(x) + ".map(func(v) { return v })"
		case "iv":
			expr = recvSrc(x) + ".map(func(i, v) { return [i, v] })"
		default:
			expr = recvSrc(x) + ".map(func(i, v) { return i })"
		}
	case "filter":
		expr = recvSrc(x) + ".filter(func(v) { return v })"
	case "each":
		expr = recvSrc(x) + ".each(func(v) { " + recvSrc(a) + ".append(v) })"
	default:
		name := o
		if n, ok := methodName[o]; ok {
			name = n
		}
		var args []string
		if has(a) {
			args = append(args, argSrc(a))
		}
		if has(b) {
			args = append(args, argSrc(b))
		}
		expr = recvSrc(x) + "." + name + "(" + strings.Join(args, ", ") + ")"
	}
	if dst != "" {
		return dst + " = " + expr + "; return " + dst
	}
	return "return " + expr
}

func cpsAny(s string) []any {
	out := []any{}
	for _, r := range s {
		out = append(out, int(r))
	}
	return out
}

func scriptOf(steps []N) string {
	var sb strings.Builder
	for _, n := range names {
		sb.WriteString(n + " := nil\n")
	}
	for _, st := range steps {
		sb.WriteString("__s(func() { " + stmtSrc(st) + " })\n")
		sb.WriteString("__o(" + strings.Join(names, ", ") + ")\n")
	}
	return sb.String()
}

func applyScript(steps []N) (out []any, errs string) {
	ob := newObserver()
	var cur N
	bad := ""
	stepFn := func(ctx context.Context, args ...object.Object) object.Object {
		if cur != nil && bad == "" {
			bad = "missing __o"
		}
		fn, ok := args[0].(*object.Function)
		call, found := object.GetCallFunc(ctx)
		if !ok || !found {
			bad = "bad __s call"
			return object.Nil
		}
		var res object.Object
		var err error
		func() {
			// a Go panic inside the step (recovered by the VM only at the top level) counts as a raised error
			defer func() {
				if r := recover(); r != nil {
					err = fmt.Errorf("panic: %v", r)
				}
			}()
			res, err = call(ctx, fn, nil)
		}()
		var rz *raised
		if err != nil {
			rz = &raised{err.Error()}
		} else if e, isErr := res.(*object.Error); isErr && e.IsRaised() {
			rz = &raised{e.Value().Error()}
		}
		o, okp := resultObs(res, rz)
		if !okp {
			if bad == "" {
				bad = "unprojectable"
			}
			o = N{"r": []int{1}, "k": "unprojectable"}
		}
		cur = o
		return object.Nil
	}
	obsFn := func(ctx context.Context, args ...object.Object) object.Object {
		if cur == nil {
			bad = "missing __s"
			return object.Nil
		}
		ch, ok := ob.observe(func(nm string) object.Object {
			for i, n := range names {
				if n == nm {
					return args[i]
				}
			}
			return object.Nil
		})
		if !ok {
			if bad == "" {
				bad = "unprojectable"
			}
			ch = []any{}
		}
		cur["ch"] = ch
		out = append(out, cur)
		cur = nil
		return object.Nil
	}
	diffFn := func(ctx context.Context, args ...object.Object) object.Object {
		if len(args) != 2 {
			return object.NewArgsError("__diff", 2, len(args))
		}
		s1, ok1 := args[0].(*object.Set)
		s2, ok2 := args[1].(*object.Set)
		if !ok1 || !ok2 {
			return object.TypeErrorf("type error: expected a set")
		}
		return s1.Difference(s2)
	}
	src := scriptOf(steps)
	res := run.Eval(src, run.EvalOpts{Timeout: 10 * time.Second, Options: []risor.Option{risor.WithGlobals(map[string]any{
		"__s":    object.NewBuiltin("__s", stepFn),
		"__o":    object.NewBuiltin("__o", obsFn),
		"__diff": object.NewBuiltin("__diff", diffFn),
	})}})
	if res["k"] != "ok" {
		return out, fmt.Sprintf("script %v: %v", res["k"], res["msg"])
	}
	if bad != "" {
		return out, bad
	}
	return out, ""
}

// ---------------------------------------------------------------- apply worker

func stepsOf(req N) []N {
	var steps []N
	if arr, ok := req["steps"].([]any); ok {
		for _, s := range arr {
			steps = append(steps, s.(N))
		}
	}
	return steps
}

func obsEqual(a, b []any) bool {
	if len(a) != len(b) {
		return false
	}
	for i := range a {
		x, y := a[i].(N), b[i].(N)
		if !sameInts(x["r"].([]int), y["r"].([]int)) {
			return false
		}
		cx, cy := x["ch"].([]any), y["ch"].([]any)
		if len(cx) != len(cy) {
			return false
		}
		for j := range cx {
			p, q := cx[j].(N), cy[j].(N)
			if p["n"] != q["n"] || !sameInts(p["p"].([]int), q["p"].([]int)) {
				return false
			}
		}
	}
	return true
}

func applyWorker(req N) N {
	if cbs == nil {
		var err error
		if cbs, err = newCbEnv(); err != nil {
			return N{"id": req["id"], "err": "callbacks: " + err.Error()}
		}
	}
	steps := stepsOf(req)
	api, e1 := applyAPI(steps)
	resp := N{"id": req["id"], "api": api}
	if e1 != "" {
		resp["apierr"] = e1
	}
	if only, _ := req["only"].(string); only == "api" {
		return resp
	}
	scr, e2 := applyScript(steps)
	if e2 != "" {
		resp["screrr"] = e2
		resp["src"] = scriptOf(steps)
	}
	if e1 == "" && e2 == "" && obsEqual(api, scr) {
		resp["scr"] = nil
		// the script's error kinds are kept only when they differ from the API's
	} else {
		resp["scr"] = scr
	}
	return resp
}

// ---------------------------------------------------------------- random histories (leg V)

type gen struct {
	r   *rand.Rand
	env map[string]object.Object
	// source and destination names of the previous step when it was a successful copying operation
	freshSrc, freshDst string
}

var freshOps = map[string]bool{"slice": true, "copy": true, "sorted": true, "sortedby": true, "reversed": true, "plus": true, "keys": true,
	"values": true, "items": true, "union": true, "intersection": true, "difference": true, "map": true, "filter": true, "iter": true}
var listMut = []string{"set", "set", "cset", "append", "insert", "pop", "remove", "extend", "reverse", "sort", "clear", "delete"}
var mapMut = []string{"set", "set", "cset", "pop", "delete", "setdefault", "update", "clear", "setattr"}
var setMut = []string{"sadd", "sadd", "remove", "delete", "clear"}

var runeAlphabet = []rune{'a', 'b', 'c', 'z', 'A', '0', ' ', 'é', 'ß', '€', '世', '😀'}
var keyAlphabet = []string{"k1", "k2", "k3", "k4", "é", "", "a b"}
var attrKeys = []string{"k1", "k2", "k3", "k4"}

func (g *gen) intLit() N {
	switch g.r.Intn(10) {
	case 0:
		return N{"t": "int", "v": g.r.Intn(2000001) - 1000000}
	case 1, 2:
		return N{"t": "int", "v": g.r.Intn(41) - 20}
	}
	return N{"t": "int", "v": g.r.Intn(5) - 1}
}

func (g *gen) strLit() N {
	n := g.r.Intn(5)
	if g.r.Intn(6) == 0 {
		n = g.r.Intn(9)
	}
	var rs []rune
	for i := 0; i < n; i++ {
		rs = append(rs, runeAlphabet[g.r.Intn(len(runeAlphabet))])
	}
	return N{"t": "str", "v": cpsAny(string(rs))}
}

func (g *gen) scalar() N {
	switch g.r.Intn(12) {
	case 0, 1, 2, 3, 4:
		return g.intLit()
	case 5, 6, 7:
		return g.strLit()
	case 8:
		return N{"t": "bool", "v": g.r.Intn(2) == 0}
	case 9:
		return N{"t": "nil"}
	}
	return N{"t": "float", "h": g.r.Intn(13) - 4}
}

func lit(v N) N        { return N{"k": "v", "v": v} }
func nameA(n string) N { return N{"k": "n", "n": n} }

var none = N{"k": "-"}

func (g *gen) name() string { return names[g.r.Intn(len(names))] }

// nameOf picks a name bound to an object of the wanted type (mostly), else any name
func (g *gen) nameOf(t object.Type) string {
	var c []string
	for _, n := range names {
		if g.env[n].Type() == t {
			c = append(c, n)
		}
	}
	if len(c) > 0 && g.r.Intn(8) != 0 {
		return c[g.r.Intn(len(c))]
	}
	return g.name()
}

func (g *gen) val() N {
	if g.r.Intn(3) == 0 {
		return nameA(g.name())
	}
	return lit(g.scalar())
}

// idx draws an index from [-n-2, n+2]
func (g *gen) idx(n int) N {
	if g.r.Intn(14) == 0 {
		return lit(g.scalar())
	}
	return lit(N{"t": "int", "v": g.r.Intn(2*n+5) - n - 2})
}

func (g *gen) key(m *object.Map) N {
	if g.r.Intn(14) == 0 {
		return lit(g.scalar())
	}
	if m != nil && len(m.Value()) > 0 && g.r.Intn(3) != 0 {
		ks := m.SortedKeys()
		return lit(N{"t": "str", "v": cpsAny(ks[g.r.Intn(len(ks))])})
	}
	return lit(N{"t": "str", "v": cpsAny(keyAlphabet[g.r.Intn(len(keyAlphabet))])})
}

func (g *gen) member(s *object.Set) N {
	if s != nil && len(s.Value()) > 0 && g.r.Intn(2) == 0 {
		items := s.SortedItems()
		it := items[g.r.Intn(len(items))]
		switch v := it.(type) {
		case *object.Int:
			return lit(N{"t": "int", "v": int(v.Value())})
		case *object.String:
			return lit(N{"t": "str", "v": cpsAny(v.Value())})
		}
	}
	return g.val()
}

func (g *gen) dst(p int) string {
	if g.r.Intn(10) < p {
		return g.name()
	}
	return ""
}

func step(o, dst string, x, a, b N) N {
	return N{"op": o, "dst": dst, "x": x, "a": a, "b": b, "items": []any{}, "keys": []any{}, "cb": ""}
}

func (g *gen) create(dst string) N {
	st := step("mklist", dst, none, none, none)
	switch g.r.Intn(8) {
	case 0, 1, 2, 3:
		n := g.r.Intn(6)
		items := []any{}
		for i := 0; i < n; i++ {
			items = append(items, g.val())
		}
		st["items"] = items
	case 4, 5:
		st["op"] = "mkmap"
		n := g.r.Intn(4)
		perm := g.r.Perm(len(keyAlphabet))
		items, keys := []any{}, []any{}
		for i := 0; i < n; i++ {
			keys = append(keys, cpsAny(keyAlphabet[perm[i]]))
			items = append(items, g.val())
		}
		st["items"], st["keys"] = items, keys
	case 6:
		st["op"] = "mkset"
		n := g.r.Intn(5)
		items := []any{}
		for i := 0; i < n; i++ {
			if g.r.Intn(25) == 0 {
				items = append(items, nameA(g.name()))
			} else {
				items = append(items, lit(g.scalar()))
			}
		}
		st["items"] = items
	default:
		return step("bind", dst, lit(g.strLit()), none, none)
	}
	return st
}

var listOps = []string{"get", "get", "slice", "slice", "slice", "slice", "slice", "set", "set", "cset", "append", "append", "insert", "insert",
	"pop", "pop", "remove", "extend", "reverse", "sort", "clear", "copy", "copy", "count", "index", "in", "len", "delete",
	"plus", "sorted", "sortedby", "sortedby", "reversed", "iter", "map", "map", "filter", "each", "bind", "bind"}
var mapOps = []string{"get", "get", "set", "set", "cset", "in", "len", "delete", "keys", "values", "items", "mget", "mget",
	"pop", "pop", "setdefault", "update", "clear", "copy", "copy", "attr", "setattr", "sorted", "iter", "bind", "bind"}
var setOps = []string{"get", "in", "len", "delete", "sadd", "sadd", "sadd", "remove", "remove", "union", "intersection",
	"difference", "clear", "sorted", "iter", "bind"}
var strOps = []string{"get", "get", "get", "slice", "slice", "slice", "in", "len", "plus", "sorted", "reversed", "iter"}
var allOps = []string{"get", "slice", "set", "cset", "append", "insert", "pop", "remove", "extend", "reverse", "sort", "clear",
	"copy", "in", "len", "delete", "plus", "sorted", "reversed", "iter", "map", "filter", "each", "keys", "values", "items",
	"mget", "setdefault", "update", "attr", "setattr", "sadd", "union", "intersection", "difference"}

func (g *gen) next() N {
	xn := g.name()
	if g.r.Intn(4) != 0 {
		// mostly a name that is bound to a container or a string
		var c []string
		for _, n := range names {
			if _, isStr := g.env[n].(*object.String); isStr || isContainer(g.env[n]) {
				c = append(c, n)
			}
		}
		if len(c) > 0 {
			xn = c[g.r.Intn(len(c))]
		}
	}
	// slice-then-mutate, copy-then-mutate: every second copying step is followed by an in-place mutation
	follow := g.freshDst != "" && g.r.Intn(2) == 0
	if follow {
		xn = g.freshDst
		if g.r.Intn(2) == 0 {
			xn = g.freshSrc
		}
		follow = isContainer(g.env[xn])
	}
	xv := g.env[xn]
	x := nameA(xn)
	var ops []string
	switch xv.(type) {
	case *object.List:
		ops = listOps
		if follow {
			ops = listMut
		}
	case *object.Map:
		ops = mapOps
		if follow {
			ops = mapMut
		}
	case *object.Set:
		ops = setOps
		if follow {
			ops = setMut
		}
	case *object.String:
		ops = strOps
	default:
		return g.create(xn)
	}
	if !follow && g.r.Intn(9) == 0 {
		return g.create(g.name())
	}
	if !follow && g.r.Intn(12) == 0 {
		ops = allOps
	}
	o := ops[g.r.Intn(len(ops))]
	if _, isStr := xv.(*object.String); isStr && (o == "set" || o == "cset" || o == "setattr") && g.r.Intn(2) == 0 {
		o = "get"
	}
	n := sizeOf(xv)
	m, _ := xv.(*object.Map)
	s, _ := xv.(*object.Set)
	sub := func() N {
		switch xv.(type) {
		case *object.Map:
			return g.key(m)
		case *object.Set:
			return g.member(s)
		}
		return g.idx(n)
	}
	optIdx := func() N {
		if g.r.Intn(4) == 0 {
			return none
		}
		return g.idx(n)
	}
	switch o {
	case "bind":
		return step(o, g.name(), x, none, none)
	case "get":
		return step(o, g.dst(6), x, sub(), none)
	case "slice":
		if n > 0 && g.r.Intn(2) == 0 {
			// a slice that exists: start in 0..n-1 (or absent), stop one of absent, n, n-1, -1
			lo, hi := none, none
			if g.r.Intn(3) != 0 {
				lo = lit(N{"t": "int", "v": g.r.Intn(n)})
			}
			if k := g.r.Intn(4); k > 0 {
				hi = lit(N{"t": "int", "v": []int{0, n, n - 1, -1}[k]})
			}
			return step(o, g.dst(8), x, lo, hi)
		}
		return step(o, g.dst(7), x, optIdx(), optIdx())
	case "set":
		return step(o, "", x, sub(), g.val())
	case "cset":
		v := g.val()
		if g.r.Intn(2) == 0 {
			v = lit(g.intLit())
		}
		return step(o, "", x, sub(), v)
	case "delete":
		return step(o, "", x, sub(), none)
	case "in", "count", "index", "remove", "append", "sadd":
		v := g.val()
		if s != nil {
			v = g.member(s)
		}
		if l, ok := xv.(*object.List); ok && len(l.Value()) > 0 && g.r.Intn(2) == 0 && o != "append" {
			// an element that is present
			if p, ok := flatObj(l.Value()[g.r.Intn(len(l.Value()))]); ok && len(p) == 2 && p[0] == 1 {
				v = lit(N{"t": "int", "v": p[1]})
			}
		}
		return step(o, g.dst(3), x, v, none)
	case "insert":
		return step(o, g.dst(2), x, g.idx(n), g.val())
	case "pop":
		if m != nil {
			b := none
			if g.r.Intn(2) == 0 {
				b = g.val()
			}
			return step(o, g.dst(6), x, g.key(m), b)
		}
		return step(o, g.dst(6), x, g.idx(n), none)
	case "extend", "plus":
		if _, isStr := xv.(*object.String); isStr && g.r.Intn(6) != 0 {
			return step(o, g.dst(7), x, lit(g.strLit()), none)
		}
		return step(o, g.dst(5), x, nameA(g.nameOf(object.LIST)), none)
	case "update":
		return step(o, g.dst(2), x, nameA(g.nameOf(object.MAP)), none)
	case "union", "intersection", "difference":
		return step(o, g.dst(8), x, nameA(g.nameOf(object.SET)), none)
	case "reverse", "sort", "clear":
		return step(o, g.dst(2), x, none, none)
	case "copy", "keys", "values", "items", "sorted", "sortedby", "reversed", "iter":
		return step(o, g.dst(8), x, none, none)
	case "len":
		return step(o, g.dst(2), x, none, none)
	case "mget":
		b := none
		if g.r.Intn(2) == 0 {
			b = g.val()
		}
		return step(o, g.dst(5), x, g.key(m), b)
	case "setdefault":
		return step(o, g.dst(4), x, g.key(m), g.val())
	case "attr", "setattr":
		st := step(o, "", x, none, none)
		k := attrKeys[g.r.Intn(len(attrKeys))]
		if m != nil && g.r.Intn(2) == 0 {
			for _, c := range m.SortedKeys() {
				for _, ak := range attrKeys {
					if c == ak {
						k = c
					}
				}
			}
		}
		st["keys"] = []any{cpsAny(k)}
		if o == "attr" {
			st["dst"] = g.dst(6)
		} else {
			st["a"] = g.val()
		}
		return st
	case "map":
		st := step(o, g.dst(8), x, none, none)
		st["cb"] = []string{"id", "iv", "iv", "i"}[g.r.Intn(4)]
		return st
	case "filter":
		st := step(o, g.dst(8), x, none, none)
		st["cb"] = "id"
		return st
	case "each":
		st := step(o, "", x, nameA(g.nameOf(object.LIST)), none)
		st["cb"] = "acc"
		return st
	}
	return step("len", "", x, none, none)
}

// reach reports whether target is reachable from o (pointer identity); depth measures nesting
func reach(o, target object.Object, seen map[object.Object]bool) bool {
	if o == target {
		return true
	}
	if seen[o] {
		return false
	}
	switch c := o.(type) {
	case *object.List:
		seen[o] = true
		for _, it := range c.Value() {
			if reach(it, target, seen) {
				return true
			}
		}
	case *object.Map:
		seen[o] = true
		for _, it := range c.Value() {
			if reach(it, target, seen) {
				return true
			}
		}
	}
	return false
}

func depth(o object.Object, fuel int) int {
	if fuel == 0 {
		return 99
	}
	d := 0
	switch c := o.(type) {
	case *object.List:
		for _, it := range c.Value() {
			if k := 1 + depth(it, fuel-1); k > d {
				d = k
			}
		}
	case *object.Map:
		for _, it := range c.Value() {
			if k := 1 + depth(it, fuel-1); k > d {
				d = k
			}
		}
	}
	return d
}

func isContainer(o object.Object) bool {
	switch o.(type) {
	case *object.List, *object.Map, *object.Set:
		return true
	}
	return false
}

// admissible keeps histories inside the modelled domain (no cycles, bounded depth and size,
// no string methods, no iteration over numbers)
func (g *gen) admissible(st N) bool {
	o := str(st, "op")
	x := argObj(argOf(st, "x"), g.env)
	a := argObj(argOf(st, "a"), g.env)
	b := argObj(argOf(st, "b"), g.env)
	if _, isStr := x.(*object.String); isStr && (o == "count" || o == "index") {
		return false
	}
	if o == "iter" {
		switch x.(type) {
		case *object.Int, *object.Float:
			return false
		}
	}
	stored := []object.Object{}
	var target object.Object = x
	switch o {
	case "set", "insert", "setdefault":
		stored = append(stored, b)
	case "cset":
		stored = append(stored, b)
		if l, ok := b.(*object.List); ok && len(l.Value()) > maxSz/2 {
			return false
		}
	case "append", "setattr":
		stored = append(stored, a)
	case "extend":
		if l, ok := a.(*object.List); ok {
			stored = append(stored, l.Value()...)
			if sizeOf(x)+len(l.Value()) > maxSz {
				return false
			}
		}
	case "update":
		if m, ok := a.(*object.Map); ok {
			for _, v := range m.Value() {
				stored = append(stored, v)
			}
		}
	case "each":
		target = a
		if l, ok := x.(*object.List); ok {
			stored = append(stored, l.Value()...)
			if sizeOf(a)+len(l.Value()) > maxSz {
				return false
			}
		}
	case "plus":
		if sizeOf(x)+sizeOf(a) > maxSz {
			return false
		}
	case "mklist", "mkmap":
		for _, it := range itemsOf(st) {
			if v := argObj(it, g.env); isContainer(v) && depth(v, 9) >= maxD {
				return false
			}
		}
	}
	if (o == "append" || o == "insert" || o == "set" || o == "setattr" || o == "setdefault" || o == "cset") && sizeOf(x) >= maxSz {
		return false
	}
	for _, v := range stored {
		if v != nil && isContainer(v) && target != nil && isContainer(target) && reach(v, target, map[object.Object]bool{}) {
			return false
		}
	}
	return true
}

func (g *gen) history(maxLen int) []N {
	g.env = map[string]object.Object{}
	for _, n := range names {
		g.env[n] = object.Nil
	}
	var steps []N
	for len(steps) < maxLen {
		var st N
		okStep := false
		for try := 0; try < 6 && !okStep; try++ {
			st = g.next()
			okStep = g.admissible(st)
		}
		if !okStep {
			st = step("len", "", nameA(g.name()), none, none)
		}
		res, rz := apiEval(st, g.env)
		if rz == nil {
			if d := str(st, "dst"); d != "" {
				g.env[d] = res
			}
		}
		steps = append(steps, st)
		g.freshSrc, g.freshDst = "", ""
		if xa := argOf(st, "x"); rz == nil && freshOps[str(st, "op")] && str(st, "dst") != "" && xa["k"] == "n" {
			g.freshSrc, g.freshDst = xa["n"].(string), str(st, "dst")
		}
		if rz != nil && str(st, "op") == "sort" {
			break // a failed in-place sort leaves an unspecified permutation
		}
		tooDeep := false
		for _, n := range names {
			if depth(g.env[n], 9) > maxD {
				tooDeep = true
			}
		}
		if tooDeep {
			steps = steps[:len(steps)-1]
			break
		}
	}
	return steps
}

func genWorker(req N) N {
	if cbs == nil {
		var err error
		if cbs, err = newCbEnv(); err != nil {
			return N{"id": req["id"], "err": "callbacks: " + err.Error()}
		}
	}
	g := &gen{r: rand.New(rand.NewSource(int64(num(req["seed"]))))}
	L := num(req["len"])
	if g.r.Intn(4) == 0 {
		L = 4 + g.r.Intn(L-3)
	}
	return N{"id": req["id"], "steps": g.history(L)}
}

// ---------------------------------------------------------------- main

func main() {
	run.Register("apply", applyWorker)
	run.Register("gen", genWorker)
	run.MaybeWorker()
	if len(os.Args) < 2 {
		fmt.Fprintln(os.Stderr, "usage: containers apply|gen|script ...")
		os.Exit(2)
	}
	mode := os.Args[1]
	fs := flag.NewFlagSet(mode, flag.ExitOnError)
	in := fs.String("in", "", "")
	out := fs.String("out", "", "")
	seed := fs.Int("seed", 1, "")
	n := fs.Int("n", 100, "")
	hlen := fs.Int("len", 40, "")
	base := fs.Int("base", 0, "first id")
	workers := fs.Int("workers", runtime.NumCPU(), "")
	only := fs.String("only", "", "api: skip the script mode")
	fs.Parse(os.Args[2:])
	switch mode {
	case "apply":
		rows, err := run.ReadNDJSON(*in)
		if err != nil {
			fmt.Fprintln(os.Stderr, err)
			os.Exit(2)
		}
		reqs := make([]N, len(rows))
		for i, r := range rows {
			reqs[i] = N{"id": r["id"], "steps": r["steps"], "only": *only}
		}
		pool := run.NewPool("apply", *workers)
		resps := pool.Map(reqs, 60*time.Second)
		for i, r := range resps {
			if _, ok := r["id"]; !ok {
				r["id"] = rows[i]["id"]
			}
		}
		if err := run.WriteNDJSON(*out, resps); err != nil {
			fmt.Fprintln(os.Stderr, err)
			os.Exit(2)
		}
	case "gen":
		reqs := make([]N, *n)
		for i := range reqs {
			reqs[i] = N{"id": *base + i, "seed": *seed*1000003 + i, "len": *hlen}
		}
		pool := run.NewPool("gen", *workers)
		resps := pool.Map(reqs, 60*time.Second)
		if err := run.WriteNDJSON(*out, resps); err != nil {
			fmt.Fprintln(os.Stderr, err)
			os.Exit(2)
		}
	case "script":
		rows, err := run.ReadNDJSON(*in)
		if err != nil {
			fmt.Fprintln(os.Stderr, err)
			os.Exit(2)
		}
		for _, r := range rows {
			fmt.Printf("# history %v\n%s\n", r["id"], scriptOf(stepsOf(r)))
		}
	default:
		fmt.Fprintln(os.Stderr, "unknown mode", mode)
		os.Exit(2)
	}
}
