// registry: C09 driver. Every request runs in a FRESH process (first-use paths of the package-level
// registries are taken once per process): G goroutines evaluate concurrently on separate VMs, each with its
// own globals, programs that exercise the type-converter and Go-type registries, the codec registry, the
// int/byte caches, a shared importer and shared compiled code. The VerifSync hook records lock / unlock /
// read / write events with goroutine ids and one atomic sequence number. Afterwards the same programs run
// sequentially: every concurrent result must equal the sequential one.
package main

import (
	"bytes"
	"context"
	"flag"
	"fmt"
	"github.com/risor-io/risor/importer"
	"os"
	"path/filepath"
	"runtime"
	"sort"
	"strconv"
	"strings"
	"sync"
	"sync/atomic"
	"time"

	"github.com/risor-io/risor"
	"github.com/risor-io/risor/compiler"
	"github.com/risor-io/risor/object"
	ros "github.com/risor-io/risor/os"
	"github.com/risor-io/risor/parser"

	"verifharness/run"
)

type N = map[string]any

type P1 struct{ A, B int }
type K1 struct{ N int }

func (k *K1) Ints(v []int) int               { return len(v) + k.N }
func (k *K1) Strs(v []string) int            { return len(v) }
func (k *K1) Map(m map[string]int) int       { return len(m) }
func (k *K1) Arr(a [3]int) int               { return a[0] + a[2] }
func (k *K1) Floats(v []float64) float64     { return v[0] }
func (k *K1) Nested(v [][]int) int           { return len(v) }
func (k *K1) MapList(m map[string][]int) int { return len(m) }
func (k *K1) Pair(p P1) int                  { return p.A + p.B }
func (k *K1) PairPtr(p *P1) int              { return p.A * p.B }
func (k *K1) Bytes(b []byte) int             { return len(b) }
func (k *K1) Empty() []string                { return []string{} }
func (k *K1) EmptyMap() map[string]int       { return map[string]int{} }
func (k *K1) Pairs(p []P1) int               { return len(p) }
func (k *K1) Get() P1                        { return P1{A: k.N, B: 2} }
func (k *K1) List() []map[string]int         { return []map[string]int{{"a": k.N}} }

type K2 struct{ S string }

func (k K2) Join(a []string, b map[string]string) string { return k.S + strconv.Itoa(len(a)+len(b)) }
func (k K2) Matrix(m [2][2]int) int                      { return m[1][1] }
func (k K2) Opt(p *int) int {
	if p == nil {
		return -1
	}
	return *p
}

var programs = []string{
	`x.Ints([1, 2, 3]) + x.Strs(["a"]) + x.Map({"a": 1}) + x.Arr([1, 2, 3])`,
	`x.Floats(float_slice([1.5, 2.0])) + x.Nested([[1], [2, 3]]) + x.MapList({"k": [1, 2]})`,
	`x.Pair({"A": 1, "B": 2}) + x.Bytes(byte_slice([1, 2, 3])) + x.Get().A + len(x.List())`,
	`y.Join(["a", "b"], {"k": "v"}) + string(y.Matrix([[1, 2], [3, 4]]))`,
	`encode("hello", "base64") + string(decode(encode("abc", "hex"), "hex")) + string(len(encode([1, 2], "json")))`,
	`s := 0; for i := 0; i < 400; i++ { s += i % 256 }; [s, byte(7) + byte(250), 255 + 1]`,
	`import lib; lib.twice(21) + lib.base`,
	`x.N = 5; x.Ints([1]) + x.Get().A`,
	// containers converted from EMPTY Go values are the evaluation's own: filling them must not show elsewhere
	"l := x.Empty()\nfor i := 0; i < 50; i++ {\nl.append(string(i))\n}\nm := x.EmptyMap()\nm[\"k\" + string(len(l))] = 1\nes.append(len(l))\nem[\"a\"] = len(m)\n[len(l), len(m), es, em, len(x.Empty()), len(x.EmptyMap())]",
	// every registered codec, with a payload large enough for calls of different evaluations to overlap
	"s := \"\"\nfor i := 0; i < 400; i++ {\ns = s + \"abcdefghij\" + string(i)\n}\nok := []\nfor _, c := range [\"base64\", \"base32\", \"hex\", \"gzip\", \"urlquery\"] {\nfor k := 0; k < 6; k++ {\nok.append(string(decode(encode(s, c), c)) == s)\n}\n}\n[len(s), ok, len(encode(s, \"gzip\")) > 0, decode(encode([[\"a\", \"b\"], [\"c\", \"d\"]], \"csv\"), \"csv\"), decode(encode({\"k\": [1, 2]}, \"json\"), \"json\")]",
}

// programs that import a module with module-level state through an importer SHARED by all evaluations
// (documented as safe: the importer caches compiled code): every evaluation must see its own module state
var sharedImportPrograms = []string{
	"import state\nfor i := 0; i < 150; i++ {\nstate.bump(gid)\n}\n[state.count, len(state.log), state.log[0] == gid, state.log[149] == gid, state.bump(gid)]",
	"from state import bump, peek\nfor i := 0; i < 150; i++ {\nbump(gid)\n}\n[peek()[0], len(peek()[1]), peek()[1][0] == gid, peek()[1][149] == gid]",
	"import state as s1\nimport lib\ns1.bump(gid)\ns1.bump(lib.twice(gid))\n[s1.count, s1.log, lib.base]",
	// a module that does not compile and one whose body raises: the failure is the importing evaluation's alone,
	// the importer keeps serving everybody (and this evaluation) afterwards
	"func f() {\nimport broken\nreturn 1\n}\nfunc g() {\nimport boom\nreturn 2\n}\nr1 := try(f, func(e) { return \"refused\" })\nr2 := try(g, func(e) { return \"raised\" })\nimport lib\nimport state\nstate.bump(gid)\n[r1, r2, lib.twice(gid), state.count]",
	// clones of one VM (spawned goroutines) that import modules the spawner has and has not loaded yet
	"import lib\nts := []\nfor i := 0; i < 4; i++ {\nts.append(spawn(func(k) {\nimport state\nimport lib\nstate.bump(k)\nreturn [lib.twice(k), state.count > 0]\n}, i))\n}\nrs := []\nfor _, t := range ts {\nrs.append(t.wait())\n}\nrs",
}

// envTemplate is the one environment map every with-OS evaluation builds its VirtualOS from
var envTemplate = map[string]string{"VERIF_BASE": "base"}

func goid() int {
	var buf [64]byte
	n := runtime.Stack(buf[:], false)
	f := bytes.Fields(buf[:n])
	id, _ := strconv.Atoi(string(f[1]))
	return id
}

func concWorker(req N) (resp N) {
	defer func() {
		object.VerifSync = nil
		if r := recover(); r != nil {
			resp = N{"k": "gopanic", "msg": fmt.Sprint(r)}
		}
	}()
	os.Unsetenv("VERIF_WHO")
	g := int(req["g"].(float64))
	rounds := int(req["rounds"].(float64))
	dir := req["dir"].(string)
	os.MkdirAll(dir, 0o755)
	os.WriteFile(filepath.Join(dir, "lib.risor"), []byte("base := 100\nfunc twice(n) { return n * 2 }\n"), 0o644)
	os.WriteFile(filepath.Join(dir, "state.risor"), []byte("count := 0\nlog := []\nfunc bump(tag) {\ncount += 1\nlog.append(tag)\nreturn count\n}\nfunc peek() { return [count, log] }\n"), 0o644)
	os.WriteFile(filepath.Join(dir, "broken.risor"), []byte("x := 1\ny := := 2\n"), 0o644)
	os.WriteFile(filepath.Join(dir, "boom.risor"), []byte("x := 1\nerror(\"boom\")\n"), 0o644)
	gnames := risor.NewConfig(risor.WithGlobal("gid", 0)).GlobalNames()
	sharedImporters := []importer.Importer{
		importer.NewLocalImporter(importer.LocalImporterOptions{GlobalNames: gnames, SourceDir: dir}),
		importer.NewFSImporter(importer.FSImporterOptions{GlobalNames: gnames, SourceFS: os.DirFS(dir)}),
	}
	var seq int64
	var mu sync.Mutex
	var events []N
	ids := map[int]int{}
	object.VerifSync = func(ev, name string) {
		s := atomic.AddInt64(&seq, 1)
		id := goid()
		mu.Lock()
		if _, ok := ids[id]; !ok {
			ids[id] = len(ids) + 1
		}
		events = append(events, N{"seq": s, "g": ids[id], "ev": ev, "name": name})
		mu.Unlock()
	}
	// shared compiled code (read-only between VMs)
	cfg := risor.NewConfig()
	prog, err := parser.Parse(context.Background(), `func fib(n) { if n < 2 { return n }; return fib(n - 1) + fib(n - 2) }; fib(12)`)
	if err != nil {
		return N{"k": "noshared", "msg": err.Error()}
	}
	shared, err := compiler.Compile(prog, cfg.CompilerOpts()...)
	if err != nil {
		return N{"k": "noshared", "msg": err.Error()}
	}
	evalOne := func(gi, pi int) string {
		ctx, cancel := context.WithTimeout(context.Background(), 20*time.Second)
		defer cancel()
		if pi >= len(programs)+1+2*len(sharedImportPrograms) {
			// one program, two hosts: an evaluation that is given a host OS (its own environment and working
			// directory) and one that is given none at all (the process's real OS, where VERIF_WHO is not set)
			who := "import os\n[getenv(\"VERIF_WHO\"), os.getenv(\"VERIF_WHO\"), os.getwd() == \"/who\"]"
			if pi == len(programs)+1+2*len(sharedImportPrograms) {
				// every evaluation gets a VirtualOS of its own, built from ONE environment template of the host's; the
				// script sets a variable of its own in it and reads it back after some work
				vos := ros.NewVirtualOS(ctx, ros.WithEnvironment(envTemplate), ros.WithCwd("/who"))
				mine := "import os\nos.setenv(\"VERIF_WHO\", \"g" + strconv.Itoa(gi) + "\")\nx := 0\nfor i := 0; i < 2000; i++ {\nx += i\n}\n" +
					"[getenv(\"VERIF_WHO\"), os.getenv(\"VERIF_WHO\"), os.getenv(\"VERIF_BASE\"), os.getwd() == \"/who\"]"
				res, err := risor.Eval(ctx, mine, risor.WithOS(vos))
				if err != nil {
					return "ERR " + err.Error()
				}
				return res.Inspect()
			}
			res, err := risor.Eval(ctx, who)
			if err != nil {
				return "ERR " + err.Error()
			}
			return res.Inspect()
		}
		if pi == len(programs) {
			res, err := risor.EvalCode(ctx, shared)
			if err != nil {
				return "ERR " + err.Error()
			}
			return res.Inspect()
		}
		if pi > len(programs) {
			k := pi - len(programs) - 1
			res, err := risor.Eval(ctx, sharedImportPrograms[k%len(sharedImportPrograms)], risor.WithGlobal("gid", gi+1),
				risor.WithImporter(sharedImporters[k/len(sharedImportPrograms)]), risor.WithConcurrency())
			if err != nil {
				return "ERR " + err.Error()
			}
			return res.Inspect()
		}
		res, err := risor.Eval(ctx, programs[pi], risor.WithGlobal("x", &K1{N: gi}), risor.WithGlobal("y", K2{S: "s" + strconv.Itoa(gi)}),
			risor.WithGlobal("es", []int{}), risor.WithGlobal("em", map[string]int{}),
			risor.WithLocalImporter(dir))
		if err != nil {
			return "ERR " + err.Error()
		}
		return res.Inspect()
	}
	np := len(programs) + 1 + 2*len(sharedImportPrograms) + 2
	conc := make([][]string, g)
	var wg sync.WaitGroup
	start := make(chan struct{})
	for gi := 0; gi < g; gi++ {
		conc[gi] = make([]string, np*rounds)
		wg.Add(1)
		go func(gi int) {
			defer wg.Done()
			<-start
			for r := 0; r < rounds; r++ {
				for k := 0; k < np; k++ {
					pi := (k + gi) % np // goroutines start on different programs and meet on the others
					conc[gi][r*np+pi] = evalOne(gi, pi)
				}
			}
		}(gi)
	}
	close(start)
	wg.Wait()
	object.VerifSync = nil
	// sequential reference
	var diffs, seqErrs []any
	for gi := 0; gi < g; gi++ {
		for pi := 0; pi < np; pi++ {
			want := evalOne(gi, pi)
			if strings.HasPrefix(want, "ERR ") {
				seqErrs = append(seqErrs, N{"g": gi, "program": pi, "sequential": want})
			}
			for r := 0; r < rounds; r++ {
				if got := conc[gi][r*np+pi]; got != want {
					diffs = append(diffs, N{"g": gi, "program": pi, "concurrent": got, "sequential": want})
				}
			}
		}
	}
	mu.Lock()
	sort.Slice(events, func(i, j int) bool { return events[i]["seq"].(int64) < events[j]["seq"].(int64) })
	evs := make([]any, len(events))
	for i, e := range events {
		delete(e, "seq")
		evs[i] = e
	}
	mu.Unlock()
	sample := []any{}
	for pi := 0; pi < np; pi++ {
		sample = append(sample, conc[0][pi])
	}
	return N{"k": "ok", "events": evs, "diffs": diffs, "seq_errors": seqErrs, "evaluations": g * np * rounds, "sample": sample}
}

func main() {
	run.Register("conc", concWorker)
	run.MaybeWorker()
	fs := flag.NewFlagSet("registry", flag.ExitOnError)
	in := fs.String("in", "", "")
	out := fs.String("out", "", "")
	par := fs.Int("j", 4, "")
	if len(os.Args) < 2 {
		os.Exit(2)
	}
	fs.Parse(os.Args[2:])
	rows, err := run.ReadNDJSON(*in)
	if err != nil {
		fmt.Fprintln(os.Stderr, err)
		os.Exit(2)
	}
	pool := run.NewPool("conc", *par)
	pool.OneShot = true
	resps := pool.Map(rows, 180*time.Second)
	for i, r := range rows {
		r["res"] = resps[i]
	}
	if err := run.WriteNDJSON(*out, rows); err != nil {
		fmt.Fprintln(os.Stderr, err)
		os.Exit(2)
	}
}
