// boundary: C08 driver - Go values crossing the host/script boundary.
//
//	boundary run -in cases.ndjson -out obs.ndjson [-j N]
//	    every case {id, t:[chain], c:class, r:route, w:literal tree} is materialised with reflect (or
//	    taken from the pre-declared pool for named types and method routes), pushed through the real
//	    risor boundary under recover in a crash-isolated worker, and reported as
//	    {k: ok|rejected|panic|crash|hang|nopool|badcase, msg, phase, script: tree, back: tree,
//	     back_k: ok|rejected|na, typeok, calls}
//	boundary gen -seed S -n N -depth D -out cases.ndjson
//	    random deeper chains / classes / routes (V leg), same case format
//	boundary pool
//	    prints the static type keys for which a method-carrying Box exists
//
// A type is a CHAIN of constructors ending in a leaf: ["slice","ptr","int8"] = []*int8.
// Constructors: ptr slice arr1 arr2 map s1 s2 iface (+ imap = map[int]T, unsupported on purpose).
// Routes:
//
//	global             risor.Eval("x", WithGlobals{x: v})            script tree of x, converter.To(x)
//	field_read         h.F on *struct{F T}                           script tree, converter.To
//	field_write        dst.F = src.F; dst.F                          script tree read back, Go tree of dst.F
//	write_lit          dst.F = <literal w>; dst.F                    script tree read back, Go tree of dst.F
//	method_arg         b.Put3(b.V, 7, b.W) on *Box[T]                Go trees of the three received arguments
//	method_result      b.Get() (pointer receiver, pointer global)    script tree, converter.To
//	method_result_val  b.GetV() (value receiver, struct-value global)
//	rec_methods(_val)  value/pointer receiver methods of the named struct Rec over named parameter types
//
// "Converts back" always goes the way Go receives values (object.NewTypeConverter(t).To, a field
// write, a typed method parameter), never through Object.Interface().
// Trees are uniform nodes {t: tag, s: text, k: [keys], c: [kids]} (same shape in Boundary.tla).
package main

import (
	"context"
	"flag"
	"fmt"
	"github.com/risor-io/risor/vm"
	"math"
	"math/rand"
	"os"
	"reflect"
	"runtime"
	"sort"
	"strconv"
	"strings"
	"time"

	"github.com/risor-io/risor"
	"github.com/risor-io/risor/object"

	"verifharness/run"
)

type N = map[string]any

// ---------------------------------------------------------------------------
// pre-declared named types (reflect cannot create named types or methods)

type MyInt int
type MyStr string
type MyFloat float64
type MyBool bool
type MyU64 uint64
type MyU8 uint8
type MyI8 int8
type MyF32 float32
type MyList []int
type MyMap map[string]string
type MyStrs []string

// Hid has unexported fields in front of and between its exported ones (same exported shape as Rec: A string, B int64).
type Hid struct {
	mu  int32
	A   string
	pad bool
	B   int64
	end string
}

// Rec is a named struct with value- and pointer-receiver methods over named types.
type Rec struct {
	A string
	B int64
}

func (r Rec) Scale(d time.Duration, m MyInt) time.Duration { return d * time.Duration(m) }
func (r Rec) Tag(s MyStr) MyStr                            { return MyStr(r.A) + s }
func (r *Rec) SetB(n int64)                                { r.B = n }
func (r *Rec) Both(f MyFloat, b MyBool) MyFloat {
	if b {
		return f * 2
	}
	return f
}

var anyT = reflect.TypeOf((*any)(nil)).Elem()

type leafInfo struct {
	rt    reflect.Type
	under []string // underlying chain (kind name for scalars)
}

var leaves = map[string]leafInfo{
	"bool": {reflect.TypeOf(false), nil}, "int8": {reflect.TypeOf(int8(0)), nil}, "int16": {reflect.TypeOf(int16(0)), nil},
	"int32": {reflect.TypeOf(int32(0)), nil}, "int64": {reflect.TypeOf(int64(0)), nil}, "int": {reflect.TypeOf(int(0)), nil},
	"uint8": {reflect.TypeOf(uint8(0)), nil}, "uint16": {reflect.TypeOf(uint16(0)), nil}, "uint32": {reflect.TypeOf(uint32(0)), nil},
	"uint64": {reflect.TypeOf(uint64(0)), nil}, "uint": {reflect.TypeOf(uint(0)), nil},
	"float32": {reflect.TypeOf(float32(0)), nil}, "float64": {reflect.TypeOf(float64(0)), nil},
	"string": {reflect.TypeOf(""), nil}, "time": {reflect.TypeOf(time.Time{}), nil},
	// named pool
	"MyInt": {reflect.TypeOf(MyInt(0)), []string{"int"}}, "MyStr": {reflect.TypeOf(MyStr("")), []string{"string"}},
	"MyFloat": {reflect.TypeOf(MyFloat(0)), []string{"float64"}}, "MyBool": {reflect.TypeOf(MyBool(false)), []string{"bool"}},
	"Duration": {reflect.TypeOf(time.Duration(0)), []string{"int64"}},
	"MyU64":    {reflect.TypeOf(MyU64(0)), []string{"uint64"}}, "MyU8": {reflect.TypeOf(MyU8(0)), []string{"uint8"}},
	"MyI8": {reflect.TypeOf(MyI8(0)), []string{"int8"}}, "MyF32": {reflect.TypeOf(MyF32(0)), []string{"float32"}},
	"MyList": {reflect.TypeOf(MyList(nil)), []string{"slice", "int"}},
	"MyStrs": {reflect.TypeOf(MyStrs(nil)), []string{"slice", "string"}},
	"MyMap":  {reflect.TypeOf(MyMap(nil)), []string{"map", "string"}},
	"Rec":    {reflect.TypeOf(Rec{}), []string{"s2", "int64"}},
	"Hid":    {reflect.TypeOf(Hid{}), []string{"s2", "int64"}},
	// deliberately unsupported kinds
	"complex128": {reflect.TypeOf(complex128(0)), nil}, "chan": {reflect.TypeOf((chan int)(nil)), nil},
	"func": {reflect.TypeOf((func())(nil)), nil},
}

// ---------------------------------------------------------------------------
// Box pool: method routes need compile-time types.

type boxer interface {
	vfield() reflect.Value // addressable field V
	wfield() reflect.Value
	got() (a, c reflect.Value, n int, calls int)
	value() any // the box as a struct VALUE (for value-receiver routes)
}

type Box[T any] struct {
	V, W   T
	ga, gc T
	gn     int
	calls  int
}

func (b *Box[T]) Put3(a T, n int, c T)  { b.ga, b.gn, b.gc = a, n, c; b.calls++ }
func (b *Box[T]) Get() T                { return b.V }
func (b Box[T]) GetV() T                { return b.V }
func (b *Box[T]) vfield() reflect.Value { return reflect.ValueOf(b).Elem().FieldByName("V") }
func (b *Box[T]) wfield() reflect.Value { return reflect.ValueOf(b).Elem().FieldByName("W") }
func (b *Box[T]) got() (reflect.Value, reflect.Value, int, int) {
	return reflect.ValueOf(&b.ga).Elem(), reflect.ValueOf(&b.gc).Elem(), b.gn, b.calls
}
func (b *Box[T]) value() any { return *b }

var pool = map[string]func() boxer{}

func reg[T any](key string) { pool[key] = func() boxer { return &Box[T]{} } }

func regCtors[T any](key string) {
	reg[*T]("ptr " + key)
	reg[[]T]("slice " + key)
	reg[[1]T]("arr1 " + key)
	reg[[2]T]("arr2 " + key)
	reg[map[string]T]("map " + key)
	reg[struct{ A T }]("s1 " + key)
	reg[struct {
		A string
		B T
	}]("s2 " + key)
}

func regCtors2[T any](key string) {
	regCtors[*T]("ptr " + key)
	regCtors[[]T]("slice " + key)
	regCtors[[1]T]("arr1 " + key)
	regCtors[[2]T]("arr2 " + key)
	regCtors[map[string]T]("map " + key)
	regCtors[struct{ A T }]("s1 " + key)
	regCtors[struct {
		A string
		B T
	}]("s2 " + key)
}

func regLeaf[T any](key string) {
	reg[T](key)
	regCtors[T](key)
	regCtors2[T](key)
}

func init() {
	regLeaf[bool]("bool")
	regLeaf[int8]("int8")
	regLeaf[int16]("int16")
	regLeaf[int32]("int32")
	regLeaf[int64]("int64")
	regLeaf[int]("int")
	regLeaf[uint8]("uint8")
	regLeaf[uint16]("uint16")
	regLeaf[uint32]("uint32")
	regLeaf[uint64]("uint64")
	regLeaf[uint]("uint")
	regLeaf[float32]("float32")
	regLeaf[float64]("float64")
	regLeaf[string]("string")
	regLeaf[time.Time]("time")
	regLeaf[MyInt]("MyInt")
	regLeaf[MyStr]("MyStr")
	regLeaf[MyFloat]("MyFloat")
	regLeaf[MyBool]("MyBool")
	regLeaf[time.Duration]("Duration")
	regLeaf[MyU64]("MyU64")
	regLeaf[MyU8]("MyU8")
	regLeaf[MyI8]("MyI8")
	regLeaf[MyF32]("MyF32")
	regLeaf[MyList]("MyList")
	regLeaf[MyStrs]("MyStrs")
	regLeaf[MyMap]("MyMap")
	regLeaf[Rec]("Rec")
	regLeaf[Hid]("Hid")
	regLeaf[any]("iface")
	// unsupported kinds: depth <= 1 only
	reg[complex128]("complex128")
	regCtors[complex128]("complex128")
	reg[chan int]("chan")
	regCtors[chan int]("chan")
	reg[func()]("func")
	regCtors[func()]("func")
	reg[map[int]int]("imap int")
	reg[map[int]string]("imap string")
}

// staticKey: the chain up to and including the first iface (what lies below is dynamic).
func staticKey(chain []string) string {
	for i, c := range chain {
		if c == "iface" {
			return strings.Join(chain[:i+1], " ")
		}
	}
	return strings.Join(chain, " ")
}

// ---------------------------------------------------------------------------
// chains -> reflect types

func rtype(chain []string) (reflect.Type, error) {
	if len(chain) == 0 {
		return nil, fmt.Errorf("empty chain")
	}
	head := chain[0]
	if len(chain) == 1 {
		if li, ok := leaves[head]; ok {
			return li.rt, nil
		}
		return nil, fmt.Errorf("unknown leaf %q", head)
	}
	if head == "iface" {
		if _, err := rtype(chain[1:]); err != nil {
			return nil, err
		}
		return anyT, nil
	}
	el, err := rtype(chain[1:])
	if err != nil {
		return nil, err
	}
	switch head {
	case "ptr":
		return reflect.PointerTo(el), nil
	case "slice":
		return reflect.SliceOf(el), nil
	case "arr1":
		return reflect.ArrayOf(1, el), nil
	case "arr2":
		return reflect.ArrayOf(2, el), nil
	case "map":
		return reflect.MapOf(reflect.TypeOf(""), el), nil
	case "imap":
		return reflect.MapOf(reflect.TypeOf(int(0)), el), nil
	case "s1":
		return reflect.StructOf([]reflect.StructField{{Name: "A", Type: el}}), nil
	case "s2":
		return reflect.StructOf([]reflect.StructField{{Name: "A", Type: reflect.TypeOf("")}, {Name: "B", Type: el}}), nil
	}
	return nil, fmt.Errorf("unknown constructor %q", head)
}

// expand replaces a named composite leaf by its underlying chain (value structure only).
func expand(chain []string) []string {
	last := chain[len(chain)-1]
	if li, ok := leaves[last]; ok && len(li.under) > 1 {
		out := append([]string{}, chain[:len(chain)-1]...)
		return append(out, li.under...)
	}
	return chain
}

func classAt(cls, prefix string) int {
	if strings.HasPrefix(cls, prefix) {
		n, err := strconv.Atoi(cls[len(prefix):])
		if err == nil {
			return n
		}
	}
	return -1
}

func baseClass(cls string) string {
	switch cls {
	case "zero", "min", "max", "typ":
		return cls
	}
	return "typ"
}

// leafValue: the concrete Go value of a symbolic class (DESIGN 8.3).
func leafValue(kind, cls string) (reflect.Value, error) {
	i := map[string]int{"zero": 0, "min": 1, "max": 2, "typ": 3}[cls]
	pickI := func(a ...int64) int64 { return a[i] }
	pickU := func(a ...uint64) uint64 { return a[i] }
	switch kind {
	case "bool":
		return reflect.ValueOf([]bool{false, false, true, true}[i]), nil
	case "int8":
		return reflect.ValueOf(int8(pickI(0, math.MinInt8, math.MaxInt8, 42))), nil
	case "int16":
		return reflect.ValueOf(int16(pickI(0, math.MinInt16, math.MaxInt16, 4242))), nil
	case "int32":
		return reflect.ValueOf(int32(pickI(0, math.MinInt32, math.MaxInt32, 424242))), nil
	case "int64":
		return reflect.ValueOf(pickI(0, math.MinInt64, math.MaxInt64, 4242424242)), nil
	case "int":
		return reflect.ValueOf(int(pickI(0, math.MinInt64, math.MaxInt64, -4242))), nil
	case "uint8":
		return reflect.ValueOf(uint8(pickU(0, 0, math.MaxUint8, 200))), nil
	case "uint16":
		return reflect.ValueOf(uint16(pickU(0, 0, math.MaxUint16, 40000))), nil
	case "uint32":
		return reflect.ValueOf(uint32(pickU(0, 0, math.MaxUint32, 3000000000))), nil
	case "uint64":
		return reflect.ValueOf(pickU(0, 0, math.MaxUint64, 9000000000)), nil
	case "uint":
		return reflect.ValueOf(uint(pickU(0, 0, math.MaxUint64, 77))), nil
	case "float32":
		return reflect.ValueOf([]float32{0, -math.MaxFloat32, math.MaxFloat32, 1.5}[i]), nil
	case "float64":
		return reflect.ValueOf([]float64{0, -math.MaxFloat64, math.MaxFloat64, -2.25}[i]), nil
	case "string":
		return reflect.ValueOf([]string{"", "", "~~~~ long-ish text with spaces ~~~~", "hi"}[i]), nil
	case "time":
		return reflect.ValueOf([]time.Time{{}, time.Date(1, 1, 1, 0, 0, 0, 1, time.UTC),
			time.Date(9999, 12, 31, 23, 59, 59, 0, time.UTC), time.Unix(1700000000, 123).UTC()}[i]), nil
	case "complex128":
		return reflect.ValueOf(complex(float64(i), 1)), nil
	case "chan":
		if cls == "zero" {
			return reflect.ValueOf((chan int)(nil)), nil
		}
		return reflect.ValueOf(make(chan int, 1)), nil
	case "func":
		if cls == "zero" {
			return reflect.ValueOf((func())(nil)), nil
		}
		return reflect.ValueOf(func() {}), nil
	}
	return reflect.Value{}, fmt.Errorf("no values for kind %q", kind)
}

// build materialises the value of class cls for the (expanded) chain at depth d, as type rt.
func build(rt reflect.Type, orig, chain []string, d int, cls string) (reflect.Value, error) {
	head := chain[0]
	nilable := head == "ptr" || head == "slice" || head == "map" || head == "iface" || head == "imap"
	if classAt(cls, "nil") == d {
		if !nilable || len(chain) == 1 {
			return reflect.Value{}, fmt.Errorf("class %s not applicable at %s", cls, head)
		}
		return reflect.Zero(rt), nil
	}
	if classAt(cls, "empty") == d {
		switch {
		case head == "slice" && len(chain) > 1:
			return reflect.MakeSlice(rt, 0, 0), nil
		case (head == "map" || head == "imap") && len(chain) > 1:
			return reflect.MakeMap(rt), nil
		}
		return reflect.Value{}, fmt.Errorf("class %s not applicable at %s", cls, head)
	}
	if len(chain) == 1 {
		li, ok := leaves[head]
		if !ok {
			return reflect.Value{}, fmt.Errorf("unknown leaf %q", head)
		}
		kind := head
		if len(li.under) == 1 {
			kind = li.under[0]
		}
		v, err := leafValue(kind, baseClass(cls))
		if err != nil {
			return v, err
		}
		if v.Type() != rt {
			v = v.Convert(rt)
		}
		return v, nil
	}
	rest := chain[1:]
	sub := func(t reflect.Type, c string) (reflect.Value, error) { return build(t, orig, rest, d+1, c) }
	switch head {
	case "ptr":
		e, err := sub(rt.Elem(), cls)
		if err != nil {
			return e, err
		}
		p := reflect.New(rt.Elem())
		p.Elem().Set(e)
		return p, nil
	case "iface":
		dt, err := rtype(orig[d+1:]) // the dynamic type keeps the NAME of a named leaf
		if err != nil {
			return reflect.Value{}, err
		}
		e, err := sub(dt, cls)
		if err != nil {
			return e, err
		}
		v := reflect.New(anyT).Elem()
		v.Set(e)
		return v, nil
	case "slice", "arr1", "arr2":
		n := 2
		if head == "arr1" {
			n = 1
		}
		var out reflect.Value
		if head == "slice" {
			out = reflect.MakeSlice(rt, n, n)
		} else {
			out = reflect.New(rt).Elem()
		}
		for j := 0; j < n; j++ {
			c := cls
			if j > 0 {
				c = "typ"
			}
			e, err := sub(rt.Elem(), c)
			if err != nil {
				return e, err
			}
			out.Index(j).Set(e)
		}
		return out, nil
	case "map", "imap":
		out := reflect.MakeMap(rt)
		for j, k := range []string{"a", "b"} {
			c := cls
			if j > 0 {
				c = "typ"
			}
			e, err := sub(rt.Elem(), c)
			if err != nil {
				return e, err
			}
			if head == "imap" {
				out.SetMapIndex(reflect.ValueOf(j+1), e)
			} else {
				out.SetMapIndex(reflect.ValueOf(k), e)
			}
		}
		return out, nil
	case "s1":
		out := reflect.New(rt).Elem()
		e, err := sub(rt.Field(0).Type, cls)
		if err != nil {
			return e, err
		}
		out.Field(0).Set(e)
		return out, nil
	case "s2":
		// the exported fields, in order (a named struct may have unexported ones around them)
		var ex []int
		for i := 0; i < rt.NumField(); i++ {
			if rt.Field(i).IsExported() {
				ex = append(ex, i)
			}
		}
		out := reflect.New(rt).Elem()
		out.Field(ex[0]).SetString("tag")
		e, err := sub(rt.Field(ex[1]).Type, cls)
		if err != nil {
			return e, err
		}
		out.Field(ex[1]).Set(e)
		return out, nil
	}
	return reflect.Value{}, fmt.Errorf("unknown constructor %q", head)
}

// ---------------------------------------------------------------------------
// trees

func node(tag, text string, keys []string, kids []any) N {
	if keys == nil {
		keys = []string{}
	}
	if kids == nil {
		kids = []any{}
	}
	ks := make([]any, len(keys))
	for i, k := range keys {
		ks[i] = k
	}
	return N{"t": tag, "s": text, "k": ks, "c": kids}
}

func leafNode(tag, text string) N { return node(tag, text, nil, nil) }

func ftext(f float64) string { return strconv.FormatFloat(f, 'g', -1, 64) }

func ttext(t time.Time) string { return t.UTC().Format(time.RFC3339Nano) }

var timeT = reflect.TypeOf(time.Time{})

// goTree: what Go holds. Pointers and interfaces are transparent; all integer kinds are "int".
func goTree(v reflect.Value) N {
	if !v.IsValid() {
		return leafNode("nil", "")
	}
	switch v.Kind() {
	case reflect.Pointer, reflect.Interface:
		if v.IsNil() {
			return leafNode("nil", "")
		}
		return goTree(v.Elem())
	case reflect.Slice, reflect.Array:
		if v.Kind() == reflect.Slice && v.IsNil() {
			return leafNode("nilseq", "")
		}
		kids := []any{}
		for i := 0; i < v.Len(); i++ {
			kids = append(kids, goTree(v.Index(i)))
		}
		return node("seq", "", nil, kids)
	case reflect.Map:
		if v.IsNil() {
			return leafNode("nilmap", "")
		}
		type kv struct {
			k string
			v reflect.Value
		}
		var items []kv
		for _, k := range v.MapKeys() {
			items = append(items, kv{fmt.Sprint(k.Interface()), v.MapIndex(k)})
		}
		sort.Slice(items, func(i, j int) bool { return items[i].k < items[j].k })
		var keys []string
		kids := []any{}
		for _, it := range items {
			keys = append(keys, it.k)
			kids = append(kids, goTree(it.v))
		}
		return node("map", "", keys, kids)
	case reflect.Struct:
		if v.Type() == timeT {
			// unexported fields: rebuild through the exported API
			sec := v.MethodByName("Unix").Call(nil)[0].Int()
			ns := v.MethodByName("Nanosecond").Call(nil)[0].Int()
			return leafNode("time", ttext(time.Unix(sec, ns)))
		}
		var keys []string
		kids := []any{}
		for i := 0; i < v.NumField(); i++ {
			f := v.Type().Field(i)
			if !f.IsExported() {
				continue
			}
			keys = append(keys, f.Name)
			kids = append(kids, goTree(v.Field(i)))
		}
		return node("struct", "", keys, kids)
	case reflect.Bool:
		return leafNode("bool", strconv.FormatBool(v.Bool()))
	case reflect.Int, reflect.Int8, reflect.Int16, reflect.Int32, reflect.Int64:
		return leafNode("int", strconv.FormatInt(v.Int(), 10))
	case reflect.Uint, reflect.Uint8, reflect.Uint16, reflect.Uint32, reflect.Uint64:
		return leafNode("int", strconv.FormatUint(v.Uint(), 10))
	case reflect.Float32, reflect.Float64:
		return leafNode("float", ftext(v.Float()))
	case reflect.String:
		return leafNode("str", v.String())
	}
	return leafNode("go:"+v.Kind().String(), "")
}

type rejected struct{ msg string }

// scriptTree: what the script holds. A proxy is projected by reading every field through GetAttr
// (the struct-field-read path); an error object inside the value is a rejection.
func scriptTree(o object.Object, depth int) N {
	if depth == 0 {
		return leafNode("deep", "")
	}
	switch o := o.(type) {
	case nil:
		return leafNode("gonil", "")
	case *object.NilType:
		return leafNode("nil", "")
	case *object.Int:
		return leafNode("int", strconv.FormatInt(o.Value(), 10))
	case *object.Byte:
		return leafNode("byte", strconv.Itoa(int(o.Value())))
	case *object.Float:
		return leafNode("float", ftext(o.Value()))
	case *object.Bool:
		return leafNode("bool", strconv.FormatBool(o.Value()))
	case *object.String:
		return leafNode("str", o.Value())
	case *object.Time:
		return leafNode("time", ttext(o.Value()))
	case *object.List:
		kids := []any{}
		for _, it := range o.Value() {
			kids = append(kids, scriptTree(it, depth-1))
		}
		return node("list", "", nil, kids)
	case *object.ByteSlice:
		kids := []any{}
		for _, b := range o.Value() {
			kids = append(kids, leafNode("byte", strconv.Itoa(int(b))))
		}
		return node("byte_slice", "", nil, kids)
	case *object.FloatSlice:
		kids := []any{}
		for _, f := range o.Value() {
			kids = append(kids, leafNode("float", ftext(f)))
		}
		return node("float_slice", "", nil, kids)
	case *object.Map:
		keys := o.SortedKeys()
		kids := []any{}
		for _, k := range keys {
			kids = append(kids, scriptTree(o.Value()[k], depth-1))
		}
		return node("map", "", keys, kids)
	case *object.Proxy:
		if tp, ok := o.Interface().(*time.Time); ok && tp != nil {
			return leafNode("proxy", ttext(*tp)) // opaque proxy of a struct pointer without exported fields
		}
		var keys []string
		kids := []any{}
		for _, name := range o.GoType().AttributeNames() {
			attr, _ := o.GoType().GetAttribute(name)
			if _, ok := attr.(*object.GoField); !ok {
				continue
			}
			val, found := o.GetAttr(name)
			if !found {
				panic(rejected{"proxy field " + name + " not found"})
			}
			keys = append(keys, name)
			kids = append(kids, scriptTree(val, depth-1))
		}
		return node("proxy", "", keys, kids)
	case *object.Error:
		panic(rejected{"error object in value: " + o.Value().Error()})
	}
	return leafNode("obj:"+string(o.Type()), "")
}

// ---------------------------------------------------------------------------
// routes

func evalWith(src string, globals map[string]any) (object.Object, error) {
	ctx, cancel := context.WithTimeout(context.Background(), 5*time.Second)
	defer cancel()
	return risor.Eval(ctx, src, risor.WithoutDefaultGlobals(), risor.WithGlobals(globals))
}

func nillable(rt reflect.Type) bool {
	switch rt.Kind() {
	case reflect.Pointer, reflect.Slice, reflect.Map, reflect.Interface, reflect.Chan, reflect.Func:
		return true
	}
	return false
}

// convertBack hands a script object to Go the way Go receives it: through the type's converter.
func convertBack(rt reflect.Type, obj object.Object, resp N) {
	conv, err := object.NewTypeConverter(rt)
	if err != nil {
		resp["back_k"] = "rejected"
		resp["back_msg"] = err.Error()
		return
	}
	g, err := conv.To(obj)
	if err != nil {
		resp["back_k"] = "rejected"
		resp["back_msg"] = err.Error()
		return
	}
	resp["back_k"] = "ok"
	if g == nil {
		resp["back"] = leafNode("nil", "")
		resp["typeok"] = nillable(rt)
		return
	}
	resp["back"] = goTree(reflect.ValueOf(g))
	resp["typeok"] = reflect.TypeOf(g).AssignableTo(rt)
}

func strs(a any) []string {
	var out []string
	for _, x := range a.([]any) {
		out = append(out, x.(string))
	}
	return out
}

func otherClass(cls string) string {
	if cls == "typ" {
		return "zero"
	}
	return "typ"
}

// renderLit writes a script tree as risor source text.
func renderLit(w map[string]any) (string, error) {
	tag, _ := w["t"].(string)
	text, _ := w["s"].(string)
	kids, _ := w["c"].([]any)
	keys, _ := w["k"].([]any)
	var parts []string
	for i, k := range kids {
		km, _ := k.(map[string]any)
		s, err := renderLit(km)
		if err != nil {
			return "", err
		}
		if tag == "map" {
			s = strconv.Quote(keys[i].(string)) + ": " + s
		}
		parts = append(parts, s)
	}
	switch tag {
	case "int":
		if text == "-9223372036854775808" {
			return "(-9223372036854775807 - 1)", nil
		}
		if strings.HasPrefix(text, "-") {
			return "(" + text + ")", nil
		}
		return text, nil
	case "float":
		return text, nil
	case "str":
		return strconv.Quote(text), nil
	case "bool":
		return text, nil
	case "nil":
		return "nil", nil
	case "list":
		return "[" + strings.Join(parts, ", ") + "]", nil
	case "map":
		return "{" + strings.Join(parts, ", ") + "}", nil
	}
	return "", fmt.Errorf("cannot render a %q literal", tag)
}

func handle(req N) (resp N) {
	resp = N{"id": req["id"], "t": req["t"], "c": req["c"], "r": req["r"], "w": req["w"], "k": "badcase", "msg": "", "phase": "",
		"script": leafNode("na", ""), "back": leafNode("na", ""), "back_k": "na", "typeok": true, "calls": 0}
	phase := "setup"
	defer func() {
		if r := recover(); r != nil {
			if rj, ok := r.(rejected); ok {
				resp["k"] = "rejected"
				resp["msg"] = rj.msg
				return
			}
			if phase == "setup" {
				resp["k"] = "badcase"
				resp["msg"] = fmt.Sprint(r)
				return
			}
			resp["k"] = "panic"
			resp["phase"] = phase
			msg := fmt.Sprint(r)
			if len(msg) > 300 {
				msg = msg[:300]
			}
			resp["msg"] = msg
		}
	}()
	chain := strs(req["t"])
	cls := req["c"].(string)
	route := req["r"].(string)
	fail := func(err error) N {
		resp["k"] = "rejected"
		resp["msg"] = err.Error()
		if strings.HasPrefix(err.Error(), "panic:") {
			resp["k"] = "panic"
			resp["phase"] = "recovered-by-vm"
		}
		return resp
	}
	bad := func(err error) N {
		resp["k"] = "badcase"
		resp["msg"] = err.Error()
		return resp
	}

	switch route {
	case "rec_methods", "rec_methods_val":
		rec := &Rec{A: "tag", B: 7}
		var g any = rec
		if route == "rec_methods_val" {
			g = *rec
		}
		phase = "eval"
		res, err := evalWith("a := r.Scale(d, 3)\nb := r.Tag(\"x\")\nc := r.Both(1.5, true)\nr.SetB(41)\n[a, b, c, r.B]",
			map[string]any{"r": g, "d": time.Duration(4242424242)})
		if err != nil {
			return fail(err)
		}
		phase = "project"
		resp["k"] = "ok"
		resp["script"] = scriptTree(res, 12)
		resp["back_k"] = "ok"
		resp["back"] = goTree(reflect.ValueOf(rec))
		return resp

	case "write_lit":
		rt, err := rtype(chain)
		if err != nil {
			return bad(err)
		}
		wtree, _ := req["w"].(map[string]any)
		lit, err := renderLit(wtree)
		if err != nil {
			return bad(err)
		}
		ht := reflect.StructOf([]reflect.StructField{{Name: "F", Type: rt}})
		dst := reflect.New(ht)
		phase = "eval"
		res, err := evalWith("dst.F = "+lit+"\ndst.F", map[string]any{"dst": dst.Interface()})
		if err != nil {
			return fail(err)
		}
		phase = "project"
		resp["k"] = "ok"
		resp["script"] = scriptTree(res, 12)
		resp["back_k"] = "ok"
		resp["back"] = goTree(dst.Elem().Field(0))
		return resp

	case "global", "global_ov", "global_again", "field_read", "field_write", "nested_write":
		rt, err := rtype(chain)
		if err != nil {
			return bad(err)
		}
		if route == "global" && len(chain) > 1 && chain[0] == "iface" && cls == "nil0" {
			// the untyped nil global
			phase = "eval"
			res, err := evalWith("x", map[string]any{"x": nil})
			if err != nil {
				return fail(err)
			}
			phase = "project"
			resp["k"] = "ok"
			resp["script"] = scriptTree(res, 12)
			resp["back_k"] = "na"
			return resp
		}
		v, err := build(rt, chain, expand(chain), 0, cls)
		if err != nil {
			return bad(err)
		}
		switch route {
		case "global_ov":
			// the value replaces an existing global through WithGlobalOverride
			phase = "eval"
			ctx, cancel := context.WithTimeout(context.Background(), 5*time.Second)
			res, err := risor.Eval(ctx, "x", risor.WithoutDefaultGlobals(), risor.WithGlobals(map[string]any{"x": "old value"}),
				risor.WithGlobalOverride("x", v.Interface()))
			cancel()
			if err != nil {
				return fail(err)
			}
			phase = "project"
			resp["k"] = "ok"
			resp["script"] = scriptTree(res, 12)
			phase = "back"
			convertBack(rt, res, resp)
		case "global_again":
			// one VM, two evaluations, the same Go value as the global x both times
			phase = "eval"
			machine, err := vm.NewEmpty()
			if err != nil {
				return bad(err)
			}
			var res object.Object
			for round := 0; round < 2; round++ {
				ctx, cancel := context.WithTimeout(context.Background(), 5*time.Second)
				res, err = risor.Eval(ctx, "x", risor.WithoutDefaultGlobals(), risor.WithGlobals(map[string]any{"x": v.Interface()}), risor.WithVM(machine))
				cancel()
				if err != nil {
					return fail(err)
				}
			}
			phase = "project"
			resp["k"] = "ok"
			resp["script"] = scriptTree(res, 12)
			phase = "back"
			convertBack(rt, res, resp)
		case "global":
			phase = "eval"
			res, err := evalWith("x", map[string]any{"x": v.Interface()})
			if err != nil {
				return fail(err)
			}
			phase = "project"
			resp["k"] = "ok"
			resp["script"] = scriptTree(res, 12)
			phase = "back"
			convertBack(rt, res, resp)
		case "field_read":
			ht := reflect.StructOf([]reflect.StructField{{Name: "F", Type: rt}})
			hp := reflect.New(ht)
			hp.Elem().Field(0).Set(v)
			phase = "eval"
			res, err := evalWith("h.F", map[string]any{"h": hp.Interface()})
			if err != nil {
				return fail(err)
			}
			phase = "project"
			resp["k"] = "ok"
			resp["script"] = scriptTree(res, 12)
			phase = "back"
			convertBack(rt, res, resp)
		case "nested_write":
			// the field F is itself a struct: write its inner field through the outer proxy
			inner := map[string]string{"s1": "A", "s2": "B"}[chain[0]]
			if inner == "" {
				return bad(fmt.Errorf("nested_write needs a struct-valued field"))
			}
			ht := reflect.StructOf([]reflect.StructField{{Name: "F", Type: rt}})
			src, dst := reflect.New(ht), reflect.New(ht)
			src.Elem().Field(0).Set(v)
			if ov, err := build(rt, chain, expand(chain), 0, otherClass(cls)); err == nil {
				dst.Elem().Field(0).Set(ov)
			}
			phase = "eval"
			res, err := evalWith("dst.F."+inner+" = src.F."+inner+"\ndst.F", map[string]any{"src": src.Interface(), "dst": dst.Interface()})
			if err != nil {
				return fail(err)
			}
			phase = "project"
			resp["k"] = "ok"
			resp["script"] = scriptTree(res, 12)
			resp["back_k"] = "ok"
			resp["back"] = goTree(dst.Elem().Field(0))
			resp["typeok"] = true
		case "field_write":
			ht := reflect.StructOf([]reflect.StructField{{Name: "F", Type: rt}})
			src, dst := reflect.New(ht), reflect.New(ht)
			src.Elem().Field(0).Set(v)
			if ov, err := build(rt, chain, expand(chain), 0, otherClass(cls)); err == nil {
				dst.Elem().Field(0).Set(ov)
			}
			phase = "eval"
			res, err := evalWith("dst.F = src.F\ndst.F", map[string]any{"src": src.Interface(), "dst": dst.Interface()})
			if err != nil {
				return fail(err)
			}
			phase = "project"
			resp["k"] = "ok"
			resp["script"] = scriptTree(res, 12)
			resp["back_k"] = "ok"
			resp["back"] = goTree(dst.Elem().Field(0))
			resp["typeok"] = true
			resp["srcsame"] = reflect.DeepEqual(goTree(src.Elem().Field(0)), goTree(v))
		}
		return resp

	case "method_arg", "method_result", "method_result_val":
		mk := pool[staticKey(chain)]
		if mk == nil {
			resp["k"] = "nopool"
			return resp
		}
		bx := mk()
		rt := bx.vfield().Type()
		v, err := build(rt, chain, expand(chain), 0, cls)
		if err != nil {
			return bad(err)
		}
		bx.vfield().Set(v)
		w, err := build(rt, chain, expand(chain), 0, otherClass(cls))
		if err == nil {
			bx.wfield().Set(w)
		}
		switch route {
		case "method_arg":
			phase = "eval"
			_, err := evalWith("b.Put3(b.V, 7, b.W)", map[string]any{"b": bx})
			if err != nil {
				return fail(err)
			}
			phase = "project"
			ga, gc, gn, calls := bx.got()
			resp["k"] = "ok"
			resp["script"] = leafNode("na", "")
			resp["back_k"] = "ok"
			resp["typeok"] = true
			resp["calls"] = calls
			resp["back"] = node("args", "", nil, []any{goTree(ga), leafNode("int", strconv.Itoa(gn)), goTree(gc)})
		case "method_result":
			phase = "eval"
			res, err := evalWith("b.Get()", map[string]any{"b": bx})
			if err != nil {
				return fail(err)
			}
			phase = "project"
			resp["k"] = "ok"
			resp["script"] = scriptTree(res, 12)
			phase = "back"
			convertBack(rt, res, resp)
		case "method_result_val":
			phase = "eval"
			res, err := evalWith("b.GetV()", map[string]any{"b": bx.value()})
			if err != nil {
				return fail(err)
			}
			phase = "project"
			resp["k"] = "ok"
			resp["script"] = scriptTree(res, 12)
			phase = "back"
			convertBack(rt, res, resp)
		}
		return resp
	}
	return bad(fmt.Errorf("unknown route %q", route))
}

// ---------------------------------------------------------------------------
// random deeper cases (V leg)

var genCtors = []string{"ptr", "slice", "arr1", "arr2", "map", "s1", "s2", "iface"}
var genLeaves = []string{"bool", "int8", "int16", "int32", "int64", "int", "uint8", "uint16", "uint32", "uint64", "uint",
	"float32", "float64", "string", "time", "MyInt", "MyStr", "MyFloat", "MyBool", "Duration", "MyU64", "MyU8", "MyI8", "MyF32", "MyList", "MyMap", "Rec", "Hid", "MyStrs"}

func genCases(seed int64, n, depth int) []N {
	rng := rand.New(rand.NewSource(seed))
	var out []N
	for len(out) < n {
		d := 3 + rng.Intn(depth-2)
		chain := make([]string, 0, d+1)
		for i := 0; i < d; i++ {
			chain = append(chain, genCtors[rng.Intn(len(genCtors))])
		}
		chain = append(chain, genLeaves[rng.Intn(len(genLeaves))])
		ex := expand(chain)
		classes := []string{"zero", "min", "max", "typ"}
		for i, c := range ex[:len(ex)-1] {
			if c == "ptr" || c == "slice" || c == "map" || c == "iface" {
				classes = append(classes, "nil"+strconv.Itoa(i))
			}
			if c == "slice" || c == "map" {
				classes = append(classes, "empty"+strconv.Itoa(i))
			}
		}
		cls := classes[rng.Intn(len(classes))]
		routes := []string{"global", "field_read", "field_write"}
		last := chain[len(chain)-1]
		if cls == "max" && (last == "uint64" || last == "uint") {
			routes = routes[:2] // no script value exists that could be written
		}
		if chain[0] == "iface" {
			routes = routes[1:]
		}
		out = append(out, N{"id": len(out) + 1, "t": chain, "c": cls, "r": routes[rng.Intn(len(routes))], "w": leafNode("na", "")})
	}
	return out
}

func main() {
	run.Register("boundary", handle)
	run.MaybeWorker()
	if len(os.Args) < 2 {
		fmt.Fprintln(os.Stderr, "usage: boundary run|gen|pool ...")
		os.Exit(2)
	}
	fs := flag.NewFlagSet(os.Args[1], flag.ExitOnError)
	in := fs.String("in", "", "input ndjson")
	out := fs.String("out", "", "output ndjson")
	jobs := fs.Int("j", runtime.NumCPU(), "workers")
	seed := fs.Int64("seed", 1, "seed")
	n := fs.Int("n", 1000, "number of random cases")
	depth := fs.Int("depth", 5, "max constructor depth of random chains")
	fs.Parse(os.Args[2:])
	switch os.Args[1] {
	case "run":
		reqs, err := run.ReadNDJSON(*in)
		if err != nil {
			fmt.Fprintln(os.Stderr, err)
			os.Exit(2)
		}
		p := run.NewPool("boundary", *jobs)
		resps := p.Map(reqs, 20*time.Second)
		for i, r := range resps {
			if _, ok := r["id"]; !ok { // crash / hang: the worker did not answer
				r["id"], r["t"], r["c"], r["r"], r["w"] = reqs[i]["id"], reqs[i]["t"], reqs[i]["c"], reqs[i]["r"], reqs[i]["w"]
				r["msg"], r["phase"], r["script"], r["back"] = fmt.Sprint(r["stderr"]), "", leafNode("na", ""), leafNode("na", "")
				r["back_k"], r["typeok"], r["calls"] = "na", true, 0
				delete(r, "stderr")
				delete(r, "exit")
			}
		}
		if err := run.WriteNDJSON(*out, resps); err != nil {
			fmt.Fprintln(os.Stderr, err)
			os.Exit(2)
		}
		fmt.Fprintf(os.Stderr, "cases=%d crashes=%d\n", len(reqs), p.Crashes)
	case "gen":
		if *depth < 3 {
			*depth = 3
		}
		if err := run.WriteNDJSON(*out, genCases(*seed, *n, *depth)); err != nil {
			fmt.Fprintln(os.Stderr, err)
			os.Exit(2)
		}
	case "pool":
		var keys []string
		for k := range pool {
			keys = append(keys, k)
		}
		sort.Strings(keys)
		for _, k := range keys {
			fmt.Println(k)
		}
	default:
		fmt.Fprintln(os.Stderr, "unknown command", os.Args[1])
		os.Exit(2)
	}
}
