// vmrun: C07 / C06 driver.
//
//	vmrun hist -in hist.ndjson -out f      replay histories of invocations on ONE reused VM (C07)
//	vmrun cancel -in scen.ndjson -out f    cancellation scenarios (C06)
package main

import (
	"context"
	"errors"
	"flag"
	"fmt"
	"github.com/risor-io/risor/importer"
	"os"
	"path/filepath"
	"runtime"
	"strings"
	"sync"
	"sync/atomic"
	"time"

	"github.com/risor-io/risor"
	"github.com/risor-io/risor/compiler"
	"github.com/risor-io/risor/object"
	ros "github.com/risor-io/risor/os"
	"github.com/risor-io/risor/parser"
	"github.com/risor-io/risor/vm"

	"verifharness/run"
)

type N = map[string]any

// ---------------------------------------------------------------- event log (hook H2)
type evlog struct {
	mu     sync.Mutex
	target *vm.VirtualMachine
	events []any
}

func (l *evlog) add(e N) {
	l.mu.Lock()
	l.events = append(l.events, e)
	l.mu.Unlock()
}

func installHook(l *evlog) {
	vm.VerifEvent = func(ev string, m *vm.VirtualMachine, a int64, other *vm.VirtualMachine) {
		if m != l.target {
			return
		}
		l.add(N{"ev": ev, "gen": a})
	}
}

func compileSnippet(src string, globals []string) (*compiler.Code, error) {
	prog, err := parser.Parse(context.Background(), src)
	if err != nil {
		return nil, err
	}
	cfg := risor.NewConfig()
	opts := cfg.CompilerOpts()
	opts = append(opts, compiler.WithGlobalNames(globals))
	return compiler.Compile(prog, opts...)
}

const grace = 25 * time.Millisecond

// histWorker replays one history on one VM (C07).
func histWorker(req N) (resp N) {
	defer func() {
		vm.VerifEvent = nil
		if r := recover(); r != nil {
			resp = N{"k": "gopanic", "msg": fmt.Sprint(r)}
		}
	}()
	invs := req["inv"].([]any)
	n := len(invs)
	ctxs := make([]context.Context, n+1)
	cancels := make([]context.CancelFunc, n+1)
	for i := 1; i <= n; i++ {
		if k, _ := invs[i-1].(N)["ctx"].(string); k == "background" {
			ctxs[i], cancels[i] = context.Background(), func() {}
		} else {
			ctxs[i], cancels[i] = context.WithCancel(context.Background())
		}
	}
	defer func() {
		for i := 1; i <= n; i++ {
			cancels[i]()
		}
	}()
	log := &evlog{}
	var counter int64
	var current int           // index of the invocation in progress
	var pending map[int][]int // invocation -> earlier contexts to cancel while it runs
	pending = map[int][]int{}
	var spins int64
	bump := object.NewBuiltin("bump", func(ctx context.Context, args ...object.Object) object.Object {
		return object.NewInt(atomic.AddInt64(&counter, 1))
	})
	// poke(): cancel the contexts of earlier invocations from inside the running one, then wait a
	// grace period so that a stale watcher has the chance to act
	poke := object.NewBuiltin("poke", func(ctx context.Context, args ...object.Object) object.Object {
		for _, c := range pending[current] {
			log.add(N{"ev": "cancel", "ctx": c})
			cancels[c]()
		}
		if len(pending[current]) > 0 {
			time.Sleep(grace)
		}
		pending[current] = nil
		return object.Nil
	})
	// spin(): called in the loop of a "cancelled" invocation; cancels the invocation's own context
	// after a few iterations
	spin := object.NewBuiltin("spin", func(ctx context.Context, args ...object.Object) object.Object {
		if atomic.AddInt64(&spins, 1) == 5 {
			log.add(N{"ev": "cancel", "ctx": current})
			cancels[current]()
		}
		return object.Nil
	})
	// boom(): a host builtin that panics (a Go panic unwinding through many script frames)
	boom := object.NewBuiltin("boom", func(ctx context.Context, args ...object.Object) object.Object {
		panic("boom: host builtin panicked")
	})
	// modules m1..m8 (all alike): the body fails or spins until cancelled when the driver says so. A failing
	// import keeps its module name for the next attempt; a successful one moves on to the next name
	// (a module that was loaded is served from the VM's cache, which is not an "earlier outcome")
	var modFail, modCancel int64
	modfail := object.NewBuiltin("modfail", func(ctx context.Context, args ...object.Object) object.Object {
		if atomic.LoadInt64(&modFail) == 1 {
			return object.Errorf("module body failed")
		}
		return object.Nil
	})
	modcancel := object.NewBuiltin("modcancel", func(ctx context.Context, args ...object.Object) object.Object {
		return object.NewBool(atomic.LoadInt64(&modCancel) == 1)
	})
	// dpoke(): the deferred call of the library functions do_normal / do_error / do_panic: exactly one per invocation
	var dcount int64
	dpoke := object.NewBuiltin("dpoke", func(ctx context.Context, args ...object.Object) object.Object {
		atomic.AddInt64(&dcount, 1)
		return object.Nil
	})
	globals := map[string]any{"bump": bump, "poke": poke, "spin": spin, "boom": boom, "modfail": modfail, "modcancel": modcancel, "dpoke": dpoke}
	gnames := []string{"bump", "poke", "spin", "boom", "modfail", "modcancel", "dpoke"}
	cfg := risor.NewConfig()
	for k := range cfg.Globals() {
		gnames = append(gnames, k)
	}
	modDir, derr := os.MkdirTemp("", "vmrun-mods")
	if derr != nil {
		return N{"k": "nomods", "msg": derr.Error()}
	}
	defer os.RemoveAll(modDir)
	const nMods = 8
	for j := 1; j <= nMods; j++ {
		body := "modfail()\nif modcancel() {\nfor { spin() }\n}\nval := 7\n"
		if werr := os.WriteFile(filepath.Join(modDir, fmt.Sprintf("m%d.risor", j)), []byte(body), 0o644); werr != nil {
			return N{"k": "nomods", "msg": werr.Error()}
		}
	}
	imp := importer.NewLocalImporter(importer.LocalImporterOptions{GlobalNames: gnames, SourceDir: modDir})
	vmOpts := append(cfg.VMOpts(), vm.WithGlobals(globals), vm.WithImporter(imp))
	modIdx := 1
	snippet := map[string]string{
		"normal":     "n := bump()\npoke()\nx := 0\nfor i := 0; i < 300; i++ { x += i }\nn * 1000 + x % 7",
		"error":      "n := bump()\npoke()\nfunc f(k) { if k == 0 { return [][1] }\n return f(k - 1) }\nf(3)",
		"panic":      "n := bump()\npoke()\nz := 0\n1 / z",
		"overflow":   "n := bump()\npoke()\nfunc g(k) { return g(k + 1) }\ng(0)",
		"opoverflow": "n := bump()\npoke()\nfunc og(k) { return 1 + og(k + 1) }\nog(0)",
		"deeppanic":  "n := bump()\npoke()\nfunc dp(k) { if k == 0 { return boom() }\n return dp(k - 1) }\ndp(600)",
		"cancelled":  "n := bump()\npoke()\nfor { spin() }",
		// deferred calls that defer again, 40 deep (completes), and 1000 deep ending in unbounded recursion (a Go panic
		// the API recovers while the deferred calls are in progress)
		// fails at top level while operands of the statement are pending (the items of a list literal)
		"toperror": "n := bump()\npoke()\n[1, 2, 3, 4, 5, [][1]]",
		"defernest":  "n := bump()\npoke()\nfunc dn(k) { defer func() { if k > 0 { dn(k - 1) } }()\n return k }\ndn(40)\nx := 0\nfor i := 0; i < 300; i++ { x += i }\nn * 1000 + x % 7",
		"deferpanic": "n := bump()\npoke()\nfunc ovf(k) { return ovf(k + 1) }\nfunc dd(k) { defer func() { if k == 0 { ovf(0) } else { dd(k - 1) } }()\n return k }\ndd(1000)",
		// a module of the default globals (no importer involved)
		"impmod": "n := bump()\npoke()\nimport math\nn * 1000 + math.abs(-1)",
	}
	// import kinds: the snippet and the library function depend on the module name in use
	impSnippet := func(j int) string {
		return fmt.Sprintf("n := bump()\npoke()\nimport m%d\nn * 1000 + m%d.val - 6", j, j)
	}
	// functions for the Call API come from a library code object run first (not part of the history)
	lib := "func do_normal() { defer dpoke(); " + strings.ReplaceAll(snippet["normal"], "\n", "; ") + " }\n" +
		"func do_error() { defer dpoke(); n := bump(); poke(); func f(k) { if k == 0 { return [][1] }; return f(k - 1) }; return f(3) }\n" +
		"func do_panic() { defer dpoke(); n := bump(); poke(); z := 0; return 1 / z }\n" +
		"func do_overflow() { n := bump(); poke(); func g(k) { return g(k + 1) }; return g(0) }\n" +
		"func do_opoverflow() { n := bump(); poke(); func og(k) { return 1 + og(k + 1) }; return og(0) }\n" +
		"func do_deeppanic() { n := bump(); poke(); func dp(k) { if k == 0 { return boom() }; return dp(k - 1) }; return dp(600) }\n" +
		"func do_cancelled() { n := bump(); poke(); for { spin() } }\n" +
		"func do_toperror() { n := bump(); poke(); return [1, 2, 3, 4, 5, [][1]] }\n" +
		"func do_defernest() { n := bump(); poke(); func dn(k) { defer func() { if k > 0 { dn(k - 1) } }(); return k }; dn(40); x := 0; for i := 0; i < 300; i++ { x += i }; return n * 1000 + x % 7 }\n" +
		"func do_deferpanic() { n := bump(); poke(); func ovf(k) { return ovf(k + 1) };func dd(k) { defer func() { if k == 0 { ovf(0) } else { dd(k - 1) } }(); return k }; return dd(1000) }\n" +
		"func do_impmod() { n := bump(); poke(); import math; return n * 1000 + math.abs(-1) }\n"
	for j := 1; j <= nMods; j++ {
		lib += fmt.Sprintf("func do_imp%d() { n := bump(); poke(); import m%d; return n * 1000 + m%d.val - 6 }\n", j, j, j)
	}
	// one code object used by every "RisorCall" invocation (risor.Call with WithVM runs it, then calls a function of it);
	// do_rcnormal depends on top-level state that each run initialises
	rcCode, rcErr := compileSnippet(lib+"calls := 0\nfunc do_rcnormal() { calls += 1; n := bump(); poke(); return n * 1000 + calls }\n", gnames)
	if rcErr != nil {
		return N{"k": "nolib", "msg": rcErr.Error()}
	}
	libCode, err := compileSnippet(lib, gnames)
	if err != nil {
		return N{"k": "nolib", "msg": err.Error()}
	}
	machine, err := vm.NewEmpty()
	if err != nil {
		return N{"k": "novm", "msg": err.Error()}
	}
	log.target = machine
	if err := machine.RunCode(context.Background(), libCode, vmOpts...); err != nil {
		return N{"k": "nolib", "msg": err.Error()}
	}
	fns := map[string]*object.Function{}
	fnNames := []string{"normal", "error", "panic", "deeppanic", "overflow", "opoverflow", "cancelled", "impmod", "defernest", "deferpanic", "toperror"}
	for j := 1; j <= nMods; j++ {
		fnNames = append(fnNames, fmt.Sprintf("imp%d", j))
	}
	for _, k := range fnNames {
		o, err := machine.Get("do_" + k)
		if err != nil {
			return N{"k": "nolib", "msg": err.Error()}
		}
		fns[k] = o.(*object.Function)
	}
	installHook(log)
	var results []any
	sp0 := machine.VerifSP()
	base := 1 // the library run was invocation 1 of the VM: generations are offset by one
	for i := 1; i <= n; i++ {
		inv := invs[i-1].(N)
		kind := inv["kind"].(string)
		current = i
		atomic.StoreInt64(&spins, 0)
		for _, c := range inv["late"].([]any) {
			pending[i] = append(pending[i], int(c.(float64)))
		}
		before := atomic.LoadInt64(&counter)
		var val object.Object
		var rerr error
		isImport := kind == "impok" || kind == "imperr" || kind == "impcancel"
		atomic.StoreInt64(&modFail, 0)
		atomic.StoreInt64(&modCancel, 0)
		if kind == "imperr" {
			atomic.StoreInt64(&modFail, 1)
		} else if kind == "impcancel" {
			atomic.StoreInt64(&modCancel, 1)
		}
		if isImport && modIdx > nMods {
			return N{"k": "nomods", "msg": "history imports more modules than were prepared"}
		}
		fnKey, src := kind, snippet[kind]
		if isImport {
			fnKey, src = fmt.Sprintf("imp%d", modIdx), impSnippet(modIdx)
		}
		var callArgs []object.Object
		if kind == "badargs" {
			// a call with one argument too many: refused before the function runs
			fnKey, src = "normal", "n := bump()\npoke()\ndo_normal(1)"
			callArgs = []object.Object{object.NewInt(1)}
		}
		escaped := ""
		if inv["api"] == "Call" {
			func() {
				defer func() {
					if r := recover(); r != nil {
						escaped = fmt.Sprint(r)
					}
				}()
				val, rerr = machine.Call(ctxs[i], fns[fnKey], callArgs)
			}()
		} else if inv["api"] == "RisorCall" {
			name := "do_" + fnKey
			if kind == "normal" {
				name = "do_rcnormal"
			}
			func() {
				defer func() {
					if r := recover(); r != nil {
						escaped = fmt.Sprint(r)
					}
				}()
				val, rerr = risor.Call(ctxs[i], rcCode, name, callArgs, risor.WithVM(machine), risor.WithGlobals(globals))
			}()
			for _, k := range fnNames {
				if o, gerr := machine.Get("do_" + k); gerr == nil {
					if fn, ok := o.(*object.Function); ok {
						fns[k] = fn
					}
				}
			}
		} else {
			// RunCode replaces the loaded code, so every snippet carries the function library with it and
			// later Call invocations use the functions of the code that is loaded then (as risor.Call does)
			code, cerr := compileSnippet(lib+src, gnames)
			if cerr != nil {
				return N{"k": "nosnippet", "msg": cerr.Error()}
			}
			func() {
				defer func() {
					if r := recover(); r != nil {
						escaped = fmt.Sprint(r)
					}
				}()
				rerr = machine.RunCode(ctxs[i], code, vmOpts...)
			}()
			if rerr == nil {
				if tos, ok := machine.TOS(); ok {
					val = tos
				}
			}
			for _, k := range fnNames {
				if o, gerr := machine.Get("do_" + k); gerr == nil {
					if fn, ok := o.(*object.Function); ok {
						fns[k] = fn
					}
				}
			}
		}
		// classify what the caller of the API saw
		obs := ""
		switch {
		case escaped != "":
			// a Go panic came out of the API call itself (not an error value)
			obs = "gopanic"
			rerr = fmt.Errorf("Go panic out of the API call: %s", escaped)
		case rerr == nil:
			want := (before+1)*1000 + 44850%7
			if iv, ok := val.(*object.Int); (kind == "normal" || kind == "impok" || kind == "impmod" || kind == "defernest") && ok && iv.Value() == want {
				obs = "value"
			} else if val == nil {
				obs = "cut" // success without the value
			} else {
				obs = "wrong:" + val.Inspect()
			}
		case errors.Is(rerr, context.Canceled) || errors.Is(rerr, context.DeadlineExceeded):
			obs = "ctxerr"
		case strings.HasPrefix(rerr.Error(), "panic:"):
			obs = "panic"
		case strings.HasPrefix(rerr.Error(), "index error"):
			obs = "index error"
		default:
			obs = "error"
		}
		if kind == "badargs" && inv["api"] != "RunCode" && atomic.LoadInt64(&counter) == before {
			atomic.AddInt64(&counter, 1) // the refused call never reached bump()
		}
		if atomic.LoadInt64(&counter) != before+1 {
			obs += "+effects"
		}
		// the deferred call of a library function runs exactly once per invocation of that function
		if d := atomic.SwapInt64(&dcount, 0); (inv["api"] == "Call" && (kind == "normal" || kind == "error" || kind == "panic") && d != 1) ||
			(inv["api"] == "RunCode" && d != 0) {
			obs += fmt.Sprintf("+deferred:%d", d)
		}
		if kind == "impok" && rerr == nil {
			modIdx++
		}
		// for the trace: how the run ended in the terms of VMRun
		result := "complete"
		if obs == "ctxerr" {
			result = "ctxerr"
		} else if obs == "cut" {
			result = "cut"
		}
		log.add(N{"ev": "return", "gen": i + base, "result": result})
		msg := ""
		if rerr != nil {
			msg = rerr.Error()
			if len(msg) > 120 {
				msg = msg[:120]
			}
		}
		results = append(results, N{"obs": obs, "msg": msg, "sp": machine.VerifSP()})
	}
	vm.VerifEvent = nil
	// remap generations and contexts to 1..n (the library run used generation 1)
	var events []any
	log.mu.Lock()
	for _, e := range log.events {
		ev := e.(N)
		if g, ok := ev["gen"].(int64); ok {
			ev["gen"] = g - int64(base)
		} else if g, ok := ev["gen"].(int); ok {
			ev["gen"] = g - base
		}
		events = append(events, ev)
	}
	log.mu.Unlock()
	return N{"k": "ok", "results": results, "events": events, "sp0": sp0}
}

// ---------------------------------------------------------------- C06 scenarios
type ticker struct{ c [8]int64 }

func cancelWorker(req N) (resp N) {
	defer func() {
		if r := recover(); r != nil {
			resp = N{"k": "gopanic", "msg": fmt.Sprint(r)}
		}
	}()
	src := req["src"].(string)
	cancelAt := int64(req["cancel_at"].(float64)) // tick count of id 0 at which the context is cancelled; 0 = deadline
	deadline := time.Duration(req["deadline_ms"].(float64)) * time.Millisecond
	var tk ticker
	ctx, cancel := context.WithCancel(context.Background())
	if cancelAt == 0 {
		ctx, cancel = context.WithTimeout(context.Background(), deadline)
	}
	defer cancel()
	var cancelledAt atomic.Int64
	tick := object.NewBuiltin("tick", func(c context.Context, args ...object.Object) object.Object {
		id := 0
		if len(args) > 0 {
			if iv, ok := args[0].(*object.Int); ok {
				id = int(iv.Value()) % 8
			}
		}
		n := atomic.AddInt64(&tk.c[id], 1)
		if cancelAt > 0 && id == 0 && n == cancelAt {
			cancelledAt.Store(time.Now().UnixNano())
			cancel()
		}
		return object.Nil
	})
	stdout := ros.NewBufferFile(nil)
	vos := ros.NewVirtualOS(ctx, ros.WithStdout(stdout))
	g0 := runtime.NumGoroutine()
	t0 := time.Now()
	var err error
	if reuse, _ := req["reuse"].(string); reuse == "wait" {
		// one VM, two invocations under DIFFERENT contexts: a run under a host context that stays live starts a
		// thread and keeps it in a global; later a Call under the request's context (deadline) waits for that
		// thread. The Call must return when ITS context is done. Afterwards the host context is cancelled, which
		// must stop the thread.
		hostCtx, hostCancel := context.WithCancel(context.Background())
		defer hostCancel()
		hvos := ros.NewVirtualOS(hostCtx, ros.WithStdout(stdout))
		opts := []risor.Option{risor.WithOS(hvos), risor.WithConcurrency(), risor.WithGlobal("tick", tick)}
		machine, verr := vm.NewEmpty()
		if verr != nil {
			return N{"k": "novm", "msg": verr.Error()}
		}
		cfg := risor.NewConfig(opts...)
		prog, perr := parser.Parse(context.Background(), "import time\nt := spawn(func() { for { tick(7)\n time.sleep(0.002) } })\nfunc join() { return t.wait() }\n1")
		if perr != nil {
			return N{"k": "nofirst", "msg": perr.Error()}
		}
		code, cerr := compiler.Compile(prog, cfg.CompilerOpts()...)
		if cerr != nil {
			return N{"k": "nofirst", "msg": cerr.Error()}
		}
		if ferr := machine.RunCode(hostCtx, code, cfg.VMOpts()...); ferr != nil {
			return N{"k": "nofirst", "msg": ferr.Error()}
		}
		jo, gerr := machine.Get("join")
		if gerr != nil {
			return N{"k": "nofirst", "msg": gerr.Error()}
		}
		t0 = time.Now()
		_, err = machine.Call(ctx, jo.(*object.Function), nil)
		hostCancel() // the thread of the first run must stop with ITS context: its ticks are sampled below
	} else if reuse == "busy" {
		// while the script runs, a host builtin it calls asks the SAME VM for a Call and a Run: both are refused
		// ("vm is already running", VMRun!RefusedStart: nothing changes) and the run in progress must still stop
		// when its context is done
		machine, verr := vm.NewEmpty()
		if verr != nil {
			return N{"k": "novm", "msg": verr.Error()}
		}
		var refused int64
		busy := object.NewBuiltin("zzbusy", func(c context.Context, args ...object.Object) object.Object {
			if len(args) == 1 {
				if fn, ok := args[0].(*object.Function); ok {
					if _, cerr := machine.Call(c, fn, nil); cerr != nil {
						atomic.AddInt64(&refused, 1)
					}
				}
			}
			if rerr := machine.Run(c); rerr != nil {
				atomic.AddInt64(&refused, 1)
			}
			return object.Nil
		})
		_, err = risor.Eval(ctx, "zzbusy(func() { return 1 })\n"+src, risor.WithOS(vos), risor.WithConcurrency(), risor.WithGlobal("tick", tick),
			risor.WithGlobal("zzbusy", busy), risor.WithVM(machine))
		if atomic.LoadInt64(&refused) != 2 {
			return N{"k": "nobusy", "msg": fmt.Sprintf("%d of 2 requests on the busy VM were refused (%v)", refused, err)}
		}
	} else if reuse != "" {
		// one VM, two runs under the SAME context, which is done before the second run starts: cancelled while
		// the VM was idle ("idle": the first run is a trivial program) or during the first run ("during": the
		// first run is the script itself, stopped by the cancellation). The second run must return at once.
		opts := []risor.Option{risor.WithOS(vos), risor.WithConcurrency(), risor.WithGlobal("tick", tick)}
		machine, verr := vm.NewEmpty()
		if verr != nil {
			return N{"k": "novm", "msg": verr.Error()}
		}
		first := "1"
		if reuse == "during" {
			first = src
		}
		// parse and compile with a live context (the parser gives up at once under a done context): the runs
		// themselves get the script's context
		cfg := risor.NewConfig(opts...)
		comp := func(text string) (*compiler.Code, error) {
			prog, perr := parser.Parse(context.Background(), text)
			if perr != nil {
				return nil, perr
			}
			return compiler.Compile(prog, cfg.CompilerOpts()...)
		}
		firstCode, cerr := comp(first)
		if cerr != nil {
			return N{"k": "nofirst", "msg": cerr.Error()}
		}
		secondCode, cerr := comp(src)
		if cerr != nil {
			return N{"k": "nofirst", "msg": cerr.Error()}
		}
		ferr := machine.RunCode(ctx, firstCode, cfg.VMOpts()...)
		if reuse == "idle" {
			if ferr != nil {
				return N{"k": "nofirst", "msg": ferr.Error()}
			}
			cancelledAt.Store(time.Now().UnixNano())
			cancel()
		} else if ctx.Err() == nil {
			return N{"k": "nofirst", "msg": fmt.Sprint("the first run was not cancelled: ", ferr)}
		}
		t0 = time.Now()
		cancelledAt.Store(t0.UnixNano())
		err = machine.RunCode(ctx, secondCode, cfg.VMOpts()...)
	} else {
		_, err = risor.Eval(ctx, src, risor.WithOS(vos), risor.WithConcurrency(), risor.WithGlobal("tick", tick))
	}
	ret := time.Now()
	afterReturn, _ := req["after_return"].(bool)
	if afterReturn {
		// the main code has finished: goroutines it started are still running under ctx; cancel it now
		time.Sleep(30 * time.Millisecond)
		cancel()
	}
	if cancelAt == 0 {
		cancelledAt.Store(t0.Add(deadline).UnixNano())
	}
	out := N{"k": "ok", "returned": true, "elapsed_ms": ret.Sub(t0).Milliseconds()}
	if afterReturn {
		out["after_return"] = true
		out["cancelled_after"] = cancelledAt.Load() == 0
	}
	if ca := cancelledAt.Load(); ca != 0 {
		out["after_cancel_ms"] = (ret.UnixNano() - ca) / 1e6
		out["cancelled"] = true
	} else {
		out["cancelled"] = false
	}
	switch {
	case err == nil:
		out["err"] = "nil"
	case errors.Is(err, context.Canceled) || errors.Is(err, context.DeadlineExceeded):
		out["err"] = "ctxerr"
	case strings.Contains(err.Error(), "context canceled") || strings.Contains(err.Error(), "deadline exceeded"):
		// the text of the context's error inside another error: errors.Is(err, ctx.Err()) is false for the host
		out["err"] = "ctxtext"
		out["msg"] = err.Error()
	default:
		out["err"] = "other"
		out["msg"] = err.Error()
	}
	// after the call has returned no script code may keep executing: sample the tick counters twice
	time.Sleep(time.Duration(req["settle_ms"].(float64)) * time.Millisecond)
	var s1 [8]int64
	for i := range s1 {
		s1[i] = atomic.LoadInt64(&tk.c[i])
	}
	time.Sleep(time.Duration(req["settle_ms"].(float64)) * time.Millisecond)
	advanced := []any{}
	for i := range s1 {
		if d := atomic.LoadInt64(&tk.c[i]) - s1[i]; d != 0 {
			advanced = append(advanced, N{"id": i, "ticks": d})
		}
	}
	out["advanced"] = advanced
	out["goroutines_left"] = runtime.NumGoroutine() - g0
	ticks := []any{}
	for i := range s1 {
		ticks = append(ticks, s1[i])
	}
	out["ticks"] = ticks
	return out
}

func main() {
	run.Register("hist", histWorker)
	run.Register("cancel", cancelWorker)
	run.MaybeWorker()
	if len(os.Args) < 2 {
		fmt.Fprintln(os.Stderr, "usage: vmrun hist|cancel ...")
		os.Exit(2)
	}
	mode := os.Args[1]
	fs := flag.NewFlagSet(mode, flag.ExitOnError)
	in := fs.String("in", "", "")
	out := fs.String("out", "", "")
	par := fs.Int("j", runtime.NumCPU(), "")
	per := fs.Int("per", 120, "seconds after which one request counts as hanging")
	fs.Parse(os.Args[2:])
	rows, err := run.ReadNDJSON(*in)
	if err != nil {
		fmt.Fprintln(os.Stderr, err)
		os.Exit(2)
	}
	pool := run.NewPool(mode, *par)
	resps := pool.Map(rows, time.Duration(*per)*time.Second)
	for i, r := range rows {
		r["res"] = resps[i]
	}
	if err := run.WriteNDJSON(*out, rows); err != nil {
		fmt.Fprintln(os.Stderr, err)
		os.Exit(2)
	}
}
