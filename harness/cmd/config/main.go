// config: C11 driver (scripts reach only the globals the host configuration allows).
//
//	config g0 -out g0.json
//	    build the base configuration (risor defaults + a small host module), walk the
//	    REAL object graph from cfg.Globals() by GetAttr closure and write it (plus the
//	    replacement objects used for overrides and the list of registrable names)
//	config run -cases cases.ndjson -out obs.ndjson [-workers N]
//	    per case {id, nodefaults, deny, ov, paths}: build the real risor.Config
//	    (WithoutGlobals / WithoutDefaultGlobals / WithGlobalOverride), walk its real graph,
//	    evaluate every access path in every style with risor.Eval under the configuration,
//	    then build a second base configuration and walk it (independence)
//
// Nodes are labelled (type|Inspect()|Go function name); labels - not pointers - are the
// identity shared with the TLA+ side because every Config builds fresh objects.
package main

import (
	"context"
	"encoding/json"
	"flag"
	"fmt"
	"github.com/risor-io/risor/vm"
	"os"
	"reflect"
	"runtime"
	"sort"
	"strings"
	"time"

	"github.com/risor-io/risor"
	"github.com/risor-io/risor/compiler"
	"github.com/risor-io/risor/object"
	ros "github.com/risor-io/risor/os"
	"github.com/risor-io/risor/parser"
	"github.com/risor-io/risor/token"

	"verifharness/run"
)

type N = map[string]any

// ---------------------------------------------------------------------------
// host globals and replacement objects (fresh per configuration, like a host would)

func hostFn(ctx context.Context, args ...object.Object) object.Object   { return object.NewInt(1) }
func hostLeaf(ctx context.Context, args ...object.Object) object.Object { return object.NewInt(2) }
func hostDeep(ctx context.Context, args ...object.Object) object.Object { return object.NewInt(3) }
func replFn(ctx context.Context, args ...object.Object) object.Object   { return object.NewInt(4) }
func fakeFn(ctx context.Context, args ...object.Object) object.Object   { return object.NewInt(5) }

// hostGlobals: one builtin registered under TWO top-level names (a true alias: the same
// object), and a module with nested modules (dotted names with 2, 3 and 4 parts).
func hostGlobals() map[string]any {
	alias := object.NewBuiltin("vhostfn", hostFn)
	deep := object.NewBuiltinsModule("vdeep", map[string]object.Object{
		"leaf":  object.NewBuiltin("leaf", hostDeep),
		"other": object.NewBuiltin("other", hostDeep),
	})
	sub := object.NewBuiltinsModule("vsub", map[string]object.Object{
		"leaf": object.NewBuiltin("leaf", hostLeaf),
		"deep": deep,
	})
	mod := object.NewBuiltinsModule("vhost", map[string]object.Object{
		"fn":  object.NewBuiltin("fn", hostFn),
		"k":   object.NewString("vhost-constant"),
		"sub": sub,
	})
	return map[string]any{"vhostfn": alias, "vhostfn2": alias, "vhost": mod}
}

// replacement kinds: "fn" a host builtin, "mod" a host module
func replacement(kind string) object.Object {
	switch kind {
	case "fn":
		return object.NewBuiltin("verif_repl", replFn)
	case "mod":
		return object.NewBuiltinsModule("verif_fake", map[string]object.Object{
			"getenv": object.NewBuiltin("getenv", fakeFn),
			"leaf":   object.NewBuiltin("leaf", fakeFn),
		})
	}
	panic("unknown replacement kind " + kind)
}

var replKinds = []string{"fn", "mod"}

// ---------------------------------------------------------------------------
// labels and the graph walk

func label(o object.Object) string {
	if o == nil {
		return "gonil||"
	}
	fn := ""
	if b, ok := o.(*object.Builtin); ok && b.Value() != nil {
		fn = runtime.FuncForPC(reflect.ValueOf(b.Value()).Pointer()).Name()
		fn = strings.TrimPrefix(fn, "github.com/risor-io/risor/")
	}
	return fmt.Sprintf("%s|%s|%s", o.Type(), o.Inspect(), fn)
}

// identity objects are compared by pointer inside one graph; values by label
func hasIdentity(o object.Object) bool {
	switch o.(type) {
	case *object.String, *object.Int, *object.Float, *object.Bool, *object.NilType, *object.Byte:
		return false
	}
	return true
}

type graph struct {
	nodes     []N
	index     map[string]int           // label -> node index (1-based)
	ptr       map[string]object.Object // label -> identity object
	ambiguous []string
	ctx       context.Context
}

func newGraph(ctx context.Context) *graph {
	return &graph{index: map[string]int{}, ptr: map[string]object.Object{}, ctx: ctx}
}

// refAttrNames: the attribute names of the reference universe (specs/ConfigNames.json, VERIF_CONFIG_NAMES). A module
// attribute that the module no longer lists but still serves through GetAttr stays in the object graph.
var refAttrNames = func() []string {
	b, err := os.ReadFile(os.Getenv("VERIF_CONFIG_NAMES"))
	if err != nil {
		return nil
	}
	var doc struct {
		AttrNames []string `json:"attr_names"`
	}
	if json.Unmarshal(b, &doc) != nil {
		return nil
	}
	return doc.AttrNames
}()

func attrNames(o object.Object) []string {
	switch v := o.(type) {
	case *object.Module:
		names := object.VerifModuleAttrNames(v)
		have := map[string]bool{}
		for _, n := range names {
			have[n] = true
		}
		for _, n := range refAttrNames {
			if !have[n] && n != "__name__" {
				if _, ok := v.GetAttr(n); ok {
					names = append(names, n)
				}
			}
		}
		sort.Strings(names)
		return append(names, "__name__")
	case *object.Builtin:
		return []string{"__module__", "__name__"}
	}
	return nil
}

// add returns the node index of o, walking it on first visit.
func (g *graph) add(o object.Object) int {
	l := label(o)
	if idx, ok := g.index[l]; ok {
		if hasIdentity(o) && g.ptr[l] != o {
			g.ambiguous = append(g.ambiguous, l)
		}
		return idx
	}
	node := N{"l": l, "t": string(o.Type()), "fn": "", "a": N{}, "res": 0}
	if j := strings.LastIndex(l, "|"); j >= 0 {
		node["fn"] = l[j+1:]
	}
	g.nodes = append(g.nodes, node)
	idx := len(g.nodes)
	g.index[l] = idx
	if hasIdentity(o) {
		g.ptr[l] = o
	}
	attrs := N{}
	for _, a := range attrNames(o) {
		x, ok := o.GetAttr(a)
		if !ok || x == nil {
			continue
		}
		attrs[a] = g.add(x)
	}
	node["a"] = attrs
	if r, ok := o.(object.AttrResolver); ok {
		name := ""
		if d, ok := o.(*object.DynamicAttr); ok {
			name = strings.TrimSuffix(strings.TrimPrefix(d.Inspect(), "dynamic_attr("), ")")
		}
		func() {
			defer func() { recover() }()
			if x, err := r.ResolveAttr(g.ctx, name); err == nil && x != nil {
				node["res"] = g.add(x)
			}
		}()
	}
	return idx
}

func walk(ctx context.Context, globals map[string]any) (*graph, N) {
	g := newGraph(ctx)
	names := make([]string, 0, len(globals))
	for k := range globals {
		names = append(names, k)
	}
	sort.Strings(names)
	env := N{}
	for _, n := range names {
		env[n] = g.add(object.FromGoType(globals[n]))
	}
	return g, env
}

func (g *graph) json(env N) N {
	amb := []any{}
	for _, a := range g.ambiguous {
		amb = append(amb, a)
	}
	return N{"nodes": g.nodes, "env": env, "ambiguous": amb}
}

func osCtx() (context.Context, context.CancelFunc) {
	ctx, cancel := context.WithTimeout(context.Background(), 5*time.Second)
	vos := ros.NewVirtualOS(ctx, ros.WithStdout(ros.NewBufferFile(nil)))
	return ros.WithOS(ctx, vos), cancel
}

func baseOptions() []risor.Option {
	return []risor.Option{risor.WithGlobals(hostGlobals())}
}

func baseGraph() N {
	ctx, cancel := osCtx()
	defer cancel()
	cfg := risor.NewConfig(baseOptions()...)
	g, env := walk(ctx, cfg.Globals())
	return g.json(env)
}

// ---------------------------------------------------------------------------
// g0

func registrable(g N) []any {
	// every top-level name and every dotted module-member name (sequences of parts)
	nodes := g["nodes"].([]N)
	var out []any
	var rec func(prefix []string, idx int, depth int)
	rec = func(prefix []string, idx int, depth int) {
		node := nodes[idx-1]
		if node["t"] != "module" || depth > 6 {
			return
		}
		for _, a := range sortedKeys(node["a"].(N)) {
			if a == "__name__" {
				continue
			}
			p := append(append([]string{}, prefix...), a)
			out = append(out, p)
			rec(p, node["a"].(N)[a].(int), depth+1)
		}
	}
	env := g["env"].(N)
	for _, n := range sortedKeys(env) {
		out = append(out, []string{n})
		rec([]string{n}, env[n].(int), 1)
	}
	return out
}

func sortedKeys(m N) []string {
	ks := make([]string, 0, len(m))
	for k := range m {
		ks = append(ks, k)
	}
	sort.Strings(ks)
	return ks
}

func cmdG0(args []string) {
	fs := flag.NewFlagSet("g0", flag.ExitOnError)
	out := fs.String("out", "g0.json", "")
	fs.Parse(args)
	g := baseGraph()
	// host names
	host := []any{}
	hn := []string{}
	for k := range hostGlobals() {
		hn = append(hn, k)
	}
	sort.Strings(hn)
	for _, k := range hn {
		host = append(host, k)
	}
	// replacement subgraphs, one graph per kind (TLA+ merges them into the node universe)
	repl := []any{}
	ctx, cancel := osCtx()
	defer cancel()
	for _, k := range replKinds {
		rg := newGraph(ctx)
		root := rg.add(replacement(k))
		repl = append(repl, N{"kind": k, "root": root, "nodes": rg.nodes})
	}
	doc := N{"graph": g, "host": host, "repl": repl, "names": registrable(g)}
	b, err := json.Marshal(doc)
	if err != nil {
		fatal(err)
	}
	if err := os.WriteFile(*out, append(b, '\n'), 0o644); err != nil {
		fatal(err)
	}
	nodes := g["nodes"].([]N)
	edges := 0
	for _, n := range nodes {
		edges += len(n["a"].(N))
	}
	fmt.Fprintf(os.Stderr, "g0: %d top-level names, %d nodes, %d edges, %d registrable names\n",
		len(g["env"].(N)), len(nodes), edges, len(doc["names"].([]any)))
}

// ---------------------------------------------------------------------------
// run: one case = one configuration

func strs(v any) []string {
	var out []string
	if v == nil {
		return out
	}
	for _, x := range v.([]any) {
		out = append(out, x.(string))
	}
	return out
}

var styles = []string{"dot", "getattr", "import", "importas", "from", "fromas", "fwd"}

func isIdent(s string) bool { return token.LookupIdentifier(s) == token.IDENT }

// render returns the script for path p in the given style ("" when the style cannot be
// written for p: from-import needs a member, and a name that is a reserved word - the
// member `as` of module errors - cannot follow `import`).
func render(p []string, style string) string {
	if style != "dot" && style != "getattr" {
		if !isIdent(p[0]) || (strings.HasPrefix(style, "from") && len(p) >= 2 && !isIdent(p[1])) {
			return ""
		}
	}
	hops := func(e string, rest []string, get bool) string {
		for _, a := range rest {
			if get {
				e = fmt.Sprintf("getattr(%s, %q)", e, a)
			} else {
				e = e + "." + a
			}
		}
		return e
	}
	switch style {
	case "fwd":
		// the script declares a function with the top-level name itself and reads the name before the definition
		if len(p) != 1 {
			return ""
		}
		return "zq := " + p[0] + "\nfunc " + p[0] + "() {\n}\nzq"
	case "dot":
		return hops(p[0], p[1:], false)
	case "getattr":
		return hops(p[0], p[1:], true)
	case "import":
		return "import " + p[0] + "\n" + hops(p[0], p[1:], false)
	case "importas":
		return "import " + p[0] + " as zq\n" + hops("zq", p[1:], false)
	case "from":
		if len(p) < 2 {
			return ""
		}
		return "from " + p[0] + " import " + p[1] + "\n" + hops(p[1], p[2:], false)
	case "fromas":
		if len(p) < 2 {
			return ""
		}
		return "from " + p[0] + " import " + p[1] + " as zq\n" + hops("zq", p[2:], false)
	}
	return ""
}

// evalAttempt evaluates src under the configuration, on a fresh VM or (reused) on a VM that an earlier
// evaluation under the DEFAULT configuration has used: what that evaluation loaded must not be reachable.
func evalAttempt(src string, opts []risor.Option, repl map[object.Object]string, reused bool) (res N) {
	return evalAttemptMode(src, opts, repl, map[bool]string{false: "fresh", true: "reused"}[reused])
}

// evalAttemptMode: mode "sharedmap" hands the configuration a host globals MAP that an evaluation under the default
// configuration was given before (opts[0] is the WithGlobals option of baseOptions): configurations must not
// communicate through the host's map.
func evalAttemptMode(src string, opts []risor.Option, repl map[object.Object]string, mode string) (res N) {
	return evalAttemptModeB(src, opts, nil, repl, mode)
}

func evalAttemptModeB(src string, opts, optsB []risor.Option, repl map[object.Object]string, mode string) (res N) {
	reused := mode == "reused"
	ctx, cancel := context.WithTimeout(context.Background(), 5*time.Second)
	defer cancel()
	vos := ros.NewVirtualOS(ctx, ros.WithStdout(ros.NewBufferFile(nil)))
	defer func() {
		if r := recover(); r != nil {
			res = N{"ok": false, "l": "gopanic: " + fmt.Sprint(r), "r": ""}
		}
	}()
	all := append([]risor.Option{risor.WithOS(vos)}, opts...)
	if mode == "sharedmap" {
		m := hostGlobals()
		if _, err := risor.Eval(ctx, "vhost.k", risor.WithOS(vos), risor.WithGlobals(m)); err != nil {
			return N{"ok": false, "l": "harness: warm-up failed: " + err.Error(), "r": ""}
		}
		all = append([]risor.Option{risor.WithOS(vos), risor.WithGlobals(m)}, opts[1:]...)
	}
	if mode == "preloaded" {
		// a VM that the host CONSTRUCTED for the default configuration (vm.New registers its modules) but has not
		// run yet: the first evaluation on it is under this configuration
		cfgD := risor.NewConfig(append([]risor.Option{risor.WithOS(vos)}, baseOptions()...)...)
		prog, perr := parser.Parse(ctx, "1")
		if perr != nil {
			return N{"ok": false, "l": "harness: " + perr.Error(), "r": ""}
		}
		code, cerr := compiler.Compile(prog, cfgD.CompilerOpts()...)
		if cerr != nil {
			return N{"ok": false, "l": "harness: " + cerr.Error(), "r": ""}
		}
		all = append(all, risor.WithVM(vm.New(code, cfgD.VMOpts()...)))
	}
	if reused {
		machine, err := vm.NewEmpty()
		if err != nil {
			return N{"ok": false, "l": "harness: " + err.Error(), "r": ""}
		}
		warm := append([]risor.Option{risor.WithOS(vos), risor.WithVM(machine)}, baseOptions()...)
		if _, err := risor.Eval(ctx, "import os\nimport math\nimport strings\nimport exec\nimport time\nos.getpid() + math.abs(1)", warm...); err != nil {
			return N{"ok": false, "l": "harness: warm-up failed: " + err.Error(), "r": ""}
		}
		all = append(all, risor.WithVM(machine))
	}
	var v object.Object
	var err error
	if mode == "busyvm" {
		// while the script runs on a VM of the host's, a host builtin it calls asks the SAME VM for another
		// evaluation under the default configuration: that request is refused (the VM is running) and must not
		// change what the running script can reach
		machine, merr := vm.NewEmpty()
		if merr != nil {
			return N{"ok": false, "l": "harness: " + merr.Error(), "r": ""}
		}
		refused := ""
		hold := object.NewBuiltin("zzhold", func(hctx context.Context, args ...object.Object) object.Object {
			if _, herr := risor.Eval(hctx, "1", append([]risor.Option{risor.WithOS(vos), risor.WithVM(machine)}, baseOptions()...)...); herr != nil {
				refused = herr.Error()
			}
			return object.Nil
		})
		v, err = risor.Eval(ctx, "zzhold()\n"+src, append(append([]risor.Option{}, all...), risor.WithVM(machine), risor.WithGlobal("zzhold", hold))...)
		if err == nil && refused == "" {
			return N{"ok": false, "l": "harness: the second evaluation on the busy VM was not refused", "r": ""}
		}
	} else if mode == "sharedcode" {
		// the host compiles the script ONCE and runs the one code object under this configuration and under a
		// second, more permissive one (same top-level names), each on a VM of its own; then it uses the first VM
		// again (vm.Call of a function the script defined): what that function reaches is still decided by the
		// first configuration
		cfgA := risor.NewConfig(all...)
		cfgB := risor.NewConfig(append([]risor.Option{risor.WithOS(vos)}, optsB...)...)
		if strings.Join(cfgA.GlobalNames(), ",") != strings.Join(cfgB.GlobalNames(), ",") {
			return N{"ok": false, "l": "n/a", "r": "", "skip": true}
		}
		wrapped := "func zzprobe() {\nreturn " + src + "\n}\n1"
		if strings.Contains(src, "\n") {
			lines := strings.Split(src, "\n")
			wrapped = "func zzprobe() {\n" + strings.Join(lines[:len(lines)-1], "\n") + "\nreturn " + lines[len(lines)-1] + "\n}\n1"
		}
		prog, perr := parser.Parse(ctx, wrapped)
		if perr != nil {
			return N{"ok": false, "l": strings.SplitN(perr.Error(), "\n", 2)[0], "r": ""}
		}
		code, cerr := compiler.Compile(prog, cfgA.CompilerOpts()...)
		if cerr != nil {
			return N{"ok": false, "l": strings.SplitN(cerr.Error(), "\n", 2)[0], "r": ""}
		}
		vmA := vm.New(code, cfgA.VMOpts()...)
		if err = vmA.Run(ctx); err == nil {
			vmB := vm.New(code, cfgB.VMOpts()...)
			if berr := vmB.Run(ctx); berr == nil {
				if fb, gerr := vmB.Get("zzprobe"); gerr == nil {
					if fnB, ok := fb.(*object.Function); ok {
						_, _ = vmB.Call(ctx, fnB, nil)
					}
				}
			}
			var fo object.Object
			if fo, err = vmA.Get("zzprobe"); err == nil {
				if fn, ok := fo.(*object.Function); ok {
					v, err = vmA.Call(ctx, fn, nil)
				} else {
					err = fmt.Errorf("harness: zzprobe is not a function")
				}
			}
		}
	} else if mode == "precompiled" {
		// the host compiled the script earlier under the DEFAULT configuration (the compiler knows every default
		// name) and runs the code object on a VM that served the default configuration before - under this
		// configuration, which leaves NO global at all (opts[0], the host's own globals, is left out too)
		cfgD := risor.NewConfig(append([]risor.Option{risor.WithOS(vos)}, baseOptions()...)...)
		prog, perr := parser.Parse(ctx, src)
		if perr != nil {
			return N{"ok": false, "l": strings.SplitN(perr.Error(), "\n", 2)[0], "r": ""}
		}
		code, cerr := compiler.Compile(prog, cfgD.CompilerOpts()...)
		if cerr != nil {
			return N{"ok": false, "l": strings.SplitN(cerr.Error(), "\n", 2)[0], "r": ""}
		}
		machine, merr := vm.NewEmpty()
		if merr != nil {
			return N{"ok": false, "l": "harness: " + merr.Error(), "r": ""}
		}
		warm := append([]risor.Option{risor.WithOS(vos), risor.WithVM(machine)}, baseOptions()...)
		if _, werr := risor.Eval(ctx, "import os\nimport math\nimport strings\nos.getpid() + math.abs(1)", warm...); werr != nil {
			return N{"ok": false, "l": "harness: warm-up failed: " + werr.Error(), "r": ""}
		}
		v, err = risor.EvalCode(ctx, code, append([]risor.Option{risor.WithOS(vos), risor.WithVM(machine)}, opts[1:]...)...)
		if err == nil && v == nil {
			// the name the compiler knew has an EMPTY slot in this run: the script obtained no object at all
			return N{"ok": false, "l": "empty slot", "r": ""}
		}
	} else if mode == "keptconfig" {
		// the host keeps Config values: this configuration is initialised, then a second, more permissive one that
		// uses the SAME replacement objects (optsB: the overrides only), then the script runs under the first
		cfgA := risor.NewConfig(all...)
		cfgA.Globals()
		if optsB != nil {
			cfgB := risor.NewConfig(append([]risor.Option{risor.WithOS(vos)}, optsB...)...)
			cfgB.Globals()
		}
		prog, perr := parser.Parse(ctx, src)
		if perr != nil {
			return N{"ok": false, "l": strings.SplitN(perr.Error(), "\n", 2)[0], "r": ""}
		}
		code, cerr := compiler.Compile(prog, cfgA.CompilerOpts()...)
		if cerr != nil {
			return N{"ok": false, "l": strings.SplitN(cerr.Error(), "\n", 2)[0], "r": ""}
		}
		machine := vm.New(code, cfgA.VMOpts()...)
		if err = machine.Run(ctx); err == nil {
			if tos, ok := machine.TOS(); ok {
				v = tos
			} else {
				v = object.Nil
			}
		}
	} else {
		v, err = risor.Eval(ctx, src, all...)
	}
	if err != nil {
		msg := err.Error()
		if j := strings.Index(msg, "\n"); j > 0 {
			msg = msg[:j]
		}
		return N{"ok": false, "l": msg, "r": ""}
	}
	return N{"ok": true, "l": label(v), "r": repl[v]}
}

func caseWorker(req N) (resp N) {
	defer func() {
		if r := recover(); r != nil {
			resp = N{"k": "gopanic", "msg": fmt.Sprint(r)}
		}
	}()
	nodefaults, _ := req["nodefaults"].(bool)
	// The host builds its options - its own globals and replacement objects included - anew
	// for every Config: risor edits host-supplied modules in place, and the property's
	// independence claim covers default globals only.
	var lastOptsB []risor.Option
	build := func() ([]risor.Option, map[object.Object]string) {
		opts := baseOptions()
		optsB := baseOptions()
		if nodefaults {
			opts = append(opts, risor.WithoutDefaultGlobals())
		}
		var deny []string
		for _, d := range req["deny"].([]any) {
			deny = append(deny, strings.Join(strs(d), "."))
		}
		// the denylist is the UNION of all the options that name something: one list, one name per option, or a
		// base policy followed by a further list (by configuration id)
		id, _ := req["id"].(float64)
		switch {
		case len(deny) == 1:
			opts = append(opts, risor.WithoutGlobal(deny[0]))
		case len(deny) > 1 && int(id)%3 == 1:
			opts = append(opts, risor.WithoutGlobal(deny[0]), risor.WithoutGlobals(deny[1:]...))
		case len(deny) > 2 && int(id)%3 == 2:
			opts = append(opts, risor.WithoutGlobals(deny[:2]...), risor.WithoutGlobals(deny[2:]...))
		case len(deny) > 1:
			opts = append(opts, risor.WithoutGlobals(deny...))
		}
		// the host ALSO supplies a global of its own under a denied top-level name, after the denying option (every
		// other configuration): the name stays removed - neither the default object nor the host's is reachable
		if int(id)%2 == 0 {
			for _, d := range deny {
				if !strings.Contains(d, ".") {
					opts = append(opts, risor.WithGlobal(d, object.NewBuiltin("zzsame", hostFn)))
				}
			}
		}
		// one replacement object per kind and configuration (the spec has one node per kind)
		repl := map[object.Object]string{}
		byKind := map[string]object.Object{}
		for _, o := range req["ov"].([]any) {
			on := o.(N)
			kind := on["kind"].(string)
			r, ok := byKind[kind]
			if !ok {
				r = replacement(kind)
				byKind[kind] = r
				repl[r] = kind
			}
			opts = append(opts, risor.WithGlobalOverride(strings.Join(strs(on["name"]), "."), r))
			optsB = append(optsB, risor.WithGlobalOverride(strings.Join(strs(on["name"]), "."), r))
		}
		lastOptsB = optsB
		return opts, repl
	}
	opts, _ := build()
	// the configuration's real graph
	ctx, cancel := osCtx()
	cfg := risor.NewConfig(opts...)
	g, env := walk(ctx, cfg.Globals())
	cancel()
	// script-level access attempts under the configuration
	att := []any{}
	for pi, p := range req["paths"].([]any) {
		path := strs(p)
		for _, st := range styles {
			src := render(path, st)
			if src == "" {
				continue
			}
			modes := []string{"fresh", "reused", "sharedmap", "preloaded"}
			if len(req["ov"].([]any)) > 0 {
				modes = append(modes, "keptconfig")
			}
			if st == "dot" || st == "getattr" {
				modes = append(modes, "sharedcode")
			}
			if st == "import" || st == "from" || st == "dot" {
				modes = append(modes, "busyvm")
			}
			if _, host := hostGlobals()[path[0]]; nodefaults && len(req["ov"].([]any)) == 0 && !host {
				modes = append(modes, "precompiled")
			}
			for _, mode := range modes {
				o, repl := build()
				r := evalAttemptModeB(src, o, lastOptsB, repl, mode)
				if skip, _ := r["skip"].(bool); skip {
					continue
				}
				r["p"] = pi + 1
				r["s"] = st
				r["vm"] = mode
				att = append(att, r)
			}
		}
	}
	// a second, default configuration built afterwards
	after := baseGraph()
	return N{"k": "ok", "id": req["id"], "nodefaults": nodefaults, "deny": req["deny"], "ov": req["ov"],
		"paths": req["paths"], "graph": g.json(env), "after": after, "att": att}
}

func cmdRun(args []string) {
	fs := flag.NewFlagSet("run", flag.ExitOnError)
	in := fs.String("cases", "", "")
	out := fs.String("out", "", "")
	workers := fs.Int("workers", runtime.NumCPU(), "")
	fs.Parse(args)
	cases, err := run.ReadNDJSON(*in)
	if err != nil {
		fatal(err)
	}
	resps := run.NewPool("case", *workers).Map(cases, 300*time.Second)
	rows := make([]N, 0, len(resps))
	bad := 0
	for i, r := range resps {
		if r["k"] != "ok" {
			bad++
			fmt.Fprintf(os.Stderr, "case %v: %v\n", cases[i]["id"], r)
			continue
		}
		delete(r, "k")
		rows = append(rows, r)
	}
	if err := run.WriteNDJSON(*out, rows); err != nil {
		fatal(err)
	}
	if bad > 0 {
		fatal(fmt.Errorf("%d cases did not complete", bad))
	}
}

func fatal(err error) {
	fmt.Fprintln(os.Stderr, "config:", err)
	os.Exit(2)
}

func main() {
	run.Register("case", caseWorker)
	run.MaybeWorker()
	if len(os.Args) < 2 {
		fatal(fmt.Errorf("usage: config g0|run ..."))
	}
	switch os.Args[1] {
	case "g0":
		cmdG0(os.Args[2:])
	case "run":
		cmdRun(os.Args[2:])
	default:
		fatal(fmt.Errorf("unknown command %q", os.Args[1]))
	}
}
