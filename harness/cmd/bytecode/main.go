// bytecode: C04 driver.
//
//	bytecode codes -in cases.ndjson -out codes.ndjson
//	    compile every case's source with the real compiler and dump every code
//	    object (main and each function) through the public accessors
//	bytecode steps -in cases.ndjson -out steps.ndjson [-max N]
//	    run every case with the VerifStep hook and record (fp, ip, op, a, b, sp)
//	    per dispatched instruction plus the final stack pointer
//	bytecode scale -in loops.ndjson -out scaled.ndjson
//	    run loop templates at a small and a large bound
package main

import (
	"context"
	"flag"
	"fmt"
	"os"
	"runtime"
	"strings"
	"time"

	"github.com/risor-io/risor"
	"github.com/risor-io/risor/compiler"
	"github.com/risor-io/risor/object"
	"github.com/risor-io/risor/op"
	"github.com/risor-io/risor/parser"
	"github.com/risor-io/risor/vm"

	"verifharness/run"
)

type N = map[string]any

func compile(src string) (*compiler.Code, error) {
	cfg := risor.NewConfig()
	prog, err := parser.Parse(context.Background(), src)
	if err != nil {
		return nil, err
	}
	return compiler.Compile(prog, cfg.CompilerOpts()...)
}

func dumpCodes(code *compiler.Code) []any {
	var codes []any
	for _, c := range code.Flatten() {
		ins := make([]any, c.InstructionCount())
		for i := 0; i < c.InstructionCount(); i++ {
			ins[i] = int(c.Instruction(i))
		}
		codes = append(codes, N{"id": c.ID(), "root": c.IsRoot(), "ins": ins})
	}
	return codes
}

func codesWorker(req N) (resp N) {
	defer func() {
		if r := recover(); r != nil {
			resp = N{"k": "gopanic", "msg": fmt.Sprint(r)}
		}
	}()
	code, err := compile(req["src"].(string))
	if err != nil {
		return N{"k": "nocompile", "msg": err.Error()}
	}
	return N{"k": "ok", "codes": dumpCodes(code)}
}

func operandCount(o op.Code) int { return op.GetInfo(o).OperandCount }

// stepsWorker runs the program with the step hook installed.
func stepsWorker(req N) (resp N) {
	max := int(req["max"].(float64))
	values, _ := req["values"].(bool)
	var steps []any
	truncated := false
	var machine *vm.VirtualMachine
	defer func() {
		vm.VerifStep = nil
		if r := recover(); r != nil {
			resp = N{"k": "gopanic", "msg": fmt.Sprint(r)}
		}
	}()
	code, err := compile(req["src"].(string))
	if err != nil {
		return N{"k": "nocompile", "msg": err.Error()}
	}
	cfg := risor.NewConfig()
	if md, _ := req["moddir"].(string); md != "" {
		cfg = risor.NewConfig(risor.WithLocalImporter(md))
	}
	machine = vm.New(code, cfg.VMOpts()...)
	act := 0 // activation counter: a new number whenever fp changes upward
	lastFp := -1
	var lastOp op.Code
	lastIP, lastA := -1, 0
	actOf := map[int]int{}
	vm.VerifStep = func(m *vm.VirtualMachine, fp, ip int, opcode op.Code, sp int) {
		if m != machine {
			return
		}
		if len(steps) >= max {
			truncated = true
			return
		}
		// a new activation: a deeper frame, or execution restarting at instruction 0 in the same frame slot
		// (a callee that failed or returned, then another call from Go: try handlers, deferred calls, callbacks)
		// unless the previous instruction there was a backward jump to 0 (a loop at the start of a body)
		// a frame slot at or below the last one that starts at instruction 0 is never a return (a return resumes
		// after a call instruction): a failed callee was unwound and Go code called another function there
		restart := ip == 0 && (fp < lastFp || (fp == lastFp && !(lastOp == op.JumpBackward && lastIP-lastA == 0)))
		if fp > lastFp || restart {
			act++
			actOf[fp] = act
		}
		lastFp = fp
		lastOp, lastIP = opcode, ip
		lastA = 0
		if operandCount(opcode) >= 1 {
			lastA = m.VerifOperand(1)
		}
		a, b := 0, 0
		if n := operandCount(opcode); n >= 1 {
			a = m.VerifOperand(1)
			if n >= 2 {
				b = m.VerifOperand(2)
			}
		}
		if values {
			// value level: the three topmost operand stack slots before the instruction executes, and for a call
			// the kind of the callee
			callee := ""
			if opcode == op.Call {
				callee = project(m.VerifStackAt(sp - a))["t"].(string)
			}
			steps = append(steps, N{"c": actOf[fp], "i": ip, "o": int(opcode), "a": a, "b": b, "p": sp, "k": callee,
				"t": []any{project(m.VerifStackAt(sp)), project(m.VerifStackAt(sp - 1)), project(m.VerifStackAt(sp - 2))}})
			return
		}
		steps = append(steps, []any{actOf[fp], ip, int(opcode), a, b, sp, m.VerifCodeLen()})
	}
	ctx, cancel := context.WithTimeout(context.Background(), 5*time.Second)
	defer cancel()
	runErr := machine.Run(ctx)
	vm.VerifStep = nil
	out := N{"k": "ok", "steps": steps, "truncated": truncated, "final_sp": machine.VerifSP()}
	if runErr != nil {
		out["k"] = "raise"
		out["msg"] = runErr.Error()
	}
	// the same VM evaluates the code a second and a third time (RunCode): -9 = not applicable
	out["again_sp"] = -9
	if runErr == nil {
		for round := 0; round < 2; round++ {
			ctx2, cancel2 := context.WithTimeout(context.Background(), 5*time.Second)
			err2 := machine.RunCode(ctx2, code)
			cancel2()
			if err2 != nil {
				out["again_sp"] = -9
				break
			}
			out["again_sp"] = machine.VerifSP()
		}
	}
	out["codes"] = dumpCodes(code)
	return out
}

// project is the value-level view of an operand stack slot: t = kind, v = integer payload (the value of an int, 0/1 of a
// bool, the length of a string or container), s = the code points of a short string. Every record has all three
// fields so that TLC can compare any two of them.
func project(o object.Object) N {
	p := func(t string, v int, s []any) N { return N{"t": t, "v": v, "s": s} }
	none := []any{}
	switch o := o.(type) {
	case nil:
		return p("z", 0, none)
	case *object.Int:
		if v := o.Value(); v > -(1<<30) && v < (1<<30) {
			return p("i", int(v), none)
		}
		return p("I", 0, none)
	case *object.Bool:
		if o.Value() {
			return p("b", 1, none)
		}
		return p("b", 0, none)
	case *object.NilType:
		return p("n", 0, none)
	case *object.String:
		rs := []rune(o.Value())
		if len(rs) <= 12 {
			cps := make([]any, len(rs))
			for i, r := range rs {
				cps[i] = int(r)
			}
			return p("s", len(rs), cps)
		}
		return p("S", len(rs), none)
	case *object.List:
		return p("l", len(o.Value()), none)
	case *object.Map:
		return p("m", len(o.Value()), none)
	case *object.Set:
		return p("e", len(o.Value()), none)
	case *object.Float:
		return p("f", 0, none)
	case *object.Function:
		return p("fn", 0, none)
	case *object.Builtin:
		return p("bi", 0, none)
	}
	return p("o", 0, none)
}

func scaleWorker(req N) N {
	tmpl := req["tmpl"].(string)
	res := N{}
	for _, key := range []string{"small", "large"} {
		src := strings.ReplaceAll(tmpl, "@N@", fmt.Sprint(int(req[key].(float64))))
		obs := run.Eval(src, run.EvalOpts{Timeout: 60 * time.Second})
		delete(obs, "out")
		res[key] = obs
	}
	return res
}

func main() {
	run.Register("codes", codesWorker)
	run.Register("steps", stepsWorker)
	run.Register("scale", scaleWorker)
	run.MaybeWorker()
	if len(os.Args) < 2 {
		fmt.Fprintln(os.Stderr, "usage: bytecode codes|steps|scale ...")
		os.Exit(2)
	}
	mode := os.Args[1]
	fs := flag.NewFlagSet(mode, flag.ExitOnError)
	in := fs.String("in", "", "")
	out := fs.String("out", "", "")
	max := fs.Int("max", 4000, "")
	values := fs.Bool("values", false, "steps: record the value-level view of the operand stack")
	moddir := fs.String("moddir", "", "steps: directory of importable modules")
	fs.Parse(os.Args[2:])
	rows, err := run.ReadNDJSON(*in)
	if err != nil {
		fmt.Fprintln(os.Stderr, err)
		os.Exit(2)
	}
	reqs := make([]N, len(rows))
	for i, r := range rows {
		switch mode {
		case "codes":
			reqs[i] = N{"src": r["src"]}
		case "steps":
			reqs[i] = N{"src": r["src"], "max": *max, "values": *values, "moddir": *moddir}
		case "scale":
			reqs[i] = r
		}
	}
	pool := run.NewPool(mode, runtime.NumCPU())
	resps := pool.Map(reqs, 90*time.Second)
	var outRows []N
	for i, r := range rows {
		o := N{"id": r["id"], "src": r["src"], "res": resps[i]}
		if mode == "scale" {
			o["tmpl"] = r["tmpl"]
		}
		outRows = append(outRows, o)
	}
	if err := run.WriteNDJSON(*out, outRows); err != nil {
		fmt.Fprintln(os.Stderr, err)
		os.Exit(2)
	}
}
