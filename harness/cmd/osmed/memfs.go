package main

import (
	"errors"
	"io"
	"io/fs"
	"path"
	"sort"
	"strings"
	"sync"
	"time"

	ros "github.com/risor-io/risor/os"
)

// memFS is a small in-memory implementation of ros.FS: the virtual world the
// recording OS serves. Names arrive relative to the mount ("sentinel.txt",
// "dir/a.txt") or as "/"; every name is normalised to a clean absolute path.
type memFS struct {
	mu    sync.Mutex
	nodes map[string]*memNode
}

type memNode struct {
	data []byte
	dir  bool
	mode fs.FileMode
	mod  time.Time
}

var _ ros.FS = (*memFS)(nil)

var memEpoch = time.Unix(1700000000, 0)

func newMemFS() *memFS {
	m := &memFS{nodes: map[string]*memNode{}}
	m.nodes["/"] = &memNode{dir: true, mode: fs.ModeDir | 0o755, mod: memEpoch}
	return m
}

func norm(name string) string { return path.Clean("/" + name) }

func notExist(op, name string) error { return &fs.PathError{Op: op, Path: name, Err: fs.ErrNotExist} }

func (m *memFS) put(name string, data string) {
	p := norm(name)
	m.mkdirAll(path.Dir(p))
	m.nodes[p] = &memNode{data: []byte(data), mode: 0o644, mod: memEpoch}
}

func (m *memFS) mkdirAll(p string) {
	p = norm(p)
	for q := p; ; q = path.Dir(q) {
		if _, ok := m.nodes[q]; !ok {
			m.nodes[q] = &memNode{dir: true, mode: fs.ModeDir | 0o755, mod: memEpoch}
		}
		if q == "/" {
			return
		}
	}
}

func (m *memFS) info(p string, n *memNode) fs.FileInfo {
	return ros.NewFileInfo(ros.GenericFileInfoOpts{Name: path.Base(p), Size: int64(len(n.data)), Mode: n.mode, ModTime: n.mod, IsDir: n.dir})
}

func (m *memFS) Create(name string) (ros.File, error) {
	m.mu.Lock()
	defer m.mu.Unlock()
	p := norm(name)
	if _, ok := m.nodes[path.Dir(p)]; !ok {
		return nil, notExist("create", name)
	}
	n := &memNode{mode: 0o644, mod: memEpoch}
	m.nodes[p] = n
	return &memFile{fs: m, p: p, n: n, w: true}, nil
}

func (m *memFS) Mkdir(name string, perm ros.FileMode) error {
	m.mu.Lock()
	defer m.mu.Unlock()
	p := norm(name)
	if _, ok := m.nodes[p]; ok {
		return &fs.PathError{Op: "mkdir", Path: name, Err: fs.ErrExist}
	}
	if _, ok := m.nodes[path.Dir(p)]; !ok {
		return notExist("mkdir", name)
	}
	m.nodes[p] = &memNode{dir: true, mode: fs.ModeDir | perm, mod: memEpoch}
	return nil
}

func (m *memFS) MkdirAll(name string, perm ros.FileMode) error {
	m.mu.Lock()
	defer m.mu.Unlock()
	m.mkdirAll(name)
	return nil
}

func (m *memFS) Open(name string) (ros.File, error) {
	return m.OpenFile(name, ros.O_RDONLY, 0)
}

func (m *memFS) OpenFile(name string, flag int, perm ros.FileMode) (ros.File, error) {
	m.mu.Lock()
	defer m.mu.Unlock()
	p := norm(name)
	n, ok := m.nodes[p]
	if !ok {
		if flag&ros.O_CREATE == 0 {
			return nil, notExist("open", name)
		}
		n = &memNode{mode: 0o644, mod: memEpoch}
		m.nodes[p] = n
	}
	if flag&ros.O_TRUNC != 0 {
		n.data = nil
	}
	return &memFile{fs: m, p: p, n: n, w: flag&(ros.O_WRONLY|ros.O_RDWR) != 0}, nil
}

func (m *memFS) ReadFile(name string) ([]byte, error) {
	m.mu.Lock()
	defer m.mu.Unlock()
	n, ok := m.nodes[norm(name)]
	if !ok || n.dir {
		return nil, notExist("read", name)
	}
	return append([]byte{}, n.data...), nil
}

func (m *memFS) Remove(name string) error {
	m.mu.Lock()
	defer m.mu.Unlock()
	p := norm(name)
	if _, ok := m.nodes[p]; !ok {
		return notExist("remove", name)
	}
	delete(m.nodes, p)
	return nil
}

func (m *memFS) RemoveAll(name string) error {
	m.mu.Lock()
	defer m.mu.Unlock()
	p := norm(name)
	for q := range m.nodes {
		if q == p || strings.HasPrefix(q, p+"/") {
			delete(m.nodes, q)
		}
	}
	return nil
}

func (m *memFS) Rename(oldpath, newpath string) error {
	m.mu.Lock()
	defer m.mu.Unlock()
	o, nw := norm(oldpath), norm(newpath)
	n, ok := m.nodes[o]
	if !ok {
		return notExist("rename", oldpath)
	}
	delete(m.nodes, o)
	m.nodes[nw] = n
	return nil
}

func (m *memFS) Stat(name string) (ros.FileInfo, error) {
	m.mu.Lock()
	defer m.mu.Unlock()
	p := norm(name)
	n, ok := m.nodes[p]
	if !ok {
		return nil, notExist("stat", name)
	}
	return m.info(p, n), nil
}

func (m *memFS) Symlink(oldname, newname string) error {
	m.mu.Lock()
	defer m.mu.Unlock()
	n, ok := m.nodes[norm(oldname)]
	if !ok {
		return notExist("symlink", oldname)
	}
	m.nodes[norm(newname)] = n
	return nil
}

func (m *memFS) WriteFile(name string, data []byte, perm ros.FileMode) error {
	m.mu.Lock()
	defer m.mu.Unlock()
	p := norm(name)
	if _, ok := m.nodes[path.Dir(p)]; !ok {
		return notExist("write", name)
	}
	m.nodes[p] = &memNode{data: append([]byte{}, data...), mode: perm, mod: memEpoch}
	return nil
}

func (m *memFS) children(p string) []string {
	var out []string
	for q := range m.nodes {
		if q != p && path.Dir(q) == p {
			out = append(out, q)
		}
	}
	sort.Strings(out)
	return out
}

func (m *memFS) ReadDir(name string) ([]ros.DirEntry, error) {
	m.mu.Lock()
	defer m.mu.Unlock()
	p := norm(name)
	n, ok := m.nodes[p]
	if !ok || !n.dir {
		return nil, notExist("readdir", name)
	}
	var out []ros.DirEntry
	for _, q := range m.children(p) {
		c := m.nodes[q]
		fi := m.info(q, c).(*ros.GenericFileInfo)
		out = append(out, ros.NewDirEntry(ros.GenericDirEntryOpts{Name: path.Base(q), Mode: c.mode, Info: fi}))
	}
	return out, nil
}

func (m *memFS) WalkDir(root string, fn ros.WalkDirFunc) error {
	m.mu.Lock()
	p := norm(root)
	n, ok := m.nodes[p]
	if !ok {
		m.mu.Unlock()
		return notExist("walkdir", root)
	}
	type item struct {
		p string
		e fs.DirEntry
	}
	var items []item
	var walk func(q string, c *memNode)
	walk = func(q string, c *memNode) {
		items = append(items, item{q, fs.FileInfoToDirEntry(m.info(q, c))})
		if c.dir {
			for _, ch := range m.children(q) {
				walk(ch, m.nodes[ch])
			}
		}
	}
	walk(p, n)
	m.mu.Unlock()
	for _, it := range items {
		if err := fn(it.p, it.e, nil); err != nil {
			if errors.Is(err, fs.SkipDir) || errors.Is(err, fs.SkipAll) {
				return nil
			}
			return err
		}
	}
	return nil
}

// memFile is a seekable in-memory file.
type memFile struct {
	fs     *memFS
	p      string
	n      *memNode
	pos    int64
	w      bool
	closed bool
}

func (f *memFile) Stat() (fs.FileInfo, error) {
	f.fs.mu.Lock()
	defer f.fs.mu.Unlock()
	return f.fs.info(f.p, f.n), nil
}

func (f *memFile) Read(b []byte) (int, error) {
	f.fs.mu.Lock()
	defer f.fs.mu.Unlock()
	if f.pos >= int64(len(f.n.data)) {
		return 0, io.EOF
	}
	k := copy(b, f.n.data[f.pos:])
	f.pos += int64(k)
	return k, nil
}

func (f *memFile) Write(b []byte) (int, error) {
	f.fs.mu.Lock()
	defer f.fs.mu.Unlock()
	end := f.pos + int64(len(b))
	if end > int64(len(f.n.data)) {
		f.n.data = append(f.n.data, make([]byte, end-int64(len(f.n.data)))...)
	}
	copy(f.n.data[f.pos:], b)
	f.pos = end
	return len(b), nil
}

func (f *memFile) Seek(offset int64, whence int) (int64, error) {
	f.fs.mu.Lock()
	defer f.fs.mu.Unlock()
	switch whence {
	case io.SeekStart:
		f.pos = offset
	case io.SeekCurrent:
		f.pos += offset
	case io.SeekEnd:
		f.pos = int64(len(f.n.data)) + offset
	default:
		return 0, errors.New("invalid whence")
	}
	if f.pos < 0 {
		f.pos = 0
	}
	return f.pos, nil
}

func (f *memFile) Close() error {
	f.closed = true
	return nil
}
