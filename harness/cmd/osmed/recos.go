package main

import (
	"errors"
	"fmt"
	"io"
	"io/fs"
	"sync"

	ros "github.com/risor-io/risor/os"
)

// event is one line of the observation log of a call. All fields are always
// present (TLC records need a uniform shape): e = kind of event, m = OS/File
// method, f = file label, k = auxiliary kind, a = printable arguments.
type event struct {
	E string `json:"e"`
	M string `json:"m"`
	F string `json:"f"`
	K string `json:"k"`
	A string `json:"a"`
}

// recorder collects the events of one call. phase: 0 = setup (OS traffic is
// counted but not logged), 1 = the member under test is running, 2 = done.
type recorder struct {
	mu     sync.Mutex
	phase  int
	events []event
	setup  int
	late   int
}

func (r *recorder) add(ev event) {
	r.mu.Lock()
	defer r.mu.Unlock()
	r.events = append(r.events, ev)
}

// os records a method of the host OS (or of a File it handed out).
func (r *recorder) os(m, f string, args ...any) {
	r.mu.Lock()
	defer r.mu.Unlock()
	switch r.phase {
	case 0:
		r.setup++
	case 1:
		a := fmt.Sprint(args...)
		if len(a) > 80 {
			a = a[:80]
		}
		r.events = append(r.events, event{E: "os", M: m, F: f, A: a})
	default:
		r.late++
	}
}

func (r *recorder) setPhase(p int) {
	r.mu.Lock()
	r.phase = p
	r.mu.Unlock()
}

func (r *recorder) getPhase() int {
	r.mu.Lock()
	defer r.mu.Unlock()
	return r.phase
}

// recOS is the host-supplied OS: every method appends an event and is then
// served by the wrapped VirtualOS (in-memory FS mounted at "/"). Files handed
// out are wrapped in recFile. User and group lookups are answered here because
// VirtualOS users cannot be configured from outside its package.
type recOS struct {
	rec   *recorder
	inner *ros.VirtualOS
}

var _ ros.OS = (*recOS)(nil)

// label of a file: files created while the script is still in its setup phase are
// the "subject" of a file-method call; later ones are named after their origin.
func (o *recOS) wrap(f ros.File, origin string) ros.File {
	if f == nil {
		return nil
	}
	label := origin
	if o.rec.getPhase() == 0 {
		label = "subject"
	}
	return &recFile{rec: o.rec, inner: f, label: label}
}

func (o *recOS) Create(name string) (ros.File, error) {
	o.rec.os("Create", "", name)
	f, err := o.inner.Create(name)
	if err != nil {
		return nil, err
	}
	return o.wrap(f, "opened"), nil
}

func (o *recOS) Mkdir(name string, perm ros.FileMode) error {
	o.rec.os("Mkdir", "", name)
	return o.inner.Mkdir(name, perm)
}

func (o *recOS) MkdirAll(path string, perm ros.FileMode) error {
	o.rec.os("MkdirAll", "", path)
	return o.inner.MkdirAll(path, perm)
}

func (o *recOS) Open(name string) (ros.File, error) {
	o.rec.os("Open", "", name)
	f, err := o.inner.Open(name)
	if err != nil {
		return nil, err
	}
	return o.wrap(f, "opened"), nil
}

func (o *recOS) OpenFile(name string, flag int, perm ros.FileMode) (ros.File, error) {
	o.rec.os("OpenFile", "", name, " ", flag)
	f, err := o.inner.OpenFile(name, flag, perm)
	if err != nil {
		return nil, err
	}
	return o.wrap(f, "opened"), nil
}

func (o *recOS) ReadFile(name string) ([]byte, error) {
	o.rec.os("ReadFile", "", name)
	return o.inner.ReadFile(name)
}

func (o *recOS) Remove(name string) error {
	o.rec.os("Remove", "", name)
	return o.inner.Remove(name)
}

func (o *recOS) RemoveAll(path string) error {
	o.rec.os("RemoveAll", "", path)
	return o.inner.RemoveAll(path)
}

func (o *recOS) Rename(oldpath, newpath string) error {
	o.rec.os("Rename", "", oldpath, " ", newpath)
	return o.inner.Rename(oldpath, newpath)
}

func (o *recOS) Stat(name string) (ros.FileInfo, error) {
	o.rec.os("Stat", "", name)
	return o.inner.Stat(name)
}

func (o *recOS) Symlink(oldname, newname string) error {
	o.rec.os("Symlink", "", oldname, " ", newname)
	return o.inner.Symlink(oldname, newname)
}

func (o *recOS) WriteFile(name string, data []byte, perm ros.FileMode) error {
	o.rec.os("WriteFile", "", name)
	return o.inner.WriteFile(name, data, perm)
}

func (o *recOS) ReadDir(name string) ([]ros.DirEntry, error) {
	o.rec.os("ReadDir", "", name)
	return o.inner.ReadDir(name)
}

func (o *recOS) WalkDir(root string, fn ros.WalkDirFunc) error {
	o.rec.os("WalkDir", "", root)
	return o.inner.WalkDir(root, fn)
}

func (o *recOS) Args() []string { o.rec.os("Args", ""); return o.inner.Args() }

func (o *recOS) Chdir(dir string) error { o.rec.os("Chdir", "", dir); return o.inner.Chdir(dir) }

func (o *recOS) Environ() []string { o.rec.os("Environ", ""); return o.inner.Environ() }

// Exit is absorbed: the VirtualOS has no exit handler, the process keeps running.
func (o *recOS) Exit(code int) { o.rec.os("Exit", "", code); o.inner.Exit(code) }

func (o *recOS) Getenv(key string) string { o.rec.os("Getenv", "", key); return o.inner.Getenv(key) }

func (o *recOS) Getpid() int { o.rec.os("Getpid", ""); return o.inner.Getpid() }

func (o *recOS) Getuid() int { o.rec.os("Getuid", ""); return o.inner.Getuid() }

func (o *recOS) Getwd() (string, error) { o.rec.os("Getwd", ""); return o.inner.Getwd() }

func (o *recOS) Hostname() (string, error) { o.rec.os("Hostname", ""); return o.inner.Hostname() }

func (o *recOS) LookupEnv(key string) (string, bool) {
	o.rec.os("LookupEnv", "", key)
	return o.inner.LookupEnv(key)
}

func (o *recOS) MkdirTemp(dir, pattern string) (string, error) {
	o.rec.os("MkdirTemp", "", dir, " ", pattern)
	return o.inner.MkdirTemp(dir, pattern)
}

func (o *recOS) Setenv(key, value string) error {
	o.rec.os("Setenv", "", key)
	return o.inner.Setenv(key, value)
}

func (o *recOS) TempDir() string { o.rec.os("TempDir", ""); return o.inner.TempDir() }

func (o *recOS) Unsetenv(key string) error {
	o.rec.os("Unsetenv", "", key)
	return o.inner.Unsetenv(key)
}

func (o *recOS) UserCacheDir() (string, error) {
	o.rec.os("UserCacheDir", "")
	return o.inner.UserCacheDir()
}

func (o *recOS) UserConfigDir() (string, error) {
	o.rec.os("UserConfigDir", "")
	return o.inner.UserConfigDir()
}

func (o *recOS) UserHomeDir() (string, error) {
	o.rec.os("UserHomeDir", "")
	return o.inner.UserHomeDir()
}

func (o *recOS) Stdin() ros.File  { o.rec.os("Stdin", ""); return o.wrap(o.inner.Stdin(), "stdin") }
func (o *recOS) Stdout() ros.File { o.rec.os("Stdout", ""); return o.wrap(o.inner.Stdout(), "stdout") }
func (o *recOS) Stderr() ros.File { o.rec.os("Stderr", ""); return o.wrap(o.inner.Stderr(), "stderr") }

func (o *recOS) PathSeparator() rune     { o.rec.os("PathSeparator", ""); return '/' }
func (o *recOS) PathListSeparator() rune { o.rec.os("PathListSeparator", ""); return ':' }

type vUser struct{ uid, gid, username, name, home string }

func (u *vUser) Uid() string      { return u.uid }
func (u *vUser) Gid() string      { return u.gid }
func (u *vUser) Username() string { return u.username }
func (u *vUser) Name() string     { return u.name }
func (u *vUser) HomeDir() string  { return u.home }

type vGroup struct{ gid, name string }

func (g *vGroup) Gid() string  { return g.gid }
func (g *vGroup) Name() string { return g.name }

var (
	virtUser  = &vUser{uid: "0", gid: "0", username: "root", name: "Virtual Root", home: "/home/v"}
	virtGroup = &vGroup{gid: "0", name: "root"}
)

func (o *recOS) CurrentUser() (ros.User, error) { o.rec.os("CurrentUser", ""); return virtUser, nil }

func (o *recOS) LookupUser(name string) (ros.User, error) {
	o.rec.os("LookupUser", "", name)
	if name == virtUser.username {
		return virtUser, nil
	}
	return nil, fmt.Errorf("user %s not found", name)
}

func (o *recOS) LookupUid(uid string) (ros.User, error) {
	o.rec.os("LookupUid", "", uid)
	if uid == virtUser.uid {
		return virtUser, nil
	}
	return nil, fmt.Errorf("user with uid %s not found", uid)
}

func (o *recOS) LookupGroup(name string) (ros.Group, error) {
	o.rec.os("LookupGroup", "", name)
	if name == virtGroup.name {
		return virtGroup, nil
	}
	return nil, fmt.Errorf("group %s not found", name)
}

func (o *recOS) LookupGid(gid string) (ros.Group, error) {
	o.rec.os("LookupGid", "", gid)
	if gid == virtGroup.gid {
		return virtGroup, nil
	}
	return nil, fmt.Errorf("group with gid %s not found", gid)
}

// recFile records every method of a File handed out by the host OS.
type recFile struct {
	rec   *recorder
	inner ros.File
	label string
}

var (
	_ ros.File  = (*recFile)(nil)
	_ io.Seeker = (*recFile)(nil)
)

func (f *recFile) Stat() (fs.FileInfo, error) {
	f.rec.os("File.Stat", f.label)
	return f.inner.Stat()
}

func (f *recFile) Read(b []byte) (int, error) {
	f.rec.os("File.Read", f.label)
	return f.inner.Read(b)
}

func (f *recFile) Write(b []byte) (int, error) {
	f.rec.os("File.Write", f.label)
	return f.inner.Write(b)
}

func (f *recFile) Close() error {
	f.rec.os("File.Close", f.label)
	return f.inner.Close()
}

func (f *recFile) Seek(offset int64, whence int) (int64, error) {
	f.rec.os("File.Seek", f.label, offset, " ", whence)
	if s, ok := f.inner.(io.Seeker); ok {
		return s.Seek(offset, whence)
	}
	return 0, errors.New("value error: this file does not support seeking")
}
