// osmed: C12 driver (a host-supplied OS mediates all OS access).
//
//	osmed inventory -repo /repo -out inv.ndjson
//	    the real inventory of members: attribute names of the os, filepath and fmt
//	    module objects (reflection over the module's attribute map), the global
//	    builtins contributed by modules/os and modules/fmt, and the method names of
//	    file objects (case labels of (*object.File).GetAttr, read with go/ast)
//	osmed scan -repo /repo -out refs.ndjson
//	    source inventory (go/parser): references from the module sources to Go's
//	    os, io/ioutil, syscall, os/user, os/exec (and fmt.Print*), each classified as
//	    func / var / errvar / const / type by parsing the Go standard library source
//	osmed run -in reqs.ndjson -out calls.ndjson -work DIR [-procs N] [-gomaxprocs K]
//	    run every request (a script that calls one member in one execution context)
//	    with a RECORDING os.OS inside a sandbox directory and log the events
package main

import (
	"context"
	"flag"
	"fmt"
	"go/ast"
	"go/parser"
	"go/token"
	"os"
	"path/filepath"
	"reflect"
	"runtime"
	"sort"
	"strconv"
	"strings"
	"sync"
	"syscall"
	"time"

	"github.com/risor-io/risor"
	"github.com/risor-io/risor/compiler"
	modFilepath "github.com/risor-io/risor/modules/filepath"
	modFmt "github.com/risor-io/risor/modules/fmt"
	modOs "github.com/risor-io/risor/modules/os"
	"github.com/risor-io/risor/object"
	ros "github.com/risor-io/risor/os"
	rparser "github.com/risor-io/risor/parser"
	"github.com/risor-io/risor/vm"

	"verifharness/run"
)

type N = map[string]any

const marker = "REALSBX" // appears in every real path, real file content and real env value of the sandbox

// ---------------------------------------------------------------------------
// inventory

func moduleAttrs(m *object.Module) ([]string, error) {
	f := reflect.ValueOf(m).Elem().FieldByName("builtins")
	if !f.IsValid() || f.Kind() != reflect.Map {
		return nil, fmt.Errorf("object.Module has no attribute map named builtins")
	}
	var names []string
	for _, k := range f.MapKeys() {
		names = append(names, k.String())
	}
	sort.Strings(names)
	return names, nil
}

func fileMethods(repo string) ([]string, error) {
	fset := token.NewFileSet()
	f, err := parser.ParseFile(fset, filepath.Join(repo, "object", "file.go"), nil, 0)
	if err != nil {
		return nil, err
	}
	var names []string
	for _, d := range f.Decls {
		fd, ok := d.(*ast.FuncDecl)
		if !ok || fd.Name.Name != "GetAttr" || fd.Recv == nil || len(fd.Recv.List) != 1 {
			continue
		}
		st, ok := fd.Recv.List[0].Type.(*ast.StarExpr)
		if !ok {
			continue
		}
		if id, ok := st.X.(*ast.Ident); !ok || id.Name != "File" {
			continue
		}
		ast.Inspect(fd.Body, func(n ast.Node) bool {
			cc, ok := n.(*ast.CaseClause)
			if !ok {
				return true
			}
			for _, e := range cc.List {
				if bl, ok := e.(*ast.BasicLit); ok && bl.Kind == token.STRING {
					if s, err := strconv.Unquote(bl.Value); err == nil {
						names = append(names, s)
					}
				}
			}
			return false // do not descend into the case bodies (nested switches on types)
		})
	}
	if len(names) == 0 {
		return nil, fmt.Errorf("no case labels found in (*File).GetAttr")
	}
	sort.Strings(names)
	return names, nil
}

func inventory(repo, out string) error {
	var rows []N
	mods := []*object.Module{modOs.Module(), modFilepath.Module(), modFmt.Module()}
	for _, m := range mods {
		names, err := moduleAttrs(m)
		if err != nil {
			return err
		}
		mn := m.Name().Value()
		for _, a := range names {
			o, _ := m.GetAttr(a)
			rows = append(rows, N{"kind": "module", "fn": mn + "." + a, "type": string(o.Type())})
		}
	}
	gb := map[string]string{}
	for k, v := range modOs.Builtins() {
		gb[k] = string(v.Type())
	}
	for k, v := range modFmt.Builtins() {
		gb[k] = string(v.Type())
	}
	var keys []string
	for k := range gb {
		keys = append(keys, k)
	}
	sort.Strings(keys)
	for _, k := range keys {
		rows = append(rows, N{"kind": "builtin", "fn": k, "type": gb[k]})
	}
	fm, err := fileMethods(repo)
	if err != nil {
		return err
	}
	for _, k := range fm {
		rows = append(rows, N{"kind": "filemethod", "fn": "file." + k, "type": "method"})
	}
	// iteration over a file object is not an attribute; it is listed as a fixed extra member
	rows = append(rows, N{"kind": "filemethod", "fn": "file.iter", "type": "iteration"})
	return run.WriteNDJSON(out, rows)
}

// ---------------------------------------------------------------------------
// source inventory

var watched = map[string]bool{"os": true, "io/ioutil": true, "syscall": true, "os/user": true, "os/exec": true, "fmt": true}

// only these identifiers of fmt touch the process stdout
var fmtStdout = map[string]bool{"Print": true, "Printf": true, "Println": true}

func classifyStd(pkg string) (map[string]string, error) {
	dir := filepath.Join(runtime.GOROOT(), "src", filepath.FromSlash(pkg))
	ents, err := os.ReadDir(dir)
	if err != nil {
		return nil, err
	}
	kinds := map[string]string{}
	fset := token.NewFileSet()
	for _, e := range ents {
		n := e.Name()
		if e.IsDir() || !strings.HasSuffix(n, ".go") || strings.HasSuffix(n, "_test.go") {
			continue
		}
		f, err := parser.ParseFile(fset, filepath.Join(dir, n), nil, parser.SkipObjectResolution)
		if err != nil {
			continue
		}
		for _, d := range f.Decls {
			switch d := d.(type) {
			case *ast.FuncDecl:
				if d.Recv == nil {
					kinds[d.Name.Name] = "func"
				}
			case *ast.GenDecl:
				for _, s := range d.Specs {
					switch s := s.(type) {
					case *ast.TypeSpec:
						kinds[s.Name.Name] = "type"
					case *ast.ValueSpec:
						for _, id := range s.Names {
							k := "var"
							if d.Tok == token.CONST {
								k = "const"
							} else if strings.HasPrefix(id.Name, "Err") {
								k = "errvar"
							}
							kinds[id.Name] = k
						}
					}
				}
			}
		}
	}
	if len(kinds) == 0 {
		return nil, fmt.Errorf("no declarations found in %s", dir)
	}
	return kinds, nil
}

func scanTargets(repo string) ([]string, error) {
	var files []string
	for _, d := range []string{"modules/os", "modules/filepath", "modules/fmt", "builtins"} {
		ents, err := os.ReadDir(filepath.Join(repo, d))
		if err != nil {
			return nil, err
		}
		for _, e := range ents {
			n := e.Name()
			if !e.IsDir() && strings.HasSuffix(n, ".go") && !strings.HasSuffix(n, "_test.go") {
				files = append(files, filepath.Join(d, n))
			}
		}
	}
	for _, n := range []string{"file.go", "file_iter.go", "file_info.go", "file_mode.go", "dir_entry.go"} {
		if _, err := os.Stat(filepath.Join(repo, "object", n)); err == nil {
			files = append(files, filepath.Join("object", n))
		}
	}
	sort.Strings(files)
	return files, nil
}

func scan(repo, out string) error {
	std := map[string]map[string]string{}
	for p := range watched {
		k, err := classifyStd(p)
		if err != nil {
			return fmt.Errorf("cannot classify package %s: %v", p, err)
		}
		std[p] = k
	}
	files, err := scanTargets(repo)
	if err != nil {
		return err
	}
	var rows []N
	for _, rel := range files {
		fset := token.NewFileSet()
		f, err := parser.ParseFile(fset, filepath.Join(repo, rel), nil, 0)
		if err != nil {
			return err
		}
		imp := map[string]string{} // local name -> import path (watched packages only)
		for _, is := range f.Imports {
			p, _ := strconv.Unquote(is.Path.Value)
			if !watched[p] {
				continue
			}
			name := p[strings.LastIndex(p, "/")+1:]
			if is.Name != nil {
				name = is.Name.Name
			}
			if name == "_" {
				continue
			}
			imp[name] = p
		}
		seen := map[string]bool{}
		ast.Inspect(f, func(n ast.Node) bool {
			se, ok := n.(*ast.SelectorExpr)
			if !ok {
				return true
			}
			id, ok := se.X.(*ast.Ident)
			if !ok || id.Obj != nil { // a resolved object is a local declaration shadowing the package
				return true
			}
			p, ok := imp[id.Name]
			if !ok {
				return true
			}
			if p == "fmt" && !fmtStdout[se.Sel.Name] {
				return true
			}
			kind := std[p][se.Sel.Name]
			if kind == "" {
				kind = "unknown"
			}
			key := p + "." + se.Sel.Name
			if !seen[key] {
				seen[key] = true
				rows = append(rows, N{"e": "direct_ref", "m": se.Sel.Name, "f": rel, "k": kind, "a": p,
					"line": fset.Position(se.Pos()).Line})
			}
			return true
		})
		rows = append(rows, N{"e": "scanned", "m": "", "f": rel, "k": "", "a": "", "line": 0})
	}
	return run.WriteNDJSON(out, rows)
}

// ---------------------------------------------------------------------------
// the real sandbox of a worker

type sandbox struct {
	base     string // <work>/w<pid>
	dir      string // <base>/REALSBX<pid>: cwd of the worker, holds the sentinels
	mods     string // <base>/mods: risor module files for the import contexts (outside the sandbox)
	pristine map[string]string
	env      []string
	fdOut    *os.File // read end of the pipe that replaced fd 1
	errR     *os.File // read end of the pipe behind os.Stderr
	seq      int
}

var sbx *sandbox

var realFiles = map[string]string{
	"sentinel.txt":  marker + "-file-sentinel\nsecond line\n",
	"dir/a.txt":     marker + "-a\n",
	"dir/sub/b.txt": marker + "-b\n",
}

var realDirs = []string{"dir", "dir/sub", "tmp", "home", "home/.cache", "home/.config"}

func (s *sandbox) populate() error {
	for _, d := range realDirs {
		if err := os.MkdirAll(filepath.Join(s.dir, d), 0o755); err != nil {
			return err
		}
	}
	for p, c := range realFiles {
		if err := os.WriteFile(filepath.Join(s.dir, p), []byte(c), 0o644); err != nil {
			return err
		}
	}
	return nil
}

func (s *sandbox) snapshot() map[string]string {
	snap := map[string]string{}
	filepath.Walk(s.dir, func(p string, info os.FileInfo, err error) error {
		if err != nil || p == s.dir {
			return nil
		}
		rel, _ := filepath.Rel(s.dir, p)
		switch {
		case info.Mode()&os.ModeSymlink != 0:
			snap[rel] = "l"
		case info.IsDir():
			snap[rel] = "d"
		default:
			b, _ := os.ReadFile(p)
			snap[rel] = "f:" + string(b)
		}
		return nil
	})
	return snap
}

var (
	capOut *os.File
	capErr *os.File
	// the process's original *os.File values for fd 1 and fd 2 stay referenced: an
	// unreferenced os.File is finalised, which would close the descriptor
	origStdout = os.Stdout
	origStderr = os.Stderr
	origStdin  = os.Stdin
	keepFiles  []*os.File
)

// captureFds runs in a worker before run.MaybeWorker: the protocol moves to a
// duplicate of fd 1 and fd 1 itself becomes a pipe, so bytes written to the real
// stdout (through os.Stdout or the raw descriptor) are observable.
func captureFds() {
	proto, err := syscall.Dup(1)
	if err != nil {
		return
	}
	r, w, err := os.Pipe()
	if err != nil {
		return
	}
	if err := syscall.Dup3(int(w.Fd()), 1, 0); err != nil {
		return
	}
	os.Stdout = os.NewFile(uintptr(proto), "proto") // MaybeWorker takes this as its protocol stream
	// requests arrive on a duplicate of fd 0; fd 0 itself becomes /dev/null so that an
	// unmediated read of the real stdin cannot swallow the protocol
	if pin, err := syscall.Dup(0); err == nil {
		if dn, err := os.Open(os.DevNull); err == nil {
			if syscall.Dup3(int(dn.Fd()), 0, 0) == nil {
				os.Stdin = os.NewFile(uintptr(pin), "proto-in")
				keepFiles = append(keepFiles, dn)
			}
		}
	}
	capOut = r
	keepFiles = append(keepFiles, w)
	if r2, w2, err := os.Pipe(); err == nil {
		os.Stderr = w2 // fd 2 itself stays with the parent (Go runtime crash reports)
		capErr = r2
	}
}

func drain(f *os.File) string {
	if f == nil {
		return ""
	}
	var sb strings.Builder
	buf := make([]byte, 4096)
	for {
		f.SetReadDeadline(time.Now().Add(3 * time.Millisecond))
		n, err := f.Read(buf)
		sb.Write(buf[:n])
		if err != nil || n == 0 {
			break
		}
	}
	return sb.String()
}

func initSandbox() (*sandbox, error) {
	work := os.Getenv("OSMED_WORK")
	if work == "" {
		return nil, fmt.Errorf("OSMED_WORK not set")
	}
	s := &sandbox{base: filepath.Join(work, fmt.Sprintf("w%d", os.Getpid()))}
	s.dir = filepath.Join(s.base, fmt.Sprintf("%s%d", marker, os.Getpid()))
	s.mods = filepath.Join(s.base, "mods")
	if err := os.MkdirAll(s.mods, 0o755); err != nil {
		return nil, err
	}
	if err := s.populate(); err != nil {
		return nil, err
	}
	if err := os.Chdir(s.dir); err != nil {
		return nil, err
	}
	os.Setenv("VERIF_SENTINEL", marker+"-env")
	os.Setenv("TMPDIR", filepath.Join(s.dir, "tmp"))
	os.Setenv("HOME", filepath.Join(s.dir, "home"))
	os.Setenv("XDG_CACHE_HOME", filepath.Join(s.dir, "home", ".cache"))
	os.Setenv("XDG_CONFIG_HOME", filepath.Join(s.dir, "home", ".config"))
	s.env = os.Environ()
	sort.Strings(s.env)
	s.pristine = s.snapshot()
	// os.Stdout was pointed at /dev/null by the worker loop; make it the real fd 1 again
	// (a pipe since captureFds), which is what an unmediated write would reach.
	if capOut != nil {
		os.Stdout = origStdout
	}
	// the worker loop already holds its request stream; from now on os.Stdin is a real
	// file with marked content (an unmediated read of it shows up as leaked real data)
	stdinPath := filepath.Join(s.base, "real-stdin.txt")
	if err := os.WriteFile(stdinPath, []byte(marker+"-stdin\n"), 0o644); err == nil {
		if f, err := os.Open(stdinPath); err == nil {
			keepFiles = append(keepFiles, os.Stdin)
			os.Stdin = f
		}
	}
	s.fdOut, s.errR = capOut, capErr
	return s, nil
}

// realEffects compares the real world with its pristine state, reports every
// difference and repairs it.
func (s *sandbox) realEffects() []string {
	var eff []string
	now := s.snapshot()
	changed := false
	for p, v := range s.pristine {
		nv, ok := now[p]
		if !ok {
			eff = append(eff, "file_removed:"+p)
			changed = true
		} else if nv != v {
			eff = append(eff, "file_modified:"+p)
			changed = true
		}
	}
	for p := range now {
		if _, ok := s.pristine[p]; !ok {
			eff = append(eff, "file_created:"+p)
			changed = true
		}
	}
	if wd, err := os.Getwd(); err != nil || wd != s.dir {
		eff = append(eff, "cwd_changed")
		os.Chdir(s.dir)
	}
	if changed {
		ents, _ := os.ReadDir(s.dir)
		for _, e := range ents {
			os.RemoveAll(filepath.Join(s.dir, e.Name()))
		}
		s.populate()
	}
	env := os.Environ()
	sort.Strings(env)
	if strings.Join(env, "\x00") != strings.Join(s.env, "\x00") {
		eff = append(eff, "env_changed")
		os.Clearenv()
		for _, kv := range s.env {
			if i := strings.Index(kv, "="); i > 0 {
				os.Setenv(kv[:i], kv[i+1:])
			}
		}
	}
	if b := drain(s.fdOut); b != "" {
		eff = append(eff, "stdout_bytes")
	}
	if b := drain(s.errR); b != "" {
		eff = append(eff, "stderr_bytes")
	}
	sort.Strings(eff)
	return eff
}

// ---------------------------------------------------------------------------
// one call

var (
	curMu  sync.Mutex
	curRec *recorder
)

func installCloneHook() {
	vm.VerifEvent = func(ev string, m *vm.VirtualMachine, a int64, other *vm.VirtualMachine) {
		if ev != "clone" {
			return
		}
		curMu.Lock()
		r := curRec
		curMu.Unlock()
		if r != nil {
			r.add(event{E: "vmclone"})
		}
	}
}

func resultText(o object.Object) string {
	switch o := o.(type) {
	case nil:
		return ""
	case *object.String:
		return o.Value()
	case *object.ByteSlice:
		return string(o.Value())
	}
	return o.Inspect()
}

func short(s string, n int) string {
	if len(s) > n {
		return s[:n]
	}
	return s
}

func callWorker(req N) (resp N) {
	if sbx == nil {
		s, err := initSandbox()
		if err != nil {
			return N{"k": "nosandbox", "msg": err.Error()}
		}
		sbx = s
		installCloneHook()
	}
	sbx.seq++
	// leftovers of an earlier call must not be charged to this one
	pre := sbx.realEffects()

	rec := &recorder{}
	curMu.Lock()
	curRec = rec
	curMu.Unlock()
	defer func() {
		curMu.Lock()
		curRec = nil
		curMu.Unlock()
	}()

	src, _ := req["src"].(string)
	script, _ := req["script"].(string)
	hostclone, _ := req["hostclone"].(bool)

	// modules for the import contexts
	modDir := filepath.Join(sbx.mods, fmt.Sprint(sbx.seq))
	if mods, ok := req["modules"].(map[string]any); ok && len(mods) > 0 {
		os.MkdirAll(modDir, 0o755)
		defer os.RemoveAll(modDir)
		for name, text := range mods {
			os.WriteFile(filepath.Join(modDir, name+".risor"), []byte(text.(string)), 0o644)
		}
	}

	// the virtual world served by the host OS
	mfs := newMemFS()
	mfs.put("sentinel.txt", "VIRTUAL-file-sentinel\nsecond line\n")
	mfs.put("dir/a.txt", "VIRTUAL-a\n")
	mfs.put("dir/sub/b.txt", "VIRTUAL-b\n")
	mfs.mkdirAll("/tmp")
	mfs.mkdirAll("/home/v")
	vout := ros.NewBufferFile(nil)
	verr := ros.NewBufferFile(nil)
	baseCtx, cancel := context.WithTimeout(context.Background(), 8*time.Second)
	defer cancel()
	vos := ros.NewVirtualOS(baseCtx,
		ros.WithMounts(map[string]*ros.Mount{"/": {Source: mfs, Target: "/", Type: "mem"}}),
		ros.WithCwd("/"), ros.WithTmp("/tmp"),
		ros.WithEnvironment(map[string]string{"VERIF_SENTINEL": "VIRTUAL-env", "HOME": "/home/v"}),
		ros.WithArgs([]string{"virtual-arg"}), ros.WithPid(424242), ros.WithUid(4242), ros.WithHostname("virtual-host"),
		ros.WithUserCacheDir("/home/v/.cache"), ros.WithUserConfigDir("/home/v/.config"), ros.WithUserHomeDir("/home/v"),
		ros.WithStdin(ros.NewBufferFile([]byte("virtual stdin\n"))), ros.WithStdout(vout), ros.WithStderr(verr),
	)
	host := &recOS{rec: rec, inner: vos}

	var machine *vm.VirtualMachine
	hostCtx := baseCtx
	if src == "ctx" || src == "ctxwarm" {
		hostCtx = ros.WithOS(baseCtx, host)
	} else if src == "ctxover" {
		// the host derives its context from one that already carries ANOTHER OS (a sandbox built inside a host
		// callback of an outer evaluation): the OS placed last is the one in force
		outer := ros.NewVirtualOS(baseCtx, ros.WithStdout(ros.NewBufferFile(nil)),
			ros.WithEnvironment(map[string]string{"VERIF_SENTINEL": "OUTER-env"}), ros.WithCwd("/"))
		hostCtx = ros.WithOS(ros.WithOS(baseCtx, outer), host)
	}
	globals := map[string]any{
		"__mark": object.NewBuiltin("__mark", func(ctx context.Context, args ...object.Object) object.Object {
			rec.add(event{E: "call"})
			rec.setPhase(1)
			return object.Nil
		}),
		"__enter": object.NewBuiltin("__enter", func(ctx context.Context, args ...object.Object) object.Object {
			k := ""
			if len(args) == 1 {
				if s, ok := args[0].(*object.String); ok {
					k = s.Value()
				}
			}
			rec.add(event{E: "enter", K: k})
			return object.Nil
		}),
		// a host callback that clones the VM and calls a function in the clone with the
		// HOST's context (as an embedding application would), not the builtin's context
		"__cclone": object.NewBuiltin("__cclone", func(ctx context.Context, args ...object.Object) object.Object {
			if len(args) != 1 {
				return object.Errorf("__cclone: expected 1 argument")
			}
			fn, ok := args[0].(*object.Function)
			if !ok {
				return object.Errorf("__cclone: expected a function")
			}
			clone, err := machine.Clone()
			if err != nil {
				return object.NewError(err)
			}
			res, err := clone.Call(hostCtx, fn, nil)
			if err != nil {
				return object.NewError(err)
			}
			return res
		}),
	}
	// a host callback that keeps the VM's clone-call function and invokes it with a context of its OWN
	// (no OS in it), as modules/http does with the request's context
	globals["__clonecall"] = object.NewBuiltin("__clonecall", func(ctx context.Context, args ...object.Object) object.Object {
		if len(args) != 1 {
			return object.Errorf("__clonecall: expected 1 argument")
		}
		fn, ok := args[0].(*object.Function)
		if !ok {
			return object.Errorf("__clonecall: expected a function")
		}
		cc, found := object.GetCloneCallFunc(ctx)
		if !found {
			return object.Errorf("__clonecall: no clone-call function in the context")
		}
		// not cancelled when the call returns: files opened under a context are closed when it ends
		res, err := cc(context.WithoutCancel(baseCtx), fn, nil)
		if err != nil {
			return object.NewError(err)
		}
		return res
	})
	opts := []risor.Option{risor.WithConcurrency(), risor.WithLocalImporter(modDir), risor.WithGlobals(globals)}
	if src == "withos" || src == "withoswarm" || src == "withosvm" || src == "withosafterctx" || src == "withosonce" || src == "withosshared" {
		opts = append(opts, risor.WithOS(host))
	}
	if src == "withosshared" {
		// the host keeps ONE set of default globals (module objects) for all its evaluations: an evaluation under
		// ANOTHER OS used them first and touched the standard streams of the os module
		shared := risor.DefaultGlobals()
		otherOS := ros.NewVirtualOS(baseCtx, ros.WithStdout(ros.NewBufferFile(nil)),
			ros.WithEnvironment(map[string]string{"VERIF_SENTINEL": "OTHER-env"}), ros.WithCwd("/"))
		if _, werr := risor.Eval(baseCtx, "os.stdout.write(\"w\")\nos.stderr.write(\"w\")\nos.stdin\n1",
			risor.WithoutDefaultGlobals(), risor.WithGlobals(shared), risor.WithOS(otherOS)); werr != nil {
			return N{"k": "nosandbox", "msg": "warm-up: " + werr.Error()}
		}
		opts = append([]risor.Option{risor.WithoutDefaultGlobals(), risor.WithGlobals(shared)}, opts...)
	}
	rec.add(event{E: "start", K: src})

	status, msg, result := "ok", "", ""
	func() {
		defer func() {
			if r := recover(); r != nil {
				status, msg = "gopanic", fmt.Sprint(r)
			}
		}()
		cfg := risor.NewConfig(opts...)
		prog, err := rparser.Parse(baseCtx, script)
		if err != nil {
			status, msg = "nocompile", err.Error()
			return
		}
		code, err := compiler.Compile(prog, cfg.CompilerOpts()...)
		if err != nil {
			status, msg = "nocompile", err.Error()
			return
		}
		machine = vm.New(code, cfg.VMOpts()...)
		var res object.Object
		if src == "withoswarm" {
			// the VM first ran under ANOTHER host OS (same parent context value), then the host supplies
			// its OS with the WithOS option of the next run: nothing of the first run may stick
			otherOS := ros.NewVirtualOS(baseCtx, ros.WithStdout(ros.NewBufferFile(nil)),
				ros.WithEnvironment(map[string]string{"VERIF_SENTINEL": "OTHER-env"}), ros.WithCwd("/"))
			wcfg := risor.NewConfig(risor.WithConcurrency(), risor.WithLocalImporter(modDir), risor.WithGlobals(globals), risor.WithOS(otherOS))
			warm, werr := rparser.Parse(baseCtx, "getenv(\"VERIF_SENTINEL\")")
			if werr == nil {
				var wcode *compiler.Code
				if wcode, werr = compiler.Compile(warm, wcfg.CompilerOpts()...); werr == nil {
					machine = vm.New(wcode, wcfg.VMOpts()...)
					werr = machine.Run(baseCtx)
				}
			}
			if werr != nil {
				status, msg = "nocompile", "warm-up: "+werr.Error()
				return
			}
			err = machine.RunCode(baseCtx, code, cfg.VMOpts()...)
		} else if src == "withosafterctx" {
			// the VM (built with the host's OS as an option) first serves an invocation whose CONTEXT carries another
			// OS; the next invocation comes with a plain context: the VM's own OS is in force again
			otherOS := ros.NewVirtualOS(baseCtx, ros.WithStdout(ros.NewBufferFile(nil)),
				ros.WithEnvironment(map[string]string{"VERIF_SENTINEL": "OTHER-env"}), ros.WithCwd("/"))
			warm, werr := rparser.Parse(baseCtx, "getenv(\"VERIF_SENTINEL\")")
			if werr == nil {
				var wcode *compiler.Code
				if wcode, werr = compiler.Compile(warm, cfg.CompilerOpts()...); werr == nil {
					werr = machine.RunCode(ros.WithOS(baseCtx, otherOS), wcode)
				}
			}
			if werr != nil {
				status, msg = "nocompile", "warm-up: "+werr.Error()
				return
			}
			// (no options on these runs: the VM keeps what vm.New was given)
			err = machine.RunCode(baseCtx, code)
		} else if src == "withosonce" {
			// the host's OS is given ONCE, to vm.New; the VM runs a first program and then the script with RunCode
			// and no options at all
			warm, werr := rparser.Parse(baseCtx, "getenv(\"VERIF_SENTINEL\")")
			if werr == nil {
				var wcode *compiler.Code
				if wcode, werr = compiler.Compile(warm, cfg.CompilerOpts()...); werr == nil {
					machine = vm.New(wcode, cfg.VMOpts()...)
					werr = machine.Run(baseCtx)
				}
			}
			if werr != nil {
				status, msg = "nocompile", "warm-up: "+werr.Error()
				return
			}
			err = machine.RunCode(baseCtx, code)
		} else if src == "withosvm" {
			// the top-level API: risor.Eval with the options WithOS and WithVM (a VM the host made itself)
			if machine, err = vm.NewEmpty(); err == nil {
				_, err = risor.Eval(hostCtx, script, append(append([]risor.Option{}, opts...), risor.WithVM(machine))...)
			}
		} else if src == "ctxwarm" {
			// the VM is used once with no OS at all (no option, plain context) before the host supplies
			// its OS in the context: run a trivial code object, then the script
			warm, werr := rparser.Parse(baseCtx, "1")
			if werr == nil {
				var wcode *compiler.Code
				if wcode, werr = compiler.Compile(warm, cfg.CompilerOpts()...); werr == nil {
					werr = machine.RunCode(baseCtx, wcode)
				}
			}
			if werr != nil {
				status, msg = "nocompile", "warm-up: "+werr.Error()
				return
			}
			err = machine.RunCode(hostCtx, code)
		} else {
			err = machine.Run(hostCtx)
		}
		if err == nil {
			if hostclone {
				var fobj object.Object
				fobj, err = machine.Get("__f")
				if err == nil {
					fn, ok := fobj.(*object.Function)
					if !ok {
						status, msg = "nocompile", "__f is not a function"
						return
					}
					var clone *vm.VirtualMachine
					clone, err = machine.Clone()
					if err == nil {
						res, err = clone.Call(hostCtx, fn, nil)
					}
				}
			} else if tos, ok := machine.TOS(); ok {
				res = tos
			}
		}
		if err != nil {
			status, msg = "err", err.Error()
			if baseCtx.Err() != nil {
				status = "timeout"
			}
			return
		}
		if e, ok := res.(*object.Error); ok {
			status, msg = "err", e.Value().Error()
			return
		}
		result = resultText(res)
	}()
	rec.setPhase(2)
	cancel()

	effects := sbx.realEffects()
	leak := false
	for _, s := range []string{result, msg, string(vout.Bytes()), string(verr.Bytes())} {
		if strings.Contains(s, marker) {
			leak = true
		}
	}
	rec.mu.Lock()
	events := append([]event{}, rec.events...)
	nsetup, nlate := rec.setup, rec.late
	rec.mu.Unlock()
	for _, e := range events {
		if strings.Contains(e.A, marker) {
			leak = true
		}
	}
	if leak {
		effects = append(effects, "real_data_leaked")
	}
	for _, k := range effects {
		events = append(events, event{E: "real_effect", K: k})
	}
	events = append(events, event{E: "end", K: status})
	return N{"k": "done", "status": status, "msg": short(msg, 300), "result": short(result, 160),
		"events": events, "setup_events": nsetup, "late_events": nlate, "pre_effects": pre,
		"vout": short(string(vout.Bytes()), 80), "gomaxprocs": runtime.GOMAXPROCS(0)}
}

// ---------------------------------------------------------------------------

func main() {
	if len(os.Args) >= 3 && os.Args[1] == "-worker" {
		captureFds()
	}
	run.Register("call", callWorker)
	run.MaybeWorker()
	if len(os.Args) < 2 {
		fmt.Fprintln(os.Stderr, "usage: osmed inventory|scan|run ...")
		os.Exit(2)
	}
	mode := os.Args[1]
	fs := flag.NewFlagSet(mode, flag.ExitOnError)
	repo := fs.String("repo", "/repo", "")
	in := fs.String("in", "", "")
	out := fs.String("out", "", "")
	work := fs.String("work", "", "")
	procs := fs.Int("procs", runtime.NumCPU(), "")
	gmp := fs.Int("gomaxprocs", 0, "")
	fs.Parse(os.Args[2:])
	fail := func(err error) {
		fmt.Fprintln(os.Stderr, "osmed:", err)
		os.Exit(2)
	}
	switch mode {
	case "inventory":
		if err := inventory(*repo, *out); err != nil {
			fail(err)
		}
	case "scan":
		if err := scan(*repo, *out); err != nil {
			fail(err)
		}
	case "run":
		rows, err := run.ReadNDJSON(*in)
		if err != nil {
			fail(err)
		}
		if *work == "" {
			fail(fmt.Errorf("-work is required"))
		}
		if err := os.MkdirAll(*work, 0o755); err != nil {
			fail(err)
		}
		env := []string{"OSMED_WORK=" + *work}
		if *gmp > 0 {
			env = append(env, fmt.Sprintf("GOMAXPROCS=%d", *gmp))
		}
		pool := run.NewPool("call", *procs, env...)
		resps := pool.Map(rows, 30*time.Second)
		outRows := make([]N, len(rows))
		for i, r := range rows {
			outRows[i] = N{"id": r["id"], "fn": r["fn"], "v": r["v"], "path": r["path"], "src": r["src"], "res": resps[i]}
		}
		if err := run.WriteNDJSON(*out, outRows); err != nil {
			fail(err)
		}
	default:
		fail(fmt.Errorf("unknown mode %s", mode))
	}
}
