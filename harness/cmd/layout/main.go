// layout: C20 driver.
//
//	layout lex -maxlen N -out f        all strings over Lexer.tla's class alphabet through the real lexer
//	layout variants -in cases -table t -out f   every permitted layout insertion at every token gap of every
//	                                    program: syntax tree and bytecode must equal the original's
//	layout diag -in cases -out f       single-token deletions / insertions / substitutions of valid programs:
//	                                    position and quoted line of every parse / compile error
package main

import (
	"context"
	"encoding/json"
	"errors"
	"flag"
	"fmt"
	"math/rand"
	"os"
	"runtime"
	"strings"
	"time"

	"github.com/risor-io/risor"
	"github.com/risor-io/risor/compiler"
	"github.com/risor-io/risor/errz"
	"github.com/risor-io/risor/lexer"
	"github.com/risor-io/risor/parser"
	"github.com/risor-io/risor/token"

	"verifharness/ast"
	"verifharness/run"
)

type N = map[string]any

var alphabet = []rune{'a', '1', ' ', '\t', '\n', '\r', '/', '*', '#', '"', '+', '=', '(', ')'}

func lexWorker(req N) (resp N) {
	defer func() {
		if r := recover(); r != nil {
			resp = N{"k": "gopanic", "msg": fmt.Sprint(r)}
		}
	}()
	src := ast.FromCps(req["src"])
	l := lexer.New(src)
	toks := []any{}
	for n := 0; n < 200; n++ {
		t, err := l.Next()
		if err != nil {
			return N{"k": "ok", "toks": toks, "err": true}
		}
		toks = append(toks, N{"type": string(t.Type), "lit": run.Cps(t.Literal),
			"sl": t.StartPosition.Line, "sc": t.StartPosition.Column, "el": t.EndPosition.Line, "ec": t.EndPosition.Column})
		if t.Type == token.EOF {
			break
		}
	}
	return N{"k": "ok", "toks": toks, "err": false}
}

// treeAndCode parses and compiles src; returns canonical tree JSON, bytecode JSON, error text.
func treeAndCode(src string) (tree string, code string, errText string) {
	defer func() {
		if r := recover(); r != nil {
			errText = fmt.Sprintf("gopanic: %v", r)
		}
	}()
	prog, err := parser.Parse(context.Background(), src)
	if err != nil {
		return "", "", "parse: " + err.Error()
	}
	tb, _ := json.Marshal(ast.FromProgram(prog))
	cfg := risor.NewConfig()
	c, err := compiler.Compile(prog, cfg.CompilerOpts()...)
	if err != nil {
		return string(tb), "", "compile: " + err.Error()
	}
	var codes []any
	for _, cc := range c.Flatten() {
		ins := make([]int, cc.InstructionCount())
		for i := range ins {
			ins[i] = int(cc.Instruction(i))
		}
		consts := []string{}
		for i := 0; i < cc.ConstantsCount(); i++ {
			if f, ok := cc.Constant(i).(*compiler.Function); ok {
				consts = append(consts, "fn:"+f.ID())
			} else {
				consts = append(consts, fmt.Sprintf("%T:%v", cc.Constant(i), cc.Constant(i)))
			}
		}
		codes = append(codes, N{"id": cc.ID(), "ins": ins, "consts": consts})
	}
	cb, _ := json.Marshal(codes)
	return string(tb), string(cb), ""
}

// variantsWorker applies every permitted insertion at every gap of one program.
func variantsWorker(req N) (resp N) {
	defer func() {
		if r := recover(); r != nil {
			resp = N{"k": "gopanic", "msg": fmt.Sprint(r)}
		}
	}()
	prog := req["ast"].([]any)
	table := req["table"].(map[string]any) // gap class -> list of insertion kinds
	texts := req["texts"].(map[string]any) // insertion kind -> text
	// fully parenthesised, or (req "min") with the minimal parentheses: only there do operator chains meet the
	// insertions (a break after the first operator of `a - b - c` must not re-associate it)
	min, _ := req["min"].(bool)
	r := &ast.Renderer{Full: !min}
	r.Stmts(prog)
	base := r.Source()
	baseTree, baseCode, baseErr := treeAndCode(base)
	if strings.HasPrefix(baseErr, "parse:") || strings.HasPrefix(baseErr, "gopanic") {
		return N{"k": "nobase", "msg": baseErr}
	}
	tried := 0
	var bad []any
	try := func(label string, gap int, src string) {
		tried++
		tree, code, errText := treeAndCode(src)
		verdict := ""
		switch {
		case strings.HasPrefix(errText, "parse:") || strings.HasPrefix(errText, "gopanic"):
			verdict = "rejected: " + errText
		case tree != baseTree:
			verdict = "tree differs"
		case code != baseCode || (errText != "") != (baseErr != ""):
			verdict = "bytecode differs"
		}
		if verdict != "" && len(bad) < 10 {
			bad = append(bad, N{"kind": label, "gap": gap, "verdict": verdict, "src": src})
		}
	}
	classOf := func(t ast.Tok) string {
		switch {
		case t.Stmt:
			return "stmt"
		case t.NL:
			return "nl"
		}
		return "any"
	}
	for gi := 1; gi < len(r.Toks); gi++ {
		cls := classOf(r.Toks[gi])
		kinds, _ := table[cls].([]any)
		for _, k := range kinds {
			kind := k.(string)
			text := texts[kind].(string)
			src := r.SourceWith(func(i int, t ast.Tok) (string, bool) {
				if i != gi {
					return "", false
				}
				// an insertion that ends the line replaces the default gap text, anything else extends it
				if strings.HasSuffix(text, "\n") {
					return text, true
				}
				return t.Sep + text, true
			})
			try(kind, gi, src)
		}
	}
	// CRLF line endings everywhere
	try("crlf", 0, strings.ReplaceAll(base, "\n", "\r\n"))
	// ... also of a program that holds a RAW string spanning lines (its value is part of the tree)
	ext := base + "\nzq := `l1\nl2\n\n  l4`\nzq\n"
	if extTree, extCode, extErr := treeAndCode(ext); !strings.HasPrefix(extErr, "parse:") && !strings.HasPrefix(extErr, "gopanic") {
		tried++
		tree, code, errText := treeAndCode(strings.ReplaceAll(ext, "\n", "\r\n"))
		verdict := ""
		switch {
		case strings.HasPrefix(errText, "parse:") || strings.HasPrefix(errText, "gopanic"):
			verdict = "rejected: " + errText
		case tree != extTree:
			verdict = "tree differs"
		case code != extCode:
			verdict = "bytecode differs"
		}
		if verdict != "" && len(bad) < 10 {
			bad = append(bad, N{"kind": "crlf", "gap": 0, "verdict": verdict, "src": strings.ReplaceAll(ext, "\n", "\r\n")})
		}
	}
	// random multi-gap combination
	rnd := rand.New(rand.NewSource(int64(req["seed"].(float64))))
	for rep := 0; rep < 3; rep++ {
		src := r.SourceWith(func(i int, t ast.Tok) (string, bool) {
			if i == 0 || rnd.Intn(3) != 0 {
				return "", false
			}
			kinds, _ := table[classOf(t)].([]any)
			if len(kinds) == 0 {
				return "", false
			}
			text := texts[kinds[rnd.Intn(len(kinds))].(string)].(string)
			if strings.HasSuffix(text, "\n") {
				return text, true
			}
			return t.Sep + text, true
		})
		try("multi", -1, src)
	}
	return N{"k": "ok", "gaps": len(r.Toks) - 1, "tried": tried, "bad": bad, "base": base}
}

func diagWorker(req N) (resp N) {
	defer func() {
		if r := recover(); r != nil {
			resp = N{"k": "gopanic", "msg": fmt.Sprint(r), "src": resp["src"]}
		}
	}()
	prog := req["ast"].([]any)
	rnd := rand.New(rand.NewSource(int64(req["seed"].(float64))))
	r := &ast.Renderer{Full: true}
	r.Stmts(prog)
	var events []any
	if w, ok := req["witness"].(bool); ok && w {
		// diagnose the program as it is
		if ev := diagnose(r.Source()); ev != nil {
			events = append(events, ev)
		}
	}
	// constructs that are cut off right after a token spanning several lines (a raw string): the end-of-input
	// error must still name a position inside the text and quote that very line
	tails := []string{"print(`select *\nfrom t`", "xq := [1, `a\nb`", "fq(`a\n\nb`,", "mq := {\"k\": `a\nb`", "yq := (`a\nb`", "print(`a\nb` +",
		"zq := `a\nb`[", "if `a\nb` {", "print(`one\ntwo\nthree`, 1"}
	// a syntax error INSIDE the braces of a template string, below and to the right of the start of the text: the
	// reported position and the quoted line are those of the whole source, not of the fragment between the braces
	broken := []string{"yq := '{ fq(1, 2 }'", "print('v={ 1 + }', 2)", "  zq := [1, 'a{ ) }b']", "mq := {\"k\": '{ [1, }'}", "print(1)\n\txq := '{ 1 2 }'"}
	if n := int(req["n"].(float64)); n > 0 {
		b := broken[rnd.Intn(len(broken))]
		base := r.Source()
		if !strings.HasSuffix(base, "\n") {
			base += "\n"
		}
		if ev := diagnose(base + b); ev != nil {
			events = append(events, ev)
		}
		if ev := diagnose(base + "\n" + b + "\nprint(2)\n"); ev != nil {
			events = append(events, ev)
		}
	}
	// a COMPILE error inside the braces of a template string, on a line below a short first line: the position
	// is one of the whole source (the expressions between the braces are parsed on their own)
	scoped := []string{"zq := 'val {1 + undefq} end'", "print('{ func() { return [1, 2, undefq] }() }')", "mq := {\"k\": 'a{ 1 }b{ undefq }'}",
		"fq := func() {\n\treturn '{ '{ undefq }' }'\n}", "const cq = 1\nyq := '{ func() { cq = 2 }() }'"}
	if n := int(req["n"].(float64)); n > 0 {
		b := scoped[rnd.Intn(len(scoped))]
		if ev := diagnose("\n\n\t" + b + "\n"); ev != nil {
			events = append(events, ev)
		}
	}
	// a character no token starts with, put at a token gap of the (valid) program: the lexical error is reported at
	// THAT character (Lexer.tla: the text before it tokenises; the driver knows the line and column it wrote to)
	if n := int(req["n"].(float64)); n > 0 && len(r.Toks) > 2 {
		for rep := 0; rep < 2; rep++ {
			gi := 1 + rnd.Intn(len(r.Toks)-1)
			bad := []string{"~", "$", "@", "^", "3abc", "09", "0x1g"}[rnd.Intn(7)]
			marker := "\x00MARK\x00"
			src := r.SourceWith(func(i int, t ast.Tok) (string, bool) {
				if i != gi {
					return "", false
				}
				return t.Sep + " " + marker + " ", true
			})
			if k := strings.Index(src, marker); k >= 0 {
				before := src[:k]
				line := strings.Count(before, "\n") + 1
				col := len([]rune(before[strings.LastIndex(before, "\n")+1:])) + 1
				if ev := diagnose(strings.Replace(src, marker, bad, 1)); ev != nil && ev["stage"] == "parse" {
					ev["want_line"], ev["want_col"] = line, col
					events = append(events, ev)
				}
			}
		}
	}
	// an if / switch whose condition is missing at a line end, in every place that takes an expression; a "%" in a
	// broken template string (the message quotes the source: no "%!" of a misused format may appear)
	if n := int(req["n"].(float64)); n > 0 {
		base := r.Source()
		if !strings.HasSuffix(base, "\n") {
			base += "\n"
		}
		nocond := []string{"print(1, if\n2)", "print(1, switch\n2)", "[1, 2, if\n3]", "xq := 1\nreturn if", "func fq() {\n\treturn switch\n\t1\n}",
			"fq := func(a = if\n xq {}", "xq := '100% of {total'", "xq := 'rate: {1 + %b}'", "xq := '{ %'", "mq := {\"k\": [1, if\n2]}"}
		if ev := diagnose(base + nocond[rnd.Intn(len(nocond))]); ev != nil {
			events = append(events, ev)
		} else {
			events = append(events, N{"src": run.Cps(base), "stage": "accepted", "haspos": false})
		}
	}
	// ONE compiler for several inputs (a REPL): after an input that failed to compile - inside a template string, a
	// function, a loop - the error of the next input is located in THAT input's text
	if n := int(req["n"].(float64)); n > 0 {
		firsts := []string{"\n\n\n\n\t\t  zq := 'val {1 + undefq} end'\n", "\n\n\nfunc fq() {\n\n\t\treturn [1, 2, undefq]\n}\n",
			"\n\n\nfor iq := 0; iq < 2; iq++ {\n\n\t\t\tprint('{iq} {undefq}')\n}\n", "\n\n\n\n\n          const cq = 1; cq = 2\n"}
		seconds := []string{"yq := nowhereq", "print(nowhereq)", "wq := 'a{nowhereq}'", "break"}
		if ev := diagnoseReuse(firsts[rnd.Intn(len(firsts))], seconds[rnd.Intn(len(seconds))]); ev != nil {
			events = append(events, ev)
		}
	}
	if n := int(req["n"].(float64)); n > 0 {
		t := tails[rnd.Intn(len(tails))]
		base := r.Source()
		if !strings.HasSuffix(base, "\n") {
			base += "\n"
		}
		if ev := diagnose(base + t); ev != nil {
			events = append(events, ev)
		}
		if ev := diagnose(base + t + "\n"); ev != nil {
			events = append(events, ev)
		}
	}
	for m := 0; m < int(req["n"].(float64)); m++ {
		src := relayout(ast.Mutate(r, rnd), rnd)
		ev := diagnose(src)
		if ev != nil {
			events = append(events, ev)
		}
	}
	return N{"k": "ok", "events": events}
}

// relayout applies layout that the property permits to a (mutated) program before it is diagnosed: blank lines,
// a leading line break, indentation, line comments at line ends, CRLF line endings. Positions and quoted lines
// are judged against the text that was actually parsed.
func relayout(src string, rnd *rand.Rand) string {
	if rnd.Intn(3) == 0 {
		return src
	}
	lines := strings.Split(src, "\n")
	var out []string
	if rnd.Intn(4) == 0 {
		out = append(out, "")
	}
	for _, ln := range lines {
		if rnd.Intn(5) == 0 {
			out = append(out, "")
		}
		if rnd.Intn(6) == 0 {
			ln = []string{"\t", "  ", "\t\t "}[rnd.Intn(3)] + ln
		}
		if rnd.Intn(8) == 0 && !strings.ContainsAny(ln, "`'\"") {
			ln += " // c"
		}
		out = append(out, ln)
	}
	sep := "\n"
	if rnd.Intn(4) == 0 {
		sep = "\r\n"
	}
	return strings.Join(out, sep)
}

// diagnose parses and compiles src and describes the reported error, if any.
// diagnoseReuse compiles two inputs with one compiler and reports the diagnostic of the SECOND (positions are judged
// against the second input's text).
func diagnoseReuse(first, second string) (ev N) {
	defer func() {
		if r := recover(); r != nil {
			ev = N{"src": run.Cps(second), "stage": "panic", "panic": fmt.Sprint(r)}
		}
	}()
	cfg := risor.NewConfig()
	c, err := compiler.New(cfg.CompilerOpts()...)
	if err != nil {
		return nil
	}
	if prog, perr := parser.Parse(context.Background(), first); perr == nil {
		_, _ = c.Compile(prog)
	}
	prog, perr := parser.Parse(context.Background(), second)
	if perr != nil {
		return nil
	}
	if _, cerr := c.Compile(prog); cerr != nil {
		msg := cerr.Error()
		ev := N{"src": run.Cps(second), "stage": "compile", "haspos": false, "msg": msg}
		if k := strings.Index(msg, "(line "); k >= 0 {
			var l, col int
			if n, _ := fmt.Sscanf(msg[k:], "(line %d, column %d)", &l, &col); n == 2 {
				ev["haspos"] = true
				ev["line"], ev["col"] = l, col
				ev["eline"], ev["ecol"] = l, col
			}
		}
		return ev
	}
	return nil
}

func diagnose(src string) (ev N) {
	defer func() {
		if r := recover(); r != nil {
			ev = N{"src": run.Cps(src), "stage": "panic", "panic": fmt.Sprint(r)}
		}
	}()
	prog, err := parser.Parse(context.Background(), src)
	if err != nil {
		ev := N{"src": run.Cps(src), "stage": "parse", "haspos": false}
		var pe parser.ParserError
		if errors.As(err, &pe) {
			ev["haspos"] = true
			ev["line"] = pe.StartPosition().LineNumber()
			ev["col"] = pe.StartPosition().ColumnNumber()
			ev["eline"] = pe.EndPosition().LineNumber()
			ev["ecol"] = pe.EndPosition().ColumnNumber()
			ev["quoted"] = run.Cps(pe.SourceCode())
		}
		ev["garbled"] = strings.Contains(err.Error(), "%!") && !strings.Contains(src, "%!")
		var fe errz.FriendlyError
		if errors.As(err, &fe) {
			ev["friendly"] = len(fe.FriendlyErrorMessage()) > 0
		}
		return ev
	}
	cfg := risor.NewConfig()
	if _, err := compiler.Compile(prog, cfg.CompilerOpts()...); err != nil {
		msg := err.Error()
		ev := N{"src": run.Cps(src), "stage": "compile", "haspos": false, "msg": msg}
		// compile errors carry "location: file:line:col (line L, column C)"
		if k := strings.Index(msg, "(line "); k >= 0 {
			var l, c int
			if n, _ := fmt.Sscanf(msg[k:], "(line %d, column %d)", &l, &c); n == 2 {
				ev["haspos"] = true
				ev["line"], ev["col"] = l, c
				ev["eline"], ev["ecol"] = l, c
			}
		}
		var fe errz.FriendlyError
		if errors.As(err, &fe) {
			ev["friendly"] = len(fe.FriendlyErrorMessage()) > 0
		}
		return ev
	}
	return nil
}

func main() {
	run.Register("lex", lexWorker)
	run.Register("variants", variantsWorker)
	run.Register("diag", diagWorker)
	run.MaybeWorker()
	if len(os.Args) < 2 {
		fmt.Fprintln(os.Stderr, "usage: layout lex|variants|diag ...")
		os.Exit(2)
	}
	mode := os.Args[1]
	fs := flag.NewFlagSet(mode, flag.ExitOnError)
	in := fs.String("in", "", "")
	out := fs.String("out", "", "")
	maxlen := fs.Int("maxlen", 4, "")
	tablePath := fs.String("table", "", "")
	seed := fs.Int("seed", 1, "")
	nmut := fs.Int("n", 10, "")
	witness := fs.Bool("witness", false, "")
	fs.Parse(os.Args[2:])
	var reqs []N
	var rows []N
	switch mode {
	case "lex":
		var gen func(prefix []rune, n int)
		id := 0
		gen = func(prefix []rune, n int) {
			rows = append(rows, N{"id": id, "src": run.Cps(string(prefix))})
			id++
			if n == 0 {
				return
			}
			for _, c := range alphabet {
				gen(append(append([]rune{}, prefix...), c), n-1)
			}
		}
		gen(nil, *maxlen)
		for _, r := range rows {
			reqs = append(reqs, N{"src": r["src"]})
		}
	case "variants", "diag":
		var err error
		rows, err = run.ReadNDJSON(*in)
		if err != nil {
			fmt.Fprintln(os.Stderr, err)
			os.Exit(2)
		}
		var table N
		if mode == "variants" {
			b, err := os.ReadFile(*tablePath)
			if err != nil {
				fmt.Fprintln(os.Stderr, err)
				os.Exit(2)
			}
			if err := json.Unmarshal(b, &table); err != nil {
				fmt.Fprintln(os.Stderr, err)
				os.Exit(2)
			}
		}
		for i, r := range rows {
			if mode == "variants" {
				reqs = append(reqs, N{"ast": r["ast"], "table": table["table"], "texts": table["texts"], "seed": *seed*100000 + i, "min": r["min"]})
			} else {
				reqs = append(reqs, N{"ast": r["ast"], "seed": *seed*100000 + i, "n": *nmut, "witness": *witness})
			}
		}
	default:
		fmt.Fprintln(os.Stderr, "unknown mode", mode)
		os.Exit(2)
	}
	pool := run.NewPool(mode, runtime.NumCPU())
	resps := pool.Map(reqs, 120*time.Second)
	var outRows []N
	for i, r := range rows {
		o := N{"id": r["id"], "res": resps[i]}
		if mode == "lex" {
			o["src"] = r["src"]
		}
		outRows = append(outRows, o)
	}
	if err := run.WriteNDJSON(*out, outRows); err != nil {
		fmt.Fprintln(os.Stderr, err)
		os.Exit(2)
	}
}
