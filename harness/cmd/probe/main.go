// probe: evaluate each line of stdin (or each argument) as a risor program and print the outcome.
package main

import (
	"bufio"
	"context"
	"fmt"
	"os"
	"strings"
	"time"

	"github.com/risor-io/risor"
)

func one(src string) {
	src = strings.ReplaceAll(src, "\\n", "\n")
	defer func() {
		if r := recover(); r != nil {
			fmt.Printf("GOPANIC %v | %q\n", r, src)
		}
	}()
	ctx, cancel := context.WithTimeout(context.Background(), 2*time.Second)
	defer cancel()
	res, err := risor.Eval(ctx, src)
	if err != nil {
		fmt.Printf("ERR %v | %q\n", err, src)
		return
	}
	fmt.Printf("OK %s | %q\n", res.Inspect(), src)
}

func main() {
	if len(os.Args) > 1 {
		for _, a := range os.Args[1:] {
			one(a)
		}
		return
	}
	sc := bufio.NewScanner(os.Stdin)
	sc.Buffer(make([]byte, 1<<20), 1<<20)
	for sc.Scan() {
		one(sc.Text())
	}
}
