// robust: C03 driver. Every request is one embedding-API call sequence on one input:
// parser.Parse -> compiler.Compile -> risor.Eval (bounded by a context deadline) and, for any
// error, err.Error() and FriendlyErrorMessage(). The worker answers "value", "error" or "panic"
// (a Go panic reached the caller of the API); a worker that dies answers "crash" (pool).
//
//	robust gen -kind soup|chars|mutants|cyclic|deep -seed S -n N -out f     (inputs)
//	robust run -in f -out g                                                  (events)
package main

import (
	"context"
	"errors"
	"flag"
	"fmt"
	"math/rand"
	"os"
	"runtime"
	"runtime/debug"
	"strings"
	"time"

	"github.com/risor-io/risor"
	"github.com/risor-io/risor/compiler"
	"github.com/risor-io/risor/errz"
	ros "github.com/risor-io/risor/os"
	"github.com/risor-io/risor/parser"
	"github.com/risor-io/risor/vm"

	"verifharness/ast"
	"verifharness/run"
)

type N = map[string]any

func apiWorker(req N) (resp N) {
	debug.SetMaxStack(48 << 20)
	src := req["src"].(string)
	stage := "parse"
	defer func() {
		if r := recover(); r != nil {
			msg := fmt.Sprint(r)
			if len(msg) > 300 {
				msg = msg[:300]
			}
			resp = N{"k": "panic", "stage": stage, "msg": msg}
		}
	}()
	format := func(err error) {
		stage += "+format"
		_ = err.Error()
		var fe errz.FriendlyError
		if errors.As(err, &fe) {
			_ = fe.FriendlyErrorMessage()
		}
	}
	ctx, cancel := context.WithTimeout(context.Background(), time.Duration(req["ms"].(float64))*time.Millisecond)
	defer cancel()
	prog, err := parser.Parse(ctx, src)
	if err != nil {
		format(err)
		return N{"k": "error", "stage": "parse"}
	}
	if po, ok := req["parseonly"].(bool); ok && po {
		return N{"k": "value", "stage": "parse"}
	}
	_ = prog.String()
	stage = "compile"
	cfg := risor.NewConfig()
	code, err := compiler.Compile(prog, cfg.CompilerOpts()...)
	if err != nil {
		format(err)
		return N{"k": "error", "stage": "compile"}
	}
	stage = "eval"
	stdout := ros.NewBufferFile(nil)
	vos := ros.NewVirtualOS(ctx, ros.WithStdout(stdout), ros.WithExitHandler(func(int) {}))
	res, err := risor.Eval(ctx, src, risor.WithOS(vos), risor.WithConcurrency(),
		risor.WithoutGlobals("exec", "http", "net", "dns", "ssh", "os.exit", "exit", "cat", "ls", "cp", "open", "fetch", "playwright", "sql", "pgx", "redis", "aws", "k8s"))
	if err != nil {
		format(err)
		return N{"k": "error", "stage": "eval"}
	}
	stage = "inspect"
	if res != nil {
		_ = res.Inspect()
	}
	// one VM used for several evaluations under different kinds of context (with a deadline, none, cancellable):
	// errors are fine, a panic is not
	stage = "reuse"
	if machine, merr := vm.NewEmpty(); merr == nil {
		withVM := []risor.Option{risor.WithOS(vos), risor.WithConcurrency(), risor.WithVM(machine)}
		_, _ = risor.Eval(ctx, src, withVM...)
		_, _ = risor.Eval(context.Background(), "1 + 1", withVM...)
		cctx, ccancel := context.WithCancel(context.Background())
		_, _ = risor.Eval(cctx, "2 + 2", withVM...)
		ccancel()
		_, _ = risor.Eval(context.Background(), "3", withVM...)
	}
	// risor.Call with every name the program declares at top level (functions, other values, names that were
	// never assigned) and with a name it does not declare: an error is fine, a panic is not
	stage = "call"
	known := map[string]bool{}
	for _, n := range cfg.GlobalNames() {
		known[n] = true
	}
	names := []string{"no_such_function"}
	for _, n := range code.GlobalNames() {
		if !known[n] && len(names) < 6 {
			names = append(names, n)
		}
	}
	for _, n := range names {
		cctx, ccancel := context.WithTimeout(ctx, 200*time.Millisecond)
		v, cerr := risor.Call(cctx, code, n, nil, risor.WithOS(vos), risor.WithConcurrency())
		ccancel()
		if cerr != nil {
			format(cerr)
		} else if v != nil {
			_ = v.Inspect()
		}
	}
	return N{"k": "value", "stage": "eval"}
}

var soupVocab = []string{"(", ")", "{", "}", "[", "]", ",", ":", ":=", "=", "+", "-", "*", "/", "%", "**", "<", ">", "==", "!=", "!", "&&", "||", "|", "&", "?", ".", ";", "\n",
	"if", "else", "for", "func", "return", "in", "not", "range", "switch", "case", "default", "break", "continue", "const", "var", "defer", "go", "<-", "import", "from", "as", "nil", "true",
	"x", "f", "1", "1.5", "0x1", "\"s\"", "'t'", "'{x}'", "`r`", "x++", "/* c */", "// c\n", "try", "error", "print", "len", "[1]", "{\"a\": 1}", "{1}", "x := 1\n", "f := func() { f() }\n"}

// cyclic / deeply nested data followed by each recursive operation
var cyclicSetups = []string{
	"l := [1]\nl.append(l)\n",
	"m := {\"a\": 1}\nm[\"m\"] = m\nl := m\n",
	"l := [1]\nm := {\"l\": l}\nl.append(m)\n",
	"l := [1]\nk := [l]\nl.append(k)\n",
	"l := []\nfor i := 0; i < 3000; i++ { l = [l] }\n",
	"m := {}\nfor i := 0; i < 3000; i++ { m = {\"m\": m} }\nl := m\n",
}
var cyclicOps = []string{
	"l == l", "l != l", "l == [1]", "l < l", "l in l", "l in [l]", "[l] == [l]", "sorted([l, l])", "string(l)", "print(l)", "'{l}'", "l.copy()", "{\"k\": l} == {\"k\": l}",
	"import json\njson.marshal(l)", "encode(l, \"json\")", "len(l)", "l.count(l)", "l.index(l)", "l.remove(l)", "hash(l)", "set([l])", "type(l)", "bool(l)", "l + l", "for x in l { x }", "keys(l)", "try(func() { l == l })",
	"import json\ntry(func() { json.marshal(l) })", "list(l)", "reversed(l)", "l.extend(l)", "l[0]", "any(l)", "all(l)", "coalesce(l)", "chunk(l, 1)", "sprintf(\"%v\", l)", "error(\"%v\", l)",
}

func genInputs(kind string, seed int64, n int) []N {
	rnd := rand.New(rand.NewSource(seed))
	var rows []N
	add := func(src string) { rows = append(rows, N{"id": len(rows), "kind": kind, "src": src}) }
	switch kind {
	case "soup":
		// every sequence of at most 2 vocabulary tokens, then random longer ones
		add("")
		for _, a := range soupVocab {
			add(a)
			for _, b := range soupVocab {
				add(a + " " + b)
			}
		}
		for i := 0; i < n; i++ {
			k := 3 + rnd.Intn(8)
			var parts []string
			for j := 0; j < k; j++ {
				parts = append(parts, soupVocab[rnd.Intn(len(soupVocab))])
			}
			sep := " "
			if rnd.Intn(4) == 0 {
				sep = ""
			}
			add(strings.Join(parts, sep))
		}
	case "chars":
		alphabet := []rune{'a', '1', ' ', '\n', '\r', '/', '*', '#', '"', '\'', '`', '+', '=', '(', ')', '{', '}', '[', ']', '.', ':', ',', '\\', '?', '|', '-', '<', '!', 'é', 0, '~', '@', '0', 'x'}
		var rec func(prefix []rune, d int)
		maxlen := 2
		if n > 100000 {
			maxlen = 3
		}
		rec = func(prefix []rune, d int) {
			add(string(prefix))
			if d == 0 {
				return
			}
			for _, c := range alphabet {
				rec(append(append([]rune{}, prefix...), c), d-1)
			}
		}
		rec(nil, maxlen)
		for i := 0; i < n && i < 50000; i++ {
			k := 3 + rnd.Intn(10)
			rs := make([]rune, k)
			for j := range rs {
				rs[j] = alphabet[rnd.Intn(len(alphabet))]
			}
			add(string(rs))
		}
	case "mutants":
		for i := 0; i < n; i++ {
			g := ast.NewGen(rnd, 60)
			prog := g.Program(3)
			r := &ast.Renderer{Full: true}
			r.Stmts(prog)
			add(ast.Mutate(r, rnd))
		}
	case "cyclic":
		// a builtin that reaches itself through its own callback argument (no script frame in between)
		add("l := [0]\nm := l.map\nl[0] = m\nl.map(m)")
		add("l := [0]\nm := l.each\nl[0] = m\nl.each(m)")
		add("l := [0]\nm := l.filter\nl[0] = m\nl.filter(m)")
		add("l := [0]\nl[0] = l.map\nl.map(l[0])\nl.map(l.map)")
		for _, s := range cyclicSetups {
			for _, o := range cyclicOps {
				add(s + o)
			}
		}
	case "contexts":
		// faults provoked in every execution context a script can create: spawned threads (three spawn forms,
		// nested), callbacks inside builtins, deferred functions, error handlers, default-parameter expressions
		faults := []string{
			"over(0)",                            // frame stack overflow (a recovered Go panic on the main thread)
			"[1, 2][5]",                          // ordinary run-time error
			"error(\"boom\")",                    // raised error value
			"1 / 0",                              // division by zero
			"nil.x",                              // attribute of nil
			"cl := chan()\nclose(cl)\nclose(cl)", // close of a closed channel
			"cl := chan()\nclose(cl)\ncl <- 1",   // send on a closed channel
			"over.spawn(0).wait()",               // a thread inside this context
			"string(over)",
			"[over].map(func(f) { f(0) })",
		}
		contexts := []string{
			"%s",
			"t := spawn(func() {\n%s\n})\nt.wait()",
			"t := func() {\n%s\n}.spawn()\nt.wait()",
			"go func() {\n%s\n}()\ntime.sleep(0.15)",
			"spawn(func() {\n%s\n})\ntime.sleep(0.15)",
			"t := spawn(func() {\nu := spawn(func() {\n%s\n})\nu.wait()\n})\nt.wait()",
			"t := spawn(func() {\ngo func() {\n%s\n}()\ntime.sleep(0.1)\n})\nt.wait()",
			"[1].each(func(x) {\n%s\n})",
			"sorted([2, 1], func(a, b) {\n%s\n})",
			"try(func() {\n%s\n})",
			"try(func() { error(\"e\") }, func(e) {\n%s\n})",
			"func d() {\ndefer func() {\n%s\n}()\nreturn 1\n}\nd()",
			"t := spawn(func() {\ndefer func() {\n%s\n}()\nreturn 1\n})\nt.wait()",
			"func p(a=1) {\n%s\n}\nspawn(p).wait()",
			"t := spawn(func() {\ntry(func() {\n%s\n})\n})\nt.wait()\nt.wait()",
			"ts := []\nfor i := 0; i < 4; i++ {\nts.append(spawn(func() {\n%s\n}))\n}\nfor _, t := range ts {\ntry(func() { t.wait() })\n}",
		}
		for _, c := range contexts {
			for _, f := range faults {
				add("import time\nfunc over(n) { return over(n + 1) }\n" + fmt.Sprintf(c, f))
			}
		}
		for _, s := range []string{"spawn(1)", "spawn()", "spawn(nil)", "spawn(func() {}, 1, 2, 3)", "spawn(len)", "len.spawn([1])", "spawn(spawn, spawn)",
			"t := spawn(func() { return 1 })\nt.wait(1)", "go 1", "go len", "go len([1])", "go func() {}", "c := chan(-1)", "c := chan(\"a\")", "close(1)", "close(nil)",
			"c := chan(1)\nc <- c\n<-c", "c := chan()\nspawn(func() { c <- 1 })\nclose(c)\ntime.sleep(0.05)"} {
			add("import time\n" + s)
		}
	case "illformed":
		// structurally invalid programs the compiler must refuse with an error: loop control in the wrong
		// place at different distances into a body, malformed declarations, limits
		pads := []int{0, 1, 3, 8, 20, 40}
		for _, n := range pads {
			pad := ""
			for j := 0; j < n; j++ {
				pad += fmt.Sprintf("y%d := %d\n", j, j)
			}
			for _, kw := range []string{"break", "continue"} {
				add("for i := 0; i < 2; i++ {\nf := func() {\n" + pad + kw + "\n}\nf()\n}")
				add("for i := range 3 {\nf := func() {\n" + pad + "if i > 0 {\n" + kw + "\n}\n}\nf()\n}")
				add("for _, v := range [1, 2] {\n[1].each(func(x) {\n" + pad + kw + "\n})\n}")
				add("for {\nfunc g() {\n" + pad + "switch 1 {\ncase 1:\n" + kw + "\n}\n}\ng()\nbreak\n}")
				add("for i := 0; i < 1; i++ {\ndefer func() {\n" + pad + kw + "\n}()\n}")
				add("for i := 0; i < 1; i++ {\ngo func() {\n" + pad + kw + "\n}()\n}")
				add("func f() {\nfor i := 0; i < 1; i++ {\nfunc() {\nfunc() {\n" + pad + kw + "\n}()\n}()\n}\n}\nf()")
				add(pad + kw)
				add("func f() {\n" + pad + kw + "\n}\nf()")
				add("if true {\n" + pad + kw + "\n}")
				add("switch 1 {\ncase 1:\n" + pad + kw + "\n}")
				add("x := func(a=1) {\n" + pad + kw + "\n}")
			}
			add(pad + "return 1\n")
			add("for i := 0; i < 2; i++ {\n" + pad + "return i\n}")
		}
		for _, s := range []string{"func f(a, a) { return a }", "func f(a, b=1, c) { return a }", "func f(a=1, a=2) {}", "const c = 1\nc = 2", "const c = 1\nc++",
			"const c = 1\nc += 1", "x := 1\nx := 2", "func f() {}\nfunc f() {}", "f()\nfunc f() { g() }", "import 5", "from a import", "x, y := 1", "x, x := [1, 2]",
			"a, b = [1, 2]", "1 = 2", "f() = 3", "[1][0] := 2", "x.y := 3", "nil = 1", "true := 1", "func() {}.x = 1", "defer 1", "go 1", "defer", "go",
			"func f(" + strings.Repeat("a, ", 300) + "z) {}", "f(" + strings.Repeat("1, ", 300) + "1)\nfunc f() {}", "x := [" + strings.Repeat("1, ", 1100) + "1]\nlen(x)",
			"m := {" + strings.Repeat("\"k\": 1, ", 600) + "\"z\": 1}\nlen(m)", "switch 1 {\ndefault:\ndefault:\n}", "switch {\n}", "for i := 0; ; {\nbreak\n}", "for ;; {\nbreak\n}",
			"func f() { return 1, 2 }", "x := if true { 1 }", "x := switch 1 { case 1: 2 }", "x := for i := 0; i < 1; i++ {}", "'{'", "'{1 +}'", "'{break}'", "'{func() { break }}'"} {
			add(s)
		}
	case "breaks":
		// a line break (or a comment, or nothing at all) at every token gap of every construct, one and two
		// gaps at a time: wherever the grammar does not accept the break the parser must say so, not crash
		snippets := []string{"a [ 0 ]", "a [ 1 : 2 ]", "a [ : 2 ] [ 1 : ]", "a . b", "a . b ( 1 , 2 )", "f ( 1 , 2 )", "x := 1", "a , b := [ 1 , 2 ]",
			"func ( a , b = 1 ) { return a }", "func g ( a ) { a }", "if a { b } else if c { d } else { e }", "switch a { case 1 , 2 : b default : c }",
			"for i := 0 ; i < 1 ; i ++ { a }", "for k , v := range m { a }", "for x in m { a }", "for { break }", "a ? b : c", "a | b | c", "import x", "import x as y",
			"from a import b as c , d", "from a import ( b , c )", "go f ( )", "defer f ( )", "c <- 1", "x := <- c", "! a", "- a", "a in b", "a not in b",
			"{ \"a\" : 1 , \"b\" : 2 }", "{ 1 , 2 }", "[ 1 , 2 ]", "const c = 1", "var v = 1", "a += 1", "a ++", "a . b = 1", "a [ 0 ] = 1", "a [ 0 ] += 1",
			"func f ( ) { return 1 }", "a && b || c", "a == b", "a ** b", "try ( func ( ) { a } , func ( e ) { b } )", "x := if a { 1 } else { 2 }", "x := switch a { case 1 : 2 }",
			"( a )", "( a , b )", "a ( ) ( )", "a . b . c ( ) [ 0 ]", "func ( ) { } ( )", "[ ] . map ( func ( x ) { x } )"}
		for _, sn := range snippets {
			toks := strings.Split(sn, " ")
			join := func(sep map[int]string) string {
				var sb strings.Builder
				for i, t := range toks {
					if i > 0 {
						if v, ok := sep[i]; ok {
							sb.WriteString(v)
						} else {
							sb.WriteString(" ")
						}
					}
					sb.WriteString(t)
				}
				return sb.String()
			}
			add(join(nil))
			for i := 1; i < len(toks); i++ {
				for _, v := range []string{"\n", "", " // c\n", " /* c */ ", "\r\n", ";"} {
					add(join(map[int]string{i: v}))
				}
				for j := i + 1; j < len(toks) && j <= i+3; j++ {
					add(join(map[int]string{i: "\n", j: "\n"}))
				}
			}
			// the construct cut off after each token
			for i := 1; i < len(toks); i++ {
				add(strings.Join(toks[:i], " "))
				add(strings.Join(toks[:i], " ") + "\n")
			}
		}
	case "deep":
		// recursion that does not grow the VM's frame stack: through deferred calls, through callbacks of builtins
		add("func f() {\ndefer f()\n}\nf()")
		add("func f(n) {\ndefer func() {\nf(n + 1)\n}()\nreturn n\n}\nf(0)")
		add("func f(n) {\ndefer f(n + 1)\nreturn [n].map(func(x) { return x })\n}\nf(0)")
		add("func f(x) {\nreturn [x].map(f)\n}\nf(1)")
		add("func f(x) {\nreturn try(func() { return f(x) })\n}\nf(1)")
		add("func f(x) {\nreturn sorted([x, x], func(a, b) { f(a)\n return true })\n}\nf(1)")
		// an if / switch whose condition is missing at a line end, wherever an expression may stand
		for _, src := range []string{"print(1, if\n2)", "print(1, switch\n2)", "[1, 2, if\n3]", "x := 1\nreturn if", "f := func(a = if\n x {}",
			"m := {\"k\": [1, switch\n2]}", "print(if\n1, 2)", "x := [if\n]"} {
			add(src)
		}
		// writes into byte slices made from strings of every origin (a literal, a constant of the runtime such as a
		// type name, a computed string, a map key, an error text): the string is never the storage written to
		for _, origin := range []string{"type(1)", "type([])", "\"abc\"", "string(12)", "\"ab\" + \"cd\"", "keys({\"kk\": 1})[0]", "type(len)",
			"string(try(func() { return [][1] }, func(e) { return e }))", "math.__name__", "\"%d\"", "`raw`"} {
			add("import math\ns := " + origin + "\nb := byte_slice(s)\nb[0] = \"I\"\n[b, s, type(1), type([]), type(len)]")
		}
		// arguments for which the Go standard library panics with a value that is not an error (a string)
		add("import strings\nstrings.repeat(\"ab\", -1)")
		add("import bytes\nbytes.repeat(byte_slice([1]), -1)")
		add("import rand\nrand.intn(0)")
		add("import strings\nfunc pad(s, w) {\nreturn s + strings.repeat(\".\", w - len(s))\n}\ntry(func() { return pad(\"abcdef\", 3) }, func(e) { return string(e) })")
		add("import strings\nt := spawn(func() { return strings.repeat(\"x\", -2) })\nt.wait()")
		// found by the thorough tier (a mutant): the parser accepts "for init; cond; {" here, the loop has no post
		// statement, and rendering the tree dereferenced it
		add("if true {\nn1 := 0\nfor {\nif n1 >= 1 {\nbreak\n}\nn1 ++\n[n1] .append(n1) + n1.append ((- 2) )\n}\n}\nfor i2 := 0; i2 < 3; { {\ni2++\nswitch 1 + 4.5 {\ndefault:\ni2[i2] *= i2\n0\ncase ( - 2) - i2 , - i2 :\nswitch 0 {\ncase 1:\ncontinue\ndefault:\ntrue\n}\ncase float(nil), ({ } )[\"c\"] :\nif true {\nc3 := 6\nfor r4 in c3 {\nif true {\nbreak\n}\nc3 -= 4\n[4 , i2]\n}\n}\nfor i5 := 0; i5 < 1; i5++ {\nv6 := [4, i2, i2]\n}\n}\n}\ng7 := func(p8 ) {\nif true {\nc9 := switch 0 {\ndefault:\ncase (- 1) , p8 :\np8\nfalse\n}\nfor range c9 {\nnil\n3\nc9\n}\n}\np8\np8\n}\n\"abc\"\nfalse\nnil")
		// loop headers with an empty clause
		add("x := 0\nfor ; x < 3; x++ {\n}\nx")
		add("func f() {\nx := 0\nfor ; x < 3; x++ {\nprint(x)\n}\nreturn x\n}\nf()")
		add("x := 0\nfor ; x < 3; {\nx++\n}")
		add("for x := 0; ; x++ {\nbreak\n}")
		add("for ; ; {\nbreak\n}")
		// nesting far beyond what the Go stack holds at about 1 kB per level: refused, never a fatal stack overflow
		for _, d := range []int{1000000} {
			add(strings.Repeat("(", d))
			add(strings.Repeat("(", d) + "1" + strings.Repeat(")", d))
			add(strings.Repeat("[", d))
			add(strings.Repeat("!", d) + "true")
			add(strings.Repeat("-", d) + "1")
			add(strings.Repeat("if true { ", d/3) + "1" + strings.Repeat(" }", d/3))
		}
		for _, d := range []int{10, 1000, 5000} {
			add(strings.Repeat("(", d) + "1" + strings.Repeat(")", d))
			add(strings.Repeat("[", d) + "1" + strings.Repeat("]", d))
			add(strings.Repeat("-", d) + "1")
			add(strings.Repeat("!", d) + "true")
			add("x := 1\n" + strings.Repeat("x.", d) + "y")
			add(strings.Repeat("if true { ", d) + "1" + strings.Repeat(" }", d))
			add(strings.Repeat("func() { ", d) + "1" + strings.Repeat(" }", d))
			add(strings.Repeat("{\"a\": ", d) + "1" + strings.Repeat("}", d))
			add("1" + strings.Repeat(" + 1", d))
			add("x := 0\n" + strings.Repeat("x = x + 1\n", d) + "x")
			add("'" + strings.Repeat("{1}", d) + "'")
			add("f := func(n) { return f(n + 1) }\nf(0)")
			add("func f(n) { return [f(n + 1)] }\nf(0)")
			add("func f(n) { try(func() { f(n + 1) }) }\nf(0)")
			add("func f(n) { [1].map(func(x) { f(n + 1) }) }\nf(0)")
			add(fmt.Sprintf("l := []\nfor i := 0; i < %d; i++ { l.append(i) }\nlen(l)", d))
			add(fmt.Sprintf("s := \"a\"\nfor i := 0; i < %d; i++ { s = s + \"b\" }\nlen(s)", d/10+1))
		}
	}
	return rows
}

func main() {
	run.Register("api", apiWorker)
	run.MaybeWorker()
	if len(os.Args) < 2 {
		fmt.Fprintln(os.Stderr, "usage: robust gen|run ...")
		os.Exit(2)
	}
	mode := os.Args[1]
	fs := flag.NewFlagSet(mode, flag.ExitOnError)
	kind := fs.String("kind", "soup", "")
	seed := fs.Int64("seed", 1, "")
	n := fs.Int("n", 1000, "")
	in := fs.String("in", "", "")
	out := fs.String("out", "", "")
	ms := fs.Int("ms", 1500, "")
	parseOnly := fs.Bool("parseonly", false, "")
	fs.Parse(os.Args[2:])
	switch mode {
	case "gen":
		if err := run.WriteNDJSON(*out, genInputs(*kind, *seed, *n)); err != nil {
			fmt.Fprintln(os.Stderr, err)
			os.Exit(2)
		}
	case "run":
		rows, err := run.ReadNDJSON(*in)
		if err != nil {
			fmt.Fprintln(os.Stderr, err)
			os.Exit(2)
		}
		reqs := make([]N, len(rows))
		for i, r := range rows {
			reqs[i] = N{"src": r["src"], "ms": *ms, "parseonly": *parseOnly}
		}
		pool := run.NewPool("api", runtime.NumCPU())
		resps := pool.Map(reqs, time.Duration(*ms)*time.Millisecond*20+20*time.Second)
		var outRows []N
		for i, r := range rows {
			ret := resps[i]
			if ret["stage"] == nil {
				ret["stage"] = "?"
			}
			// trace events of the call: call(id, api) then return(id, kind)
			outRows = append(outRows, N{"id": r["id"], "kind": r["kind"], "events": []any{
				N{"ev": "call", "api": "parse+compile+eval+format"},
				N{"ev": "return", "ret": ret["k"], "stage": ret["stage"]}}, "detail": ret})
		}
		if err := run.WriteNDJSON(*out, outRows); err != nil {
			fmt.Fprintln(os.Stderr, err)
			os.Exit(2)
		}
	}
}
