// lang: program generation / rendering / execution driver for the Lang.tla family
// (C01, C02, C05, C17, C18).
//
//	lang gen    -seed S -n N -depth D -budget B [-closure] [-maplit] -out cases.ndjson
//	lang render -in asts.ndjson -out cases.ndjson      (ASTs enumerated by TLC)
//	lang rerun  -in cases.ndjson -ids 3,17             (re-execute cases, print observations)
//
// Every output line is {id, src, hoist, ast, obs}; obs is the outcome observed
// from the real lexer + parser + compiler + VM (package run).
package main

import (
	"context"
	"encoding/json"
	"flag"
	"fmt"
	"math/rand"
	"os"
	"runtime"
	"strconv"
	"strings"
	"time"

	"github.com/risor-io/risor/parser"

	"verifharness/ast"
	"verifharness/run"
)

type N = map[string]any

func evalWorker(req N) N {
	src := req["src"].(string)
	obs := run.Eval(src, run.EvalOpts{})
	if routes, _ := req["routes"].(bool); routes && (obs["k"] == "ok" || obs["k"] == "raise") {
		// the other host entry points must give the outcome risor.Eval gives: the first one that does not
		// replaces the observation (and names itself in the field route)
		key := func(o N) string {
			b, _ := json.Marshal([]any{o["k"], o["v"], o["out"]})
			return string(b)
		}
		for _, rt := range []string{"vmnew", "evalcode", "withvm", "runcode"} {
			if o := run.EvalRoute(src, rt); key(o) != key(obs) {
				obs = o
				break
			}
		}
	}
	if m, ok := obs["msg"].(string); ok {
		obs["msgcps"] = run.Cps(m)
	}
	// syntax tree of the source as the real parser sees it, compared with the
	// tree the source was rendered from (and with the fully parenthesised rendering)
	if norm, ok := req["norm"].(string); ok {
		obs["tree"] = treeVerdict(src, norm)
		if full, ok := req["src_full"].(string); ok {
			obs["tree_full"] = treeVerdict(full, norm)
		}
	}
	return obs
}

func treeVerdict(src, norm string) (verdict string) {
	defer func() {
		if r := recover(); r != nil {
			verdict = "panic"
		}
	}()
	prog, err := parser.Parse(context.Background(), src)
	if err != nil {
		return "noparse"
	}
	got, _ := json.Marshal(ast.Norm(ast.FromProgram(prog)))
	if string(got) == norm {
		return "same"
	}
	var a, b any
	json.Unmarshal(got, &a)
	json.Unmarshal([]byte(norm), &b)
	return "differs at " + firstDiff(a, b, "")
}

func firstDiff(a, b any, path string) string {
	switch x := a.(type) {
	case map[string]any:
		y, ok := b.(map[string]any)
		if !ok {
			return path + fmt.Sprintf(" (parsed %v, rendered-from %v)", brief(a), brief(b))
		}
		for k, v := range x {
			if w, ok := y[k]; !ok {
				return path + "." + k + " (only in parsed)"
			} else if d := firstDiff(v, w, path+"."+k); d != "" {
				return d
			}
		}
		for k := range y {
			if _, ok := x[k]; !ok {
				return path + "." + k + " (only in rendered-from)"
			}
		}
		return ""
	case []any:
		y, ok := b.([]any)
		if !ok || len(x) != len(y) {
			return path + fmt.Sprintf(" (parsed %v, rendered-from %v)", brief(a), brief(b))
		}
		for i := range x {
			if d := firstDiff(x[i], y[i], fmt.Sprintf("%s[%d]", path, i)); d != "" {
				return d
			}
		}
		return ""
	}
	if fmt.Sprint(a) != fmt.Sprint(b) {
		return path + fmt.Sprintf(" (parsed %v, rendered-from %v)", brief(a), brief(b))
	}
	return ""
}

func brief(v any) string {
	b, _ := json.Marshal(v)
	if len(b) > 120 {
		b = b[:120]
	}
	return string(b)
}

func main() {
	run.Register("eval", evalWorker)
	run.Register("det", detWorker)
	run.Register("roundtrip", roundtripWorker)
	run.Register("pieces", piecesWorker)
	run.Register("gocall", gocallWorker)
	run.MaybeWorker()
	if len(os.Args) < 2 {
		fmt.Fprintln(os.Stderr, "usage: lang gen|render|rerun ...")
		os.Exit(2)
	}
	switch os.Args[1] {
	case "gen":
		gen(os.Args[2:])
	case "render":
		render(os.Args[2:])
	case "rerun":
		rerun(os.Args[2:])
	case "det":
		fs := flag.NewFlagSet("det", flag.ExitOnError)
		n := fs.Int("n", 8, "")
		poolMode("det", os.Args[2:], func(r N, f map[string]*int) N { return N{"src": r["src"], "n": *f["n"]} },
			map[string]*int{"n": n}, fs)
	case "roundtrip":
		fs := flag.NewFlagSet("roundtrip", flag.ExitOnError)
		poolMode("roundtrip", os.Args[2:], func(r N, f map[string]*int) N { return N{"src": r["src"]} }, nil, fs)
	case "gocall":
		fs := flag.NewFlagSet("gocall", flag.ExitOnError)
		poolMode("gocall", os.Args[2:], func(r N, f map[string]*int) N { return N{"src": r["src"], "calls": r["calls"]} }, nil, fs)
	case "pieces-gen":
		piecesGen(os.Args[2:])
	case "pieces":
		fs := flag.NewFlagSet("pieces", flag.ExitOnError)
		poolMode("pieces", os.Args[2:], func(r N, f map[string]*int) N {
			g := r["globals"]
			if g == nil {
				g = []any{}
			}
			return N{"pieces": r["pieces"], "globals": g}
		}, nil, fs)
	default:
		fmt.Fprintln(os.Stderr, "unknown mode", os.Args[1])
		os.Exit(2)
	}
}

// observeRoutes: evaluate every case through all host entry points (flag -routes of gen / render)
var observeRoutes bool

func observe(cases []N) {
	reqs := make([]N, len(cases))
	for i, c := range cases {
		reqs[i] = N{"src": c["src"], "routes": observeRoutes}
		if a, ok := c["ast"]; ok {
			norm, _ := json.Marshal(ast.Norm(a))
			reqs[i]["norm"] = string(norm)
		}
		if f, ok := c["src_full"]; ok {
			reqs[i]["src_full"] = f
		}
	}
	pool := run.NewPool("eval", runtime.NumCPU())
	resps := pool.Map(reqs, 20*time.Second)
	for i, c := range cases {
		c["obs"] = resps[i]
	}
}

func gen(args []string) {
	fs := flag.NewFlagSet("gen", flag.ExitOnError)
	seed := fs.Int64("seed", 1, "")
	n := fs.Int("n", 100, "")
	depth := fs.Int("depth", 3, "")
	budget := fs.Int("budget", 60, "")
	closure := fs.Bool("closure", false, "")
	maplit := fs.Bool("maplit", false, "")
	illscoped := fs.Int("illscoped", 0, "one in N statements is a scope probe")
	fs.BoolVar(&observeRoutes, "routes", false, "evaluate through every host entry point")
	out := fs.String("out", "cases.ndjson", "")
	noobs := fs.Bool("noobs", false, "")
	fs.Parse(args)
	r := rand.New(rand.NewSource(*seed))
	var cases []N
	for i := 0; i < *n; i++ {
		g := ast.NewGen(r, *budget)
		g.Closure, g.MapLit = *closure, *maplit
		g.IllScoped = *illscoped
		prog := g.Program(*depth)
		hoist := []any{}
		for _, h := range g.Hoist {
			hoist = append(hoist, h)
		}
		cases = append(cases, N{"id": i, "src": ast.Render(prog), "hoist": hoist, "ast": prog})
	}
	if !*noobs {
		observe(cases)
	}
	if err := run.WriteNDJSON(*out, cases); err != nil {
		fmt.Fprintln(os.Stderr, err)
		os.Exit(2)
	}
}

func render(args []string) {
	fs := flag.NewFlagSet("render", flag.ExitOnError)
	in := fs.String("in", "", "")
	out := fs.String("out", "cases.ndjson", "")
	min := fs.Bool("min", false, "render with minimal parentheses")
	noobs := fs.Bool("noobs", false, "render only, do not execute")
	fs.Parse(args)
	rows, err := run.ReadNDJSON(*in)
	if err != nil {
		fmt.Fprintln(os.Stderr, err)
		os.Exit(2)
	}
	for i, c := range rows {
		if _, ok := c["id"]; !ok {
			c["id"] = i
		}
		if _, ok := c["hoist"]; !ok {
			c["hoist"] = []any{}
		}
		prog := c["ast"].([]any)
		if *min {
			c["src"] = ast.RenderMin(prog)
			c["src_full"] = ast.Render(prog)
		} else {
			c["src"] = ast.Render(prog)
		}
	}
	if !*noobs {
		observe(rows)
	}
	if err := run.WriteNDJSON(*out, rows); err != nil {
		fmt.Fprintln(os.Stderr, err)
		os.Exit(2)
	}
}

func rerun(args []string) {
	fs := flag.NewFlagSet("rerun", flag.ExitOnError)
	in := fs.String("in", "", "")
	ids := fs.String("ids", "", "")
	fs.Parse(args)
	rows, err := run.ReadNDJSON(*in)
	if err != nil {
		fmt.Fprintln(os.Stderr, err)
		os.Exit(2)
	}
	want := map[int]bool{}
	for _, s := range strings.Split(*ids, ",") {
		if v, err := strconv.Atoi(strings.TrimSpace(s)); err == nil {
			want[v] = true
		}
	}
	var sel []N
	for _, c := range rows {
		if want[int(c["id"].(float64))] {
			sel = append(sel, c)
			// a case whose recorded observation came from another host entry point is re-executed through all of them
			if o, ok := c["obs"].(map[string]any); ok && o["route"] != nil {
				observeRoutes = true
			}
		}
	}
	observe(sel)
	enc := json.NewEncoder(os.Stdout)
	for _, c := range sel {
		enc.Encode(N{"id": c["id"], "src": c["src"], "obs": c["obs"]})
	}
}
