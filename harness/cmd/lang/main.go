// lang: program generation / rendering / execution driver for the Lang.tla family
// (C01, C02, C05, C17, C18).
//
//	lang gen    -seed S -n N -depth D -budget B [-closure] [-maplit] -out cases.ndjson
//	lang render -in asts.ndjson -out cases.ndjson      (ASTs enumerated by TLC)
//	lang rerun  -in cases.ndjson -ids 3,17             (re-execute cases, print observations)
//
// Every output line is {id, src, hoist, ast, obs}; obs is the outcome observed
// from the real lexer + parser + compiler + VM (package run).
package main

import (
	"encoding/json"
	"flag"
	"fmt"
	"math/rand"
	"os"
	"runtime"
	"strconv"
	"strings"
	"time"

	"verifharness/ast"
	"verifharness/run"
)

type N = map[string]any

func evalWorker(req N) N {
	src := req["src"].(string)
	obs := run.Eval(src, run.EvalOpts{})
	if m, ok := obs["msg"].(string); ok {
		obs["msgcps"] = run.Cps(m)
	}
	return obs
}

func main() {
	run.Register("eval", evalWorker)
	run.MaybeWorker()
	if len(os.Args) < 2 {
		fmt.Fprintln(os.Stderr, "usage: lang gen|render|rerun ...")
		os.Exit(2)
	}
	switch os.Args[1] {
	case "gen":
		gen(os.Args[2:])
	case "render":
		render(os.Args[2:])
	case "rerun":
		rerun(os.Args[2:])
	default:
		fmt.Fprintln(os.Stderr, "unknown mode", os.Args[1])
		os.Exit(2)
	}
}

func observe(cases []N) {
	reqs := make([]N, len(cases))
	for i, c := range cases {
		reqs[i] = N{"src": c["src"]}
	}
	pool := run.NewPool("eval", runtime.NumCPU())
	resps := pool.Map(reqs, 20*time.Second)
	for i, c := range cases {
		c["obs"] = resps[i]
	}
}

func gen(args []string) {
	fs := flag.NewFlagSet("gen", flag.ExitOnError)
	seed := fs.Int64("seed", 1, "")
	n := fs.Int("n", 100, "")
	depth := fs.Int("depth", 3, "")
	budget := fs.Int("budget", 60, "")
	closure := fs.Bool("closure", false, "")
	maplit := fs.Bool("maplit", false, "")
	out := fs.String("out", "cases.ndjson", "")
	noobs := fs.Bool("noobs", false, "")
	fs.Parse(args)
	r := rand.New(rand.NewSource(*seed))
	var cases []N
	for i := 0; i < *n; i++ {
		g := ast.NewGen(r, *budget)
		g.Closure, g.MapLit = *closure, *maplit
		prog := g.Program(*depth)
		hoist := []any{}
		for _, h := range g.Hoist {
			hoist = append(hoist, h)
		}
		cases = append(cases, N{"id": i, "src": ast.Render(prog), "hoist": hoist, "ast": prog})
	}
	if !*noobs {
		observe(cases)
	}
	if err := run.WriteNDJSON(*out, cases); err != nil {
		fmt.Fprintln(os.Stderr, err)
		os.Exit(2)
	}
}

func render(args []string) {
	fs := flag.NewFlagSet("render", flag.ExitOnError)
	in := fs.String("in", "", "")
	out := fs.String("out", "cases.ndjson", "")
	min := fs.Bool("min", false, "render with minimal parentheses")
	fs.Parse(args)
	rows, err := run.ReadNDJSON(*in)
	if err != nil {
		fmt.Fprintln(os.Stderr, err)
		os.Exit(2)
	}
	for i, c := range rows {
		if _, ok := c["id"]; !ok {
			c["id"] = i
		}
		if _, ok := c["hoist"]; !ok {
			c["hoist"] = []any{}
		}
		prog := c["ast"].([]any)
		if *min {
			c["src"] = ast.RenderMin(prog)
		} else {
			c["src"] = ast.Render(prog)
		}
	}
	observe(rows)
	if err := run.WriteNDJSON(*out, rows); err != nil {
		fmt.Fprintln(os.Stderr, err)
		os.Exit(2)
	}
}

func rerun(args []string) {
	fs := flag.NewFlagSet("rerun", flag.ExitOnError)
	in := fs.String("in", "", "")
	ids := fs.String("ids", "", "")
	fs.Parse(args)
	rows, err := run.ReadNDJSON(*in)
	if err != nil {
		fmt.Fprintln(os.Stderr, err)
		os.Exit(2)
	}
	want := map[int]bool{}
	for _, s := range strings.Split(*ids, ",") {
		if v, err := strconv.Atoi(strings.TrimSpace(s)); err == nil {
			want[v] = true
		}
	}
	var sel []N
	for _, c := range rows {
		if want[int(c["id"].(float64))] {
			sel = append(sel, c)
		}
	}
	observe(sel)
	enc := json.NewEncoder(os.Stdout)
	for _, c := range sel {
		enc.Encode(N{"id": c["id"], "src": c["src"], "obs": c["obs"]})
	}
}
