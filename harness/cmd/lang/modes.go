package main

import (
	"bytes"
	"context"
	"encoding/json"
	"flag"
	"fmt"
	"os"
	"reflect"
	"runtime"
	"strings"
	"time"

	"github.com/risor-io/risor"
	"github.com/risor-io/risor/compiler"
	"github.com/risor-io/risor/object"
	ros "github.com/risor-io/risor/os"
	"github.com/risor-io/risor/parser"
	"github.com/risor-io/risor/vm"

	"verifharness/run"
)

func compileSrc(src string) (*compiler.Code, error) {
	cfg := risor.NewConfig()
	prog, err := parser.Parse(context.Background(), src)
	if err != nil {
		return nil, err
	}
	return compiler.Compile(prog, cfg.CompilerOpts()...)
}

// evalCode runs already compiled code in a fresh VM with captured stdout.
func evalCode(code *compiler.Code) (obs N) {
	stdout := ros.NewBufferFile(nil)
	ctx, cancel := context.WithTimeout(context.Background(), 3*time.Second)
	defer cancel()
	vos := ros.NewVirtualOS(ctx, ros.WithStdout(stdout), ros.WithEnvironment(run.HostEnv()))
	defer func() {
		if r := recover(); r != nil {
			obs = N{"k": "gopanic", "msg": fmt.Sprint(r), "out": run.Cps(string(stdout.Bytes()))}
		}
	}()
	res, err := risor.EvalCode(ctx, code, risor.WithOS(vos))
	out := run.Cps(string(stdout.Bytes()))
	if err != nil {
		if ctx.Err() != nil {
			return N{"k": "timeout", "out": out}
		}
		return N{"k": "raise", "v": run.ErrKind(err), "msg": err.Error(), "msgcps": run.Cps(err.Error()), "out": out}
	}
	return N{"k": "ok", "v": run.Project(res, 7), "out": out}
}

func stripMsg(o N) N {
	c := N{}
	for k, v := range o {
		if k != "msg" && k != "msgcps" {
			c[k] = v
		}
	}
	// keep the message of user errors (compared by the spec)
	if o["k"] == "raise" {
		c["msgcps"] = o["msgcps"]
	}
	return c
}

// detWorker (C05): repeated compilation and evaluation of one program inside one process.
func detWorker(req N) (resp N) {
	defer func() {
		if r := recover(); r != nil {
			resp = N{"k": "gopanic", "msg": fmt.Sprint(r)}
		}
	}()
	src := req["src"].(string)
	n := int(req["n"].(float64))
	var firstBytes []byte
	marshalSame, remarshalSame := true, true
	var variants []N
	compiled := true
	for i := 0; i < n; i++ {
		code, err := compileSrc(src)
		if err != nil {
			// compile errors must be deterministic too
			o := N{"k": "raise", "v": run.ErrKind(err), "msg": err.Error(), "msgcps": run.Cps(err.Error()), "out": []any{}}
			variants = addVariant(variants, o)
			compiled = false
			continue
		}
		b, err := compiler.MarshalCode(code)
		if err != nil {
			return N{"k": "marshalerr", "msg": err.Error()}
		}
		if firstBytes == nil {
			firstBytes = b
			re, err := compiler.UnmarshalCode(b)
			if err != nil {
				return N{"k": "unmarshalerr", "msg": err.Error()}
			}
			b2, err := compiler.MarshalCode(re)
			if err != nil {
				return N{"k": "marshalerr", "msg": err.Error()}
			}
			remarshalSame = bytes.Equal(b, b2)
		} else if !bytes.Equal(firstBytes, b) {
			marshalSame = false
		}
		variants = addVariant(variants, evalCode(code))
	}
	return N{"k": "done", "variants": variants, "marshal_same": marshalSame, "remarshal_same": remarshalSame,
		"compiled": compiled, "bytes_len": len(firstBytes), "bytes_hash": fmt.Sprintf("%x", hashBytes(firstBytes))}
}

func hashBytes(b []byte) uint64 {
	var h uint64 = 14695981039346656037
	for _, c := range b {
		h ^= uint64(c)
		h *= 1099511628211
	}
	return h
}

func addVariant(vs []N, o N) []N {
	js, _ := json.Marshal(stripMsgFull(o))
	for _, v := range vs {
		js2, _ := json.Marshal(stripMsgFull(v))
		if bytes.Equal(js, js2) {
			return vs
		}
	}
	return append(vs, o)
}

// for variant identity the full message matters (error text must be deterministic as well)
func stripMsgFull(o N) N { return o }

// roundtripWorker (C17): compile, marshal, unmarshal, run original and reloaded side by side.
func roundtripWorker(req N) (resp N) {
	defer func() {
		if r := recover(); r != nil {
			resp = N{"k": "gopanic", "msg": fmt.Sprint(r)}
		}
	}()
	src := req["src"].(string)
	code, err := compileSrc(src)
	if err != nil {
		return N{"k": "nocompile", "msg": err.Error()}
	}
	b1, err := compiler.MarshalCode(code)
	if err != nil {
		return N{"k": "marshalerr", "msg": err.Error()}
	}
	b1again, err := compiler.MarshalCode(code)
	if err != nil {
		return N{"k": "marshalerr", "msg": err.Error()}
	}
	var re *compiler.Code
	var uerr error
	func() {
		defer func() {
			if r := recover(); r != nil {
				uerr = fmt.Errorf("panic: %v", r)
			}
		}()
		re, uerr = compiler.UnmarshalCode(b1)
	}()
	if uerr != nil {
		return N{"k": "unmarshalerr", "msg": uerr.Error()}
	}
	b2, err := compiler.MarshalCode(re)
	if err != nil {
		return N{"k": "marshalerr", "msg": err.Error()}
	}
	orig := evalCode(code)
	reloaded := evalCode(re)
	return N{"k": "done", "orig": orig, "reloaded": reloaded,
		"marshal_twice_same": bytes.Equal(b1, b1again), "remarshal_same": bytes.Equal(b1, b2),
		"proj_same": reflect.DeepEqual(codeProj(code), codeProj(re)), "bytes_len": len(b1)}
}

// codeProj is the abstract code record compared field by field (C17).
func codeProj(code *compiler.Code) any {
	var out []any
	for _, c := range code.Flatten() {
		ins := make([]int, c.InstructionCount())
		for i := range ins {
			ins[i] = int(c.Instruction(i))
		}
		consts := []any{}
		for i := 0; i < c.ConstantsCount(); i++ {
			switch k := c.Constant(i).(type) {
			case *compiler.Function:
				defs := []any{}
				for j := 0; j < k.DefaultsCount(); j++ {
					defs = append(defs, fmt.Sprintf("%T:%v", k.Default(j), k.Default(j)))
				}
				params := []any{}
				for j := 0; j < k.ParametersCount(); j++ {
					params = append(params, k.Parameter(j))
				}
				consts = append(consts, N{"fn": k.ID(), "name": k.Name(), "params": params, "defaults": defs,
					"code": k.Code().ID(), "required": k.RequiredArgsCount(), "locals": k.LocalsCount()})
			default:
				consts = append(consts, fmt.Sprintf("%T:%v", k, k))
			}
		}
		names := []string{}
		for i := 0; i < c.NameCount(); i++ {
			names = append(names, c.Name(i))
		}
		globals := []string{}
		for i := 0; i < c.GlobalsCount(); i++ {
			globals = append(globals, c.Global(i).Name())
		}
		locals := []string{}
		for i := 0; i < c.LocalsCount(); i++ {
			locals = append(locals, c.Local(i).Name())
		}
		out = append(out, N{"id": c.ID(), "root": c.IsRoot(), "named": c.IsNamed(), "name": c.CodeName(), "fid": c.FunctionID(),
			"ins": ins, "consts": consts, "names": names, "globals": globals, "locals": locals})
	}
	return out
}

// piecesWorker (C18): the REPL protocol of cmd/risor/repl.getEvaluator with the public API:
// one compiler, one VM, Compile appends, Run resumes, SetIP after a run-time error.
func piecesWorker(req N) (resp N) {
	defer func() {
		if r := recover(); r != nil {
			resp = N{"k": "gopanic", "msg": fmt.Sprint(r)}
		}
	}()
	var pieces []string
	for _, p := range req["pieces"].([]any) {
		pieces = append(pieces, p.(string))
	}
	stdout := ros.NewBufferFile(nil)
	// one context for the whole history: generous, and growing with the number of inputs (a loaded machine must not
	// turn the end of a long history into "context deadline exceeded")
	ctx, cancel := context.WithTimeout(context.Background(), 60*time.Second+time.Duration(len(pieces))*100*time.Millisecond)
	defer cancel()
	vos := ros.NewVirtualOS(ctx, ros.WithStdout(stdout), ros.WithEnvironment(run.HostEnv()))
	cfg := risor.NewConfig(risor.WithOS(vos), risor.WithGlobal("hostv", 10))
	c, err := compiler.New(cfg.CompilerOpts()...)
	if err != nil {
		return N{"k": "nocompiler", "msg": err.Error()}
	}
	var v *vm.VirtualMachine
	var results []any
	outLen := 0
	for _, src := range pieces {
		piece := N{}
		func() {
			defer func() {
				if r := recover(); r != nil {
					piece = N{"k": "gopanic", "msg": fmt.Sprint(r)}
				}
			}()
			prog, err := parser.Parse(ctx, src)
			if err != nil {
				piece = N{"k": "rejected", "stage": "parse", "msg": err.Error()}
				return
			}
			code, err := c.Compile(prog)
			if err != nil {
				piece = N{"k": "rejected", "stage": "compile", "msg": err.Error()}
				return
			}
			if v == nil {
				v = vm.New(code, cfg.VMOpts()...)
			}
			runCtx := ctx
			if strings.HasPrefix(src, "//@deadline\n") {
				// this input is run under a context of its own that ends after 40 ms
				var cancelPiece context.CancelFunc
				runCtx, cancelPiece = context.WithTimeout(ctx, 40*time.Millisecond)
				defer cancelPiece()
			}
			if err := v.Run(runCtx); err != nil {
				v.SetIP(code.InstructionCount())
				piece = N{"k": "raise", "v": run.ErrKind(err), "msg": err.Error(), "msgcps": run.Cps(err.Error())}
				return
			}
			res, ok := v.TOS()
			if !ok || res == nil {
				res = object.Nil
			}
			piece = N{"k": "ok", "v": run.Project(res, 7), "sp": vmSP(v)}
		}()
		all := stdout.Bytes()
		piece["out"] = run.Cps(string(all[outLen:]))
		outLen = len(all)
		results = append(results, piece)
	}
	// final globals
	globals := N{}
	if v != nil {
		for _, name := range req["globals"].([]any) {
			if o, err := v.Get(name.(string)); err == nil && o != nil {
				globals[name.(string)] = run.Project(o, 6)
			}
		}
	}
	// the incrementally compiled code (refused inputs included in its history) goes through the serialiser: it
	// must load again and re-marshal to the same bytes
	marshal := "n/a"
	if main := c.Code(); main != nil {
		func() {
			defer func() {
				if r := recover(); r != nil {
					marshal = "panic: " + fmt.Sprint(r)
				}
			}()
			b1, err := compiler.MarshalCode(main)
			if err != nil {
				marshal = "marshal: " + err.Error()
				return
			}
			re, err := compiler.UnmarshalCode(b1)
			if err != nil {
				marshal = "unmarshal: " + err.Error()
				return
			}
			b2, err := compiler.MarshalCode(re)
			if err != nil {
				marshal = "remarshal: " + err.Error()
				return
			}
			if string(b1) != string(b2) {
				marshal = "remarshal differs"
				return
			}
			marshal = "ok"
		}()
	}
	// the same accepted inputs compiled by a NEW compiler each, continuing the code of the one before (WithCode):
	// function ids must stay unique, or the reloaded code links a function to the wrong code (or to none)
	if marshal == "ok" {
		func() {
			defer func() {
				if r := recover(); r != nil {
					marshal = "withcode: panic: " + fmt.Sprint(r)
				}
			}()
			var code *compiler.Code
			for _, src := range pieces {
				prog, err := parser.Parse(ctx, src)
				if err != nil {
					continue
				}
				opts := cfg.CompilerOpts()
				if code != nil {
					opts = append(opts, compiler.WithCode(code))
				}
				c2, err := compiler.New(opts...)
				if err != nil {
					return
				}
				if next, err := c2.Compile(prog); err == nil {
					code = next
				} else if code == nil {
					code = c2.Code()
				}
			}
			if code == nil {
				return
			}
			b1, err := compiler.MarshalCode(code)
			if err != nil {
				marshal = "withcode: marshal: " + err.Error()
				return
			}
			re, err := compiler.UnmarshalCode(b1)
			if err != nil {
				marshal = "withcode: unmarshal: " + err.Error()
				return
			}
			if b2, err := compiler.MarshalCode(re); err != nil || string(b1) != string(b2) {
				marshal = "withcode: remarshal differs"
				return
			}
			// every function constant of the reloaded code has its code
			for _, cc := range re.Flatten() {
				for i := 0; i < cc.ConstantsCount(); i++ {
					if fn, ok := cc.Constant(i).(*compiler.Function); ok && fn.Code() == nil {
						marshal = "withcode: a reloaded function has no code"
						return
					}
				}
			}
		}()
	}
	return N{"k": "done", "pieces": results, "globals": globals, "marshal": marshal}
}

func vmSP(v *vm.VirtualMachine) int { return v.VerifSP() }

func poolMode(mode string, args []string, build func(r N, fs map[string]*int) N, flags map[string]*int, fs *flag.FlagSet) {
	in := fs.String("in", "", "")
	out := fs.String("out", "", "")
	fs.Parse(args)
	rows, err := run.ReadNDJSON(*in)
	if err != nil {
		fmt.Fprintln(os.Stderr, err)
		os.Exit(2)
	}
	reqs := make([]N, len(rows))
	for i, r := range rows {
		reqs[i] = build(r, flags)
	}
	pool := run.NewPool(mode, runtime.NumCPU())
	resps := pool.Map(reqs, 60*time.Second)
	for i, r := range rows {
		r["res"] = resps[i]
	}
	if err := run.WriteNDJSON(*out, rows); err != nil {
		fmt.Fprintln(os.Stderr, err)
		os.Exit(2)
	}
}

// gocallWorker (C02, "fetched from Go" route): run the program, then fetch the named global
// functions with vm.Get and invoke them through vm.Call; the observation has the shape of a
// program whose last statement is the list of those calls.
func gocallWorker(req N) (resp N) {
	stdout := ros.NewBufferFile(nil)
	defer func() {
		if r := recover(); r != nil {
			resp = N{"k": "gopanic", "msg": fmt.Sprint(r), "out": run.Cps(string(stdout.Bytes()))}
		}
	}()
	src := req["src"].(string)
	ctx, cancel := context.WithTimeout(context.Background(), 3*time.Second)
	defer cancel()
	vos := ros.NewVirtualOS(ctx, ros.WithStdout(stdout), ros.WithEnvironment(run.HostEnv()))
	cfg := risor.NewConfig(risor.WithOS(vos))
	prog, err := parser.Parse(ctx, src)
	if err != nil {
		return N{"k": "raise", "v": run.ErrKind(err), "msg": err.Error(), "msgcps": run.Cps(err.Error()), "out": []any{}}
	}
	code, err := compiler.Compile(prog, cfg.CompilerOpts()...)
	if err != nil {
		return N{"k": "raise", "v": run.ErrKind(err), "msg": err.Error(), "msgcps": run.Cps(err.Error()), "out": []any{}}
	}
	machine := vm.New(code, cfg.VMOpts()...)
	fail := func(err error) N {
		return N{"k": "raise", "v": run.ErrKind(err), "msg": err.Error(), "msgcps": run.Cps(err.Error()), "out": run.Cps(string(stdout.Bytes()))}
	}
	if err := machine.Run(ctx); err != nil {
		return fail(err)
	}
	vals := []any{}
	for _, c := range req["calls"].([]any) {
		obj, err := machine.Get(c.(string))
		if err != nil {
			return N{"k": "nofn", "msg": err.Error()}
		}
		fn, ok := obj.(*object.Function)
		if !ok {
			return N{"k": "nofn", "msg": "not a function: " + string(obj.Type())}
		}
		res, err := machine.Call(ctx, fn, nil)
		if err != nil {
			return fail(err)
		}
		vals = append(vals, run.Project(res, 6))
	}
	return N{"k": "ok", "v": N{"t": "list", "v": vals}, "out": run.Cps(string(stdout.Bytes()))}
}
