package main

import (
	"flag"
	"fmt"
	"math/rand"
	"os"
	"runtime"
	"strings"
	"time"

	"verifharness/ast"
	"verifharness/run"
)

// declaredNames lists the top-level names a statement list declares.
func declaredNames(sts []any) []string {
	var out []string
	for _, s := range sts {
		st := s.(N)
		switch ast.S(st, "k") {
		case "var", "const":
			out = append(out, ast.S(st, "n"))
		case "multivar":
			if ast.B(st, "decl") {
				for _, n := range ast.L(st, "ns") {
					out = append(out, n.(string))
				}
			}
		case "funcdecl":
			out = append(out, ast.S(ast.M(st, "f"), "name"))
		}
	}
	return out
}

func hoistNames(sts []any) []any {
	out := []any{}
	for _, s := range sts {
		st := s.(N)
		if ast.S(st, "k") == "funcdecl" && ast.B(st, "hoisted") {
			out = append(out, ast.S(ast.M(st, "f"), "name"))
		}
	}
	return out
}

// piecesGen (C18): programs of the C01 generator split at statement boundaries, with
// rejected and failing inputs inserted, executed with the REPL protocol.
func piecesGen(args []string) {
	fs := flag.NewFlagSet("pieces-gen", flag.ExitOnError)
	seed := fs.Int64("seed", 1, "")
	n := fs.Int("n", 100, "")
	depth := fs.Int("depth", 3, "")
	out := fs.String("out", "pieces.ndjson", "")
	fs.Parse(args)
	r := rand.New(rand.NewSource(*seed))
	var rows []N
	for i := 0; i < *n; i++ {
		g := ast.NewGen(r, 70)
		// incremental histories end at the first failing piece that also declares names: keep most pieces well typed
		g.IllTyped = 60
		prog := g.Program(*depth)
		for len(prog) < 3 {
			prog = append(prog, g.Program(*depth)...)
		}
		// partition into consecutive pieces
		var pieces []N
		var known, hoisted []string
		uniq := 0
		mode := r.Intn(3)
		j := 0
		for j < len(prog) {
			k := 1
			if mode == 1 {
				k = 1 + r.Intn(3)
			} else if mode == 2 {
				k = 1 + r.Intn(len(prog))
			}
			if j+k > len(prog) {
				k = len(prog) - j
			}
			sts := prog[j : j+k]
			// inserted inputs that must be refused or fail
			if r.Intn(3) == 0 {
				pieces = append(pieces, rejectedPieces(r, known, hoisted, &uniq)...)
			}
			if r.Intn(5) == 0 {
				pieces = append(pieces, failingPiece(r))
			}
			if r.Intn(6) == 0 {
				// the host's own variable: assigned by one input, read by this and by later ones
				sts := []any{N{"k": "assign", "n": "hostv", "op": []string{"=", "+=", "*="}[r.Intn(3)], "e": ast.Int(2 + r.Intn(5))}, ast.ExprStmt(ast.Id("hostv"))}
				if r.Intn(2) == 0 {
					sts = []any{ast.ExprStmt(ast.Bin("+", ast.Id("hostv"), ast.Int(100)))}
				}
				pieces = append(pieces, N{"kind": "code", "ast": sts, "hoist": []any{}, "declares": false, "src": ast.Render(sts)})
			}
			if r.Intn(8) == 0 {
				// an input that is stopped through its context: it prints a mark and then loops until the deadline
				mark := 700 + r.Intn(90)
				pieces = append(pieces, N{"kind": "interrupted", "mark": mark, "src": fmt.Sprintf("//@deadline\nprint(%d)\nfor {\n}", mark)})
			}
			if r.Intn(12) == 0 {
				// an input that exhausts the VM's OPERAND stack (two pending operands per level of a recursion that is
				// local to the input, or a list literal with more items than the stack has slots) after printing a mark
				mark := 800 + r.Intn(90)
				src := fmt.Sprintf("print(%d)\nfunc() {\nfunc od(n) {\nreturn 1 + (2 + od(n + 1))\n}\nreturn od(0)\n}()", mark)
				if r.Intn(3) == 0 {
					items := make([]string, 1100)
					for k := range items {
						items[k] = "1"
					}
					src = fmt.Sprintf("print(%d)\nlen([%s])", mark, strings.Join(items, ", "))
				}
				pieces = append(pieces, N{"kind": "exhausted", "mark": mark, "src": src})
			}
			pieces = append(pieces, N{"kind": "code", "ast": sts, "hoist": hoistNames(sts), "declares": len(declaredNames(sts)) > 0,
				"src": ast.Render(sts)})
			known = append(known, declaredNames(sts)...)
			for _, h := range hoistNames(sts) {
				hoisted = append(hoisted, h.(string))
			}
			j += k
		}
		if r.Intn(3) == 0 {
			pieces = append(pieces, rejectedPieces(r, known, hoisted, &uniq)...)
			pieces = append(pieces, N{"kind": "code", "ast": []any{ast.ExprStmt(ast.Int(i % 7))}, "hoist": []any{}, "declares": false, "src": fmt.Sprint(i % 7)})
		}
		globals := []any{}
		for _, nm := range known {
			globals = append(globals, nm)
		}
		// (a history that uses the host's variable has no whole-program counterpart in the spec lemma: "forward")
		usesHost := false
		for _, p := range pieces {
			if src, _ := p["src"].(string); strings.Contains(src, "hostv") {
				usesHost = true
			}
		}
		rows = append(rows, N{"id": i, "pieces": pieces, "globals": globals, "forward": usesHost})
	}
	// global-sharing scenarios: functions defined in one piece read and write globals that other pieces
	// assign before and after; every statement is a piece of its own
	for i := 0; i < *n/3; i++ {
		var sts []any
		sts = append(sts, ast.Var("x", ast.Int(r.Intn(5))), ast.Var("y", ast.List(ast.Int(1))))
		pool := func() N {
			switch r.Intn(12) {
			case 11:
				// the list becomes a member of itself: values and final globals are compared down to a fixed depth
				return ast.ExprStmt(ast.Call(ast.Attr(ast.Id("y"), "append"), ast.Id("y")))
			case 9:
				return ast.ExprStmt(ast.Call(ast.Id("inc2")))
			case 10:
				return ast.ExprStmt(ast.Call(ast.Call(ast.Id("mkinc"))))
			case 0:
				return N{"k": "assign", "n": "x", "op": "=", "e": ast.Bin("+", ast.Id("x"), ast.Int(1+r.Intn(5)))}
			case 1:
				return N{"k": "assign", "n": "x", "op": "+=", "e": ast.Int(10)}
			case 2:
				return ast.ExprStmt(ast.Call(ast.Id("getx")))
			case 3:
				return ast.ExprStmt(ast.Call(ast.Id("incx")))
			case 4:
				return ast.ExprStmt(ast.Call(ast.Attr(ast.Id("y"), "append"), ast.Id("x")))
			case 5:
				return ast.ExprStmt(ast.Call(ast.Id("leny")))
			case 6:
				return N{"k": "assign", "n": "y", "op": "=", "e": ast.List(ast.Id("x"), ast.Int(7))}
			case 7:
				return ast.Print(ast.Id("x"), ast.Call(ast.Id("getx")), ast.Call(ast.Id("leny")), ast.Call(ast.Id("inc2")))
			default:
				return ast.ExprStmt(ast.List(ast.Id("x"), ast.Call(ast.Id("getx")), ast.Id("y")))
			}
		}
		fn := func(name string, body ...any) N {
			return N{"k": "funcdecl", "hoisted": true, "f": N{"k": "func", "name": name, "params": []any{}, "body": body}}
		}
		defs := []N{
			fn("getx", ast.ExprStmt(ast.Id("x"))),
			fn("incx", N{"k": "assign", "n": "x", "op": "+=", "e": ast.Int(1)}, ast.ExprStmt(ast.Id("x"))),
			fn("leny", ast.ExprStmt(ast.Call(ast.Id("len"), ast.Id("y")))),
			// a function literal nested in a function (depth 2) that reads and writes the global
			fn("mkinc", N{"k": "return", "has": true, "e": N{"k": "func", "name": "", "params": []any{},
				"body": []any{N{"k": "assign", "n": "x", "op": "+=", "e": ast.Int(100)}, ast.ExprStmt(ast.Id("x"))}}}),
		}
		// interleave definitions with uses that come after all three are defined
		for _, d := range defs {
			sts = append(sts, d)
			if r.Intn(2) == 0 {
				sts = append(sts, N{"k": "assign", "n": "x", "op": "=", "e": ast.Bin("+", ast.Id("x"), ast.Int(1))})
			}
		}
		sts = append(sts, ast.Var("inc2", ast.Call(ast.Id("mkinc"))))
		for k, m := 0, 3+r.Intn(6); k < m; k++ {
			sts = append(sts, pool())
		}
		var pieces []N
		uniq2 := 100
		for _, st := range sts {
			one := []any{st}
			pieces = append(pieces, N{"kind": "code", "ast": one, "hoist": hoistNames(one), "declares": len(declaredNames(one)) > 0, "src": ast.Render(one)})
			if r.Intn(6) == 0 {
				pieces = append(pieces, rejectedPieces(r, []string{"x"}, nil, &uniq2)...)
			}
		}
		rows = append(rows, N{"id": len(rows), "pieces": pieces, "globals": []any{"x", "y"}, "forward": false})
	}
	reqs := make([]N, len(rows))
	for i, c := range rows {
		var srcs []any
		for _, p := range c["pieces"].([]N) {
			srcs = append(srcs, p["src"])
		}
		reqs[i] = N{"pieces": srcs, "globals": c["globals"]}
	}
	pool := run.NewPool("pieces", runtime.NumCPU())
	resps := pool.Map(reqs, 60*time.Second)
	for i, c := range rows {
		c["res"] = resps[i]
	}
	if err := run.WriteNDJSON(*out, rows); err != nil {
		fmt.Fprintln(os.Stderr, err)
		os.Exit(2)
	}
}

func rejectedPiece(r *rand.Rand, known []string) N {
	srcs := []string{
		"print(\"rejected\")\nundefined_name_q",
		"qq1 := 5\nprint(\"rejected\", qq1)\nqq2 := undefined_name_q",
		"x := := 1",
		"print(\"rejected\") +",
		"fq := func() {\nprint(\"rejected\")\nreturn undefined_name_q\n}",
		"if true {\nprint(\"rejected\")\nbreak\n}",
		"func fq2() {\nfor {\nundefined_name_q\n}\n}",
		// the compiler fails in the middle of a construct that keeps state while it is being compiled
		"print(\"rejected\") | func(xs) {\nreturn undefined_name_q\n}",
		"[1, 2] | len | func(n) {\nreturn n + undefined_name_q\n}",
		"switch 1 {\ncase 1:\nprint(\"rejected\")\nundefined_name_q\n}",
		"for i := 0; i < 2; i++ {\nprint(\"rejected\")\nfunc() {\nbreak\n}()\n}",
		"func fq3(a=undefined_name_q) {\nreturn a\n}",
		"for _, qx := range [1, 2] {\nprint(\"rejected\")\nundefined_name_q\n}",
		"undefined_name_q = 1",
		"const cq = 1\nprint(\"rejected\")\ncq = 2",
		"go func() {\nundefined_name_q\n}()",
		"x9q := if true {\nundefined_name_q\n} else {\n2\n}",
		"func fq4() {\ndefer func() {\nundefined_name_q\n}()\n}",
		"print(\"rejected\", [1, 2, undefined_name_q])",
		"print(\"rejected\", {\"a\": 1, \"b\": undefined_name_q})",
	}
	if len(known) > 0 {
		k := known[r.Intn(len(known))]
		srcs = append(srcs, "print(\"rejected\")\n"+k+" := 0", "print(\"rejected\")\n"+k+" := 0")
	}
	return N{"kind": "rejected", "src": srcs[r.Intn(len(srcs))]}
}

// rejectedPieces: a refused input, sometimes followed by inputs that probe what it left behind: a piece that
// mentions a name the refused input had declared (must be refused too: the name does not exist) and a piece that
// declares the name properly (must be accepted).
func rejectedPieces(r *rand.Rand, known, hoisted []string, uniq *int) []N {
	*uniq++
	fn, vn := fmt.Sprintf("fq%d", *uniq), fmt.Sprintf("qv%d", *uniq)
	rej := func(src string) N { return N{"kind": "rejected", "src": src} }
	code := func(sts ...any) N {
		return N{"kind": "code", "ast": sts, "hoist": hoistNames(sts), "declares": true, "src": ast.Render(sts)}
	}
	fdecl := func(name string, v int) N {
		return N{"k": "funcdecl", "hoisted": true, "f": N{"k": "func", "name": name, "params": []any{}, "body": []any{N{"k": "return", "has": true, "e": ast.Int(v)}}}}
	}
	var first N
	var mention string
	var again N
	switch k := r.Intn(12); {
	case k == 0:
		// the compiler refuses the input after its function declarations were collected
		first = rej("func " + fn + "(a) {\nreturn a * 2\n}\nprint(\"rejected\")\n" + fn + "(undefined_name_q)")
		mention, again = fn+"()", code(fdecl(fn, 7), ast.ExprStmt(ast.Call(ast.Id(fn))))
	case k == 1:
		first = rej("func " + fn + "() {\nreturn undefined_name_q\n}")
		mention, again = fn, code(fdecl(fn, 8), ast.ExprStmt(ast.Call(ast.Id(fn))))
	case k == 2 && len(hoisted) > 0:
		// refused while the function declarations are collected (second declaration of a known function)
		h := hoisted[r.Intn(len(hoisted))]
		first = rej("func " + fn + "() {\nreturn 1\n}\nfunc " + h + "() {\nreturn 2\n}")
		mention, again = fn+"()", code(fdecl(fn, 9), ast.ExprStmt(ast.Call(ast.Id(fn))))
	case k == 3:
		first = rej(vn + " := 5\nprint(\"rejected\", " + vn + ")\nzz" + vn + " := undefined_name_q")
		mention, again = vn, code(ast.Var(vn, ast.Int(6)), ast.ExprStmt(ast.Id(vn)))
	case k == 4:
		first = rej("func " + fn + "() {\nreturn 1\n}\n" + vn + " := := 1")
		mention, again = fn+"()", code(fdecl(fn, 5), ast.ExprStmt(ast.Call(ast.Id(fn))))
	case k == 5 && len(known) > 0:
		// the refused input declares the name of an existing global inside a block before it fails: the global
		// must still be there afterwards
		g := known[r.Intn(len(known))]
		first = rej("if true {\n" + g + " := 20\nprint(\"rejected\", " + g + ")\nundefined_name_q\n}")
		return []N{first, {"kind": "code", "ast": []any{ast.ExprStmt(ast.Call(ast.Id("type"), ast.Id(g)))}, "hoist": []any{}, "declares": false,
			"src": "type(" + g + ")"}}
	case k == 6 && len(known) > 0:
		g := known[r.Intn(len(known))]
		first = rej("for " + g + " := 0; " + g + " < 1; " + g + "++ {\nundefined_name_q\n}")
		return []N{first, {"kind": "code", "ast": []any{ast.ExprStmt(ast.Call(ast.Id("type"), ast.Id(g)))}, "hoist": []any{}, "declares": false,
			"src": "type(" + g + ")"}}
	case k == 9 && len(hoisted)+len(known) > 0:
		// an input that is exactly ONE statement: a function declaration whose name an earlier input declared (as a
		// function or as a variable) - refused like the same declaration inside a longer input
		names := append(append([]string{}, hoisted...), known...)
		h := names[r.Intn(len(names))]
		first = rej("func " + h + "() {\nreturn 2\n}")
		return []N{first, {"kind": "code", "ast": []any{ast.ExprStmt(ast.Call(ast.Id("type"), ast.Id(h)))}, "hoist": []any{}, "declares": false,
			"src": "type(" + h + ")"}}
	case k == 7:
		// refused because of a function HEADER (the compiler has already entered the function): a parameter
		// without default after one with, a default that is not a literal, a parameter name twice
		hdr := []string{"(a=1, b)", "(a=-1)", "(a, a)", "(a, b=[1])"}[r.Intn(4)]
		first = rej("func " + fn + hdr + " {\nreturn a\n}")
		mention, again = fn+"()", code(fdecl(fn, 4), ast.ExprStmt(ast.Call(ast.Id(fn))))
	case k == 8:
		hdr := []string{"(a=1, b)", "(a=-1)", "(a, a)"}[r.Intn(3)]
		first = rej(vn + " := 3\nprint(\"rejected\", " + vn + ")\nzz" + vn + " := func" + hdr + " {\nreturn a\n}")
		mention, again = vn, code(ast.Var(vn, ast.Int(9)), ast.ExprStmt(ast.Id(vn)))
	default:
		return []N{rejectedPiece(r, known)}
	}
	out := []N{first}
	if r.Intn(2) == 0 {
		out = append(out, rej("print(\"rejected\")\n"+mention))
	}
	if r.Intn(3) != 0 {
		out = append(out, again)
	}
	return out
}

func failingPiece(r *rand.Rand) N {
	mark := 900 + r.Intn(50)
	var sts []any
	oob := N{"k": "idx", "a": ast.List(), "b": ast.Int(5)} // [][5]: an index error
	switch r.Intn(7) {
	case 3:
		// the failure strikes while operands of the enclosing expression / statement are pending on the stack
		sts = []any{ast.Print(ast.Int(mark)), ast.ExprStmt(ast.List(ast.Int(1), ast.Int(2), ast.Int(3), oob))}
	case 4:
		sts = []any{ast.ExprStmt(ast.Call(ast.Id("print"), ast.Int(mark), ast.Int(8), oob))}
	case 5:
		sts = []any{ast.Print(ast.Int(mark)), N{"k": "range", "style": "range", "vars": []any{"_", "pv"}, "c": ast.List(ast.Int(1), ast.Int(2)),
			"body": []any{ast.ExprStmt(ast.List(ast.Id("pv"), oob))}}}
	case 6:
		sts = []any{ast.Print(ast.Int(mark)), ast.ExprStmt(N{"k": "switch", "subj": ast.Int(1), "cases": []any{
			N{"isdefault": false, "exprs": []any{ast.Int(1)}, "body": []any{ast.ExprStmt(ast.List(ast.Int(4), oob))}}}})}
	case 0:
		sts = []any{ast.Print(ast.Int(mark)), ast.ExprStmt(N{"k": "idx", "a": ast.List(), "b": ast.Int(5)}), ast.Print(ast.Int(mark + 1))}
	case 1:
		sts = []any{ast.Print(ast.Int(mark)), ast.ExprStmt(ast.Call(ast.Id("error"), ast.Str("boom")))}
	default:
		sts = []any{ast.Print(ast.Int(mark)), ast.ExprStmt(ast.Bin("+", ast.Int(1), ast.Str("a")))}
	}
	return N{"kind": "code", "ast": sts, "hoist": []any{}, "declares": false, "src": ast.Render(sts)}
}
