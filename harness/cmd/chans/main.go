// chans: C10 driver. Runs producer/consumer topologies as risor scripts with host builtins that stamp
// events with one atomic counter: sent(s, i) BEFORE the send, got(r, s, i) AFTER the receive, closed()
// before close, gotnil(r) after a nil receive; plus spawn/wait value events.
//
//	chans run -in topo.ndjson -out traces.ndjson
package main

import (
	"context"
	"flag"
	"fmt"
	"math/rand"
	"os"
	"runtime"
	"sort"
	"strings"
	"sync"
	"sync/atomic"
	"time"

	"github.com/risor-io/risor"
	"github.com/risor-io/risor/object"
	ros "github.com/risor-io/risor/os"

	"verifharness/run"
)

type N = map[string]any

type event struct {
	seq int64
	e   N
}

// roundsScript: R rounds in one evaluation, each with a fresh buffered channel, nr receivers that take values with
// direct receives, fewer values than receivers sent by the main thread, and the close right behind the last value:
// the receivers race for every value and for the close. Every round is a history of its own (newround marks it).
func roundsScript(t N) string {
	nr, msgs, cp, rounds := int(t["nr"].(float64)), int(t["msgs"].(float64)), int(t["cap"].(float64)), int(t["rounds"].(float64))
	var sb strings.Builder
	recv := "m := <-c"
	if t["recv"] == "method" {
		recv = "m := c.receive()"
	}
	sb.WriteString("func receiver(c, r) {\nfor {\n" + recv + "\nif m == nil {\ngotnil(r)\nbreak\n}\ngot(r, m[0], m[1])\n}\nreturn r\n}\n")
	fmt.Fprintf(&sb, "for round := 1; round <= %d; round++ {\nnewround(round)\nc := chan(%d)\nrs := []\n", rounds, cp)
	fmt.Fprintf(&sb, "for r := 1; r <= %d; r++ {\nrs.append(spawn(receiver, c, r))\n}\n", nr)
	fmt.Fprintf(&sb, "for i := 1; i <= %d; i++ {\nsent(1, i)\nc <- [1, i]\n}\nclosed()\nclose(c)\nfor t in rs {\nt.wait()\n}\n}\n\"done\"\n", msgs)
	return sb.String()
}

func script(t N) string {
	if _, ok := t["rounds"]; ok {
		return roundsScript(t)
	}
	ns, nr, msgs, cp := int(t["ns"].(float64)), int(t["nr"].(float64)), int(t["msgs"].(float64)), int(t["cap"].(float64))
	form := t["spawn"].(string)
	recv := t["recv"].(string)
	var sb strings.Builder
	if cp > 0 {
		fmt.Fprintf(&sb, "c := chan(%d)\n", cp)
	} else {
		sb.WriteString("c := chan()\n")
	}
	sb.WriteString("import time\n")
	sb.WriteString("func sender(s, n) {\nfor i := 1; i <= n; i++ {\nsent(s, i)\nc <- [s, i]\n}\nreturn s\n}\n")
	switch recv {
	case "iter":
		sb.WriteString("func receiver(r) {\nfor _, m := range c {\ngot(r, m[0], m[1])\n}\ngotnil(r)\nreturn r\n}\n")
	case "iterbreak":
		// iteration left early (every third value), one direct receive, then a new iteration: a value
		// taken from the channel by an abandoned iteration would be lost
		sb.WriteString("func receiver(r) {\nn := 0\nfor {\nbrk := false\nfor _, m := range c {\ngot(r, m[0], m[1])\nn++\nif n % 3 == 0 {\nbrk = true\nbreak\n}\n}\n" +
			"if !brk {\ngotnil(r)\nreturn r\n}\nm := <-c\nif m == nil {\ngotnil(r)\nreturn r\n}\ngot(r, m[0], m[1])\n}\n}\n")
	default:
		sb.WriteString("func receiver(r) {\nfor {\nm := <-c\nif m == nil {\ngotnil(r)\nbreak\n}\ngot(r, m[0], m[1])\n}\nreturn r\n}\n")
	}
	sb.WriteString("rs := []\nss := []\n")
	if form == "go" {
		// a go statement cannot be waited for: completion is signalled on a channel given as argument;
		// the loop variables named in the argument list are reassigned right after the statement
		sb.WriteString("func runrecv(r, d) {\nreceiver(r)\nd <- 1\n}\nfunc runsend(s, n, d) {\nsender(s, n)\nd <- 1\n}\n")
		fmt.Fprintf(&sb, "for r := 1; r <= %d; r++ {\nd := chan(1)\ngo runrecv(r, d)\nrs.append(d)\n}\n", nr)
		fmt.Fprintf(&sb, "for s := 1; s <= %d; s++ {\nd := chan(1)\ngo runsend(s, %d, d)\nss.append(d)\n}\n", ns, msgs)
	} else {
		spawn := func(fn string, args string) string {
			if form == "method" {
				return fmt.Sprintf("%s.spawn(%s)", fn, args)
			}
			return fmt.Sprintf("spawn(%s, %s)", fn, args)
		}
		fmt.Fprintf(&sb, "for r := 1; r <= %d; r++ {\nrs.append(%s)\n}\n", nr, spawn("receiver", "r"))
		fmt.Fprintf(&sb, "for s := 1; s <= %d; s++ {\nss.append(%s)\n}\n", ns, spawn("sender", fmt.Sprintf("s, %d", msgs)))
	}
	wait := "t.wait()"
	if form == "go" {
		wait = "<-t"
	}
	fmt.Fprintf(&sb, "for t in ss {\n%s\n}\nclosed()\nclose(c)\nfor t in rs {\n%s\n}\n", wait, wait)
	// thread argument / result semantics
	sb.WriteString("x := 5\nmark(\"spawn\", 1, x)\nt1 := spawn(func(a) { return a * 10 + 1 }, x)\nx = 6\nmark(\"spawn\", 2, x)\nt2 := spawn(func(a, b) { return a * 10 + b }, x, 2)\nx = 7\n")
	sb.WriteString("mark(\"wait\", 2, t2.wait())\nmark(\"wait\", 1, t1.wait())\n")
	sb.WriteString("t3 := spawn(func() { error(\"boom\") })\nmark(\"waiterr\", 3, try(func() { t3.wait()\n return \"no error\" }, func(e) { return string(e) }))\n")
	// go statement: function literal, named function and method callee; every argument variable is reassigned afterwards
	sb.WriteString("dd := chan(8)\ny := 0\nfor k := 1; k <= 4; k++ {\ny = k\ngo func(a, d) { d <- (a * 10 + 3) }(y, dd)\ny = 100\n}\n")
	sb.WriteString("g1 := <-dd\ng2 := <-dd\ng3 := <-dd\ng4 := <-dd\ngl := sorted([g1, g2, g3, g4])\nmark(\"go\", 4, gl)\n")
	sb.WriteString("func addsend(a, b, d) { d <- (a + b) }\ny = 7\nz := 1\ngo addsend(y, z, dd)\ny = 70\nz = 10\ng5 := <-dd\nmark(\"go\", 5, g5)\n")
	sb.WriteString("y = 9\ngo dd.send(y)\ny = 90\ng6 := <-dd\nmark(\"go\", 6, g6)\n")
	sb.WriteString("func outer(p) {\nq := p + 1\nt := spawn(func(a) { return a }, q)\ngo addsend(q, p, dd)\nq = 0\np = 0\ng7 := <-dd\nreturn t.wait() * 100 + g7\n}\nmark(\"go\", 7, outer(3))\n")
	// closures over shared and private state: a spawned closure writes the enclosing function's variable (shared cell,
	// visible after wait) and its own parameter copy (private)
	sb.WriteString("func shared(p) {\nn := 1\nt := spawn(func(a) {\nn = n + a\na = a + 100\nreturn a\n}, p)\nr := t.wait()\nreturn [r, n, p]\n}\nmark(\"closure\", 8, shared(5))\n")
	sb.WriteString("gcount := 0\nfunc bump(k) {\ngcount = gcount + k\nreturn gcount\n}\ntb := bump.spawn(3)\ntb.wait()\ndg := chan(1)\ngo func(k, d) {\nbv := bump(k)\nd <- bv\n}(4, dg)\ng9 := <-dg\nmark(\"closure\", 9, [g9, gcount])\n")
	// nil is a value like any other for iteration: it is delivered, and the iteration ends only at close
	sb.WriteString("cn := chan(4)\ncn <- 1\ncn <- nil\ncn <- 3\ncn <- nil\nclose(cn)\nln := []\nfor _, v := range cn {\nln.append(v)\n}\nmark(\"nilvalue\", 10, ln)\n")
	sb.WriteString("cu := chan()\ntu := spawn(func() {\ncu <- nil\ncu <- 7\nclose(cu)\n})\nlu := []\nfor i, v := range cu {\nlu.append([i, v])\n}\ntu.wait()\nmark(\"nilvalue\", 11, lu)\n")
	// a spawned call that ends in a recovered Go panic: wait() raises that error, it does not return nil
	sb.WriteString("func deep(n) {\nreturn deep(n + 1)\n}\ntp := spawn(deep, 0)\nmark(\"waitpanic\", 12, try(func() {\nrp := tp.wait()\nreturn [\"no error\", rp]\n}, func(e) {\nreturn \"raised\"\n}))\n")
	// goroutines started BY a spawned call outlive it: the producer keeps sending after start() has returned, and
	// a thread handle returned from a spawned call can still be waited for
	sb.WriteString("func start() {\nc2 := chan(4)\ngo func() {\nfor i := 0; i < 50; i++ {\nc2 <- i\n}\nclose(c2)\n}()\nreturn c2\n}\ncc := spawn(start).wait()\ntot := 0\nnn := 0\nfor _, v := range cc {\ntot += v\nnn++\n}\nmark(\"nested\", 13, [nn, tot])\n")
	sb.WriteString("func outerh() {\nreturn spawn(func() {\ntime.sleep(0.02)\nreturn 41 + 1\n})\n}\nhh := spawn(outerh).wait()\nmark(\"nested\", 14, hh.wait())\n")
	// the host's own use of the spawn API (object.Spawn with an argument buffer it reuses), and builtins that call
	// script callbacks run as spawned calls while the spawner keeps running
	// the arguments (and the callee) of a go statement are evaluated at the statement, also when they are calls
	sb.WriteString("func dbl(a) {\nreturn a * 2\n}\nfunc mkw() {\nreturn func(a, d) { d <- (a + 1) }\n}\ngo addsend(dbl(3), dbl(0) + 1, dd)\ng19 := <-dd\ngo dd.send(dbl(21))\ng20 := <-dd\ngo mkw()(dbl(5), dd)\ng21 := <-dd\nmark(\"go\", 19, [g19, g20, g21])\n")
	// a send on a CLOSED channel transfers nothing and raises an error in every form of send (Chan!SendRefused)
	sb.WriteString("cz := chan(1)\nclose(cz)\nz1 := try(func() {\ncz <- 1\nreturn \"sent\"\n}, func(e) { return \"err\" })\n" +
		"z2 := try(func() {\ncz.send(1)\nreturn \"sent\"\n}, func(e) { return \"err\" })\n" +
		"z3 := try(func() {\nspawn(cz.send, 1).wait()\nreturn \"sent\"\n}, func(e) { return \"err\" })\n" +
		"z4 := try(func() {\ncz.send.spawn(2).wait()\nreturn \"sent\"\n}, func(e) { return \"err\" })\n" +
		"mark(\"closedsend\", 20, [z1, z2, z3, z4, <-cz])\n")
	sb.WriteString("mark(\"hostspawn\", 15, hostfan(func(a) { return a * 10 }, [1, 2, 3, 4]))\n")
	sb.WriteString("items := []\nfor i := 0; i < 20; i++ {\nitems.append(i)\n}\ncb := chan()\ntq := spawn(items.map, func(x) {\ncb <- (x * 2)\nreturn x + 1\n})\nrq := []\nfor i := 0; i < 20; i++ {\nrq.append(<-cb)\n}\nmark(\"spawnbuiltin\", 16, [rq, tq.wait()])\n")
	sb.WriteString("go items.each(func(x) { cb <- (x * 3) })\nrg := []\nfor i := 0; i < 20; i++ {\nrg.append(<-cb)\n}\nmark(\"spawnbuiltin\", 18, rg)\n")
	sb.WriteString("mark(\"spawnbuiltin\", 17, [1, 2, 3].map.spawn(func(x) { return x + 1 }).wait())\n")
	sb.WriteString("\"done\"\n")
	return sb.String()
}

func runWorker(req N) (resp N) {
	defer func() {
		if r := recover(); r != nil {
			resp = N{"k": "gopanic", "msg": fmt.Sprint(r)}
		}
	}()
	var seq int64
	var mu sync.Mutex
	var events []event
	rnd := rand.New(rand.NewSource(int64(req["seed"].(float64))))
	var rmu sync.Mutex
	yield := func() {
		rmu.Lock()
		k := rnd.Intn(8)
		rmu.Unlock()
		switch k {
		case 0:
			runtime.Gosched()
		case 1:
			time.Sleep(time.Duration(10+k) * time.Microsecond)
		}
	}
	log := func(e N) {
		s := atomic.AddInt64(&seq, 1)
		mu.Lock()
		events = append(events, event{s, e})
		mu.Unlock()
	}
	iv := func(o object.Object) int {
		if i, ok := o.(*object.Int); ok {
			return int(i.Value())
		}
		return -1
	}
	b := func(name string, f func(args []object.Object)) *object.Builtin {
		return object.NewBuiltin(name, func(ctx context.Context, args ...object.Object) object.Object {
			f(args)
			return object.Nil
		})
	}
	sent := b("sent", func(a []object.Object) { log(N{"ev": "send", "s": iv(a[0]), "i": iv(a[1])}); yield() })
	got := b("got", func(a []object.Object) { yield(); log(N{"ev": "recv", "r": iv(a[0]), "s": iv(a[1]), "i": iv(a[2])}) })
	closed := b("closed", func(a []object.Object) { log(N{"ev": "close"}) })
	newround := b("newround", func(a []object.Object) { log(N{"ev": "round", "n": iv(a[0])}) })
	gotnil := b("gotnil", func(a []object.Object) { log(N{"ev": "nil", "r": iv(a[0])}) })
	// hostfan(fn, items): one spawned call of fn per item through the public object.Spawn API, with ONE argument
	// buffer that is overwritten for every call; returns the results in order
	hostfan := object.NewBuiltin("hostfan", func(ctx context.Context, args ...object.Object) object.Object {
		if len(args) != 2 {
			return object.NewError(fmt.Errorf("hostfan: two arguments"))
		}
		items, ok := args[1].(*object.List)
		if !ok {
			return object.NewError(fmt.Errorf("hostfan: list expected"))
		}
		buf := make([]object.Object, 1)
		var threads []*object.Thread
		for _, it := range items.Value() {
			buf[0] = it
			th, err := object.Spawn(ctx, args[0], buf)
			if err != nil {
				return object.NewError(err)
			}
			threads = append(threads, th)
		}
		buf[0] = object.NewInt(-1)
		out := make([]object.Object, 0, len(threads))
		for _, th := range threads {
			out = append(out, th.Wait(ctx))
		}
		return object.NewList(out)
	})
	var marks []any
	mark := b("mark", func(a []object.Object) {
		kind := a[0].(*object.String).Value()
		val := a[2].Inspect()
		mu.Lock()
		marks = append(marks, N{"ev": kind, "t": iv(a[1]), "v": val})
		mu.Unlock()
	})
	src := script(req)
	limit := 60 * time.Second
	if t, ok := req["timeout_s"].(float64); ok && t > 0 {
		limit = time.Duration(t) * time.Second
	}
	ctx, cancel := context.WithTimeout(context.Background(), limit)
	defer cancel()
	stdout := ros.NewBufferFile(nil)
	vos := ros.NewVirtualOS(ctx, ros.WithStdout(stdout))
	res, err := risor.Eval(ctx, src, risor.WithOS(vos), risor.WithConcurrency(),
		risor.WithGlobals(map[string]any{"sent": sent, "got": got, "closed": closed, "gotnil": gotnil, "mark": mark, "newround": newround, "hostfan": hostfan}))
	out := N{"k": "ok", "src": src}
	if err != nil {
		out["k"] = "raise"
		out["msg"] = err.Error()
	} else {
		out["value"] = res.Inspect()
	}
	mu.Lock()
	sort.Slice(events, func(i, j int) bool { return events[i].seq < events[j].seq })
	evs := make([]any, len(events))
	for i, e := range events {
		evs[i] = e.e
	}
	mu.Unlock()
	if _, ok := req["rounds"]; ok {
		// one history per round (every thread of a round has been waited for before the next round starts)
		var rounds []any
		var cur []any
		for _, e := range evs {
			if e.(N)["ev"] == "round" {
				if cur != nil {
					rounds = append(rounds, cur)
				}
				cur = []any{}
				continue
			}
			cur = append(cur, e)
		}
		if cur != nil {
			rounds = append(rounds, cur)
		}
		out["rounds"] = rounds
		evs = []any{}
	}
	out["events"] = evs
	out["marks"] = marks
	return out
}

func main() {
	run.Register("run", runWorker)
	run.MaybeWorker()
	if len(os.Args) < 2 || os.Args[1] != "run" {
		fmt.Fprintln(os.Stderr, "usage: chans run -in f -out g")
		os.Exit(2)
	}
	fs := flag.NewFlagSet("run", flag.ExitOnError)
	in := fs.String("in", "", "")
	out := fs.String("out", "", "")
	par := fs.Int("j", 4, "")
	fs.Parse(os.Args[2:])
	rows, err := run.ReadNDJSON(*in)
	if err != nil {
		fmt.Fprintln(os.Stderr, err)
		os.Exit(2)
	}
	pool := run.NewPool("run", *par)
	resps := pool.Map(rows, 180*time.Second)
	for i, r := range rows {
		r["res"] = resps[i]
	}
	if err := run.WriteNDJSON(*out, rows); err != nil {
		fmt.Fprintln(os.Stderr, err)
		os.Exit(2)
	}
}
