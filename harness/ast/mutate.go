package ast

import (
	"math/rand"
	"strings"
)

// Mutate returns the rendered program with one token deleted, inserted, substituted or the text truncated.
func Mutate(r *Renderer, rnd *rand.Rand) string {
	toks := make([]Tok, len(r.Toks))
	copy(toks, r.Toks)
	pool := []string{")", "(", "{", "}", "]", "[", ",", ":", ":=", "=", "+", "if", "else", "for", "func", "return", "in", "not", "?", ".", "1", "x", "\"s\"", "'t{'", "case", "switch", "break", "|", "&&", "const", "var", "range", "defer", "go", "<-", "import", "from", "as", "nil", "1.", "0x", "@", "~", "\\"}
	i := rnd.Intn(len(toks))
	switch rnd.Intn(4) {
	case 0: // delete
		toks = append(toks[:i], toks[i+1:]...)
	case 1: // insert
		t := Tok{Text: pool[rnd.Intn(len(pool))], Sep: " "}
		toks = append(toks[:i], append([]Tok{t}, toks[i:]...)...)
	case 2: // substitute
		toks[i].Text = pool[rnd.Intn(len(pool))]
	default: // truncate
		toks = toks[:i]
	}
	var sb strings.Builder
	for k, t := range toks {
		if k > 0 {
			if t.Sep == "" && rnd.Intn(4) == 0 {
				sb.WriteString(" ")
			}
			sb.WriteString(t.Sep)
		}
		sb.WriteString(t.Text)
	}
	return sb.String()
}
