package ast

import (
	"fmt"
	"math/rand"
	"strconv"
	"strings"
)

// Gen is a type-directed random generator of well-scoped programs in the JSON
// AST of Lang.tla. It tracks a static type guess per variable and asks for
// int / bool / str / list / map / fn expressions where the context needs one,
// with a small probability of deliberately ill-typed sub-expressions so that
// error paths stay covered.
type Gen struct {
	R       *rand.Rand
	Budget  int
	Closure bool // closure-heavy weights (C02)
	MapLit  bool // map/set literal heavy weights (C05)
	NoTry   bool
	// one in IllTyped typed positions is filled with an arbitrary expression (0 = default 10)
	IllTyped int

	NoFloat bool // no float literals among the numeric leaves
	// one in IllScoped statements is a scope probe: a statement that the compiler must either
	// reject (constant as assignment target, second declaration in the same scope, name that is
	// not in scope, stray break/continue/return/defer) or accept (the legal look-alikes); 0 = none
	IllScoped int
	realConst map[string]bool // names declared with const or as a named function
	scope     [][]string
	nvar      int
	inLoop    int
	inFn      int
	inTern    int
	inDefer   int
	// operand > 0 while generating an operand of an enclosing expression since the
	// innermost loop body started: break/continue are not generated there
	// (known finding C04-break-in-operand: temporaries stay on the operand stack).
	operand int
	Hoist   []string
	consts  map[string]bool
	types   map[string]string
}

func NewGen(r *rand.Rand, budget int) *Gen {
	return &Gen{R: r, Budget: budget, scope: [][]string{nil}, consts: map[string]bool{}, types: map[string]string{}, realConst: map[string]bool{}}
}

func (g *Gen) vars() []string {
	var out []string
	for _, s := range g.scope {
		out = append(out, s...)
	}
	return out
}
func (g *Gen) push()            { g.scope = append(g.scope, nil) }
func (g *Gen) pop()             { g.scope = g.scope[:len(g.scope)-1] }
func (g *Gen) declare(n string) { g.scope[len(g.scope)-1] = append(g.scope[len(g.scope)-1], n) }
func (g *Gen) fresh(p string) string {
	g.nvar++
	return fmt.Sprintf("%s%d", p, g.nvar)
}
func (g *Gen) declaredHere(n string) bool {
	for _, v := range g.scope[len(g.scope)-1] {
		if v == n {
			return true
		}
	}
	return false
}
func (g *Gen) mut() []string {
	var out []string
	for _, v := range g.vars() {
		if !g.consts[v] {
			out = append(out, v)
		}
	}
	return out
}
func (g *Gen) varsOf(t string) []string {
	var out []string
	for _, v := range g.vars() {
		if g.types[v] == t {
			out = append(out, v)
		}
	}
	return out
}
func (g *Gen) pick(xs []string) string { return xs[g.R.Intn(len(xs))] }
func (g *Gen) chance(n int) bool       { return g.R.Intn(n) == 0 }

func Int(v int) N { return N{"k": "int", "v": v} }

// Float is the literal with value n8/8 (n8 >= 0); Lang.tla computes with eighths.
func Float(n8 int) N {
	t := strconv.FormatFloat(float64(n8)/8, 'f', -1, 64)
	if !strings.Contains(t, ".") {
		t += ".0"
	}
	return N{"k": "float", "text": t, "n8": n8}
}

func Bool(v bool) N  { return N{"k": "bool", "v": v} }
func Str(s string) N { return N{"k": "str", "v": Cps(s)} }

// strLit: a string of the pool, now and then written as a raw (backtick) literal
func (g *Gen) strLit() N {
	v := g.pick(strPool)
	n := Str(v)
	if g.chance(6) && !strings.ContainsAny(v, "`\n\r") {
		n["bt"] = true
	}
	return n
}
func Id(n string) N           { return N{"k": "id", "n": n} }
func Nil() N                  { return N{"k": "nil"} }
func Bin(op string, a, b N) N { return N{"k": "bin", "op": op, "a": a, "b": b} }
func Call(f N, args ...any) N {
	if args == nil {
		args = []any{}
	}
	return N{"k": "call", "f": f, "args": args}
}
func Attr(a N, n string) N { return N{"k": "attr", "a": a, "n": n, "ncps": Cps(n)} }
func ExprStmt(e N) N       { return N{"k": "expr", "e": e} }
func Var(n string, e N) N  { return N{"k": "var", "n": n, "e": e} }
func List(items ...any) N {
	if items == nil {
		items = []any{}
	}
	return N{"k": "list", "items": items}
}
func If(c N, t []any, e []any) N {
	n := N{"k": "if", "c": c, "t": t, "e": []any{}, "haselse": false}
	if e != nil {
		n["e"] = e
		n["haselse"] = true
	}
	return n
}
func Print(args ...any) N { return ExprStmt(Call(Id("print"), args...)) }

var strPool = []string{"", "a", "bc", "b", "abc", "é", "xyz", "aéb", "éa", "a\nb", "q\"t", "b\\s", "t\tx"}

// texpr generates an expression whose static type guess is `want`.
func (g *Gen) texpr(d int, want string) N {
	g.operand++
	defer func() { g.operand-- }()
	g.Budget--
	ill := g.IllTyped
	if ill == 0 {
		ill = 10
	}
	if g.chance(ill) || g.Budget <= 0 {
		if g.Budget <= 0 {
			return g.leafOf(want)
		}
		return g.expr(d) // occasionally ill-typed on purpose
	}
	switch want {
	case "int":
		if d <= 0 || g.chance(3) {
			return g.leafOf("int")
		}
		switch g.R.Intn(14) {
		case 12:
			return Call(Id("float"), g.texpr(d-1, "int"))
		case 13:
			return Call(Id("int"), g.texpr(d-1, "int"))
		case 0, 1, 2, 3:
			op := g.pick([]string{"+", "-", "*", "/", "%", "+", "-", "*", "&", "<<", ">>", "**"})
			a := g.texpr(d-1, "int")
			b := g.texpr(d-1, "int")
			if op == "<<" || op == ">>" || op == "**" {
				b = Int(g.R.Intn(4))
			}
			return Bin(op, a, b)
		case 4:
			return N{"k": "neg", "a": g.texpr(d-1, "int")}
		case 5:
			if g.inTern > 0 {
				return g.leafOf("int")
			}
			g.inTern++
			c := g.texpr(d-1, "bool")
			a := g.texpr(d-1, "int")
			b := g.texpr(d-1, "int")
			g.inTern--
			return N{"k": "tern", "c": c, "a": a, "b": b}
		case 6:
			t := g.pick([]string{"list", "str", "map"})
			return Call(Id("len"), g.texpr(d-1, t))
		case 7:
			return N{"k": "idx", "a": g.texpr(d-1, "list"), "b": g.texpr(d-1, "int")}
		case 8:
			fs := g.varsOf("fn")
			if len(fs) > 0 {
				return g.callVar(d, g.pick(fs))
			}
			return g.leafOf("int")
		case 9:
			return g.ifExpr(d, "int")
		case 10:
			return g.switchExpr(d, "int")
		default:
			return N{"k": "idx", "a": g.texpr(d-1, "map"), "b": Str(g.pick([]string{"a", "b", "c"}))}
		}
	case "bool":
		if d <= 0 {
			return g.leafOf("bool")
		}
		switch g.R.Intn(8) {
		case 0, 1, 2:
			op := g.pick([]string{"<", "<=", ">", ">=", "==", "!="})
			return Bin(op, g.texpr(d-1, "int"), g.texpr(d-1, "int"))
		case 3:
			k := g.pick([]string{"and", "or"})
			return N{"k": k, "a": g.texpr(d-1, "bool"), "b": g.texpr(d-1, "bool")}
		case 4:
			return N{"k": "not", "a": g.texpr(d-1, "bool")}
		case 5:
			op := g.pick([]string{"<", "==", "!=", ">="})
			return Bin(op, g.texpr(d-1, "str"), g.texpr(d-1, "str"))
		case 6:
			return N{"k": "in", "a": g.texpr(d-1, "str"), "b": g.texpr(d-1, g.pick([]string{"map", "str"})), "neg": g.chance(2)}
		default:
			return N{"k": "in", "a": g.texpr(d-1, "int"), "b": g.texpr(d-1, "list"), "neg": g.chance(2)}
		}
	case "str":
		if d <= 0 || g.chance(3) {
			return g.leafOf("str")
		}
		switch g.R.Intn(7) {
		case 0, 1:
			return Bin("+", g.texpr(d-1, "str"), g.texpr(d-1, "str"))
		case 2:
			return N{"k": "idx", "a": g.texpr(d-1, "str"), "b": g.texpr(d-1, "int")}
		case 3:
			return g.slice(d, "str")
		case 4:
			return g.tmpl(d)
		case 5:
			return Call(Id("string"), g.texpr(d-1, "int"))
		default:
			return Call(Id("type"), g.expr(d-1))
		}
	case "list":
		vs := g.varsOf("list")
		if len(vs) > 0 && g.chance(2) {
			return Id(g.pick(vs))
		}
		if d > 0 {
			switch g.R.Intn(8) {
			case 0:
				return Bin("+", g.texpr(d-1, "list"), g.texpr(d-1, "list"))
			case 1:
				return g.slice(d, "list")
			case 2:
				return Call(Id("sorted"), g.texpr(d-1, "list"))
			case 3:
				return Call(Id("keys"), g.texpr(d-1, "map"))
			case 4:
				return Call(Attr(g.texpr(d-1, "list"), "append"), g.texpr(d-1, "int"))
			}
		}
		n := g.R.Intn(4)
		items := []any{}
		for i := 0; i < n; i++ {
			items = append(items, g.texpr(d-1, "int"))
		}
		return List(items...)
	case "map":
		vs := g.varsOf("map")
		if len(vs) > 0 && g.chance(2) {
			return Id(g.pick(vs))
		}
		return g.mapLit(d, "int")
	case "set":
		n := 1 + g.R.Intn(3)
		items := []any{}
		for i := 0; i < n; i++ {
			items = append(items, g.texpr(d-1, g.pick([]string{"int", "int", "str"})))
		}
		return N{"k": "set", "items": items}
	case "fn":
		vs := g.varsOf("fn")
		if len(vs) > 0 && g.chance(2) {
			return Id(g.pick(vs))
		}
		return g.funcLit(d, "")
	}
	return g.expr(d)
}

func (g *Gen) mapLit(d int, vt string) N {
	n := g.R.Intn(4)
	keys, vals := []any{}, []any{}
	pool := []string{"a", "b", "c"}
	for i := 0; i < n; i++ {
		k := pool[i%3]
		if g.MapLit || g.chance(4) {
			k = g.pick(pool) // duplicates
		}
		keys = append(keys, Str(k))
		v := g.texpr(d-1, vt)
		if g.MapLit && g.chance(2) {
			// side-effecting value: print marker then value
			v = g.effectful(d, v)
		}
		vals = append(vals, v)
	}
	return N{"k": "map", "keys": keys, "vals": vals}
}

// effectful wraps v so that evaluating it prints a marker first (evaluation order is observable).
func (g *Gen) effectful(d int, v N) N {
	g.nvar++
	mark := g.nvar
	fn := N{"k": "func", "params": []any{}, "name": "", "body": []any{Print(Int(mark)), ExprStmt(v)}}
	return Call(fn)
}

func (g *Gen) slice(d int, t string) N {
	n := N{"k": "slice", "a": g.texpr(d-1, t), "haslo": g.chance(2), "hashi": g.chance(2), "lo": Nil(), "hi": Nil()}
	if B(n, "haslo") {
		n["lo"] = g.smallInt(d)
	}
	if B(n, "hashi") {
		n["hi"] = g.smallInt(d)
	}
	return n
}

func (g *Gen) smallInt(d int) N {
	if g.chance(3) {
		return g.texpr(d-1, "int")
	}
	return Int(g.R.Intn(7) - 3)
}

func (g *Gen) tmpl(d int) N {
	parts := []any{}
	n := 1 + g.R.Intn(3)
	for i := 0; i < n; i++ {
		if g.chance(7) {
			parts = append(parts, N{"k": "e", "e": N{"k": "nilnode"}}) // '{}'
		} else if g.chance(2) {
			parts = append(parts, N{"k": "lit", "v": Cps(g.pick([]string{"x", " ", "a=", "{", "q'", "#"}))})
		} else {
			e := g.texpr(d-1, g.pick([]string{"int", "str", "bool", "list"}))
			// the template scanner does not nest braces or single quotes
			sub := &Renderer{Full: true}
			sub.Expr(e, "")
			if strings.ContainsAny(sub.Source(), "{}'\\\n") {
				e = g.leafOf("int")
			}
			parts = append(parts, N{"k": "e", "e": e})
		}
	}
	return N{"k": "tmpl", "parts": parts}
}

func (g *Gen) leafOf(t string) N {
	vs := g.varsOf(t)
	if len(vs) > 0 && g.chance(2) {
		return Id(g.pick(vs))
	}
	switch t {
	case "int":
		if !g.NoFloat && g.chance(9) {
			return Float([]int{4, 12, 2, 16, 20, 6, 1, 8, 0, 24, 36}[g.R.Intn(11)])
		}
		return Int(g.R.Intn(9) - 2)
	case "bool":
		return Bool(g.chance(2))
	case "str":
		return g.strLit()
	case "list":
		return List()
	case "map":
		return N{"k": "map", "keys": []any{}, "vals": []any{}}
	case "fn":
		return N{"k": "func", "params": []any{}, "name": "", "body": []any{ExprStmt(Int(g.R.Intn(5)))}}
	}
	return g.leaf()
}

func (g *Gen) leaf() N {
	vs := g.vars()
	switch g.R.Intn(10) {
	case 0, 1, 2:
		return Int(g.R.Intn(9) - 2)
	case 3:
		return Bool(g.chance(2))
	case 4:
		return g.strLit()
	case 5:
		return Nil()
	default:
		if len(vs) > 0 {
			return Id(g.pick(vs))
		}
		return Int(1)
	}
}

func (g *Gen) callVar(d int, name string) N {
	args := []any{}
	for i, n := 0, g.R.Intn(3); i < n; i++ {
		args = append(args, g.texpr(d-1, "int"))
	}
	return Call(Id(name), args...)
}

// expr generates an arbitrary (possibly ill-typed) expression.
func (g *Gen) expr(d int) N {
	g.operand++
	defer func() { g.operand-- }()
	g.Budget--
	if d <= 0 || g.Budget <= 0 || g.chance(4) {
		return g.leaf()
	}
	switch g.R.Intn(22) {
	case 0, 1, 2:
		op := g.pick([]string{"+", "-", "*", "/", "%", "<", "<=", ">", ">=", "==", "!=", "&", "**"})
		return Bin(op, g.expr(d-1), g.expr(d-1))
	case 3:
		k := g.pick([]string{"and", "or"})
		return N{"k": k, "a": g.expr(d - 1), "b": g.expr(d - 1)}
	case 4:
		return N{"k": g.pick([]string{"not", "neg"}), "a": g.expr(d - 1)}
	case 5:
		if g.inTern > 0 {
			return g.leaf()
		}
		g.inTern++
		n := N{"k": "tern", "c": g.expr(d - 1), "a": g.expr(d - 1), "b": g.expr(d - 1)}
		g.inTern--
		return n
	case 6:
		return N{"k": "in", "a": g.expr(d - 1), "b": g.expr(d - 1), "neg": g.chance(2)}
	case 7:
		n := g.R.Intn(4)
		items := []any{}
		for i := 0; i < n; i++ {
			items = append(items, g.expr(d-1))
		}
		return List(items...)
	case 8:
		return g.mapLit(d, g.pick([]string{"int", "str", "list", "any"}))
	case 9:
		return N{"k": "idx", "a": g.expr(d - 1), "b": g.expr(d - 1)}
	case 10:
		a := g.expr(d - 1)
		n := g.pick([]string{"a", "b", "append", "keys"})
		if n == "append" {
			return Call(Attr(a, n), g.expr(d-1))
		}
		if n == "keys" {
			return Call(Attr(a, n))
		}
		return Attr(a, n)
	case 11:
		fn := g.funcLit(d, "")
		np := len(L(fn, "params"))
		nargs := np
		if np > 0 && g.chance(4) {
			nargs = np - 1
		}
		args := []any{}
		for i := 0; i < nargs; i++ {
			args = append(args, g.texpr(d-1, "int"))
		}
		return Call(fn, args...)
	case 12:
		return g.ifExpr(d, "any")
	case 13:
		return g.switchExpr(d, "any")
	case 14:
		return g.texpr(d, "str")
	case 15:
		return g.texpr(d, "set")
	case 16:
		return g.slice(d, g.pick([]string{"list", "str", "any"}))
	case 17:
		return g.pipe(d)
	case 18:
		if g.NoTry {
			return g.leaf()
		}
		return g.tryExpr(d)
	case 19:
		return g.methodCall(d)
	default:
		vs := g.vars()
		if len(vs) > 0 && g.chance(2) {
			n := g.pick(vs)
			args := []any{}
			for i, k := 0, g.R.Intn(3); i < k; i++ {
				args = append(args, g.expr(d-1))
			}
			return Call(Id(n), args...)
		}
		b := g.pick([]string{"len", "keys", "type", "string", "sorted", "int", "bool", "list", "reversed"})
		return Call(Id(b), g.expr(d-1))
	}
}

func (g *Gen) methodCall(d int) N {
	switch g.R.Intn(10) {
	case 0:
		return Call(Attr(g.texpr(d-1, "list"), "pop"), g.smallInt(d))
	case 1:
		return Call(Attr(g.texpr(d-1, "list"), "insert"), g.smallInt(d), g.texpr(d-1, "int"))
	case 2:
		return Call(Attr(g.texpr(d-1, "list"), "extend"), g.texpr(d-1, "list"))
	case 3:
		return Call(Attr(g.texpr(d-1, "list"), "reverse"))
	case 4:
		return Call(Attr(g.texpr(d-1, "map"), g.pick([]string{"keys", "values", "copy"})))
	case 5:
		return Call(Attr(g.texpr(d-1, "map"), "get"), Str(g.pick([]string{"a", "b", "z"})), g.texpr(d-1, "int"))
	case 6:
		return Call(Attr(g.texpr(d-1, "str"), g.pick([]string{"to_upper", "to_lower"})))
	case 7:
		return Call(Attr(g.texpr(d-1, "list"), "index"), g.texpr(d-1, "int"))
	case 8:
		// list.map / filter / each with a callback
		m := g.pick([]string{"map", "filter", "each"})
		return Call(Attr(g.texpr(d-1, "list"), m), g.callback(d, 1+g.R.Intn(2)))
	default:
		return Call(Attr(g.texpr(d-1, "str"), "contains"), g.texpr(d-1, "str"))
	}
}

// callback builds a function literal with np int parameters.
func (g *Gen) callback(d int, np int) N {
	params := []any{}
	g.push()
	for i := 0; i < np; i++ {
		n := g.fresh("p")
		g.declare(n)
		g.types[n] = "int"
		params = append(params, N{"n": n, "hasdef": false, "def": Nil()})
	}
	g.push()
	g.inFn++
	saveLoop, saveTern := g.inLoop, g.inTern
	g.inLoop = 0
	body := g.stmts(d-1, 1+g.R.Intn(2))
	body = append(body, ExprStmt(g.texpr(d-1, g.pick([]string{"int", "bool"}))))
	g.inLoop, g.inTern = saveLoop, saveTern
	g.inFn--
	g.pop()
	g.pop()
	return N{"k": "func", "params": params, "body": body, "name": ""}
}

func (g *Gen) pipe(d int) N {
	// x | f | g : stages after the first are callables taking one argument
	stages := []any{g.texpr(d-1, "int")}
	for i, n := 0, 1+g.R.Intn(2); i < n; i++ {
		if g.chance(4) {
			// a stage that is a call with further arguments, themselves calls: the piped value becomes the FIRST
			// argument of the stage, the calls in the other arguments are evaluated as usual
			two := N{"k": "func", "name": "", "params": []any{N{"n": "pa", "hasdef": false, "def": Nil()}, N{"n": "pb", "hasdef": false, "def": Nil()}},
				"body": []any{N{"k": "return", "has": true, "e": List(Id("pa"), Id("pb"))}}}
			stages = append(stages, Call(two, Call(Id("len"), List(g.texpr(d-1, "int"), Int(g.R.Intn(5))))))
		} else if g.chance(3) {
			stages = append(stages, Id(g.pick([]string{"string", "type", "int"})))
		} else {
			stages = append(stages, g.callback(d, 1))
		}
	}
	return N{"k": "pipe", "stages": stages}
}

func (g *Gen) tryExpr(d int) N {
	// try(f, handler?) where f may raise
	body := g.callback(d, 0)
	if g.chance(2) {
		b := L(body, "body")
		pos := g.R.Intn(len(b) + 1)
		raise := ExprStmt(If(g.texpr(d-1, "bool"), []any{ExprStmt(Call(Id("error"), Str(g.pick([]string{"boom", "bad"}))))}, nil))
		nb := append([]any{}, b[:pos]...)
		nb = append(nb, raise)
		nb = append(nb, b[pos:]...)
		body["body"] = nb
	}
	args := []any{body}
	switch g.R.Intn(3) {
	case 0:
		args = append(args, g.callback(d, 1))
	case 1:
		args = append(args, g.leafOf("int"))
	}
	return Call(Id("try"), args...)
}

func (g *Gen) ifExpr(d int, t string) N {
	c := g.texpr(d-1, "bool")
	g.push()
	th := g.stmts(d-1, g.R.Intn(2))
	if t != "any" {
		th = append(th, ExprStmt(g.texpr(d-1, t)))
	} else {
		th = append(th, g.stmt(d-1, true))
	}
	g.pop()
	var el []any
	if g.chance(2) || t != "any" {
		g.push()
		el = g.stmts(d-1, g.R.Intn(2))
		if t != "any" {
			el = append(el, ExprStmt(g.texpr(d-1, t)))
		} else {
			el = append(el, g.stmt(d-1, true))
		}
		g.pop()
		if g.chance(4) {
			// else-if chain
			inner := g.ifExpr(d-1, t)
			n := If(c, th, []any{ExprStmt(inner)})
			n["elseif"] = true
			return n
		}
	}
	return If(c, th, el)
}

func (g *Gen) switchExpr(d int, t string) N {
	subj := g.texpr(d-1, "int")
	ncase := 1 + g.R.Intn(3)
	defpos := -1
	if g.chance(2) {
		defpos = g.R.Intn(ncase + 1)
	}
	cases := []any{}
	body := func(allowEmpty bool) []any {
		g.push()
		defer g.pop()
		if allowEmpty && g.chance(5) {
			return []any{}
		}
		b := g.stmts(d-1, g.R.Intn(2))
		if t != "any" {
			b = append(b, ExprStmt(g.texpr(d-1, t)))
		} else {
			b = append(b, g.stmt(d-1, true))
		}
		return b
	}
	for i := 0; i < ncase; i++ {
		if defpos == i {
			cases = append(cases, N{"isdefault": true, "exprs": []any{}, "body": body(true)})
		}
		exprs := []any{}
		for j, n := 0, 1+g.R.Intn(2); j < n; j++ {
			exprs = append(exprs, g.texpr(d-1, "int"))
		}
		cases = append(cases, N{"isdefault": false, "exprs": exprs, "body": body(true)})
	}
	if defpos == ncase {
		cases = append(cases, N{"isdefault": true, "exprs": []any{}, "body": body(true)})
	}
	return N{"k": "switch", "subj": subj, "cases": cases}
}

func (g *Gen) funcLit(d int, name string) N {
	np := g.R.Intn(3)
	params := []any{}
	g.push()
	ndef := 0
	if np > 0 && g.chance(3) {
		ndef = 1 + g.R.Intn(np)
	}
	for i := 0; i < np; i++ {
		n := g.fresh("p")
		g.declare(n)
		g.types[n] = "int"
		if i >= np-ndef {
			var dv N
			switch g.R.Intn(4) {
			case 0:
				dv = Str(g.pick(strPool))
				g.types[n] = "str"
			case 1:
				dv = Bool(g.chance(2))
				g.types[n] = "bool"
			default:
				dv = Int(g.R.Intn(5))
			}
			params = append(params, N{"n": n, "hasdef": true, "def": dv})
		} else {
			params = append(params, N{"n": n, "hasdef": false, "def": Nil()})
		}
	}
	if name != "" {
		g.declare(name)
		g.consts[name] = true
		g.types[name] = "fn"
	}
	g.push()
	g.inFn++
	saveLoop, saveTern, saveDefer := g.inLoop, g.inTern, g.inDefer
	g.inLoop, g.inDefer = 0, 0
	body := g.stmts(d-1, 1+g.R.Intn(3))
	g.inLoop, g.inTern, g.inDefer = saveLoop, saveTern, saveDefer
	g.inFn--
	g.pop()
	g.pop()
	return N{"k": "func", "params": params, "body": body, "name": name}
}

func (g *Gen) stmts(d, n int) []any {
	out := []any{}
	for i := 0; i < n; i++ {
		out = append(out, g.stmt(d, i == n-1))
	}
	return out
}

// Program generates a whole program (top-level statement list).
func (g *Gen) Program(d int) []any {
	return g.stmts(d, 1+g.R.Intn(6))
}

func (g *Gen) declType(want string) string {
	if want == "any" {
		return ""
	}
	return want
}

func (g *Gen) stmt(d int, last bool) N {
	vs := g.vars()
	g.Budget--
	if g.Budget <= 0 {
		return ExprStmt(g.leaf())
	}
	top := len(g.scope) == 1 && g.inFn == 0
	if g.IllScoped > 0 && g.chance(g.IllScoped) {
		return g.scopeProbe(d)
	}
	closureBias := 0
	if g.Closure {
		closureBias = 6
	}
	switch c := g.R.Intn(30 + closureBias); {
	case c <= 3:
		want := g.pick([]string{"int", "int", "int", "bool", "list", "str", "map", "any", "set"})
		// in a nested scope: sometimes re-declare (shadow) a visible outer variable, keeping its type
		if len(g.scope) > 1 && g.chance(2) {
			var cands []string
			for _, v := range g.vars() {
				if t := g.types[v]; !g.declaredHere(v) && !g.consts[v] && (t == "int" || t == "bool" || t == "list" || t == "str" || t == "map") {
					cands = append(cands, v)
				}
			}
			if len(cands) > 0 {
				n := g.pick(cands)
				e := g.texpr(d, g.types[n])
				g.declare(n)
				return Var(n, e)
			}
		}
		e := g.texpr(d, want)
		n := g.fresh("v")
		g.declare(n)
		g.types[n] = g.declType(want)
		st := Var(n, e)
		if g.chance(6) {
			st["kw"] = true
		}
		return st
	case c == 4:
		// const declaration
		e := g.texpr(d, "int")
		n := g.fresh("k")
		g.declare(n)
		g.types[n] = "int"
		g.consts[n] = true
		g.realConst[n] = true
		return N{"k": "const", "n": n, "e": e}
	case c <= 6 && len(g.mut()) > 0:
		n := g.pick(g.mut())
		want := g.types[n]
		if want == "" || want == "fn" || want == "set" {
			want = "int"
		}
		e := g.texpr(d, want)
		op := g.pick([]string{"=", "=", "+=", "-=", "*=", "/="})
		if want == "str" || want == "list" {
			op = g.pick([]string{"=", "+="})
		} else if want != "int" {
			op = "="
		}
		if g.types[n] == "fn" || g.types[n] == "set" || g.types[n] == "" {
			g.types[n] = "int"
		}
		if op != "=" && g.chance(4) {
			// the right-hand side assigns the target while it is evaluated: x op= e reads x BEFORE e runs
			lit := Int(20 + g.R.Intn(9))
			if want == "str" {
				lit = g.strLit()
			} else if want == "list" {
				lit = List(Int(9))
			}
			e = Call(N{"k": "func", "params": []any{}, "name": "", "body": []any{
				N{"k": "assign", "n": n, "op": "=", "e": lit}, ExprStmt(e)}})
		}
		return N{"k": "assign", "n": n, "op": op, "e": e}
	case c == 7 && len(g.mut()) > 0:
		ms := g.varsOf("int")
		var mm []string
		for _, m := range ms {
			if !g.consts[m] {
				mm = append(mm, m)
			}
		}
		if len(mm) == 0 {
			mm = g.mut()
		}
		return N{"k": "postfix", "n": g.pick(mm), "op": g.pick([]string{"++", "--"})}
	case c == 8 && len(vs) > 0:
		var a, i N
		if ls := g.varsOf("list"); len(ls) > 0 && g.chance(2) {
			a, i = Id(g.pick(ls)), g.smallInt(d)
		} else if ms := g.varsOf("map"); len(ms) > 0 && g.chance(2) {
			a, i = Id(g.pick(ms)), Str(g.pick([]string{"a", "b", "c"}))
		} else {
			a, i = Id(g.pick(vs)), g.leaf()
		}
		return N{"k": "setidx", "a": a, "i": i, "op": g.pick([]string{"=", "+=", "*=", "-="}), "e": g.texpr(d-1, "int")}
	case c == 9 && len(g.varsOf("map")) > 0:
		nm := g.pick([]string{"a", "b", "c"})
		return N{"k": "setattr", "a": Id(g.pick(g.varsOf("map"))), "n": nm, "ncps": Cps(nm),
			"op": g.pick([]string{"=", "=", "+="}), "e": g.texpr(d-1, "int")}
	case c == 10 || c == 11:
		args := []any{}
		for i, n := 0, 1+g.R.Intn(2); i < n; i++ {
			args = append(args, g.expr(d-1))
		}
		return Print(args...)
	case c == 12 && d > 0:
		// three-part loop
		g.push()
		iv := g.fresh("i")
		g.declare(iv)
		g.types[iv] = "int"
		g.consts[iv] = true
		lim := 1 + g.R.Intn(3)
		g.push()
		g.inLoop++
		saveOp := g.operand
		g.operand = 0
		body := g.stmts(d-1, 1+g.R.Intn(3))
		g.operand = saveOp
		g.inLoop--
		g.pop()
		g.pop()
		inc := N{"k": "postfix", "n": iv, "op": "++"}
		switch g.R.Intn(6) {
		case 0:
			// the post clause is an expression (its value must be discarded); the counter advances in the body
			post := []N{Id(iv), Call(Id("len"), List(Id(iv))), Call(Id("print"), Int(300+g.R.Intn(9)))}[g.R.Intn(3)]
			return N{"k": "for", "init": []any{Var(iv, Int(0))}, "hascond": true,
				"cond": Bin("<", Id(iv), Int(lim)), "post": []any{ExprStmt(post)}, "body": append([]any{inc}, body...)}
		case 1:
			inc = N{"k": "assign", "n": iv, "op": "+=", "e": Int(1)}
		}
		return N{"k": "for", "init": []any{Var(iv, Int(0))}, "hascond": true,
			"cond": Bin("<", Id(iv), Int(lim)), "post": []any{inc}, "body": body}
	case c == 13 && d > 0:
		// range / for-in over a container bound to a variable first
		cv := g.fresh("c")
		var ce N
		switch g.R.Intn(6) {
		case 0:
			ce = Int(g.R.Intn(4))
		case 1:
			ce = g.texpr(d-1, "list")
		case 2:
			ce = g.texpr(d-1, "map")
		case 3:
			ce = g.texpr(d-1, "str")
		case 4:
			ce = g.texpr(d-1, "set")
		default:
			ce = g.expr(d - 1)
		}
		style := "range"
		nv := g.R.Intn(3)
		if g.chance(3) {
			style, nv = "in", 1
		}
		g.push()
		g.declare(cv)
		g.push()
		names := []any{}
		for i := 0; i < nv; i++ {
			n := g.fresh("r")
			g.declare(n)
			names = append(names, n)
		}
		g.push()
		g.inLoop++
		saveOp := g.operand
		g.operand = 0
		body := g.stmts(d-1, 1+g.R.Intn(3))
		g.operand = saveOp
		g.inLoop--
		g.pop()
		g.pop()
		g.pop()
		loop := N{"k": "range", "style": style, "vars": names, "c": Id(cv), "body": body}
		return ExprStmt(If(Bool(true), []any{Var(cv, ce), loop}, nil))
	case c == 14 && d > 0:
		// condition loop with a counter
		cnt := g.fresh("n")
		lim := 1 + g.R.Intn(3)
		g.push()
		g.declare(cnt)
		g.types[cnt] = "int"
		g.consts[cnt] = true
		g.push()
		g.inLoop++
		saveOp := g.operand
		g.operand = 0
		body := g.stmts(d-1, 1+g.R.Intn(2))
		g.operand = saveOp
		g.inLoop--
		g.pop()
		g.pop()
		inc := N{"k": "postfix", "n": cnt, "op": "++"}
		var loop N
		if g.chance(3) {
			// simple for { } with explicit break
			brk := ExprStmt(If(Bin(">=", Id(cnt), Int(lim)), []any{N{"k": "break"}}, nil))
			loop = N{"k": "for", "init": []any{}, "hascond": false, "cond": Nil(), "post": []any{}, "body": append([]any{brk, inc}, body...)}
		} else if g.chance(3) {
			// three-part header whose INIT clause is an expression (its value must be discarded)
			init := []N{Id(cnt), Call(Id("len"), List(Id(cnt))), Call(Id("print"), Int(310+g.R.Intn(9)))}[g.R.Intn(3)]
			loop = N{"k": "for", "init": []any{ExprStmt(init)}, "hascond": true, "cond": Bin("<", Id(cnt), Int(lim)), "post": []any{inc}, "body": body}
		} else {
			loop = N{"k": "for", "init": []any{}, "hascond": true, "cond": Bin("<", Id(cnt), Int(lim)), "post": []any{}, "body": append([]any{inc}, body...)}
		}
		return ExprStmt(If(Bool(true), []any{Var(cnt, Int(0)), loop}, nil))
	case (c == 15 || c == 16) && g.inLoop > 0 && g.operand == 0:
		k := g.pick([]string{"break", "continue"})
		cnd := g.texpr(d-1, "bool")
		if g.chance(3) {
			// inside a switch case
			sw := N{"k": "switch", "subj": g.texpr(d-1, "int"), "cases": []any{
				N{"isdefault": false, "exprs": []any{g.texpr(d-1, "int")}, "body": []any{N{"k": k}}},
				N{"isdefault": true, "exprs": []any{}, "body": []any{ExprStmt(g.leaf())}}}}
			return ExprStmt(sw)
		}
		return ExprStmt(If(cnd, []any{N{"k": k}}, nil))
	case c == 17 && g.inFn > 0 && g.inDefer == 0:
		cnd := g.texpr(d-1, "bool")
		if g.chance(4) {
			return ExprStmt(If(cnd, []any{N{"k": "return", "has": false, "e": Nil()}}, nil))
		}
		return ExprStmt(If(cnd, []any{N{"k": "return", "has": true, "e": g.expr(d - 1)}}, nil))
	case c == 18 && d > 0 && !g.declaredFuncBlocked():
		name := g.fresh("f")
		fn := g.funcLit(d, name)
		g.declare(name)
		g.types[name] = "fn"
		g.consts[name] = true
		g.realConst[name] = true
		if top {
			g.Hoist = append(g.Hoist, name)
		}
		return N{"k": "funcdecl", "f": fn, "hoisted": top}
	case c == 19 && d > 0:
		n := g.fresh("g")
		fn := g.funcLit(d, "")
		g.declare(n)
		g.types[n] = "fn"
		return Var(n, fn)
	case c == 20 && g.inFn > 0 && d > 0 && g.inDefer == 0:
		// defer a call that prints
		g.inDefer++
		e := Call(Id("print"), Int(100+g.R.Intn(50)), g.texpr(d-1, "int"))
		if g.chance(2) {
			e = Call(g.callback(d, 0))
		}
		g.inDefer--
		return N{"k": "defer", "e": e}
	case c == 21 && len(g.mut()) >= 2:
		// multi-assignment from a list
		ms := g.mut()
		a, b := g.pick(ms), g.pick(ms)
		if a == b {
			return ExprStmt(g.leaf())
		}
		g.types[a], g.types[b] = "int", "int"
		return N{"k": "multivar", "ns": []any{a, b}, "decl": false, "e": List(g.texpr(d-1, "int"), g.texpr(d-1, "int"))}
	case c == 22:
		a, b := g.fresh("m"), g.fresh("m")
		nitems := 2
		if g.chance(6) {
			nitems = 1 + 2*g.R.Intn(2)
		}
		items := []any{}
		for i := 0; i < nitems; i++ {
			items = append(items, g.texpr(d-1, "int"))
		}
		e := List(items...)
		g.declare(a)
		g.declare(b)
		g.types[a], g.types[b] = "int", "int"
		return N{"k": "multivar", "ns": []any{a, b}, "decl": true, "e": e}
	case c == 23 && d > 0:
		return ExprStmt(g.methodCall(d))
	case (c == 24 || c == 25) && d > 0:
		if g.chance(2) {
			return ExprStmt(g.ifExpr(d, "any"))
		}
		return ExprStmt(g.switchExpr(d, "any"))
	case c >= 30 && d > 0:
		return g.closureStmt(d)
	default:
		e := g.texpr(d, g.pick([]string{"int", "bool", "list", "str", "any", "any"}))
		return ExprStmt(e)
	}
}

func (g *Gen) declaredFuncBlocked() bool { return false }

// closureStmt produces closure-heavy statements: counters, nested makers, escapes.
func (g *Gen) closureStmt(d int) N {
	switch g.R.Intn(3) {
	case 0:
		// maker returning a closure over a local, bound to a variable
		mk := g.fresh("mk")
		cnt := g.fresh("s")
		g.push()
		p := g.fresh("p")
		g.declare(p)
		g.types[p] = "int"
		g.push()
		g.declare(cnt)
		g.types[cnt] = "int"
		g.inFn++
		inner := N{"k": "func", "params": []any{}, "name": "", "body": []any{
			N{"k": "assign", "n": cnt, "op": "+=", "e": Id(p)}, ExprStmt(Id(cnt))}}
		g.inFn--
		g.pop()
		g.pop()
		fn := N{"k": "func", "params": []any{N{"n": p, "hasdef": false, "def": Nil()}}, "name": "", "body": []any{
			Var(cnt, Int(g.R.Intn(3))), N{"k": "return", "has": true, "e": inner}}}
		g.declare(mk)
		g.types[mk] = ""
		return Var(mk, fn)
	case 1:
		// call a maker twice and interleave calls
		n := g.fresh("h")
		p := g.fresh("q")
		body := []any{ExprStmt(Bin("+", Id(p), Int(g.R.Intn(7))))}
		inner := N{"k": "func", "params": []any{}, "name": "", "body": body}
		outer := N{"k": "func", "params": []any{N{"n": p, "hasdef": false, "def": Nil()}}, "name": "", "body": []any{ExprStmt(inner)}}
		arg := g.texpr(d-1, "int")
		g.declare(n)
		g.types[n] = "fn"
		return Var(n, Call(outer, arg))
	default:
		return ExprStmt(g.texpr(d, "int"))
	}
}

// scopeProbe returns a statement that exercises the compiler's static rules: most of the
// probes must be rejected with a compile error, some are the legal look-alikes. What the
// outcome has to be is decided by the specification (Lang!StaticBad), not here.
func (g *Gen) scopeProbe(d int) N {
	var consts, here, outer, muts []string
	for _, v := range g.vars() {
		switch {
		case g.realConst[v]:
			consts = append(consts, v)
		case !g.consts[v]:
			muts = append(muts, v)
		}
		if g.declaredHere(v) {
			here = append(here, v)
		} else if !g.consts[v] && g.types[v] == "int" {
			outer = append(outer, v)
		}
	}
	undef := func() string { return g.fresh("u") }
	var p N
	switch c := g.R.Intn(13); {
	case c == 0 && len(consts) > 0:
		p = N{"k": "assign", "n": g.pick(consts), "op": g.pick([]string{"=", "+=", "-=", "*="}), "e": Int(g.R.Intn(5))}
	case c == 1 && len(consts) > 0:
		p = N{"k": "postfix", "n": g.pick(consts), "op": g.pick([]string{"++", "--"})}
	case c == 2 && len(consts) > 0:
		other := g.pick(consts)
		if len(muts) > 0 && g.chance(2) {
			other = g.pick(muts)
		}
		ns := []any{g.pick(consts), other}
		if g.chance(2) {
			ns[0], ns[1] = ns[1], ns[0]
		}
		p = N{"k": "multivar", "ns": ns, "decl": false, "e": List(Int(7), Int(8))}
	case c == 3 && len(here) > 0:
		n := g.pick(here)
		if g.chance(3) {
			p = N{"k": "const", "n": n, "e": Int(g.R.Intn(5))}
		} else {
			p = Var(n, Int(g.R.Intn(5)))
			if g.chance(3) {
				p["kw"] = true
			}
		}
	case c == 4:
		// multi-declaration: a name twice, or a name of this scope again
		a, b := g.fresh("m"), g.fresh("m")
		if len(here) > 0 && g.chance(2) {
			b = g.pick(here)
		} else {
			b = a
		}
		ns := []any{a, b}
		if g.chance(2) {
			ns[0], ns[1] = ns[1], ns[0]
		}
		p = N{"k": "multivar", "ns": ns, "decl": true, "e": List(Int(1), Int(2))}
	case c == 5:
		p = ExprStmt(Bin("+", Int(1), Id(undef())))
	case c == 6:
		switch g.R.Intn(3) {
		case 0:
			p = N{"k": "assign", "n": undef(), "op": g.pick([]string{"=", "+="}), "e": Int(1)}
		case 1:
			p = N{"k": "postfix", "n": undef(), "op": "++"}
		default:
			p = N{"k": "multivar", "ns": []any{undef(), undef()}, "decl": false, "e": List(Int(1), Int(2))}
		}
	case c == 7:
		// a block-scoped name used after its block has ended
		z := g.fresh("z")
		inner := []N{
			ExprStmt(If(Bool(true), []any{Var(z, Int(1))}, nil)),
			N{"k": "for", "init": []any{Var(z, Int(0))}, "hascond": true, "cond": Bin("<", Id(z), Int(1)), "post": []any{N{"k": "postfix", "n": z, "op": "++"}}, "body": []any{ExprStmt(Id(z))}},
			N{"k": "range", "style": "range", "vars": []any{z}, "c": Int(2), "body": []any{ExprStmt(Id(z))}},
			Var(g.fresh("g"), N{"k": "func", "params": []any{N{"n": z, "hasdef": false, "def": Nil()}}, "body": []any{ExprStmt(Id(z))}, "name": ""}),
		}[g.R.Intn(4)]
		p = ExprStmt(If(Bool(true), []any{inner, ExprStmt(Id(z))}, nil))
	case c == 8:
		// use before the declaration in the same block
		z := g.fresh("z")
		p = ExprStmt(If(Bool(true), []any{Print(Id(z)), Var(z, Int(1))}, nil))
	case c == 9:
		switch g.R.Intn(4) {
		case 0:
			p = N{"k": "break"}
		case 1:
			p = N{"k": "continue"}
		case 2:
			p = N{"k": "return", "has": true, "e": Int(1)}
		default:
			p = N{"k": "defer", "e": Call(Id("print"), Int(1))}
		}
	case c == 10 && len(outer) > 0:
		// legal: the name of an enclosing scope declared again in a nested block
		n := g.pick(outer)
		p = ExprStmt(If(Bool(true), []any{Var(n, Int(50+g.R.Intn(9))), Print(Id(n))}, nil))
	case c == 11 && len(consts) > 0:
		// legal: a constant shadowed by a variable of a nested block, which is then assigned
		n := g.pick(consts)
		p = ExprStmt(If(Bool(true), []any{Var(n, Int(60)), N{"k": "postfix", "n": n, "op": "++"}, Print(Id(n))}, nil))
	default:
		// a function literal that names a variable declared only after it
		z := g.fresh("z")
		p = ExprStmt(If(Bool(true), []any{
			Var(g.fresh("g"), N{"k": "func", "params": []any{}, "body": []any{N{"k": "return", "has": true, "e": Id(z)}}, "name": ""}),
			Var(z, Int(1))}, nil))
	}
	// the rules hold in code that never runs, too
	switch g.R.Intn(6) {
	case 0:
		return ExprStmt(If(Bool(false), []any{p}, nil))
	case 1:
		return Var(g.fresh("g"), N{"k": "func", "params": []any{}, "body": []any{p}, "name": ""})
	case 2:
		return N{"k": "for", "init": []any{}, "hascond": true, "cond": Bool(false), "post": []any{}, "body": []any{p}}
	}
	return p
}
