// Package ast holds the JSON AST shared by the TLA+ specifications (Lang.tla,
// Grammar.tla) and the Go drivers, and the single renderer AST -> source text.
//
// The renderer emits a token list with one classified gap in front of every
// token so that layout variants (C20) are produced from the same rendering.
package ast

import (
	"fmt"
	"strconv"
	"strings"
)

type N = map[string]any

// Tok is one source token with the gap that precedes it.
type Tok struct {
	Text string
	Sep  string // default text of the gap before the token: "", " " or "\n"
	NL   bool   // a line break is permitted in this gap (grammar accepts it)
	Stmt bool   // the gap is a statement boundary (blank lines / line comments permitted)
}

type Renderer struct {
	Toks []Tok
	// Full parenthesises every compound sub-expression; otherwise parentheses are
	// placed only where Grammar.tla's NeedsParens says the tree would change.
	Full    bool
	pending Tok // attributes for the next gap
}

func Cps(s string) []any {
	out := []any{}
	for _, r := range s {
		out = append(out, int(r))
	}
	return out
}

func FromCps(v any) string {
	var sb strings.Builder
	for _, c := range v.([]any) {
		sb.WriteRune(rune(toInt(c)))
	}
	return sb.String()
}

func toInt(v any) int {
	switch x := v.(type) {
	case int:
		return x
	case int64:
		return int(x)
	case float64:
		return int(x)
	}
	panic(fmt.Sprintf("not an int: %T", v))
}

func S(n N, k string) string {
	if v, ok := n[k]; ok {
		return v.(string)
	}
	return ""
}
func B(n N, k string) bool {
	if v, ok := n[k]; ok {
		return v.(bool)
	}
	return false
}
func L(n N, k string) []any {
	if v, ok := n[k]; ok && v != nil {
		return v.([]any)
	}
	return nil
}
func M(n N, k string) N { return n[k].(N) }

// emit appends a token; sep is the default gap text before it.
func (r *Renderer) emit(text, sep string) {
	t := r.pending
	t.Text = text
	if t.Sep == "" {
		t.Sep = sep
	}
	if len(r.Toks) == 0 {
		t.Sep = ""
	}
	r.Toks = append(r.Toks, t)
	r.pending = Tok{}
}

// the next emitted token's gap permits a line break
func (r *Renderer) nlOK() { r.pending.NL = true }
func (r *Renderer) stmtGap() {
	r.pending.Stmt = true
	r.pending.NL = true
	r.pending.Sep = "\n"
}

func (r *Renderer) sp(text string)    { r.emit(text, " ") }
func (r *Renderer) tight(text string) { r.emit(text, "") }

// Source joins the tokens with their default gaps.
func (r *Renderer) Source() string {
	var sb strings.Builder
	for _, t := range r.Toks {
		sb.WriteString(t.Sep)
		sb.WriteString(t.Text)
	}
	return sb.String()
}

// SourceWith joins the tokens, replacing the gap before token i by fill(i, tok)
// when it returns ok.
func (r *Renderer) SourceWith(fill func(i int, t Tok) (string, bool)) string {
	var sb strings.Builder
	for i, t := range r.Toks {
		if s, ok := fill(i, t); ok {
			sb.WriteString(s)
		} else {
			sb.WriteString(t.Sep)
		}
		sb.WriteString(t.Text)
	}
	return sb.String()
}

func Render(stmts []any) string {
	r := &Renderer{Full: true}
	r.Stmts(stmts)
	return r.Source()
}

func RenderMin(stmts []any) string {
	r := &Renderer{Full: false}
	r.Stmts(stmts)
	return r.Source()
}

func QuoteStr(s string) string {
	var sb strings.Builder
	sb.WriteByte('"')
	for _, c := range s {
		switch {
		case c == '"':
			sb.WriteString("\\\"")
		case c == '\\':
			sb.WriteString("\\\\")
		case c == '\n':
			sb.WriteString("\\n")
		case c == '\t':
			sb.WriteString("\\t")
		case c == '\r':
			sb.WriteString("\\r")
		case c < 32:
			sb.WriteString(fmt.Sprintf("\\x%02x", c))
		default:
			sb.WriteRune(c)
		}
	}
	sb.WriteByte('"')
	return sb.String()
}

func (r *Renderer) Stmts(sts []any) {
	for i, s := range sts {
		if i > 0 || len(r.Toks) > 0 {
			r.stmtGap()
		}
		r.Stmt(s.(N))
	}
}

func (r *Renderer) block(sts []any) {
	r.sp("{")
	for _, s := range sts {
		r.stmtGap()
		r.Stmt(s.(N))
	}
	if len(sts) > 0 {
		r.stmtGap()
	}
	r.emit("}", " ")
}

// Binding powers as in Grammar.tla (loosest .. tightest).
const (
	pLowest = iota + 1
	pPipe
	pCond
	pAssign
	pDeclare
	pTernary
	pEquals
	pLess
	pSum
	pProduct
	pPower
	pMod
	pPrefix
	pCall
	pIndex
	pHighest
)

func BinPrec(op string) int {
	switch op {
	case "==", "!=":
		return pEquals
	case "<", "<=", ">", ">=":
		return pLess
	case "+", "-":
		return pSum
	case "*", "/", "&", "<<", ">>":
		return pProduct
	case "**":
		return pPower
	case "%":
		return pMod
	}
	panic("unknown operator " + op)
}

// prec returns the binding power of the root operator of e (pHighest for atoms).
func prec(e N) int {
	switch S(e, "k") {
	case "bin":
		return BinPrec(S(e, "op"))
	case "and", "or":
		return pCond
	case "tern":
		return pTernary
	case "in":
		return pPrefix
	case "not", "neg":
		return pPrefix
	case "pipe":
		return pPipe
	case "call":
		return pCall
	case "idx", "slice", "attr":
		return pIndex
	case "int", "float":
		// negative literals are rendered as prefix expressions
		return pHighest
	}
	return pHighest
}

// expr renders e; min is the minimal binding power the context requires of an
// unparenthesised operand (Grammar!NeedsParens): parenthesise when prec(e) < min.
func (r *Renderer) expr(e N, min int, sep string) {
	k := S(e, "k")
	compound := false
	switch k {
	case "bin", "and", "or", "tern", "in", "not", "neg", "pipe", "if", "switch", "func", "map", "set":
		compound = true
	}
	need := false
	if r.Full {
		need = compound && min > pLowest
		if k == "func" && min <= pCall {
			need = false // func literals may be called / used as arguments unparenthesised
		}
		if (k == "map" || k == "set") && min <= pLowest+1 {
			need = min > pLowest
		}
	} else {
		need = prec(e) < min
		if k == "if" || k == "switch" {
			need = min > pLowest
		}
		if (k == "map" || k == "set" || k == "func") && min > pLowest && min < pHighest {
			need = min > pCall
		}
	}
	if B(e, "paren") {
		need = true
	}
	if need {
		r.emit("(", sep)
		r.rawExpr(e, "")
		r.tight(")")
		return
	}
	r.rawExpr(e, sep)
}

// Expr renders an expression in a context that accepts any expression.
func (r *Renderer) Expr(e N, sep string) { r.expr(e, pLowest, sep) }

func (r *Renderer) operand(e N, min int, sep string) {
	if r.Full {
		if S(e, "k") == "func" && min == pCall {
			r.rawExpr(e, sep)
			return
		}
		r.expr(e, pHighest, sep)
	} else {
		r.expr(e, min, sep)
	}
}

// base renders the object of an attribute access: a number literal needs
// parentheses there ("1.b" would be lexed as a malformed number).
func (r *Renderer) base(e N, sep string) {
	if k := S(e, "k"); (k == "int" || k == "float") && !B(e, "paren") {
		r.emit("(", sep)
		r.rawExpr(e, "")
		r.tight(")")
		return
	}
	r.operand(e, pIndex, sep)
}

func (r *Renderer) rawExpr(e N, sep string) {
	switch S(e, "k") {
	case "int":
		v := toInt(e["v"])
		if v < 0 {
			r.emit("(", sep)
			r.tight("-")
			r.tight(strconv.Itoa(-v))
			r.tight(")")
		} else {
			r.emit(strconv.Itoa(v), sep)
		}
	case "float":
		r.emit(S(e, "text"), sep)
	case "bool":
		if B(e, "v") {
			r.emit("true", sep)
		} else {
			r.emit("false", sep)
		}
	case "nil":
		r.emit("nil", sep)
	case "str":
		if B(e, "bt") {
			r.emit("`"+string(FromCps(e["v"]))+"`", sep)
		} else {
			r.emit(QuoteStr(FromCps(e["v"])), sep)
		}
	case "tmpl":
		// template string: parts are either {"k":"lit","v":cps} or {"k":"e","e":expr,"src":text}
		var sb strings.Builder
		sb.WriteByte('\'')
		for _, p := range L(e, "parts") {
			pn := p.(N)
			if S(pn, "k") == "lit" {
				for _, c := range FromCps(pn["v"]) {
					switch c {
					case '\'':
						sb.WriteString("\\'")
					case '\\':
						sb.WriteString("\\\\")
					case '{':
						sb.WriteString("{{")
					case '}':
						sb.WriteString("}}")
					default:
						sb.WriteRune(c)
					}
				}
			} else if S(M(pn, "e"), "k") == "nilnode" {
				sb.WriteString("{}") // the empty interpolation
			} else {
				sub := &Renderer{Full: r.Full}
				sub.Expr(M(pn, "e"), "")
				sb.WriteString("{" + sub.Source() + "}")
			}
		}
		sb.WriteByte('\'')
		r.emit(sb.String(), sep)
	case "id":
		r.emit(S(e, "n"), sep)
	case "bin":
		p := BinPrec(S(e, "op"))
		r.operand(M(e, "a"), p, sep)
		r.sp(S(e, "op"))
		r.nlOK()
		r.operand(M(e, "b"), p+1, " ")
	case "and", "or":
		o := map[string]string{"and": "&&", "or": "||"}[S(e, "k")]
		r.operand(M(e, "a"), pCond, sep)
		r.sp(o)
		r.nlOK()
		r.operand(M(e, "b"), pCond+1, " ")
	case "not", "neg":
		// A prefix operator takes an operand of binding power > PREFIX; another prefix
		// expression is fine, but `in` / `not in` (power = PREFIX) is not absorbed and
		// "--" would be lexed as the decrement token (Grammar!PrefixOperandNeedsParens).
		if S(e, "k") == "not" {
			r.emit("!", sep)
		} else {
			r.emit("-", sep)
		}
		a := M(e, "a")
		if !r.Full && (S(a, "k") == "in" || (S(e, "k") == "neg" && S(a, "k") == "neg")) {
			r.tight("(")
			r.rawExpr(a, "")
			r.tight(")")
		} else {
			r.operand(a, pPrefix, "")
		}
	case "tern":
		r.operand(M(e, "c"), pTernary+1, sep)
		r.sp("?")
		r.operand(M(e, "a"), pTernary+1, " ")
		r.sp(":")
		r.operand(M(e, "b"), pTernary+1, " ")
	case "in":
		r.operand(M(e, "a"), pPrefix+1, sep)
		if B(e, "neg") {
			r.sp("not")
		}
		r.sp("in")
		r.operand(M(e, "b"), pPrefix+1, " ")
	case "list":
		r.emit("[", sep)
		r.exprList(L(e, "items"))
		r.tight("]")
	case "set":
		r.emit("{", sep)
		r.exprList(L(e, "items"))
		r.tight("}")
	case "map":
		r.emit("{", sep)
		ks, vs := L(e, "keys"), L(e, "vals")
		for i := range ks {
			s := ""
			if i > 0 {
				r.tight(",")
				r.nlOK()
				s = " "
			}
			r.Expr(ks[i].(N), s)
			r.tight(":")
			r.Expr(vs[i].(N), " ")
		}
		r.tight("}")
	case "idx":
		r.operand(M(e, "a"), pIndex, sep)
		r.tight("[")
		r.Expr(M(e, "b"), "")
		r.tight("]")
	case "slice":
		r.operand(M(e, "a"), pIndex, sep)
		r.tight("[")
		if B(e, "haslo") {
			r.Expr(M(e, "lo"), "")
		}
		r.tight(":")
		if B(e, "hashi") {
			r.Expr(M(e, "hi"), "")
		}
		r.tight("]")
	case "attr":
		r.base(M(e, "a"), sep)
		r.tight(".")
		r.tight(S(e, "n"))
	case "call":
		r.operand(M(e, "f"), pCall, sep)
		r.tight("(")
		r.exprList(L(e, "args"))
		r.tight(")")
	case "pipe":
		for i, st := range L(e, "stages") {
			if i > 0 {
				r.sp("|")
				r.nlOK()
				r.operand(st.(N), pPipe+1, " ")
			} else {
				r.operand(st.(N), pPipe+1, sep)
			}
		}
	case "func":
		r.emit("func", sep)
		if S(e, "name") != "" {
			r.sp(S(e, "name"))
		}
		r.tight("(")
		for i, p := range L(e, "params") {
			pn := p.(N)
			if i > 0 {
				r.tight(",")
				r.sp(S(pn, "n"))
			} else {
				r.tight(S(pn, "n"))
			}
			if B(pn, "hasdef") {
				r.tight("=")
				r.Expr(M(pn, "def"), "")
			}
		}
		r.tight(")")
		r.block(L(e, "body"))
	case "if":
		r.emit("if", sep)
		r.Expr(M(e, "c"), " ")
		r.block(L(e, "t"))
		if B(e, "haselse") {
			r.sp("else")
			el := L(e, "e")
			if B(e, "elseif") && len(el) == 1 && S(exprOf(el[0].(N)), "k") == "if" {
				r.rawExpr(exprOf(el[0].(N)), " ")
			} else {
				r.block(el)
			}
		}
	case "switch":
		r.emit("switch", sep)
		r.Expr(M(e, "subj"), " ")
		r.sp("{")
		for _, c := range L(e, "cases") {
			cn := c.(N)
			r.stmtGap()
			if B(cn, "isdefault") {
				r.sp("default")
				r.tight(":")
			} else {
				r.sp("case")
				for i, x := range L(cn, "exprs") {
					if i > 0 {
						r.tight(",")
					}
					r.Expr(x.(N), " ")
				}
				r.tight(":")
			}
			for _, s := range L(cn, "body") {
				r.stmtGap()
				r.Stmt(s.(N))
			}
		}
		r.stmtGap()
		r.emit("}", " ")
	default:
		panic("render: unknown expression kind " + S(e, "k"))
	}
}

func exprOf(st N) N {
	if S(st, "k") == "expr" {
		return M(st, "e")
	}
	return N{"k": "?"}
}

// exprList renders comma separated items; a line break is permitted after each comma.
func (r *Renderer) exprList(items []any) {
	for i, it := range items {
		s := ""
		if i > 0 {
			r.tight(",")
			s = " "
			r.nlOK()
		}
		r.Expr(it.(N), s)
	}
}

func (r *Renderer) Stmt(st N) {
	sep := r.pending.Sep
	if sep == "" {
		sep = " "
	}
	switch S(st, "k") {
	case "expr":
		e := M(st, "e")
		// a map/set literal at statement start would be read as a block
		if k := S(e, "k"); (k == "map" || k == "set") && !B(e, "paren") {
			r.emit("(", sep)
			r.rawExpr(e, "")
			r.tight(")")
		} else {
			r.Expr(e, sep)
		}
	case "var":
		if B(st, "kw") {
			r.emit("var", sep)
			r.sp(S(st, "n"))
			r.sp("=")
		} else {
			r.emit(S(st, "n"), sep)
			r.sp(":=")
		}
		r.Expr(M(st, "e"), " ")
	case "const":
		r.emit("const", sep)
		r.sp(S(st, "n"))
		r.sp("=")
		r.Expr(M(st, "e"), " ")
	case "multivar":
		isVar := B(st, "var") // "var a, b = e": declares, like "a, b := e"
		for i, n := range L(st, "ns") {
			if i == 0 {
				if isVar {
					r.emit("var", sep)
					r.sp(n.(string))
					continue
				}
				r.emit(n.(string), sep)
			} else {
				r.tight(",")
				r.sp(n.(string))
			}
		}
		if B(st, "decl") && !isVar {
			r.sp(":=")
		} else {
			r.sp("=")
		}
		r.Expr(M(st, "e"), " ")
	case "assign":
		r.emit(S(st, "n"), sep)
		r.sp(S(st, "op"))
		r.Expr(M(st, "e"), " ")
	case "setidx":
		r.operand(M(st, "a"), pIndex, sep)
		r.tight("[")
		r.Expr(M(st, "i"), "")
		r.tight("]")
		r.sp(S(st, "op"))
		r.Expr(M(st, "e"), " ")
	case "setattr":
		r.base(M(st, "a"), sep)
		r.tight(".")
		r.tight(S(st, "n"))
		r.sp(S(st, "op"))
		r.Expr(M(st, "e"), " ")
	case "postfix":
		r.emit(S(st, "n"), sep)
		r.tight(S(st, "op"))
	case "funcdecl":
		r.rawExpr(M(st, "f"), sep)
	case "break":
		r.emit("break", sep)
	case "continue":
		r.emit("continue", sep)
	case "return":
		r.emit("return", sep)
		if B(st, "has") {
			r.Expr(M(st, "e"), " ")
		}
	case "defer":
		r.emit("defer", sep)
		r.Expr(M(st, "e"), " ")
	case "go":
		r.emit("go", sep)
		r.Expr(M(st, "e"), " ")
	case "for":
		r.emit("for", sep)
		init, post := L(st, "init"), L(st, "post")
		if len(init) > 0 || len(post) > 0 {
			if len(init) > 0 {
				r.pending.Sep = " "
				r.Stmt(init[0].(N))
			}
			r.tight(";")
			if B(st, "hascond") {
				r.Expr(M(st, "cond"), " ")
			}
			r.tight(";")
			if len(post) > 0 {
				r.pending.Sep = " "
				r.Stmt(post[0].(N))
			}
		} else if B(st, "hascond") {
			r.Expr(M(st, "cond"), " ")
		}
		r.block(L(st, "body"))
	case "range":
		r.emit("for", sep)
		vars := L(st, "vars")
		if S(st, "style") == "in" {
			r.sp(vars[0].(string))
			r.sp("in")
		} else {
			for i, v := range vars {
				if i > 0 {
					r.tight(",")
				}
				r.sp(v.(string))
			}
			if len(vars) > 0 {
				r.sp(":=")
			}
			r.sp("range")
		}
		r.operand(M(st, "c"), pPrefix+1, " ")
		r.block(L(st, "body"))
	case "import":
		r.emit("import", sep)
		if B(st, "quoted") {
			r.sp(QuoteStr(S(st, "path")))
		} else {
			r.sp(S(st, "path"))
		}
		if S(st, "alias") != "" {
			r.sp("as")
			r.sp(S(st, "alias"))
		}
	case "fromimport":
		r.emit("from", sep)
		if B(st, "quoted") {
			r.sp(QuoteStr(S(st, "path")))
		} else {
			r.sp(S(st, "path"))
		}
		r.sp("import")
		names := L(st, "names")
		if B(st, "grouped") {
			r.sp("(")
		}
		for i, nm := range names {
			n := nm.(N)
			if i > 0 {
				r.tight(",")
			}
			if B(st, "grouped") {
				r.nlOK()
			}
			r.sp(S(n, "n"))
			if S(n, "alias") != "" {
				r.sp("as")
				r.sp(S(n, "alias"))
			}
		}
		if B(st, "grouped") {
			r.nlOK()
			r.tight(")")
		}
	case "raw":
		r.emit(S(st, "src"), sep)
	default:
		panic("render: unknown statement kind " + S(st, "k"))
	}
}
