package ast

import (
	"fmt"
	"math"
	"sort"

	rast "github.com/risor-io/risor/ast"
)

// FromProgram converts the real parser's syntax tree into the canonical JSON
// AST (the same domain the renderer consumes), so that trees can be compared
// structurally: parse(render(t)) must be Norm(t), and two layouts of one
// program must give equal trees (C01, C20). Map literal entries are emitted in
// source order (ast.Map.OrderedKeys).
func FromProgram(p *rast.Program) []any {
	return nodes(p.Statements())
}

func nodes(ns []rast.Node) []any {
	out := []any{}
	for i, n := range ns {
		// "x++" reaches the tree as the identifier expression x followed by the postfix node
		if id, ok := n.(*rast.Ident); ok && i+1 < len(ns) {
			if pf, ok := ns[i+1].(*rast.Postfix); ok && pf.Token().Literal == id.Literal() {
				continue
			}
		}
		out = append(out, stmtOf(n))
	}
	return out
}

func blockOf(b *rast.Block) []any {
	if b == nil {
		return []any{}
	}
	return nodes(b.Statements())
}

func exprs(es []rast.Expression) []any {
	out := []any{}
	for _, e := range es {
		out = append(out, exprOfNode(e))
	}
	return out
}

func stmtOf(n rast.Node) N {
	switch n := n.(type) {
	case *rast.Var:
		name, e := n.Value()
		return N{"k": "var", "n": name, "e": exprOfNode(e)}
	case *rast.MultiVar:
		names, e := n.Value()
		ns := []any{}
		for _, x := range names {
			ns = append(ns, x)
		}
		return N{"k": "multivar", "ns": ns, "decl": n.IsWalrus(), "e": exprOfNode(e)}
	case *rast.Const:
		name, e := n.Value()
		return N{"k": "const", "n": name, "e": exprOfNode(e)}
	case *rast.Control:
		return N{"k": n.Literal()}
	case *rast.Return:
		if n.Value() == nil {
			return N{"k": "return", "has": false, "e": Nil()}
		}
		return N{"k": "return", "has": true, "e": exprOfNode(n.Value())}
	case *rast.Assign:
		if idx := n.Index(); idx != nil {
			return N{"k": "setidx", "a": exprOfNode(idx.Left()), "i": exprOfNode(idx.Index()), "op": n.Operator(), "e": exprOfNode(n.Value())}
		}
		return N{"k": "assign", "n": n.Name(), "op": n.Operator(), "e": exprOfNode(n.Value())}
	case *rast.SetAttr:
		return N{"k": "setattr", "a": exprOfNode(n.Object()), "n": n.Name(), "ncps": Cps(n.Name()), "op": n.Token().Literal, "e": exprOfNode(n.Value())}
	case *rast.Postfix:
		return N{"k": "postfix", "n": n.Token().Literal, "op": n.Operator()}
	case *rast.Defer:
		return N{"k": "defer", "e": exprOfNode(n.Call())}
	case *rast.Go:
		return N{"k": "go", "e": exprOfNode(n.Call())}
	case *rast.For:
		return forOf(n)
	case *rast.ForIn:
		return N{"k": "range", "style": "in", "vars": []any{n.Variable().Literal()}, "c": exprOfNode(n.Iterable()), "body": blockOf(n.Consequence())}
	case *rast.Func:
		if n.Name() != nil {
			return N{"k": "funcdecl", "f": exprOfNode(n)}
		}
		return ExprStmt(exprOfNode(n))
	case *rast.Import:
		alias := ""
		if n.Alias() != nil {
			alias = n.Alias().Literal()
		}
		return N{"k": "import", "path": n.Path().Value(), "alias": alias}
	case *rast.FromImport:
		return N{"k": "fromimport", "text": n.String()}
	case *rast.Send:
		return N{"k": "send", "c": exprOfNode(n.Channel()), "e": exprOfNode(n.Value())}
	case rast.Expression:
		return ExprStmt(exprOfNode(n))
	case nil:
		return N{"k": "nilnode"}
	}
	return N{"k": "unknownstmt", "go": fmt.Sprintf("%T", n)}
}

func forOf(n *rast.For) N {
	body := blockOf(n.Consequence())
	cond := n.Condition()
	if n.Init() == nil && n.Post() == nil {
		switch c := cond.(type) {
		case nil:
			return N{"k": "for", "init": []any{}, "hascond": false, "cond": Nil(), "post": []any{}, "body": body}
		case *rast.Range:
			return N{"k": "range", "style": "range", "vars": []any{}, "c": exprOfNode(c.Container()), "body": body}
		case *rast.Var:
			name, e := c.Value()
			if r, ok := e.(*rast.Range); ok {
				return N{"k": "range", "style": "range", "vars": []any{name}, "c": exprOfNode(r.Container()), "body": body}
			}
		case *rast.MultiVar:
			names, e := c.Value()
			if r, ok := e.(*rast.Range); ok {
				vs := []any{}
				for _, x := range names {
					vs = append(vs, x)
				}
				return N{"k": "range", "style": "range", "vars": vs, "c": exprOfNode(r.Container()), "body": body}
			}
		}
		return N{"k": "for", "init": []any{}, "hascond": true, "cond": exprOfNode(cond), "post": []any{}, "body": body}
	}
	out := N{"k": "for", "init": []any{}, "hascond": cond != nil, "cond": Nil(), "post": []any{}, "body": body}
	if n.Init() != nil {
		out["init"] = []any{stmtOf(n.Init())}
	}
	if cond != nil {
		out["cond"] = exprOfNode(cond)
	}
	if n.Post() != nil {
		out["post"] = []any{stmtOf(n.Post())}
	}
	return out
}

func exprOfNode(n rast.Node) N {
	switch e := n.(type) {
	case nil:
		return N{"k": "nilnode"}
	case *rast.Int:
		return Int(int(e.Value()))
	case *rast.Float:
		out := N{"k": "float", "text": e.Literal()}
		if v := e.Value() * 8; v == math.Trunc(v) && v >= 0 && v <= 32768 {
			out["n8"] = int(v)
		}
		return out
	case *rast.Bool:
		return Bool(e.Value())
	case *rast.Nil:
		return Nil()
	case *rast.String:
		if e.Template() == nil {
			return Str(e.Value())
		}
		parts := []any{}
		xs := e.TemplateExpressions()
		xi := 0
		for _, f := range e.Template().Fragments() {
			if f.IsVariable() {
				if xi < len(xs) && xs[xi] != nil {
					parts = append(parts, N{"k": "e", "e": exprOfNode(xs[xi])})
				} else {
					parts = append(parts, N{"k": "e", "e": N{"k": "nilnode"}})
				}
				xi++
			} else {
				parts = append(parts, N{"k": "lit", "v": Cps(f.Value())})
			}
		}
		return N{"k": "tmpl", "parts": parts}
	case *rast.Ident:
		return Id(e.Literal())
	case *rast.Prefix:
		k := "neg"
		if e.Operator() == "!" {
			k = "not"
		}
		return N{"k": k, "a": exprOfNode(e.Right())}
	case *rast.Infix:
		switch e.Operator() {
		case "&&":
			return N{"k": "and", "a": exprOfNode(e.Left()), "b": exprOfNode(e.Right())}
		case "||":
			return N{"k": "or", "a": exprOfNode(e.Left()), "b": exprOfNode(e.Right())}
		}
		return Bin(e.Operator(), exprOfNode(e.Left()), exprOfNode(e.Right()))
	case *rast.Ternary:
		return N{"k": "tern", "c": exprOfNode(e.Condition()), "a": exprOfNode(e.IfTrue()), "b": exprOfNode(e.IfFalse())}
	case *rast.In:
		return N{"k": "in", "a": exprOfNode(e.Left()), "b": exprOfNode(e.Right()), "neg": false}
	case *rast.NotIn:
		return N{"k": "in", "a": exprOfNode(e.Left()), "b": exprOfNode(e.Right()), "neg": true}
	case *rast.List:
		return List(exprs(e.Items())...)
	case *rast.Set:
		return N{"k": "set", "items": exprs(e.Items())}
	case *rast.Map:
		keys, vals := []any{}, []any{}
		for _, k := range orderedKeys(e) {
			if id, ok := k.(*rast.Ident); ok {
				keys = append(keys, N{"k": "str", "v": Cps(id.Literal()), "bare": true})
			} else {
				keys = append(keys, exprOfNode(k))
			}
			vals = append(vals, exprOfNode(e.Items()[k]))
		}
		return N{"k": "map", "keys": keys, "vals": vals}
	case *rast.Index:
		return N{"k": "idx", "a": exprOfNode(e.Left()), "b": exprOfNode(e.Index())}
	case *rast.Slice:
		out := N{"k": "slice", "a": exprOfNode(e.Left()), "haslo": e.FromIndex() != nil, "hashi": e.ToIndex() != nil, "lo": Nil(), "hi": Nil()}
		if e.FromIndex() != nil {
			out["lo"] = exprOfNode(e.FromIndex())
		}
		if e.ToIndex() != nil {
			out["hi"] = exprOfNode(e.ToIndex())
		}
		return out
	case *rast.GetAttr:
		return Attr(exprOfNode(e.Object()), e.Name())
	case *rast.ObjectCall:
		call, ok := e.Call().(*rast.Call)
		if !ok {
			return N{"k": "unknownexpr", "go": "ObjectCall"}
		}
		name := ""
		if id, ok := call.Function().(*rast.Ident); ok {
			name = id.Literal()
		}
		args := []any{}
		for _, a := range call.Arguments() {
			args = append(args, exprOfNode(a))
		}
		return Call(Attr(exprOfNode(e.Object()), name), args...)
	case *rast.Call:
		args := []any{}
		for _, a := range e.Arguments() {
			args = append(args, exprOfNode(a))
		}
		return Call(exprOfNode(e.Function()), args...)
	case *rast.Pipe:
		return N{"k": "pipe", "stages": exprs(e.Expressions())}
	case *rast.Func:
		params := []any{}
		defs := e.Defaults()
		for _, p := range e.Parameters() {
			pn := N{"n": p.Literal(), "hasdef": false, "def": Nil()}
			if d, ok := defs[p.Literal()]; ok {
				pn["hasdef"] = true
				pn["def"] = exprOfNode(d)
			}
			params = append(params, pn)
		}
		name := ""
		if e.Name() != nil {
			name = e.Name().Literal()
		}
		return N{"k": "func", "params": params, "body": blockOf(e.Body()), "name": name}
	case *rast.If:
		out := N{"k": "if", "c": exprOfNode(e.Condition()), "t": blockOf(e.Consequence()), "e": []any{}, "haselse": false}
		if e.Alternative() != nil {
			out["haselse"] = true
			out["e"] = blockOf(e.Alternative())
		}
		return out
	case *rast.Switch:
		cases := []any{}
		for _, c := range e.Choices() {
			cases = append(cases, N{"isdefault": c.IsDefault(), "exprs": exprs(c.Expressions()), "body": blockOf(c.Block())})
		}
		return N{"k": "switch", "subj": exprOfNode(e.Value()), "cases": cases}
	case *rast.Range:
		return N{"k": "rangeexpr", "c": exprOfNode(e.Container())}
	case *rast.Receive:
		return N{"k": "recv", "c": exprOfNode(e.Channel())}
	}
	// statements in expression position (e.g. assignment inside a block value)
	if _, ok := n.(rast.Expression); !ok {
		return N{"k": "stmtexpr", "s": stmtOf(n)}
	}
	return N{"k": "unknownexpr", "go": fmt.Sprintf("%T", n)}
}

// Norm brings a generated AST to the form FromProgram produces for its rendering:
// negative int literals are prefix expressions, presentation flags are dropped.
func Norm(v any) any {
	switch x := v.(type) {
	case []any:
		out := make([]any, len(x))
		for i := range x {
			out[i] = Norm(x[i])
		}
		return out
	case N:
		if S(x, "k") == "int" {
			if iv := toInt(x["v"]); iv < 0 {
				return N{"k": "neg", "a": Int(-iv)}
			}
			return Int(toInt(x["v"]))
		}
		out := N{}
		for k, val := range x {
			switch k {
			case "paren", "elseif", "hoisted", "kw", "bare", "bt":
				continue
			}
			out[k] = Norm(val)
		}
		if S(x, "k") == "if" && !B(x, "haselse") {
			out["e"] = []any{}
		}
		if S(x, "k") == "tmpl" {
			// a template without interpolated expressions is a plain string
			lit := []any{}
			plain := true
			for _, p := range L(x, "parts") {
				if S(p.(N), "k") != "lit" {
					plain = false
					break
				}
				lit = append(lit, p.(N)["v"].([]any)...)
			}
			if plain {
				return N{"k": "str", "v": lit}
			}
			// adjacent literal parts are one fragment
			var parts []any
			for _, p := range L(out, "parts") {
				pn := p.(N)
				if S(pn, "k") == "lit" && len(parts) > 0 && S(parts[len(parts)-1].(N), "k") == "lit" {
					prev := parts[len(parts)-1].(N)
					prev["v"] = append(append([]any{}, prev["v"].([]any)...), pn["v"].([]any)...)
					continue
				}
				parts = append(parts, pn)
			}
			out["parts"] = parts
		}
		return out
	}
	return v
}

// orderedKeys returns the keys of a map literal in source order (by token position).
func orderedKeys(m *rast.Map) []rast.Expression {
	keys := make([]rast.Expression, 0, len(m.Items()))
	for k := range m.Items() {
		keys = append(keys, k)
	}
	sort.SliceStable(keys, func(i, j int) bool {
		a, b := keys[i].Token().StartPosition, keys[j].Token().StartPosition
		if a.Line != b.Line {
			return a.Line < b.Line
		}
		return a.Column < b.Column
	})
	return keys
}
