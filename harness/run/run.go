// Package run executes source text on the real risor pipeline and projects the
// observable outcome into the canonical JSON shared with the TLA+ specs
// (the "projection function" of DESIGN.md 2.1), plus a crash-isolating worker pool.
package run

import (
	"bufio"
	"bytes"
	"context"
	"encoding/json"
	"fmt"
	"io"
	"os"
	"os/exec"
	"strings"
	"sync"
	"time"

	"github.com/risor-io/risor"
	"github.com/risor-io/risor/compiler"
	"github.com/risor-io/risor/object"
	ros "github.com/risor-io/risor/os"
	"github.com/risor-io/risor/parser"
	"github.com/risor-io/risor/vm"
)

type N = map[string]any

func Cps(s string) []any {
	out := []any{}
	for _, r := range s {
		out = append(out, int(r))
	}
	return out
}

// Project maps a real object to the canonical value JSON (depth-limited, as Lang!Proj: a CONTAINER at depth 0 is
// "deep", a scalar is shown at any depth; cyclic values reach the limit).
func Project(o object.Object, d int) any {
	switch o.(type) {
	case *object.List, *object.Map, *object.Set:
		if d == 0 {
			return N{"t": "deep"}
		}
	}
	switch o := o.(type) {
	case nil:
		return N{"t": "gonil"}
	case *object.Int:
		return N{"t": "int", "v": o.Value()}
	case *object.Bool:
		return N{"t": "bool", "v": o.Value()}
	case *object.String:
		return N{"t": "str", "v": Cps(o.Value())}
	case *object.NilType:
		return N{"t": "nil"}
	case *object.Float:
		return N{"t": "float", "v": Cps(o.Inspect())}
	case *object.Byte:
		return N{"t": "byte", "v": int(o.Value())}
	case *object.List:
		items := []any{}
		for _, it := range o.Value() {
			items = append(items, Project(it, d-1))
		}
		return N{"t": "list", "v": items}
	case *object.Map:
		items := []any{}
		for _, k := range o.SortedKeys() {
			items = append(items, N{"k": Cps(k), "v": Project(o.Value()[k], d-1)})
		}
		return N{"t": "map", "v": items}
	case *object.Set:
		items := []any{}
		for _, it := range o.SortedItems() {
			items = append(items, Project(it, d-1))
		}
		return N{"t": "set", "v": items}
	case *object.Error:
		return N{"t": "error", "v": Cps(o.Value().Error()), "raised": o.IsRaised()}
	case *object.Function:
		return N{"t": "fn"}
	case *object.Builtin:
		return N{"t": "builtin"}
	case *object.Partial:
		return N{"t": "partial"}
	}
	return N{"t": string(o.Type())}
}

// ErrKind is the text before the first colon ("type error", "index error", ...).
func ErrKind(err error) string {
	msg := err.Error()
	if j := strings.Index(msg, ":"); j > 0 {
		return msg[:j]
	}
	return msg
}

type EvalOpts struct {
	Timeout time.Duration
	Options []risor.Option
}

// HostEnv: the environment of every evaluation's VirtualOS (several variables: their order is observable through
// os.environ()).
func HostEnv() map[string]string {
	return map[string]string{"HOME": "/h", "LANG": "C", "PATH": "/bin", "TERM": "x", "USER": "u", "ZED": "z"}
}

// Eval runs src through lexer, parser, compiler and VM with a captured stdout.
func Eval(src string, eo EvalOpts) (obs N) {
	stdout := ros.NewBufferFile(nil)
	if eo.Timeout == 0 {
		eo.Timeout = 3 * time.Second
	}
	ctx, cancel := context.WithTimeout(context.Background(), eo.Timeout)
	defer cancel()
	vos := ros.NewVirtualOS(ctx, ros.WithStdout(stdout), ros.WithEnvironment(HostEnv()))
	defer func() {
		if r := recover(); r != nil {
			obs = N{"k": "gopanic", "msg": fmt.Sprint(r), "out": Cps(string(stdout.Bytes()))}
		}
	}()
	opts := append([]risor.Option{risor.WithOS(vos)}, eo.Options...)
	res, err := risor.Eval(ctx, src, opts...)
	out := Cps(string(stdout.Bytes()))
	if err != nil {
		if ctx.Err() != nil {
			// an endless loop that prints produces megabytes: the observation keeps the beginning only
			if len(out) > 256 {
				out = out[:256]
			}
			return N{"k": "timeout", "out": out}
		}
		return N{"k": "raise", "v": ErrKind(err), "msg": err.Error(), "out": out}
	}
	return N{"k": "ok", "v": Project(res, 7), "out": out}
}

// EvalRoute runs src through one of the other host entry points; the outcome must be the one Eval gives.
//
//	"vmnew"    parser.Parse + compiler.Compile + vm.New + Run + TOS (the low-level API)
//	"evalcode" compile, then risor.EvalCode
//	"withvm"   risor.Eval with WithVM of a VM that evaluated another program before
//	"runcode"  vm.NewEmpty + RunCode, twice (the second run is the one observed)
func EvalRoute(src string, route string) (obs N) {
	stdout := ros.NewBufferFile(nil)
	ctx, cancel := context.WithTimeout(context.Background(), 3*time.Second)
	defer cancel()
	vos := ros.NewVirtualOS(ctx, ros.WithStdout(stdout), ros.WithEnvironment(HostEnv()))
	defer func() {
		if r := recover(); r != nil {
			obs = N{"k": "gopanic", "msg": fmt.Sprint(r), "out": Cps(string(stdout.Bytes())), "route": route}
		}
	}()
	opts := []risor.Option{risor.WithOS(vos)}
	cfg := risor.NewConfig(opts...)
	compile := func() (*compiler.Code, error) {
		prog, err := parser.Parse(ctx, src)
		if err != nil {
			return nil, err
		}
		return compiler.Compile(prog, cfg.CompilerOpts()...)
	}
	var res object.Object
	var err error
	skip := 0 // bytes of output written by a warm-up run
	switch route {
	case "vmnew":
		var code *compiler.Code
		if code, err = compile(); err == nil {
			machine := vm.New(code, cfg.VMOpts()...)
			if err = machine.Run(ctx); err == nil {
				if tos, ok := machine.TOS(); ok {
					res = tos
				} else {
					res = object.Nil
				}
			}
		}
	case "evalcode":
		var code *compiler.Code
		if code, err = compile(); err == nil {
			res, err = risor.EvalCode(ctx, code, opts...)
		}
	case "withvm":
		var machine *vm.VirtualMachine
		if machine, err = vm.NewEmpty(); err == nil {
			if _, err = risor.Eval(ctx, "warm := [1, 2]\nwarm.append(3)\nlen(warm)", append(opts, risor.WithVM(machine))...); err == nil {
				res, err = risor.Eval(ctx, src, append(opts, risor.WithVM(machine))...)
			}
		}
	case "runcode":
		var code *compiler.Code
		if code, err = compile(); err == nil {
			var machine *vm.VirtualMachine
			if machine, err = vm.NewEmpty(); err == nil {
				if err = machine.RunCode(ctx, code, cfg.VMOpts()...); err == nil {
					skip = len(stdout.Bytes())
					if err = machine.RunCode(ctx, code, cfg.VMOpts()...); err == nil {
						if tos, ok := machine.TOS(); ok {
							res = tos
						} else {
							res = object.Nil
						}
					}
				}
			}
		}
	}
	out := Cps(string(stdout.Bytes()[skip:]))
	if err != nil {
		if ctx.Err() != nil {
			if len(out) > 256 {
				out = out[:256]
			}
			return N{"k": "timeout", "out": out, "route": route}
		}
		return N{"k": "raise", "v": ErrKind(err), "msg": err.Error(), "out": out, "route": route}
	}
	return N{"k": "ok", "v": Project(res, 7), "out": out, "route": route}
}

// ---------------------------------------------------------------------------
// Worker pool with crash isolation: the parent re-executes its own binary with
// "-worker <name>"; a worker that dies (fatal stack overflow, concurrent map write)
// yields a "crash" response for the request in flight and is restarted.

type Handler func(req N) N

var handlers = map[string]Handler{}

func Register(name string, h Handler) { handlers[name] = h }

// MaybeWorker must be called first in main(): it never returns in a worker process.
func MaybeWorker() {
	if len(os.Args) >= 3 && os.Args[1] == "-worker" {
		h := handlers[os.Args[2]]
		if h == nil {
			fmt.Fprintln(os.Stderr, "unknown worker", os.Args[2])
			os.Exit(3)
		}
		in := bufio.NewReaderSize(os.Stdin, 1<<20)
		// the protocol owns the original stdout; anything the evaluated code
		// prints to the process stdout/stderr goes to /dev/null
		proto := os.Stdout
		if devnull, err := os.OpenFile(os.DevNull, os.O_WRONLY, 0); err == nil {
			os.Stdout = devnull
		}
		out := bufio.NewWriter(proto)
		for {
			line, err := in.ReadBytes('\n')
			if len(line) > 0 {
				var req N
				dec := json.NewDecoder(bytes.NewReader(line))
				if e := dec.Decode(&req); e != nil {
					fmt.Fprintln(os.Stderr, "bad request:", e)
					os.Exit(3)
				}
				resp := h(req)
				b, _ := json.Marshal(resp)
				out.Write(b)
				out.WriteByte('\n')
				out.Flush()
			}
			if err != nil {
				os.Exit(0)
			}
		}
	}
}

type worker struct {
	cmd *exec.Cmd
	in  io.WriteCloser
	out *bufio.Reader
	err *bytes.Buffer
}

type Pool struct {
	name    string
	n       int
	env     []string
	Crashes int
	OneShot bool // start a fresh worker process for every request
	mu      sync.Mutex
}

func NewPool(name string, n int, env ...string) *Pool { return &Pool{name: name, n: n, env: env} }

func (p *Pool) start() (*worker, error) {
	cmd := exec.Command(os.Args[0], "-worker", p.name)
	cmd.Env = append(os.Environ(), p.env...)
	in, err := cmd.StdinPipe()
	if err != nil {
		return nil, err
	}
	outp, err := cmd.StdoutPipe()
	if err != nil {
		return nil, err
	}
	eb := &bytes.Buffer{}
	cmd.Stderr = &capWriter{buf: eb, max: 4000}
	if err := cmd.Start(); err != nil {
		return nil, err
	}
	return &worker{cmd: cmd, in: in, out: bufio.NewReaderSize(outp, 1<<20), err: eb}, nil
}

type capWriter struct {
	buf *bytes.Buffer
	max int
}

func (c *capWriter) Write(p []byte) (int, error) {
	if c.buf.Len() < c.max {
		k := c.max - c.buf.Len()
		if k > len(p) {
			k = len(p)
		}
		c.buf.Write(p[:k])
	}
	return len(p), nil
}

func (w *worker) kill() {
	w.in.Close()
	w.cmd.Process.Kill()
	w.cmd.Wait()
}

// Map sends every request to a worker and returns the responses in order. A
// request during which the worker died gets {"k":"crash","stderr":...}; a request
// exceeding perReq gets {"k":"hang"}.
func (p *Pool) Map(reqs []N, perReq time.Duration) []N {
	resps := make([]N, len(reqs))
	idx := make(chan int)
	var wg sync.WaitGroup
	for i := 0; i < p.n; i++ {
		wg.Add(1)
		go func() {
			defer wg.Done()
			var w *worker
			defer func() {
				if w != nil {
					w.kill()
				}
			}()
			for j := range idx {
				if w == nil {
					var err error
					w, err = p.start()
					if err != nil {
						resps[j] = N{"k": "nostart", "msg": err.Error()}
						continue
					}
				}
				b, _ := json.Marshal(reqs[j])
				b = append(b, '\n')
				type rr struct {
					line []byte
					err  error
				}
				ch := make(chan rr, 1)
				ww := w
				go func() {
					if _, err := ww.in.Write(b); err != nil {
						ch <- rr{nil, err}
						return
					}
					line, err := ww.out.ReadBytes('\n')
					ch <- rr{line, err}
				}()
				select {
				case r := <-ch:
					if r.err != nil || len(r.line) == 0 {
						w.cmd.Wait()
						st := w.err.String()
						if len(st) > 1500 {
							st = st[:1500]
						}
						resps[j] = N{"k": "crash", "stderr": st, "exit": w.cmd.ProcessState.String()}
						p.mu.Lock()
						p.Crashes++
						p.mu.Unlock()
						w.kill()
						w = nil
						continue
					}
					var resp N
					if err := json.Unmarshal(r.line, &resp); err != nil {
						resp = N{"k": "badresp", "msg": err.Error()}
					}
					resps[j] = resp
					if p.OneShot {
						w.kill()
						w = nil
					}
				case <-time.After(perReq):
					resps[j] = N{"k": "hang"}
					w.kill()
					w = nil
				}
			}
		}()
	}
	for j := range reqs {
		idx <- j
	}
	close(idx)
	wg.Wait()
	return resps
}

// ReadNDJSON reads one JSON object per line.
func ReadNDJSON(path string) ([]N, error) {
	f, err := os.Open(path)
	if err != nil {
		return nil, err
	}
	defer f.Close()
	var out []N
	sc := bufio.NewScanner(f)
	sc.Buffer(make([]byte, 1<<24), 1<<24)
	for sc.Scan() {
		if len(bytes.TrimSpace(sc.Bytes())) == 0 {
			continue
		}
		var n N
		if err := json.Unmarshal(sc.Bytes(), &n); err != nil {
			return nil, err
		}
		out = append(out, n)
	}
	return out, sc.Err()
}

func WriteNDJSON(path string, rows []N) error {
	f, err := os.Create(path)
	if err != nil {
		return err
	}
	w := bufio.NewWriterSize(f, 1<<20)
	for _, r := range rows {
		b, err := json.Marshal(r)
		if err != nil {
			return err
		}
		w.Write(b)
		w.WriteByte('\n')
	}
	if err := w.Flush(); err != nil {
		return err
	}
	return f.Close()
}
