"""C09 - evaluations on separate VMs are safe to run concurrently (DESIGN.md 5, C09).

M: Registry.tla: every access to the package-level registries of the object package happens under
   goTypeMutex (LockDiscipline) and no two processes overlap on one object with a write (NoRace), for 3
   processes running the first-use paths; the pinned design (GetConverter without the lock) must violate NoRace.
V1 lockset trace validation: the VerifSync hook logs lock / unlock / read / write with goroutine ids while
   2..16 evaluations run concurrently in fresh processes; TraceRegistry.tla maintains held[g] and accepts an
   access only under the lock of the accessed object - independent of whether racing goroutines met.
V2 the same driver built with the Go race detector: a report is an observation no spec action accepts.
V3 non-interference: every concurrent evaluation's result equals its sequential result.
"""
import json
import os
import re

import vlib
import langlib


def run(cx):
    cx.level = "model_checking"
    drv = cx.go_build("registry")
    # ---- M
    r = cx.tlc("Registry", workers=8, name="registry_mc")
    cx.tlc_must_pass(r, "Registry (repaired design)")
    cfg = "SPECIFICATION Spec\nCONSTANTS Procs = {1, 2}\n Faithful = TRUE\nINVARIANT NoRace\nCHECK_DEADLOCK FALSE\n"
    rf = cx.tlc("Registry", cfg_text=cfg, workers=4, name="registry_faithful")
    if "NoRace" not in rf.invariant_violated:
        raise vlib.Inconclusive("the pinned design (GetConverter without goTypeMutex) no longer violates NoRace: the invariant would be vacuous")
    # ---- V1 + V3
    runs = []
    nproc = 12 if cx.quick() else 60
    for i in range(nproc):
        g = [2, 4, 8, 16][i % 4]
        runs.append({"id": i, "g": g, "rounds": 2 if cx.quick() else 4, "dir": cx.path("imp%d" % i)})
    rin = cx.path("runs.ndjson")
    vlib.write_ndjson(rin, runs)
    rout = cx.path("runs.out.ndjson")
    cx.run([drv, "run", "-in", rin, "-out", rout, "-j", "4"], timeout=3000)
    traces = []
    evals = 0
    nevents = 0
    hung = []
    ndead = 0
    for r_ in vlib.read_ndjson(rout):
        res = r_["res"]
        if res.get("k") == "crash":
            cx.violation("concurrent evaluations on separate VMs killed the process (g=%d): %s" % (r_["g"], res.get("stderr", "")[:300]),
                         {"leg": "crash", "run": r_["id"], "goroutines": r_["g"], "stderr": res.get("stderr")})
            continue
        if res.get("k") == "hang":
            hung.append(r_)
            continue
        if res.get("k") != "ok":
            cx.notes.append("run %s: driver result %s" % (r_["id"], str(res)[:150]))
            ndead += 1
            continue
        if res.get("seq_errors"):
            raise vlib.Inconclusive("a driver program fails when evaluated alone: %s" % json.dumps(res["seq_errors"][:2])[:300])
        evals += res["evaluations"]
        nevents += len(res["events"])
        traces.append({"id": r_["id"], "events": res["events"]})
        for d in (res.get("diffs") or [])[:3]:
            cx.violation("a concurrent evaluation gave %r, alone it gives %r (program %d, %d goroutines)" % (
                d["concurrent"][:120], d["sequential"][:120], d["program"], r_["g"]),
                {"leg": "non-interference", "diff": d, "goroutines": r_["g"]})
    cx.alive(ndead, len(runs), "concurrent evaluation runs")
    # a run that did not finish: every evaluation in it has a 20 s deadline of its own and the whole run is given
    # 180 s, so a run that hangs again when it is the only one on the machine has evaluations that block each other
    if hung:
        hin = cx.path("hung.ndjson")
        vlib.write_ndjson(hin, [{"id": r_["id"], "g": r_["g"], "rounds": r_["rounds"], "dir": r_["dir"] + "_again"} for r_ in hung[:2]])
        hout = cx.path("hung.out.ndjson")
        cx.run([drv, "run", "-in", hin, "-out", hout, "-j", "1"], timeout=3000)
        for r_ in vlib.read_ndjson(hout):
            if r_["res"].get("k") == "hang":
                cx.violation("%d goroutines evaluating on separate VMs (shared importer, shared code) never finished: the run hangs, "
                             "again when repeated alone, although every evaluation has a 20 s deadline" % r_["g"],
                             {"leg": "hang", "run": r_["id"], "goroutines": r_["g"]})
            else:
                cx.notes.append("run %s: hang not reproduced" % r_["id"])
    if not traces and not cx.violations:
        raise vlib.Inconclusive("no concurrent run finished")
    langlib.tlc_conform(cx, traces, spec="TraceRegistry", prefix="trace", strip=(), nshards=6)
    rejected = {}
    for d in sorted(x for x in os.listdir(cx.work) if x.startswith("tlc_trace_")):
        for ln in open(cx.path(d, "tlc.out")):
            m = re.match(r'^<<"REJECTED", (\d+), (\d+), "(.*)">>$', ln.strip())
            if m:
                rejected.setdefault(int(m.group(1)), (int(m.group(2)), m.group(3).replace('\\"', '"')))
    kinds = set()
    for i, (pos, ev) in sorted(rejected.items()):
        key = ev
        e = json.loads(ev)
        k2 = (e.get("ev"), e.get("name"))
        if k2 in kinds:
            continue
        kinds.add(k2)
        tr = [t for t in traces if t["id"] == i][0]["events"]
        cx.violation("an access to package-level state happens outside its lock: event %d %s; preceding events %s" % (
            pos, ev, json.dumps(tr[max(0, pos - 6):pos])[:400]),
            {"leg": "lockset", "run": i, "position": pos, "event": e, "context": tr[max(0, pos - 30):pos + 2]})
    # ---- V2: race detector as observation instrument
    nrace = 0
    try:
        rdrv = cx.go_build("registry", race=True)
    except vlib.Inconclusive as e:
        rdrv = None
        cx.notes.append("race-detector build unavailable: %s" % str(e)[:200])
    if rdrv:
        rruns = [{"id": i, "g": [4, 8, 16][i % 3], "rounds": 1, "dir": cx.path("rimp%d" % i)} for i in range(6 if cx.quick() else 30)]
        rrin = cx.path("race.ndjson")
        vlib.write_ndjson(rrin, rruns)
        rrout = cx.path("race.out.ndjson")
        cx.run([rdrv, "run", "-in", rrin, "-out", rrout, "-j", "3"], env={"GORACE": "halt_on_error=1 exitcode=66"}, timeout=3000)
        seen = set()
        for r_ in vlib.read_ndjson(rrout):
            res = r_["res"]
            nrace += 1
            if res.get("k") == "crash" and "DATA RACE" in res.get("stderr", ""):
                st = res["stderr"]
                m = re.findall(r"(?:Write|Read|Previous write|Previous read) at .*?\n\s+(\S+)\(\)", st)
                key = tuple(m[:2])
                if key in seen:
                    continue
                seen.add(key)
                cx.violation("the Go race detector reports a data race between concurrent evaluations on separate VMs: %s" % " / ".join(m[:2]),
                             {"leg": "race-detector", "goroutines": r_["g"], "report": st[:3000]})
            elif res.get("k") == "crash":
                cx.violation("concurrent evaluations killed the race-instrumented process: %s" % res.get("stderr", "")[:300],
                             {"leg": "crash", "stderr": res.get("stderr")})
    if traces:
        cx.sample({"goroutines": runs[0]["g"], "events": traces[0]["events"][:10]})
    cx.cover.update({
        "evaluations": evals, "distinct_nontrivial": len(traces), "traces_validated_against_impl": len(traces),
        "hook_events": nevents, "race_detector_runs": nrace,
        "rule": "fresh processes (first-use paths once per process) with 2/4/8/16 goroutines, each evaluating on its own VM 9 programs that touch "
                "the type-converter and Go-type registries (first-use slice/map/array/pointer/struct/nested parameter types), codecs, int/byte "
                "caches, a local importer and shared compiled code; non-trivial = a process run whose hook trace was validated",
    })
    cx.assumptions += ["the race detector is an observation instrument; the judgement (which accesses need which lock, results equal) is the specification's",
                       "hooks object.VerifSync (build tag verif); codec registry and importer cache are covered by the race detector and result comparison only"]
