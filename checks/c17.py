"""C17 - serialised bytecode behaves exactly like the code it was made from (DESIGN.md 5, C17).

In spec terms Marshal/Unmarshal are the identity on the abstract code, so running the reloaded
code must give Lang!RunProgram(ast) just like the original.  For every program: compile, marshal,
unmarshal, run original and reloaded side by side; both observations are checked by TLC against
Lang.tla; the abstract code projections must be equal field by field; Marshal twice and
Marshal(Unmarshal(b)) must be byte-equal; unmarshalling marshalled data never fails or panics.
"""
import json

import vlib
import langlib


def strip(o):
    return {k: v for k, v in (o or {}).items() if k not in ("msg", "msgcps", "tree", "tree_full")}


def run(cx):
    cx.level = "translation_validation"
    lang = cx.go_build("lang")
    n = 2500 if cx.quick() else 50000
    sources = []
    p1 = cx.path("rand.ndjson")
    cx.run([lang, "gen", "-seed", str(cx.seed * 1000 + 17), "-n", str(n // 2), "-depth", "4", "-budget", "80", "-noobs", "-out", p1])
    sources.append(("random", p1))
    p2 = cx.path("closure.ndjson")
    cx.run([lang, "gen", "-seed", str(cx.seed * 1000 + 18), "-n", str(n // 2), "-depth", "4", "-budget", "80", "-closure", "-noobs", "-out", p2])
    sources.append(("closure-heavy", p2))
    asts = langlib.gen_family(cx, "closures", 3 if cx.quick() else 5)
    p3 = cx.path("closures.asts.ndjson")
    vlib.write_ndjson(p3, [{"id": i, "ast": a, "hoist": []} for i, a in enumerate(asts)])
    p3c = cx.path("closures.ndjson")
    cx.run([lang, "render", "-in", p3, "-out", p3c])
    sources.append(("closure-scenarios", p3c))

    # constant classes in every position and scaled shapes (Shapes.tla): original and reloaded compared with each other
    for fam in ("consts", "scale", "names"):
        _, sp = langlib.gen_shapes(cx, fam)
        sources.append(("shapes-" + fam, sp))

    # code compiled INCREMENTALLY (one compiler, many inputs, some of them refused by the compiler or failing at run
    # time - C18's histories): what the compiler holds after the last input must serialise, load and re-serialise
    pg = cx.path("pieces.ndjson")
    cx.run([lang, "pieces-gen", "-seed", str(cx.seed * 1000 + 17), "-n", str(400 if cx.quick() else 6000), "-depth", "3", "-out", pg], timeout=2400)
    nhist = 0
    for r in vlib.read_ndjson(pg):
        res = r["res"]
        if res.get("k") != "done":
            continue
        nhist += 1
        if res.get("marshal") not in ("ok", "n/a"):
            if len([1 for v in cx.violations]) < 8:
                cx.violation("incrementally compiled code does not survive the serialiser (%s): inputs=%s" % (
                    res.get("marshal"), json.dumps([p.get("src") for p in r["pieces"]])[:600]),
                    {"leg": "incremental", "pieces": [p.get("src") for p in r["pieces"]], "marshal": res.get("marshal")})
    cx.cover["incremental_histories_serialised"] = nhist

    programs = disagreements = unknown_total = 0
    nontriv = set()
    for label, path in sources:
        out = cx.path(label + ".rt.ndjson")
        cx.run([lang, "roundtrip", "-in", path, "-out", out], timeout=2400)
        rows = vlib.read_ndjson(out)
        check_rows = []
        ndead = 0
        for r in rows:
            res = r["res"]
            k = res.get("k")
            if k == "nocompile":
                continue
            programs += 1
            if k in ("unmarshalerr", "marshalerr", "gopanic", "crash"):
                cx.violation("%s: marshal/unmarshal of compiled code failed (%s: %s): src=%r" % (
                    label, k, str(res.get("msg", res.get("stderr", "")))[:200], r["src"][:300]),
                    {"leg": "load-" + label, "src": r["src"], "res": res})
                continue
            if k != "done":
                cx.notes.append("%s case %s: driver result %s" % (label, r["id"], k))
                ndead += 1
                continue
            s = json.dumps(r["ast"])
            if '"func"' in s or "func" in r["src"]:
                nontriv.add(r["src"])
            if not res["marshal_twice_same"]:
                cx.violation("%s: MarshalCode is not deterministic: src=%r" % (label, r["src"][:300]), {"leg": "bytes", "src": r["src"]})
            if not res["remarshal_same"]:
                cx.violation("%s: MarshalCode(UnmarshalCode(b)) differs from b: src=%r" % (label, r["src"][:300]), {"leg": "bytes", "src": r["src"]})
            if not res["proj_same"]:
                cx.violation("%s: abstract code projection changes across marshal/unmarshal: src=%r" % (label, r["src"][:300]),
                             {"leg": "projection", "src": r["src"]})
            if strip(res["orig"]) != strip(res["reloaded"]):
                # re-execute: a program whose ORIGINAL outcome varies from run to run is not evidence about the
                # serialised form (that is C05's subject); the disagreement must show again
                one = cx.path("re_%s_%s.ndjson" % (label, r["id"]))
                vlib.write_ndjson(one, [{k: v for k, v in r.items() if k != "res"}])
                one_out = cx.path("re_%s_%s.out.ndjson" % (label, r["id"]))
                cx.run([lang, "roundtrip", "-in", one, "-out", one_out], timeout=600)
                again = vlib.read_ndjson(one_out)[0]["res"]
                if again.get("k") == "done" and (strip(again["orig"]) != strip(res["orig"]) or strip(again["orig"]) == strip(again["reloaded"])):
                    cx.notes.append("%s case %s: original and reloaded run differed once, not again (original outcome stable: %s)" % (
                        label, r["id"], strip(again["orig"]) == strip(res["orig"])))
                    check_rows.append({"id": r["id"], "ast": r["ast"], "hoist": r.get("hoist", []), "obs": res["reloaded"]})
                    continue
                disagreements += 1
                cx.violation("%s: reloaded code behaves differently from the original: src=%r original=%s reloaded=%s" % (
                    label, r["src"][:300], json.dumps(strip(res["orig"]))[:250], json.dumps(strip(res["reloaded"]))[:250]),
                    {"leg": "behaviour", "src": r["src"], "orig": res["orig"], "reloaded": res["reloaded"]})
            check_rows.append({"id": r["id"], "ast": r["ast"], "hoist": r.get("hoist", []), "obs": res["reloaded"]})
        by_id = {r["id"]: r for r in rows}
        cx.alive(ndead, len(rows), "round trip of " + label)
        mism, unknown = langlib.tlc_conform(cx, check_rows, prefix="rt_" + label.replace("-", "_"))
        unknown_total += len(unknown)
        for i, specjs in mism[:100]:
            r = by_id[i]
            if strip(r["res"]["orig"]) != strip(r["res"]["reloaded"]):
                continue
            disagreements += 1
            cx.violation("%s: reloaded code (and the original) disagree with Lang.tla: src=%r observed=%s specified=%s" % (
                label, r["src"][:300], json.dumps(strip(r["res"]["reloaded"]))[:250], specjs[:250]),
                {"leg": "spec", "src": r["src"], "observed": r["res"]["reloaded"], "specified": specjs})
        cx.sample({"family": label, "src": rows[len(rows) // 2]["src"][:300]})
    cx.cover.update({
        "programs": programs, "disagreements_checked": disagreements, "evaluations": programs * 2,
        "distinct_nontrivial": len(nontriv), "skipped_unknown": unknown_total,
        "traces_validated_against_impl": programs,
        "rule": "random and closure-heavy programs of C01/C02's generators plus TLC-enumerated closure scenarios, constant classes in every "
                "constant position and scaled shapes (Shapes.tla: n siblings / constants / locals / globals / parameters / captured variables, nesting depth); each compiled, "
                "marshalled, unmarshalled, original and reloaded run side by side, reloaded outcome checked by TLC against Lang.tla; "
                "non-trivial = distinct source containing a function literal",
    })
    cx.assumptions += ["the abstract code projection (instructions, typed constants, names, globals/locals, function linkage) is computed by "
                       "harness/cmd/lang codeProj through the public accessors"]
