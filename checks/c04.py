"""C04 - statements are stack-neutral (DESIGN.md 5, C04).

M on artefacts: every code object the real compiler emits for the generated programs is
explored on ALL paths by TLC with the abstract token of Bytecode.tla (BytecodeMC).
V: the opcode effect table is validated against (ip, sp) pairs recorded from the real VM
(BytecodeTrace); scaled loops: same outcome for 10 and 100 x 1024 iterations.
"""
import json
import os
import re
import threading

import vlib
import langlib

# Loop templates for the scaled-iteration leg: @N@ is the bound; every body is
# iteration-independent, so outcome kinds at 10 and at 102400 iterations must agree.
SCALE_TEMPLATES = [
    "x := 0\nfor i := 0; i < @N@; i++ { x += 1 }\nx",
    "x := 0\nfor i := 0; i < @N@; i++ { switch i % 3 { case 0: x += 1\n case 1: continue\n default: x += 2 } }\nx >= 0",
    "x := 0\nfor i := 0; i < @N@; i++ { switch i % 2 { case 5: break\n default: x++ }; x++ }\nx >= 0",
    "x := 0\nfor i := range @N@ { if i % 2 == 0 { continue }\n x++ }\nx >= 0",
    "x := 0\nfor i := range @N@ { switch i % 4 { case 1: continue\n case 2: x += 2 }\n x++ }\nx >= 0",
    "x := 0\nfor _, v := range [1, 2, 3] { for j := 0; j < @N@; j++ { if j == 7 { continue }\n x += v } }\nx >= 0",
    "x := 0\nfor i := 0; i < @N@; i++ { func g() { 1 }\n x += g() }\nx >= 0",
    "x := 0\nfor i := 0; i < @N@; i++ { f := func(a, b=2) { return a + b }\n x = f(1) }\nx",
    "x := 0\nfor i := 0; i < @N@; i++ { y := if i % 2 == 0 { 1 } else { 2 }\n x = y }\nx",
    "x := 0\nfor i := 0; i < @N@; i++ { y := i % 2 == 0 ? 1 : 2\n x = y }\nx",
    "x := 0\nfor i := 0; i < @N@; i++ { [1, 2, 3][1]\n {\"a\": 1}\n \"s\"\n x = 1 }\nx",
    "x := 0\nn := 0\nfor n < @N@ { n++\n if n % 5 == 0 { continue }\n x = n % 7 }\nx >= 0",
    "x := 0\nn := 0\nfor { n++\n if n > @N@ { break }\n x = 1 }\nx",
    "x := 0\nfor i := 0; i < @N@; i++ { try(func() { error(\"e\") }, func(e) { 1 })\n x = 2 }\nx",
    "x := 0\nfor i := 0; i < @N@; i++ { x = [1, 2].map(func(v) { v * 2 })[0] }\nx",
    "x := 0\nfor i := 0; i < @N@; i++ { a, b := [i, 1]\n x = b }\nx",
    "x := 0\nfor i := 0; i < @N@; i++ { x = 1 | func(v) { v + 1 } }\nx",
    "x := 0\nfor i := 0; i < @N@; i++ { for j in [1, 2] { if j == 1 { break } }\n x = 3 }\nx",
    "x := 0\nm := {\"a\": 1}\nfor i := 0; i < @N@; i++ { for k, v := range m { switch v { case 1: break } }\n x = 4 }\nx",
    "x := 0\nfor i := 0; i < @N@; i++ { s := 'a{i % 2}b'\n x = len(s) }\nx",
    "x := 0\nfor i := 0; i < @N@; i++ { func() { defer func() { 1 }()\n return 2 }()\n x = 5 }\nx",
    "x := 0\nfor i := 0; i < @N@; i++ { x = (i % 2 == 0 && 3) || 4 }\nx > 0",
    # loops over an ITERATOR value (iter(..), a range expression kept in a variable), ended normally / by break / continue
    "x := 0\nfor i := 0; i < @N@; i++ { it := iter([1, 2])\n for _, v := range it { x = v } }\nx",
    "x := 0\nfor i := 0; i < @N@; i++ { r := range [1, 2, 3]\n for j, v := range r { if j == 1 { break }\n x = v } }\nx",
    "x := 0\nfor i := 0; i < @N@; i++ { it := iter({\"a\": 1, \"b\": 2})\n for k in it { if k == \"a\" { continue }\n x = 2 } }\nx",
    "x := 0\nfor i := 0; i < @N@; i++ { m := {\"k\": 1}\n m[\"k\"] += 1\n m.k = 3\n x = m.k }\nx",
    "x := 0\nfor i := 0; i < @N@; i++ { if i % 3 == 0 { x = 1 } else if i % 3 == 1 { x = 2 } else { x = 3 } }\nx > 0",
    "x := 0\ni := 0\nfunc step() { i += 1\n return i }\nfor j := 0; i < @N@; step() { x = 1 }\nx",
    "x := 0\ni := 0\nfunc step() { i += 1\n return i }\nfor j := 0; i < @N@; step() { if i % 2 == 0 { continue }\n x = 1 }\nx",
    "x := 0\nfor i := 0; i < @N@; i += 1 { a, b := [i, 2]\n x = b }\nx",
    "x := 0\nfor i := 0; i < @N@; i++ { try(func() { a, b := [1, 2, 3]\n x = 9 })\n x = 2 }\nx",
    "x := 0\nfor i := 0; i < @N@; i++ { try(func() { error(\"e\") })\n x = 2 }\nx",
    "x := 0\nc := chan(1)\nfor i := 0; i < @N@; i++ { c <- i\n x = <-c }\nx >= 0",
    "x := 0\nfor i := 0; i < @N@; i++ { x = [1, 2, 3][1:][0] + len(\"ab\"[0:1]) }\nx",
    "x := 0\nfor i := 0; i < @N@; i++ { l := [i]\n l[0] += 1\n l[0] = l[0] + 1\n x = 1 in l ? 1 : 2 }\nx > 0",
]


def parallel_tlc(cx, spec, envkey, paths, prefix):
    results = [None] * len(paths)
    errors = []

    def work(k):
        try:
            results[k] = cx.tlc(spec, env={envkey: paths[k]}, workers=1, name="%s_%d" % (prefix, k), heap="3g")
        except Exception as e:  # noqa
            errors.append(e)
    ths = [threading.Thread(target=work, args=(k,)) for k in range(len(paths))]
    for t in ths:
        t.start()
    for t in ths:
        t.join()
    if errors:
        raise errors[0]
    for r in results:
        cx.tlc_must_pass(r, spec)
    return results


def run(cx):
    cx.level = "model_checking"
    lang = cx.go_build("lang")
    bc = cx.go_build("bytecode")
    n = 3000 if cx.quick() else 60000
    nsh = min(vlib.NCPU, 12)

    # ---- programs (same generator as C01; observations not needed here)
    cases_path = cx.path("progs.ndjson")
    cx.run([lang, "gen", "-seed", str(cx.seed * 1000 + 4), "-n", str(n), "-depth", "4", "-budget", "80",
            "-noobs", "-out", cases_path])
    cases = vlib.read_ndjson(cases_path)
    by_id = {c["id"]: c for c in cases}

    # ---- M on artefacts: all paths of every emitted code object
    codes_path = cx.path("codes.ndjson")
    cx.run([bc, "codes", "-in", cases_path, "-out", codes_path])
    rows = []
    ncompiled = 0
    for r in vlib.read_ndjson(codes_path):
        if r["res"]["k"] != "ok":
            continue
        ncompiled += 1
        for c in r["res"]["codes"]:
            rows.append({"pid": r["id"], "cid": c["id"], "root": c["root"], "ins": c["ins"]})
    paths = langlib.shard_cases(cx, rows, nsh, "codes")
    results = parallel_tlc(cx, "BytecodeMC", "VERIF_CODES", paths, "mc")
    leaks = {}
    for r in results:
        for ln in r.lines:
            m = re.match(r'^<<"LEAK", (\d+), "([^"]*)", "([^"]*)", (-?\d+), (-?\d+)>>$', ln.strip())
            if m:
                leaks.setdefault(int(m.group(1)), []).append((m.group(2), m.group(3), int(m.group(4)), int(m.group(5))))
    cx.log("static: %d programs compiled, %d code objects, %d programs flagged" % (ncompiled, len(rows), len(leaks)))

    # ---- V: effect table against recorded VM steps
    steps_path = cx.path("steps.ndjson")
    sub = cases[: (600 if cx.quick() else 6000)]
    # plus every control skeleton of Grammar.tla (returns / breaks / continues from inside nested loops and switches,
    # also inside called functions and callbacks): the effect table must hold on each of their executed steps
    skel_asts = langlib.gen_family(cx, "skeletons", 3)
    sk_in = cx.path("skel.asts.ndjson")
    vlib.write_ndjson(sk_in, [{"id": 1000000 + i, "ast": a, "hoist": []} for i, a in enumerate(skel_asts)])
    sk_out = cx.path("skel.cases.ndjson")
    cx.run([lang, "render", "-in", sk_in, "-out", sk_out, "-noobs"])
    skel_cases = vlib.read_ndjson(sk_out)
    for c in skel_cases:
        by_id[c["id"]] = c
    # scaled shapes of Shapes.tla: n sibling functions / blocks / closures / constants / locals / cases, long jumps, deep nesting
    sh_rows, _ = langlib.gen_shapes(cx, "scale")
    shape_cases = [{"id": 2000000 + c["id"], "src": c["src"], "ast": c["ast"]} for c in sh_rows
                   if not cx.quick() or len(c["src"]) < 4000]
    sh_path = cx.path("shapes.cases.ndjson")
    vlib.write_ndjson(sh_path, shape_cases)
    for c in shape_cases:
        by_id[c["id"]] = c

    def add_family(fam_cases, fam_path, tag):
        """The family's code objects go through the all-paths exploration, its executions through the step check."""
        nonlocal ncompiled, rows, sub
        sub = sub + [{"id": c["id"], "src": c["src"]} for c in fam_cases]
        fc = cx.path(tag + ".codes.ndjson")
        cx.run([bc, "codes", "-in", fam_path, "-out", fc])
        frows = []
        for r in vlib.read_ndjson(fc):
            if r["res"]["k"] == "ok":
                ncompiled += 1
                for c in r["res"]["codes"]:
                    frows.append({"pid": r["id"], "cid": c["id"], "root": c["root"], "ins": c["ins"]})
        rows += frows
        for r in parallel_tlc(cx, "BytecodeMC", "VERIF_CODES", langlib.shard_cases(cx, frows, nsh, tag + "codes"), tag + "mc"):
            for ln in r.lines:
                m = re.match(r'^<<"LEAK", (\d+), "([^"]*)", "([^"]*)", (-?\d+), (-?\d+)>>$', ln.strip())
                if m:
                    leaks.setdefault(int(m.group(1)), []).append((m.group(2), m.group(3), int(m.group(4)), int(m.group(5))))
        return len(frows)

    add_family(skel_cases, sk_out, "sk")
    # a STATEMENT where a call argument is expected (it pushes nothing): refused by the compiler, or compiled into
    # code that is balanced on every path like any other
    stm_srcs = [
        "x := 0\nf := func(a) {\nreturn a\n}\nf(x = 2)", "x := 0\nf := func(a) {\nreturn a\n}\nfor i := range 3 {\nf(x = i)\n}\n1",
        "l := []\nx := 1\nl.append(x = 2)\nl", "f := func(a) {\nreturn a\n}\nf(for i := range 2 {\n})\n1", "f := func(a) {\nreturn a\n}\nf(import ma)\n1",
        "x := 1\nf := func(a) {\nreturn a\n}\nx | f(x = 2)", "x := 1\nf := func(a, b) {\nreturn a\n}\nf(1, x += 2)",
        "x := 1\nf := func(a) {\nreturn a\n}\ngo f(x = 2)\n1", "m := {}\nf := func(a) {\nreturn a\n}\nf(m.a = 1)",
        # a call whose result is a Go nil (a hoisted function read before its definition ran): still ONE value
        "func g() {\nreturn h\n}\nn := 0\nfor i := range 3 {\ng()\nn++\n}\nfunc h() {\nreturn 1\n}\nn",
        "func g() {\nreturn h\n}\nx := [1, g(), 3]\nfunc h() {\nreturn 1\n}\nlen(x)",
    ]
    stm_cases = [{"id": 5000000 + k_, "src": t} for k_, t in enumerate(stm_srcs)]
    stm_path = cx.path("stm.cases.ndjson")
    vlib.write_ndjson(stm_path, stm_cases)
    for c in stm_cases:
        by_id[c["id"]] = c
    add_family(stm_cases, stm_path, "stm")
    cx.cover["scaled_shape_code_objects"] = add_family(shape_cases, sh_path, "shp")
    # programs that import file modules (whose last statement is an expression, a function definition, a
    # declaration): an import is stack-neutral wherever it stands - at top level, in a loop body, in a function, in a
    # block that is an operand
    moddir = cx.path("mods")
    os.makedirs(moddir, exist_ok=True)
    for name, text in (("ma", "v := 7\nfunc f(x) {\nreturn x + v\n}\n"), ("mb", "w := 3\nw * 2\n"), ("mc", "func g() {\nreturn 1\n}\nu := g()\n")):
        with open(os.path.join(moddir, name + ".risor"), "w") as fh:
            fh.write(text)
    imp_srcs = [
        "import ma\nma.f(1)", "import mb\nmb.w", "import mc\nmc.u", "from ma import f\nf(2)", "import ma as q\nq.v",
        "for i := range 3 {\nimport ma\nma.f(i)\n}\n1", "for i := range 2 {\nimport mb\nimport mc\nmb.w + mc.u\n}\n1",
        "for x in [1, 2] {\nfrom ma import f\nf(x)\n}\n1",
        "func h() {\nimport mb\nreturn mb.w\n}\nh() + h()", "y := [1, if true {\nimport mb\nmb.w\n}, 3]\ny",
        "z := 1 + func() {\nimport ma\nimport mc\nreturn ma.v + mc.u\n}()\nz",
        "switch 1 {\ncase 1:\nimport ma\nma.v\n}", "import ma\nimport mb\nimport mc\nimport ma\n[ma.v, mb.w, mc.u]",
    ]
    imp_cases = [{"id": 4000000 + k_, "src": t} for k_, t in enumerate(imp_srcs)]
    for c in imp_cases:
        by_id[c["id"]] = c
    sub_path = cx.path("sub.ndjson")
    vlib.write_ndjson(sub_path, sub + imp_cases)
    cx.run([bc, "steps", "-in", sub_path, "-out", steps_path, "-max", "1500", "-moddir", moddir])
    srows = []
    opcodes_seen = set()
    nsteps = 0
    for r in vlib.read_ndjson(steps_path):
        res = r["res"]
        if res["k"] not in ("ok", "raise"):
            continue
        for s in res["steps"] or []:
            opcodes_seen.add(s[2])
        nsteps += len(res["steps"] or [])
        srows.append({"id": r["id"], "k": res["k"], "steps": res["steps"] or [], "final_sp": res["final_sp"],
                      "again_sp": res.get("again_sp", -9), "truncated": res["truncated"]})
    spaths = langlib.shard_cases(cx, srows, nsh, "steps")
    sresults = parallel_tlc(cx, "BytecodeTrace", "VERIF_STEPS", spaths, "trace")
    badsteps = {}
    for r in sresults:
        for ln in r.lines:
            m = re.match(r'^<<"BADSTEP", (\d+), "([^"]*)", (\d+)>>$', ln.strip())
            if m:
                badsteps.setdefault(int(m.group(1)), []).append((m.group(2), "step %s" % m.group(3)))
    cx.log("dynamic: %d programs, %d steps, %d opcodes exercised, %d programs with bad steps" % (
        len(srows), nsteps, len(opcodes_seen), len(badsteps)))

    # ---- V2: value level - what each executed instruction did to the operand stack, the locals and the globals
    # (BytecodeValues.tla).  Programs without concurrency and imports; 400 steps of each.
    vsub = [c for c in cases[: (500 if cx.quick() else 5000)]] + [{"id": c["id"], "src": c["src"]} for c in skel_cases]
    upd_cases, _ = langlib.run_family(cx, lang, "updates", 0)
    clo_cases, _ = langlib.run_family(cx, lang, "blockclosures", 0)
    for k_, c in enumerate(upd_cases + clo_cases):
        vsub.append({"id": 3000000 + k_, "src": c["src"]})
        by_id[3000000 + k_] = c
    vsub = [c for c in vsub if not any(w in c["src"] for w in ("spawn", "import", "go ", "chan("))]
    vin = cx.path("vsub.ndjson")
    vlib.write_ndjson(vin, [{"id": c["id"], "src": c["src"]} for c in vsub])
    vout = cx.path("vsteps.ndjson")
    cx.run([bc, "steps", "-in", vin, "-out", vout, "-max", "400", "-values"])
    vrows = []
    nvsteps = 0
    for r in vlib.read_ndjson(vout):
        res = r["res"]
        if res["k"] in ("ok", "raise") and res["steps"]:
            vrows.append({"id": r["id"], "steps": res["steps"]})
            nvsteps += len(res["steps"])
    vresults = parallel_tlc(cx, "BytecodeValues", "VERIF_VSTEPS", langlib.shard_cases(cx, vrows, nsh, "vsteps"), "values")
    badvalues = {}
    for r in vresults:
        for ln in r.lines:
            m = re.match(r'^<<"BADVALUE", (\d+), (\d+), \{(.*)\}>>$', ln.strip())
            if m:
                badvalues.setdefault(int(m.group(1)), []).append((m.group(3).replace('"', ''), "step %s" % m.group(2)))
    cx.log("value level: %d programs, %d steps, %d programs with unexplained steps" % (len(vrows), nvsteps, len(badvalues)))
    cx.cover["value_level_steps_validated"] = nvsteps
    cx.cover["value_level_programs"] = len(vrows)
    vsteps_by_id = {r["id"]: r["steps"] for r in vrows}
    nrep = 0
    for pid, items in sorted(badvalues.items()):
        kind, where = items[0]
        if nrep < 10:
            k_ = int(where.split()[1])
            st = vsteps_by_id[pid]
            cx.violation("VM instruction contradicts the value-level rules (%s): src=%r at %s: %s" % (
                kind, by_id[pid]["src"][:300], where, json.dumps(st[max(0, k_ - 3):k_])[:600]),
                {"leg": "values", "src": by_id[pid]["src"], "kind": kind, "at": where, "steps": st[max(0, k_ - 6):k_ + 1]})
        nrep += 1
    if nvsteps == 0:
        raise vlib.Inconclusive("the value-level leg recorded no steps")

    # ---- scaled loops
    scale_in = cx.path("scale_in.ndjson")
    big = 100 * 1024 if not cx.quick() else 20 * 1024
    vlib.write_ndjson(scale_in, [{"id": i, "src": t, "tmpl": t, "small": 10, "large": big}
                                 for i, t in enumerate(SCALE_TEMPLATES)])
    scale_out = cx.path("scale_out.ndjson")
    cx.run([bc, "scale", "-in", scale_in, "-out", scale_out], timeout=900)
    nscale = 0
    for r in vlib.read_ndjson(scale_out):
        res = r["res"]
        nscale += 1
        sm, lg = res.get("small", {}), res.get("large", {})
        if sm.get("k") != "ok":
            raise vlib.Inconclusive("scale template %d does not run at the small bound: %s" % (r["id"], sm))
        if lg.get("k") == "timeout":
            cx.notes.append("scale template %d timed out at the large bound (skipped)" % r["id"])
            continue
        if lg.get("k") != sm.get("k") or (lg.get("v") != sm.get("v") and "x >= 0" in r["tmpl"] + "x > 0"):
            pass
        if lg.get("k") != "ok":
            cx.violation("loop outcome changes with the iteration count alone: %r small=%s large=%s" % (
                r["tmpl"], json.dumps(sm)[:200], json.dumps(lg)[:200]),
                {"leg": "scale", "template": r["tmpl"], "small": sm, "large": lg})

    # ---- known findings: replay each pinned witness through the static leg
    for f in cx.known_findings():
        w = cx.path("witness.ndjson")
        vlib.write_ndjson(w, [{"id": 0, "src": f["witness"]["src"]}])
        wc = cx.path("witness_codes.ndjson")
        cx.run([bc, "codes", "-in", w, "-out", wc])
        wrows = []
        for r in vlib.read_ndjson(wc):
            if r["res"]["k"] == "ok":
                for c in r["res"]["codes"]:
                    wrows.append({"pid": 0, "cid": c["id"], "root": c["root"], "ins": c["ins"]})
        wp = langlib.shard_cases(cx, wrows, 1, "wcodes")
        wres = parallel_tlc(cx, "BytecodeMC", "VERIF_CODES", wp, "wmc")
        if any('"LEAK"' in ln for r in wres for ln in r.lines):
            cx.report_known(f)
        else:
            cx.notes.append("known finding %s: witness no longer fails" % f["id"])

    # an opcode the specification has no stack effect for is a gap of the specification, not a verdict on the code
    unknown_ops = [(pid, it) for pid, items in list(leaks.items()) + list(badsteps.items()) for it in items if "unknown-opcode" in it]
    if unknown_ops:
        raise vlib.Inconclusive("the compiler emits an opcode that Bytecode.tla does not know (effect table out of date): %s" % str(unknown_ops[:3])[:300])
    # ---- verdicts
    for pid, items in sorted(badsteps.items()):
        c = by_id[pid]
        cx.violation("VM step contradicts the stack discipline (%s): src=%r detail=%s" % (
            items[0][0], c["src"][:300], items[0][1]), {"leg": "steps", "src": c["src"], "bad": items[:5]})
    table_trusted = not badsteps
    for pid, items in sorted(leaks.items()):
        c = by_id[pid]
        kinds = sorted(set(k for _, k, _, _ in items))
        if not table_trusted:
            cx.notes.append("static finding on program %d not reported: effect table disagrees with the VM in this run" % pid)
            continue
        cx.violation("bytecode path leaves the operand stack unbalanced (%s) in code %s: src=%r" % (
            ",".join(kinds), items[0][0], c["src"][:400]),
            {"leg": "static", "src": c["src"], "findings": items[:8]})
    nontriv = sum(1 for r in rows if any(o in r["ins"] for o in (10, 12, 13, 90)))
    for c in cases[:3]:
        cx.sample({"src": c["src"][:300]})
    cx.cover.update({
        "programs": ncompiled,
        "evaluations": len(rows),
        "distinct_nontrivial": nontriv,
        "traces_validated_against_impl": len(srows),
        "vm_steps_validated": nsteps,
        "opcodes_exercised": sorted(opcodes_seen),
        "scaled_loop_templates": nscale,
        "scaled_loop_large_bound": big,
        "exhaustive": False,
        "rule": "random programs (generator of C01, depth 4) compiled by the real compiler; every emitted code object "
                "explored on all control-flow paths by TLC (BytecodeMC: one height per instruction, operands present, "
                "end height 1, jumps land on boundaries); non-trivial = code object containing a jump or ForIter; "
                "effect table validated against VerifStep traces (BytecodeTrace)",
    })
    cx.assumptions += [
        "the opcode effect table of Bytecode.tla is trusted only as far as BytecodeTrace validated it against the real VM in this run",
        "known finding C04-break-in-operand is quarantined in the generator (break/continue only at statement position)",
    ]
