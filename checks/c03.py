"""C03 - no source text or script can crash or panic the embedding process (DESIGN.md 5, C03).

Robust.tla: an API call is Call -> Return(value | error) and nothing else.  Inputs come from the other
specifications: character-class strings (Lexer.tla's alphabet, extended), token soup over the grammar's
vocabulary, single-token mutations of generated programs, scripts that build cyclic / deeply nested data and
apply every recursive operation, unbounded recursion and deep nesting.  Every input runs in an isolated
worker process (parse -> compile -> Eval -> error formatting); the recorded call/return events are validated
by TLC against the lifecycle (TraceRobust.tla).  Level: exploration.
"""
import json
import re

import vlib
import langlib


def run(cx):
    cx.level = "exploration"
    rb = cx.go_build("robust")
    # leg M: the lifecycle spec itself (safety + every call returns under fairness)
    r = cx.tlc("Robust", workers=2, name="robust_mc")
    cx.tlc_must_pass(r, "Robust")
    q = cx.quick()
    plan = [("soup", 6000 if q else 300000), ("chars", 4000 if q else 200000), ("mutants", 6000 if q else 300000),
            ("cyclic", 0), ("deep", 0), ("contexts", 0), ("illformed", 0), ("breaks", 0)]
    known = {f["id"]: f for f in cx.known_findings()}
    total = 0
    by_kind = {}
    nontriv = set()
    bad_total = 0
    for kind, n in plan:
        inp = cx.path(kind + ".in.ndjson")
        cx.run([rb, "gen", "-kind", kind, "-seed", str(cx.seed * 100 + len(kind)), "-n", str(n), "-out", inp])
        out = cx.path(kind + ".out.ndjson")
        cx.run([rb, "run", "-in", inp, "-out", out, "-ms", "1500"], timeout=3000)
        ins = {r_["id"]: r_ for r_ in vlib.read_ndjson(inp)}
        rows = vlib.read_ndjson(out)
        total += len(rows)
        cases = [{"id": r_["id"], "events": r_["events"]} for r_ in rows]
        langlib.tlc_conform(cx, cases, spec="TraceRobust", prefix="tr_" + kind, strip=(), nshards=8)
        bad = []
        import os
        for d in sorted(x for x in os.listdir(cx.work) if x.startswith("tlc_tr_" + kind + "_")):
            for ln in open(cx.path(d, "tlc.out")):
                m = re.match(r'^<<"BAD", (\d+), "(\w+)", "([\w-]+)">>$', ln.strip())
                if m:
                    bad.append((int(m.group(1)), m.group(3)))
        detail = {r_["id"]: r_["detail"] for r_ in rows}
        counts = {}
        for r_ in rows:
            counts[r_["detail"].get("k")] = counts.get(r_["detail"].get("k"), 0) + 1
            if r_["detail"].get("k") in ("value", "error") and len(ins[r_["id"]]["src"]) > 3:
                nontriv.add(ins[r_["id"]]["src"])
        by_kind[kind] = counts
        # re-execute every rejected case alone before judging it
        again = {}
        # inputs that did not answer are not re-run in full (see the parse-only step below)
        for i, _ in bad:
            if detail[i].get("k") == "hang":
                again[i] = {"k": "hang"}
        rerun = [(i, r2) for i, r2 in bad[:300] if detail[i].get("k") != "hang"]
        if rerun:
            rein = cx.path(kind + ".re.ndjson")
            vlib.write_ndjson(rein, [ins[i] for i, _ in rerun])
            reout = cx.path(kind + ".re.out.ndjson")
            cx.run([rb, "run", "-in", rein, "-out", reout, "-ms", "6000"], timeout=3000)
            again.update({r_["id"]: r_["detail"] for r_ in vlib.read_ndjson(reout)})
        reported = set()
        hangs = []
        for i, ret in bad[:300]:
            a = again.get(i, {})
            src = ins[i]["src"]
            if a.get("k") in ("value", "error"):
                cx.notes.append("%s case %d: %s not reproduced on re-execution" % (kind, i, ret))
                continue
            if a.get("k") in ("hang", "nostart", "badresp"):
                if a.get("k") == "hang" and kind != "deep" and len(src) < 5000:
                    hangs.append(ins[i])
                else:
                    cx.notes.append("%s case %d: no answer within the time limit (%s): %r" % (kind, i, a.get("k"), src[:80]))
                continue
            stderr = a.get("stderr", "")
            f = known.get("cyclic-container-recursion")
            if f and kind == "cyclic" and a.get("k") == "crash" and "stack exceeds" in stderr and is_known_cyclic(src, f):
                cx.report_known(f)
                continue
            f2 = known.get("builtin-self-recursion")
            if f2 and a.get("k") == "crash" and "stack exceeds" in stderr and src.strip() in [w.strip() for w in f2["witness"]["srcs"]]:
                cx.report_known(f2)
                continue
            bad_total += 1
            sig = (a.get("k"), a.get("stage"), re.sub(r"0x[0-9a-f]+|\d+", "N", (a.get("msg") or stderr)[:80]))
            if sig in reported:
                continue
            reported.add(sig)
            what = "a Go panic reached the caller" if a.get("k") == "panic" else "the process died"
            cx.violation("%s (%s input, stage %s): %s; source=%r" % (
                what, kind, a.get("stage"), (a.get("msg") or stderr)[:200].replace("\n", " "), src[:300]),
                {"leg": kind, "src": src, "detail": a})
        # a small input on which parsing alone does not return is a call that never returns
        if hangs:
            hin = cx.path(kind + ".hang.ndjson")
            vlib.write_ndjson(hin, hangs[:20])
            hout = cx.path(kind + ".hang.out.ndjson")
            cx.run([rb, "run", "-in", hin, "-out", hout, "-ms", "1500", "-parseonly"], timeout=3000)
            for r_ in vlib.read_ndjson(hout):
                src = ins[r_["id"]]["src"]
                if r_["detail"].get("k") == "hang":
                    bad_total += 1
                    if "parse-hang" not in reported:
                        reported.add("parse-hang")
                        cx.violation("parser.Parse does not return on a %d-character input (%s): source=%r" % (len(src), kind, src[:300]),
                                     {"leg": kind, "src": src, "detail": "parse-only call exceeded 50 s"})
                else:
                    cx.notes.append("%s case %d: evaluation did not answer within the time limit, parsing alone returns: %r" % (kind, r_["id"], src[:80]))
        cx.sample({"kind": kind, "src": rows[len(rows) // 2] and ins[rows[len(rows) // 2]["id"]]["src"][:120], "outcomes": counts})
    cx.cover.update({
        "evaluations": total, "distinct_nontrivial": len(nontriv), "traces_validated_against_impl": total,
        "outcomes_by_family": by_kind, "rejected_by_lifecycle_after_reexecution": bad_total,
        "rule": "inputs: all token sequences of length <= 2 over an 80-token vocabulary + random longer soup; all strings of length <= 2 "
                "(quick) / 3 (thorough) over a 34-character alphabet incl. NUL, non-ASCII and escapes + random longer ones; single-token "
                "mutations of generated programs; 6 cyclic / deeply nested data setups x 38 recursive operations; 17 deep-nesting and "
                "unbounded-recursion shapes x 3 depths; non-trivial = distinct source longer than 3 characters that returned normally",
    })
    cx.assumptions += ["explicit exit / exec / network builtins are denied in the evaluated configuration (the property exempts them)",
                       "an input that does not answer within the time limit is noted, not judged (quadratic parse time on megabyte inputs)",
                       "known finding cyclic-container-recursion is classified by its signature (self-containing container + recursive operation + stack exhaustion)"]


def is_known_cyclic(src, f):
    """The known finding names the operations that recurse without end on self-containing data; any other
    operation that kills the process on such data is a new violation."""
    return is_cyclic_script(src) and any(src.rstrip().endswith("\n" + o) for o in f["witness"].get("ops", []))


def is_cyclic_script(src):
    return ".append(l)" in src or 'm["m"] = m' in src or ".append(m)" in src or ".append(k)" in src
