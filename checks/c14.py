"""C14 - imports stay inside the import root, run once, keep their own globals (DESIGN.md 5, C14).

M  specs/ImportsMC.tla: TLC builds every world (main program + module files, <= 4 module files,
   shared variable names, transitive / repeated / cyclic / failing imports, every spelling) within
   the bounds while it runs it on the import machine of specs/Imports.tla and checks in every
   intermediate state: run-once, no re-entry, all aliases denote the cached instance, own cells,
   every opened file under the root.  specs/ImportsPaths.tla: over all path texts (segment
   alphabet {"", ".", "..", a, b, "..a", "a.."} + special strings) the validator of the design
   implies confinement and a canonical module name.
G  every finished world and every text x spelling x escape encoding is emitted by TLC,
   materialised by harness/cmd/imports (real files with sentinel modules OUTSIDE the root, and
   a permissive recording fs.FS), evaluated with risor.WithLocalImporter, with an FSImporter and a
   second time with the same FSImporter; specs/ImportsCheck.tla re-evaluates the world and
   compares status, the log of tick / bump / emit host calls, sentinel hits and opened names.
V  random larger worlds (TLC -simulate, seeded) and random long path texts (seeded) through the
   same driver and ImportsCheck.
"""
import json
import os
import random
import re
import threading

import vlib

INVARIANTS = ["InvRunOnce", "InvNoReentry", "InvSameState", "InvConfined", "InvNoOutsideRun", "Emit"]
CASE_RE = re.compile(r'^<<"(CASE|PATH)", "(.*)">>$')


def mc_cfg(lm, lb, mb, style, withc):
    return ("INIT Init\nNEXT Next\nCONSTANTS\n LM = %d\n LB = %d\n MB = %d\n STYLE = \"%s\"\n WITHC = %s\n EMIT = TRUE\n"
            % (lm, lb, mb, style, "TRUE" if withc else "FALSE")
            + "".join("INVARIANT %s\n" % i for i in INVARIANTS)
            + "PROPERTY OwnCells\nPROPERTY MainX\nCHECK_DEADLOCK FALSE\n")


def paths_cfg(maxseg, encs):
    return ("INIT Init\nNEXT Next\nCONSTANTS\n MAXSEG = %d\n ENCS = {%s}\n EMIT = TRUE\n" % (
        maxseg, ", ".join('"%s"' % e for e in encs))
        + "INVARIANT AcceptedIsConfined\nINVARIANT EscapingIsRejected\nINVARIANT Emit\nCHECK_DEADLOCK FALSE\n")


def harvest(r, out, seen=None):
    """Move the CASE / PATH payloads of a TLC run into `out`; frees the captured output."""
    n = 0
    for ln in r.lines:
        m = CASE_RE.match(ln.strip())
        if not m:
            continue
        js = m.group(2).replace('\\"', '"').replace('\\\\', '\\')
        if seen is not None:
            if js in seen:
                continue
            seen.add(js)
        out.append(json.loads(js))
        n += 1
    r.lines = []
    r.out = ""
    return n


# ---------------------------------------------------------------- random path texts (leg V)
ALPHABET = ["", ".", "..", "a", "b", "..a", "a..", "a/b", "_x", "...", " ", "\\", "..\\", "%2e%2e", "\u2025"]


def clean_of(text):
    """The module a rejected text would denote if it were accepted (second import of a path case)."""
    acc = []
    for seg in text.split("/"):
        if seg in ("", "."):
            continue
        if seg == "..":
            if not acc:
                return ""
            acc.pop()
        else:
            acc.append(seg)
    if acc and all(re.match(r"^[a-zA-Z_][a-zA-Z0-9_]*$", s) for s in acc):
        return "/".join(acc)
    return ""


def random_path_cases(rng, n, encs):
    out = []
    quoted = ["imp_q", "imp_q_as", "from_q", "from_q_grp"]
    for _ in range(n):
        k = rng.randint(1, 8)
        segs = [rng.choice(ALPHABET if rng.random() < 0.5 else ["a", "b", "..", "."]) for _ in range(k)]
        text = "/".join(segs)
        lead = rng.choice(["rel", "rel", "slash", "abs"])
        if lead != "rel":
            text = "/" + text
        if rng.random() < 0.2:
            text += "/"
        sp = rng.choice(quoted + ["imp_raw", "from_dot"])
        plain_only = sp not in quoted
        if plain_only and any(ch in text for ch in ' \\%\u2025'):
            sp = rng.choice(quoted)
            plain_only = False
        ident = re.match(r"^[a-zA-Z_][a-zA-Z0-9_]*(/[a-zA-Z_][a-zA-Z0-9_]*)*$", text) is not None
        out.append({"kind": "path", "text": [ord(c) for c in text], "abs": lead == "abs", "sp": sp,
                    "enc": "plain" if plain_only else rng.choice(encs),
                    "clean": [] if (ident or lead == "abs") else [ord(c) for c in clean_of(text)]})
    return out


# ---------------------------------------------------------------- conformance
def conform(cx, rows, prefix, nshards=None):
    """Run ImportsCheck over the rows; returns (mismatches, tolerated, unknown)."""
    nshards = max(1, min(nshards or min(vlib.NCPU, 12), len(rows)))
    paths = []
    for k in range(nshards):
        p = cx.path("%s.shard%d.ndjson" % (prefix, k))
        vlib.write_ndjson(p, rows[k::nshards])
        paths.append(p)
    results = [None] * nshards
    errors = []

    def work(k):
        try:
            results[k] = cx.tlc("ImportsCheck", env={"VERIF_CASES": paths[k]}, workers=1,
                                name="%s_%d" % (prefix, k), heap="3g", timeout=1500)
        except Exception as e:  # noqa
            errors.append(e)
    ths = [threading.Thread(target=work, args=(k,)) for k in range(nshards)]
    for t in ths:
        t.start()
    for t in ths:
        t.join()
    if errors:
        raise errors[0]
    mism, tol, unknown = [], [], []
    for r in results:
        cx.tlc_must_pass(r, "ImportsCheck")
        for ln in r.lines:
            ln = ln.strip()
            m = re.match(r'^<<"MISMATCH", (-?\d+), "(\w+)", "(\w+)", "(.*)">>$', ln)
            if m:
                js = m.group(4).replace('\\"', '"').replace('\\\\', '\\')
                mism.append((int(m.group(1)), m.group(2), m.group(3), json.loads(js)))
                continue
            m = re.match(r'^<<"TOLERATED", (-?\d+), "(\w+)">>$', ln)
            if m:
                tol.append((int(m.group(1)), m.group(2)))
                continue
            m = re.match(r'^<<"UNKNOWN", (-?\d+)>>$', ln)
            if m:
                unknown.append(int(m.group(1)))
                continue
            m = re.match(r'^<<"KNOWNCLONE", (-?\d+)>>$', ln)
            if m:
                # the real code agrees with the pinned model where the property's design differs (known finding)
                if not hasattr(cx, "known_clone"):
                    cx.known_clone = set()
                cx.known_clone.add((prefix, int(m.group(1))))
        r.lines = []
        r.out = ""
    for p in paths:
        os.remove(p)
    return mism, tol, unknown


def drive(cx, drv, cases, tag, src=False):
    """Evaluate the cases on the real pipeline; returns {id: obs}."""
    cin, cout = cx.path(tag + ".cases.ndjson"), cx.path(tag + ".obs.ndjson")
    vlib.write_ndjson(cin, cases)
    argv = [drv, "run", "-in", cin, "-out", cout, "-scratch", cx.path("tree_" + tag)]
    if src:
        argv.append("-src")
    cx.run(argv, timeout=1500)
    obs = {}
    for r in vlib.read_ndjson(cout):
        obs[r["id"]] = r["obs"]
    for p in (cin, cout):
        try:
            os.remove(p)
        except OSError:
            pass
    return obs


def slim(o):
    return {k: {f: v for f, v in o[k].items() if f not in ("cls", "msg")} for k in ("local", "fs", "again", "repl", "noimp", "reused") if k in o}


def text_of(c):
    return "".join(chr(x) for x in c["text"])


def nontrivial(c):
    if c["kind"] == "graph":
        return bool(c.get("nt"))
    t = text_of(c)
    return ".." in t or t.startswith("/") or c["abs"] or c["enc"] != "plain" or "\\" in t


def describe(c, which, kind, exp, o):
    what = {"escape": "code outside the import root was loaded or opened",
            "twice": "a module's top-level code ran more than once in one evaluation",
            "diverge": "observed evaluation differs from the specification"}[kind]
    if kind == "diverge":
        et = [e for e in exp["log"] if e["e"] == "tick"]
        ot = [e for e in o["log"] if e["e"] == "tick"]
        names = [tuple(e["m"]) for e in ot]
        if any(names.count(n) > 1 for n in names) and len(ot) > len(et):
            what = "a module's top-level code ran more than once in one evaluation"
        elif o["status"] == exp["status"] and ot == et:
            what = "values seen through the imported names differ (module state / own globals)"
    if c["kind"] == "path":
        subject = "import path text %r spelling=%s enc=%s abs=%s" % (text_of(c), c["sp"], c["enc"], c["abs"])
    else:
        subject = "module graph case"
    return "%s [%s importer]: %s; expected status=%s log=%s; observed status=%s log=%s outside=%s" % (
        what, which, subject, exp["status"], json.dumps(exp["log"])[:300], o["status"],
        json.dumps(o["log"])[:300], json.dumps(o["outside"])[:200])


def replay_one(cx, drv):
    """bin/check C14 --replay replays/C14-*.json: one recorded case through the driver and ImportsCheck."""
    c = dict(json.load(open(cx.replay))["case"]["case"])
    c["id"] = 0
    o = drive(cx, drv, [c], "replay", src=True)
    if "local" not in o.get(0, {}):
        raise vlib.Inconclusive("driver produced no observation: %s" % json.dumps(o.get(0))[:300])
    row = dict(c)
    row["obs"] = slim(o[0])
    mism, tol, unknown = conform(cx, [row], "replay", nshards=1)
    for i, which, kind, exp in mism[:1]:
        cx.violation(describe(c, which, kind, exp, o[0][which]),
                     {"case": c, "importer": which, "kind": kind, "expected": exp, "observed": o[0], "source": o[0].get("src")})
    cx.log("replay: %s" % ("still disagrees with the specification" if mism else "conforms"))
    cx.cover.update({"cases": 1, "evaluations": 3, "distinct_nontrivial": int(nontrivial(c)),
                     "traces_validated_against_impl": 1, "exhaustive": False,
                     "rule": "replay of one recorded case through harness/cmd/imports and specs/ImportsCheck.tla"})


def run(cx):
    cx.level = "model_checking"
    drv = cx.go_build("imports")
    quick = cx.quick()
    if cx.replay:
        return replay_one(cx, drv)
    rng = random.Random(cx.seed * 7919 + 14)
    workers = min(vlib.NCPU, 12)
    if quick:
        graph_cfgs = [("mainpairs", (2, 1, 0, "full", False)), ("deep", (1, 2, 2, "small", False)),
                      ("casepair", (2, 1, 0, "small", True))]
        maxseg, encs = 3, ["plain", "hexdots"]
        nsim, nrand = 150, 3000
        sim = (3, 2, 4, "full", True)
    else:
        graph_cfgs = [("mainpairs", (2, 1, 0, "full", False)), ("mainpairs_mod", (2, 1, 1, "small", False)),
                      ("deep", (1, 2, 3, "small", False)), ("four", (1, 1, 3, "small", True)),
                      ("maintriples", (3, 1, 0, "small", False))]
        maxseg, encs = 4, ["plain", "hexdots", "hexall", "unidots", "octall", "bigdots"]
        nsim, nrand = 2500, 30000
        sim = (4, 3, 6, "full", True)

    st = {"next_id": 0, "cases": 0, "nontrivial": 0, "tolerated": [], "unknown": 0, "samples_g": [], "samples_p": [],
          "texts": set(), "selftested": False, "expected": {}, "unreproduced": 0, "overrejected": 0, "reported": {}}

    def process(cases, tag):
        """Evaluate one batch on the real pipeline, validate it with ImportsCheck, report disagreements."""
        for c in cases:
            c["id"] = st["next_id"]
            st["next_id"] += 1
        obs = drive(cx, drv, cases, tag)
        dead = [c for c in cases if "local" not in obs.get(c["id"], {})]
        if dead:
            raise vlib.Inconclusive("driver produced no observation for %d cases, e.g. %s" % (
                len(dead), json.dumps(obs.get(dead[0]["id"]))[:300]))
        rows = []
        for c in cases:
            row = dict(c)
            row["obs"] = slim(obs[c["id"]])
            rows.append(row)
        # negative self-test of the binding: corrupted observations must be rejected by the spec
        selftest = []
        if not st["selftested"]:
            for c in rows:
                if c["kind"] == "graph" and c.get("st") == "ok" and c["obs"]["local"]["log"]:
                    bad = json.loads(json.dumps(c))
                    bad["id"] = -1 - len(selftest)
                    if len(selftest) % 2 == 0:
                        bad["obs"]["local"]["log"][-1]["v"] += 1
                    else:
                        bad["obs"]["fs"]["log"].insert(0, bad["obs"]["fs"]["log"][0])
                    selftest.append(bad)
                    if len(selftest) == 4:
                        break
        mism, tol, unknown = conform(cx, rows + selftest, "conf_" + tag)
        if selftest:
            if len(set(i for i, _, _, _ in mism if i < 0)) != len(selftest):
                raise vlib.Inconclusive("self-test: ImportsCheck accepted a corrupted observation")
            st["selftested"] = True
        mism = [m for m in mism if m[0] >= 0]
        cx.log("%s: %d cases validated, %d mismatching evaluations, %d tolerated, %d unknown" % (
            tag, len(rows), len(mism), len(tol), len(unknown)))
        by_id = {c["id"]: c for c in cases}
        st["cases"] += len(cases)
        for c in cases:
            if c["kind"] == "graph":
                st["expected"][c.get("st", "?")] = st["expected"].get(c.get("st", "?"), 0) + 1
        st["nontrivial"] += sum(1 for c in cases if nontrivial(c))
        st["unknown"] += len(unknown)
        for i in sorted(set(i for i, _ in tol)):
            st["tolerated"].append(by_id[i])
        for c in cases:
            if c["kind"] == "graph" and c.get("nt") and c.get("st") == "ok" and len(st["samples_g"]) < 2 and c["id"] % 97 == 3:
                st["samples_g"].append(c)
            if c["kind"] == "path" and nontrivial(c) and len(st["samples_p"]) < 2 and c["id"] % 977 == 5:
                st["samples_p"].append(c)
        # re-execute every disagreement once before reporting it
        bad_ids = sorted(set(i for i, _, _, _ in mism))
        if not bad_ids:
            return
        sub = [by_id[i] for i in bad_ids[:300]]
        obs2 = drive(cx, drv, sub, "replay_" + tag, src=True)
        rows2 = []
        for c in sub:
            if "local" in obs2.get(c["id"], {}):
                row = dict(c)
                row["obs"] = slim(obs2[c["id"]])
                rows2.append(row)
        mism2, _, _ = conform(cx, rows2, "reconf_" + tag, nshards=4)
        confirmed = {}
        for i, which, kind, exp in mism2:
            confirmed.setdefault(i, (which, kind, exp))
        for c in sub:
            if c["id"] in confirmed:
                continue
            first = obs[c["id"]]
            if all(first[k]["status"] in ("ok", "err") for k in ("local", "fs", "again")):
                st["unreproduced"] += 1
                cx.notes.append("case %s: a disagreement of the first pass was not reproduced on re-execution" % c["id"])
            else:
                st["retried"] = st.get("retried", 0) + 1    # a timeout under load is not an observation
        for i, (which, kind, exp) in sorted(confirmed.items()):
            c, o = by_id[i], obs2[i][which]
            if kind == "diverge" and o["status"] == "err" and o.get("cls") == "parse" and not o["log"] and not o["outside"]:
                st["overrejected"] += 1      # the parser refused an import the design accepts: never unsafe
                continue
            desc = describe(c, which, kind, exp, o)
            key = "%s [%s importer, %s cases]" % (desc.split(" [")[0], which, c["kind"])
            st["reported"][key] = st["reported"].get(key, 0) + 1
            if st["reported"][key] <= 3:
                cx.violation(desc, {"case": c, "importer": which, "kind": kind, "expected": exp,
                                    "observed": obs2[i], "source": obs2[i].get("src")})

    pending = []

    def batches(cases, tag, size=100000, flush=False):
        """Collect cases and process them in batches (one batch in the quick tier: JVM starts dominate)."""
        pending.extend(cases)
        while len(pending) >= size or (flush and pending):
            part = pending[:size]
            del pending[:size]
            st["batch"] = st.get("batch", 0) + 1
            process(part, "b%d" % st["batch"])

    # ---- legs M + G, module graphs: exhaustive within each bound set
    mc_stats = {}
    n_graph_exh = 0
    for name, consts in graph_cfgs:
        cases = []
        r = cx.tlc("ImportsMC", cfg_text=mc_cfg(*consts), workers=workers, name="mc_" + name, timeout=1500, heap="4g")
        cx.tlc_must_pass(r, "ImportsMC " + name)
        n = harvest(r, cases)
        mc_stats[name] = {"bounds": dict(zip(("LM", "LB", "MB", "STYLE", "WITHC"), consts)), "states": r.distinct, "worlds": n}
        n_graph_exh += n
        batches(cases, name)

    # ---- legs M + G, path texts
    cases = []
    r = cx.tlc("ImportsPaths", cfg_text=paths_cfg(maxseg, encs), workers=workers, name="paths", timeout=1500, heap="4g")
    cx.tlc_must_pass(r, "ImportsPaths")
    n_path_exh = harvest(r, cases)
    texts = set((tuple(c["text"]), c["abs"]) for c in cases)
    cx.log("path texts: %d distinct texts, %d text x spelling x encoding cases" % (len(texts), n_path_exh))
    batches(cases, "paths")

    # ---- leg V: random larger worlds (TLC simulation of the same spec) and random long texts
    cases = []
    r = cx.tlc("ImportsMC", cfg_text=mc_cfg(*sim), workers=workers, name="sim", timeout=1500,
               simulate="num=%d" % nsim, depth=400)
    cx.tlc_must_pass(r, "ImportsMC simulation")
    n_sim = harvest(r, cases, set())
    cases += random_path_cases(rng, nrand, encs)
    batches(cases, "random", flush=True)

    for key, n in st["reported"].items():
        cx.log("violations: %d x %s" % (n, key))
    if st["overrejected"]:
        cx.notes.append("%d cases: an import the specification accepts was refused by the parser (tolerated)" % st["overrejected"])
        if st["overrejected"] * 2 > n_graph_exh:
            raise vlib.Inconclusive("the parser refuses most imports of the specification: the property cannot be exercised")
    if st.get("retried"):
        cx.notes.append("%d cases timed out in the first pass and conformed when re-executed" % st["retried"])
    if st["unreproduced"] > 3 and not cx.violations:   # up to three are noted (see the notes): disturbed from outside
        raise vlib.Inconclusive("%d disagreements were not reproduced on re-execution" % st["unreproduced"])

    # ---- known findings (none pinned for C14 at the moment): replay each witness world
    for f in cx.known_findings():
        w = dict(f["witness"])
        w["id"] = 0
        o = drive(cx, drv, [w], "witness")
        row = dict(w)
        row["obs"] = slim(o[0])
        before = len(getattr(cx, "known_clone", ()))
        wm, _, _ = conform(cx, [row], "wit", nshards=1)
        if wm or (f["id"] == "clone-imports-not-shared" and len(getattr(cx, "known_clone", ())) > before):
            cx.report_known(f)
        else:
            cx.notes.append("known finding %s: witness no longer fails" % f["id"])

    # ---- evidence
    tol_kinds = {}
    for c in st["tolerated"]:
        tol_kinds.setdefault((c["sp"], text_of(c)), 0)
        tol_kinds[(c["sp"], text_of(c))] += 1
    if tol_kinds:
        by_sp = {}
        for (sp, t), n in tol_kinds.items():
            by_sp.setdefault(sp, []).append(t)
        for sp, ts in sorted(by_sp.items()):
            cx.notes.append("tolerated (%s): %d texts the design rejects were accepted, stayed under the root and did not split "
                            "module state, e.g. %s" % (sp, len(ts), ", ".join(repr(t) for t in sorted(ts, key=len)[:6])))
    samples = st["samples_g"] + st["samples_p"]
    if samples:
        so = drive(cx, drv, samples, "samples", src=True)
        for c in samples:
            o = so[c["id"]]
            cx.sample({"source": o.get("src", "")[:400],
                       "files": {"/".join(m["name"]): len(m["body"]) for m in c["mods"]} if c["kind"] == "graph" else None,
                       "observed_local": {"status": o["local"]["status"], "log": o["local"]["log"][:12]}})
    cx.cover.update({
        "cases": st["cases"],
        "evaluations": 3 * st["cases"],
        "distinct_nontrivial": st["nontrivial"],
        "traces_validated_against_impl": st["cases"],
        "graph_worlds_exhaustive": n_graph_exh,
        "graph_bounds": mc_stats,
        "graph_expected_outcomes": st["expected"],
        "path_texts": len(texts),
        "path_cases_exhaustive": n_path_exh,
        "path_bounds": {"max_segments": maxseg, "encodings": encs},
        "simulated_worlds": n_sim,
        "random_path_cases": nrand,
        "tolerated_acceptances": len(st["tolerated"]),
        "unknown": st["unknown"],
        "exhaustive": True,
        "rule": "TLC enumerates (a) every world = main program of <= LM import statements (every spelling: identifier, quoted, "
                "aliased, inside a function body, from-import dotted/quoted/grouped, several items, one name under two aliases) over module files "
                "a, b, a/b (, c), a missing module zz and a file importing ../outside, each module body <= LB import statements "
                "(<= MB in total), closed by mutations and observations through every imported name; (b) every path text of "
                "<= max_segments segments over {'', '.', '..', a, b, '..a', 'a..'} x {relative, leading slash, absolute "
                "directory outside the root} x trailing slash, plus 37 special strings, x 6 spellings x escape encodings. "
                "Exhaustive within these bounds; plus seeded TLC simulation of larger worlds and seeded random long texts. "
                "Each case = 3 evaluations (local importer on real files with sentinels outside the root, FSImporter over a "
                "recording fs.FS, second evaluation with the same FSImporter). Non-trivial = a module imported >= 2 times or "
                "under >= 2 names, or a text with '..', a leading slash, an absolute path, a backslash or an escape encoding.",
    })
    cx.assumptions += [
        "module bodies consist of import statements, calls of the module's own functions and assignments to x; "
        "host builtins tick/bumped/emit/outside are the only observation channel",
        "symbolic links inside the import root and concurrent imports from cloned VMs are not modelled",
        "a failed module body may be evaluated again by a later import (it was never imported); the run-once invariant "
        "counts started runs <= 1 + failed runs and forbids re-entrant runs",
        "acceptance of a text the design rejects is tolerated (reported in notes) when nothing outside the root is opened "
        "and the module state is not split; rejection is always conforming",
    ]
