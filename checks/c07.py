"""C07 - runs on a reused VM are independent of earlier runs and their contexts (DESIGN.md 5, C07).

M: VMRun.tla (run / watcher / cancel lifecycle) checked by TLC: the repaired design satisfies NoCut and
   OwnContextOnly and the cancellation liveness properties; the pinned (Faithful) design must violate NoCut
   (non-vacuity).
G: VMRunHist.tla enumerates every history of invocations {RunCode, Call} x {normal, error, panic, overflow,
   cancelled} with late cancellations of earlier contexts; each is replayed on ONE real VM and every
   invocation's outcome must be the one its own kind determines.
V: the hook events (start, fire, halt_seen, stop) and the driver's cancel / return events of every replay are
   validated by TLC against VMRun's actions (TraceVMRun.tla).
"""
import json
import os
import re

import vlib
import langlib


def matches(obs, exp):
    if exp == "anyerror":
        return obs in ("error", "panic", "index error")
    return obs == exp


def stack_ok(results, rules, prev):
    """VMRunHist!StackAfter: the operand stack pointer after each invocation (prev: after loading the library)."""
    for j, (o, rule) in enumerate(zip(results, rules)):
        sp = o.get("sp")
        if sp is None:
            return None
        if (rule == "same" and sp != prev) or (rule == "result" and sp != 0) or sp not in (-1, 0):
            return j
        prev = sp
    return None


def run(cx):
    cx.level = "model_checking"
    drv = cx.go_build("vmrun")
    # ---- M
    r = cx.tlc("VMRun", workers=8, name="vmrun_mc", timeout=1800)
    cx.tlc_must_pass(r, "VMRun (repaired design)")
    rf = cx.tlc("VMRun", cfg="VMRunFaithful.cfg", workers=4, name="vmrun_faithful")
    if "NoCut" not in rf.invariant_violated:
        raise vlib.Inconclusive("the pinned design (Faithful = TRUE) no longer violates NoCut: the invariant would be vacuous")
    # the same invariants for ALL values of MaxRuns / Steps / MaxClones: inductive invariant checked by the proof system
    cx.cover["tlaps_obligations_proved"] = cx.tlapm("VMRunProof")
    # ---- G: enumerate histories
    maxlen = 3
    hists = []
    for fam, ml in (("base", maxlen), ("import", maxlen), ("risorcall", maxlen), ("defer", maxlen)):
        cfg = "CONSTANTS MaxLen = %d\n MaxLate = %d\n Family = \"%s\"\nINIT Init\nNEXT Next\nINVARIANT Emit\nCHECK_DEADLOCK FALSE\n" % (
            ml, 0 if fam == "risorcall" else (1 if cx.quick() else 2), fam)
        rh = cx.tlc("VMRunHist", cfg_text=cfg, workers=4, name="hist_gen_" + fam, timeout=1800, heap="6g")
        cx.tlc_must_pass(rh, "VMRunHist")
        hists += [json.loads(s) for s in rh.tuples("HIST")]
    cx.cover["import_histories"] = len([h for h in hists if any(v["kind"].startswith("imp") for v in h["inv"])])
    if not hists:
        raise vlib.Inconclusive("VMRunHist emitted no histories")
    if not cx.quick():
        # length 5 and 6 sampled (seeded)
        import random
        rnd = random.Random(cx.seed)
        kinds = ["normal", "error", "panic", "deeppanic", "overflow", "opoverflow", "cancelled", "impok", "imperr", "impcancel", "impmod"]
        for _ in range(8000):
            n = rnd.choice([4, 5, 6])
            inv, used = [], set()
            for i in range(1, n + 1):
                kind = rnd.choice(kinds)
                ctxk = rnd.choice(["cancel", "background"]) if kind in ("normal", "error", "impok", "imperr", "impmod") else "cancel"
                late = [c for c in range(1, i) if c not in used and inv[c - 1]["ctx"] == "cancel" and rnd.random() < 0.3]
                used.update(late)
                inv.append({"api": rnd.choice(["RunCode", "Call"]), "kind": kind, "ctx": ctxk, "late": late})
            exp = [{"normal": "value", "error": "index error", "panic": "panic", "deeppanic": "panic", "overflow": "anyerror", "opoverflow": "anyerror", "cancelled": "ctxerr",
                    "impok": "value", "imperr": "anyerror", "impcancel": "ctxerr", "impmod": "value"}[v["kind"]] for v in inv]
            hists.append({"inv": inv, "exp": exp, "stack": ["same" if v["api"] == "Call" else ("result" if e == "value" else "atmost") for v, e in zip(inv, exp)]})
    rows = [{"id": i, "inv": h["inv"], "exp": h["exp"], "stack": h["stack"]} for i, h in enumerate(hists)]
    hin = cx.path("hist.ndjson")
    vlib.write_ndjson(hin, rows)
    hout = cx.path("hist.out.ndjson")
    cx.run([drv, "hist", "-in", hin, "-out", hout], timeout=3000)
    outs = vlib.read_ndjson(hout)
    bad = []
    badstack = []
    traces = []
    ninv = 0
    nontriv = 0
    for r_ in outs:
        res = r_["res"]
        if res.get("k") != "ok":
            cx.notes.append("history %s: driver result %s" % (r_["id"], str(res)[:150]))
            continue
        late = any(v["late"] for v in r_["inv"])
        failed_before = any(v["kind"] != "normal" for v in r_["inv"][:-1])
        if late or failed_before:
            nontriv += 1
        for j, (o, e) in enumerate(zip(res["results"], r_["exp"])):
            ninv += 1
            if not matches(o["obs"], e):
                bad.append((r_["id"], j))
                break
        else:
            j = stack_ok(res["results"], r_.get("stack", []), res.get("sp0", -1))
            if j is not None:
                badstack.append((r_["id"], j))
        if not any(v["api"] == "RisorCall" for v in r_["inv"]):   # risor.Call is two VM runs: its hook events are not one per invocation
            traces.append({"id": r_["id"], "events": res["events"]})
    # a driver that cannot run the histories decides nothing: that is Inconclusive, never "ok"
    dead = sum(1 for r_ in outs if r_["res"].get("k") != "ok")
    if dead > max(3, len(outs) // 100) or len(outs) < len(rows):
        raise vlib.Inconclusive("the driver could not run %d of %d histories (%d results): %s" % (
            dead, len(rows), len(outs), next((str(r_["res"])[:200] for r_ in outs if r_["res"].get("k") != "ok"), "no output")))
    # re-execute disagreeing histories (schedule dependent: quorum of 3)
    by_id = {r_["id"]: r_ for r_ in outs}
    reported = 0
    if bad:
        ids = sorted(set(i for i, _ in bad))[:40]
        rein = cx.path("re.ndjson")
        vlib.write_ndjson(rein, [rows[i] for i in ids for _ in range(3)])
        reout = cx.path("re.out.ndjson")
        cx.run([drv, "hist", "-in", rein, "-out", reout, "-j", "4"], timeout=3000)
        again = {}
        for r_ in vlib.read_ndjson(reout):
            res = r_["res"]
            ok = res.get("k") == "ok" and all(matches(o["obs"], e) for o, e in zip(res["results"], r_["exp"]))
            again.setdefault(r_["id"], []).append(ok)
        for i, j in bad:
            if i not in again:
                continue
            fails = again[i].count(False)
            if fails == 0:
                cx.notes.append("history %d: disagreement not reproduced in 3 re-executions" % i)
                continue
            r_ = by_id[i]
            reported += 1
            if reported <= 10:
                cx.violation("invocation %d of a history on a reused VM ended as %r, its own kind determines %r (reproduced %d/3): history=%s observed=%s" % (
                    j + 1, r_["res"]["results"][j]["obs"], r_["exp"][j], fails, json.dumps(r_["inv"]), json.dumps([o["obs"] for o in r_["res"]["results"]])),
                    {"leg": "history", "history": r_["inv"], "expected": r_["exp"], "observed": r_["res"]["results"], "events": r_["res"]["events"]})
    # operand stack left behind by an invocation (deterministic: reported after one re-execution)
    if badstack:
        ids = sorted(set(i for i, _ in badstack))[:20]
        rein = cx.path("restack.ndjson")
        vlib.write_ndjson(rein, [rows[i] for i in ids])
        reout = cx.path("restack.out.ndjson")
        cx.run([drv, "hist", "-in", rein, "-out", reout, "-j", "4"], timeout=3000)
        for r_ in vlib.read_ndjson(reout):
            res = r_["res"]
            j = stack_ok(res["results"], r_["stack"], res.get("sp0", -1)) if res.get("k") == "ok" else None
            if j is None:
                cx.notes.append("history %d: operand stack disagreement not reproduced" % r_["id"])
                continue
            if reported < 10:
                cx.violation("invocation %d of a history on a reused VM left the operand stack pointer at %d (rule %r, before it: %s): history=%s" % (
                    j + 1, res["results"][j]["sp"], r_["stack"][j], [o["sp"] for o in res["results"][:j]], json.dumps(r_["inv"])),
                    {"leg": "stack", "history": r_["inv"], "rules": r_["stack"], "observed": res["results"]})
            reported += 1
    # ---- V: trace validation
    langlib.tlc_conform(cx, traces, spec="TraceVMRun", prefix="trace", strip=(), nshards=8)
    rejected = []
    for d in sorted(x for x in os.listdir(cx.work) if x.startswith("tlc_trace_")):
        for ln in open(cx.path(d, "tlc.out")):
            m = re.match(r'^<<"(REJECTED|CUT)", (\d+)(?:, (\d+), "(\w+)")?>>$', ln.strip())
            if m:
                rejected.append((int(m.group(2)), m.group(1), m.group(3), m.group(4)))
    seen = set()
    for i, why, pos, ev in rejected:
        if i in seen:
            continue
        seen.add(i)
        r_ = by_id[i]
        # a rejected trace is positive evidence only together with a wrong outcome; otherwise the spec or the
        # hook placement is suspected and the run is inconclusive
        wrong = not all(matches(o["obs"], e) for o, e in zip(r_["res"]["results"], r_["exp"]))
        if wrong:
            if len([1 for v in cx.violations]) < 12:
                cx.violation("recorded execution is not a behaviour of VMRun (%s at event %s %s): history=%s events=%s" % (
                    why, pos, ev, json.dumps(r_["inv"]), json.dumps(r_["res"]["events"])[:400]),
                    {"leg": "trace", "history": r_["inv"], "events": r_["res"]["events"], "why": why, "position": pos})
        else:
            raise vlib.Inconclusive("trace of history %d rejected (%s at %s %s) although every outcome is as specified: hook placement "
                                    "or TraceVMRun needs attention; events=%s" % (i, why, pos, ev, json.dumps(r_["res"]["events"])[:600]))
    cx.sample({"history": rows[len(rows) // 2]["inv"], "expected": rows[len(rows) // 2]["exp"]})
    if traces:
        cx.sample({"events": traces[len(traces) // 2]["events"][:14]})
    cx.cover.update({
        "evaluations": ninv, "distinct_nontrivial": nontriv, "traces_validated_against_impl": len(traces),
        "histories": len(rows), "max_history_length_exhaustive": maxlen, "exhaustive": True,
        "rule": "all histories of length <= %d over {RunCode, Call} x {normal, error, panic, panic 600 frames deep, overflow, cancelled} x "
                "{cancellable context, context.Background()} x late cancellations of earlier contexts (each context cancelled late at most "
                "once, at most 1 (quick) / 2 (thorough) per history), enumerated by TLC (VMRunHist); thorough adds sampled histories of length "
                "4-6; non-trivial = history with a late cancellation or a non-normal invocation before the last one" % maxlen,
    })
    cx.assumptions += ["Call invocations use the functions of the code that is loaded at that point (as risor.Call does); calling a function of a "
                       "code object that a later RunCode unloaded is outside the histories",
                       "a late cancellation is delivered from a host builtin called by the running snippet and followed by a 25 ms grace period",
                       "hooks vm.VerifEvent (build tag verif)"]
