"""C16 - lists, maps, sets and strings behave as the abstract containers they present (DESIGN.md 5/C16).

Spec: specs/Containers.tla (heap of cells addressed by reference, one operator per operation).
M  ContainersGen mode mc: all histories (start configuration + <= MaxLen steps over an enumerated alphabet),
   action properties: read-only ops leave the heap unchanged, failing ops have no effect, slices/copies are
   fresh cells, mutators return the receiver and change its cell only, out-of-range / wrongly typed subscripts
   raise, len agrees with every other way of counting.
G  spec -> code: ContainersGen mode enum (every maximal enumerated history) and mode sim (tlc -simulate, random
   type-directed histories, indices in [-len-2, len+2], aliasing) emit histories WITH the expected result and
   projection delta of every step; harness/cmd/containers applies them to real objects through the object API
   and as a script on the real VM; observations must equal the expectations.
V  code -> spec: histories drawn in Go while executing on real objects (longer, bigger values) are replayed
   through Containers!Apply by ContainersCheck (trace validation, one step per TLC state, sharded), as are the
   random histories of G.
A disagreement is re-executed in a fresh driver process before it is reported.
"""
import json
import os
import re
import threading

import vlib

MUTATORS = {"set", "cset", "append", "insert", "pop", "remove", "extend", "reverse", "sort", "clear", "delete",
            "update", "setdefault", "setattr", "sadd", "each"}
FRESH = {"slice", "copy", "sorted", "reversed", "plus", "keys", "values", "items", "union", "intersection",
         "difference", "map", "filter", "iter"}
INDEXED = {"get", "set", "cset", "pop", "delete", "insert", "slice"}


def gen_cfg(mode, maxlen, names=("a", "b"), idx=(-3, -1, 0, 2), props=False, salt=0):
    lines = ["CONSTANTS", '  Mode = "%s"' % mode, "  MaxLen = %d" % maxlen, "  Salt = %d" % salt,
             "  ENames = {%s}" % ", ".join('"%s"' % n for n in names),
             "  EIdxOff = {%s}" % ", ".join(str(i + 4) for i in idx),
             "INIT Init", "NEXT Next", "INVARIANT Emit", "CHECK_DEADLOCK FALSE"]
    if props:
        lines += ["VIEW MCView", "INVARIANT LenAgrees", "INVARIANT WellFormed"]
        lines += ["PROPERTY " + p for p in ("PropReadOnly", "PropErrorNoEffect", "PropFresh", "PropSelf", "PropFrame",
                                            "PropRange", "PropKeyType")]
    return "\n".join(lines) + "\n"


def unq(s):
    return s.replace('\\"', '"').replace('\\\\', '\\')


def parse_hist_lines(lines):
    """HIST / PRE / SUF lines of ContainersGen -> list of histories (each a list of entries {st, r, k, ch, tr})."""
    hists, pre, suf = [], {}, []
    for ln in lines:
        ln = ln.strip()
        if not ln.startswith("<<"):
            continue
        m = re.match(r'^<<"HIST", "(.*)">>$', ln)
        if m:
            hists.append(json.loads(unq(m.group(1))))
            continue
        m = re.match(r'^<<"PRE", "(.*)">>$', ln)
        if m:
            h = json.loads(unq(m.group(1)))
            pre[h[0]["st"]["op"] + h[0]["st"]["dst"] + h[1]["st"]["op"] + h[1]["st"]["dst"]] = h
            continue
        m = re.match(r'^<<"SUF", "([^"]*)", "(.*)">>$', ln)
        if m:
            suf.append((m.group(1), json.loads(unq(m.group(2)))))
    for key, s in suf:
        hists.append(pre[key] + s)
    return hists


def arg_is_int(a):
    return a.get("k") == "v" and a["v"].get("t") == "int"


def features(steps, obs):
    """Measured non-triviality of one applied history: (aliasing step?, boundary-index step?)."""
    alias = boundary = False
    touched = set()      # names that were source or result of a copying operation
    for st, ob in zip(steps, obs):
        op = st["op"]
        x = st["x"].get("n") if st["x"].get("k") == "n" else None
        if op in MUTATORS and ob["r"][0] == 0:
            if len(ob["ch"]) >= 2:
                alias = True                      # one mutation observed through two names (alias or nesting)
            if x in touched:
                alias = True                      # slice/copy-then-mutate
        if op in FRESH and ob["r"][0] == 0 and st["dst"]:
            touched.add(st["dst"])
            if x:
                touched.add(x)
        if op == "bind" and st["dst"] and st["dst"] in touched and x not in touched:
            touched.discard(st["dst"])
        if op in INDEXED:
            n = ob.get("n", 0)
            for a in (st["a"], st["b"]) if op in ("slice",) else (st["a"],):
                if arg_is_int(a):
                    i = a["v"]["v"]
                    if i in (-n - 2, -n - 1, -n, -1, 0, n - 1, n, n + 1, n + 2):
                        boundary = True
    return alias, boundary


def first_diff(exp, obs):
    """Index of the first step whose observation differs from the expectation, else None."""
    for i, e in enumerate(exp):
        if i >= len(obs):
            return i
        o = obs[i]
        if e["r"] != o["r"]:
            return i
        if e.get("tr"):
            return None                            # failed in-place sort: contents unspecified from here on
        if e["ch"] != o["ch"]:
            return i
    return None


def decode(flat):
    """Human readable form of a flat projection (for reports)."""
    pos = [0]

    def rd():
        t = flat[pos[0]]
        pos[0] += 1
        if t == 1:
            pos[0] += 1
            return flat[pos[0] - 1]
        if t == 2:
            n = flat[pos[0]]
            s = "".join(chr(c) for c in flat[pos[0] + 1: pos[0] + 1 + n])
            pos[0] += 1 + n
            return s
        if t == 3:
            pos[0] += 1
            return bool(flat[pos[0] - 1])
        if t == 4:
            return None
        if t == 5:
            pos[0] += 1
            return flat[pos[0] - 1] / 2.0
        if t in (6, 8):
            n = flat[pos[0]]
            pos[0] += 1
            items = [rd() for _ in range(n)]
            return items if t == 6 else {"set": items}
        if t == 7:
            n = flat[pos[0]]
            pos[0] += 1
            out = {}
            for _ in range(n):
                kl = flat[pos[0]]
                k = "".join(chr(c) for c in flat[pos[0] + 1: pos[0] + 1 + kl])
                pos[0] += 1 + kl
                out[k] = rd()
            return out
        return "<alien>"
    try:
        return rd()
    except Exception:  # noqa
        return flat


def show_obs(o):
    if o is None:
        return None
    r = o["r"]
    return {"result": ("raised " + str(o.get("k", ""))) if r[0] == 1 else decode(r[1:]),
            "changed": {c["n"]: decode(c["p"]) for c in o.get("ch", [])}}


def failed(o):
    return o is None or o.get("k") in ("crash", "hang") or bool(o.get("err") or o.get("apierr") or o.get("screrr"))


class Driver:
    def __init__(self, cx, binpath):
        self.cx = cx
        self.bin = binpath
        self.n = 0

    def apply(self, rows, tag):
        self.n += 1
        inp = self.cx.path("%s_in%d.ndjson" % (tag, self.n))
        out = self.cx.path("%s_out%d.ndjson" % (tag, self.n))
        vlib.write_ndjson(inp, [{"id": r["id"], "steps": r["steps"]} for r in rows])
        self.cx.run([self.bin, "apply", "-in", inp, "-out", out], timeout=1500)
        res = {r["id"]: r for r in vlib.read_ndjson(out)}
        os.remove(inp)
        os.remove(out)
        # a worker that was starved (hang / script timeout) or died is given one more chance, alone
        again = [r for r in rows if failed(res.get(r["id"]))]
        if again and len(again) <= 50 and tag != "retry":
            for rid, o in self.apply(again, "retry").items():
                if not failed(o):
                    res[rid] = o
        return res


class TraceSink:
    """Rows {id, steps, obs} for ContainersCheck, written round-robin into shard files as they arrive."""

    def __init__(self, cx, prefix, nshards):
        self.cx = cx
        self.prefix = prefix
        self.paths = [cx.path("%s.shard%d.ndjson" % (prefix, k)) for k in range(nshards)]
        self.files = [open(p, "w") for p in self.paths]
        self.where = {}      # id -> (shard, leg, mode)
        self.n = 0

    def add(self, rid, steps, obs, leg, mode):
        k = self.n % len(self.files)
        self.n += 1
        row = {"id": rid, "steps": steps, "obs": [{"r": o["r"], "ch": o["ch"]} for o in obs]}
        self.files[k].write(json.dumps(row, separators=(",", ":")) + "\n")
        self.where[rid] = (k, leg, mode)

    def fetch(self, rid):
        k, leg, mode = self.where[rid]
        with open(self.paths[k]) as f:
            for ln in f:
                if ln.startswith('{"id":%d,' % rid):
                    r = json.loads(ln)
                    return leg, mode, r["steps"], r["obs"]
        raise KeyError(rid)

    def validate(self):
        """Replay every row through the spec: (mismatches {id: (step, expected)}, unknown {id: step})."""
        for f in self.files:
            f.close()
        cx = self.cx
        paths = [p for p in self.paths if os.path.getsize(p) > 0]
        results = [None] * len(paths)
        errors = []

        def work(k):
            try:
                results[k] = cx.tlc("ContainersCheck", env={"VERIF_HISTS": paths[k]}, workers=1,
                                    name="%s_%d" % (self.prefix, k), heap="2g", timeout=2400)
            except Exception as e:  # noqa
                errors.append(e)
        ths = [threading.Thread(target=work, args=(k,)) for k in range(len(paths))]
        for t in ths:
            t.start()
        for t in ths:
            t.join()
        if errors:
            raise errors[0]
        mism, unknown = {}, {}
        for r in results:
            cx.tlc_must_pass(r, "ContainersCheck")
            for ln in r.lines:
                ln = ln.strip()
                m = re.match(r'^<<"MISMATCH", (-?\d+), (\d+), "(.*)">>$', ln)
                if m:
                    mism[int(m.group(1))] = (int(m.group(2)), json.loads(unq(m.group(3))))
                    continue
                m = re.match(r'^<<"UNKNOWN", (-?\d+), (\d+)>>$', ln)
                if m:
                    unknown[int(m.group(1))] = int(m.group(2))
            r.lines = r.out = None
        return mism, unknown


def simulate(cx, simlen, nsim, nproc):
    """tlc -simulate in nproc single-worker processes (one seed, different salts: the workers of one
    process draw identical numbers). Returns one list of raw HIST lines per process."""
    results = [None] * nproc
    errors = []

    def work(k):
        try:
            r = cx.tlc("ContainersGen", cfg_text=gen_cfg("sim", simlen, salt=k + 1),
                       simulate="num=%d" % (nsim // nproc), depth=simlen + 2, workers=1,
                       name="sim_%d" % k, timeout=2400, heap="2g")
            cx.tlc_must_pass(r, "ContainersGen (simulate)")
            results[k] = [ln for ln in r.lines if ln.startswith('<<"HIST"')]
            r.lines = r.out = None
        except Exception as e:  # noqa
            errors.append(e)
    ths = [threading.Thread(target=work, args=(k,)) for k in range(nproc)]
    for t in ths:
        t.start()
    for t in ths:
        t.join()
    if errors:
        raise errors[0]
    return results


def chunks(seq, n):
    for i in range(0, len(seq), n):
        yield seq[i:i + n]


class Tally:
    def __init__(self):
        self.suspects = []       # (leg, id, mode, step, steps, expected entry, observed entry)
        self.harness_fail = []   # (leg, id, steps, driver answer)
        self.distinct = set()
        self.nontriv = set()
        self.steps_api = self.steps_scr = 0
        self.n_alias = self.n_bound = 0
        self.kinds = {}
        self.ops = set()

    def account(self, steps, o):
        api = o.get("api") or []
        self.steps_api += len(api)
        self.steps_scr += len(o["scr"]) if o.get("scr") is not None else len(api)
        key = hash(json.dumps(steps, sort_keys=True))
        self.distinct.add(key)
        al, bd = features(steps, api)
        self.n_alias += al
        self.n_bound += bd
        if al or bd:
            self.nontriv.add(key)
        for st in steps:
            self.ops.add(st["op"])


def run(cx):
    cx.level = "model_checking"
    quick = cx.quick()
    drv = Driver(cx, cx.go_build("containers"))
    tl = Tally()
    sink = TraceSink(cx, "trace", min(vlib.NCPU, 12))
    CH = 6000      # histories per driver call (bounds the memory of the driver and of this process)

    # ------------------------------------------------------------------ leg M
    if quick:
        mc = cx.tlc("ContainersGen", cfg_text=gen_cfg("mc", 2, ("a", "b"), (-3, -1, 0, 2), props=True), workers=8, name="mc")
    else:
        mc = cx.tlc("ContainersGen", cfg_text=gen_cfg("mc", 3, ("a", "b"), (-3, -1, 0, 2), props=True), workers=12, name="mc",
                    timeout=2400, heap="6g")
    cx.tlc_must_pass(mc, "ContainersGen (leg M: the model violates one of its own properties or failed)")
    if mc.distinct < 1000:
        raise vlib.Inconclusive("leg M explored only %d states" % mc.distinct)
    mc.lines = mc.out = None
    cx.log("leg M: %d transitions, %d distinct states, properties hold" % (mc.states_generated, mc.distinct))

    # ------------------------------------------------------------------ leg G: histories with expectations from the spec
    next_id = [0]

    def apply_expected(hists, leg, to_trace):
        """Apply spec-generated histories (entries carry the expectation) and compare."""
        rows = []
        for h in hists:
            rows.append({"id": next_id[0], "steps": [e["st"] for e in h]})
            next_id[0] += 1
        obs = drv.apply(rows, "g")
        for row, h in zip(rows, hists):
            o = obs.get(row["id"])
            if failed(o):
                tl.harness_fail.append((leg, row["id"], row["steps"], o))
                continue
            tl.account(row["steps"], o)
            for mode in ("api", "scr"):
                ob = o.get(mode)
                if ob is None:
                    continue
                i = first_diff(h, ob)
                if i is not None:
                    tl.suspects.append((leg, row["id"], mode, i, row["steps"], h[i], ob[i] if i < len(ob) else None))
                else:
                    for e, x in zip(h, ob):
                        if e["r"][0] == 1 and e["k"] != "anyerror" and e["k"] != x.get("k"):
                            kk = "%s: spec %s / code %s" % (e["st"]["op"], e["k"], x.get("k"))
                            tl.kinds[kk] = tl.kinds.get(kk, 0) + 1
            if to_trace:
                sink.add(row["id"], row["steps"], o["api"], leg, "api")

    if quick:    # start configuration + every single step (histories of length 3)
        en = cx.tlc("ContainersGen", cfg_text=gen_cfg("enum", 1, ("a", "b"), (-4, -3, -1, 0, 2, 3)), workers=4, name="enum", heap="4g")
    else:        # start configuration + every pair of steps (histories of length 4)
        en = cx.tlc("ContainersGen", cfg_text=gen_cfg("enum", 2, ("a",), (-3, -1, 2)), workers=12, name="enum",
                    timeout=2400, heap="6g")
    cx.tlc_must_pass(en, "ContainersGen (enum)")
    elines = [ln for ln in en.lines if ln.startswith('<<"PRE"') or ln.startswith('<<"SUF"')]
    en.lines = en.out = None
    pre = [ln for ln in elines if ln.startswith('<<"PRE"')]
    suf = [ln for ln in elines if ln.startswith('<<"SUF"')]
    n_enum = len(suf)
    del elines
    for part in chunks(suf, CH):
        apply_expected(parse_hist_lines(pre + part), "Genum", False)
    del suf
    cx.log("leg G: %d enumerated histories applied, %d suspects" % (n_enum, len(tl.suspects)))

    simlen = 12 if quick else 40
    nsim = 1500 if quick else 12000
    n_sim = 0
    samples = []
    for plines in simulate(cx, simlen, nsim, 8 if quick else 12):
        for part in chunks(plines, CH):
            hs = parse_hist_lines(part)
            n_sim += len(hs)
            if len(samples) < 2 and hs:
                samples.append({"history": [e["st"]["op"] for e in hs[0]][:20], "expected_last": show_obs(hs[0][-1])})
            apply_expected(hs, "Gsim", True)     # also replayed by the trace spec (observed side)
    if n_enum < 500 or n_sim < nsim // 2:
        raise vlib.Inconclusive("generation produced too few histories (enum %d, sim %d)" % (n_enum, n_sim))
    cx.log("leg G: %d simulated histories applied, %d suspects" % (n_sim, len(tl.suspects)))

    # ------------------------------------------------------------------ leg V: histories drawn in Go, validated by the trace spec
    nv = 1500 if quick else 16000
    vlen = 16 if quick else 48
    n_v = 0
    probe = None
    for base in range(0, nv, CH):
        cnt = min(CH, nv - base)
        vin = cx.path("v_hist.ndjson")
        cx.run([drv.bin, "gen", "-seed", str(cx.seed * 7919 + base), "-n", str(cnt), "-len", str(vlen), "-out", vin,
                "-base", str(2000000 + base)])
        vrows = [r for r in vlib.read_ndjson(vin) if r.get("steps")]
        vobs = drv.apply(vrows, "v")
        for row in vrows:
            o = vobs.get(row["id"])
            if failed(o):
                tl.harness_fail.append(("V", row["id"], row["steps"], o))
                continue
            n_v += 1
            tl.account(row["steps"], o)
            sink.add(row["id"], row["steps"], o["api"], "V", "api")
            if o.get("scr") is not None:
                sink.add(row["id"] + 1000000, row["steps"][:len(o["scr"])], o["scr"], "V", "scr")
            if len(samples) < 4:
                samples.append({"history": [st["op"] for st in row["steps"]][:24]})
            if probe is None:
                # negative self-test: a corrupted observation must be rejected by the trace spec
                for i, ob in enumerate(o["api"]):
                    if ob["r"][0] == 0 and len(ob["r"]) >= 3 and ob["r"][1] == 1:
                        bad = json.loads(json.dumps(o["api"]))
                        bad[i]["r"][2] += 1
                        probe = bad
                        sink.add(-1, row["steps"], bad, "probe", "api")
                        break
    if n_v < nv // 2:
        raise vlib.Inconclusive("the Go generator produced %d of %d histories" % (n_v, nv))
    n_traces = sink.n - (1 if probe else 0)
    mism, unknown = sink.validate()
    if probe and -1 not in mism:
        raise vlib.Inconclusive("negative self-test: the trace spec accepted a corrupted observation")
    mism.pop(-1, None)
    skipped = 0
    for hid, (step, exp) in sorted(mism.items()):
        leg, mode, steps, ob = sink.fetch(hid)
        tl.suspects.append((leg, hid, mode, step, steps, exp, ob[step] if step < len(ob) else None))
    for hid, step in unknown.items():
        skipped += len(sink.fetch(hid)[2]) - step
    cx.log("leg V: %d Go-drawn histories; %d rows validated by ContainersCheck, %d mismatches, %d histories left the model (%d steps skipped)" % (
        n_v, n_traces, len(mism), len(unknown), skipped))

    # ------------------------------------------------------------------ known findings: replay the pinned witnesses
    known = cx.known_findings()
    for f in known:
        w = f["witness"]
        o = drv.apply([{"id": 0, "steps": w["steps"]}], "known").get(0, {})
        ks = TraceSink(cx, "known_" + f["id"], 1)
        for k, m in enumerate(("api", "scr")):
            if o.get(m):
                ks.add(k, w["steps"][:len(o[m])], o[m], "known", m)
        m2 = ks.validate()[0] if ks.n else {}
        if m2 or o.get("k") in ("crash", "hang"):
            cx.report_known(f)
        else:
            cx.notes.append("known finding %s: witness no longer fails" % f["id"])

    def classify(steps, step, mode):
        for f in known:
            sig = f.get("sig", {})
            if sig.get("op") == steps[step]["op"] and sig.get("mode", mode) == mode:
                return f
        return None

    # ------------------------------------------------------------------ verdicts (re-execute before reporting)
    reported = {}
    for leg, hid, mode, step, steps, exp, ob in tl.suspects:
        key = (mode, steps[step]["op"] if step < len(steps) else "?")
        if reported.get(key, 0) >= 2 or len(reported) >= 12:
            reported[key] = reported.get(key, 0) + 1
            continue
        f = classify(steps, step, mode) if step < len(steps) else None
        if f is not None:
            cx.report_known(f)
            continue
        again = drv.apply([{"id": 0, "steps": steps[:step + 1]}], "re").get(0, {})
        ob2 = again.get(mode)
        if ob2 is None and mode == "scr" and not again.get("screrr"):
            ob2 = again.get("api")
        o2 = ob2[step] if ob2 and step < len(ob2) else None
        same = o2 is not None and ob is not None and o2["r"] == ob["r"] and (exp.get("tr") or o2["ch"] == ob["ch"])
        differs = o2 is None or o2["r"] != exp["r"] or (not exp.get("tr") and o2["ch"] != exp["ch"])
        if not (differs and (same or ob is None)):
            cx.notes.append("disagreement on history %s step %d (%s) not reproduced" % (hid, step, mode))
            tl.harness_fail.append((leg, hid, steps, {"unreproduced": True}))
            continue
        reported[key] = reported.get(key, 0) + 1
        script = cx.run([drv.bin, "script", "-in", _one(cx, steps[:step + 1])]).stdout.decode("utf8", "replace")
        cx.violation(
            "container operation %r (%s mode, leg %s) does not behave as the reference model: expected %s, observed %s" % (
                steps[step]["op"], "object API" if mode == "api" else "script", leg,
                json.dumps(show_obs({"r": exp["r"], "k": exp.get("k", exp.get("kind", "")), "ch": exp["ch"]}), ensure_ascii=False)[:300],
                json.dumps(show_obs(o2), ensure_ascii=False)[:300]),
            {"leg": leg, "mode": mode, "step": step, "steps": steps[:step + 1], "expected": exp, "observed": o2,
             "script": script})
    if tl.harness_fail and not cx.violations:
        crashes = [h for h in tl.harness_fail if h[3] and h[3].get("k") in ("crash", "hang")]
        if crashes:
            leg, hid, steps, o = crashes[0]
            again = drv.apply([{"id": 0, "steps": steps}], "re").get(0, {})
            if again.get("k") in ("crash", "hang"):
                cx.violation("applying a container history kills or hangs the process: %s" % json.dumps(again)[:300],
                             {"leg": leg, "steps": steps, "observed": again})
        if not cx.violations:
            leg, hid, steps, o = tl.harness_fail[0]
            raise vlib.Inconclusive("%d histories could not be applied / reproduced, e.g. leg %s id %s: %s" % (
                len(tl.harness_fail), leg, hid, json.dumps(o)[:400]))

    # ------------------------------------------------------------------ iteration under mutation, code-point strings
    # Containers.tla's "iter" is a snapshot of the pairs; what a LOOP sees while its body changes the list is specified
    # by Lang.tla (the list is read anew at every step): Grammar!IterMuts and Grammar!StrProgs, judged by LangCheck
    import langlib
    lang = cx.go_build("lang")
    im_cases, im_path = langlib.run_family(cx, lang, "itermuts", 0)
    im_by_id = {c["id"]: c for c in im_cases}
    im_mism, im_unknown = langlib.tlc_conform(cx, im_cases, prefix="itermuts")
    if im_mism:
        ids = ",".join(str(i) for i, _ in im_mism[:100])
        p = cx.run([lang, "rerun", "-in", im_path, "-ids", ids])
        again = {}
        for ln in p.stdout.decode().splitlines():
            if ln.strip():
                dd = json.loads(ln)
                again[dd["id"]] = dd["obs"]
        strip = lambda o: {k: v for k, v in (o or {}).items() if k not in ("msg", "msgcps")}
        nrep = 0
        for i, specjs in im_mism[:100]:
            c = im_by_id[i]
            if strip(again.get(i)) != strip(c["obs"]):
                cx.notes.append("itermuts case %d: observation not reproduced" % i)
                continue
            nrep += 1
            if nrep <= 8:
                cx.violation("a loop over a container / a string operation does not see what the reference model says: src=%r observed=%s specified=%s" % (
                    c["src"][:300], json.dumps(strip(c["obs"]))[:300], specjs[:300]),
                    {"leg": "itermuts", "src": c["src"], "observed": c["obs"], "specified": specjs})
    cx.cover["iteration_under_mutation_and_string_programs"] = len(im_cases) - len(im_unknown)

    # ------------------------------------------------------------------ evidence
    for sm in samples:
        cx.sample(sm)
    if tl.kinds:
        cx.notes.append("error kinds that differ from the model's (raised-ness agrees; the property does not fix the kind): %s" % (
            json.dumps(dict(sorted(tl.kinds.items(), key=lambda kv: -kv[1])[:8]))))
    cx.cover.update({
        "evaluations": tl.steps_api + tl.steps_scr,
        "steps_applied_object_api": tl.steps_api,
        "steps_applied_script": tl.steps_scr,
        "histories": len(tl.distinct),
        "distinct_nontrivial": len(tl.nontriv),
        "histories_with_aliasing_step": tl.n_alias,
        "histories_with_boundary_index": tl.n_bound,
        "enumerated_histories": n_enum,
        "simulated_histories": n_sim,
        "go_drawn_histories": n_v,
        "traces_validated_against_impl": n_traces,
        "steps_outside_model_skipped": skipped,
        "operations_exercised": sorted(tl.ops),
        "model_states_leg_M": mc.distinct,
        "model_transitions_leg_M": mc.states_generated,
        "exhaustive": False,   # the random parts are samples; what IS enumerated completely:
        "exhaustive_part": "leg M and the enumerated part of leg G: every history = one of 5 start configurations (aliased list, "
                      "nested list, map holding a list, two sets, string + list; 2 steps each) followed by every sequence of "
                      "<= MaxLen steps over the enumerated alphabet ContainersGen!Alphabet (leg M: MaxLen 2 quick / 3 thorough; "
                      "leg G: 1 quick / 2 thorough); the random parts are samples",
        "rule": "histories over names a-d: enumerated by TLC (mode enum), drawn by tlc -simulate from the spec (type directed, "
                "indices in [-len-2, len+2], values: small ints, halves, code-point strings, bools, nil, references; every "
                "second copying step is followed by an in-place mutation of source or copy) with the expected result and "
                "projection delta of every step, and drawn in Go on the real objects (ints to 1e6, multi-byte strings); "
                "each applied to real containers through the object API and as a script; non-trivial = contains a mutation "
                "observed through two names or applied to the source/result of a slice/copy, or an index equal to one of "
                "-len-2..-len, -1, 0, len-1..len+2",
    })
    cx.assumptions += [
        "projection: run.Project (deep, by name) flattened; floats are multiples of 1/2; identity is observed through effects only",
        "error kinds are not compared (the property demands an error, not its kind); recovered Go panics count as errors",
        "outside the model (skipped, counted): cyclic data (C03), nesting > 5, lists/maps > 14, string methods count/index, "
        "iteration over numbers, the contents of a list after a FAILED in-place sort, mutation during iteration",
        "Set.Difference has no script-level method: both modes call the Go method",
    ]


def _one(cx, steps):
    p = cx.path("one.ndjson")
    vlib.write_ndjson(p, [{"id": 0, "steps": steps}])
    return p
