"""C11 - scripts can reach only the globals the host configuration allows (DESIGN.md 5, C11).

Leg M (specs/Config.tla over the REAL default object graph G0 dumped by harness/cmd/config):
  TLC builds every single-name configuration (deny / override one top-level name or one dotted
  module member) and the sampled subsets, applies the edits in every order, and checks on the
  result: order freedom (= declarative Expected), no removed object reachable by any attribute
  path (incl. __module__ back-references) unless it still has a name, overrides observed, a second
  default configuration unaffected.  Each configuration is printed with the spec's access-path set.
Leg G (specs/ConfigCheck.tla): the Go driver builds the real risor.Config for each configuration,
  walks its real object graph from cfg.Globals(), evaluates every access path in six styles
  (identifier/attribute, getattr, import, import-as, from-import, from-import-as) with risor.Eval,
  then builds a default configuration again; TLC checks real graph = Expected, the unreachability and
  override invariants on the REAL graph, every script outcome, and after-graph = G0.
A MISMATCH is re-executed (fresh driver process + TLC) before it is reported as a violation.
"""
import json
import os
import random
import re
import threading

import vlib
import langlib

KINDS = ["fn", "mod"]


def unq(s):
    return s.replace('\\"', '"').replace('\\\\', '\\')


def is_prefix_eq(a, b):
    return len(a) <= len(b) and b[:len(a)] == a


def well_formed(deny, ov, existing, nodefaults, host):
    names = [o["name"] for o in ov]
    for o in names:
        if tuple(o) not in existing:
            return False
        if nodefaults and o[0] not in host:
            return False
        if any(is_prefix_eq(d, o) for d in deny):
            return False
    if len(set(tuple(n) for n in names)) != len(names):
        return False
    if sum(1 for o in ov if o["kind"] == "mod") > 1:
        return False        # one replacement object per kind: a module installed twice would alias
    return True


def extra_configs(cx, doc):
    """Sampled / structured multi-name configurations (seeded)."""
    rnd = random.Random(cx.seed * 7919 + 11)
    names = doc["names"]
    existing = set(tuple(n) for n in names)
    host = set(doc["host"])
    host_names = [n for n in names if n[0] in host]
    modules = sorted(set(tuple(n[:-1]) for n in names if len(n) >= 2))
    out = []

    def add(deny, ov, nodefaults=False):
        if well_formed(deny, ov, existing, nodefaults, host):
            out.append({"nodefaults": nodefaults, "deny": deny, "ov": ov})

    # WithoutDefaultGlobals, alone and combined with edits of host names
    add([], [], True)
    add([["vhost", "sub", "leaf"], ["os"]], [], True)
    add([["vhostfn"]], [{"name": ["vhost", "sub", "deep", "other"], "kind": "fn"}], True)
    add([], [{"name": ["vhost", "sub"], "kind": "mod"}, {"name": ["vhostfn2"], "kind": "fn"}], True)
    # both names of the host alias removed; one removed, one overridden
    add([["vhostfn"], ["vhostfn2"]], [])
    add([["vhostfn"]], [{"name": ["vhostfn2"], "kind": "fn"}])
    # a module replaced by a module while a member of the ORIGINAL module is denied (deny before override)
    for m in modules:
        for member in ("getenv", "leaf"):
            if tuple(m) + (member,) in existing:
                add([list(m) + [member]], [{"name": list(m), "kind": "mod"}])
    # a module and one of its members both overridden: the member's replacement lands in the NEW module
    # (the replacement module has members getenv and leaf only)
    for m in modules:
        for member in ("getenv", "leaf", "exit", "deep"):
            if tuple(m) + (member,) in existing:
                add([], [{"name": list(m), "kind": "mod"}, {"name": list(m) + [member], "kind": "fn"}])
    add([], [{"name": ["vhost", "sub"], "kind": "mod"}, {"name": ["vhost", "sub", "deep", "leaf"], "kind": "fn"}])
    # names that do not resolve are ignored
    add([["nosuch"], ["os", "nosuch"], ["len", "x"], ["vhost", "k", "x"], ["os", "getenv"]], [])
    # module and one of its members both denied (either order)
    add([["os"], ["os", "exit"]], [])
    add([["vhost", "sub"], ["vhost", "sub", "deep", "leaf"]], [])
    # long denylists in which some dotted names do not resolve (module not installed on this host, or removed as a
    # whole by the same list) stand between names that do: in whatever order the list is applied, every name that
    # resolves must be gone
    add([["aws", "config"], ["os", "exit"], ["zzz", "a"], ["vhost", "sub", "leaf"], ["strings", "split"]], [])
    add([["exec"], ["exec", "command"], ["os", "exit"], ["os", "remove_all"], ["vhostfn"]], [])
    add([["math"], ["math", "abs"], ["math", "zzz"], ["os", "getenv"], ["time", "now"], ["vhost", "sub", "deep", "leaf"]], [])
    add([["a", "b"], ["vhost"], ["vhost", "sub", "leaf"], ["vhostfn2"], ["os", "exit"]], [], True)
    if cx.quick():
        # quick: a sample of the single-name overrides (thorough enumerates all of them in the spec)
        pool = list(names)
        rnd.shuffle(pool)
        picked = pool[:70] + host_names + [list(m) for m in modules if len(m) == 1]
        seen = set()
        for n in picked:
            if tuple(n) in seen:
                continue
            seen.add(tuple(n))
            add([], [{"name": n, "kind": rnd.choice(KINDS)}])
        nsub = 40
    else:
        nsub = 1500
    # random subsets: 1-4 denied and 0-3 overridden names, biased towards one module
    for _ in range(nsub * 3):
        if len(out) >= nsub + 200:
            break
        if rnd.random() < 0.5:
            m = list(rnd.choice(modules))
            pool = [n for n in names if is_prefix_eq(m[:1], n)] + rnd.sample(names, 6)
        else:
            pool = names
        k = rnd.randint(1, 4)
        j = rnd.randint(0, 3)
        picks = rnd.sample(pool, min(len(pool), k + j))
        deny = picks[:k]
        ov = [{"name": n, "kind": rnd.choice(KINDS)} for n in picks[k:]]
        for o in [o for o in ov if o["kind"] == "mod"][1:]:
            o["kind"] = "fn"
        add(deny, ov, False)
    return out


def parse_cases(r):
    cases = []
    for s in r.tuples("CASE"):
        cases.append(json.loads(s))
    cases.sort(key=lambda c: c["id"])
    return cases


def g_leg(cx, drv, g0, cases, tag):
    """Run the driver on the cases and ConfigCheck on its observations; returns (rows meta, mismatches)."""
    cases_path = cx.path("cases_%s.ndjson" % tag)
    vlib.write_ndjson(cases_path, cases)
    obs_path = cx.path("obs_%s.ndjson" % tag)
    cx.run([drv, "run", "-cases", cases_path, "-out", obs_path, "-workers", str(min(vlib.NCPU, 16))], timeout=1500)
    # shard by line without re-encoding (rows are large)
    nsh = max(1, min(min(vlib.NCPU, 8), len(cases)))
    paths = [cx.path("obs_%s.shard%d.ndjson" % (tag, k)) for k in range(nsh)]
    files = [open(p, "w") for p in paths]
    meta = {}
    with open(obs_path) as f:
        for k, ln in enumerate(f):
            files[k % nsh].write(ln)
            row = json.loads(ln)
            meta[row["id"]] = {"attempts": len(row["att"]), "ok": sum(1 for a in row["att"] if a["ok"]),
                               "nodes": len(row["graph"]["nodes"])}
    for fh in files:
        fh.close()
    results = [None] * nsh
    errors = []

    def work(k):
        try:
            results[k] = cx.tlc("ConfigCheck", env={"VERIF_G0": g0, "VERIF_CASES": paths[k]}, workers=1,
                                name="check_%s_%d" % (tag, k), heap="3g")
        except Exception as e:  # noqa
            errors.append(e)
    ths = [threading.Thread(target=work, args=(k,)) for k in range(nsh)]
    for t in ths:
        t.start()
    for t in ths:
        t.join()
    if errors:
        raise errors[0]
    mism = {}
    for r in results:
        cx.tlc_must_pass(r, "ConfigCheck")
        for ln in r.lines:
            m = re.match(r'^<<"MISMATCH", (-?\d+), "([^"]*)", "(.*)">>$', ln.strip())
            if m:
                mism.setdefault(int(m.group(1)), []).append((m.group(2), unq(m.group(3))[:3000]))
    return meta, mism


def name_of(n):
    return ".".join(n)


def describe(case):
    parts = []
    if case.get("nodefaults"):
        parts.append("WithoutDefaultGlobals()")
    if case["deny"]:
        parts.append("WithoutGlobals(%s)" % ", ".join(name_of(n) for n in case["deny"]))
        same = [name_of(n) for n in case["deny"] if len(n) == 1]
        if same and int(case.get("id", 1)) % 2 == 0:   # the driver's rule (harness/cmd/config: build)
            parts.append("then WithGlobal(%s, <host object>)" % ", ".join(same))
    for o in case["ov"]:
        parts.append("WithGlobalOverride(%s, <%s>)" % (name_of(o["name"]), o["kind"]))
    return " ".join(parts) or "default configuration"


def run(cx):
    os.environ["VERIF_CONFIG_NAMES"] = os.path.join(vlib.VERIF, "specs", "ConfigNames.json")
    cx.level = "model_checking"
    drv = cx.go_build("config")
    g0 = cx.path("g0.json")
    cx.run([drv, "g0", "-out", g0])
    doc = json.load(open(g0))
    graph = doc["graph"]
    if graph["ambiguous"]:
        raise vlib.Inconclusive("labels are not unique in the base graph: %s" % graph["ambiguous"][:5])
    nedges = sum(len(n["a"]) for n in graph["nodes"])
    cx.log("base graph: %d top-level names, %d nodes, %d attribute edges, %d registrable names" % (
        len(graph["env"]), len(graph["nodes"]), nedges, len(doc["names"])))

    if cx.replay:
        payload = json.load(open(cx.replay))["case"]
        cases = [payload["config"]]
        single = 0
    else:
        # ---- leg M: the configuration machine on the real base graph
        extra = extra_configs(cx, doc)
        extra_path = cx.path("extra.ndjson")
        vlib.write_ndjson(extra_path, extra)
        r = cx.tlc("Config", env={"VERIF_G0": g0, "VERIF_EXTRA": extra_path,
                                  "VERIF_ALL_OV": "0" if cx.quick() else "1"}, workers=min(vlib.NCPU, 8), heap="6g")
        cx.tlc_must_pass(r, "Config")
        cases = parse_cases(r)
        single = len(doc["names"]) * (1 if cx.quick() else 3)
        if len(cases) != single + len(extra):
            raise vlib.Inconclusive("Config.tla printed %d configurations, expected %d" % (len(cases), single + len(extra)))
        specfail = [ln for ln in r.lines if ln.startswith('<<"SPECFAIL"')]
        cx.log("leg M: %d configurations (%d single-name, %d sampled/structured), %d states, %d spec-level failures" % (
            len(cases), single, len(extra), r.distinct, len(specfail)))
    by_id = {c["id"]: c for c in cases}

    # ---- leg G: the real Config against the spec
    meta, mism = g_leg(cx, drv, g0, cases, "all")
    evaluations = sum(m["attempts"] for m in meta.values())
    cx.log("leg G: %d configurations built, %d script evaluations, %d configurations with findings" % (
        len(meta), evaluations, len(mism)))

    # ---- verdicts: re-execute every disagreeing configuration once
    if mism:
        again_cases = [by_id[i] for i in sorted(mism)][:40]
        _, mism2 = g_leg(cx, drv, g0, again_cases, "again")
        for c in again_cases:
            i = c["id"]
            if i not in mism2:
                cx.notes.append("configuration %d (%s): finding not reproduced" % (i, describe(c)))
                continue
            kinds = sorted(set(k for k, _ in mism2[i]))
            if set(kinds) <= {"ambiguous-label", "ill-formed"}:
                raise vlib.Inconclusive("harness limitation on %s: %s %s" % (describe(c), kinds, mism2[i][0][1][:300]))
            cx.violation("%s: %s; %s" % (describe(c), ", ".join(kinds), mism2[i][0][1][:700]),
                         {"leg": "G", "config": {k: c[k] for k in ("id", "nodefaults", "deny", "ov", "paths")},
                          "findings": mism2[i][:6]})
        # a configuration that conforms when it is built and probed again was disturbed from outside the first time
        # (evaluations are run with a 5 s limit and many at once): up to three of them are noted, more make the run
        # inconclusive
        if not cx.violations and len(mism) > 3:
            raise vlib.Inconclusive("%d disagreements were not reproduced on re-execution" % len(mism))
    if not cx.replay and specfail and not cx.violations:
        raise vlib.Inconclusive("Config.tla invariants fail on the real base graph but the real configuration conforms: %s"
                                % specfail[0][:500])

    # ---- evidence
    nontriv = sum(1 for c in cases if c.get("nontrivial"))
    for c in cases:
        if c.get("nontrivial") and len(c["paths"]) <= 12:
            cx.sample({"config": describe(c), "paths": [name_of(p) for p in c["paths"]][:12]})
    # capability aliases (same Go function behind another, still registered object): reported, not demanded
    by_fn = {}
    idx_name = {}
    for n in doc["names"]:
        i = graph["env"].get(n[0])
        for a in n[1:]:
            i = graph["nodes"][i - 1]["a"].get(a) if i else None
        if i:
            idx_name.setdefault(i, []).append(name_of(n))
    for i, ns in idx_name.items():
        fn = graph["nodes"][i - 1]["fn"]
        if fn:
            by_fn.setdefault(fn, []).extend(ns)
    aliases = sorted(sorted(v) for v in by_fn.values() if len(v) > 1)
    cx.cover.update({
        "base_graph": {"top_level_names": len(graph["env"]), "nodes": len(graph["nodes"]), "attribute_edges": nedges,
                       "registrable_names": len(doc["names"])},
        "configurations": len(cases),
        "single_name_configurations": single,
        "evaluations": evaluations,
        "distinct_nontrivial": nontriv,
        "traces_validated_against_impl": len(meta),
        "exhaustive": True,
        "exhaustive_scope": "every single-name deny configuration (both tiers) and every single-name override x 2 replacement "
                            "kinds (thorough); multi-name configurations are sampled (seeded)",
        "same_function_aliases": aliases,
        "rule": "configurations: one per registrable name (top-level or dotted member, incl. nested host modules) for deny and for "
                "override, plus seeded subsets and structured pairs; per configuration the spec's path set = every attribute path "
                "of <= 4 names in the real base graph that reaches a removed object or a same-function alias or passes through a "
                "removed name (the name itself and one more attribute), each evaluated in 6 styles by risor.Eval; non-trivial = the removed object is reachable by >= 2 paths "
                "or the name is dotted; evaluations = configurations x paths x styles actually run",
    })
    cx.assumptions += [
        "objects are identified across Config values by label (type, Inspect(), Go function); the driver reports any label carried "
        "by two distinct objects of one graph (none today)",
        "reachability is decided on what expressions evaluate to; builtins are never called; builtin.spawn (a fresh wrapper around the "
        "builtin it was taken from) and methods of value objects (strings, files) add no path back to globals and are not walked",
        "removing os.getenv is not required to remove the distinct top-level getenv object (same Go function); such aliases are listed "
        "in coverage.same_function_aliases",
        "a name both denied and overridden, overrides below a denied name and overrides of absent names are not generated "
        "(outside the property's text); at most one module-kind replacement per configuration (harness: one object per kind)",
    ]
